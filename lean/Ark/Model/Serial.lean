/-
  Ark.Model.Serial — executable model of the container / wrapper / derive-macro
  (de)serialisation code of `ark-serialize` (property C18):

    /repo/serialize/src/impls.rs          bool, integers, usize/isize, BigUint, Option, PhantomData,
                                          Rc/Arc/Cow/&T/&mut T, [T; N], Vec, VecDeque, LinkedList,
                                          [T]/&[T], String, tuples (arity 0..5), BTreeMap, BTreeSet
    /repo/serialize/src/lib.rs            Compress / Validate, `Valid::batch_check` default
    /repo/serialize/src/serde.rs          `impl_canonical!`: CompressedUnchecked, UncompressedUnchecked,
                                          CompressedChecked, UncompressedChecked (mode pinning)
    /repo/serialize-derive/src/{serialize,deserialize}.rs   derive output for structs (named, tuple,
                                          nested-tuple fields are flattened syntactically)

  Rust is statically typed, the model is not: a *type universe* `Ty` names the Rust type and a
  universal value type `Val` carries the data.  `encode`/`size`/`check`/`decode` recurse on `Ty`
  exactly like trait resolution recurses on the Rust type.

  Textual syntax used on the line protocol (parsers/printers live in `DrvC18.lean`):
    types   u8 u16 u32 u64 usize i8 i16 i32 i64 isize bool ph ml str big
            opt(T) tup(T,…) tup() arr<n>(T) vec<esz>(T) deq<esz>(T) list(T) slice(T)
            map(K,V) set(T) arc(T) cow(T) rc(T) ref(T) mut(T) cu(T) uu(T) cc(T) uc(T) st(T,…)
            (<n>, <esz> lower-case hex; <esz> = Rust `size_of::<T>()` of the element type, supplied by
            the harness: it decides capacity overflow / allocation size and is not derivable here)
    values  integers: hex with optional leading '-';  booleans: T F;  strings: s<hex bytes>;
            Option: N, S(v);  tuples/arrays/sequences/sets/structs/unit/PhantomData: [v,…] / [];
            maps: [[k,v],…]

  `ml` is a synthetic *mode-sensitive leaf* declared in the harness (`struct Ml(u8)`): compressed
  encoding `[x]`, uncompressed `[x, 255-x]`, `check()` fails iff `x = 0xEE`, uncompressed decoding
  rejects a wrong complement byte.  It stands in for field elements / curve points so that the
  threading of `Compress`/`Validate` through containers and wrappers is observable.

  Panics, allocation aborts and non-terminating loops are explicit outcomes (`Fail`).
  Every `with_capacity(capped_capacity(len))` driven by a length prefix is recorded as an allocation
  event `Ev`.  NOT recorded: the later growth of the buffer while elements are pushed (`RawVec`
  amortised doubling: the capacity never exceeds twice the number of elements actually read, and
  every element of non-zero width has consumed at least one input byte), the per-node allocations of
  `LinkedList` / `BTreeMap` / `BTreeSet` (one per element read), and the temporary `Vec<&Self>` of a
  derived `batch_check`.  (State of /repo: after 42c2698 `capped_capacity`, 79b530a `len: usize`
  in `LinkedList`.)

  Mathlib-free: linked into the `arkdrv` executable.
-/
namespace Ark.Serial

/-! ## Modes, types, values -/

/-- `ark_serialize::Compress` -/
inductive Compress | yes | no
  deriving DecidableEq, Repr, Inhabited

/-- `ark_serialize::Validate` -/
inductive Validate | yes | no
  deriving DecidableEq, Repr, Inhabited

/-- `impl_uint!` instances plus `usize` / `isize` (written as `u64` / `i64`) -/
inductive IntTy | u8 | u16 | u32 | u64 | usize | i8 | i16 | i32 | i64 | isize
  deriving DecidableEq, Repr, Inhabited

/-- wrappers that serialise exactly like their content.  `rc`, `ref`, `refmut` have no
    `CanonicalDeserialize` impl in Rust (serialise-only); `decode` on them reads the content type
    (the owned type through which such a value is read back). -/
inductive Wrap | arc | cow | rc | ref | refmut
  deriving DecidableEq, Repr, Inhabited

/-- the four mode-pinning wrappers of `serde.rs` (`impl_canonical!`) -/
inductive Pin | cu | uu | cc | uc
  deriving DecidableEq, Repr, Inhabited

def Pin.compress : Pin → Compress
  | .cu => .yes | .uu => .no | .cc => .yes | .uc => .no
def Pin.validate : Pin → Validate
  | .cu => .no | .uu => .no | .cc => .yes | .uc => .yes

/-- the type universe -/
inductive Ty
  | int (k : IntTy)
  | bool
  | phantom                       -- `PhantomData<T>`
  | ml                            -- synthetic mode-sensitive leaf (see header)
  | opt (t : Ty)
  | tup (ts : List Ty)            -- tuples, arity 0..5 in Rust (`impl_tuple!`); `tup []` = `()`
  | arr (n : Nat) (t : Ty)        -- `[T; N]`
  | vec (esz : Nat) (t : Ty)      -- `Vec<T>`, `esz = size_of::<T>()`
  | deq (esz : Nat) (t : Ty)      -- `VecDeque<T>`
  | list (t : Ty)                 -- `LinkedList<T>`
  | slice (t : Ty)                -- `[T]` / `&[T]` (serialise-only; read back as `Vec<T>`)
  | str                           -- `String`
  | big                           -- `num_bigint::BigUint`
  | map (k v : Ty)                -- `BTreeMap<K, V>`
  | set (t : Ty)                  -- `BTreeSet<T>`
  | wrap (w : Wrap) (t : Ty)
  | pin (p : Pin) (t : Ty)
  | struct (fs : List Ty)         -- `#[derive(CanonicalSerialize, CanonicalDeserialize)] struct`
  deriving Repr, Inhabited

/-- universal values.  Sets are `seq` of elements in ascending order; maps are `seq` of
    `seq [k, v]` entries in ascending key order; unit / PhantomData are `seq []`. -/
inductive Val
  | int (i : Int)
  | bool (b : Bool)
  | bytes (bs : List Nat)         -- contents of a `String` (UTF-8 bytes)
  | none
  | some (v : Val)
  | seq (vs : List Val)
  deriving Repr, Inhabited

/-! ## Little-endian integers -/

/-- `w` little-endian bytes of `n mod 256^w` (`to_le_bytes`) -/
def leBytes : Nat → Nat → List Nat
  | 0, _ => []
  | w + 1, n => n % 256 :: leBytes w (n / 256)

/-- value of little-endian bytes (`from_le_bytes`) -/
def leValue : List Nat → Nat
  | [] => 0
  | b :: bs => b + 256 * leValue bs

/-- `core::mem::size_of::<$type>()`; `usize`/`isize` go through `u64`/`i64` -/
def IntTy.width : IntTy → Nat
  | .u8 => 1 | .u16 => 2 | .u32 => 4 | .u64 => 8 | .usize => 8
  | .i8 => 1 | .i16 => 2 | .i32 => 4 | .i64 => 8 | .isize => 8

def IntTy.signed : IntTy → Bool
  | .i8 => true | .i16 => true | .i32 => true | .i64 => true | .isize => true
  | _ => false

/-- `self.to_le_bytes()`; `none` when `i` is not a value of the type -/
def IntTy.enc (k : IntTy) (i : Int) : Option (List Nat) :=
  let m : Int := 256 ^ k.width
  if k.signed then
    if -(m / 2) ≤ i ∧ i < m / 2 then some (leBytes k.width (i % m).toNat) else none
  else
    if 0 ≤ i ∧ i < m then some (leBytes k.width i.toNat) else none

/-- `<$type>::from_le_bytes(bytes)` (two's complement for the signed types) -/
def IntTy.dec (k : IntTy) (bs : List Nat) : Int :=
  let m : Nat := 256 ^ k.width
  let n := leValue bs
  if k.signed && n ≥ m / 2 then (n : Int) - m else n

/-- `BigUint::to_bytes_le`: minimal little-endian bytes, `[0]` for zero -/
def bigBytes (n : Nat) : List Nat :=
  if n = 0 then [0] else leBytes (n.log2 / 8 + 1) n

/-! ## UTF-8 (`String::from_utf8`, Unicode table 3-7) -/

def isCont (b : Nat) : Bool := 0x80 ≤ b && b ≤ 0xBF

def utf8Valid : List Nat → Bool
  | [] => true
  | b0 :: rest =>
    if b0 < 0x80 then utf8Valid rest
    else if 0xC2 ≤ b0 && b0 ≤ 0xDF then
      match rest with
      | b1 :: r => isCont b1 && utf8Valid r
      | _ => false
    else if 0xE0 ≤ b0 && b0 ≤ 0xEF then
      match rest with
      | b1 :: b2 :: r =>
        (if b0 = 0xE0 then 0xA0 ≤ b1 && b1 ≤ 0xBF
         else if b0 = 0xED then 0x80 ≤ b1 && b1 ≤ 0x9F
         else isCont b1) && isCont b2 && utf8Valid r
      | _ => false
    else if 0xF0 ≤ b0 && b0 ≤ 0xF4 then
      match rest with
      | b1 :: b2 :: b3 :: r =>
        (if b0 = 0xF0 then 0x90 ≤ b1 && b1 ≤ 0xBF
         else if b0 = 0xF4 then 0x80 ≤ b1 && b1 ≤ 0x8F
         else isCont b1) && isCont b2 && isCont b3 && utf8Valid r
      | _ => false
    else false

/-! ## Ordering of values (Rust `Ord` of the modelled key types) and `BTreeMap` construction

All modelled `Ord` instances are structural: integers numerically, `false < true`, `String` by
bytes, `None < Some`, tuples / arrays / `Vec` / `VecDeque` / `LinkedList` / `BTreeSet` / `BTreeMap`
/ derived structs lexicographically (a proper prefix is smaller), wrappers like their content. -/

def cmpNats : List Nat → List Nat → Ordering
  | [], [] => .eq
  | [], _ :: _ => .lt
  | _ :: _, [] => .gt
  | a :: as, b :: bs => if a < b then .lt else if b < a then .gt else cmpNats as bs

mutual
def Val.cmp : Val → Val → Ordering
  | .int a, .int b => if a < b then .lt else if b < a then .gt else .eq
  | .bool a, .bool b => if a == b then .eq else if b then .lt else .gt
  | .bytes a, .bytes b => cmpNats a b
  | .none, .none => .eq
  | .none, .some _ => .lt
  | .some _, .none => .gt
  | .some a, .some b => Val.cmp a b
  | .seq as, .seq bs => Val.cmpList as bs
  | _, _ => .eq          -- values of different shape never meet at one Rust type
def Val.cmpList : List Val → List Val → Ordering
  | [], [] => .eq
  | [], _ :: _ => .lt
  | _ :: _, [] => .gt
  | a :: as, b :: bs =>
    match Val.cmp a b with
    | .eq => Val.cmpList as bs
    | o => o
end

def Val.beq (a b : Val) : Bool := Val.cmp a b == .eq

/-- key of a map entry `seq [k, v]` -/
def entryKey : Val → Val
  | .seq (k :: _) => k
  | v => v

/-- insertion into a key-sorted list; an equal key is replaced (`BTreeMap::insert`) -/
def insertBy (key : Val → Val) (e : Val) : List Val → List Val
  | [] => [e]
  | x :: xs =>
    match Val.cmp (key e) (key x) with
    | .lt => e :: x :: xs
    | .eq => e :: xs
    | .gt => x :: insertBy key e xs

/-- `BTreeMap::from_iter` / `BTreeSet::from_iter` (collect, stable sort by key, de-duplicate
    keeping the last of equal keys) — as a fold of insertions, which has the same result -/
def fromIter (key : Val → Val) (es : List Val) : List Val :=
  es.foldl (fun acc e => insertBy key e acc) []

/-- strictly ascending keys: the iteration order of a `BTreeMap` / `BTreeSet` -/
def sortedBy (key : Val → Val) : List Val → Bool
  | [] => true
  | [_] => true
  | a :: b :: rest => Val.cmp (key a) (key b) == .lt && sortedBy key (b :: rest)

/-! ## Serialisation: `serialize_with_mode`, `serialized_size` -/

/-- concatenation of the encodings of a sequence; `none` if one element is ill-typed -/
def concatMapM (f : Val → Option (List Nat)) : List Val → Option (List Nat)
  | [] => some []
  | v :: vs =>
    match f v, concatMapM f vs with
    | some a, some b => some (a ++ b)
    | _, _ => none

def sumMap (f : Val → Nat) : List Val → Nat
  | [] => 0
  | v :: vs => f v + sumMap f vs

/-- `serialize_seq`: `len as u64 || item 0 || …` -/
def encSeq (f : Val → Option (List Nat)) (vs : List Val) : Option (List Nat) :=
  (concatMapM f vs).map (fun b => leBytes 8 vs.length ++ b)

mutual
/-- `CanonicalSerialize::serialize_with_mode` into a `Vec<u8>` writer (which cannot fail).
    `none` = the value is not a value of the type (unrepresentable in Rust). -/
def encode : Ty → Compress → Val → Option (List Nat)
  | .int k, _, .int i => k.enc i
  | .bool, _, .bool b => some [if b then 1 else 0]              -- `&[*self as u8]`
  | .phantom, _, .seq [] => some []
  | .ml, c, .int x =>
    if 0 ≤ x ∧ x < 256 then
      match c with
      | .yes => some [x.toNat]
      | .no => some [x.toNat, 255 - x.toNat]
    else none
  | .opt _, _, .none => some [0]                                 -- `self.is_some()` as bool
  | .opt t, c, .some v => (encode t c v).map (fun b => 1 :: b)
  | .tup ts, c, .seq vs => encodeTup ts c vs
  | .arr n t, c, .seq vs =>                                      -- no length prefix
    if vs.length = n then concatMapM (fun v => encode t c v) vs else none
  | .vec _ t, c, .seq vs => encSeq (fun v => encode t c v) vs   -- via `as_slice()`
  | .deq _ t, c, .seq vs => encSeq (fun v => encode t c v) vs
  | .list t, c, .seq vs => encSeq (fun v => encode t c v) vs
  | .slice t, c, .seq vs => encSeq (fun v => encode t c v) vs
  | .str, _, .bytes bs =>                                        -- `self.as_bytes()` as `[u8]`
    if utf8Valid bs && bs.all (· < 256) then some (leBytes 8 bs.length ++ bs) else none
  | .big, _, .int i =>                                           -- `self.to_bytes_le()` as `Vec<u8>`
    if 0 ≤ i then let b := bigBytes i.toNat; some (leBytes 8 b.length ++ b) else none
  | .map k v, c, .seq es =>
    if sortedBy entryKey es then
      (concatMapM (fun e => match e with
          | .seq [a, b] =>
            match encode k c a, encode v c b with
            | some x, some y => some (x ++ y)
            | _, _ => none
          | _ => none) es).map (fun b => leBytes 8 es.length ++ b)
    else none
  | .set t, c, .seq vs =>
    if sortedBy id vs then encSeq (fun v => encode t c v) vs else none
  | .wrap _ t, c, v => encode t c v
  | .pin p t, _, v => encode t p.compress v                      -- `match $compress { … }`
  | .struct fs, c, .seq vs => encodeFields fs c vs
  | _, _, _ => none
/-- `impl_tuple!`: `$(self.$no.serialize_with_mode(&mut writer, compress)?;)*` -/
def encodeTup : List Ty → Compress → List Val → Option (List Nat)
  | [], _, [] => some []
  | t :: ts, c, v :: vs =>
    match encode t c v, encodeTup ts c vs with
    | some a, some b => some (a ++ b)
    | _, _ => none
  | _, _, _ => none
/-- derive macro, `impl_serialize_field`: a field whose type is *written* as a tuple is flattened
    recursively, any other field is serialised through its own impl -/
def encodeFields : List Ty → Compress → List Val → Option (List Nat)
  | [], _, [] => some []
  | .tup us :: ts, c, .seq ws :: vs =>
    match encodeFields us c ws, encodeFields ts c vs with
    | some a, some b => some (a ++ b)
    | _, _ => none
  | t :: ts, c, v :: vs =>
    match encode t c v, encodeFields ts c vs with
    | some a, some b => some (a ++ b)
    | _, _ => none
  | _, _, _ => none
end

mutual
/-- `CanonicalSerialize::serialized_size` (separate code in every impl) -/
def size : Ty → Compress → Val → Nat
  | .int k, _, _ => k.width
  | .bool, _, _ => 1
  | .phantom, _, _ => 0
  | .ml, c, _ => match c with | .yes => 1 | .no => 2
  | .opt _, _, .none => 1
  | .opt t, c, .some v => 1 + size t c v
  | .tup ts, c, .seq vs => sizeTup ts c vs
  | .arr _ t, c, .seq vs => sumMap (fun v => size t c v) vs
  | .vec _ t, c, .seq vs => 8 + sumMap (fun v => size t c v) vs   -- `get_serialized_size_of_seq`
  | .deq _ t, c, .seq vs => 8 + sumMap (fun v => size t c v) vs
  | .list t, c, .seq vs => 8 + sumMap (fun v => size t c v) vs
  | .slice t, c, .seq vs => 8 + sumMap (fun v => size t c v) vs
  | .str, _, .bytes bs => 8 + bs.length
  | .big, _, .int i => 8 + (bigBytes i.toNat).length
  | .map k v, c, .seq es =>
    8 + sumMap (fun e => match e with
      | .seq [a, b] => size k c a + size v c b
      | _ => 0) es
  | .set t, c, .seq vs => 8 + sumMap (fun v => size t c v) vs
  | .wrap _ t, c, v => size t c v
  | .pin p t, _, v => size t p.compress v
  | .struct fs, c, .seq vs => sizeFields fs c vs
  | _, _, _ => 0
def sizeTup : List Ty → Compress → List Val → Nat
  | t :: ts, c, v :: vs => size t c v + sizeTup ts c vs
  | _, _, _ => 0
def sizeFields : List Ty → Compress → List Val → Nat
  | .tup us :: ts, c, .seq ws :: vs => sizeFields us c ws + sizeFields ts c vs
  | t :: ts, c, v :: vs => size t c v + sizeFields ts c vs
  | _, _, _ => 0
end

/-! ## Validity: `Valid::check` / `batch_check`

Only the `ml` leaf can fail (`InvalidData`); every impl forwards to its parts, `batch_check` is
`check` on every item (default impl in lib.rs, sequential without the `parallel` feature). -/

mutual
def check : Ty → Val → Bool
  | .ml, .int x => x != 0xEE
  | .opt t, .some v => check t v
  | .tup ts, .seq vs => checkTup ts vs
  | .arr _ t, .seq vs => vs.all (fun v => check t v)      -- `T::batch_check(self.iter())`
  | .vec _ t, .seq vs => vs.all (fun v => check t v)
  | .deq _ t, .seq vs => vs.all (fun v => check t v)
  | .list t, .seq vs => vs.all (fun v => check t v)
  | .slice t, .seq vs => vs.all (fun v => check t v)
  | .map k v, .seq es =>                                   -- `K::batch_check(keys)?; V::batch_check(values)`
    es.all (fun e => match e with | .seq [a, _] => check k a | _ => true) &&
    es.all (fun e => match e with | .seq [_, b] => check v b | _ => true)
  | .set t, .seq vs => vs.all (fun v => check t v)
  | .wrap _ t, v => check t v
  | .pin _ t, v => check t v                               -- `self.0.check()` whatever the pinned mode
  | .struct fs, .seq vs => checkFields fs vs
  | _, _ => true
def checkTup : List Ty → List Val → Bool
  | t :: ts, v :: vs => check t v && checkTup ts vs
  | _, _ => true
def checkFields : List Ty → List Val → Bool
  | .tup us :: ts, .seq ws :: vs => checkFields us ws && checkFields ts vs
  | t :: ts, v :: vs => check t v && checkFields ts vs
  | _, _ => true
end

/-! ## Deserialisation -/

/-- classes of `SerializationError` -/
inductive Err | io | invalid | notenough | flags
  deriving DecidableEq, Repr, Inhabited

/-- how a deserialisation can fail: a returned error, a Rust panic (`capacity overflow`), an
    allocation failure (`handle_alloc_error` ⇒ process abort), or a loop whose trip count comes
    from the input and which consumes no input (does not terminate in feasible time) -/
inductive Fail | err (e : Err) | panic | abort | hang
  deriving DecidableEq, Repr, Inhabited

/-- allocation event: `with_capacity(n)` for elements of `esz` bytes while `rem` input bytes remain -/
structure Ev where
  n : Nat
  esz : Nat
  rem : Nat
  deriving Repr, DecidableEq, Inhabited

def Ev.bytes (e : Ev) : Nat := e.n * e.esz

/-- run-time resources of the process running the Rust code (harness: `RLIMIT_AS`, watchdog).
    `mem`: an allocation that brings the total requested above it fails;
    `steps`: trip count above which an input-free loop counts as non-terminating. -/
structure Limits where
  mem : Nat
  steps : Nat

/-- `isize::MAX` on the 64-bit targets considered -/
def isizeMax : Nat := 2 ^ 63 - 1

/-- reader state: remaining input, allocation events so far (oldest first) -/
structure St where
  inp : List Nat
  evs : List Ev := []
  deriving Repr, Inhabited

def St.used (s : St) : Nat := s.evs.foldl (fun a e => a + e.bytes) 0

inductive R (α : Type)
  | ok (a : α) (s : St)
  | fail (f : Fail) (s : St)
  deriving Inhabited

/-- state + failure monad of the deserialiser -/
def M (α : Type) := St → R α

instance : Monad M where
  pure a := fun s => .ok a s
  bind m k := fun s =>
    match m s with
    | .ok a s' => k a s'
    | .fail f s' => .fail f s'

def failM {α} (f : Fail) : M α := fun s => .fail f s

/-- `Read::read_exact` on a slice reader: `UnexpectedEof` ⇒ `SerializationError::IoError` -/
def readExact (n : Nat) : M (List Nat) := fun s =>
  if s.inp.length < n then .fail (.err .io) s
  else .ok (s.inp.take n) { s with inp := s.inp.drop n }

/-- `MAX_PREALLOCATION_BYTES` (impls.rs) -/
def maxPrealloc : Nat := 4096

/-- `capped_capacity::<T>(len) = len.min(MAX_PREALLOCATION_BYTES / size_of::<T>().max(1))`:
    what `Vec` / `VecDeque` deserialisation pre-allocates on the word of the length prefix -/
def cappedCapacity (esz len : Nat) : Nat := min len (maxPrealloc / max esz 1)

/-- `Vec::with_capacity(n)` / `VecDeque::with_capacity(n)` (both `RawVec::with_capacity`):
    no allocation for zero-sized elements or zero length; `capacity overflow` panic when the byte
    size exceeds `isize::MAX`; abort when the allocator refuses. -/
def withCapacity (L : Limits) (len esz : Nat) : M Unit := fun s =>
  let s' := { s with evs := s.evs ++ [⟨len, esz, s.inp.length⟩] }
  if len * esz = 0 then .ok () s'
  else if len * esz > isizeMax then .fail .panic s'
  else if s.used + len * esz > L.mem then .fail .abort s'
  else .ok () s'

/-- `for _ in 0..n { out.push(f()?) }` -/
def repeatM {α} (f : M α) : Nat → M (List α)
  | 0 => pure []
  | n + 1 => do
    let a ← f
    let as ← repeatM f n
    pure (a :: as)

/-- the element loop of a length-prefixed container; `zw`: the element type has an empty encoding
    and its deserialiser cannot fail, so the loop makes `len` trips whatever the input -/
def loopM (L : Limits) (zw : Bool) (f : M Val) (len : Nat) : M (List Val) :=
  if zw && len > L.steps then failM .hang else repeatM f len

/-- `u8/u16/u32/u64::deserialize_with_mode` as a natural number -/
def decU (w : Nat) : M Nat := do
  let bs ← readExact w
  pure (leValue bs)

/-- `bool::deserialize_with_mode`: via `u8`, anything but 0/1 is `InvalidData` -/
def decBool : M Bool := do
  let b ← decU 1
  if b = 0 then pure false else if b = 1 then pure true else failM (.err .invalid)

/-- the synthetic leaf (harness `impl CanonicalDeserialize for Ml`) -/
def decMl (c : Compress) (v : Validate) : M Val := do
  let x ← match c with
    | .yes => decU 1
    | .no => do
      let bs ← readExact 2
      match bs with
      | [a, b] => if b = 255 - a then pure a else failM (.err .invalid)
      | _ => failM (.err .io)
  if v = .yes && x == 0xEE then failM (.err .invalid) else pure (.int x)

/-- `if validate == Validate::Yes { T::batch_check(values.iter())? }` -/
def batchM (v : Validate) (ok : Bool) : M Unit :=
  if v = .yes && !ok then failM (.err .invalid) else pure ()

/-- `Vec<u8>::deserialize_with_mode` specialised (used by `String` and `BigUint`);
    `u8` is not zero-width and its `batch_check` is `Ok` -/
def decVecU8 (L : Limits) : M (List Nat) := do
  let len ← decU 8
  if len ≥ 2 ^ 64 then failM (.err .notenough)     -- `u64 → usize` `try_into` (never fails on 64-bit)
  withCapacity L (cappedCapacity 1 len) 1
  repeatM (decU 1) len

mutual
/-- always-empty encoding and infallible deserialiser -/
def zeroWidth : Ty → Bool
  | .phantom => true
  | .tup ts => zeroWidthAll ts
  | .struct fs => zeroWidthAll fs
  | .arr n t => n = 0 || zeroWidth t
  | .wrap _ t => zeroWidth t
  | .pin _ t => zeroWidth t
  | _ => false
def zeroWidthAll : List Ty → Bool
  | [] => true
  | t :: ts => zeroWidth t && zeroWidthAll ts
end

mutual
/-- `CanonicalDeserialize::deserialize_with_mode` from a byte-slice reader -/
def decode (L : Limits) : Ty → Compress → Validate → M Val
  | .int k, _, _ => do
    let bs ← readExact k.width
    pure (.int (k.dec bs))
  | .bool, _, _ => do
    let b ← decBool
    pure (.bool b)
  | .phantom, _, _ => pure (.seq [])
  | .ml, c, v => decMl c v
  | .opt t, c, v => do
    let isSome ← decBool
    if isSome then do
      let x ← decode L t c v
      pure (.some x)
    else pure .none
  | .tup ts, c, v => do
    let vs ← decodeTup L ts c v
    pure (.seq vs)
  | .arr n t, c, v => do
    -- `for _ in 0..N { array.push(T::deserialize_with_mode(.., Validate::No)?) }`
    let vs ← repeatM (decode L t c .no) n
    batchM v (vs.all (fun x => check t x))
    pure (.seq vs)
  | .vec esz t, c, v => do
    let len ← decU 8
    if len ≥ 2 ^ 64 then failM (.err .notenough)   -- `try_into::<usize>()`: never fails on 64-bit
    withCapacity L (cappedCapacity esz len) esz
    let vs ← loopM L (zeroWidth t) (decode L t c .no) len
    batchM v (vs.all (fun x => check t x))
    pure (.seq vs)
  | .deq esz t, c, v => do
    let len ← decU 8
    if len ≥ 2 ^ 64 then failM (.err .notenough)
    withCapacity L (cappedCapacity esz len) esz
    let vs ← loopM L (zeroWidth t) (decode L t c .no) len
    batchM v (vs.all (fun x => check t x))
    pure (.seq vs)
  | .list t, c, v => do
    let len ← decU 8
    if len ≥ 2 ^ 64 then failM (.err .notenough)   -- `let len: usize = … .try_into()`: never fails on 64-bit
    let vs ← loopM L (zeroWidth t) (decode L t c .no) len
    batchM v (vs.all (fun x => check t x))
    pure (.seq vs)
  | .slice t, c, v => do                            -- read back as `Vec<T>` (esz unknown: no event size)
    let len ← decU 8
    let vs ← loopM L (zeroWidth t) (decode L t c .no) len
    batchM v (vs.all (fun x => check t x))
    pure (.seq vs)
  | .str, _, _ => do
    let bs ← decVecU8 L
    if utf8Valid bs then pure (.bytes bs) else failM (.err .invalid)
  | .big, _, _ => do
    let bs ← decVecU8 L
    pure (.int (leValue bs))                         -- `BigUint::from_bytes_le`
  | .map k vt, c, v => do
    let len ← decU 8                                  -- stays `u64`: `(0..len).map(..).collect()`
    let es ← loopM L (zeroWidth k && zeroWidth vt) (do
      let a ← decode L k c v
      let b ← decode L vt c v
      pure (.seq [a, b])) len
    pure (.seq (fromIter entryKey es))
  | .set t, c, v => do
    let len ← decU 8
    let es ← loopM L (zeroWidth t) (decode L t c v) len
    pure (.seq (fromIter id es))
  | .wrap _ t, c, v => decode L t c v
  | .pin p t, _, _ => decode L t p.compress p.validate
  | .struct fs, c, v => do
    let vs ← decodeFields L fs c v
    pure (.seq vs)
/-- `impl_tuple!`: elements in order, modes passed through -/
def decodeTup (L : Limits) : List Ty → Compress → Validate → M (List Val)
  | [], _, _ => pure []
  | t :: ts, c, v => do
    let x ← decode L t c v
    let xs ← decodeTup L ts c v
    pure (x :: xs)
/-- derive macro, `impl_deserialize_field`: syntactic tuples are flattened -/
def decodeFields (L : Limits) : List Ty → Compress → Validate → M (List Val)
  | [], _, _ => pure []
  | .tup us :: ts, c, v => do
    let x ← decodeFields L us c v
    let xs ← decodeFields L ts c v
    pure (.seq x :: xs)
  | t :: ts, c, v => do
    let x ← decode L t c v
    let xs ← decodeFields L ts c v
    pure (x :: xs)
end

/-- result of deserialising a byte string: value, unread rest, allocation events -/
def runDecode (L : Limits) (t : Ty) (c : Compress) (v : Validate) (bs : List Nat) : R Val :=
  decode L t c v { inp := bs }

/-! ## Building values (harness input form → Rust value)

The harness gives maps and sets as insertion sequences (unsorted, with repeated keys);
`build` is the construction of the Rust value from it. -/

mutual
def build : Ty → Val → Val
  | .opt t, .some v => .some (build t v)
  | .tup ts, .seq vs => .seq (buildTup ts vs)
  | .arr _ t, .seq vs => .seq (vs.map (fun v => build t v))
  | .vec _ t, .seq vs => .seq (vs.map (fun v => build t v))
  | .deq _ t, .seq vs => .seq (vs.map (fun v => build t v))
  | .list t, .seq vs => .seq (vs.map (fun v => build t v))
  | .slice t, .seq vs => .seq (vs.map (fun v => build t v))
  | .map k v, .seq es =>
    .seq (fromIter entryKey (es.map (fun e => match e with
      | .seq [a, b] => .seq [build k a, build v b]
      | x => x)))
  | .set t, .seq vs => .seq (fromIter id (vs.map (fun v => build t v)))
  | .wrap _ t, v => build t v
  | .pin _ t, v => build t v
  | .struct fs, .seq vs => .seq (buildTup fs vs)
  | _, v => v
def buildTup : List Ty → List Val → List Val
  | t :: ts, v :: vs => build t v :: buildTup ts vs
  | _, vs => vs
end

/-! ## Format properties used by the executable spec -/

mutual
/-- the encoding is unique: `decode` accepts no byte string other than `encode v` for `v`.
    Not so for `BigUint` (trailing zero bytes, empty byte string) and for maps / sets
    (any order, repeated keys are accepted). -/
def canonical : Ty → Bool
  | .big => false
  | .map _ _ => false
  | .set _ => false
  | .opt t => canonical t
  | .tup ts => canonicalAll ts
  | .arr _ t => canonical t
  | .vec _ t => canonical t
  | .deq _ t => canonical t
  | .list t => canonical t
  | .slice t => canonical t
  | .wrap _ t => canonical t
  | .pin _ t => canonical t
  | .struct fs => canonicalAll fs
  | _ => true
def canonicalAll : List Ty → Bool
  | [] => true
  | t :: ts => canonical t && canonicalAll ts
end

/-- the allocation bound of the property: bytes requested by one `with_capacity` are at most
    `K·rem + C` where `rem` is the input still unread when the length prefix has been read -/
def Ev.bounded (K C : Nat) (e : Ev) : Bool := e.bytes ≤ K * e.rem + C

/-! ## Derived / hand-written (de)serialisation of the `ark-poly` types (C18, appended)

    /repo/poly/src/polynomial/univariate/dense.rs:21      `DensePolynomial { coeffs: Vec<F> }`
    /repo/poly/src/polynomial/univariate/sparse.rs:21     `SparsePolynomial { coeffs: Vec<(usize, F)> }`
    /repo/poly/src/polynomial/multivariate/mod.rs:56      `SparseTerm(Vec<(usize, usize)>)`
    /repo/poly/src/polynomial/multivariate/sparse.rs:20   `SparsePolynomial { num_vars: usize, terms: Vec<(F, T)> }`
    /repo/poly/src/evaluations/univariate/mod.rs:17       `Evaluations { evals: Vec<F>, domain: D }`
    /repo/poly/src/evaluations/multivariate/multilinear/dense.rs:23    `{ evaluations: Vec<F>, num_vars: usize }`
    /repo/poly/src/evaluations/multivariate/multilinear/sparse.rs:25   `{ evaluations: BTreeMap<usize, F>, num_vars: usize, zero: F }`
    /repo/poly/src/domain/radix2/mod.rs:21, mixed_radix.rs:28          the nine fields `size: u64 … offset_pow_size: F`
    /repo/poly/src/domain/general.rs:66-117               hand-written: `u8` tag 0 / 1, then the variant; `check` is `Ok(())`
    /repo/ff/src/fields/models/fp/mod.rs                  `Fp`: `⌈MODULUS_BIT_SIZE / 8⌉` little-endian bytes, `≥ MODULUS` is `InvalidData`
                                                          (minimal limb count, `EmptyFlags`: the reduced case of `Ark.Bytes.fpDeFlags`)

  All of them are *derived* (`#[derive(CanonicalSerialize, CanonicalDeserialize)]`, which also emits `Valid`):
  field after field, modes passed through, **no invariant of the type is looked at** — neither by
  `deserialize_with_mode` (which never calls `Self::check`) nor by the derived `check` (which is `check` of
  every field).  The universe `PTy` extends `Ty` by the prime-field leaf and re-declares the composite
  constructors that can contain it; values stay in `Val` (`fp`: `.int x`; `gdom`: `.seq [.int tag, v]`). -/

namespace Poly

/-- the prime field of an op line (configurations with the minimal number of limbs) -/
structure FCfg where
  p : Nat
  deriving Repr, DecidableEq, Inhabited

/-- `MODULUS_BIT_SIZE` -/
def FCfg.bits (F : FCfg) : Nat := if F.p = 0 then 0 else F.p.log2 + 1
/-- `serialized_size_with_flags::<EmptyFlags>() = buffer_byte_size(MODULUS_BIT_SIZE)` -/
def FCfg.width (F : FCfg) : Nat := (F.bits + 7) / 8

inductive PTy
  | old (t : Ty)                    -- a type of the first universe (`u64`, `u32`, `usize`, …)
  | fp                              -- `Fp<P, N>`
  | vec (esz : Nat) (t : PTy)       -- `Vec<T>`, `esz = size_of::<T>()`
  | map (k v : PTy)                 -- `BTreeMap<K, V>`
  | tup (ts : List PTy)             -- tuples; also `QuadExtField` / `CubicExtField` (coordinates in order, no flags)
  | struct (fs : List PTy)          -- derived struct
  | gdom (r m : PTy)                -- `GeneralEvaluationDomain`: `Radix2(r)` = tag 0, `MixedRadix(m)` = tag 1
  | opt (t : PTy)                   -- `Option<T>`
  | arr (n : Nat) (t : PTy)         -- `[T; N]`
  | wrap (t : PTy)                  -- `Arc<T>` / `Cow<T>`: like the content
  deriving Repr, Inhabited

mutual
/-- `serialize_with_mode` -/
def pEncode (F : FCfg) : PTy → Compress → Val → Option (List Nat)
  | .old t, c, v => encode t c v
  | .fp, _, .int x =>                                             -- `serialize_with_flags(writer, EmptyFlags)`
    if 0 ≤ x ∧ x.toNat < F.p then some (leBytes F.width x.toNat) else none
  | .vec _ t, c, .seq vs => encSeq (fun v => pEncode F t c v) vs
  | .map k v, c, .seq es =>
    if sortedBy entryKey es then
      (concatMapM (fun e => match e with
          | .seq [a, b] =>
            match pEncode F k c a, pEncode F v c b with
            | some x, some y => some (x ++ y)
            | _, _ => none
          | _ => none) es).map (fun b => leBytes 8 es.length ++ b)
    else none
  | .tup ts, c, .seq vs => pEncodeAll F ts c vs
  | .struct fs, c, .seq vs => pEncodeFields F fs c vs
  | .gdom r m, c, .seq [.int tag, v] =>                           -- `variant.serialize_with_mode(..)?; domain.serialize_with_mode(..)`
    if tag = 0 then (pEncode F r c v).map (fun b => 0 :: b)
    else if tag = 1 then (pEncode F m c v).map (fun b => 1 :: b)
    else none
  | .opt _, _, .none => some [0]
  | .opt t, c, .some v => (pEncode F t c v).map (fun b => 1 :: b)
  | .arr n t, c, .seq vs => if vs.length = n then concatMapM (fun v => pEncode F t c v) vs else none
  | .wrap t, c, v => pEncode F t c v
  | _, _, _ => none
def pEncodeAll (F : FCfg) : List PTy → Compress → List Val → Option (List Nat)
  | [], _, [] => some []
  | t :: ts, c, v :: vs =>
    match pEncode F t c v, pEncodeAll F ts c vs with
    | some a, some b => some (a ++ b)
    | _, _ => none
  | _, _, _ => none
/-- derive macro: a field whose type is *written* as a tuple is flattened (same bytes as the tuple impl) -/
def pEncodeFields (F : FCfg) : List PTy → Compress → List Val → Option (List Nat)
  | [], _, [] => some []
  | .tup us :: ts, c, .seq ws :: vs =>
    match pEncodeFields F us c ws, pEncodeFields F ts c vs with
    | some a, some b => some (a ++ b)
    | _, _ => none
  | t :: ts, c, v :: vs =>
    match pEncode F t c v, pEncodeFields F ts c vs with
    | some a, some b => some (a ++ b)
    | _, _ => none
  | _, _, _ => none
end

mutual
/-- `serialized_size` -/
def pSize (F : FCfg) : PTy → Compress → Val → Nat
  | .old t, c, v => size t c v
  | .fp, _, _ => F.width
  | .vec _ t, c, .seq vs => 8 + sumMap (fun v => pSize F t c v) vs
  | .map k v, c, .seq es =>
    8 + sumMap (fun e => match e with
      | .seq [a, b] => pSize F k c a + pSize F v c b
      | _ => 0) es
  | .tup ts, c, .seq vs => pSizeAll F ts c vs
  | .struct fs, c, .seq vs => pSizeFields F fs c vs
  | .gdom r m, c, .seq [.int tag, v] => 1 + (if tag = 0 then pSize F r c v else pSize F m c v)
  | .opt _, _, .none => 1
  | .opt t, c, .some v => 1 + pSize F t c v
  | .arr _ t, c, .seq vs => sumMap (fun v => pSize F t c v) vs
  | .wrap t, c, v => pSize F t c v
  | _, _, _ => 0
def pSizeAll (F : FCfg) : List PTy → Compress → List Val → Nat
  | t :: ts, c, v :: vs => pSize F t c v + pSizeAll F ts c vs
  | _, _, _ => 0
def pSizeFields (F : FCfg) : List PTy → Compress → List Val → Nat
  | .tup us :: ts, c, .seq ws :: vs => pSizeFields F us c ws + pSizeFields F ts c vs
  | t :: ts, c, v :: vs => pSize F t c v + pSizeFields F ts c vs
  | _, _, _ => 0
end

mutual
/-- `Valid::check`: `Fp::check` is `Ok(())`, containers / derived structs forward to their parts,
    `GeneralEvaluationDomain::check` is the hand-written `Ok(())` -/
def pCheck : PTy → Val → Bool
  | .old t, v => check t v
  | .fp, _ => true
  | .vec _ t, .seq vs => vs.all (fun v => pCheck t v)
  | .map k v, .seq es =>
    es.all (fun e => match e with | .seq [a, _] => pCheck k a | _ => true) &&
    es.all (fun e => match e with | .seq [_, b] => pCheck v b | _ => true)
  | .tup ts, .seq vs => pCheckAll ts vs
  | .struct fs, .seq vs => pCheckFields fs vs
  | .gdom _ _, _ => true
  | .opt t, .some v => pCheck t v
  | .arr _ t, .seq vs => vs.all (fun v => pCheck t v)
  | .wrap t, v => pCheck t v
  | _, _ => true
def pCheckAll : List PTy → List Val → Bool
  | t :: ts, v :: vs => pCheck t v && pCheckAll ts vs
  | _, _ => true
def pCheckFields : List PTy → List Val → Bool
  | .tup us :: ts, .seq ws :: vs => pCheckFields us ws && pCheckFields ts vs
  | t :: ts, v :: vs => pCheck t v && pCheckFields ts vs
  | _, _ => true
end

mutual
def pZeroWidth : PTy → Bool
  | .old t => zeroWidth t
  | .tup ts => pZeroWidthAll ts
  | .struct fs => pZeroWidthAll fs
  | .arr n t => n = 0 || pZeroWidth t
  | .wrap t => pZeroWidth t
  | _ => false
def pZeroWidthAll : List PTy → Bool
  | [] => true
  | t :: ts => pZeroWidth t && pZeroWidthAll ts
end

/-- `Fp::deserialize_with_mode` = `deserialize_with_flags::<_, EmptyFlags>`: `read_exact` of the
    advertised size, then `from_bigint` (zero, else `None` when `≥ MODULUS`) -/
def decFp (F : FCfg) : M Val := do
  let bs ← readExact F.width
  let n := leValue bs
  if n ≥ F.p then failM (.err .invalid) else pure (.int n)

mutual
/-- `deserialize_with_mode` -/
def pDecode (L : Limits) (F : FCfg) : PTy → Compress → Validate → M Val
  | .old t, c, v => decode L t c v
  | .fp, _, _ => decFp F
  | .vec esz t, c, v => do
    let len ← decU 8
    if len ≥ 2 ^ 64 then failM (.err .notenough)
    withCapacity L (cappedCapacity esz len) esz
    let vs ← loopM L (pZeroWidth t) (pDecode L F t c .no) len
    batchM v (vs.all (fun x => pCheck t x))
    pure (.seq vs)
  | .map k vt, c, v => do
    let len ← decU 8
    let es ← loopM L (pZeroWidth k && pZeroWidth vt) (do
      let a ← pDecode L F k c v
      let b ← pDecode L F vt c v
      pure (.seq [a, b])) len
    pure (.seq (fromIter entryKey es))
  | .tup ts, c, v => do
    let vs ← pDecodeAll L F ts c v
    pure (.seq vs)
  | .struct fs, c, v => do
    let vs ← pDecodeFields L F fs c v
    pure (.seq vs)
  | .gdom r m, c, v => do
    let tag ← decU 1                                   -- `u8::deserialize_with_mode`
    if tag = 0 then do
      let d ← pDecode L F r c v
      pure (.seq [.int 0, d])
    else if tag = 1 then do
      let d ← pDecode L F m c v
      pure (.seq [.int 1, d])
    else failM (.err .invalid)
  | .opt t, c, v => do
    let isSome ← decBool
    if isSome then do
      let x ← pDecode L F t c v
      pure (.some x)
    else pure .none
  | .arr n t, c, v => do
    let vs ← repeatM (pDecode L F t c .no) n
    batchM v (vs.all (fun x => pCheck t x))
    pure (.seq vs)
  | .wrap t, c, v => pDecode L F t c v
def pDecodeAll (L : Limits) (F : FCfg) : List PTy → Compress → Validate → M (List Val)
  | [], _, _ => pure []
  | t :: ts, c, v => do
    let x ← pDecode L F t c v
    let xs ← pDecodeAll L F ts c v
    pure (x :: xs)
def pDecodeFields (L : Limits) (F : FCfg) : List PTy → Compress → Validate → M (List Val)
  | [], _, _ => pure []
  | .tup us :: ts, c, v => do
    let x ← pDecodeFields L F us c v
    let xs ← pDecodeFields L F ts c v
    pure (.seq x :: xs)
  | t :: ts, c, v => do
    let x ← pDecode L F t c v
    let xs ← pDecodeFields L F ts c v
    pure (x :: xs)
end

def pRunDecode (L : Limits) (F : FCfg) (t : PTy) (c : Compress) (v : Validate) (bs : List Nat) : R Val :=
  pDecode L F t c v { inp := bs }

mutual
/-- unique encoding (maps are not: any order / repeated keys are accepted) -/
def pCanonical : PTy → Bool
  | .old t => canonical t
  | .map _ _ => false
  | .vec _ t => pCanonical t
  | .tup ts => pCanonicalAll ts
  | .struct fs => pCanonicalAll fs
  | .gdom r m => pCanonical r && pCanonical m
  | .fp => true
  | .opt t => pCanonical t
  | .arr _ t => pCanonical t
  | .wrap t => pCanonical t
def pCanonicalAll : List PTy → Bool
  | [] => true
  | t :: ts => pCanonical t && pCanonicalAll ts
end

mutual
/-- construction form → value (maps given as insertion sequences) -/
def pBuild : PTy → Val → Val
  | .old t, v => build t v
  | .vec _ t, .seq vs => .seq (vs.map (fun v => pBuild t v))
  | .map k v, .seq es =>
    .seq (fromIter entryKey (es.map (fun e => match e with
      | .seq [a, b] => .seq [pBuild k a, pBuild v b]
      | x => x)))
  | .tup ts, .seq vs => .seq (pBuildAll ts vs)
  | .struct fs, .seq vs => .seq (pBuildAll fs vs)
  | .gdom r m, .seq [.int tag, v] => .seq [.int tag, if tag = 0 then pBuild r v else pBuild m v]
  | .opt t, .some v => .some (pBuild t v)
  | .arr _ t, .seq vs => .seq (vs.map (fun v => pBuild t v))
  | .wrap t, v => pBuild t v
  | _, v => v
def pBuildAll : List PTy → List Val → List Val
  | t :: ts, v :: vs => pBuild t v :: pBuildAll ts vs
  | _, vs => vs
end

end Poly

/-! ## Writers and readers that fail (C18, appended)

`impls.rs` propagates every writer error with `?`: a serialisation into a writer that accepts `k`
bytes in total and then fails (with an error, or with `Ok(0)`, which `write_all` turns into
`WriteZero`) has written exactly the first `min k (len)` bytes of the encoding and returns
`IoError` iff `k < len`.  Likewise a reader that supplies `k` bytes and then fails (any
`io::Error` other than `Interrupted`, which `read_exact` retries) behaves like the `k`-byte prefix. -/

/-- bytes handed to the writer, and whether `serialize_with_mode` returned `Err(IoError)` -/
def encodeInto (k : Nat) (bytes : List Nat) : List Nat × Bool := (bytes.take k, k < bytes.length)

end Ark.Serial
