import Ark.Model.Bytes
import Ark.Model.BytesSqrt
/-
  Ark.Model.Zcash — executable model of the ZCash point encoding with which the curve crate
  `ark-bls12-381` overrides `SWCurveConfig::{serialize_with_mode, deserialize_with_mode, serialized_size}`
  for `G1` and `G2` (properties C09 and C10), function by function:

    /repo/curves/bls12_381/src/curves/util.rs   `EncodingFlags::{get_flags, encode_flags, remove_flags}`,
                                                `deserialize_fq`, `serialize_fq`, `read_bytes_with_offset`,
                                                `read_g1_compressed`, `read_g1_uncompressed`,
                                                `read_g2_compressed`, `read_g2_uncompressed`
    /repo/curves/bls12_381/src/curves/g1.rs     `Config::{deserialize_with_mode, serialize_with_mode, serialized_size}`
    /repo/curves/bls12_381/src/curves/g2.rs     `Config::{deserialize_with_mode, serialize_with_mode, serialized_size}`

  Format: one big-endian 48-byte integer per base-field coefficient; `Fq2` elements as `c1 ‖ c0`; the three
  top bits of the FIRST byte are the flags `compressed` (bit 7), `infinity` (bit 6), `lexicographically
  largest y` (bit 5).  Differences from the default arkworks (de)serialiser that the model keeps:
    * a failing `read_exact` is mapped to `InvalidData` (not `IoError`);
    * `deserialize_with_mode(_, _, Validate::Yes)` runs `is_on_curve && is_in_correct_subgroup_assuming_on_curve`
      (since the repair f0f8c67; before it, only the subgroup test ran and off-curve uncompressed pairs `(x, y)`
      on an isomorphic curve `y² = x³ + b·u⁶` were accepted);
    * an identity encoding must have all-zero coordinates (the default format ignores them).

  Conventions as in `Ark.Model.Bytes` (bytes are `Nat < 256`, readers live in the monad `M` with a counting
  reader, slice indexing / `copy_from_slice` length mismatches are explicit `panic`s).  The coordinate-field
  dictionary `Codec` supplies `sqrt` and `Ord`; `FpCfg` is `⟨p, 6⟩` (`BigInteger384`).

  Mathlib-free: linked into the `arkdrv` executable (`Ark.Model.DrvC10x`).
-/
namespace Ark.Zcash
open Ark Ark.Bytes

/-- `G1_SERIALIZED_SIZE` -/
def g1SerializedSize : Nat := 48
/-- `G2_SERIALIZED_SIZE` -/
def g2SerializedSize : Nat := 96

/-- `EncodingFlags` -/
structure EncodingFlags where
  isCompressed : Bool
  isInfinity : Bool
  isLexographicallyLargest : Bool
  deriving DecidableEq, Repr

def liftR {α : Type} : Res α → M α
  | .ok a => pure a
  | .err e => throwE e
  | .panic => panicM

/-- `EncodingFlags::get_flags(bytes)` (`bytes[0]`: an empty slice panics) -/
def getFlags (bytes : List Nat) : Res EncodingFlags :=
  match bytes with
  | [] => .panic
  | b0 :: _ =>
    let isCompressed := (b0 >>> 7) &&& 1 == 1
    let isInfinity := (b0 >>> 6) &&& 1 == 1
    let isLargest := (b0 >>> 5) &&& 1 == 1
    if isLargest && (!isCompressed || isInfinity) then .err .invalid
    else .ok ⟨isCompressed, isInfinity, isLargest⟩

/-- `EncodingFlags::encode_flags(&self, bytes)` -/
def encodeFlags (f : EncodingFlags) (bytes : List Nat) : Outcome (List Nat) :=
  match bytes with
  | [] => .panic
  | b0 :: rest =>
    let b0 := if f.isCompressed then b0 ||| 128 else b0
    let b0 := if f.isInfinity then b0 ||| 64 else b0
    let b0 := if f.isCompressed && !f.isInfinity && f.isLexographicallyLargest then b0 ||| 32 else b0
    .ok (b0 :: rest)

/-- `EncodingFlags::remove_flags(bytes)`: `bytes[0] &= 0b0001_1111` -/
def removeFlags (bytes : List Nat) : Outcome (List Nat) :=
  match bytes with
  | [] => .panic
  | b0 :: rest => .ok ((b0 &&& 31) :: rest)

/-- `u64::from_be_bytes` (any length: value of big-endian bytes) -/
def beVal (bs : List Nat) : Nat := bs.foldl (fun acc b => acc * 256 + b) 0

/-- `u64::to_be_bytes` -/
def be8 (x : Nat) : List Nat := (le8 x).reverse

/-- `deserialize_fq(bytes: [u8; 48]) -> Option<Fq>`: `tmp.0[5 - i] = u64::from_be_bytes(bytes[8i..8i+8])`,
    then `Fq::from_bigint(tmp)` (`None` for an integer `≥ p`) -/
def deserializeFq (c : FpCfg) (bytes : List Nat) : Option (Fp c.p) :=
  let limbs := (List.range 6).map (fun i => beVal ((bytes.drop (8 * (5 - i))).take 8))
  fromBigint c (value limbs)

/-- `serialize_fq(field: Fq) -> [u8; 48]`: `result[8i..8i+8] = rep.0[5 - i].to_be_bytes()` -/
def serializeFq (c : FpCfg) (x : Fp c.p) : List Nat :=
  let rep := intoBigint c x
  ((List.range 6).map (fun i => be8 (rep.getD (5 - i) 0))).flatten

/-- `read_bytes_with_offset(bytes, offset, mask)`:
    `tmp.copy_from_slice(&bytes[offset * 48..48 * (offset + 1)])` (out of range: panic), then `remove_flags` -/
def readBytesWithOffset (bytes : List Nat) (offset : Nat) (mask : Bool) : Outcome (List Nat) :=
  if bytes.length < g1SerializedSize * (offset + 1) then .panic
  else
    let tmp := (bytes.drop (offset * g1SerializedSize)).take g1SerializedSize
    if mask then removeFlags tmp else .ok tmp

/-- `reader.read_exact(&mut bytes).map_err(|_| SerializationError::InvalidData)?` with `bytes.len() = n` -/
def readExactInvalid (n : Nat) : M (List Nat) := fun s =>
  match readExact n s with
  | .err _ s' => .err .invalid s'
  | r => r

def zeros48 : List Nat := List.replicate 48 0

/-! ## G1 -/

section g1
variable (c : FpCfg) (K : Codec (Fp c.p)) (E : SWCfg (Fp c.p))

/-- `read_g1_compressed` -/
def readG1Compressed : M (SWAff (Fp c.p)) := do
  let bytes ← readExactInvalid g1SerializedSize
  let flags ← liftR (getFlags bytes)
  if !flags.isCompressed then throwE .flags
  let xBytes ← liftO (readBytesWithOffset bytes 0 true)
  if flags.isInfinity then
    if xBytes != zeros48 then throwE .invalid
    else pure SWAff.identity
  else
    match deserializeFq c xBytes with
    | none => throwE .invalid
    | some x =>
      match swGetPointFromX K E x flags.isLexographicallyLargest with
      | none => throwE .invalid
      | some p => pure p

/-- `read_g1_uncompressed` -/
def readG1Uncompressed : M (SWAff (Fp c.p)) := do
  let bytes ← readExactInvalid (2 * g1SerializedSize)
  let flags ← liftR (getFlags bytes)
  if flags.isCompressed then throwE .flags
  let xBytes ← liftO (readBytesWithOffset bytes 0 true)
  let yBytes ← liftO (readBytesWithOffset bytes 1 false)
  if flags.isInfinity then
    if xBytes != zeros48 || yBytes != zeros48 then throwE .invalid
    else pure SWAff.identity
  else
    match deserializeFq c xBytes with
    | none => throwE .invalid
    | some x =>
      match deserializeFq c yBytes with
      | none => throwE .invalid
      | some y => pure ⟨x, y, false⟩

/-- `g1::Config::deserialize_with_mode` -/
def g1Deserialize (compress : Compress) (validate : Validate) : M (SWAff (Fp c.p)) := do
  let p ← (if compress = .yes then readG1Compressed c K E else readG1Uncompressed c)
  if validate = .yes && !(swIsOnCurve E p && E.inSubgroup p) then throwE .invalid
  else pure p

/-- `g1::Config::serialize_with_mode` (`item.is_zero()` is the `infinity` field; `item.y > -item.y`) -/
def g1Serialize (item : SWAff (Fp c.p)) (compress : Compress) : Res (List Nat) :=
  let encoding : EncodingFlags :=
    { isCompressed := compress == .yes, isInfinity := item.infinity,
      isLexographicallyLargest := K.lt (-item.y) item.y }
  let p := if encoding.isInfinity then SWAff.identity else item
  let xBytes := serializeFq c p.x
  if encoding.isCompressed then Res.ofOutcome (encodeFlags encoding xBytes)
  else Res.ofOutcome (encodeFlags encoding (xBytes ++ serializeFq c p.y))

/-- `g1::Config::serialized_size` -/
def g1SerializedSizeOf (compress : Compress) : Nat :=
  if compress = .yes then g1SerializedSize else g1SerializedSize * 2

end g1

/-! ## G2 -/

section g2
variable (c : FpCfg) (β : Nat) (K : Codec (Fp2 c.p β)) (E : SWCfg (Fp2 c.p β))

/-- `read_g2_compressed` -/
def readG2Compressed : M (SWAff (Fp2 c.p β)) := do
  let bytes ← readExactInvalid g2SerializedSize
  let flags ← liftR (getFlags bytes)
  if !flags.isCompressed then throwE .flags
  let xc1Bytes ← liftO (readBytesWithOffset bytes 0 true)
  let xc0Bytes ← liftO (readBytesWithOffset bytes 1 false)
  if flags.isInfinity then
    if xc1Bytes != zeros48 || xc0Bytes != zeros48 then throwE .invalid
    else pure SWAff.identity
  else
    match deserializeFq c xc1Bytes with
    | none => throwE .invalid
    | some xc1 =>
      match deserializeFq c xc0Bytes with
      | none => throwE .invalid
      | some xc0 =>
        match swGetPointFromX K E ⟨xc0, xc1⟩ flags.isLexographicallyLargest with
        | none => throwE .invalid
        | some p => pure p

/-- `read_g2_uncompressed` -/
def readG2Uncompressed : M (SWAff (Fp2 c.p β)) := do
  let bytes ← readExactInvalid (2 * g2SerializedSize)
  let flags ← liftR (getFlags bytes)
  if flags.isCompressed then throwE .flags
  let xc1Bytes ← liftO (readBytesWithOffset bytes 0 true)
  let xc0Bytes ← liftO (readBytesWithOffset bytes 1 false)
  let yc1Bytes ← liftO (readBytesWithOffset bytes 2 false)
  let yc0Bytes ← liftO (readBytesWithOffset bytes 3 false)
  if flags.isInfinity then
    if xc1Bytes != zeros48 || xc0Bytes != zeros48 || yc1Bytes != zeros48 || yc0Bytes != zeros48 then
      throwE .invalid
    else pure SWAff.identity
  else
    match deserializeFq c xc1Bytes with
    | none => throwE .invalid
    | some xc1 =>
      match deserializeFq c xc0Bytes with
      | none => throwE .invalid
      | some xc0 =>
        match deserializeFq c yc1Bytes with
        | none => throwE .invalid
        | some yc1 =>
          match deserializeFq c yc0Bytes with
          | none => throwE .invalid
          | some yc0 => pure ⟨⟨xc0, xc1⟩, ⟨yc0, yc1⟩, false⟩

/-- `g2::Config::deserialize_with_mode` -/
def g2Deserialize (compress : Compress) (validate : Validate) : M (SWAff (Fp2 c.p β)) := do
  let p ← (if compress = .yes then readG2Compressed c β K E else readG2Uncompressed c β)
  if validate = .yes && !(swIsOnCurve E p && E.inSubgroup p) then throwE .invalid
  else pure p

/-- `g2::Config::serialize_with_mode` -/
def g2Serialize (item : SWAff (Fp2 c.p β)) (compress : Compress) : Res (List Nat) :=
  let encoding : EncodingFlags :=
    { isCompressed := compress == .yes, isInfinity := item.infinity,
      isLexographicallyLargest := K.lt (-item.y) item.y }
  let p := if encoding.isInfinity then SWAff.identity else item
  let xBytes := serializeFq c p.x.c1 ++ serializeFq c p.x.c0
  if encoding.isCompressed then Res.ofOutcome (encodeFlags encoding xBytes)
  else
    let yBytes := serializeFq c p.y.c1 ++ serializeFq c p.y.c0
    Res.ofOutcome (encodeFlags encoding (xBytes ++ yBytes))

/-- `g2::Config::serialized_size` -/
def g2SerializedSizeOf (compress : Compress) : Nat :=
  if compress = .yes then g2SerializedSize else 2 * g2SerializedSize

end g2

end Ark.Zcash
