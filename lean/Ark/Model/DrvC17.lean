import Ark.Model.Mle
import Ark.Model.Fp
import Ark.Model.Proto
/-
  Driver dispatch for C17 (`C17 <op> <p> args… => impl`): runs the model `Ark.Mle` at `Fp p`
  and judges the implementation's output with an executable spec that is stated independently of
  the algorithms:

  * multilinear extensions are judged as *tables* `{0,1}^n → F` (index little endian):
      evaluate      Σ_{b<2^n} t[b] · Π_i (x_i·b_i + (1−x_i)(1−b_i))
      fix           t'[j] = Σ_{b<2^d} t[b + j·2^d] · eq(b, x)
      relabel       t'[i] = t[π i], π = the permutation of index *bits* exchanging a+j ↔ b+j (j<k)
      concat        t' = t₁ ++ t₂ ++ … ++ 0…, length the least power of two ≥ max(1, Σ|tᵢ|)
      add/sub/neg/scale   entrywise; an operand that is the 0-variable table [0] is the zero
                    polynomial of any arity
    a sparse result is judged by the table it denotes (absent key = 0), so dense and sparse
    forms of the same table are held to the same answer.
  * sparse multivariate polynomials are judged by Σ coeff·Π x_v^e over the *given* raw term list,
    and (operators, constructor) by the coefficient map monomial ↦ Σ coeff of the given lists.

  Inputs outside the quantifier of the property (wrong table / point length, index out of range,
  windows out of range or overlapping, operands of different arity none of which is the zero
  polynomial, variables ≥ num_vars) get verdict `ok` whatever the implementation does (the model
  must still agree); inside the quantifier a panic is `bad:panic`.
-/
namespace Ark.DrvC17
open Ark Ark.Proto Ark.Mle

def vs (impl spec : String) : String := if impl == spec then "ok" else "bad:want=" ++ spec

/-- verdict for a value-type spec with a domain -/
def judge (inDomain : Bool) (impl spec : String) : String :=
  if !inDomain then "ok" else if impl == "panic" then "bad:panic" else vs impl spec

section
variable {p : Nat}

/-! ### parsing / printing -/
def pF (p : Nat) (s : String) : Option (Fp p) := (parseHex? s).map (Fp.ofNat p)
def pTbl (p : Nat) (s : String) : Option (List (Fp p)) := if s == "_" then some [] else mapM? (pF p) (s.splitOn ",")
def pEnts (p : Nat) (s : String) : Option (List (Nat × Fp p)) :=
  if s == "_" then some [] else mapM? (fun e => match e.splitOn ":" with
    | [i, v] => do let i ← parseHex? i; let v ← pF p v; pure (i, v)
    | _ => none) (s.splitOn ",")
def pMon (s : String) : Option (List (Nat × Nat)) :=
  if s == "_" then some [] else mapM? (fun e => match e.splitOn "^" with
    | [v, e] => do let v ← parseHex? v; let e ← parseHex? e; pure (v, e)
    | _ => none) (s.splitOn ".")
def pTerms (p : Nat) (s : String) : Option (List (Fp p × List (Nat × Nat))) :=
  if s == "~" then some [] else mapM? (fun t => match t.splitOn "@" with
    | [c, m] => do let c ← pF p c; let m ← pMon m; pure (c, m)
    | _ => none) (s.splitOn ";")
def pPolys (p : Nat) (s : String) : Option (List (Nat × List (Fp p))) :=
  if s == "~" then some [] else mapM? (fun t => match t.splitOn ":" with
    | [n, t] => do let n ← parseHex? n; let t ← pTbl p t; pure (n, t)
    | _ => none) (s.splitOn ";")

def sF (x : Fp p) : String := hex x.val
def sTbl (l : List (Fp p)) : String := if l.isEmpty then "_" else joinWith "," (l.map sF)
def sEnts (l : List (Nat × Fp p)) : String :=
  if l.isEmpty then "_" else joinWith "," (l.map (fun iv => hex iv.1 ++ ":" ++ sF iv.2))
def sMon (m : List (Nat × Nat)) : String :=
  if m.isEmpty then "_" else joinWith "." (m.map (fun ve => hex ve.1 ++ "^" ++ hex ve.2))
def sTerms (l : List (Fp p × List (Nat × Nat))) : String :=
  if l.isEmpty then "~" else joinWith ";" (l.map (fun cm => sF cm.1 ++ "@" ++ sMon cm.2))
def sDense (d : Dense (Fp p)) : String := hex d.numVars ++ " " ++ sTbl d.evals
def sSparse (s : Sparse (Fp p)) : String := hex s.numVars ++ " " ++ sEnts s.evals
def sMv (q : MvPoly (Fp p)) : String := hex q.numVars ++ " " ++ sTerms q.terms
def sOut {α} (f : α → String) : Outcome α → String
  | .ok a => f a
  | .panic => "panic"

/-! ### executable spec: tables -/

/-- a table `{0,1}^n → F`, index little endian -/
structure Tbl (p : Nat) where
  nv : Nat
  a : Array (Fp p)

def Tbl.get (t : Tbl p) (i : Nat) : Fp p := t.a.getD i 0
def Tbl.str (t : Tbl p) : String := hex t.nv ++ " " ++ sTbl t.a.toList
def Tbl.ofFn (nv : Nat) (f : Nat → Fp p) : Tbl p := ⟨nv, Array.ofFn (n := 2 ^ nv) (fun i => f i.val)⟩
/-- the 0-variable table `[0]`: the zero polynomial of any arity -/
def Tbl.isZeroPoly (t : Tbl p) : Bool := t.nv == 0 && t.get 0 == 0

/-- table denoted by a raw `(index, value)` list: later pairs override, absent = 0 -/
def tblOfEnts (nv : Nat) (e : List (Nat × Fp p)) : Tbl p :=
  ⟨nv, e.foldl (fun a iv => if iv.1 < a.size then a.set! iv.1 iv.2 else a) (Array.replicate (2 ^ nv) 0)⟩

def bitF (b i : Nat) : Fp p := if b.testBit i then 1 else 0

/-- `eq(b, x) = Π_i (x_i·b_i + (1 − x_i)(1 − b_i))`, `b_i` = bit `i` of `b` -/
def eqW (x : List (Fp p)) (b : Nat) : Fp p :=
  (x.zipIdx).foldl (fun acc xi => acc * (xi.1 * bitF b xi.2 + (1 - xi.1) * (1 - bitF b xi.2))) 1

/-- fixing the first `|x|` variables: `t'[j] = Σ_{b<2^d} t[b + j·2^d]·eq(b,x)` -/
def specFix (t : Tbl p) (x : List (Fp p)) : Tbl p :=
  let d := x.length
  let w : Array (Fp p) := Array.ofFn (n := 2 ^ d) (fun b => eqW x b.val)
  Tbl.ofFn (t.nv - d) (fun j => (List.range (2 ^ d)).foldl (fun acc b => acc + t.get (b + j * 2 ^ d) * w.getD b 0) 0)

/-- the permutation of bit positions exchanging `a+j ↔ b+j` for `j < k` -/
def sigma (a b k q : Nat) : Nat :=
  if a ≤ q ∧ q < a + k then b + (q - a) else if b ≤ q ∧ q < b + k then a + (q - b) else q
/-- the induced permutation of indices `< 2^nv` -/
def permIdx (nv a b k i : Nat) : Nat :=
  (List.range nv).foldl (fun acc q => if i.testBit (sigma a b k q) then acc + 2 ^ q else acc) 0
/-- windows inside `0..nv`, and trivial or disjoint -/
def windowOK (nv a b k : Nat) : Bool :=
  decide (a + k ≤ nv) && decide (b + k ≤ nv) && (a == b || k == 0 || decide (min a b + k ≤ max a b))
def specRelabel (t : Tbl p) (a b k : Nat) : Tbl p := Tbl.ofFn t.nv (fun i => t.get (permIdx t.nv a b k i))

def specMap (f : Fp p → Fp p) (t : Tbl p) : Tbl p := ⟨t.nv, t.a.map f⟩

/-- `t1 + c·t2` with the zero-polynomial rule; `none` outside the domain -/
def specLin (t1 : Tbl p) (c : Fp p) (t2 : Tbl p) : Option (Tbl p) :=
  if t1.nv == t2.nv then some (Tbl.ofFn t1.nv (fun i => t1.get i + c * t2.get i))
  else if t1.isZeroPoly then some (specMap (fun x => c * x) t2)
  else if t2.isZeroPoly then some t1
  else none

def specConcat (ps : List (Nat × List (Fp p))) : Tbl p :=
  let flat : Array (Fp p) := (ps.foldl (fun acc q => acc ++ q.2) []).toArray
  let nv := (List.range 70).find? (fun n => 2 ^ n ≥ flat.size) |>.getD 0
  Tbl.ofFn nv (fun i => flat.getD i 0)

def validTbl (nv : Nat) (t : List (Fp p)) : Bool := t.length == 2 ^ nv
def validEnts (nv : Nat) (e : List (Nat × Fp p)) : Bool := e.all (fun iv => iv.1 < 2 ^ nv)

/-- judge a dense result `nv tbl` -/
def judgeTbl (inDomain : Bool) (impl : String) (spec : Tbl p) : String := judge inDomain impl spec.str

/-- judge a sparse result `nv ents` by the table it denotes -/
def judgeSparse (inDomain : Bool) (impl : String) (spec : Tbl p) : String :=
  if !inDomain then "ok" else if impl == "panic" then "bad:panic" else
  match impl.splitOn " " with
  | [n, e] => match parseHex? n, pEnts p e with
    | some n, some e =>
      if n != spec.nv then "bad:num_vars want=" ++ spec.str
      else if !validEnts n e then "bad:index-range"
      else if (tblOfEnts n e).a == spec.a then "ok" else "bad:want=" ++ spec.str
    | _, _ => "bad:" ++ impl
  | _ => "bad:" ++ impl

/-! ### executable spec: multivariate -/

/-- exponent of variable `v` in a raw monomial -/
def expo (m : List (Nat × Nat)) (v : Nat) : Nat := (m.filter (fun ve => ve.1 == v)).foldl (fun s ve => s + ve.2) 0
def maxVar (m : List (Nat × Nat)) : Nat := m.foldl (fun s ve => max s (ve.1 + 1)) 0
/-- normal form, computed by counting per variable (not by sorting): ascending variables, positive powers -/
def normMon (m : List (Nat × Nat)) : List (Nat × Nat) :=
  (List.range (maxVar m)).filterMap (fun v => let e := expo m v; if e == 0 then none else some (v, e))
def monDeg (m : List (Nat × Nat)) : Nat := m.foldl (fun s ve => s + ve.2) 0
/-- graded order, ties broken lexicographically on exponent vectors from variable 0 upwards -/
def monCmp (m1 m2 : List (Nat × Nat)) : Ordering :=
  if monDeg m1 < monDeg m2 then .lt else if monDeg m1 > monDeg m2 then .gt else
  match (List.range (max (maxVar m1) (maxVar m2))).find? (fun v => expo m1 v != expo m2 v) with
  | none => .eq
  | some v => if expo m1 v < expo m2 v then .lt else .gt
/-- variables with a positive power are `< n` -/
def monVarsBelow (n : Nat) (m : List (Nat × Nat)) : Bool := m.all (fun ve => ve.2 == 0 || ve.1 < n)
def termsValid (nv : Nat) (t : List (Fp p × List (Nat × Nat))) : Bool := t.all (fun cm => monVarsBelow nv cm.2)

/-- `Π x_v^e` over the raw factor list (factors with power 0 are 1) -/
def specMonEval (m : List (Nat × Nat)) (x : List (Fp p)) : Fp p :=
  m.foldl (fun acc ve => if ve.2 == 0 then acc else acc * (x.getD ve.1 0) ^ ve.2) 1
/-- `Σ coeff·Π x_v^e` over the raw term list -/
def specPolyEval (t : List (Fp p × List (Nat × Nat))) (x : List (Fp p)) : Fp p :=
  t.foldl (fun acc cm => acc + cm.1 * specMonEval cm.2 x) 0

/-- coefficient map: normal-form monomial ↦ Σ coefficients -/
abbrev CMap (p : Nat) := List (List (Nat × Nat) × Fp p)
def CMap.coeff (c : CMap p) (m : List (Nat × Nat)) : Fp p := (c.find? (fun kv => kv.1 == m)).map (·.2) |>.getD 0
def CMap.addTerm (c : CMap p) (m : List (Nat × Nat)) (x : Fp p) : CMap p :=
  let m := normMon m
  if c.any (fun kv => kv.1 == m) then c.map (fun kv => if kv.1 == m then (kv.1, kv.2 + x) else kv) else c ++ [(m, x)]
def cmapOf (t : List (Fp p × List (Nat × Nat))) : CMap p := t.foldl (fun c cm => c.addTerm cm.2 cm.1) []
/-- `c1 + f·c2` -/
def cmapLin (c1 : CMap p) (f : Fp p) (c2 : CMap p) : CMap p := c2.foldl (fun c kv => c.addTerm kv.1 (f * kv.2)) c1
def cmapEq (c1 c2 : CMap p) : Bool :=
  c1.all (fun kv => c2.coeff kv.1 == kv.2) && c2.all (fun kv => c1.coeff kv.1 == kv.2)
def cmapDegree (c : CMap p) : Nat := (c.filter (fun kv => kv.2 != 0)).foldl (fun d kv => max d (monDeg kv.1)) 0

def strictlyAscending : List (List (Nat × Nat)) → Bool
  | a :: b :: rest => monCmp a b == .lt && strictlyAscending (b :: rest)
  | _ => true

/-- judge a polynomial result `nv terms`: same number of variables, same coefficient map as the spec,
    and canonical (normal-form monomials, strictly ascending, no zero coefficient) -/
def judgeMv (inDomain : Bool) (impl : String) (nv : Nat) (spec : CMap p) : String :=
  if !inDomain then "ok" else if impl == "panic" then "bad:panic" else
  match impl.splitOn " " with
  | [n, t] => match parseHex? n, pTerms p t with
    | some n, some t =>
      if n != nv then "bad:num_vars want=" ++ hex nv
      else if !cmapEq (cmapOf t) spec then "bad:coefficients"
      else if t.any (fun cm => cm.1 == 0) then "bad:zero-coefficient"
      else if t.any (fun cm => normMon cm.2 != cm.2) then "bad:term-not-normal"
      else if !strictlyAscending (t.map (·.2)) then "bad:not-ascending"
      else "ok"
    | _, _ => "bad:" ++ impl
  | _ => "bad:" ++ impl

/-! ### model plumbing -/
def mkDense (nv : Nat) (t : List (Fp p)) : Outcome (Dense (Fp p)) := Dense.fromEvaluationsVec nv t
def mkSparse (nv : Nat) (e : List (Nat × Fp p)) : Outcome (Sparse (Fp p)) := Sparse.fromEvaluations nv e
def mkMv (nv : Nat) (t : List (Fp p × List (Nat × Nat))) : Outcome (MvPoly (Fp p)) :=
  MvPoly.fromCoefficientsVec nv (t.map (fun cm => (cm.1, Term.new cm.2)))

def b01 (b : Bool) : String := if b then "1" else "0"

/-- ops on one field -/
def runP (p : Nat) (op : String) (args : List String) (impl : String) : Option (String × String) := do
  match op, args with
  -- ------------------------------------------------------------ dense
  | "dnew", [nv, t] =>
    let nv ← parseHex? nv; let t ← pTbl p t
    some (sOut sDense (mkDense nv t), judge (validTbl nv t) impl (hex nv ++ " " ++ sTbl t))
  | "dtoevals", [nv, t] =>
    let nv ← parseHex? nv; let t ← pTbl p t
    some (sOut sTbl (do let d ← mkDense nv t; pure d.toEvaluations), judge (validTbl nv t) impl (sTbl t))
  | "dneg", [nv, t] =>
    let nv ← parseHex? nv; let t ← pTbl p t
    some (sOut sDense (do let d ← mkDense nv t; pure d.neg), judgeTbl (validTbl nv t) impl (specMap (fun x => 0 - x) ⟨nv, t.toArray⟩))
  | "diszero", [nv, t] =>
    let nv ← parseHex? nv; let t ← pTbl p t
    some (sOut b01 (do let d ← mkDense nv t; d.isZero), judge (validTbl nv t) impl (b01 (Tbl.isZeroPoly ⟨nv, t.toArray⟩)))
  | "dnumvars", [nv, t] =>
    let nv ← parseHex? nv; let t ← pTbl p t
    some (sOut (fun (d : Dense (Fp p)) => hex d.numVars ++ " " ++ hex d.numVars) (mkDense nv t), judge (validTbl nv t) impl (hex nv ++ " " ++ hex nv))
  | "deval", [nv, t, x] =>
    let nv ← parseHex? nv; let t ← pTbl p t; let x ← pTbl p x
    let dom := validTbl nv t && x.length == nv
    some (sOut sF (do let d ← mkDense nv t; d.evaluate x), judge dom impl (sF ((specFix ⟨nv, t.toArray⟩ x).get 0)))
  | "dfix", [nv, t, x] =>
    let nv ← parseHex? nv; let t ← pTbl p t; let x ← pTbl p x
    let dom := validTbl nv t && x.length ≤ nv
    some (sOut sDense (do let d ← mkDense nv t; d.fixVariables x), judgeTbl dom impl (specFix ⟨nv, t.toArray⟩ x))
  | "drelabel", [nv, t, a, b, k] =>
    let nv ← parseHex? nv; let t ← pTbl p t; let a ← parseHex? a; let b ← parseHex? b; let k ← parseHex? k
    let dom := validTbl nv t && windowOK nv a b k
    some (sOut sDense (do let d ← mkDense nv t; d.relabel a b k), judgeTbl dom impl (specRelabel ⟨nv, t.toArray⟩ a b k))
  | "dindex", [nv, t, i] =>
    let nv ← parseHex? nv; let t ← pTbl p t; let i ← parseHex? i
    some (sOut sF (do let d ← mkDense nv t; d.index i), judge (validTbl nv t && i < 2 ^ nv) impl (sF (t.getD i 0)))
  | "dadd", [n1, t1, n2, t2] =>
    let n1 ← parseHex? n1; let t1 ← pTbl p t1; let n2 ← parseHex? n2; let t2 ← pTbl p t2
    let spec := specLin ⟨n1, t1.toArray⟩ 1 ⟨n2, t2.toArray⟩
    some (sOut sDense (do let a ← mkDense n1 t1; let b ← mkDense n2 t2; a.add b),
      judgeTbl (validTbl n1 t1 && validTbl n2 t2 && spec.isSome) impl (spec.getD ⟨0, #[]⟩))
  | "dsub", [n1, t1, n2, t2] =>
    let n1 ← parseHex? n1; let t1 ← pTbl p t1; let n2 ← parseHex? n2; let t2 ← pTbl p t2
    let spec := specLin ⟨n1, t1.toArray⟩ (0 - 1) ⟨n2, t2.toArray⟩
    some (sOut sDense (do let a ← mkDense n1 t1; let b ← mkDense n2 t2; a.sub b),
      judgeTbl (validTbl n1 t1 && validTbl n2 t2 && spec.isSome) impl (spec.getD ⟨0, #[]⟩))
  | "daddscaled", [n1, t1, f, n2, t2] =>
    let n1 ← parseHex? n1; let t1 ← pTbl p t1; let f ← pF p f; let n2 ← parseHex? n2; let t2 ← pTbl p t2
    let spec := specLin ⟨n1, t1.toArray⟩ f ⟨n2, t2.toArray⟩
    some (sOut sDense (do let a ← mkDense n1 t1; let b ← mkDense n2 t2; a.addScaled f b),
      judgeTbl (validTbl n1 t1 && validTbl n2 t2 && spec.isSome) impl (spec.getD ⟨0, #[]⟩))
  | "dmul", [nv, t, s] =>
    let nv ← parseHex? nv; let t ← pTbl p t; let s ← pF p s
    some (sOut sDense (do let d ← mkDense nv t; pure (d.mul s)), judgeTbl (validTbl nv t) impl (specMap (fun x => x * s) ⟨nv, t.toArray⟩))
  | "dconcat", [ps] =>
    let ps ← pPolys p ps
    some (sOut sDense (do let ds ← omapM (fun q => mkDense q.1 q.2) ps; Dense.concat ds),
      judgeTbl (ps.all (fun q => validTbl q.1 q.2)) impl (specConcat ps))
  | "dzero", [] => some (sDense (Dense.zero : Dense (Fp p)), vs impl "0 0")
  -- ------------------------------------------------------------ sparse
  | "snew", [nv, e] =>
    let nv ← parseHex? nv; let e ← pEnts p e
    some (sOut sSparse (mkSparse nv e), judgeSparse (validEnts nv e) impl (tblOfEnts nv e))
  | "stoevals", [nv, e] =>
    let nv ← parseHex? nv; let e ← pEnts p e
    some (sOut sTbl (do let s ← mkSparse nv e; s.toEvaluations), judge (validEnts nv e) impl (sTbl (tblOfEnts nv e).a.toList))
  | "stodense", [nv, e] =>
    let nv ← parseHex? nv; let e ← pEnts p e
    some (sOut sDense (do let s ← mkSparse nv e; s.toDense), judgeTbl (validEnts nv e) impl (tblOfEnts nv e))
  | "sneg", [nv, e] =>
    let nv ← parseHex? nv; let e ← pEnts p e
    some (sOut sSparse (do let s ← mkSparse nv e; pure s.neg), judgeSparse (validEnts nv e) impl (specMap (fun x => 0 - x) (tblOfEnts nv e)))
  | "siszero", [nv, e] =>
    -- `is_zero` ⇔ the denoted table is the 0-variable `[0]` (same statement as for the dense form)
    let nv ← parseHex? nv; let e ← pEnts p e
    some (sOut b01 (do let s ← mkSparse nv e; pure s.isZero), judge (validEnts nv e) impl (b01 (tblOfEnts nv e).isZeroPoly))
  | "snumvars", [nv, e] =>
    let nv ← parseHex? nv; let e ← pEnts p e
    some (sOut (fun (s : Sparse (Fp p)) => hex s.numVars ++ " " ++ hex s.numVars) (mkSparse nv e), judge (validEnts nv e) impl (hex nv ++ " " ++ hex nv))
  | "seval", [nv, e, x] =>
    let nv ← parseHex? nv; let e ← pEnts p e; let x ← pTbl p x
    let dom := validEnts nv e && x.length == nv
    some (sOut sF (do let s ← mkSparse nv e; s.evaluate x), judge dom impl (sF ((specFix (tblOfEnts nv e) x).get 0)))
  | "sfix", [nv, e, x] =>
    let nv ← parseHex? nv; let e ← pEnts p e; let x ← pTbl p x
    let dom := validEnts nv e && x.length ≤ nv
    some (sOut sSparse (do let s ← mkSparse nv e; s.fixVariables x), judgeSparse dom impl (specFix (tblOfEnts nv e) x))
  | "srelabel", [nv, e, a, b, k] =>
    let nv ← parseHex? nv; let e ← pEnts p e; let a ← parseHex? a; let b ← parseHex? b; let k ← parseHex? k
    let dom := validEnts nv e && windowOK nv a b k
    some (sOut sSparse (do let s ← mkSparse nv e; s.relabel a b k), judgeSparse dom impl (specRelabel (tblOfEnts nv e) a b k))
  | "sindex", [nv, e, i] =>
    let nv ← parseHex? nv; let e ← pEnts p e; let i ← parseHex? i
    some (sOut sF (do let s ← mkSparse nv e; pure (s.index i)), judge (validEnts nv e && i < 2 ^ nv) impl (sF ((tblOfEnts nv e).get i)))
  | "sadd", [n1, e1, n2, e2] =>
    let n1 ← parseHex? n1; let e1 ← pEnts p e1; let n2 ← parseHex? n2; let e2 ← pEnts p e2
    let spec := specLin (tblOfEnts n1 e1) 1 (tblOfEnts n2 e2)
    some (sOut sSparse (do let a ← mkSparse n1 e1; let b ← mkSparse n2 e2; a.add b),
      judgeSparse (validEnts n1 e1 && validEnts n2 e2 && spec.isSome) impl (spec.getD ⟨0, #[]⟩))
  | "ssub", [n1, e1, n2, e2] =>
    let n1 ← parseHex? n1; let e1 ← pEnts p e1; let n2 ← parseHex? n2; let e2 ← pEnts p e2
    let spec := specLin (tblOfEnts n1 e1) (0 - 1) (tblOfEnts n2 e2)
    some (sOut sSparse (do let a ← mkSparse n1 e1; let b ← mkSparse n2 e2; a.sub b),
      judgeSparse (validEnts n1 e1 && validEnts n2 e2 && spec.isSome) impl (spec.getD ⟨0, #[]⟩))
  | "saddscaled", [n1, e1, f, n2, e2] =>
    let n1 ← parseHex? n1; let e1 ← pEnts p e1; let f ← pF p f; let n2 ← parseHex? n2; let e2 ← pEnts p e2
    let spec := specLin (tblOfEnts n1 e1) f (tblOfEnts n2 e2)
    some (sOut sSparse (do let a ← mkSparse n1 e1; let b ← mkSparse n2 e2; a.addScaled f b),
      judgeSparse (validEnts n1 e1 && validEnts n2 e2 && spec.isSome) impl (spec.getD ⟨0, #[]⟩))
  | "szero", [] => some (sSparse (Sparse.zero : Sparse (Fp p)), vs impl "0 _")
  -- ------------------------------------------------------------ dense and sparse side by side
  | "xeval", [nv, t, x] =>
    let nv ← parseHex? nv; let t ← pTbl p t; let x ← pTbl p x
    let e := (t.zipIdx.filter (fun vi => vi.1 != 0)).map (fun vi => (vi.2, vi.1))
    let m := do let d ← mkDense nv t; let s ← mkSparse nv e; let a ← d.evaluate x; let b ← s.evaluate x; pure (sF a ++ " " ++ sF b)
    let want := sF ((specFix ⟨nv, t.toArray⟩ x).get 0)
    some (sOut id m, judge (validTbl nv t && x.length == nv) impl (want ++ " " ++ want))
  | "xfix", [nv, t, x] =>
    let nv ← parseHex? nv; let t ← pTbl p t; let x ← pTbl p x
    let e := (t.zipIdx.filter (fun vi => vi.1 != 0)).map (fun vi => (vi.2, vi.1))
    let m := do
      let d ← mkDense nv t; let s ← mkSparse nv e
      let a ← d.fixVariables x; let b ← s.fixVariables x; let b ← b.toDense
      pure (sDense a ++ " " ++ sDense b)
    let want := (specFix ⟨nv, t.toArray⟩ x).str
    some (sOut id m, judge (validTbl nv t && x.length ≤ nv) impl (want ++ " " ++ want))
  -- ------------------------------------------------------------ multivariate
  | "teval", [m, x] =>
    let m ← pMon m; let x ← pTbl p x
    some (sOut sF (Term.evaluate (Term.new m) x), judge (monVarsBelow x.length m) impl (sF (specMonEval m x)))
  | "mvnew", [nv, t] =>
    let nv ← parseHex? nv; let t ← pTerms p t
    some (sOut sMv (mkMv nv t), judgeMv (termsValid nv t) impl nv (cmapOf t))
  | "mvdeg", [nv, t] =>
    let nv ← parseHex? nv; let t ← pTerms p t
    some (sOut hex (do let q ← mkMv nv t; pure q.degree), judge (termsValid nv t) impl (hex (cmapDegree (cmapOf t))))
  | "mviszero", [nv, t] =>
    let nv ← parseHex? nv; let t ← pTerms p t
    some (sOut b01 (do let q ← mkMv nv t; pure q.isZero), judge (termsValid nv t) impl (b01 ((cmapOf t).all (fun kv => kv.2 == 0))))
  | "mvneg", [nv, t] =>
    let nv ← parseHex? nv; let t ← pTerms p t
    some (sOut sMv (do let q ← mkMv nv t; pure q.neg), judgeMv (termsValid nv t) impl nv (cmapLin [] (0 - 1) (cmapOf t)))
  | "mveval", [nv, t, x] =>
    let nv ← parseHex? nv; let t ← pTerms p t; let x ← pTbl p x
    some (sOut sF (do let q ← mkMv nv t; q.evaluate x), judge (termsValid nv t && x.length ≥ nv) impl (sF (specPolyEval t x)))
  | "mvadd", [n1, t1, n2, t2] =>
    let n1 ← parseHex? n1; let t1 ← pTerms p t1; let n2 ← parseHex? n2; let t2 ← pTerms p t2
    some (sOut sMv (do let a ← mkMv n1 t1; let b ← mkMv n2 t2; pure (a.add b)),
      judgeMv (termsValid n1 t1 && termsValid n2 t2) impl (max n1 n2) (cmapLin (cmapOf t1) 1 (cmapOf t2)))
  | "mvsub", [n1, t1, n2, t2] =>
    let n1 ← parseHex? n1; let t1 ← pTerms p t1; let n2 ← parseHex? n2; let t2 ← pTerms p t2
    some (sOut sMv (do let a ← mkMv n1 t1; let b ← mkMv n2 t2; pure (a.sub b)),
      judgeMv (termsValid n1 t1 && termsValid n2 t2) impl (max n1 n2) (cmapLin (cmapOf t1) (0 - 1) (cmapOf t2)))
  | "mvaddscaled", [n1, t1, f, n2, t2] =>
    let n1 ← parseHex? n1; let t1 ← pTerms p t1; let f ← pF p f; let n2 ← parseHex? n2; let t2 ← pTerms p t2
    some (sOut sMv (do let a ← mkMv n1 t1; let b ← mkMv n2 t2; pure (a.addScaled f b)),
      judgeMv (termsValid n1 t1 && termsValid n2 t2) impl (max n1 n2) (cmapLin (cmapOf t1) f (cmapOf t2)))
  | "mvaddev", [n1, t1, n2, t2, x] =>
    let n1 ← parseHex? n1; let t1 ← pTerms p t1; let n2 ← parseHex? n2; let t2 ← pTerms p t2; let x ← pTbl p x
    some (sOut sF (do let a ← mkMv n1 t1; let b ← mkMv n2 t2; (a.add b).evaluate x),
      judge (termsValid n1 t1 && termsValid n2 t2 && x.length ≥ max n1 n2) impl (sF (specPolyEval t1 x + specPolyEval t2 x)))
  | "mvsubev", [n1, t1, n2, t2, x] =>
    let n1 ← parseHex? n1; let t1 ← pTerms p t1; let n2 ← parseHex? n2; let t2 ← pTerms p t2; let x ← pTbl p x
    some (sOut sF (do let a ← mkMv n1 t1; let b ← mkMv n2 t2; (a.sub b).evaluate x),
      judge (termsValid n1 t1 && termsValid n2 t2 && x.length ≥ max n1 n2) impl (sF (specPolyEval t1 x - specPolyEval t2 x)))
  | "mvaddscaledev", [n1, t1, f, n2, t2, x] =>
    let n1 ← parseHex? n1; let t1 ← pTerms p t1; let f ← pF p f; let n2 ← parseHex? n2; let t2 ← pTerms p t2; let x ← pTbl p x
    some (sOut sF (do let a ← mkMv n1 t1; let b ← mkMv n2 t2; (a.addScaled f b).evaluate x),
      judge (termsValid n1 t1 && termsValid n2 t2 && x.length ≥ max n1 n2) impl (sF (specPolyEval t1 x + f * specPolyEval t2 x)))
  | "mvzero", [] => some (sMv (MvPoly.zero : MvPoly (Fp p)), vs impl "0 ~")
  | _, _ => none

end

def ordStr' : Ordering → String
  | .lt => "lt" | .eq => "eq" | .gt => "gt"

/-- returns (model output, verdict of the spec on the implementation's output) -/
def run (op : String) (args : List String) (impl : String) : Option (String × String) := do
  match op, args with
  -- field-independent term operations
  | "tnew", [m] =>
    let m ← pMon m
    some (sMon (Term.new m), vs impl (sMon (normMon m)))
  | "tdeg", [m] =>
    let m ← pMon m
    let t := Term.new m
    let n := normMon m
    some (s!"{hex t.degree} {hexList t.vars} {hexList t.powers} {boolStr t.isConstant}",
      vs impl s!"{hex (monDeg m)} {hexList (n.map (·.1))} {hexList (n.map (·.2))} {boolStr (monDeg m == 0)}")
  | "tcmp", [m1, m2] =>
    let m1 ← pMon m1; let m2 ← pMon m2
    let (a, b) := (Term.new m1, Term.new m2)
    some (s!"{ordStr' (Term.cmp a b)} {boolStr (a == b)}", vs impl s!"{ordStr' (monCmp m1 m2)} {boolStr (normMon m1 == normMon m2)}")
  | _, ps :: rest =>
    let p ← parseHex? ps
    runP p op rest impl
  | _, _ => none

end Ark.DrvC17
