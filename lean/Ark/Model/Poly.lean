import Ark.Model.Limbs
/-
  Ark.Model.Poly — C08: dense and sparse univariate polynomials of `ark-poly`
  (`poly/src/polynomial/univariate/{dense,sparse,mod}.rs`, the dense/sparse parts of
  `poly/src/evaluations/univariate/mod.rs`), transcribed function by function.

  * dense polynomial  = `List F`, the `coeffs` Vec low-to-high, exactly as stored
    (leading zeros included when the code leaves them);
  * sparse polynomial = `List (Nat × F)`, the stored `(degree, coeff)` Vec in stored order.

  Every Rust panic (the asserting `degree()`, slice indexing, `unwrap`, `expect`, `panic!`)
  is explicit: such functions return `Ark.Outcome`.  The model mirrors which impls call
  `truncate_leading_zeros` and which do not, which call `degree()` (and how often), and the
  special cases for zero operands — it is NOT a tidy version.

  Generic over core operator classes; executed at `Ark.Fp p` by the driver.
  FFT-based steps (`fft_in_place`, `ifft_in_place`) are modelled by naive evaluation /
  naive inverse DFT: their correctness is property C07.
-/
namespace Ark.Poly
open Ark

instance : Monad Outcome where
  pure := Outcome.ok
  bind x f := match x with
    | .ok a => f a
    | .panic => .panic

variable {F : Type} [Add F] [Sub F] [Mul F] [Neg F] [Zero F] [One F] [Inv F] [DecidableEq F]

/-! ## helpers (Vec / slice primitives) -/

/-- `x.pow([n])` -/
def pow (x : F) : Nat → F
  | 0 => 1
  | n + 1 => pow x n * x

/-- `F::from(n as u64)` for small `n` -/
def ofNat : Nat → F
  | 0 => 0
  | n + 1 => ofNat n + 1

/-- `Vec::resize(n, F::zero())` (truncates when `n < len`) -/
def resize (p : List F) (n : Nat) : List F := p.take n ++ List.replicate (n - p.length) 0

/-- `a.iter_mut().zip(&b).for_each(|(x, y)| *x = f(*x, y))`: stops at the shorter, keeps `a`'s length -/
def zipInto (f : F → F → F) : List F → List F → List F
  | [], _ => []
  | a :: as, [] => a :: as
  | a :: as, b :: bs => f a b :: zipInto f as bs

/-- `v[i] = f(v[i])` with the slice-index panic -/
def modifyAt (f : F → F) : List F → Nat → Outcome (List F)
  | [], _ => .panic
  | c :: cs, 0 => .ok (f c :: cs)
  | c :: cs, i + 1 =>
    match modifyAt f cs i with
    | .ok r => .ok (c :: r)
    | .panic => .panic

/-- a `for (i, c) in terms { … }` loop over stored terms with a body that may panic -/
def foldTerms {σ : Type} (step : σ → Nat × F → Outcome σ) : List (Nat × F) → σ → Outcome σ
  | [], st => .ok st
  | t :: ts, st =>
    match step st t with
    | .ok st' => foldTerms step ts st'
    | .panic => .panic

/-! ## DensePolynomial -/

/-- `Zero::is_zero`: `coeffs.is_empty() || coeffs.iter().all(is_zero)` -/
def isZero (p : List F) : Bool := p.all (fun c => decide (c = 0))

/-- `truncate_leading_zeros`: pop while the last coefficient is zero -/
def truncate : List F → List F
  | [] => []
  | c :: cs =>
    match truncate cs with
    | [] => if c = 0 then [] else [c]
    | t :: ts => c :: t :: ts

/-- `Polynomial::degree` (dense): `0` for a zero polynomial, otherwise
    `assert!(last coefficient is non-zero)` and `len - 1` -/
def degree (p : List F) : Outcome Nat :=
  if isZero p then .ok 0
  else match p.getLast? with
    | some c => if c = 0 then .panic else .ok (p.length - 1)
    | none => .panic

/-- `from_coefficients_vec` / `from_coefficients_slice`: truncate, then an assert that
    cannot fail after the truncation -/
def fromCoefficientsVec (v : List F) : List F := truncate v

/-- `horner_evaluate`: `rfold(0, |res, c| res * point + c)` -/
def horner (p : List F) (x : F) : F := p.foldr (fun c acc => acc * x + c) 0

/-- `Polynomial::evaluate` (dense, serial `internal_evaluate`) -/
def evaluate (p : List F) (x : F) : F :=
  if isZero p then 0
  else if x = 0 then
    (match p with
     | c :: _ => c
     | [] => 0)          -- `self.coeffs[0]`; `[]` is unreachable here (`isZero [] = true`)
  else horner p x

/-- `Neg for DensePolynomial` (no truncation needed, none done) -/
def neg (p : List F) : List F := p.map (fun c => -c)

/-- `&Dense + &Dense` -/
def addDD (a b : List F) : Outcome (List F) := do
  let r ←
    if isZero a then pure b
    else if isZero b then pure a
    else do
      let da ← degree a
      let db ← degree b
      if da ≥ db then pure (zipInto (· + ·) a b) else pure (zipInto (· + ·) b a)
  pure (truncate r)

/-- `Dense += &Dense` -/
def addAssignDD (a b : List F) : List F :=
  if isZero b then truncate a
  else if isZero a then truncate b            -- clear, extend_from_slice(other), truncate
  else
    let a' := if b.length > a.length then resize a b.length else a
    truncate (zipInto (· + ·) a' b)

/-- `Dense += (f, &Dense)` — the zero-`self` branch copies, scales and truncates (`f` may be zero) -/
def addAssignScaledDD (a : List F) (f : F) (b : List F) : Outcome (List F) :=
  if isZero b then .ok a
  else if isZero a then .ok (truncate (b.map (fun c => c * f)))
  else do
    let da ← degree a
    let db ← degree b
    let a' := if da < db then resize a b.length else a
    pure (truncate (zipInto (fun x y => x + f * y) a' b))

/-- `&Dense - &Dense` -/
def subDD (a b : List F) : Outcome (List F) := do
  let r ←
    if isZero a then pure (b.map (fun c => -c))
    else if isZero b then pure a
    else do
      let da ← degree a
      let db ← degree b
      if da ≥ db then pure (zipInto (· - ·) a b)
      else pure (zipInto (· - ·) (resize a b.length) b)
  pure (truncate r)

/-- `Dense -= &Dense` — the zero-`other` branch returns without truncating -/
def subAssignDD (a b : List F) : Outcome (List F) := do
  if isZero a then
    pure (truncate (zipInto (· - ·) (resize a b.length) b))
  else if isZero b then pure a
  else
    let da ← degree a
    let db ← degree b
    let a' := if da ≥ db then a else resize a b.length
    pure (truncate (zipInto (· - ·) a' b))

/-- `&Dense * F` -/
def scale (a : List F) (f : F) : List F :=
  if isZero a || decide (f = 0) then [] else a.map (fun c => c * f)

/-- inner loops of `naive_mul`: `result[i + j] += a_i * b_j` -/
def naiveMulRow (ai : F) (i : Nat) : List F → Nat → List F → Outcome (List F)
  | [], _, res => .ok res
  | bj :: bs, j, res =>
    match modifyAt (fun r => r + ai * bj) res (i + j) with
    | .ok res' => naiveMulRow ai i bs (j + 1) res'
    | .panic => .panic

def naiveMulRows (b : List F) : List F → Nat → List F → Outcome (List F)
  | [], _, res => .ok res
  | ai :: as, i, res =>
    match naiveMulRow ai i b 0 res with
    | .ok res' => naiveMulRows b as (i + 1) res'
    | .panic => .panic

/-- `DensePolynomial::naive_mul` -/
def naiveMul (a b : List F) : Outcome (List F) :=
  if isZero a || isZero b then .ok []
  else do
    let da ← degree a
    let db ← degree b
    let res ← naiveMulRows b a 0 (List.replicate (da + db + 1) 0)
    pure (fromCoefficientsVec res)

/-- pointwise sum, padded to the longer list -/
def addPad : List F → List F → List F
  | [], b => b
  | a, [] => a
  | a :: as, b :: bs => (a + b) :: addPad as bs

/-- plain schoolbook product of coefficient lists (length `la + lb - 1` for non-empty inputs) -/
def mulCoeffs : List F → List F → List F
  | [], _ => []
  | [a], b => b.map (fun c => a * c)
  | a :: as, b => addPad (b.map (fun c => a * c)) (0 :: mulCoeffs as b)

/-- `usize::next_power_of_two` -/
def nextPow2Aux : Nat → Nat → Nat → Nat
  | 0, acc, _ => acc
  | fuel + 1, acc, n => if acc ≥ n then acc else nextPow2Aux fuel (2 * acc) n
def nextPow2 (n : Nat) : Nat := nextPow2Aux (n + 1) 1 n

/-- `GeneralEvaluationDomain::new(n).is_some()` for a field of the given two-adicity and
    without `SMALL_SUBGROUP_BASE` (radix-2 only; true of every field the harness uses) -/
def domainExists (twoAdicity n : Nat) : Bool := Nat.log2 (nextPow2 n) ≤ twoAdicity

/-- `&Dense * &Dense` (FFT based): evaluate both over a domain of size ≥ `la + lb - 1`,
    multiply pointwise, interpolate (`from_coefficients_vec`).  By C07 the interpolant is the
    schoolbook product of the stored coefficient vectors; `.expect("field is not smooth
    enough…")` panics when no domain of that size exists. -/
def mulDD (twoAdicity : Nat) (a b : List F) : Outcome (List F) :=
  if isZero a || isZero b then .ok []
  else if !domainExists twoAdicity (a.length + b.length - 1) then .panic
  else .ok (fromCoefficientsVec (mulCoeffs a b))

/-- `mul_by_vanishing_poly(domain)` with `n = domain.size()`, `c = domain.coset_offset_pow_size()`:
    `self · (X^n − c)` -/
def mulByVanishingPoly (a : List F) (n : Nat) (c : F) : List F :=
  fromCoefficientsVec (zipInto (fun s x => s - x * c) (List.replicate n 0 ++ a) a)

/-- `divide_by_vanishing_poly(domain)` with `n = domain.size()`, `c = domain.coset_offset_pow_size()`:
    division by `X^n − c`; the `len < n` branch returns `self.clone()` untruncated -/
def divideByVanishingPoly (a : List F) (n : Nat) (c : F) : Outcome (List F × List F) :=
  if a.length < n then .ok ([], a)
  else if n = 0 then .panic                  -- `self.len() / domain_size`
  else
    let q0 := a.drop n
    let (q, _) := (List.range (a.length / n - 1)).foldl
      (fun (st : List F × F) k =>                                   -- i = k + 1 ∈ 1..len/n
        let op := st.2 * c                                          -- `offset_pow *= offset_pow_size`
        (zipInto (fun s x => s + x * op) st.1 (a.drop (n * (k + 2))), op)) (q0, (1 : F))
    let r := zipInto (fun s x => s + x * c) (a.take n) q
    .ok (fromCoefficientsVec q, fromCoefficientsVec r)

/-! ## SparsePolynomial -/

abbrev Terms (F : Type) := List (Nat × F)

/-- `Zero::is_zero` (sparse) -/
def sIsZero (s : Terms F) : Bool := s.all (fun t => decide (t.2 = 0))

/-- `Polynomial::degree` (sparse): asserts that the last stored coefficient is non-zero -/
def sDegree (s : Terms F) : Outcome Nat :=
  if sIsZero s then .ok 0
  else match s.getLast? with
    | some t => if t.2 = 0 then .panic else .ok t.1
    | none => .panic

/-- insertion step of a stable sort by degree -/
def insertTerm (t : Nat × F) : Terms F → Terms F
  | [] => [t]
  | u :: us => if t.1 < u.1 then t :: u :: us else u :: insertTerm t us

/-- `coeffs.sort_by(|(c1, _), (c2, _)| c1.cmp(c2))` (stable) -/
def sortTerms (l : Terms F) : Terms F := l.foldl (fun acc t => insertTerm t acc) []

/-- the "combine like terms" loop: add a term to the last pushed one when the degrees agree
    (`acc` is the `combined` Vec, newest entry last) -/
def combineTerms : Terms F → Terms F → Terms F
  | acc, [] => acc
  | acc, t :: ts =>
    match acc.getLast? with
    | some l => if l.1 = t.1 then combineTerms (acc.dropLast ++ [(l.1, l.2 + t.2)]) ts
                else combineTerms (acc ++ [t]) ts
    | none => combineTerms [t] ts

/-- `SparsePolynomial::from_coefficients_vec` / `_slice`: stable sort by degree, combine equal
    degrees, `retain` the non-zero terms.  Total: no assertion is left. -/
def sFromCoefficientsVec (v : Terms F) : Terms F :=
  (combineTerms [] (sortTerms v)).filter (fun t => !decide (t.2 = 0))

/-- number of bits of `d` (`0usize.leading_zeros() - d.leading_zeros()`) -/
def bitLen (d : Nat) : Nat := if d = 0 then 0 else Nat.log2 d + 1

/-- `[p, p², p⁴, …]`, `n` further squarings after the first entry -/
def squarings (x : F) : Nat → List F
  | 0 => [x]
  | n + 1 => x :: squarings (x * x) n

/-- `Field::pow_with_table`: `None` when a set bit has no table entry -/
def powWithTable : Nat → List F → Nat → F → Option F
  | 0, _, _, res => some res
  | fuel + 1, table, e, res =>
    if e = 0 then some res
    else if e % 2 = 1 then
      match table with
      | [] => none
      | t :: ts => powWithTable fuel ts (e / 2) (res * t)
    else powWithTable fuel table.tail (e / 2) res

/-- `Polynomial::evaluate` (sparse) -/
def sEvaluate (s : Terms F) (x : F) : Outcome F :=
  if sIsZero s then .ok 0
  else do
    let d ← sDegree s
    let table := squarings x (bitLen d - 1)
    foldTerms (fun (acc : F) t =>
      match powWithTable (t.1 + 1) table t.1 1 with
      | some pw => .ok (acc + t.2 * pw)
      | none => .panic) s 0

/-- `append_coeffs`: `assert!(append.is_empty() || self.degree() < append[0].0)` -/
def sAppendCoeffs (r app : Terms F) : Outcome (Terms F) :=
  match app with
  | [] => .ok r
  | t :: _ => do
    let d ← sDegree r
    if d < t.1 then pure (r ++ app) else .panic

/-- the merge loop of `&Sparse + &Sparse` -/
def sAddLoop : Nat → Terms F → Terms F → Terms F → Outcome (Terms F)
  | 0, _, _, r => .ok r                      -- fuel = len s + len t + 1 is never exhausted
  | fuel + 1, s, t, r =>
    match s, t with
    | [], [] => .ok r
    | [], t => sAppendCoeffs r t
    | s, [] => sAppendCoeffs r s
    | (ds, cs) :: s', (dt, ct) :: t' =>
      if ds < dt then sAddLoop fuel s' ((dt, ct) :: t') (r ++ [(ds, cs)])
      else if ds = dt then
        let sum := cs + ct
        sAddLoop fuel s' t' (if sum = 0 then r else r ++ [(ds, sum)])
      else sAddLoop fuel ((ds, cs) :: s') t' (r ++ [(dt, ct)])

/-- `&Sparse + &Sparse` (also `Sparse + Sparse`, `Sparse += &Sparse`) -/
def sAdd (s t : Terms F) : Outcome (Terms F) :=
  if sIsZero s then .ok t
  else if sIsZero t then .ok s
  else sAddLoop (s.length + t.length + 1) s t []

/-- `Sparse += &Sparse`: `self.coeffs = (self.clone() + other.clone()).coeffs` -/
def sAddAssign (s t : Terms F) : Outcome (Terms F) := sAdd s t

/-- `Neg for SparsePolynomial` -/
def sNeg (s : Terms F) : Terms F := s.map (fun u => (u.1, -u.2))

/-- `&Sparse * F` -/
def sScale (s : Terms F) (f : F) : Terms F :=
  if sIsZero s || decide (f = 0) then [] else s.map (fun u => (u.1, u.2 * f))

/-- `Sparse += (f, &Sparse)`: `self.coeffs = (self.clone() + (other * f)).coeffs` -/
def sAddAssignScaled (s : Terms F) (f : F) (t : Terms F) : Outcome (Terms F) := sAdd s (sScale t f)

/-- `Sparse -= &Sparse`: `self.coeffs = (self.clone() + (-other.clone())).coeffs` -/
def sSubAssign (s t : Terms F) : Outcome (Terms F) := sAdd s (sNeg t)

/-- `BTreeMap::entry(k).and_modify(|c| *c += v).or_insert(v)` on the sorted association list -/
def btAdd (k : Nat) (v : F) : Terms F → Terms F
  | [] => [(k, v)]
  | (k', v') :: m =>
    if k < k' then (k, v) :: (k', v') :: m
    else if k = k' then (k', v' + v) :: m
    else (k', v') :: btAdd k v m

/-- `SparsePolynomial::mul` -/
def sMul (s t : Terms F) : Terms F :=
  if sIsZero s || sIsZero t then []
  else
    let m := s.foldl (fun m a => t.foldl (fun m b => btAdd (a.1 + b.1) (a.2 * b.2) m) m) []
    sFromCoefficientsVec m

/-- `From<SparsePolynomial> for DensePolynomial` -/
def sparseToDense (s : Terms F) : Outcome (List F) := do
  let d ← sDegree s
  let r ← foldTerms (fun (r : List F) t => modifyAt (fun _ => t.2) r t.1) s (List.replicate (d + 1) 0)
  pure (fromCoefficientsVec r)

/-- `enumerate().filter(non-zero)` -/
def nonzeroTerms : List F → Nat → Terms F
  | [], _ => []
  | c :: cs, i => if c = 0 then nonzeroTerms cs (i + 1) else (i, c) :: nonzeroTerms cs (i + 1)

/-- `From<DensePolynomial> for SparsePolynomial` -/
def denseToSparse (a : List F) : Terms F := sFromCoefficientsVec (nonzeroTerms a 0)

/-! ## mixed dense / sparse operators -/

/-- `&Dense + &Sparse` — the zero-`other` branch returns `self.clone()` untruncated -/
def addDS (a : List F) (s : Terms F) : Outcome (List F) :=
  if isZero a then sparseToDense s
  else if sIsZero s then .ok a
  else do
    let _ ← sDegree s                 -- `other.degree().saturating_sub(result.degree())`
    let _ ← degree a
    let r := s.foldl (fun (r : List F) t =>
      match modifyAt (fun c => c + t.2) r t.1 with
      | .ok r' => r'                                                     -- `get_mut(pow)` is Some
      | .panic => r ++ List.replicate (t.1 - r.length) 0 ++ [t.2]) a     -- extend with zeros, push
    pure (truncate r)

/-- `Dense += &Sparse` — the zero-`other` branch returns without truncating -/
def addAssignDS (a : List F) (s : Terms F) : Outcome (List F) :=
  if sIsZero s then .ok a
  else if isZero a then do
    let d ← sDegree s
    let r ← foldTerms (fun (r : List F) t => modifyAt (fun _ => t.2) r t.1) s (List.replicate (d + 1) 0)
    pure (truncate r)
  else do
    let lhs ← degree a
    let ds ← sDegree s
    let a' := resize a (max lhs ds + 1)
    let r ← foldTerms (fun (r : List F) t =>
      if t.1 ≤ lhs then modifyAt (fun c => c + t.2) r t.1 else modifyAt (fun _ => t.2) r t.1) s a'
    pure (truncate r)

/-- the common loop of `&Dense - &Sparse` and `Dense -= &Sparse`: subtract in place when the
    power is inside the vector (`get_mut`), otherwise `resize(pow, 0)` and push `-coeff` -/
def subSparseLoop (a : List F) (s : Terms F) : List F :=
  s.foldl (fun (r : List F) t =>
    match modifyAt (fun c => c - t.2) r t.1 with
    | .ok r' => r'                                   -- `get_mut(pow)` is Some
    | .panic => resize r t.1 ++ [-t.2]) a            -- `resize(pow, zero)`, `push(-coeff)`

/-- `&Dense - &Sparse` — the zero-`other` branch returns `self.clone()` untruncated -/
def subDS (a : List F) (s : Terms F) : Outcome (List F) :=
  if isZero a then sparseToDense (sNeg s)
  else if sIsZero s then .ok a
  else .ok (truncate (subSparseLoop a s))

/-- `Dense -= &Sparse`: no special cases, loop then truncate -/
def subAssignDS (a : List F) (s : Terms F) : List F := truncate (subSparseLoop a s)

/-! ## DenseOrSparsePolynomial -/

inductive DoS (F : Type) where
  | d : List F → DoS F
  | s : Terms F → DoS F

def DoS.isZero : DoS F → Bool
  | .d p => Poly.isZero p
  | .s p => sIsZero p

def DoS.degree : DoS F → Outcome Nat
  | .d p => Poly.degree p
  | .s p => sDegree p

/-- `leading_coefficient`: the last *stored* coefficient -/
def DoS.leadingCoefficient : DoS F → Option F
  | .d p => p.getLast?
  | .s p => p.getLast?.map (·.2)

def enumFrom : List F → Nat → Terms F
  | [], _ => []
  | c :: cs, i => (i, c) :: enumFrom cs (i + 1)

/-- `iter_with_index` -/
def DoS.iterWithIndex : DoS F → Terms F
  | .d p => enumFrom p 0
  | .s p => p

/-- `From<DenseOrSparsePolynomial> for DensePolynomial` (dense: as stored) -/
def DoS.toDense : DoS F → Outcome (List F)
  | .d p => .ok p
  | .s p => sparseToDense p

/-- `TryInto<SparsePolynomial<F>> for DenseOrSparsePolynomial`: `Ok(p.into_owned())` for the sparse
    variant, `Err(())` (= `none`) for the dense variant -/
def DoS.tryIntoSparse : DoS F → Option (Terms F)
  | .s p => some p
  | .d _ => none

/-- the `while` loop of `divide_with_q_and_r`.  Over a field, and with a divisor whose last stored
    term really is its leading term, every iteration shortens the remainder, so
    `fuel = remainder.len() + 1` is never exhausted.  (A sparse divisor storing its top degree
    twice would make the Rust loop spin forever — the model would run out of fuel — but
    `from_coefficients_vec` now merges equal degrees, so no public constructor produces one.) -/
def divLoop (db : Nat) (inv : F) (bterms : Terms F) : Nat → List F → List F → Outcome (List F × List F)
  | 0, q, r => .ok (q, r)
  | fuel + 1, q, r =>
    if isZero r then .ok (q, r)
    else do
      let dr ← degree r
      if dr < db then pure (q, r)
      else
        match r.getLast? with
        | none => .panic
        | some lc =>
          let cq := lc * inv
          let dr' ← degree r
          let qd := dr' - db
          let q' ← modifyAt (fun _ => cq) q qd
          let r' ← foldTerms (fun (r : List F) t => modifyAt (fun c => c - cq * t.2) r (qd + t.1)) bterms r
          divLoop db inv bterms fuel q' (truncate r')

/-- `DenseOrSparsePolynomial::divide_with_q_and_r` (always `Some` when it returns) -/
def divideWithQAndR (a b : DoS F) : Outcome (List F × List F) :=
  if a.isZero then .ok ([], [])
  else if b.isZero then .panic                  -- panic!("Dividing by zero polynomial")
  else do
    let da ← a.degree
    let db ← b.degree
    if da < db then
      let r ← a.toDense
      pure ([], r)
    else
      let da ← a.degree
      let db ← b.degree
      let q := List.replicate (da - db + 1) 0
      let r ← a.toDense
      match b.leadingCoefficient with
      | none => .panic
      | some lc =>
        if lc = 0 then .panic                   -- `.inverse().unwrap()`
        else
          let (q', r') ← divLoop db lc⁻¹ b.iterWithIndex (r.length + 1) q r
          pure (fromCoefficientsVec q', r')

/-- `&Dense / &Dense` -/
def divDD (a b : List F) : Outcome (List F) := do
  let (q, _) ← divideWithQAndR (.d a) (.d b)
  pure q

/-! ## evaluation over a domain, interpolation -/

/-- the fields of a `Radix2EvaluationDomain` that the polynomial code reads -/
structure Domain (F : Type) where
  size : Nat
  gen : F
  offset : F

def elementsAux (g : F) : Nat → F → List F
  | 0, _ => []
  | n + 1, cur => cur :: elementsAux g n (cur * g)

/-- `domain.elements()`: `offset, offset·g, offset·g², …` -/
def Domain.elements (D : Domain F) : List F := elementsAux D.gen D.size D.offset

/-- `domain.coset_offset_pow_size()`: `offset.pow([size])` (`get_coset`), `1` for a subgroup -/
def Domain.offsetPowSize (D : Domain F) : F := pow D.offset D.size

/-- `domain.vanishing_polynomial()`: `from_coefficients_vec([(0, −offset^size), (size, 1)])` -/
def Domain.vanishingPolynomial (D : Domain F) : Terms F :=
  sFromCoefficientsVec [(0, -D.offsetPowSize), (D.size, 1)]

/-- `fft_in_place` (radix-2): degree-aware path keeps the vector, otherwise `resize(size)`;
    then the (coset) FFT, which by C07 is evaluation at the domain elements -/
def fftInPlace (D : Domain F) (v : List F) : List F :=
  let v' := if v.length * 4 ≤ D.size then v else resize v D.size
  D.elements.map (fun e => horner v' e)

/-- `ifft_in_place`: `resize(size)`, then the (coset) inverse FFT, which by C07 is
    `c_j = size⁻¹ · offset⁻ʲ · Σ_i e_i g^(−ij)` -/
def ifftInPlace (D : Domain F) (ev : List F) : List F :=
  let ev' := resize ev D.size
  let ginv := D.gen⁻¹
  let oinv := D.offset⁻¹
  let sinv := (ofNat D.size : F)⁻¹
  (List.range D.size).map (fun j =>
    let gj := pow ginv j
    let s := (ev'.foldl (fun (st : F × F) e => (st.1 + e * st.2, st.2 * gj)) (0, 1)).1
    s * sinv * pow oinv j)

def chunksOf (n : Nat) : Nat → List F → List (List F)
  | 0, _ => []
  | fuel + 1, l => if l.isEmpty then [] else l.take n :: chunksOf n fuel (l.drop n)

/-- "Reduce the coefficients of the polynomial mod X^domain.size()" loop -/
def foldChunks (D : Domain F) : Nat → List F → List (List F) → List F
  | _, first, [] => first
  | i, first, ch :: chs =>
    let first' :=
      if D.offset = 1 then zipInto (· + ·) first ch
      else
        let op := pow D.offset ((i + 1) * D.size)
        zipInto (fun x y => x + op * y) first ch
    foldChunks D (i + 1) first' chs

/-- `eval_over_domain_helper`, `DPolynomial(Cow::Borrowed)` -/
def evaluateOverDomainRef (D : Domain F) (a : List F) : Outcome (List F) :=
  if isZero a then .ok (List.replicate D.size 0)
  else if D.size = 0 then .panic               -- `chunks(0)`
  else
    match chunksOf D.size a.length a with
    | [] => .panic                             -- `chunks.next().unwrap()`
    | first :: rest => .ok (fftInPlace D (foldChunks D 0 first rest))

/-- `eval_over_domain_helper`, `DPolynomial(Cow::Owned)`: folds into the first chunk in place
    and hands the *whole* vector to `fft_in_place` -/
def evaluateOverDomainOwned (D : Domain F) (a : List F) : Outcome (List F) :=
  if isZero a then .ok (List.replicate D.size 0)
  else if D.size = 0 then .panic
  else
    match chunksOf D.size a.length a with
    | [] => .panic
    | first :: rest => .ok (fftInPlace D (foldChunks D 0 first rest ++ a.drop D.size))

/-- `eval_over_domain_helper`, `SPolynomial`: `domain.elements().map(|e| s.evaluate(&e))` -/
def sEvaluateOverDomain (D : Domain F) (s : Terms F) : Outcome (List F) :=
  D.elements.foldr (fun e acc => do
    let v ← sEvaluate s e
    let rest ← acc
    pure (v :: rest)) (.ok [])

/-- `Evaluations::interpolate` / `interpolate_by_ref` -/
def interpolate (D : Domain F) (evals : List F) : List F :=
  fromCoefficientsVec (ifftInPlace D evals)

end Ark.Poly
