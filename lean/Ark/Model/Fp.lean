import Ark.Model.NatSpec
/-
  Ark.Model.Fp — the executable prime field used by the *generic* models
  (polynomials, FFT, curves, …): canonical residues `0 ≤ val < p` with the operator
  instances of core Lean.  The generic models are written over core operator classes
  (`[Add F] [Sub F] [Mul F] [Neg F] [Zero F] [One F] [Inv F] [DecidableEq F]`), executed
  here at `Fp p`, and proved over Mathlib's `[Field F]` / `[CommRing F]`.
  (`p` is a run-time value of the driver; inversion is the extended Euclid of
  `Ark.Spec.modInv`, so `0⁻¹ = 0`.)
-/
namespace Ark

structure Fp (p : Nat) where
  val : Nat
  deriving DecidableEq, Repr

namespace Fp
variable {p : Nat}

def ofNat (p n : Nat) : Fp p := ⟨n % p⟩
def ofInt (p : Nat) (i : Int) : Fp p := ⟨(i % (p : Int)).toNat⟩

instance : Zero (Fp p) := ⟨⟨0⟩⟩
instance : One (Fp p) := ⟨⟨1 % p⟩⟩
instance : Add (Fp p) := ⟨fun a b => ⟨(a.val + b.val) % p⟩⟩
instance : Sub (Fp p) := ⟨fun a b => ⟨(a.val + (p - b.val % p)) % p⟩⟩
instance : Neg (Fp p) := ⟨fun a => ⟨(p - a.val % p) % p⟩⟩
instance : Mul (Fp p) := ⟨fun a b => ⟨(a.val * b.val) % p⟩⟩
instance : Inv (Fp p) := ⟨fun a => ⟨Spec.modInv a.val p % p⟩⟩
instance : Div (Fp p) := ⟨fun a b => a * b⁻¹⟩
instance : NatCast (Fp p) := ⟨ofNat p⟩
instance : IntCast (Fp p) := ⟨ofInt p⟩
instance : Inhabited (Fp p) := ⟨0⟩

def pow (a : Fp p) (e : Nat) : Fp p := ⟨Spec.powMod a.val e p⟩
instance : HPow (Fp p) Nat (Fp p) := ⟨pow⟩

end Fp
end Ark
