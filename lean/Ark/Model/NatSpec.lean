/-
  Ark.Model.NatSpec — executable specification helpers on `Nat`/`Int`
  (modular exponentiation, modular inverse) used by the driver's verdicts.
-/
namespace Ark.Spec

def powModAux (m : Nat) : Nat → Nat → Nat → Nat → Nat
  | 0, _, _, acc => acc
  | fuel + 1, b, e, acc =>
    if e = 0 then acc
    else powModAux m fuel ((b * b) % m) (e / 2) (if e % 2 = 1 then (acc * b) % m else acc)

/-- `b^e mod m` -/
def powMod (b e m : Nat) : Nat := powModAux m (e.log2 + 2) (b % m) e (1 % m)

def egcdAux : Nat → Int → Int → Int → Int → Int × Int
  | 0, r0, _, s0, _ => (r0, s0)
  | fuel + 1, r0, r1, s0, s1 =>
    if r1 = 0 then (r0, s0)
    else let q := r0 / r1; egcdAux fuel r1 (r0 - q * r1) s1 (s0 - q * s1)

/-- modular inverse of `a` mod `m` when `gcd(a, m) = 1` (else some residue) -/
def modInv (a m : Nat) : Nat :=
  let (_, s) := egcdAux (2 * m.log2 + 4) (a % m : Nat) m 1 0
  (s % (m : Int)).toNat

end Ark.Spec
