import Ark.Model.Ext
/-
  Ark.Model.Pairing — C06: the pairing engines of `ark-ec`
  (`ec/src/pairing.rs`, `ec/src/models/{bls12,bn,bw6,mnt4,mnt6}/{mod,g1,g2}.rs`, and the
  `final_exponentiation_hard_part` override of `curves/bw6_761/src/curves/mod.rs`), transcribed
  function by function over the tower templates of `Ark.Model.Ext`.

  * A family is a record of the trait constants (`Bls12Config`, `BnConfig`, `BW6Config`,
    `MNT4Config`, `MNT6Config`) plus the dictionaries of the fields involved: `F` the base prime
    field, `G` the field of the G2 coordinates (Fp2 for BLS12/BN/MNT4, Fp for BW6, Fp3 for MNT6),
    `T` the target field (Fp12, Fp6 = 2 over 3, Fp4).
  * `&mut` state becomes returned values: the per-pair coefficient iterators `coeffs.next().unwrap()`
    are lists that are consumed (`[]` ↦ panic), `chunks_mut(4)` is `chunks4`, `.product()` is the left
    fold of `*` from `1`.
  * Identity handling is modelled as written: every family filters pairs with an identity member
    (`!p.is_zero() && !q.is_zero()`).  For BLS12/BN/BW6 `is_zero` reads the `infinity` flag; for
    MNT4/MNT6 (after the `fix:` commit for F13) the identity is *prepared* as the coordinates `(0, 0)`
    (G2: without coefficients) and `is_zero` of the prepared values tests `x == 0 && y == 0`.
  * BW6 `multi_miller_loop` is modelled after the `fix:` commit for F14: `f_u` (the product over all
    chunks) enters `f_1` once and only chunk 0 of the second loop carries `(f_u, f_u_inv)`.
  * Rust panics are explicit (`Ark.Outcome`): `unwrap`s on inverses / coefficient iterators / `xy()`,
    `zip_eq` on lists of different length, `assert_eq!`, slice indexing, `unreachable!()`.
  * "prepared = unprepared" holds by construction: `multiMillerLoop` of affine inputs is *defined*
    as `multiMillerLoopPrepared` of the prepared inputs (the `Into<G?Prepared>` of the Rust signature).
-/
namespace Ark.Pairing
open Ark Ark.Ext

scoped instance : Monad Outcome where
  pure := .ok
  bind := obind

/-! ## plumbing -/

/-- `short_weierstrass::Affine` (fields `x`, `y`, `infinity`; `identity()` is `(0, 0, true)`) -/
structure Aff (F : Type) where
  x : F
  y : F
  infinity : Bool

/-- `Affine::identity()` -/
def Aff.identity {F : Type} [Zero F] : Aff F := ⟨0, 0, true⟩

/-- `AffineRepr::xy` -/
def Aff.xy {F : Type} (a : Aff F) : Option (F × F) := if a.infinity then none else some (a.x, a.y)

/-- `Neg for Affine`: `self.y.neg_in_place()` (also on the identity placeholder) -/
def Aff.neg {F : Type} [Neg F] (a : Aff F) : Aff F := { a with y := -a.y }

/-- `TwistType` -/
inductive Twist where
  | M
  | D
  deriving DecidableEq, Repr

/-- `Option::unwrap` -/
def unwrap {α : Type} : Option α → Outcome α
  | some a => .ok a
  | none => .panic

/-- `x.inverse().unwrap()` -/
def invUnwrap {α : Type} (inv : α → Outcome (Option α)) (a : α) : Outcome α :=
  obind (inv a) unwrap

/-- `slice.chunks_mut(4)` (fuel = length) -/
def chunks4Aux {α : Type} : Nat → List α → List (List α)
  | 0, _ => []
  | fuel + 1, l => if l.isEmpty then [] else l.take 4 :: chunks4Aux fuel (l.drop 4)

def chunks4 {α : Type} (l : List α) : List (List α) := chunks4Aux l.length l

/-- `Iterator::product::<Field>()`: `fold(one, Mul::mul)` -/
def product {T : Type} [Mul T] [One T] (l : List T) : T := l.foldl (· * ·) 1

/-- `a.into_iter().zip_eq(b)` fully consumed: panics when the lengths differ -/
def zipEq {α β : Type} : List α → List β → Outcome (List (α × β))
  | [], [] => .ok []
  | a :: as, b :: bs => obind (zipEq as bs) fun r => .ok ((a, b) :: r)
  | _, _ => .panic

/-- `mapM` in `Outcome` -/
def mapO {α β : Type} (f : α → Outcome β) : List α → Outcome (List β)
  | [] => .ok []
  | a :: as => obind (f a) fun b => obind (mapO f as) fun bs => .ok (b :: bs)

/-- `BitIteratorBE::new(x)`: all `64·len` bits, most significant first -/
def bitsBE (x : List Nat) : List Bool := toBitsBE x

/-- `BitIteratorBE::without_leading_zeros(x)` -/
def bitsBENoLeadingZeros (x : List Nat) : List Bool := (toBitsBE x).dropWhile (· == false)

/-- `cyclotomic_inverse_in_place` used as a statement: on `None` (zero) `self` is left unchanged -/
def cycInvInPlace {T : Type} (C : CycD T) (f : T) : Outcome T :=
  obind (C.cycInverse f) fun
    | some g => .ok g
    | none => .ok f

/-- the signed loop digits visited by `for i in (1..len).rev()` together with `i == len - 1`
    and `bit = COUNT[i - 1]` -/
def revDigits (count : List Int) : List (Bool × Int) :=
  let n := count.length
  ((List.range n).drop 1).reverse.map (fun i => (i == n - 1, count.getD (i - 1) 0))

/-! ## line coefficients of the BLS12 / BN / BW6 families (`g2.rs`) -/

/-- `G2HomProjective` -/
structure HomProj (G : Type) where
  x : G
  y : G
  z : G

/-- `EllCoeff` -/
abbrev EllCoeff (G : Type) := G × G × G

/-- what `double_in_place` / `add_in_place` / `ell` call on the field of the G2 coordinates beyond
    the operators -/
structure G2Field (F G : Type) where
  /-- `square` -/
  square : G → G
  /-- `double` -/
  double : G → G
  /-- `mul_assign_by_fp` (for BW6, where `G = F`: `*=`) -/
  mulByFp : G → F → G

section lines
variable {F G : Type} [Add G] [Sub G] [Mul G] [Neg G]

/-- `G2HomProjective::double_in_place(two_inv)` of `bls12/g2.rs` and `bn/g2.rs` (same body) -/
def doubleInPlace (K : G2Field F G) (tw : Twist) (coeffB : G) (twoInv : F) (r : HomProj G) :
    HomProj G × EllCoeff G :=
  let a := r.x * r.y
  let a := K.mulByFp a twoInv
  let b := K.square r.y
  let c := K.square r.z
  let e := coeffB * (K.double c + c)
  let f := K.double e + e
  let g := b + f
  let g := K.mulByFp g twoInv
  let h := K.square (r.y + r.z) - (b + c)
  let i := e - b
  let j := K.square r.x
  let eSquare := K.square e
  let r' : HomProj G := ⟨a * (b - f), K.square g - (K.double eSquare + eSquare), b * h⟩
  match tw with
  | .M => (r', (i, K.double j + j, -h))
  | .D => (r', (-h, K.double j + j, i))

/-- `G2HomProjective::double_in_place()` of `bw6/g2.rs` (no `two_inv`) -/
def bw6DoubleInPlace (K : G2Field F G) (tw : Twist) (coeffB : G) (r : HomProj G) :
    HomProj G × EllCoeff G :=
  let a := r.x * r.y
  let b := K.square r.y
  let b4 := K.double (K.double b)
  let c := K.square r.z
  let e := coeffB * (K.double c + c)
  let f := K.double e + e
  let g := b + f
  let h := K.square (r.y + r.z) - (b + c)
  let i := e - b
  let j := K.square r.x
  let e2Square := K.square (K.double e)
  let r' : HomProj G := ⟨K.double a * (b - f), K.square g - (K.double e2Square + e2Square), b4 * h⟩
  match tw with
  | .M => (r', (i, K.double j + j, -h))
  | .D => (r', (-h, K.double j + j, i))

/-- `G2HomProjective::add_in_place(q)` (same body in the three families; `(qx, qy)` are the
    coordinates read from `q`) -/
def addInPlace (K : G2Field F G) (tw : Twist) (qx qy : G) (r : HomProj G) : HomProj G × EllCoeff G :=
  let theta := r.y - (qy * r.z)
  let lambda := r.x - (qx * r.z)
  let c := K.square theta
  let d := K.square lambda
  let e := lambda * d
  let f := r.z * c
  let g := r.x * d
  let h := e + f - K.double g
  let x' := lambda * h
  let y' := theta * (g - h) - (e * r.y)
  let z' := r.z * e
  let j := theta * qx - (lambda * qy)
  match tw with
  | .M => (⟨x', y', z'⟩, (j, -theta, lambda))
  | .D => (⟨x', y', z'⟩, (lambda, -theta, j))

end lines

/-- `G2Prepared` of BLS12 and BN -/
structure G2Prepared (G : Type) where
  ellCoeffs : List (EllCoeff G)
  infinity : Bool

/-- the sparse multiplications of the target field used by `ell` -/
structure SparseMul (G T : Type) where
  mulBy014 : T → G → G → G → T
  mulBy034 : T → G → G → G → T

/-- `ell(f, coeffs, p)` after the coordinates `(px, py)` of `p` have been read -/
def ellXY {F G T : Type} (K : G2Field F G) (S : SparseMul G T) (tw : Twist)
    (f : T) (coeffs : EllCoeff G) (px py : F) : T :=
  let c0 := coeffs.1
  let c1 := coeffs.2.1
  let c2 := coeffs.2.2
  match tw with
  | .M =>
    let c2 := K.mulByFp c2 py
    let c1 := K.mulByFp c1 px
    S.mulBy014 f c0 c1 c2
  | .D =>
    let c0 := K.mulByFp c0 py
    let c1 := K.mulByFp c1 px
    S.mulBy034 f c0 c1 c2

/-- a pair of the Miller loop: the G1 point and the remaining coefficients (`into_iter()`) -/
abbrev MPair (F G : Type) := Aff F × List (EllCoeff G)

/-- `for (p, coeffs) in pairs.iter_mut() { ell(&mut f, &coeffs.next().unwrap(), &p.0) }` -/
def ellRound {F G T : Type} (ell : T → EllCoeff G → Aff F → Outcome T) :
    T → List (MPair F G) → Outcome (T × List (MPair F G))
  | f, [] => .ok (f, [])
  | f, (p, cs) :: rest =>
    match cs with
    | [] => .panic
    | c :: cs' =>
      obind (ell f c p) fun f =>
      obind (ellRound ell f rest) fun (f, rest') => .ok (f, (p, cs') :: rest')

/-- the double-and-add loop of one chunk over an unsigned loop count:
    `for i in bits { f.square_in_place(); ell…; if i { ell… } }` -/
def bitLoop {F G T : Type} (square : T → T) (ell : T → EllCoeff G → Aff F → Outcome T) :
    List Bool → T → List (MPair F G) → Outcome (T × List (MPair F G))
  | [], f, ps => .ok (f, ps)
  | i :: bits, f, ps =>
    let f := square f
    obind (ellRound ell f ps) fun (f, ps) =>
    if i then obind (ellRound ell f ps) fun (f, ps) => bitLoop square ell bits f ps
    else bitLoop square ell bits f ps

/-- run a per-chunk computation over `chunks_mut(4)`, returning the per-chunk results and the
    updated pairs (concatenated back) -/
def overChunks {α T : Type} (body : List α → Outcome (T × List α)) :
    List (List α) → Outcome (List T × List α)
  | [] => .ok ([], [])
  | c :: cs =>
    obind (body c) fun (t, c') =>
    obind (overChunks body cs) fun (ts, rest) => .ok (t :: ts, c' ++ rest)

/-- the same over `chunks_mut(4).enumerate()`: the body also receives the chunk index -/
def overChunksIdx {α T : Type} (body : Nat → List α → Outcome (T × List α)) :
    Nat → List (List α) → Outcome (List T × List α)
  | _, [] => .ok ([], [])
  | i, c :: cs =>
    obind (body i c) fun (t, c') =>
    obind (overChunksIdx body (i + 1) cs) fun (ts, rest) => .ok (t :: ts, c' ++ rest)

/-! ## BLS12 (`bls12/mod.rs`, `bls12/g2.rs`) -/

/-- `Bls12Config` constants and the dictionaries of `Fp`, `Fp2`, `Fp12` -/
structure Bls12 (P F G T : Type) where
  /-- `X` (limbs) -/
  x : List Nat
  xIsNegative : Bool
  twist : Twist
  /-- `G2Config::COEFF_B` -/
  coeffB : G
  BF : FieldD P F
  one : F
  K : G2Field F G
  oneG : G
  S : SparseMul G T
  DT : FieldD P T
  C : CycD T

namespace Bls12
variable {P F G T : Type} [Add G] [Sub G] [Mul G] [Neg G]
  [Mul T] [Zero T] [One T] [DecidableEq T]

/-- the loop of `G2Prepared::from`: `for i in BitIteratorBE::new(P::X).skip(1)` -/
def coeffLoop (E : Bls12 P F G T) (twoInv : F) (qx qy : G) : List Bool → HomProj G → List (EllCoeff G)
  | [], _ => []
  | i :: bits, r =>
    let (r, c1) := doubleInPlace E.K E.twist E.coeffB twoInv r
    if i then
      -- `add_in_place(&q)`: `q.xy().unwrap()` cannot fail here (we are inside `q.xy().map_or`)
      let (r, c2) := addInPlace E.K E.twist qx qy r
      c1 :: c2 :: coeffLoop E twoInv qx qy bits r
    else c1 :: coeffLoop E twoInv qx qy bits r

/-- `impl From<G2Affine<P>> for G2Prepared<P>`; note `BitIteratorBE::new` (leading zeros of the top
    limb are NOT skipped here, while the Miller loop skips them) -/
def g2Prepare (E : Bls12 P F G T) (q : Aff G) : Outcome (G2Prepared G) :=
  obind (invUnwrap E.BF.inverse (E.BF.double E.one)) fun twoInv =>
  match q.xy with
  | none => .ok ⟨[], true⟩
  | some (qx, qy) =>
    .ok ⟨coeffLoop E twoInv qx qy ((bitsBE E.x).drop 1) ⟨qx, qy, E.oneG⟩, false⟩

/-- `Bls12::ell` (`p.xy().unwrap()`) -/
def ell (E : Bls12 P F G T) (f : T) (c : EllCoeff G) (p : Aff F) : Outcome T :=
  obind (unwrap p.xy) fun (px, py) => .ok (ellXY E.K E.S E.twist f c px py)

/-- `Bls12::exp_by_x` -/
def expByX (E : Bls12 P F G T) (f : T) : Outcome T :=
  obind (cycExp E.C f E.x) fun r =>
  if E.xIsNegative then cycInvInPlace E.C r else .ok r

/-- `Bls12Config::multi_miller_loop` on prepared inputs (`G1Prepared` is the affine point) -/
def multiMillerLoopPrepared (E : Bls12 P F G T) (a : List (Aff F)) (b : List (G2Prepared G)) : Outcome T :=
  obind (zipEq a b) fun zs =>
  let pairs : List (MPair F G) := zs.filterMap fun (p, q) =>
    if !p.infinity && !q.infinity then some (p, q.ellCoeffs) else none
  let bits := (bitsBENoLeadingZeros E.x).drop 1
  obind (overChunks (fun ps => bitLoop E.DT.square (ell E) bits 1 ps) (chunks4 pairs)) fun (fs, _) =>
  let f := product fs
  if E.xIsNegative then cycInvInPlace E.C f else .ok f

/-- `Pairing::multi_miller_loop` on affine inputs (`impl Into<G?Prepared>`) -/
def multiMillerLoop (E : Bls12 P F G T) (a : List (Aff F)) (b : List (Aff G)) : Outcome T :=
  obind (mapO (g2Prepare E) b) fun b' => multiMillerLoopPrepared E a b'

/-- `Bls12Config::final_exponentiation` -/
def finalExponentiation (E : Bls12 P F G T) (f : T) : Outcome (Option T) :=
  obind (cycInvInPlace E.C f) fun f1 =>
  obind (E.DT.inverse f) fun
  | none => .ok none
  | some f2 =>
    let r := f1 * f2
    let f2 := r
    obind (E.DT.frob r 2) fun r =>
    let r := r * f2
    -- hard part
    let y0 := E.C.cycSquare r
    obind (expByX E r) fun y1 =>
    obind (cycInvInPlace E.C r) fun y2 =>
    let y1 := y1 * y2
    obind (expByX E y1) fun y2 =>
    obind (cycInvInPlace E.C y1) fun y1 =>
    let y1 := y1 * y2
    obind (expByX E y1) fun y2 =>
    obind (E.DT.frob y1 1) fun y1 =>
    let y1 := y1 * y2
    let r := r * y0
    obind (expByX E y1) fun y0 =>
    obind (expByX E y0) fun y2 =>
    let y0 := y1
    obind (E.DT.frob y0 2) fun y0 =>
    obind (cycInvInPlace E.C y1) fun y1 =>
    let y1 := y1 * y2
    let y1 := y1 * y0
    let r := r * y1
    .ok (some r)

end Bls12

/-! ## BN (`bn/mod.rs`, `bn/g2.rs`) -/

structure Bn (P F G T : Type) where
  x : List Nat
  xIsNegative : Bool
  /-- `ATE_LOOP_COUNT` -/
  ateLoopCount : List Int
  twist : Twist
  twistMulByQX : G
  twistMulByQY : G
  coeffB : G
  BF : FieldD P F
  one : F
  K : G2Field F G
  oneG : G
  /-- `Fp2::frobenius_map_in_place` -/
  frobG : G → Nat → Outcome G
  S : SparseMul G T
  DT : FieldD P T
  C : CycD T

namespace Bn
variable {P F G T : Type} [Add G] [Sub G] [Mul G] [Neg G]
  [Mul T] [Zero T] [One T] [DecidableEq T]

/-- `mul_by_char` -/
def mulByChar (E : Bn P F G T) (r : Aff G) : Outcome (Aff G) :=
  obind (E.frobG r.x 1) fun sx =>
  let sx := sx * E.twistMulByQX
  obind (E.frobG r.y 1) fun sy =>
  let sy := sy * E.twistMulByQY
  .ok { r with x := sx, y := sy }

/-- `for bit in ATE_LOOP_COUNT.iter().rev().skip(1)` of `G2Prepared::from` -/
def coeffLoop (E : Bn P F G T) (twoInv : F) (q negQ : Aff G) :
    List Int → HomProj G → HomProj G × List (EllCoeff G)
  | [], r => (r, [])
  | bit :: bits, r =>
    let (r, c1) := doubleInPlace E.K E.twist E.coeffB twoInv r
    if bit = 1 then
      let (r, c2) := addInPlace E.K E.twist q.x q.y r
      let (r, cs) := coeffLoop E twoInv q negQ bits r
      (r, c1 :: c2 :: cs)
    else if bit = -1 then
      let (r, c2) := addInPlace E.K E.twist negQ.x negQ.y r
      let (r, cs) := coeffLoop E twoInv q negQ bits r
      (r, c1 :: c2 :: cs)
    else
      let (r, cs) := coeffLoop E twoInv q negQ bits r
      (r, c1 :: cs)

/-- `impl From<G2Affine<P>> for G2Prepared<P>` -/
def g2Prepare (E : Bn P F G T) (q : Aff G) : Outcome (G2Prepared G) :=
  if q.infinity then .ok ⟨[], true⟩
  else
    obind (invUnwrap E.BF.inverse (E.BF.double E.one)) fun twoInv =>
    let negQ := q.neg
    let (r, cs) := coeffLoop E twoInv q negQ (E.ateLoopCount.reverse.drop 1) ⟨q.x, q.y, E.oneG⟩
    obind (mulByChar E q) fun q1 =>
    obind (mulByChar E q1) fun q2 =>
    let r := if E.xIsNegative then { r with y := -r.y } else r
    let q2 := { q2 with y := -q2.y }
    let (r, c1) := addInPlace E.K E.twist q1.x q1.y r
    let (_, c2) := addInPlace E.K E.twist q2.x q2.y r
    .ok ⟨cs ++ [c1, c2], false⟩

/-- `Bn::ell` (reads the fields `p.x`, `p.y`) -/
def ell (E : Bn P F G T) (f : T) (c : EllCoeff G) (p : Aff F) : Outcome T :=
  .ok (ellXY E.K E.S E.twist f c p.x p.y)

/-- `Bn::exp_by_neg_x` -/
def expByNegX (E : Bn P F G T) (f : T) : Outcome T :=
  obind (cycExp E.C f E.x) fun f =>
  if !E.xIsNegative then cycInvInPlace E.C f else .ok f

/-- the loop `for i in (1..ATE_LOOP_COUNT.len()).rev()` of one chunk -/
def chunkLoop (E : Bn P F G T) : List (Bool × Int) → T → List (MPair F G) → Outcome (T × List (MPair F G))
  | [], f, ps => .ok (f, ps)
  | (first, bit) :: ds, f, ps =>
    let f := if !first then E.DT.square f else f
    obind (ellRound (ell E) f ps) fun (f, ps) =>
    if bit = 1 ∨ bit = -1 then
      obind (ellRound (ell E) f ps) fun (f, ps) => chunkLoop E ds f ps
    else chunkLoop E ds f ps

/-- `BnConfig::multi_miller_loop` on prepared inputs -/
def multiMillerLoopPrepared (E : Bn P F G T) (a : List (Aff F)) (b : List (G2Prepared G)) : Outcome T :=
  obind (zipEq a b) fun zs =>
  let pairs : List (MPair F G) := zs.filterMap fun (p, q) =>
    if !p.infinity && !q.infinity then some (p, q.ellCoeffs) else none
  obind (overChunks (fun ps => chunkLoop E (revDigits E.ateLoopCount) 1 ps) (chunks4 pairs)) fun (fs, pairs) =>
  let f := product fs
  obind (if E.xIsNegative then cycInvInPlace E.C f else .ok f) fun f =>
  obind (ellRound (ell E) f pairs) fun (f, pairs) =>
  obind (ellRound (ell E) f pairs) fun (f, _) =>
  .ok f

def multiMillerLoop (E : Bn P F G T) (a : List (Aff F)) (b : List (Aff G)) : Outcome T :=
  obind (mapO (g2Prepare E) b) fun b' => multiMillerLoopPrepared E a b'

/-- `BnConfig::final_exponentiation` -/
def finalExponentiation (E : Bn P F G T) (f : T) : Outcome (Option T) :=
  obind (cycInvInPlace E.C f) fun f1 =>
  obind (E.DT.inverse f) fun
  | none => .ok none
  | some f2 =>
    let r := f1 * f2
    let f2 := r
    obind (E.DT.frob r 2) fun r =>
    let r := r * f2
    obind (expByNegX E r) fun y0 =>
    let y1 := E.C.cycSquare y0
    let y2 := E.C.cycSquare y1
    let y3 := y2 * y1
    obind (expByNegX E y3) fun y4 =>
    let y5 := E.C.cycSquare y4
    obind (expByNegX E y5) fun y6 =>
    obind (cycInvInPlace E.C y3) fun y3 =>
    obind (cycInvInPlace E.C y6) fun y6 =>
    let y7 := y6 * y4
    let y8 := y7 * y3
    let y9 := y8 * y1
    let y10 := y8 * y4
    let y11 := y10 * r
    obind (E.DT.frob y9 1) fun y12 =>
    let y13 := y12 * y11
    obind (E.DT.frob y8 2) fun y8 =>
    let y14 := y8 * y13
    obind (cycInvInPlace E.C r) fun r =>
    let y15 := r * y9
    obind (E.DT.frob y15 3) fun y15 =>
    let y16 := y15 * y14
    .ok (some y16)

end Bn

/-! ## BW6 (`bw6/mod.rs`, `bw6/g2.rs`; the G2 coordinates live in `Fp`) -/

/-- `G2Prepared` of BW6 -/
structure Bw6G2Prepared (F : Type) where
  ellCoeffs1 : List (EllCoeff F)
  ellCoeffs2 : List (EllCoeff F)
  infinity : Bool

structure Bw6 (P F T : Type) where
  /-- `X` (all limbs of the `BigInt`) -/
  x : List Nat
  xIsNegative : Bool
  xMinus1Div3 : List Nat
  ateLoopCount1 : List Nat
  ateLoopCount1IsNegative : Bool
  ateLoopCount2 : List Int
  ateLoopCount2IsNegative : Bool
  twist : Twist
  /-- `H_T`, `H_Y` (`i64`) -/
  hT : Int
  hY : Int
  tModRIsZero : Bool
  coeffB : F
  BF : FieldD P F
  one : F
  K : G2Field F F
  S : SparseMul F T
  DT : FieldD P T
  C : CycD T
  /-- `conjugate_in_place` of the target field -/
  conj : T → T
  /-- the configuration overrides `final_exponentiation_hard_part` (BW6-761) -/
  hardPartOverride : Bool

namespace Bw6
variable {P F T : Type} [Add F] [Sub F] [Mul F] [Neg F]
  [Mul T] [Zero T] [One T] [DecidableEq T]

/-- first loop of `G2Prepared::from`: `for i in BitIteratorBE::new(ATE_LOOP_COUNT_1).skip(1)` -/
def coeffLoop1 (E : Bw6 P F T) (q : Aff F) : List Bool → HomProj F → HomProj F × List (EllCoeff F)
  | [], r => (r, [])
  | i :: bits, r =>
    let (r, c1) := bw6DoubleInPlace E.K E.twist E.coeffB r
    if i then
      let (r, c2) := addInPlace E.K E.twist q.x q.y r
      let (r, cs) := coeffLoop1 E q bits r
      (r, c1 :: c2 :: cs)
    else
      let (r, cs) := coeffLoop1 E q bits r
      (r, c1 :: cs)

/-- second loop: `for bit in ATE_LOOP_COUNT_2.iter().rev().skip(1)` -/
def coeffLoop2 (E : Bw6 P F T) (qu negQu : Aff F) : List Int → HomProj F → List (EllCoeff F)
  | [], _ => []
  | bit :: bits, r =>
    let (r, c1) := bw6DoubleInPlace E.K E.twist E.coeffB r
    if bit = 1 then
      let (r, c2) := addInPlace E.K E.twist qu.x qu.y r
      c1 :: c2 :: coeffLoop2 E qu negQu bits r
    else if bit = -1 then
      let (r, c2) := addInPlace E.K E.twist negQu.x negQu.y r
      c1 :: c2 :: coeffLoop2 E qu negQu bits r
    else c1 :: coeffLoop2 E qu negQu bits r

/-- `impl From<G2Affine<P>> for G2Prepared<P>`; `From<G2HomProjective> for G2Affine` is
    `z.inverse().unwrap()`, `new_unchecked(x·z⁻¹, y·z⁻¹)` -/
def g2Prepare (E : Bw6 P F T) (q : Aff F) : Outcome (Bw6G2Prepared F) :=
  if q.infinity then .ok ⟨[], [], true⟩
  else
    let (r, cs1) := coeffLoop1 E q ((bitsBE E.ateLoopCount1).drop 1) ⟨q.x, q.y, E.one⟩
    obind (invUnwrap E.BF.inverse r.z) fun zInv =>
    let rAffine : Aff F := ⟨r.x * zInv, r.y * zInv, false⟩
    let (qu, negQu) :=
      if E.ateLoopCount1IsNegative then (rAffine.neg, rAffine) else (rAffine, rAffine.neg)
    let r : HomProj F := ⟨qu.x, qu.y, E.one⟩
    -- `r.clone().add_in_place(&q)`: `r` itself is not advanced
    let (_, cLast) := addInPlace E.K E.twist q.x q.y r
    let cs1 := cs1 ++ [cLast]
    let cs2 := coeffLoop2 E qu negQu (E.ateLoopCount2.reverse.drop 1) r
    .ok ⟨cs1, cs2, false⟩

/-- `BW6::ell` -/
def ell (E : Bw6 P F T) (f : T) (c : EllCoeff F) (p : Aff F) : Outcome T :=
  .ok (ellXY E.K E.S E.twist f c p.x p.y)

/-- `BW6Config::cyclotomic_exp_signed` -/
def cyclotomicExpSigned (E : Bw6 P F T) (f : T) (x : List Nat) (invert : Bool) : Outcome T :=
  obind (cycExp E.C f x) fun f =>
  if invert then cycInvInPlace E.C f else .ok f

/-- `BW6Config::exp_by_x` -/
def expByX (E : Bw6 P F T) (f : T) : Outcome T := cyclotomicExpSigned E f E.x E.xIsNegative

/-- `exp_by_x_plus_1` -/
def expByXPlus1 (E : Bw6 P F T) (f : T) : Outcome T :=
  obind (expByX E f) fun g => .ok (g * f)

/-- `exp_by_x_minus_1` (`f.cyclotomic_inverse().unwrap()`) -/
def expByXMinus1 (E : Bw6 P F T) (f : T) : Outcome T :=
  obind (expByX E f) fun g =>
  obind (invUnwrap E.C.cycInverse f) fun fi => .ok (g * fi)

/-- `exp_by_x_minus_1_div_3` -/
def expByXMinus1Div3 (E : Bw6 P F T) (f : T) : Outcome T :=
  cyclotomicExpSigned E f E.xMinus1Div3 E.xIsNegative

/-- the second loop of one chunk: `for i in (1..ATE_LOOP_COUNT_2.len()).rev()` (the squaring is
    unconditional here) -/
def chunkLoop2 (E : Bw6 P F T) (fU fUInv : T) :
    List (Bool × Int) → T → List (MPair F F) → Outcome (T × List (MPair F F))
  | [], f, ps => .ok (f, ps)
  | (_, bit) :: ds, f, ps =>
    let f := E.DT.square f
    obind (ellRound (ell E) f ps) fun (f, ps) =>
    if bit = 1 then
      let f := f * fU
      obind (ellRound (ell E) f ps) fun (f, ps) => chunkLoop2 E fU fUInv ds f ps
    else if bit = -1 then
      let f := f * fUInv
      obind (ellRound (ell E) f ps) fun (f, ps) => chunkLoop2 E fU fUInv ds f ps
    else chunkLoop2 E fU fUInv ds f ps

/-- `BW6Config::multi_miller_loop` on prepared inputs.  `f_u` is the product over all chunks; it
    multiplies `f_1` once (`f_u * Π_chunks fold(one, ell)`), and in the second loop
    (`chunks_mut(4).enumerate()`) only chunk 0 starts from `f_u` and multiplies by `f_u` / `f_u_inv`
    on the non-zero digits, the other chunks use `(one, one)`. -/
def multiMillerLoopPrepared (E : Bw6 P F T) (a : List (Aff F)) (b : List (Bw6G2Prepared F)) : Outcome T :=
  obind (zipEq a b) fun zs =>
  let kept := zs.filter fun (p, q) => !p.infinity && !q.infinity
  let pairs1 : List (MPair F F) := kept.map fun (p, q) => (p, q.ellCoeffs1)
  let pairs2 : List (MPair F F) := kept.map fun (p, q) => (p, q.ellCoeffs2)
  let bits := (bitsBENoLeadingZeros E.ateLoopCount1).drop 1
  obind (overChunks (fun ps => bitLoop E.DT.square (ell E) bits 1 ps) (chunks4 pairs1)) fun (fs, pairs1) =>
  let fU := product fs
  obind (if E.ateLoopCount1IsNegative then
      obind (cycInvInPlace E.C fU) fun g => .ok (g, fU)
    else
      obind (invUnwrap E.C.cycInverse fU) fun g => .ok (fU, g)) fun (fU, fUInv) =>
  let one : T := 1
  obind (overChunks (fun ps => ellRound (ell E) one ps) (chunks4 pairs1)) fun (f1s, _) =>
  let f1 := fU * product f1s
  obind (overChunksIdx (fun chunkIndex ps =>
      let (fU, fUInv) := if chunkIndex = 0 then (fU, fUInv) else (one, one)
      chunkLoop2 E fU fUInv (revDigits E.ateLoopCount2) fU ps) 0 (chunks4 pairs2))
    fun (f2s, _) =>
  let f2 := product f2s
  obind (if E.ateLoopCount2IsNegative then cycInvInPlace E.C f2 else .ok f2) fun f2 =>
  if E.tModRIsZero then
    obind (E.DT.frob f1 1) fun f1 => .ok (f1 * f2)
  else
    obind (E.DT.frob f2 1) fun f2 => .ok (f1 * f2)

def multiMillerLoop (E : Bw6 P F T) (a : List (Aff F)) (b : List (Aff F)) : Outcome T :=
  obind (mapO (g2Prepare E) b) fun b' => multiMillerLoopPrepared E a b'

/-- `final_exponentiation_easy_part` -/
def finalExponentiationEasyPart (E : Bw6 P F T) (f : T) : Outcome T :=
  obind (invUnwrap E.DT.inverse f) fun fInv =>
  let fP3 := E.conj f
  let g := fP3 * fInv
  obind (E.DT.frob g 1) fun gP => .ok (gP * g)

/-- `i64 as u64` -/
def asU64 (i : Int) : Nat := (i % (2 ^ 64 : Int)).toNat

/-- the generic `BW6::final_exponentiation_hard_part` (`i64` arithmetic modelled in `Int`;
    `/` is truncating division; `d1 as u64` wraps) -/
def hardPartGeneric (E : Bw6 P F T) (f : T) : Outcome T :=
  let cinv (x : T) : Outcome T := invUnwrap E.C.cycInverse x
  let sq := E.DT.square
  obind (expByXMinus1 E f) fun a =>
  obind (expByXMinus1 E a) fun a =>
  let d2 : Nat := asU64 (Int.tdiv (E.hT * E.hT + 3 * E.hY * E.hY) 4)
  if E.tModRIsZero then
    obind (cinv (f * a)) fun t =>
    obind (E.DT.frob f 1) fun fp =>
    let a := t * fp
    obind (expByXPlus1 E a) fun t =>
    let b := t * f
    let a := sq a * a
    obind (cinv a) fun a =>
    obind (expByXMinus1Div3 E b) fun c =>
    obind (expByXMinus1 E c) fun d =>
    obind (expByXMinus1 E d) fun t =>
    obind (expByXMinus1 E t) fun t =>
    let e := t * d
    obind (expByXPlus1 E e) fun t =>
    obind (cinv (t * c)) fun t =>
    let ff := t * d
    obind (expByXPlus1 E (ff * d)) fun t =>
    obind (cinv t) fun t =>
    let g := t * c * b
    let d1 : Int := Int.tdiv (E.hT - E.hY) 2
    obind (cyclotomicExpSigned E ff [asU64 d1] (decide (d1 < 0))) fun t =>
    let h := t * e
    obind (cycExp E.C g [d2]) fun gd2 =>
    let h := sq h * h * b * gd2
    .ok (a * h)
  else
    obind (E.DT.frob f 1) fun fp =>
    let a := a * fp
    obind (expByXPlus1 E a) fun t =>
    obind (cinv f) fun fi =>
    let b := t * fi
    let a := sq a * a
    obind (expByXMinus1Div3 E b) fun c =>
    obind (expByXMinus1 E c) fun d =>
    obind (expByXMinus1 E d) fun t =>
    obind (expByXMinus1 E t) fun t =>
    let e := t * d
    obind (cinv d) fun d =>
    let fc := d * b
    obind (expByXPlus1 E e) fun t =>
    let g := t * fc
    let h := g * c
    obind (expByXPlus1 E (g * d)) fun t =>
    obind (cinv fc) fun fci =>
    let i := t * fci
    let d1 : Int := Int.tdiv (E.hT + E.hY) 2
    obind (cyclotomicExpSigned E h [asU64 d1] (decide (d1 < 0))) fun t =>
    let j := t * e
    obind (cycExp E.C i [d2]) fun id2 =>
    let k := sq j * j * b * id2
    .ok (a * k)

/-- the override of `curves/bw6_761/src/curves/mod.rs` (eprint 2020/351, Alg. 6) -/
def hardPart761 (E : Bw6 P F T) (f : T) : Outcome T :=
  let fr (x : T) : Outcome T := E.DT.frob x 1
  let ci (x : T) : Outcome T := cycInvInPlace E.C x
  let sq := E.DT.square
  let f0 := f
  obind (fr f0) fun f0p =>
  obind (expByX E f0) fun f1 =>
  obind (fr f1) fun f1p =>
  obind (expByX E f1) fun f2 =>
  obind (fr f2) fun f2p =>
  obind (expByX E f2) fun f3 =>
  obind (fr f3) fun f3p =>
  obind (expByX E f3) fun f4 =>
  obind (fr f4) fun f4p =>
  obind (expByX E f4) fun f5 =>
  obind (fr f5) fun f5p =>
  obind (expByX E f5) fun f6 =>
  obind (fr f6) fun f6p =>
  obind (expByX E f6) fun f7 =>
  obind (fr f7) fun f7p =>
  -- step 4
  obind (expByX E f7p) fun f8p =>
  obind (expByX E f8p) fun f9p =>
  -- step 5
  obind (ci f5p) fun f5pP3 =>
  let result1 := f3p * f6p * f5pP3
  -- step 6
  let result2 := sq result1
  let f4_2p := f4 * f2p
  obind (ci (f0 * f1 * f3 * f4_2p * f8p)) fun tmp1P3 =>
  let result3 := result2 * f5 * f0p * tmp1P3
  -- step 7
  let result4 := sq result3
  obind (ci f7) fun f7P3 =>
  let result5 := result4 * f9p * f7P3
  -- step 8
  let result6 := sq result5
  let f2_4p := f2 * f4p
  let f4_2p_5p := f4_2p * f5p
  obind (ci (f2_4p * f3 * f3p)) fun tmp2P3 =>
  let result7 := result6 * f4_2p_5p * f6 * f7p * tmp2P3
  -- step 9
  let result8 := sq result7
  obind (ci (f0p * f9p)) fun tmp3P3 =>
  let result9 := result8 * f0 * f7 * f1p * tmp3P3
  -- step 10
  let result10 := sq result9
  let f6p_8p := f6p * f8p
  let f5_7p := f5 * f7p
  obind (ci f6p_8p) fun tmp4P3 =>
  let result11 := result10 * f5_7p * f2p * tmp4P3
  -- step 11
  let result12 := sq result11
  let f3_6 := f3 * f6
  let f1_7 := f1 * f7
  obind (ci (f1_7 * f2)) fun tmp5P3 =>
  let result13 := result12 * f3_6 * f9p * tmp5P3
  -- step 12
  let result14 := sq result13
  obind (ci (f4_2p * f5_7p * f6p_8p)) fun tmp6P3 =>
  let result15 := result14 * f0 * f0p * f3p * f5p * tmp6P3
  -- step 13
  let result16 := sq result15
  obind (ci f3_6) fun tmp7P3 =>
  let result17 := result16 * f1p * tmp7P3
  -- step 14
  let result18 := sq result17
  obind (ci (f2_4p * f4_2p_5p * f9p)) fun tmp8P3 =>
  let result19 := result18 * f1_7 * f5_7p * f0p * tmp8P3
  .ok result19

/-- `BW6Config::final_exponentiation` (always `Some`; the easy part unwraps the inverse) -/
def finalExponentiation (E : Bw6 P F T) (f : T) : Outcome (Option T) :=
  obind (finalExponentiationEasyPart E f) fun easy =>
  obind (if E.hardPartOverride then hardPart761 E easy else hardPartGeneric E easy) fun r =>
  .ok (some r)

end Bw6

/-! ## MNT4 / MNT6 (`mnt4/{mod,g1,g2}.rs`, `mnt6/{mod,g1,g2}.rs`)
  `G` = Fp2 (MNT4) or Fp3 (MNT6); the target field is the quadratic extension `Quad G`. -/

/-- `G1Prepared` -/
structure MntG1Prepared (F G : Type) where
  x : F
  y : F
  xTwist : G
  yTwist : G

/-- `AteDoubleCoefficients` -/
structure AteDouble (G : Type) where
  cH : G
  c4C : G
  cJ : G
  cL : G

/-- `AteAdditionCoefficients` -/
structure AteAdd (G : Type) where
  cL1 : G
  cRZ : G

/-- `G2Prepared` -/
structure MntG2Prepared (G : Type) where
  x : G
  y : G
  xOverTwist : G
  yOverTwist : G
  doubleCoefficients : List (AteDouble G)
  additionCoefficients : List (AteAdd G)

/-- `G2ProjectiveExtended` -/
structure ProjExt (G : Type) where
  x : G
  y : G
  z : G
  t : G

structure Mnt (P F G : Type) where
  /-- `true` for MNT6 (selects the bodies of `mnt6/mod.rs`) -/
  isMnt6 : Bool
  twist : G
  twistCoeffA : G
  ateLoopCount : List Int
  ateIsLoopCountNeg : Bool
  finalExponentLastChunk1 : List Nat
  finalExponentLastChunkW0IsNeg : Bool
  finalExponentLastChunkAbsOfW0 : List Nat
  /-- `mul_assign_by_fp` of `G` -/
  mulByFp : G → F → G
  /-- `Fp2::new(x, 0)` / `Fp3::new(x, 0, 0)` -/
  embed : F → G
  oneG : G
  DG : FieldD P G
  DT : FieldD P (Quad G)
  C : CycD (Quad G)

namespace Mnt
variable {P F G : Type} [Zero F] [DecidableEq F]
  [Add G] [Sub G] [Mul G] [Neg G] [Zero G] [One G] [DecidableEq G]
  [Mul (Quad G)]

/-- `G1Prepared::is_zero`: `self.x.is_zero() && self.y.is_zero()` -/
def g1IsZero (p : MntG1Prepared F G) : Bool := decide (p.x = 0) && decide (p.y = 0)

/-- `G2Prepared::is_zero`: `self.x.is_zero() && self.y.is_zero()` -/
def g2IsZero (q : MntG2Prepared G) : Bool := decide (q.x = 0) && decide (q.y = 0)

/-- `impl From<G1Affine<P>> for G1Prepared<P>`: an `infinity` point is first replaced by
    `G1Affine::identity()` = `(0, 0)` -/
def g1Prepare (E : Mnt P F G) (g1 : Aff F) : MntG1Prepared F G :=
  let g1 : Aff F := if g1.infinity then Aff.identity else g1
  ⟨g1.x, g1.y, E.mulByFp E.twist g1.x, E.mulByFp E.twist g1.y⟩

/-- `MNT4::doubling_for_flipped_miller_loop` -/
def doubling4 (E : Mnt P F G) (r : ProjExt G) : ProjExt G × AteDouble G :=
  let sq := E.DG.square
  let dbl := E.DG.double
  let a := sq r.t
  let b := sq r.x
  let c := sq r.y
  let d := sq c
  let e := sq (r.x + c) - b - d
  let f := (b + b + b) + (E.twistCoeffA * a)
  let g := sq f
  let dEight := dbl (dbl (dbl d))
  let x := -(e + e + e + e) + g
  let y := -dEight + (f * (e + e - x))
  let z := sq (r.y + r.z) - c - sq r.z
  let t := sq z
  (⟨x, y, z, t⟩,
   ⟨sq (z + r.t) - t - a, c + c + c + c, sq (f + r.t) - g - a, sq (f + r.x) - g - b⟩)

/-- `MNT6::doubling_for_flipped_miller_loop` -/
def doubling6 (E : Mnt P F G) (r : ProjExt G) : ProjExt G × AteDouble G :=
  let sq := E.DG.square
  let dbl := E.DG.double
  let a := sq r.t
  let b := sq r.x
  let c := sq r.y
  let d := sq c
  let e := sq (r.x + c) - b - d
  let f := (b + b + b) + (E.twistCoeffA * a)
  let g := sq f
  let dEight := dbl (dbl (dbl d))
  let e2 := dbl e
  let x := g - dbl e2
  let y := -dEight + (f * (e2 - x))
  let z := sq (r.y + r.z) - c - sq r.z
  let t := sq z
  (⟨x, y, z, t⟩,
   ⟨sq (z + r.t) - t - a, c + c + c + c, sq (f + r.t) - g - a, sq (f + r.x) - g - b⟩)

def doubling (E : Mnt P F G) (r : ProjExt G) : ProjExt G × AteDouble G :=
  if E.isMnt6 then doubling6 E r else doubling4 E r

/-- `MNT4::mixed_addition_for_flipped_miller_loop` -/
def mixedAddition4 (E : Mnt P F G) (x y : G) (r : ProjExt G) : ProjExt G × AteAdd G :=
  let sq := E.DG.square
  let a := sq y
  let b := r.t * x
  let d := (sq (r.z + y) - a - r.t) * r.t
  let h := b - r.x
  let i := sq h
  let e := i + i + i + i
  let j := h * e
  let v := r.x * e
  let l1 := d - (r.y + r.y)
  let x' := sq l1 - j - (v + v)
  let y' := l1 * (v - x') - (j * (r.y + r.y))
  let z' := sq (r.z + h) - r.t - i
  let t' := sq z'
  (⟨x', y', z', t'⟩, ⟨l1, z'⟩)

/-- `MNT6::mixed_addition_for_flipper_miller_loop` -/
def mixedAddition6 (E : Mnt P F G) (x y : G) (r : ProjExt G) : ProjExt G × AteAdd G :=
  let sq := E.DG.square
  let a := sq y
  let b := r.t * x
  let d := (sq (r.z + y) - a - r.t) * r.t
  let h := b - r.x
  let i := sq h
  let e := i + i + i + i
  let j := h * e
  let v := r.x * e
  let ry2 := E.DG.double r.y
  let l1 := d - ry2
  let x' := sq l1 - j - (v + v)
  let y' := l1 * (v - x') - (j * ry2)
  let z' := sq (r.z + h) - r.t - i
  let t' := sq z'
  (⟨x', y', z', t'⟩, ⟨l1, z'⟩)

def mixedAddition (E : Mnt P F G) (x y : G) (r : ProjExt G) : ProjExt G × AteAdd G :=
  if E.isMnt6 then mixedAddition6 E x y r else mixedAddition4 E x y r

/-- the loop of `G2Prepared::from`: `for bit in ATE_LOOP_COUNT.iter().skip(1)`; a digit outside
    `{-1, 0, 1}` is `unreachable!()` -/
def prepLoop (E : Mnt P F G) (g negG : Aff G) :
    List Int → ProjExt G → Outcome (ProjExt G × List (AteDouble G) × List (AteAdd G))
  | [], r => .ok (r, [], [])
  | bit :: bits, r =>
    let (r, dc) := doubling E r
    if bit = 1 then
      let (r, ac) := mixedAddition E g.x g.y r
      obind (prepLoop E g negG bits r) fun (r, ds, as) => .ok (r, dc :: ds, ac :: as)
    else if bit = -1 then
      let (r, ac) := mixedAddition E negG.x negG.y r
      obind (prepLoop E g negG bits r) fun (r, ds, as) => .ok (r, dc :: ds, ac :: as)
    else if bit = 0 then
      obind (prepLoop E g negG bits r) fun (r, ds, as) => .ok (r, dc :: ds, as)
    else .panic

/-- `impl From<G2Affine<P>> for G2Prepared<P>`: early return for `infinity` with zero coordinates
    and empty coefficient vectors -/
def g2Prepare (E : Mnt P F G) (g : Aff G) : Outcome (MntG2Prepared G) :=
  if g.infinity then .ok ⟨0, 0, 0, 0, [], []⟩
  else
  obind (invUnwrap E.DG.inverse E.twist) fun twistInv =>
  let negG := g.neg
  obind (prepLoop E g negG (E.ateLoopCount.drop 1) ⟨g.x, g.y, E.oneG, E.oneG⟩) fun (r, ds, as) =>
  if E.ateIsLoopCountNeg then
    obind (invUnwrap E.DG.inverse r.z) fun rzInv =>
    let rz2Inv := E.DG.square rzInv
    let rz3Inv := rzInv * rz2Inv
    let minusRX := r.x * rz2Inv
    let minusRY := -r.y * rz3Inv
    let (_, ac) := mixedAddition E minusRX minusRY r
    .ok ⟨g.x, g.y, g.x * twistInv, g.y * twistInv, ds, as ++ [ac]⟩
  else
    .ok ⟨g.x, g.y, g.x * twistInv, g.y * twistInv, ds, as⟩

/-- the line evaluation `g_rq_at_p` / `g_rnegr_at_p` -/
def addEval (p : MntG1Prepared F G) (yOverTwist l1Coeff : G) (ac : AteAdd G) : Quad G :=
  ⟨ac.cRZ * p.yTwist, -(yOverTwist * ac.cRZ + (l1Coeff * ac.cL1))⟩

/-- `g_rr_at_p`: MNT4 `-c_4c - c_j·x_twist + c_l`, MNT6 `c_l - c_4c - c_j·x_twist` -/
def dblEval (E : Mnt P F G) (p : MntG1Prepared F G) (dc : AteDouble G) : Quad G :=
  if E.isMnt6 then ⟨dc.cL - dc.c4C - (dc.cJ * p.xTwist), dc.cH * p.yTwist⟩
  else ⟨-dc.c4C - (dc.cJ * p.xTwist) + dc.cL, dc.cH * p.yTwist⟩

/-- the loop of `ate_miller_loop` over `ATE_LOOP_COUNT.iter().skip(1).zip(&q.double_coefficients)`;
    state `(f, add_idx)` -/
def ateLoop (E : Mnt P F G) (p : MntG1Prepared F G) (q : MntG2Prepared G) (l1Coeff yOverTwistNeg : G) :
    List (Int × AteDouble G) → Quad G → Nat → Outcome (Quad G × Nat)
  | [], f, idx => .ok (f, idx)
  | (bit, dc) :: rest, f, idx =>
    let f := E.DT.square f * dblEval E p dc
    if bit = 1 then
      obind (index q.additionCoefficients idx) fun ac =>
      ateLoop E p q l1Coeff yOverTwistNeg rest (f * addEval p q.yOverTwist l1Coeff ac) (idx + 1)
    else if bit = -1 then
      obind (index q.additionCoefficients idx) fun ac =>
      ateLoop E p q l1Coeff yOverTwistNeg rest (f * addEval p yOverTwistNeg l1Coeff ac) (idx + 1)
    else if bit = 0 then ateLoop E p q l1Coeff yOverTwistNeg rest f idx
    else .panic

/-- `ate_miller_loop(p, q)`; `assert_eq!(ATE_LOOP_COUNT.len() - 1, q.double_coefficients.len())` -/
def ateMillerLoop (E : Mnt P F G) (p : MntG1Prepared F G) (q : MntG2Prepared G) : Outcome (Quad G) :=
  let l1Coeff := E.embed p.x - q.xOverTwist
  let yOverTwistNeg := -q.yOverTwist
  if E.ateLoopCount.length = 0 ∨ E.ateLoopCount.length - 1 ≠ q.doubleCoefficients.length then .panic
  else
    obind (ateLoop E p q l1Coeff yOverTwistNeg ((E.ateLoopCount.drop 1).zip q.doubleCoefficients) 1 0)
      fun (f, idx) =>
    if E.ateIsLoopCountNeg then
      obind (index q.additionCoefficients idx) fun ac =>
      invUnwrap E.DT.inverse (f * addEval p q.yOverTwist l1Coeff ac)
    else .ok f

/-- `MNT?Config::multi_miller_loop` on prepared inputs: pairs with `is_zero()` on either side are
    filtered out -/
def multiMillerLoopPrepared (E : Mnt P F G) (a : List (MntG1Prepared F G)) (b : List (MntG2Prepared G)) :
    Outcome (Quad G) :=
  obind (zipEq a b) fun zs =>
  let pairs := zs.filter fun (p, q) => !g1IsZero p && !g2IsZero q
  obind (mapO (fun (p, q) => ateMillerLoop E p q) pairs) fun fs => .ok (product fs)

def multiMillerLoop (E : Mnt P F G) (a : List (Aff F)) (b : List (Aff G)) : Outcome (Quad G) :=
  obind (mapO (g2Prepare E) b) fun b' => multiMillerLoopPrepared E (a.map (g1Prepare E)) b'

/-- `final_exponentiation_first_chunk(elt, elt_inv)`: MNT4 `elt^(q²-1)`, MNT6 `elt^((q³-1)(q+1))` -/
def finalExponentiationFirstChunk (E : Mnt P F G) (elt eltInv : Quad G) : Outcome (Quad G) :=
  obind (cycInvInPlace E.C elt) fun eltQ =>
  let over := eltQ * eltInv
  if E.isMnt6 then
    obind (E.DT.frob over 1) fun alpha => .ok (alpha * over)
  else .ok over

/-- `final_exponentiation_last_chunk(elt, elt_inv)` -/
def finalExponentiationLastChunk (E : Mnt P F G) (elt eltInv : Quad G) : Outcome (Quad G) :=
  obind (E.DT.frob elt 1) fun eltQ =>
  obind (cycExp E.C eltQ E.finalExponentLastChunk1) fun w1Part =>
  obind (if E.finalExponentLastChunkW0IsNeg then cycExp E.C eltInv E.finalExponentLastChunkAbsOfW0
         else cycExp E.C elt E.finalExponentLastChunkAbsOfW0) fun w0Part =>
  .ok (w1Part * w0Part)

/-- `MNT?Config::final_exponentiation` (`value.inverse()?`) -/
def finalExponentiation (E : Mnt P F G) (value : Quad G) : Outcome (Option (Quad G)) :=
  obind (E.DT.inverse value) fun
  | none => .ok none
  | some valueInv =>
    obind (finalExponentiationFirstChunk E value valueInv) fun v1 =>
    obind (finalExponentiationFirstChunk E valueInv value) fun v2 =>
    obind (finalExponentiationLastChunk E v1 v2) fun r => .ok (some r)

end Mnt

/-! ## the trait `Pairing` (`pairing.rs`) -/

/-- the two required methods, over affine inputs -/
structure Engine (A1 A2 T : Type) where
  /-- `multi_miller_loop` -/
  multiMillerLoop : List A1 → List A2 → Outcome T
  /-- `final_exponentiation` -/
  finalExponentiation : T → Outcome (Option T)

namespace Engine
variable {A1 A2 T : Type}

/-- `Pairing::miller_loop(a, b) = multi_miller_loop([a], [b])` -/
def millerLoop (E : Engine A1 A2 T) (a : A1) (b : A2) : Outcome T := E.multiMillerLoop [a] [b]

/-- `Pairing::multi_pairing`: `final_exponentiation(multi_miller_loop(a, b)).unwrap()` -/
def multiPairing (E : Engine A1 A2 T) (a : List A1) (b : List A2) : Outcome T :=
  obind (E.multiMillerLoop a b) fun f => obind (E.finalExponentiation f) unwrap

/-- `Pairing::pairing(p, q) = multi_pairing([p], [q])` -/
def pairing (E : Engine A1 A2 T) (p : A1) (q : A2) : Outcome T := E.multiPairing [p] [q]

end Engine

/-! ## `PairingOutput` (the target group written additively) -/
section output
variable {T : Type} [Mul T] [Zero T] [One T] [DecidableEq T]

/-- `PairingOutput::zero()` / `ZERO` -/
def outZero : T := 1
/-- `is_zero` -/
def outIsZero (a : T) : Bool := decide (a = 1)
/-- `AddAssign` -/
def outAdd (a b : T) : T := a * b
/-- `SubAssign`: `self.0 *= other.0.cyclotomic_inverse().unwrap()` -/
def outSub (C : CycD T) (a b : T) : Outcome T := obind (invUnwrap C.cycInverse b) fun bi => .ok (a * bi)
/-- `Neg` -/
def outNeg (C : CycD T) (a : T) : Outcome T := invUnwrap C.cycInverse a
/-- `double_in_place` -/
def outDouble (C : CycD T) (a : T) : T := C.cycSquare a
/-- `mul_bigint` -/
def outMulBigint (C : CycD T) (a : T) (e : List Nat) : Outcome T := cycExp C a e

end output

end Ark.Pairing

/-! ## the rest of the public API of `ec/src/pairing.rs`

  `MillerLoopOutput * scalar`, `Valid for PairingOutput`, `CanonicalDeserialize for PairingOutput`,
  `Sum`, `mul_bits_be`, `PrimeGroup::generator`, `Zeroize`.  (Appended; nothing above is changed.) -/
namespace Ark.Pairing
open Ark Ark.Ext

section api
variable {P T : Type} [Mul T] [Zero T] [One T] [DecidableEq T]

/-- `Field::pow(exp)` (`ff/src/fields/mod.rs`): `res = 1; for bit in BitIteratorBE::without_leading_zeros(exp)
    { res.square_in_place(); if bit { res *= self } }` — plain square-and-multiply, valid for every field element -/
def fieldPow (D : FieldD P T) (a : T) (e : List Nat) : T :=
  ((toBitsBE e).dropWhile (· == false)).foldl (fun res bit => let s := D.square res; if bit then s * a else s) 1

/-- `impl Mul<P::ScalarField> for MillerLoopOutput<P>`: `Self(self.0.pow(other.into_bigint()))` -/
def mloMul (D : FieldD P T) (f : T) (s : List Nat) : T := fieldPow D f s

/-- `Valid::check` for `PairingOutput`: `self.0.pow(P::ScalarField::characteristic()).is_one()` -/
def outCheck (D : FieldD P T) (r : List Nat) (a : T) : Bool := decide (fieldPow D a r = 1)

/-- `Valid::batch_check` (not overridden: the trait default of `ark-serialize`, serial build:
    `for item in batch { item.check()? }`) -/
def outBatchCheck (D : FieldD P T) (r : List Nat) (l : List T) : Bool := l.all (outCheck D r)

/-- `CanonicalDeserialize for PairingOutput`: `TargetField::deserialize_with_mode(..).map(Self)?`, then
    `if validate == Validate::Yes { f.check()? }`; `field` is the result of the target field's own deserializer,
    the error of a failed check is `SerializationError::InvalidData` -/
def outDeserialize (D : FieldD P T) (r : List Nat) (field : Except String T) (validate : Bool) : Except String T :=
  match field with
  | .error e => .error e
  | .ok f => if validate && !outCheck D r f then .error "invalid" else .ok f

/-- `Sum<Self>` / `Sum<&Self>` (`impl_additive_ops_from_ref!`): `iter.fold(Self::zero(), Add::add)` -/
def outSum (l : List T) : T := l.foldl outAdd outZero

/-- the limbs `mul_bits_be` rebuilds (after the repair dea047b): the collected big-endian bits are reversed, then
    `chunks(64)`, bit `i` of a chunk goes to position `i` of the limb — the LAST bit the iterator yields is the
    least significant bit of limb 0.  (Before the repair the bits were not reversed, so the first bit became the
    least significant one: `e.mul_bits_be([1, 0]) = e`.)  The name is kept for the driver. -/
def bitsToLimbsAsCoded (bits : List Bool) : List Nat := (chunks 64 bits.reverse bits.length).map bitsToNat

/-- `PrimeGroup::mul_bits_be` as overridden for `PairingOutput`: `Self(self.0.cyclotomic_exp(&other))` -/
def outMulBitsBE (C : CycD T) (a : T) (bits : List Bool) : Outcome T := cycExp C a (bitsToLimbsAsCoded bits)

/-- `Zeroize`: `self.0.zeroize()` (the all-zero field element, NOT the group identity) -/
def outZeroize (_ : T) : T := 0

/-- `PrimeGroup::generator()`: `P::pairing(G1::generator().into(), G2::generator().into())` -/
def outGenerator {A1 A2 : Type} (E : Engine A1 A2 T) (g1 : A1) (g2 : A2) : Outcome T := E.pairing g1 g2

end api

end Ark.Pairing
