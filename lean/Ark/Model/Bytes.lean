import Ark.Model.Limbs
import Ark.Model.Fp
import Ark.Model.AffGroup
/-
  Ark.Model.Bytes — executable model of the byte-level (de)serialisation of field elements and
  curve points (properties C09 and C10):

    /repo/serialize/src/lib.rs                       `buffer_byte_size`, `Compress`, `Validate`
    /repo/serialize/src/flags.rs                     trait `Flags`, `EmptyFlags`, `from_u8_remove_flags`
    /repo/ff/src/const_helpers.rs                    `SerBuffer<N>` (`[[u8; 8]; N]` + one extra byte `last`)
    /repo/ff/src/fields/models/fp/mod.rs             `serialize_with_flags`, `deserialize_with_flags`,
                                                     `serialized_size_with_flags`, `from_random_bytes_with_flags`,
                                                     `CanonicalSerialize/Deserialize for Fp`
    /repo/ff/src/fields/models/{quadratic,cubic}_extension.rs   flags go on the LAST coordinate
    /repo/ec/src/models/short_weierstrass/{mod,affine,group,serialization_flags}.rs
    /repo/ec/src/models/twisted_edwards/{mod,affine,group,serialization_flags}.rs

  Conventions
  * bytes are `Nat < 256`, byte strings `List Nat`; a `u64` limb is a `Nat < 2^64`.
  * a `Write`r is a `Vec<u8>` (cannot fail): serialisers return `Res (List Nat)`.
  * a `Read`er is a byte slice behind a counting wrapper (`Rd`: rest of the input + bytes consumed);
    `read_exact` on a short input consumes what is left and fails with `UnexpectedEof`
    (⇒ `SerializationError::IoError`).  Deserialisers live in the monad `M`.
  * outcomes distinguish `ok v`, `err io|invalid|notenough|flags` and `panic`.
  * `usize` subtraction is written as wrapping subtraction (`wsub`; release profile without overflow
    checks).  It never wraps for a real configuration: `MODULUS_BIT_SIZE = 64 (N-1) + bitlen(top limb)`
    is at least `64 (N-1)`, so `num_bytes ≥ 8 (N-1)`.  (For a hand-written configuration whose
    top modulus limb is zero and `EmptyFlags`, `num_bytes = 8 (N-1)` exactly: zero bytes of the last
    limb are written/read — a debug build would stop at `debug_assert!(num_bytes > 8 * (N - 1))`.)
  * the point layer is generic in the coordinate field `F` (core operator classes) plus a record
    `Codec F` of what Rust gets from `Field`/`CanonicalSerializeWithFlags`/`Ord` beyond the operators:
    (de)serialisation with flags, `sqrt` (ANY root — the sign rule below makes the result
    independent of which one), the lexicographic order.  The overridable trait method
    `is_in_correct_subgroup_assuming_on_curve` is a field of the curve record.

  The ZCash encoding of `/repo/curves/bls12_381` is NOT modelled: that crate is not a dependency
  of the harness, and `ark_test_curves::bls12_381` uses the default (de)serialisers modelled here
  (its G2 overrides only the subgroup test, modelled as `g2InSubgroup`).

  Mathlib-free: linked into the `arkdrv` executable.
-/
namespace Ark.Bytes
open Ark

/-! ## Outcomes, writer results, the counting reader -/

/-- classes of `SerializationError` -/
inductive Err | io | invalid | notenough | flags
  deriving DecidableEq, Repr, Inhabited

/-- result of an operation that reads no input -/
inductive Res (α : Type)
  | ok (a : α)
  | err (e : Err)
  | panic
  deriving Repr, Inhabited

instance : Monad Res where
  pure a := .ok a
  bind m k := match m with
    | .ok a => k a
    | .err e => .err e
    | .panic => .panic

/-- an `Outcome` (value or panic) as a `Res` -/
def Res.ofOutcome {α : Type} : Outcome α → Res α
  | .ok a => .ok a
  | .panic => .panic

/-- reader state: unread input, number of bytes consumed so far -/
structure Rd where
  inp : List Nat
  used : Nat := 0
  deriving Repr, Inhabited

inductive R (α : Type)
  | ok (a : α) (s : Rd)
  | err (e : Err) (s : Rd)
  | panic
  deriving Inhabited

/-- state + failure monad of the deserialisers -/
def M (α : Type) := Rd → R α

instance : Monad M where
  pure a := fun s => .ok a s
  bind m k := fun s =>
    match m s with
    | .ok a s' => k a s'
    | .err e s' => .err e s'
    | .panic => .panic

def throwE {α : Type} (e : Err) : M α := fun s => .err e s
def panicM {α : Type} : M α := fun _ => .panic

def liftO {α : Type} : Outcome α → M α
  | .ok a => pure a
  | .panic => panicM

/-- `Read::read_exact(&mut buf)` with `buf.len() = n` (default implementation over `read`):
    a short input is consumed entirely and `UnexpectedEof` is returned -/
def readExact (n : Nat) : M (List Nat) := fun s =>
  if s.inp.length < n then .err .io { inp := [], used := s.used + s.inp.length }
  else .ok (s.inp.take n) { inp := s.inp.drop n, used := s.used + n }

/-- run a deserialiser on a byte string -/
def runM {α : Type} (m : M α) (bs : List Nat) : R α := m { inp := bs }

/-! ## Modes (`ark_serialize::{Compress, Validate}`) -/

inductive Compress | yes | no
  deriving DecidableEq, Repr, Inhabited

inductive Validate | yes | no
  deriving DecidableEq, Repr, Inhabited

/-! ## `Flags` -/

/-- trait `Flags`: `BIT_SIZE`, `u8_bitmask`, `from_u8` -/
class Flags (Fl : Type) where
  bitSize : Nat
  u8Bitmask : Fl → Nat
  fromU8 : Nat → Option Fl

def bitSize (Fl : Type) [Flags Fl] : Nat := Flags.bitSize (Fl := Fl)

/-- `Flags::from_u8_remove_flags(value: &mut u8)` (default method): the flag and the new `*value`
    (`*value &= !f.u8_bitmask()`), `none` leaves `*value` untouched -/
def fromU8RemoveFlags (Fl : Type) [Flags Fl] (value : Nat) : Option (Fl × Nat) :=
  (Flags.fromU8 (Fl := Fl) value).map (fun f => (f, value &&& (255 - Flags.u8Bitmask f % 256)))

/-- `EmptyFlags` -/
inductive EmptyFlags | mk
  deriving DecidableEq, Repr, Inhabited

instance : Flags EmptyFlags where
  bitSize := 0
  u8Bitmask _ := 0
  fromU8 _ := some .mk

/-- `SWFlags` -/
inductive SWFlags | yIsPositive | pointAtInfinity | yIsNegative
  deriving DecidableEq, Repr, Inhabited

instance : Flags SWFlags where
  bitSize := 2
  u8Bitmask
    | .pointAtInfinity => 64      -- 1 << 6
    | .yIsNegative => 128         -- 1 << 7
    | .yIsPositive => 0
  fromU8 value :=
    let isNegative := (value >>> 7) &&& 1 == 1
    let isInfinity := (value >>> 6) &&& 1 == 1
    match isNegative, isInfinity with
    | true, true => none
    | false, true => some .pointAtInfinity
    | true, false => some .yIsNegative
    | false, false => some .yIsPositive

def SWFlags.isInfinity : SWFlags → Bool
  | .pointAtInfinity => true
  | _ => false

/-- `SWFlags::is_positive` -/
def SWFlags.isPositive : SWFlags → Option Bool
  | .pointAtInfinity => none
  | .yIsPositive => some true
  | .yIsNegative => some false

/-- `TEFlags` -/
inductive TEFlags | xIsPositive | xIsNegative
  deriving DecidableEq, Repr, Inhabited

instance : Flags TEFlags where
  bitSize := 1
  u8Bitmask
    | .xIsNegative => 128
    | .xIsPositive => 0
  fromU8 value := if (value >>> 7) &&& 1 == 1 then some .xIsNegative else some .xIsPositive

def TEFlags.isNegative : TEFlags → Bool
  | .xIsNegative => true
  | .xIsPositive => false

/-- test flag types declared in the harness (`serial_common.rs`): `w` bits, every pattern of the
    top `w` bits is a flag; `u8_bitmask = v << (8 - w)`, `from_u8 = value >> (8 - w)`.
    `w = 9` exercises the `BIT_SIZE > 8` guard (its `from_u8`/`u8_bitmask` are never reached). -/
structure WFlags (w : Nat) where
  v : Nat
  deriving DecidableEq, Repr, Inhabited

instance (w : Nat) : Flags (WFlags w) where
  bitSize := w
  u8Bitmask f := if w ≥ 8 then f.v % 256 else (f.v <<< (8 - w)) % 256
  fromU8 value := some ⟨if w ≥ 8 then value else value >>> (8 - w)⟩

/-! ## Little-endian bytes, `buffer_byte_size`, wrapping `usize` subtraction -/

/-- `u64::to_le_bytes` -/
def le8 (x : Nat) : List Nat := (List.range 8).map (fun i => (x / 256 ^ i) % 256)

/-- `u64::from_le_bytes` (any length: value of little-endian bytes) -/
def leVal : List Nat → Nat
  | [] => 0
  | b :: bs => b + 256 * leVal bs

/-- `buffer_byte_size(bits) = bits.div_ceil(8)` -/
def bufferByteSize (bits : Nat) : Nat := (bits + 7) / 8

/-- `a - b` on `usize` without overflow checks -/
def wsub (a b : Nat) : Nat := (a % 2 ^ 64 + 2 ^ 64 - b % 2 ^ 64) % 2 ^ 64

/-- overwrite a prefix: `dst[..src.len()].copy_from_slice(src)` (`src` no longer than `dst`) -/
def overwritePrefix (dst src : List Nat) : List Nat := src ++ dst.drop src.length

/-! ## `SerBuffer<N>` -/

/-- `SerBuffer<N> { buffers: [[u8; 8]; N], last: u8 }` -/
structure SerBuf where
  buffers : List (List Nat)
  last : Nat
  deriving Repr, Inhabited

namespace SerBuf

/-- `SerBuffer::zeroed()` -/
def zeroed (N : Nat) : SerBuf := ⟨List.replicate N (List.replicate 8 0), 0⟩

/-- `SerBuffer::get` / `Index`: `index == 8N` is `last`, otherwise `buffers[index / 8][index % 8]`
    (slice indexing: out of range panics) -/
def get (N : Nat) (b : SerBuf) (index : Nat) : Outcome Nat :=
  if index = 8 * N then .ok b.last
  else match b.buffers[index / 8]? with
    | none => .panic
    | some limb => match limb[index % 8]? with
      | none => .panic
      | some x => .ok x

/-- `SerBuffer::get_mut` / `IndexMut` followed by a store -/
def set (N : Nat) (b : SerBuf) (index : Nat) (v : Nat) : Outcome SerBuf :=
  if index = 8 * N then .ok { b with last := v }
  else match b.buffers[index / 8]? with
    | none => .panic
    | some limb => .ok { b with buffers := b.buffers.set (index / 8) (limb.set (index % 8) v) }

/-- `copy_from_u64_slice`: `other.iter().zip(&mut self.buffers).for_each(|(o, t)| *t = o.to_le_bytes())` -/
def copyFromU64Slice (b : SerBuf) (other : List Nat) : SerBuf :=
  let rec go : List Nat → List (List Nat) → List (List Nat)
    | o :: os, _ :: ts => le8 o :: go os ts
    | _, ts => ts
  { b with buffers := go other b.buffers }

/-- `chunks(8)` of a byte slice -/
def chunks8 : Nat → List Nat → List (List Nat)
  | 0, _ => []
  | fuel + 1, bs => if bs.isEmpty then [] else bs.take 8 :: chunks8 fuel (bs.drop 8)

/-- `copy_from_u8_slice`: chunk `i < N` overwrites a prefix of `buffers[i]`, every later chunk
    overwrites `last` with its first byte -/
def copyFromU8Slice (N : Nat) (b : SerBuf) (other : List Nat) : SerBuf :=
  let rec go : Nat → List (List Nat) → SerBuf → SerBuf
    | _, [], b => b
    | i, chunk :: rest, b =>
      if i < N then
        go (i + 1) rest { b with buffers := b.buffers.set i (overwritePrefix (b.buffers.getD i []) chunk) }
      else go (i + 1) rest { b with last := chunk.headD 0 }
  go 0 (chunks8 (other.length + 1) other) b

/-- `to_bigint`: the limbs `u64::from_le_bytes(buffers[i])` — `last` is NOT part of the integer -/
def toBigint (b : SerBuf) : Nat := value (b.buffers.map leVal)

/-- `last_n_plus_1_bytes_mut`: the 8 bytes of the last limb followed by `last` -/
def lastNPlus1 (N : Nat) (b : SerBuf) : Outcome (List Nat) :=
  match b.buffers[N - 1]? with
  | none => .panic
  | some limb => if N = 0 then .panic else .ok (limb ++ [b.last])

/-- store the 9 bytes back -/
def setLastNPlus1 (N : Nat) (b : SerBuf) (bs : List Nat) : SerBuf :=
  { buffers := b.buffers.set (N - 1) (bs.take 8), last := bs.getD 8 0 }

/-- `as_slice()`: the `8N + 1` bytes in memory order -/
def asSlice (b : SerBuf) : List Nat := b.buffers.flatten ++ [b.last]

/-- `write_up_to(writer, num_bytes)`: the first `N - 1` limbs unconditionally, then
    `min(8, remaining)` bytes of the last limb, then `last` if `remaining > 8`, where
    `remaining = num_bytes - 8 * (N - 1)` (wrapping: the `debug_assert!`s that guard the range
    `8(N-1) < num_bytes ≤ 8N + 1` are compiled out) -/
def writeUpTo (N : Nat) (b : SerBuf) (numBytes : Nat) : Outcome (List Nat) :=
  if N = 0 then .panic else
  let first := (b.buffers.take (N - 1)).flatten
  let remaining := wsub numBytes (8 * (N - 1))
  let writeLastByte := remaining > 8
  let numLastLimbBytes := min 8 remaining
  match b.buffers[N - 1]? with
  | none => .panic
  | some limb => .ok (first ++ limb.take numLastLimbBytes ++ (if writeLastByte then [b.last] else []))

/-- the `for i in 0..(N - 1) { other.read_exact(&mut self.buffers[i])? }` loop -/
def readLimbs : Nat → M (List (List Nat))
  | 0 => pure []
  | n + 1 => do
    let l ← readExact 8
    let ls ← readLimbs n
    pure (l :: ls)

/-- `read_exact_up_to(reader, num_bytes)` -/
def readExactUpTo (N : Nat) (b : SerBuf) (numBytes : Nat) : M SerBuf := do
  if N = 0 then panicM
  let first ← readLimbs (N - 1)
  let remaining := wsub numBytes (8 * (N - 1))
  let writeLastByte := remaining > 8
  let numLastLimbBytes := min 8 remaining
  let part ← readExact numLastLimbBytes
  let lastLimb := overwritePrefix (b.buffers.getD (N - 1) []) part
  let bufs := first ++ [lastLimb]
  if writeLastByte then do
    let l ← readExact 1
    pure { buffers := bufs, last := l.headD 0 }
  else pure { buffers := bufs, last := b.last }

end SerBuf

/-! ## Prime fields: `Fp<P, N>` -/

/-- what the serialisation code reads from `FpConfig<N>`: the modulus and the limb count `N`
    (a hand-written configuration may use more limbs than the modulus needs) -/
structure FpCfg where
  p : Nat
  N : Nat
  deriving Repr, DecidableEq, Inhabited

/-- bit length of a `u64`: `64 - x.leading_zeros()` -/
def bitLen (x : Nat) : Nat := if x = 0 then 0 else x.log2 + 1

/-- `MODULUS_BIT_SIZE = MODULUS.const_num_bits() = (N - 1) * 64 + (64 - MODULUS.0[N - 1].leading_zeros())`:
    the bit length of `p` when `N` is minimal, `64 (N - 1)` when the top limb of the modulus is zero -/
def FpCfg.bits (c : FpCfg) : Nat := (c.N - 1) * 64 + bitLen (c.p / 2 ^ (64 * (c.N - 1)) % 2 ^ 64)

/-- `into_bigint().0`: the `N` limbs of the standard integer representative -/
def intoBigint (c : FpCfg) (x : Fp c.p) : List Nat := toLimbs c.N x.val

/-- `from_bigint`: zero, else `None` when `≥ MODULUS`, else the element (Montgomery conversion is C01) -/
def fromBigint (c : FpCfg) (n : Nat) : Option (Fp c.p) :=
  if n = 0 then some ⟨0⟩ else if n ≥ c.p then none else some ⟨n⟩

/-- `serialized_size_with_flags::<F>() = buffer_byte_size(MODULUS_BIT_SIZE + F::BIT_SIZE)` -/
def fpSizeFlags (c : FpCfg) (Fl : Type) [Flags Fl] : Nat := bufferByteSize (c.bits + bitSize Fl)

/-- `Fp::serialize_with_flags(writer, flags)` -/
def fpSerFlags (c : FpCfg) (Fl : Type) [Flags Fl] (x : Fp c.p) (flags : Fl) : Res (List Nat) :=
  if bitSize Fl > 8 then .err .notenough else
  let outputByteSize := bufferByteSize (c.bits + bitSize Fl)
  let bytes := (SerBuf.zeroed c.N).copyFromU64Slice (intoBigint c x)
  -- `bytes[output_byte_size - 1] |= flags.u8_bitmask()`
  if outputByteSize = 0 then .panic else
  match bytes.get c.N (outputByteSize - 1) with
  | .panic => .panic
  | .ok old =>
    match bytes.set c.N (outputByteSize - 1) (old ||| (Flags.u8Bitmask flags % 256)) with
    | .panic => .panic
    | .ok bytes => Res.ofOutcome (bytes.writeUpTo c.N outputByteSize)

/-- `Fp::deserialize_with_flags::<R, F>(reader)` -/
def fpDeFlags (c : FpCfg) (Fl : Type) [Flags Fl] : M (Fp c.p × Fl) := do
  if bitSize Fl > 8 then throwE .notenough
  let outputByteSize := fpSizeFlags c Fl
  let masked ← SerBuf.readExactUpTo c.N (SerBuf.zeroed c.N) outputByteSize
  if outputByteSize = 0 then panicM
  let b ← liftO (masked.get c.N (outputByteSize - 1))
  match fromU8RemoveFlags Fl b with
  | none => throwE .flags
  | some (flags, b') =>
    let masked ← liftO (masked.set c.N (outputByteSize - 1) b')
    -- (fix 6c824ba) the extra byte `last` is not read by `to_bigint`: apart from the flag bits it must be zero
    -- `if output_byte_size > N * 8 && masked_bytes[output_byte_size - 1] != 0 { return Err(InvalidData) }`
    let rest ← liftO (masked.get c.N (outputByteSize - 1))
    if outputByteSize > c.N * 8 && rest != 0 then throwE .invalid
    let selfInteger := masked.toBigint
    match fromBigint c selfInteger with
    | some v => pure (v, flags)
    | none => throwE .invalid

/-- `CanonicalSerialize for Fp`: `serialize_with_mode(_, _compress) = serialize_with_flags(EmptyFlags)` -/
def fpSer (c : FpCfg) (x : Fp c.p) (_compress : Compress) : Res (List Nat) :=
  fpSerFlags c EmptyFlags x .mk

/-- `serialized_size(_compress)` -/
def fpSize (c : FpCfg) (_compress : Compress) : Nat := fpSizeFlags c EmptyFlags

/-- `CanonicalDeserialize for Fp` (`Valid::check` is `Ok(())`; both modes are ignored) -/
def fpDe (c : FpCfg) (_compress : Compress) (_validate : Validate) : M (Fp c.p) := do
  let (r, _) ← fpDeFlags c EmptyFlags
  pure r

/-- `zip` of the 9 last bytes with the 9 mask bytes inside `from_random_bytes_with_flags` -/
def maskLast (flagLoc flagsMask : Nat) : Nat → List Nat → List Nat → Nat → List Nat × Nat
  | i, b :: bs, m :: ms, flags =>
    let flags := if i = flagLoc then b &&& flagsMask else flags
    let r := maskLast flagLoc flagsMask (i + 1) bs ms flags
    ((b &&& m) :: r.1, r.2)
  | _, _, _, flags => ([], flags)

/-- `Fp::from_random_bytes_with_flags::<F>(bytes)`; `.ok none` is `None` -/
def fpFromRandomBytesFlags (c : FpCfg) (Fl : Type) [Flags Fl] (bytes : List Nat) : Outcome (Option (Fp c.p × Fl)) :=
  if bitSize Fl > 8 then .ok none else
  let shaveBits := wsub (64 * c.N) c.bits
  let result := SerBuf.copyFromU8Slice c.N (SerBuf.zeroed c.N) bytes
  -- `u64::MAX.checked_shr(shave_bits as u32).unwrap_or(0)`
  let sh := shaveBits % 2 ^ 32
  let lastLimbMask := if sh ≥ 64 then 0 else (2 ^ 64 - 1) >>> sh
  let lastBytesMask := le8 lastLimbMask ++ [0]
  let outputByteSize := bufferByteSize (c.bits + bitSize Fl)
  let flagLocation := wsub outputByteSize 1
  -- `saturating_sub`
  let flagLocationInLastLimb := flagLocation - 8 * (c.N - 1)
  -- `u8::MAX.checked_shl(8 - F::BIT_SIZE).unwrap_or(0)`
  let flagsMask := if 8 - bitSize Fl ≥ 8 then 0 else (255 <<< (8 - bitSize Fl)) % 256
  match result.lastNPlus1 c.N with
  | .panic => .panic
  | .ok lastBytes =>
    let (masked, flags) := maskLast flagLocationInLastLimb flagsMask 0 lastBytes lastBytesMask 0
    let result := result.setLastNPlus1 c.N masked
    -- `Self::deserialize_compressed(&result_bytes.as_slice()[..(N * 8)]).ok()`
    match runM (fpDe c .yes .yes) (result.asSlice.take (c.N * 8)) with
    | .panic => .panic
    | .err _ _ => .ok none
    | .ok f _ => .ok ((Flags.fromU8 (Fl := Fl) flags).map (fun fl => (f, fl)))

/-! ## Extension fields: `QuadExtField`, `CubicExtField` (any tower) -/

/-- shape of a tower over the prime field -/
inductive Tower
  | base
  | quad (t : Tower)
  | cubic (t : Tower)
  deriving Repr, DecidableEq, Inhabited

/-- an element of a tower: `c0 c1 (c2)` down to `Fp` -/
inductive ExtV (p : Nat)
  | base (x : Fp p)
  | quad (c0 c1 : ExtV p)
  | cubic (c0 c1 c2 : ExtV p)
  deriving Repr, DecidableEq, Inhabited

/-- `serialize_with_flags`: every coordinate but the last through `serialize_compressed`
    (⇒ `serialize_with_mode` ⇒ `serialize_with_flags(EmptyFlags)`), the last one carries the flags -/
def extSerFlags (c : FpCfg) : (Fl : Type) → [Flags Fl] → ExtV c.p → Fl → Res (List Nat)
  | Fl, _, .base x, fl => fpSerFlags c Fl x fl
  | Fl, _, .quad c0 c1, fl => do
    let a ← extSerFlags c EmptyFlags c0 .mk
    let b ← extSerFlags c Fl c1 fl
    pure (a ++ b)
  | Fl, _, .cubic c0 c1 c2, fl => do
    let a ← extSerFlags c EmptyFlags c0 .mk
    let b ← extSerFlags c EmptyFlags c1 .mk
    let d ← extSerFlags c Fl c2 fl
    pure (a ++ b ++ d)

/-- `serialize_with_mode(_, _compress) = serialize_with_flags(EmptyFlags)` at every level -/
def extSer (c : FpCfg) (v : ExtV c.p) (_compress : Compress) : Res (List Nat) :=
  extSerFlags c EmptyFlags v .mk

/-- `serialized_size_with_flags::<F>()`: `c0.compressed_size() (+ c1.compressed_size()) + last.serialized_size_with_flags::<F>()` -/
def extSizeFlags (c : FpCfg) (Fl : Type) [Flags Fl] : Tower → Nat
  | .base => fpSizeFlags c Fl
  | .quad t => extSizeFlags c EmptyFlags t + extSizeFlags c Fl t
  | .cubic t => extSizeFlags c EmptyFlags t + extSizeFlags c EmptyFlags t + extSizeFlags c Fl t

def extSize (c : FpCfg) (t : Tower) (_compress : Compress) : Nat := extSizeFlags c EmptyFlags t

/-- `CanonicalDeserialize::deserialize_with_mode`: coordinates in order, modes passed down -/
def extDe (c : FpCfg) : Tower → Compress → Validate → M (ExtV c.p)
  | .base, cm, v => do
    let x ← fpDe c cm v
    pure (.base x)
  | .quad t, cm, v => do
    let c0 ← extDe c t cm v
    let c1 ← extDe c t cm v
    pure (.quad c0 c1)
  | .cubic t, cm, v => do
    let c0 ← extDe c t cm v
    let c1 ← extDe c t cm v
    let c2 ← extDe c t cm v
    pure (.cubic c0 c1 c2)

/-- `deserialize_with_flags`: all but the last coordinate through `deserialize_compressed`
    (= `deserialize_with_mode(Compress::Yes, Validate::Yes)`), the last one with the flags -/
def extDeFlags (c : FpCfg) (Fl : Type) [Flags Fl] : Tower → M (ExtV c.p × Fl)
  | .base => do
    let (x, fl) ← fpDeFlags c Fl
    pure (.base x, fl)
  | .quad t => do
    let c0 ← extDe c t .yes .yes
    let (c1, fl) ← extDeFlags c Fl t
    pure (.quad c0 c1, fl)
  | .cubic t => do
    let c0 ← extDe c t .yes .yes
    let c1 ← extDe c t .yes .yes
    let (c2, fl) ← extDeFlags c Fl t
    pure (.cubic c0 c1 c2, fl)

/-- `Field::extension_degree` of a tower -/
def Tower.degree : Tower → Nat
  | .base => 1
  | .quad t => 2 * t.degree
  | .cubic t => 3 * t.degree

/-- `from_random_bytes_with_flags` of the extension templates: split the input in 2 (3) equal parts
    (`bytes.len() / k`, the last part takes the rest) -/
def extFromRandomBytesFlags (c : FpCfg) (Fl : Type) [Flags Fl] :
    Tower → List Nat → Outcome (Option (ExtV c.p × Fl))
  | .base, bytes =>
    match fpFromRandomBytesFlags c Fl bytes with
    | .panic => .panic
    | .ok none => .ok none
    | .ok (some (x, fl)) => .ok (some (.base x, fl))
  | .quad t, bytes =>
    let splitAt := bytes.length / 2
    match extFromRandomBytesFlags c EmptyFlags t (bytes.take splitAt) with
    | .panic => .panic
    | .ok none => .ok none
    | .ok (some (c0, _)) =>
      match extFromRandomBytesFlags c Fl t (bytes.drop splitAt) with
      | .panic => .panic
      | .ok none => .ok none
      | .ok (some (c1, fl)) => .ok (some (.quad c0 c1, fl))
  | .cubic t, bytes =>
    let splitAt := bytes.length / 3
    match extFromRandomBytesFlags c EmptyFlags t (bytes.take splitAt) with
    | .panic => .panic
    | .ok none => .ok none
    | .ok (some (c0, _)) =>
      match extFromRandomBytesFlags c EmptyFlags t ((bytes.drop splitAt).take splitAt) with
      | .panic => .panic
      | .ok none => .ok none
      | .ok (some (c1, _)) =>
        match extFromRandomBytesFlags c Fl t (bytes.drop (2 * splitAt)) with
        | .panic => .panic
        | .ok none => .ok none
        | .ok (some (c2, fl)) => .ok (some (.cubic c0 c1 c2, fl))

/-! ## What the point code needs from its coordinate field -/

/-- dictionary of the `Field` / `CanonicalSerializeWithFlags` / `CanonicalDeserializeWithFlags` /
    `Ord` methods used by the point (de)serialisers -/
structure Codec (F : Type) where
  /-- `serialize_with_flags` -/
  serFlags : (Fl : Type) → [Flags Fl] → F → Fl → Res (List Nat)
  /-- `deserialize_with_flags` -/
  deFlags : (Fl : Type) → [Flags Fl] → M (F × Fl)
  /-- `CanonicalDeserialize::deserialize_with_mode` -/
  de : Compress → Validate → M F
  /-- `serialized_size_with_flags` (independent of the value) -/
  sizeFlags : (Fl : Type) → [Flags Fl] → Nat
  /-- `Field::sqrt`: some square root, `none` for a non-residue -/
  sqrt : F → Option F
  /-- `Ord`: `a < b` (integers for `Fp`; last coordinate most significant for extensions) -/
  lt : F → F → Bool

namespace Codec
variable {F : Type} (K : Codec F)

/-- `serialize_with_mode` of a field element: flags-free whatever the mode -/
def ser (x : F) (_compress : Compress) : Res (List Nat) := K.serFlags EmptyFlags x .mk
/-- `serialized_size(compress)` = `compressed_size()` = `uncompressed_size()` -/
def size (_compress : Compress) : Nat := K.sizeFlags EmptyFlags
/-- `a <= b` -/
def le (a b : F) : Bool := !K.lt b a

end Codec

section points
variable {F : Type} [Add F] [Sub F] [Mul F] [Neg F] [Zero F] [One F] [Inv F] [DecidableEq F]

/-- `Field::inverse` -/
def inverse (x : F) : Option F := if x = 0 then none else some x⁻¹

/-! ## Short Weierstrass -/

/-- `short_weierstrass::Affine { x, y, infinity }` -/
structure SWAff (F : Type) where
  x : F
  y : F
  infinity : Bool
  deriving DecidableEq, Repr

/-- `short_weierstrass::Projective { x, y, z }` (Jacobian) -/
structure SWProj (F : Type) where
  x : F
  y : F
  z : F
  deriving DecidableEq, Repr

/-- `SWCurveConfig`: the coefficients and the overridable subgroup test -/
structure SWCfg (F : Type) where
  a : F
  b : F
  /-- `is_in_correct_subgroup_assuming_on_curve` -/
  inSubgroup : SWAff F → Bool

/-- default body of `is_in_correct_subgroup_assuming_on_curve`:
    `cofactor_is_one() || mul_affine(item, r).is_zero()` -/
def defaultInSubgroup {Pt : Type} (cofactorIsOne : Bool) (mulByRIsZero : Pt → Bool) (item : Pt) : Bool :=
  if cofactorIsOne then true else mulByRIsZero item

/-- `Affine::identity()` -/
def SWAff.identity : SWAff F := ⟨0, 0, true⟩

/-- `SWCurveConfig::mul_by_a` (default) -/
def swMulByA (E : SWCfg F) (elem : F) : F := if E.a = 0 then 0 else elem * E.a

/-- `SWCurveConfig::add_b` (default) -/
def swAddB (E : SWCfg F) (elem : F) : F := if E.b = 0 then elem else elem + E.b

/-- `Affine::get_ys_from_x_unchecked`: `(smaller, larger)` -/
def swGetYsFromX (K : Codec F) (E : SWCfg F) (x : F) : Option (F × F) :=
  let x3b := swAddB E ((x * x) * x)
  let x3b := if E.a ≠ 0 then x3b + swMulByA E x else x3b
  match K.sqrt x3b with
  | none => none
  | some y =>
    let negY := -y
    if K.lt y negY then some (y, negY) else some (negY, y)

/-- `Affine::get_point_from_x_unchecked` -/
def swGetPointFromX (K : Codec F) (E : SWCfg F) (x : F) (greatest : Bool) : Option (SWAff F) :=
  (swGetYsFromX K E x).map (fun (smaller, larger) =>
    if greatest then ⟨x, larger, false⟩ else ⟨x, smaller, false⟩)

/-- `Affine::is_on_curve` -/
def swIsOnCurve (E : SWCfg F) (P : SWAff F) : Bool :=
  if P.infinity then true
  else
    let x3b := swAddB E ((P.x * P.x) * P.x)
    let x3b := if E.a ≠ 0 then x3b + swMulByA E P.x else x3b
    P.y * P.y == x3b

/-- `Affine::to_flags` -/
def swToFlags (K : Codec F) (P : SWAff F) : SWFlags :=
  if P.infinity then .pointAtInfinity
  else if K.le P.y (-P.y) then .yIsPositive
  else .yIsNegative

/-- `Valid::check for Affine` -/
def swCheck (E : SWCfg F) (P : SWAff F) : Bool := swIsOnCurve E P && E.inSubgroup P

/-- `SWCurveConfig::serialize_with_mode` (default) -/
def swSerialize (K : Codec F) (item : SWAff F) (compress : Compress) : Res (List Nat) :=
  let (x, y, flags) : F × F × SWFlags :=
    if item.infinity then (0, 0, .pointAtInfinity) else (item.x, item.y, swToFlags K item)
  match compress with
  | .yes => K.serFlags SWFlags x flags
  | .no => do
    let a ← K.ser x compress
    let b ← K.serFlags SWFlags y flags
    pure (a ++ b)

/-- `SWCurveConfig::serialized_size` (default) -/
def swSerializedSize (K : Codec F) (compress : Compress) : Nat :=
  match compress with
  | .yes => K.sizeFlags SWFlags
  | .no => K.size .yes + K.sizeFlags SWFlags

/-- `SWCurveConfig::deserialize_with_mode` (default) -/
def swDeserialize (K : Codec F) (E : SWCfg F) (compress : Compress) (validate : Validate) : M (SWAff F) := do
  let (x, y, flags) : F × F × SWFlags ← (match compress with
    | .yes => do
      let (x, flags) ← K.deFlags SWFlags
      match flags with
      | .pointAtInfinity => pure ((0 : F), (0 : F), flags)
      | _ =>
        -- `flags.is_positive().unwrap()`
        match flags.isPositive with
        | none => panicM
        | some isPositive =>
          match swGetYsFromX K E x with
          | none => throwE .invalid
          | some (y, negY) => if isPositive then pure (x, y, flags) else pure (x, negY, flags)
    | .no => do
      let x ← K.de compress validate
      let (y, flags) ← K.deFlags SWFlags
      pure (x, y, flags))
  if flags.isInfinity then pure SWAff.identity
  else
    let point : SWAff F := ⟨x, y, false⟩
    if validate = .yes && !swCheck E point then throwE .invalid
    else pure point

/-- `Projective::is_zero` -/
def SWProj.isZero (P : SWProj F) : Bool := P.z == 0

/-- `Projective::ZERO = (1, 1, 0)` -/
def SWProj.zero : SWProj F := ⟨1, 1, 0⟩

/-- `From<Projective> for Affine` (`X/Z², Y/Z³`); the `unwrap` of `z.inverse()` is explicit -/
def swToAffine (P : SWProj F) : Outcome (SWAff F) :=
  if P.isZero then .ok SWAff.identity
  else if P.z = 1 then .ok ⟨P.x, P.y, false⟩
  else match inverse P.z with
    | none => .panic
    | some zinv =>
      let zinvSquared := zinv * zinv
      .ok ⟨P.x * zinvSquared, P.y * (zinvSquared * zinv), false⟩

/-- `From<Affine> for Projective` -/
def swFromAffine (P : SWAff F) : SWProj F :=
  if P.infinity then SWProj.zero else ⟨P.x, P.y, 1⟩

/-- `CanonicalSerialize for Projective` -/
def swProjSerialize (K : Codec F) (P : SWProj F) (compress : Compress) : Res (List Nat) := do
  let aff ← Res.ofOutcome (swToAffine P)
  swSerialize K aff compress

/-- `CanonicalDeserialize for Projective` -/
def swProjDeserialize (K : Codec F) (E : SWCfg F) (compress : Compress) (validate : Validate) : M (SWProj F) := do
  let aff ← swDeserialize K E compress validate
  pure (swFromAffine aff)

/-- `Valid::check for Projective`: `self.into_affine().check()` -/
def swProjCheck (E : SWCfg F) (P : SWProj F) : Outcome Bool :=
  match swToAffine P with
  | .panic => .panic
  | .ok a => .ok (swCheck E a)

/-- `Valid::batch_check` (default body, sequential): `check` on every item -/
def swBatchCheck (E : SWCfg F) (Ps : List (SWAff F)) : Bool := Ps.all (swCheck E)

/-- one entry of `Projective::normalize_batch`: `z` inverted by `batch_inversion` (a zero stays zero),
    identity for `is_zero()`, else `(X·z⁻², Y·z⁻²·z⁻¹)` -/
def swNormalize (g : SWProj F) : SWAff F :=
  if g.isZero then SWAff.identity
  else
    let z := g.z⁻¹
    let z2 := z * z
    ⟨g.x * z2, g.y * z2 * z, false⟩

/-- `Valid::batch_check for Projective`: `normalize_batch`, then `Affine::batch_check` -/
def swProjBatchCheck (E : SWCfg F) (Ps : List (SWProj F)) : Bool := swBatchCheck E (Ps.map swNormalize)

/-! ## Twisted Edwards -/

/-- `twisted_edwards::Affine { x, y }` -/
structure TEAff (F : Type) where
  x : F
  y : F
  deriving DecidableEq, Repr

/-- `twisted_edwards::Projective { x, y, t, z }` (extended) -/
structure TEProj (F : Type) where
  x : F
  y : F
  t : F
  z : F
  deriving DecidableEq, Repr

/-- `TECurveConfig`: coefficients and the overridable subgroup test -/
structure TECfg (F : Type) where
  a : F
  d : F
  inSubgroup : TEAff F → Bool

/-- `Affine::zero() = (0, 1)` -/
def TEAff.zero : TEAff F := ⟨0, 1⟩

/-- `Affine::get_xs_from_y_unchecked`: `(x, −x)` with `x ≤ −x` -/
def teGetXsFromY (K : Codec F) (E : TECfg F) (y : F) : Option (F × F) :=
  let y2 := y * y
  let numerator := 1 - y2
  let denominator := E.a - (y2 * E.d)
  match inverse denominator with
  | none => none
  | some denom =>
    let x2 := denom * numerator
    match K.sqrt x2 with
    | none => none
    | some x =>
      let negX := -x
      if K.le x negX then some (x, negX) else some (negX, x)

/-- `Affine::get_point_from_y_unchecked` -/
def teGetPointFromY (K : Codec F) (E : TECfg F) (y : F) (greatest : Bool) : Option (TEAff F) :=
  (teGetXsFromY K E y).map (fun (x, negX) => if greatest then ⟨negX, y⟩ else ⟨x, y⟩)

/-- `Affine::is_on_curve`: `y² + a·x² = 1 + d·x²·y²` -/
def teIsOnCurve (E : TECfg F) (P : TEAff F) : Bool :=
  let x2 := P.x * P.x
  let y2 := P.y * P.y
  let lhs := y2 + x2 * E.a
  let rhs := 1 + E.d * (x2 * y2)
  lhs == rhs

/-- `TEFlags::from_x_coordinate` -/
def teFlagsFromX (K : Codec F) (x : F) : TEFlags :=
  if K.le x (-x) then .xIsPositive else .xIsNegative

/-- `Valid::check for Affine` -/
def teCheck (E : TECfg F) (P : TEAff F) : Bool := teIsOnCurve E P && E.inSubgroup P

/-- `TECurveConfig::serialize_with_mode` (default) -/
def teSerialize (K : Codec F) (item : TEAff F) (compress : Compress) : Res (List Nat) :=
  let flags := teFlagsFromX K item.x
  match compress with
  | .yes => K.serFlags TEFlags item.y flags
  | .no => do
    let a ← K.ser item.x .no
    let b ← K.ser item.y .no
    pure (a ++ b)

/-- `TECurveConfig::serialized_size` (default) -/
def teSerializedSize (K : Codec F) (compress : Compress) : Nat :=
  match compress with
  | .yes => K.sizeFlags TEFlags
  | .no => K.size .no + K.size .no

/-- `TECurveConfig::deserialize_with_mode` (default) -/
def teDeserialize (K : Codec F) (E : TECfg F) (compress : Compress) (validate : Validate) : M (TEAff F) := do
  let (x, y) : F × F ← (match compress with
    | .yes => do
      let (y, flags) ← K.deFlags TEFlags
      match teGetXsFromY K E y with
      | none => throwE .invalid
      | some (x, negX) => if flags.isNegative then pure (negX, y) else pure (x, y)
    | .no => do
      -- `deserialize_uncompressed` = `deserialize_with_mode(Compress::No, Validate::Yes)`
      let x ← K.de .no .yes
      let y ← K.de .no .yes
      pure (x, y))
  let point : TEAff F := ⟨x, y⟩
  if validate = .yes && !teCheck E point then throwE .invalid
  else pure point

/-- `Projective::is_zero`: `x = 0 ∧ y = z ∧ y ≠ 0 ∧ t = 0` -/
def TEProj.isZero (P : TEProj F) : Bool := P.x == 0 && P.y == P.z && P.y != 0 && P.t == 0

/-- `From<Projective> for Affine` (`X/Z, Y/Z`) -/
def teToAffine (P : TEProj F) : Outcome (TEAff F) :=
  if P.isZero then .ok TEAff.zero
  else if P.z = 1 then .ok ⟨P.x, P.y⟩
  else match inverse P.z with
    | none => .panic
    | some zInv => .ok ⟨P.x * zInv, P.y * zInv⟩

/-- `From<Affine> for Projective`: `(x, y, x·y, 1)` -/
def teFromAffine (P : TEAff F) : TEProj F := ⟨P.x, P.y, P.x * P.y, 1⟩

/-- `CanonicalSerialize for Projective` -/
def teProjSerialize (K : Codec F) (P : TEProj F) (compress : Compress) : Res (List Nat) := do
  let aff ← Res.ofOutcome (teToAffine P)
  teSerialize K aff compress

/-- `CanonicalDeserialize for Projective` -/
def teProjDeserialize (K : Codec F) (E : TECfg F) (compress : Compress) (validate : Validate) : M (TEProj F) := do
  let aff ← teDeserialize K E compress validate
  pure (teFromAffine aff)

/-- `Valid::check for Projective`: `self.into_affine().check()` -/
def teProjCheck (E : TECfg F) (P : TEProj F) : Outcome Bool :=
  match teToAffine P with
  | .panic => .panic
  | .ok a => .ok (teCheck E a)

def teBatchCheck (E : TECfg F) (Ps : List (TEAff F)) : Bool := Ps.all (teCheck E)

/-- one entry of `Projective::normalize_batch`: `(X·z⁻¹, Y·z⁻¹)`, `batch_inversion` leaves a zero `z` zero -/
def teNormalize (g : TEProj F) : TEAff F :=
  if g.isZero then TEAff.zero
  else
    let z := if g.z = 0 then 0 else g.z⁻¹
    ⟨g.x * z, g.y * z⟩

/-- `Valid::batch_check for Projective` -/
def teProjBatchCheck (E : TECfg F) (Ps : List (TEProj F)) : Bool := teBatchCheck E (Ps.map teNormalize)

/-! ## Spec-level affine twisted-Edwards group (for the subgroup test and the verdicts)

The unified addition law of `a·x² + y² = 1 + d·x²·y²`; it is the group law whenever the
denominators do not vanish, which is always the case on a complete curve (`a` a square, `d` not). -/

def teAdd (a d : F) (P Q : TEAff F) : TEAff F :=
  let k := d * P.x * Q.x * P.y * Q.y
  ⟨(P.x * Q.y + P.y * Q.x) * (1 + k)⁻¹, (P.y * Q.y - a * P.x * Q.x) * (1 - k)⁻¹⟩

def teNeg (P : TEAff F) : TEAff F := ⟨-P.x, P.y⟩

def teSmulAux (a d : F) : Nat → Nat → TEAff F → TEAff F → TEAff F
  | 0, _, _, acc => acc
  | fuel + 1, k, base, acc =>
    if k = 0 then acc
    else teSmulAux a d fuel (k / 2) (teAdd a d base base) (if k % 2 = 1 then teAdd a d acc base else acc)

/-- `k • P` by double-and-add -/
def teSmul (a d : F) (k : Nat) (P : TEAff F) : TEAff F := teSmulAux a d (k.log2 + 2) k P TEAff.zero

end points

/-! ## Square roots in `Fp p` (some root; Tonelli–Shanks)

Stands in for `Field::sqrt` (property C11): the point code only uses that the result, if any, is a
square root, and that `none` is returned exactly for non-residues. -/

/-- `n = 2^s · q` with `q` odd -/
def twoAdic : Nat → Nat → Nat → Nat × Nat
  | 0, s, q => (s, q)
  | fuel + 1, s, q => if q % 2 = 0 ∧ q ≠ 0 then twoAdic fuel (s + 1) (q / 2) else (s, q)

/-- least quadratic non-residue ≥ 2 (Euler's criterion) -/
def findNonResidue (p : Nat) : Nat → Nat → Nat
  | 0, z => z
  | fuel + 1, z => if Spec.powMod z ((p - 1) / 2) p = p - 1 then z else findNonResidue p fuel (z + 1)

/-- least `i` with `t^(2^i) = 1` -/
def orderExp (p : Nat) : Nat → Nat → Nat → Nat
  | 0, _, i => i
  | fuel + 1, t, i => if t = 1 then i else orderExp p fuel (t * t % p) (i + 1)

def tsLoop (p : Nat) : Nat → Nat → Nat → Nat → Nat → Nat
  | 0, x, _, _, _ => x
  | fuel + 1, x, t, c, m =>
    if t = 1 then x
    else
      let i := orderExp p m t 0
      let b := Spec.powMod c (2 ^ (m - i - 1)) p
      let c' := b * b % p
      tsLoop p fuel (x * b % p) (t * c' % p) c' i

/-- a square root of `a` modulo an odd prime `p` (or `p = 2`), `none` for a non-residue -/
def fpSqrt (p : Nat) (a : Fp p) : Option (Fp p) :=
  let a := a.val % p
  if a = 0 then some ⟨0⟩
  else if p = 2 then some ⟨a⟩
  else if Spec.powMod a ((p - 1) / 2) p ≠ 1 then none
  else
    let (s, q) := twoAdic (p.log2 + 2) 0 (p - 1)
    if s = 1 then some ⟨Spec.powMod a ((p + 1) / 4) p⟩
    else
      let z := findNonResidue p (p.log2 * 64 + 64) 2
      let c := Spec.powMod z q p
      let x := Spec.powMod a ((q + 1) / 2) p
      let t := Spec.powMod a q p
      some ⟨tsLoop p (s + 1) x t c s⟩

/-- the `Codec` of a prime field -/
def fpCodec (c : FpCfg) : Codec (Fp c.p) where
  serFlags Fl _ x fl := fpSerFlags c Fl x fl
  deFlags Fl _ := fpDeFlags c Fl
  de cm v := fpDe c cm v
  sizeFlags Fl _ := fpSizeFlags c Fl
  sqrt := fpSqrt c.p
  lt a b := a.val < b.val

/-! ## Spec-level quadratic extension `Fp[u]/(u² − β)` (coordinate field of e.g. BLS12-381 G2)

Plain textbook arithmetic: the Rust algorithms for extension-field arithmetic are property C02;
the point code only needs the field operations, `sqrt` and the order. -/

structure Fp2 (p β : Nat) where
  c0 : Fp p
  c1 : Fp p
  deriving DecidableEq, Repr

namespace Fp2
variable {p β : Nat}

instance : Zero (Fp2 p β) := ⟨⟨0, 0⟩⟩
instance : One (Fp2 p β) := ⟨⟨1, 0⟩⟩
instance : Add (Fp2 p β) := ⟨fun a b => ⟨a.c0 + b.c0, a.c1 + b.c1⟩⟩
instance : Sub (Fp2 p β) := ⟨fun a b => ⟨a.c0 - b.c0, a.c1 - b.c1⟩⟩
instance : Neg (Fp2 p β) := ⟨fun a => ⟨-a.c0, -a.c1⟩⟩
instance : Mul (Fp2 p β) :=
  ⟨fun a b => ⟨a.c0 * b.c0 + Fp.ofNat p β * (a.c1 * b.c1), a.c0 * b.c1 + a.c1 * b.c0⟩⟩
instance : Inv (Fp2 p β) :=
  ⟨fun a =>
    let n := a.c0 * a.c0 - Fp.ofNat p β * (a.c1 * a.c1)
    let ni := n⁻¹
    ⟨a.c0 * ni, -(a.c1 * ni)⟩⟩
instance : Inhabited (Fp2 p β) := ⟨0⟩

/-- the Frobenius map `x ↦ x^p` (`c1 *= β^((p-1)/2) = −1`) -/
def conj (a : Fp2 p β) : Fp2 p β := ⟨a.c0, -a.c1⟩

end Fp2

/-! ## Square roots in any finite field of odd order `q` (some root; Tonelli–Shanks) -/

section gsqrt
variable {G : Type} [Mul G] [One G] [DecidableEq G]

def gpowAux : Nat → G → Nat → G → G
  | 0, _, _, acc => acc
  | fuel + 1, b, e, acc =>
    if e = 0 then acc else gpowAux fuel (b * b) (e / 2) (if e % 2 = 1 then acc * b else acc)

/-- `g^e` by square-and-multiply -/
def gpow (g : G) (e : Nat) : G := gpowAux (e.log2 + 2) g e 1

def gOrderExp : Nat → G → Nat → Nat
  | 0, _, i => i
  | fuel + 1, t, i => if t = 1 then i else gOrderExp fuel (t * t) (i + 1)

def gTsLoop : Nat → G → G → G → Nat → G
  | 0, x, _, _, _ => x
  | fuel + 1, x, t, c, m =>
    if t = 1 then x
    else
      let i := gOrderExp m t 0
      let b := gpow c (2 ^ (m - i - 1))
      let c' := b * b
      gTsLoop fuel (x * b) (t * c') c' i

/-- a square root of `a` in a field with `q` elements (`q` odd); `cands` must contain a non-square -/
def gSqrt (q : Nat) (isZero : G → Bool) (cands : List G) (a : G) : Option G :=
  if isZero a then some a
  else if gpow a ((q - 1) / 2) ≠ 1 then none
  else
    let (s, m) := twoAdic (q.log2 + 2) 0 (q - 1)
    match cands.find? (fun z => !isZero z && gpow z ((q - 1) / 2) ≠ 1) with
    | none => none
    | some z => some (gTsLoop (s + 1) (gpow a ((m + 1) / 2)) (gpow a m) (gpow z m) s)

end gsqrt

/-- candidates for a quadratic non-residue of `Fp2`: `i + j·u` for small `i`, `j ≥ 1` -/
def fp2Cands (p β : Nat) : List (Fp2 p β) :=
  (List.range 3).flatMap (fun j => (List.range 32).map (fun i => (⟨Fp.ofNat p i, Fp.ofNat p (j + 1)⟩ : Fp2 p β)))

/-- the `Codec` of `Fp2<P>` = `QuadExtField<Fp2ConfigWrapper<P>>` over a prime field:
    (de)serialisation through the extension templates above, `Ord` compares `c1` first -/
def fp2Codec (c : FpCfg) (β : Nat) : Codec (Fp2 c.p β) where
  serFlags Fl _ x fl := extSerFlags c Fl (.quad (.base x.c0) (.base x.c1)) fl
  deFlags Fl _ := do
    let (v, fl) ← extDeFlags c Fl (.quad .base)
    match v with
    | .quad (.base a) (.base b) => pure (⟨a, b⟩, fl)
    | _ => panicM
  de cm vd := do
    let v ← extDe c (.quad .base) cm vd
    match v with
    | .quad (.base a) (.base b) => pure ⟨a, b⟩
    | _ => panicM
  sizeFlags Fl _ := extSizeFlags c Fl (.quad .base)
  sqrt := gSqrt (c.p * c.p) (fun a => a.c0.val % c.p == 0 && a.c1.val % c.p == 0) (fp2Cands c.p β)
  lt a b := a.c1.val < b.c1.val || (a.c1.val == b.c1.val && a.c0.val < b.c0.val)

/-! ## Spec-level short-Weierstrass group over any field (as `Ark.AffPt`, which is fixed to `Fp p`) -/

section ggroup
variable {F : Type} [Add F] [Sub F] [Mul F] [Neg F] [Zero F] [One F] [Inv F] [DecidableEq F]

/-- chord-and-tangent law of `y² = x³ + a·x + b`; `none` is the identity -/
def gAdd (a : F) (P Q : Option (F × F)) : Option (F × F) :=
  match P, Q with
  | none, _ => Q
  | _, none => P
  | some (x1, y1), some (x2, y2) =>
    if x1 = x2 then
      if y1 = y2 ∧ y1 ≠ 0 then
        let xx := x1 * x1
        let lam := (xx + xx + xx + a) * (y1 + y1)⁻¹
        let x3 := lam * lam - x1 - x2
        some (x3, lam * (x1 - x3) - y1)
      else none
    else
      let lam := (y2 - y1) * (x2 - x1)⁻¹
      let x3 := lam * lam - x1 - x2
      some (x3, lam * (x1 - x3) - y1)

def gNeg (P : Option (F × F)) : Option (F × F) := P.map (fun (x, y) => (x, -y))

def gSmulAux (a : F) : Nat → Nat → Option (F × F) → Option (F × F) → Option (F × F)
  | 0, _, _, acc => acc
  | fuel + 1, k, base, acc =>
    if k = 0 then acc
    else gSmulAux a fuel (k / 2) (gAdd a base base) (if k % 2 = 1 then gAdd a acc base else acc)

/-- `k • P` -/
def gSmul (a : F) (k : Nat) (P : Option (F × F)) : Option (F × F) := gSmulAux a (k.log2 + 2) k P none

def SWAff.toOpt (P : SWAff F) : Option (F × F) := if P.infinity then none else some (P.x, P.y)

end ggroup

/-! ## The subgroup test of `ark_test_curves::bls12_381::g2` (override of
`is_in_correct_subgroup_assuming_on_curve`): `[X]P = ψ(P)`, Section 4 of eprint 2021/1130 -/

/-- `p_power_endomorphism`: Frobenius on both coordinates, then
    `x.c0 = −K0.c1 · x.c1; x.c1 = K0.c1 · x.c0; y *= K1` (`K0 = P_POWER_ENDOMORPHISM_COEFF_0`, `K1 = …_COEFF_1`) -/
def g2Psi {p β : Nat} (k0c1 : Fp p) (k1 : Fp2 p β) (P : SWAff (Fp2 p β)) : SWAff (Fp2 p β) :=
  let rx := P.x.conj
  let ry := P.y.conj
  { x := ⟨-k0c1 * rx.c1, k0c1 * rx.c0⟩, y := ry * k1, infinity := P.infinity }

/-- `point.mul_bigint([X, 0, 0, 0])`, negated if `X_IS_NEGATIVE`, compared (as group elements) with `ψ(point)` -/
def g2InSubgroup {p β : Nat} (a : Fp2 p β) (X : Nat) (xIsNegative : Bool) (k0c1 : Fp p) (k1 : Fp2 p β)
    (P : SWAff (Fp2 p β)) : Bool :=
  let xP := gSmul a X P.toOpt
  let xP := if xIsNegative then gNeg xP else xP
  xP == (g2Psi k0c1 k1 P).toOpt

/-! ## Bridges to the spec-level short-Weierstrass group `Ark.AffPt` -/

def SWAff.toAffPt {p : Nat} {E : SWParams p} (P : SWAff (Fp p)) : AffPt p E :=
  if P.infinity then ⟨none⟩ else ⟨some (P.x, P.y)⟩

/-- `mul_affine(item, r).is_zero()` over the spec-level group -/
def swMulByRIsZero {p : Nat} (E : SWParams p) (r : Nat) (P : SWAff (Fp p)) : Bool :=
  (AffPt.smul r (P.toAffPt (E := E))).pt.isNone

/-- the curve record of a prime-field curve with the default subgroup test -/
def swCfgFp {p : Nat} (a b : Fp p) (cofactorIsOne : Bool) (r : Nat) : SWCfg (Fp p) where
  a := a
  b := b
  inSubgroup := defaultInSubgroup cofactorIsOne (swMulByRIsZero ⟨a, b⟩ r)

/-- the curve record of a prime-field twisted-Edwards curve with the default subgroup test
    (`mul_affine(item, r).is_zero()`, no cofactor shortcut) -/
def teCfgFp {p : Nat} (a d : Fp p) (r : Nat) : TECfg (Fp p) where
  a := a
  d := d
  inSubgroup := fun P => teSmul a d r P == TEAff.zero

/-! ## Flag constants, flags from a coordinate, `AffineRepr::from_random_bytes`

    /repo/ec/src/models/short_weierstrass/serialization_flags.rs   `SWFlags::{default, infinity, from_y_coordinate}`
    /repo/ec/src/models/twisted_edwards/serialization_flags.rs     `TEFlags::{default, from_x_coordinate}` (= `teFlagsFromX`)
    /repo/ec/src/models/short_weierstrass/affine.rs                `<Affine as AffineRepr>::from_random_bytes`
    /repo/ec/src/models/twisted_edwards/affine.rs                  `<Affine as AffineRepr>::from_random_bytes` -/

/-- `impl Default for SWFlags`: `Self::YIsNegative` (sic: the variant whose mask is `1 << 7`) -/
def SWFlags.dflt : SWFlags := .yIsNegative

/-- `SWFlags::infinity()` -/
def SWFlags.infinityFlag : SWFlags := .pointAtInfinity

/-- `impl Default for TEFlags`: `Self::XIsPositive` -/
def TEFlags.dflt : TEFlags := .xIsPositive

section fromRandomBytes
variable {F : Type} [Add F] [Sub F] [Mul F] [Neg F] [Zero F] [One F] [Inv F] [DecidableEq F]

/-- `SWFlags::from_y_coordinate(y)`: `if y <= -y { YIsPositive } else { YIsNegative }` -/
def swFlagsFromY (K : Codec F) (y : F) : SWFlags :=
  if K.le y (-y) then .yIsPositive else .yIsNegative

/-- `<short_weierstrass::Affine<P> as AffineRepr>::from_random_bytes(bytes)`.
    `frb` is `P::BaseField::from_random_bytes_with_flags::<Fl>` (not part of `Codec`):
    `fpFromRandomBytesFlags c Fl` for a prime field, `fp2FromRandomBytesFlags c β Fl` for `Fp2`.
    Branch by branch: `None` from the field ⇒ `None`; `x.is_zero() && flags.is_infinity()` ⇒ the identity;
    `flags.is_positive() = Some(y_is_positive)` ⇒ `get_point_from_x_unchecked(x, y_is_positive)`
    (NB `greatest = y_is_positive`: the LARGER root for the flag `YIsPositive`); otherwise
    (infinity flag on a non-zero `x`) `None`. -/
def swFromRandomBytes (K : Codec F) (E : SWCfg F)
    (frb : (Fl : Type) → [Flags Fl] → List Nat → Outcome (Option (F × Fl))) (bytes : List Nat) :
    Outcome (Option (SWAff F)) :=
  match frb SWFlags bytes with
  | .panic => .panic
  | .ok none => .ok none
  | .ok (some (x, flags)) =>
    if x = 0 ∧ flags.isInfinity = true then .ok (some SWAff.identity)
    else match flags.isPositive with
      | some yIsPositive => .ok (swGetPointFromX K E x yIsPositive)
      | none => .ok none

/-- `<twisted_edwards::Affine<P> as AffineRepr>::from_random_bytes(bytes)`:
    `from_random_bytes_with_flags::<TEFlags>(bytes).and_then(|(y, flags)| get_point_from_y_unchecked(y, flags.is_negative()))` -/
def teFromRandomBytes (K : Codec F) (E : TECfg F)
    (frb : (Fl : Type) → [Flags Fl] → List Nat → Outcome (Option (F × Fl))) (bytes : List Nat) :
    Outcome (Option (TEAff F)) :=
  match frb TEFlags bytes with
  | .panic => .panic
  | .ok none => .ok none
  | .ok (some (y, flags)) => .ok (teGetPointFromY K E y flags.isNegative)

end fromRandomBytes

/-- `Fp2::from_random_bytes_with_flags::<Fl>` (the quadratic-extension template over a prime field)
    with the result as the spec-level `Fp2` -/
def fp2FromRandomBytesFlags (c : FpCfg) (β : Nat) (Fl : Type) [Flags Fl] (bytes : List Nat) :
    Outcome (Option (Fp2 c.p β × Fl)) :=
  match extFromRandomBytesFlags c Fl (.quad .base) bytes with
  | .panic => .panic
  | .ok none => .ok none
  | .ok (some (.quad (.base a) (.base b), fl)) => .ok (some (⟨a, b⟩, fl))
  | .ok (some _) => .panic

end Ark.Bytes
