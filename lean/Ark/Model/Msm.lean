import Ark.Model.Limbs
/-
  Ark.Model.Msm — property C05: variable-base multi-scalar multiplication.

  Transcription of (serial code paths only)
    ec/src/scalar_mul/mod.rs                         `ln_without_floats`
    ec/src/scalar_mul/variable_base/mod.rs           `VariableBaseMSM::{msm, msm_unchecked, msm_bigint, msm_chunks}`,
                                                     private `msm_bigint_wnaf`, `msm_bigint`, `make_digits`
    ec/src/scalar_mul/variable_base/stream_pippenger.rs   `ChunkedPippenger`, `HashMapPippenger`
  (`SWCurveConfig::msm` / `TECurveConfig::msm`, through which `Projective::msm` is routed, have the same
  body as the trait default `VariableBaseMSM::msm` and are covered by `msm` below.)

  The algorithms are generic in the group; the model is written over core operator classes
  `[Add G] [Neg G] [Sub G] [Zero G]`:
      `x += b`  ↦ `x + b`      `x -= b` ↦ `x - b`      `x.double_in_place()` ↦ `x + x`.
  Mixed additions `Projective += &Affine` are additions of the denoted group elements (C03).
  Big integers are little-endian lists of `u64` limbs (`Ark.Model.Limbs`), scalar-field elements are
  their standard representatives `k < r` (`into_bigint` = `toLimbs N k`; the Montgomery form is C01).

  Rust panics are explicit (`Outcome.panic`): slice indexing, `.unwrap()`, `assert!`, `div_ceil(0)`.
  `u64`/`i64` arithmetic inside `make_digits` is modelled on `Nat`/`Int` and is exact (no wrap-around)
  for window sizes `1 ≤ w ≤ 62`; the code only ever uses `w = c ≤ ln(2^64)+2 = 46`. `w ≥ 63` is outside
  the model (the Rust behaviour there depends on overflow checks).
-/
namespace Ark.Msm
open Ark

/-! ## `Outcome` plumbing -/

@[inline] def obind {α β : Type} (x : Outcome α) (f : α → Outcome β) : Outcome β :=
  match x with
  | .ok a => f a
  | .panic => .panic

scoped instance : Monad Outcome where
  pure := .ok
  bind := obind

/-- `slice[i]` / `.unwrap()` -/
@[inline] def ofOption {α : Type} : Option α → Outcome α
  | some a => .ok a
  | none => .panic

/-- `iter.map(f).collect()` where `f` may panic; accumulator form (the lists can be long) -/
def omapMGo {α β : Type} (f : α → Outcome β) : List α → List β → Outcome (List β)
  | [], acc => .ok acc.reverse
  | a :: as, acc => obind (f a) fun b => omapMGo f as (b :: acc)

def omapM {α β : Type} (f : α → Outcome β) (l : List α) : Outcome (List β) := omapMGo f l []

/-- `slice.chunks(k)` (for `k > 0`; `fuel ≥` number of chunks), accumulator form -/
def chunksGo {α : Type} (k : Nat) : Nat → List α → List (List α) → List (List α)
  | 0, _, acc => acc.reverse
  | fuel + 1, l, acc => if l.isEmpty then acc.reverse else chunksGo k fuel (l.drop k) (l.take k :: acc)

def chunksOf {α : Type} (k : Nat) (l : List α) : List (List α) := chunksGo k l.length l []

/-! ## window-size rule -/

/-- `ark_std::log2`: `0 ↦ 0`, powers of two ↦ exponent, everything else ↦ `⌊log2 x⌋ + 1` -/
def log2 (x : Nat) : Nat :=
  if x = 0 then 0
  else if x = 2 ^ Nat.log2 x then Nat.log2 x      -- `x.is_power_of_two()`
  else Nat.log2 x + 1

/-- `ln_without_floats`: `(log2(a) * 69 / 100) as usize` -/
def lnWithoutFloats (a : Nat) : Nat := log2 a * 69 / 100

/-- `let c = if size < 32 { 3 } else { ln_without_floats(size) + 2 };` -/
def windowSize (size : Nat) : Nat := if size < 32 then 3 else lnWithoutFloats size + 2

/-- `usize::div_ceil` (for a non-zero divisor) -/
def divCeil (a b : Nat) : Nat := (a + b - 1) / b

/-! ## `make_digits` -/

/-- the bit buffer read at digit `i`:
    ```
    let bit_offset = i * w; let u64_idx = bit_offset / 64; let bit_idx = bit_offset % 64;
    let bit_buf = if bit_idx < 64 - w || u64_idx == scalar.len() - 1 { scalar[u64_idx] >> bit_idx }
                  else { (scalar[u64_idx] >> bit_idx) | (scalar[1 + u64_idx] << (64 - bit_idx)) };
    ``` -/
def bitBuf (scalar : List Nat) (w i : Nat) : Outcome Nat :=
  let bitOffset := i * w
  let u64Idx := bitOffset / 64
  let bitIdx := bitOffset % 64
  if bitIdx < 64 - w ∨ u64Idx = scalar.length - 1 then
    obind (ofOption scalar[u64Idx]?) fun l => .ok (l >>> bitIdx)
  else
    obind (ofOption scalar[u64Idx]?) fun l =>
    obind (ofOption scalar[u64Idx + 1]?) fun h =>
    .ok ((l >>> bitIdx) ||| ((h <<< (64 - bitIdx)) % B))

/-- body of the closure `(0..digits_count).map(move |i| …)`; the captured `carry` is threaded.
    ```
    let coef = carry + (bit_buf & window_mask);
    carry = (coef + radix / 2) >> w;
    let mut digit = (coef as i64) - (carry << w) as i64;
    if i == digits_count - 1 { digit += (carry << w) as i64; }
    ``` -/
def digitStep (scalar : List Nat) (w digitsCount i carry : Nat) : Outcome (Int × Nat) :=
  let radix := 1 <<< w
  let windowMask := radix - 1
  obind (bitBuf scalar w i) fun bb =>
  let coef := carry + (bb &&& windowMask)
  let carry' := (coef + radix / 2) >>> w
  let digit : Int := (coef : Int) - ((carry' <<< w : Nat) : Int)
  let digit : Int := if i = digitsCount - 1 then digit + ((carry' <<< w : Nat) : Int) else digit
  .ok (digit, carry')

/-- `fuel` = number of digits still to be produced -/
def makeDigitsLoop (scalar : List Nat) (w digitsCount : Nat) : Nat → Nat → Nat → Outcome (List Int)
  | 0, _, _ => .ok []
  | fuel + 1, i, carry =>
    obind (digitStep scalar w digitsCount i carry) fun dc =>
    obind (makeDigitsLoop scalar w digitsCount fuel (i + 1) dc.2) fun ds =>
    .ok (dc.1 :: ds)

/-- `make_digits(a, w, num_bits)` collected into a `Vec` (as `flat_map … collect` does).
    `num_bits.div_ceil(0)` panics. -/
def makeDigits (scalar : List Nat) (w numBits : Nat) : Outcome (List Int) :=
  if w = 0 then .panic
  else
    let numBits := if numBits = 0 then Ark.numBits scalar else numBits
    let digitsCount := divCeil numBits w
    makeDigitsLoop scalar w digitsCount digitsCount 0 0

/-! ## buckets, running sums, window combination (group-generic) -/

section Group
variable {G : Type} [Add G] [Neg G] [Sub G] [Zero G]

/-- `buckets[j] = f(buckets[j])`, `none` = index out of bounds -/
def modifyAt (f : G → G) : List G → Nat → Option (List G)
  | [], _ => none
  | b :: bs, 0 => some (f b :: bs)
  | b :: bs, j + 1 => (modifyAt f bs j).map (b :: ·)

/-- ```
    let mut running_sum = V::zero();
    buckets.into_iter().rev().for_each(|b| { running_sum += &b; res += &running_sum; });
    ``` returns the final `res` (started at `res0`) -/
def runningSum (res0 : G) (buckets : List G) : G :=
  (buckets.reverse.foldl (fun (st : G × G) b => let r := st.1 + b; (r, st.2 + r)) ((0 : G), res0)).2

/-- `for _ in 0..c { total.double_in_place(); }` -/
def dblN (c : Nat) (x : G) : G := iter (fun t => t + t) c x

/-- ```
    let lowest = *window_sums.first().unwrap();
    lowest + &window_sums[1..].iter().rev().fold(zero, |mut total, sum_i| {
        total += sum_i; for _ in 0..c { total.double_in_place(); } total })
    ``` -/
def combine (c : Nat) (windowSums : List G) : Outcome G :=
  match windowSums with
  | [] => .panic
  | lowest :: rest => .ok (lowest + rest.reverse.foldl (fun total s => dblN c (total + s)) (0 : G))

/-! ### signed-digit method: `msm_bigint_wnaf` -/

/-- the bucket-filling loop of window `i`:
    ```
    for (digits, base) in scalar_digits.chunks(digits_count).zip(bases) {
        let scalar = digits[i];
        match 0.cmp(&scalar) {
            Less => buckets[(scalar - 1) as usize] += base,
            Greater => buckets[(-scalar - 1) as usize] -= base,
            Equal => (),
    } }
    ``` -/
def wnafFill (i : Nat) : List G → List (List Int × G) → Outcome (List G)
  | buckets, [] => .ok buckets
  | buckets, (digits, base) :: rest =>
    obind (ofOption digits[i]?) fun scalar =>
    if 0 < scalar then
      obind (ofOption (modifyAt (· + base) buckets (scalar - 1).toNat)) fun bs => wnafFill i bs rest
    else if scalar < 0 then
      obind (ofOption (modifyAt (· - base) buckets (-scalar - 1).toNat)) fun bs => wnafFill i bs rest
    else wnafFill i buckets rest

/-- one entry of `window_sums` of the signed-digit method -/
def wnafWindow (c i : Nat) (pairs : List (List Int × G)) : Outcome G :=
  obind (wnafFill i (List.replicate (1 <<< c) (0 : G)) pairs) fun buckets =>
  .ok (runningSum (0 : G) buckets)

/-- `msm_bigint_wnaf::<V>(bases, bigints)`; `numBits = V::ScalarField::MODULUS_BIT_SIZE` -/
def msmBigintWnaf (numBits : Nat) (bases : List G) (bigints : List (List Nat)) : Outcome G :=
  let size := min bases.length bigints.length
  let scalars := bigints.take size
  let bases := bases.take size
  let c := windowSize size
  let digitsCount := divCeil numBits c
  obind (omapM (fun s => makeDigits s c numBits) scalars) fun ds =>
  let scalarDigits := ds.flatten
  -- `scalar_digits.chunks(digits_count)` is only evaluated inside the per-window closure
  let pairs := (chunksOf digitsCount scalarDigits).zip bases
  obind (omapM (fun i => wnafWindow c i pairs) (List.range digitsCount)) fun windowSums =>
  combine c windowSums

/-! ### plain bucket method: private `msm_bigint` -/

/-- the `for_each` over the non-zero `(scalar, base)` pairs in window `w_start`; state `(res, buckets)`:
    ```
    if scalar == one { if w_start == 0 { res += base; } }
    else { let mut scalar = scalar; scalar >>= w_start as u32;
           let scalar = scalar.as_ref()[0] % (1 << c);
           if scalar != 0 { buckets[(scalar - 1) as usize] += base; } }
    ``` -/
def plainFill (c wStart : Nat) (one : List Nat) : G → List G → List (List Nat × G) → Outcome (G × List G)
  | res, buckets, [] => .ok (res, buckets)
  | res, buckets, (scalar, base) :: rest =>
    if scalar = one then
      if wStart = 0 then plainFill c wStart one (res + base) buckets rest
      else plainFill c wStart one res buckets rest
    else
      obind (ofOption (shr scalar wStart)[0]?) fun l0 =>
      let s := l0 % (1 <<< c)
      if s ≠ 0 then
        obind (ofOption (modifyAt (· + base) buckets (s - 1))) fun bs => plainFill c wStart one res bs rest
      else plainFill c wStart one res buckets rest

/-- one entry of `window_sums` of the plain method (`res` keeps the unit-scalar sum of window 0) -/
def plainWindow (c wStart : Nat) (one : List Nat) (pairs : List (List Nat × G)) : Outcome G :=
  obind (plainFill c wStart one (0 : G) (List.replicate ((1 <<< c) - 1) (0 : G)) pairs) fun st =>
  .ok (runningSum st.1 st.2)

/-- `(0..num_bits).step_by(c).collect()` -/
def windowStarts (numBits c : Nat) : List Nat := (List.range (divCeil numBits c)).map (· * c)

/-- private `msm_bigint::<V>(bases, bigints)` (plain buckets);
    `one = V::ScalarField::one().into_bigint()` -/
def msmBigintPlain (numBits : Nat) (one : List Nat) (bases : List G) (bigints : List (List Nat)) : Outcome G :=
  let size := min bases.length bigints.length
  let scalars := bigints.take size
  let bases := bases.take size
  let pairs := (scalars.zip bases).filter (fun sb => !isZero sb.1)
  let c := windowSize size
  obind (omapM (fun wStart => plainWindow c wStart one pairs) (windowStarts numBits c)) fun windowSums =>
  combine c windowSums

/-! ### the public entry points -/

/-- what the algorithms need to know about `V::ScalarField` and `V`:
    modulus `r`, limb count `N` of its `BigInt`, and `V::NEGATION_IS_CHEAP` -/
structure Cfg where
  r : Nat
  limbs : Nat
  negCheap : Bool

/-- `ScalarField::MODULUS_BIT_SIZE = MODULUS.const_num_bits()`, i.e.
    `((N - 1) * 64) as u32 + (64 - self.0[N - 1].leading_zeros())`: the bit length of `r` when the top limb of the
    modulus is non-zero, and `64·(N−1)` for a (hand-written) configuration with more limbs than `r` needs -/
def Cfg.numBits (cfg : Cfg) : Nat := (cfg.limbs - 1) * 64 + bitLen ((toLimbs cfg.limbs cfg.r).getLastD 0)
/-- `s.into_bigint()` of the element with standard representative `s` -/
def Cfg.intoBigint (cfg : Cfg) (s : Nat) : List Nat := toLimbs cfg.limbs s
/-- `ScalarField::one().into_bigint()` -/
def Cfg.one (cfg : Cfg) : List Nat := toLimbs cfg.limbs (1 % cfg.r)

/-- `VariableBaseMSM::msm_bigint` -/
def msmBigint (cfg : Cfg) (bases : List G) (bigints : List (List Nat)) : Outcome G :=
  if cfg.negCheap then msmBigintWnaf cfg.numBits bases bigints
  else msmBigintPlain cfg.numBits cfg.one bases bigints

/-- `VariableBaseMSM::msm_unchecked` -/
def msmUnchecked (cfg : Cfg) (bases : List G) (scalars : List Nat) : Outcome G :=
  msmBigint cfg bases (scalars.map cfg.intoBigint)

/-- `VariableBaseMSM::msm` (and `SWCurveConfig::msm`): `Err(min(len))` on a length mismatch -/
def msm (cfg : Cfg) (bases : List G) (scalars : List Nat) : Outcome (Except Nat G) :=
  if bases.length = scalars.length then
    obind (msmUnchecked cfg bases scalars) fun g => .ok (.ok g)
  else .ok (.error (min bases.length scalars.length))

/-- the `for _ in 0..scalars_stream.len().div_ceil(step)` loop of `msm_chunks`; `bases`/`scalars` are the
    not yet consumed parts of the two iterators -/
def msmChunksLoop (cfg : Cfg) (step : Nat) : Nat → List G → List Nat → G → Outcome G
  | 0, _, _, result => .ok result
  | n + 1, bases, scalars, result =>
    obind (msmBigint cfg (bases.take step) ((scalars.take step).map cfg.intoBigint)) fun r =>
    msmChunksLoop cfg step n (bases.drop step) (scalars.drop step) (result + r)

/-- `msm_chunks` with the chunk size as a parameter.  `assert!(scalars_stream.len() <= bases_stream.len())`,
    then the first `bases.len() - scalars.len()` bases are skipped ("align the streams"). -/
def msmChunksWith (step : Nat) (cfg : Cfg) (bases : List G) (scalars : List Nat) : Outcome G :=
  if scalars.length > bases.length then .panic
  else
    msmChunksLoop cfg step (divCeil scalars.length step)
      (bases.drop (bases.length - scalars.length)) scalars (0 : G)

/-- `VariableBaseMSM::msm_chunks` (`let step: usize = 1 << 20;`) -/
def msmChunks (cfg : Cfg) (bases : List G) (scalars : List Nat) : Outcome G :=
  msmChunksWith (1 <<< 20) cfg bases scalars

/-! ## `ChunkedPippenger` -/

structure Chunked (G : Type) where
  scalarsBuffer : List (List Nat)
  basesBuffer : List G
  result : G
  bufSize : Nat

/-- `ChunkedPippenger::new(max_msm_buffer)` and `::with_size(buf_size)` (identical bodies) -/
def Chunked.new (bufSize : Nat) : Chunked G := ⟨[], [], 0, bufSize⟩

/-- `ChunkedPippenger::add(base, scalar)` (scalar is a `BigInt`) -/
def Chunked.add (cfg : Cfg) (s : Chunked G) (base : G) (scalar : List Nat) : Outcome (Chunked G) :=
  let scalars := s.scalarsBuffer ++ [scalar]
  let bases := s.basesBuffer ++ [base]
  if scalars.length = s.bufSize then
    obind (msmBigint cfg bases scalars) fun r =>
    .ok { s with scalarsBuffer := [], basesBuffer := [], result := s.result + r }
  else .ok { s with scalarsBuffer := scalars, basesBuffer := bases }

/-- `ChunkedPippenger::finalize` -/
def Chunked.finalize (cfg : Cfg) (s : Chunked G) : Outcome G :=
  if !s.scalarsBuffer.isEmpty then
    obind (msmBigint cfg s.basesBuffer s.scalarsBuffer) fun r => .ok (s.result + r)
  else .ok s.result

/-- a whole history: `new`, the given `add`s in order, `finalize` -/
def Chunked.run (cfg : Cfg) (bufSize : Nat) (adds : List (G × List Nat)) : Outcome G :=
  let rec go : Chunked G → List (G × List Nat) → Outcome G
    | s, [] => s.finalize cfg
    | s, (b, k) :: rest => obind (s.add cfg b k) fun s' => go s' rest
  go (Chunked.new bufSize) adds

/-! ## `HashMapPippenger`
  The `hashbrown::HashMap<MulBase, ScalarField>` is an association list in insertion order. The real
  iteration order (`keys()` / `values()`, consistent with each other) is some permutation of it; it only
  feeds `msm_bigint`, whose value does not depend on the order of the pairs in a commutative group. -/

structure HashMapAcc (G : Type) where
  buffer : List (G × Nat)
  result : G
  bufSize : Nat

/-- `HashMapPippenger::new(max_msm_buffer)` -/
def HashMapAcc.new (bufSize : Nat) : HashMapAcc G := ⟨[], 0, bufSize⟩

/-- `*buffer.entry(base).or_insert(ScalarField::zero()) += scalar` (addition in `F_r`) -/
def upsert [DecidableEq G] (r : Nat) (base : G) (scalar : Nat) : List (G × Nat) → List (G × Nat)
  | [] => [(base, (0 + scalar) % r)]
  | (b, v) :: rest => if b = base then (b, (v + scalar) % r) :: rest else (b, v) :: upsert r base scalar rest

/-- `HashMapPippenger::add(base, scalar)` (scalar is a field element) -/
def HashMapAcc.add [DecidableEq G] (cfg : Cfg) (s : HashMapAcc G) (base : G) (scalar : Nat) :
    Outcome (HashMapAcc G) :=
  let buffer := upsert cfg.r base scalar s.buffer
  if buffer.length = s.bufSize then
    obind (msmBigint cfg (buffer.map (·.1)) (buffer.map (fun e => cfg.intoBigint e.2))) fun r =>
    .ok { s with buffer := [], result := s.result + r }
  else .ok { s with buffer := buffer }

/-- `HashMapPippenger::finalize` -/
def HashMapAcc.finalize (cfg : Cfg) (s : HashMapAcc G) : Outcome G :=
  if !s.buffer.isEmpty then
    obind (msmBigint cfg (s.buffer.map (·.1)) (s.buffer.map (fun e => cfg.intoBigint e.2))) fun r =>
    .ok (s.result + r)
  else .ok s.result

def HashMapAcc.run [DecidableEq G] (cfg : Cfg) (bufSize : Nat) (adds : List (G × Nat)) : Outcome G :=
  let rec go : HashMapAcc G → List (G × Nat) → Outcome G
    | s, [] => s.finalize cfg
    | s, (b, k) :: rest => obind (s.add cfg b k) fun s' => go s' rest
  go (HashMapAcc.new bufSize) adds

end Group
end Ark.Msm
