import Ark.Model.Bytes
import Ark.Model.BytesSqrt
import Ark.Model.Proto
/-
  Driver dispatch for C09 (round trip / size / uniqueness) and C10 (malformed input):
  `<op> args…` with the implementation's output → (model output, verdict).

  Line formats (harness: `src/serial_common.rs`):
    FD = `<p> <N> <tower>`      CD = `sw FD <a> <b> <r> <h1>` | `te FD <a> <d> <r> <h1>`
    C09 frt    FD <c|u> <y|n> <x>              => <bytes>;<size>;<de>;<consumed>   (de reads bytes ++ [a5,5a])
    C09 fflrt  FD <flagty> <flag> <x>          => <bytes>;<size>;<de>;<consumed>
    C09 funiq  FD <flagty> <bytes>             => <de>;<consumed>;<re-serialised | ->
    C09 frb    FD <flagty> <bytes>             => some <x> <flag> | none
    C09 prt    CD <aff|proj> <c|u> <y|n> <P>   => <bytes>;<size>;<de>;<consumed>
    C09 toflags / signflag / flagu8 / flagconst / prb / prbrt : see the section "flags of a point …" below
    C09 pwfail CD <aff|proj> <c|u> <e|z> <k> <P> => ok <bytes> | err:io <bytes>   (writer that takes k bytes, then fails)
    C10 mfde   FD <c|u> <y|n> <bytes>          => <de>;<consumed>
    C10 mfdefl FD <flagty> <bytes>             => <de>;<consumed>
    C10 mpde   CD <aff|proj> <c|u> <y|n> <bytes> => <de>;<consumed>
    C10 pchk   CD <aff|proj> <P>                 => ok | err:invalid      (`Valid::check`)
    C10 pbchk  CD <aff|proj> <P1;P2;…>           => ok | err:invalid      (`Valid::batch_check`, `_` = empty)
  with FD's tower `_`, `2`, `3`, `3.2`, `2.3.2` for field lines; in a CD the tower is `_` or `2:<β>`
  (coordinates in `Fp[u]/(u² − β)`), and `<h1>` is `0`/`1` (default subgroup test, `cofactor_is_one`) or
  `g2:<X>:<neg>:<K0.c1>:<K1.c0>:<K1.c1>` (the test of `ark_test_curves::bls12_381::g2`).

  The verdicts use an independently written description of the format (`specDecode`, `encStrict`,
  `decConsistent`: one little-endian integer per coordinate, flag bits in the top bits of the last
  byte, sign rule `y ≤ −y` / `x ≤ −x` on integers) and the spec-level groups `Ark.AffPt` /
  `teSmul`; they never call the model's (de)serialisers.
-/
namespace Ark.DrvC09
open Ark Ark.Proto Ark.Bytes

/-! ## parsing / printing -/

def trail : List Nat := [0xa5, 0x5a]

def parseTower (s : String) : Option Tower :=
  if s == "_" then some .base
  else (s.splitOn ".").foldr (fun d acc => match acc, d with
    | some t, "2" => some (.quad t)
    | some t, "3" => some (.cubic t)
    | _, _ => none) (some .base)

def ofCoeffs {p : Nat} : Tower → List Nat → Option (ExtV p × List Nat)
  | .base, x :: xs => some (.base ⟨x⟩, xs)
  | .base, [] => none
  | .quad t, xs => do
    let (a, r) ← ofCoeffs t xs
    let (b, r) ← ofCoeffs t r
    pure (.quad a b, r)
  | .cubic t, xs => do
    let (a, r) ← ofCoeffs t xs
    let (b, r) ← ofCoeffs t r
    let (c, r) ← ofCoeffs t r
    pure (.cubic a b c, r)

def toCoeffs {p : Nat} : ExtV p → List Nat
  | .base x => [x.val]
  | .quad a b => toCoeffs a ++ toCoeffs b
  | .cubic a b c => toCoeffs a ++ toCoeffs b ++ toCoeffs c

def parseExt (p : Nat) (t : Tower) (s : String) : Option (ExtV p) := do
  let cs ← parseList? s
  match ofCoeffs (p := p) t cs with
  | some (v, []) => some v
  | _ => none

def extStr {p : Nat} (v : ExtV p) : String := hexList (toCoeffs v)

def errStr : Err → String
  | .io => "err:io" | .invalid => "err:invalid" | .notenough => "err:notenough" | .flags => "err:flags"

def parseCompress (s : String) : Option Compress :=
  if s == "c" then some .yes else if s == "u" then some .no else none
def parseValidate (s : String) : Option Validate :=
  if s == "y" then some .yes else if s == "n" then some .no else none

/-- run `k` at the flag type named on the line -/
def flagDispatch {α : Type} (name : String) (k : (Fl : Type) → [Flags Fl] → α) : Option α :=
  match name with
  | "E" => some (k EmptyFlags)
  | "S" => some (k SWFlags)
  | "T" => some (k TEFlags)
  | "W3" => some (k (WFlags 3))
  | "W8" => some (k (WFlags 8))
  | "W9" => some (k (WFlags 9))
  | _ => none

def flagStr {Fl : Type} [Flags Fl] (f : Fl) : String := hex (Flags.u8Bitmask f % 256)

/-- `<de>;<consumed>` of a deserialiser run -/
def deStr {α : Type} (show_ : α → String) : R α → String
  | .ok a s => "ok " ++ show_ a ++ ";" ++ hex s.used
  | .err e s => errStr e ++ ";" ++ hex s.used
  | .panic => "panic"

/-- `<bytes>;<size>;<de>;<consumed>` of a round trip -/
def rtStr {α : Type} (ser : Res (List Nat)) (size : Nat) (de : List Nat → R α) (show_ : α → String) : String :=
  match ser with
  | .panic => "panic"
  | .err e => errStr e
  | .ok bytes =>
    match de (bytes ++ trail) with
    | .panic => "panic"
    | r => hexList bytes ++ ";" ++ hex size ++ ";" ++ deStr show_ r

/-! ## the independent description of the format -/

def ceil8 (n : Nat) : Nat := (n + 7) / 8

/-- advertised size of an element of a degree-`k` tower carrying `f` flag bits -/
def specSize (bits f k : Nat) : Nat := (k - 1) * ceil8 bits + ceil8 (bits + f)

/-- number denoted by little-endian bytes -/
def leNat (bs : List Nat) : Nat := bs.foldr (fun b acc => b + 256 * acc) 0

inductive SpecDec
  | short                               -- fewer bytes than the advertised size
  | nonreduced                          -- some coordinate ≥ p (includes stray bits above the modulus)
  | ok (coeffs : List Nat) (flagBits : Nat)
  deriving Repr

/-- first `k - 1` coordinates: `⌈bits/8⌉` bytes each, an integer `< p`;
    last coordinate: `⌈(bits+f)/8⌉` bytes, flag = top `f` bits of the last byte, the rest an integer `< p` -/
def specDecode (p bits f k : Nat) (bs : List Nat) : SpecDec :=
  let s0 := ceil8 bits
  let sl := ceil8 (bits + f)
  if bs.length < (k - 1) * s0 + sl then .short else
  let coords := (List.range (k - 1)).map (fun i => leNat ((bs.drop (i * s0)).take s0))
  let lastN := leNat ((bs.drop ((k - 1) * s0)).take sl)
  let flagBits := lastN / 2 ^ (8 * sl - f)
  let lastInt := lastN % 2 ^ (8 * sl - f)
  if coords.all (· < p) && lastInt < p then .ok (coords ++ [lastInt]) flagBits else .nonreduced

/-- which flag-bit patterns are flags (only `SWFlags` has an invalid pattern: both bits set) -/
def specFlagOk (name : String) (flagBits : Nat) : Bool :=
  if name == "S" then flagBits != 3 else true

def flagWidth (name : String) : Nat :=
  match name with
  | "E" => 0 | "S" => 2 | "T" => 1 | "W3" => 3 | "W8" => 8 | "W9" => 9 | _ => 0

/-- `y ≤ −y` on canonical integers -/
def signPos (p y : Nat) : Bool := y == 0 || y ≤ p - y

/-! ## field ops -/

structure FieldCtx where
  c : FpCfg
  t : Tower

def parseFD (p n t : String) : Option FieldCtx := do
  let p ← parseHex? p
  let n ← parseHex? n
  let t ← parseTower t
  some ⟨⟨p, n⟩, t⟩

def showExtFl {p : Nat} {Fl : Type} [Flags Fl] (v : ExtV p × Fl) : String := extStr v.1 ++ " " ++ flagStr v.2

/-- expected `<de>;<consumed>` of reading back a correct encoding of `coeffs` with flag byte mask `mask` -/
def wantDe (coeffs : List Nat) (mask : Option Nat) (size : Nat) : String :=
  "ok " ++ hexList coeffs ++ (match mask with | some m => " " ++ hex m | none => "") ++ ";" ++ hex size

/-- verdict of a round-trip line `<bytes>;<size>;<de>;<consumed>` for a field element -/
def judgeFieldRt (F : FieldCtx) (fname : String) (withFlag : Bool) (mask : Nat) (coeffs : List Nat) (impl : String) : String :=
  let f := flagWidth fname
  if f > 8 then (if impl == "err:notenough" then "ok" else "bad:want=err:notenough") else
  if impl == "panic" then "bad:panic" else
  match impl.splitOn ";" with
  | [bs, size, de, used] =>
    match parseList? bs, parseHex? size with
    | some bytes, some size =>
      let k := F.t.degree
      if size != specSize F.c.bits f k then "bad:size-formula"
      else if bytes.length != size then "bad:size-mismatch"
      else match specDecode F.c.p F.c.bits f k bytes with
        | .ok cs fb =>
          if cs != coeffs then "bad:bytes-value"
          else if fb * 2 ^ (8 - f) != mask then "bad:bytes-flag"
          else
            let want := wantDe coeffs (if withFlag then some mask else none) size
            if de ++ ";" ++ used == want then "ok" else "bad:want-de=" ++ want
        | _ => "bad:bytes-not-canonical"
    | _, _ => "bad:parse"
  | _ => "bad:" ++ impl

def runFrt (F : FieldCtx) (cm : Compress) (vd : Validate) (xs : String) (impl : String) : Option (String × String) := do
  let x ← parseExt F.c.p F.t xs
  let m := rtStr (extSer F.c x cm) (extSize F.c F.t cm) (runM (extDe F.c F.t cm vd)) extStr
  some (m, judgeFieldRt F "E" false 0 (toCoeffs x) impl)

def runFflrt (F : FieldCtx) (fname : String) (mask : Nat) (xs : String) (impl : String) : Option (String × String) := do
  let x ← parseExt F.c.p F.t xs
  let m ← flagDispatch fname (fun Fl _ =>
    match Flags.fromU8 (Fl := Fl) mask with
    | none => "bad-flag"
    | some fl => rtStr (extSerFlags F.c Fl x fl) (extSizeFlags F.c Fl F.t) (runM (extDeFlags F.c Fl F.t)) showExtFl)
  some (m, judgeFieldRt F fname true mask (toCoeffs x) impl)

/-- uniqueness: `<de>;<consumed>;<re-serialised>` -/
def runFuniq (F : FieldCtx) (fname : String) (bs : List Nat) (impl : String) : Option (String × String) := do
  let m ← flagDispatch fname (fun Fl _ =>
    match runM (extDeFlags F.c Fl F.t) bs with
    | .panic => "panic"
    | .err e s => errStr e ++ ";" ++ hex s.used ++ ";-"
    | .ok (x, fl) s =>
      "ok " ++ showExtFl (x, fl) ++ ";" ++ hex s.used ++ ";" ++
        (match extSerFlags F.c Fl x fl with
         | .ok b => hexList b
         | .err e => errStr e
         | .panic => "panic"))
  let f := flagWidth fname
  let k := F.t.degree
  let size := specSize F.c.bits f k
  let verdict :=
    if impl == "panic" then "bad:panic"
    else if f > 8 then
      -- `BIT_SIZE > 8`: refused (an extension reads its leading coordinates first, so a short input is an io error)
      (if impl.startsWith "err:notenough;" || (impl.startsWith "err:io;" && bs.length < (k - 1) * ceil8 F.c.bits) then "ok"
       else "bad:want=err:notenough")
    else match impl.splitOn ";" with
      | [de, used, re] =>
        let spec := specDecode F.c.p F.c.bits f k bs
        if de.startsWith "ok " then
          -- accepted: must re-serialise to exactly the bytes that were read, and be what the format says
          if used != hex size then "bad:consumed"
          else if re != hexList (bs.take size) then "bad:nonunique"
          else match spec with
            | .ok cs fb =>
              if specFlagOk fname fb && de == "ok " ++ hexList cs ++ " " ++ hex (fb * 2 ^ (8 - f)) then "ok" else "bad:value"
            | _ => "bad:accepted-noncanonical"
        else
          -- rejected: the format must say so too
          match spec with
          | .ok _ fb => if specFlagOk fname fb then "bad:rejected-canonical" else (if de == "err:flags" then "ok" else "bad:want=err:flags")
          | .short => if de == "err:io" then "ok" else "bad:want=err:io"
          | .nonreduced => if de == "err:invalid" || de == "err:flags" then "ok" else "bad:want=err:invalid"
      | _ => "bad:" ++ impl
  some (m, verdict)

def runFrb (F : FieldCtx) (fname : String) (bs : List Nat) (impl : String) : Option (String × String) := do
  let m ← flagDispatch fname (fun Fl _ =>
    match extFromRandomBytesFlags F.c Fl F.t bs with
    | .panic => "panic"
    | .ok none => "none"
    | .ok (some v) => "some " ++ showExtFl v)
  let verdict :=
    if impl == "panic" then "bad:panic"
    else if impl == "none" then "ok"
    else match impl.splitOn " " with
      | ["some", cs, _] =>
        match parseList? cs with
        | some cs => if cs.length == F.t.degree && cs.all (· < F.c.p) then "ok" else "bad:range"
        | none => "bad:parse"
      | _ => "bad:" ++ impl
  some (m, verdict)

/-- C10 verdict on `<de>;<consumed>` for field elements: no panic, at most the advertised size is read,
    exactly that much on success, a short input is an io error, returned coefficients are `< p` -/
def judgeFieldMal (F : FieldCtx) (f : Nat) (bs : List Nat) (impl : String) : String :=
  if impl == "panic" then "bad:panic" else
  if f > 8 then
    (if impl.startsWith "err:notenough;" || (impl.startsWith "err:io;" && bs.length < (F.t.degree - 1) * ceil8 F.c.bits) then "ok"
     else "bad:want=err:notenough") else
  let size := specSize F.c.bits f F.t.degree
  match impl.splitOn ";" with
  | [de, used] =>
    match parseHex? used with
    | none => "bad:parse"
    | some used =>
      if used > size then "bad:read-past-size"
      else if bs.length < size then (if de.startsWith "err:" then "ok" else "bad:want=err")
      else if de.startsWith "ok " then
        if used != size then "bad:consumed"
        else match (de.drop 3).toString.splitOn " " with
          | cs :: _ =>
            match parseList? cs with
            | some cs => if cs.length == F.t.degree && cs.all (· < F.c.p) then "ok" else "bad:range"
            | none => "bad:parse"
          | _ => "bad:parse"
      else if de.startsWith "err:" then "ok"
      else "bad:" ++ impl
  | _ => "bad:" ++ impl

def runMfde (F : FieldCtx) (cm : Compress) (vd : Validate) (bs : List Nat) (impl : String) : Option (String × String) :=
  some (deStr extStr (runM (extDe F.c F.t cm vd) bs), judgeFieldMal F 0 bs impl)

def runMfdefl (F : FieldCtx) (fname : String) (bs : List Nat) (impl : String) : Option (String × String) := do
  let m ← flagDispatch fname (fun Fl _ => deStr showExtFl (runM (extDeFlags F.c Fl F.t) bs))
  some (m, judgeFieldMal F (flagWidth fname) bs impl)

/-! ## point ops, generic in the coordinate field (`Fp p` or the spec-level `Fp2 p β`) -/

/-- what the driver needs to know about a coordinate field -/
structure Kit (F : Type) where
  c : FpCfg
  /-- extension degree -/
  k : Nat
  codec : Codec F
  toCoeffs : F → List Nat
  ofCoeffs : List Nat → Option F
  /-- spec: `r • (x, y) = O` in the group of `y² = x³ + a·x + b` -/
  swKills : (a b : F) → (r : Nat) → (x y : F) → Bool
  /-- curve-specific subgroup tests announced on the line (`g2:…`) -/
  fastSub : (a : F) → String → Option (SWAff F → Bool)

def kitFp (c : FpCfg) : Kit (Fp c.p) where
  c := c
  k := 1
  -- `sqrt` through the C11 model (`Ark.Model.BytesSqrt`): the dictionary the theorems of C09b are about
  codec := fpCodecV c
  toCoeffs x := [x.val]
  ofCoeffs cs := match cs with | [x] => some ⟨x⟩ | _ => none
  swKills a b r x y := (AffPt.smul (p := c.p) (E := ⟨a, b⟩) r ⟨some (x, y)⟩).pt.isNone
  fastSub _ _ := none

/-- `g2:<X>:<neg>:<K0.c1>:<K1.c0>:<K1.c1>` -/
def parseG2 {p β : Nat} (a : Fp2 p β) (s : String) : Option (SWAff (Fp2 p β) → Bool) :=
  match s.splitOn ":" with
  | ["g2", x, neg, k0c1, k1c0, k1c1] => do
    let x ← parseHex? x
    let neg ← parseHex? neg
    let k0c1 ← parseHex? k0c1
    let k1c0 ← parseHex? k1c0
    let k1c1 ← parseHex? k1c1
    some (g2InSubgroup a x (neg == 1) ⟨k0c1⟩ ⟨⟨k1c0⟩, ⟨k1c1⟩⟩)
  | _ => none

def kitFp2 (c : FpCfg) (β : Nat) : Kit (Fp2 c.p β) where
  c := c
  k := 2
  -- `sqrt` = C11's `QuadExtField::sqrt` (`Ark.Model.BytesSqrt`)
  codec := fp2CodecV c β
  toCoeffs x := [x.c0.val, x.c1.val]
  ofCoeffs cs := match cs with | [a, b] => some ⟨⟨a⟩, ⟨b⟩⟩ | _ => none
  swKills a _ r x y := (gSmul a r (some (x, y))).isNone
  fastSub a s := parseG2 a s

section generic
variable {F : Type} [Add F] [Sub F] [Mul F] [Neg F] [Zero F] [One F] [Inv F] [DecidableEq F]

structure Curve (F : Type) where
  te : Bool
  a : F
  b : F            -- `b` (SW) or `d` (TE)
  r : Nat
  h1 : Bool
  /-- overriding subgroup test (SW) -/
  sub : Option (SWAff F → Bool)

def parseF (K : Kit F) (s : String) : Option F := do
  let cs ← parseList? s
  K.ofCoeffs cs

def fStr (K : Kit F) (x : F) : String := hexList (K.toCoeffs x)

def parseCurve (K : Kit F) (kind a b r h1 : String) : Option (Curve F) := do
  let te ← if kind == "sw" then some false else if kind == "te" then some true else none
  let a ← parseF K a
  let b ← parseF K b
  let r ← parseHex? r
  if h1 == "0" then some ⟨te, a, b, r, false, none⟩
  else if h1 == "1" then some ⟨te, a, b, r, true, none⟩
  else match K.fastSub a h1 with
    | some f => some ⟨te, a, b, r, false, some f⟩
    | none => none

def parseFs (K : Kit F) (s : String) : Option (List F) := mapM? (parseF K) (s.splitOn "/")

def isZeroF (K : Kit F) (x : F) : Bool := (K.toCoeffs x).all (· == 0)
def reducedF (K : Kit F) (x : F) : Bool := (K.toCoeffs x).all (· < K.c.p)

def swAffStr (K : Kit F) (P : SWAff F) : String :=
  if P.infinity then
    (if isZeroF K P.x && isZeroF K P.y then "inf" else "inf!" ++ fStr K P.x ++ "/" ++ fStr K P.y)
  else fStr K P.x ++ "/" ++ fStr K P.y

def swProjStr (K : Kit F) (P : SWProj F) : String := fStr K P.x ++ "/" ++ fStr K P.y ++ "/" ++ fStr K P.z
def teAffStr (K : Kit F) (P : TEAff F) : String := fStr K P.x ++ "/" ++ fStr K P.y
def teProjStr (K : Kit F) (P : TEProj F) : String :=
  fStr K P.x ++ "/" ++ fStr K P.y ++ "/" ++ fStr K P.t ++ "/" ++ fStr K P.z

def parseSwAff (K : Kit F) (s : String) : Option (SWAff F) :=
  if s == "inf" then some ⟨0, 0, true⟩
  else if s.startsWith "inf!" then
    match parseFs K (s.drop 4).toString with
    | some [x, y] => some ⟨x, y, true⟩
    | _ => none
  else match parseFs K s with
    | some [x, y] => some ⟨x, y, false⟩
    | _ => none

/-- spec: the affine point (`none` = identity) a parsed input denotes -/
def swAffCanon (P : SWAff F) : Option (F × F) := if P.infinity then none else some (P.x, P.y)

def swProjCanon (P : SWProj F) : Option (F × F) :=
  if P.z = 0 then none
  else
    let zi := P.z⁻¹
    some (P.x * (zi * zi), P.y * (zi * zi * zi))

def teProjCanon (P : TEProj F) : F × F :=
  let zi := P.z⁻¹
  (P.x * zi, P.y * zi)

def swOnCurve (C : Curve F) (P : Option (F × F)) : Bool :=
  match P with
  | none => true
  | some (x, y) => y * y == x * x * x + C.a * x + C.b

/-- spec: validity of an affine SW point: coordinates reduced, on the curve, killed by `r` -/
def swValid (K : Kit F) (C : Curve F) (P : Option (F × F)) : Bool :=
  match P with
  | none => true
  | some (x, y) => reducedF K x && reducedF K y && swOnCurve C P && K.swKills C.a C.b C.r x y

def teOnCurve (C : Curve F) (P : F × F) : Bool :=
  let (x, y) := P
  C.a * x * x + y * y == 1 + C.b * (x * x) * (y * y)

def teValid (K : Kit F) (C : Curve F) (P : F × F) : Bool :=
  reducedF K P.1 && reducedF K P.2 && teOnCurve C P &&
    teSmul C.a C.b C.r ⟨P.1, P.2⟩ == (TEAff.zero : TEAff F)

/-- `y ≤ −y` in the lexicographic order with the LAST coefficient most significant: the most
    significant non-zero coefficient `c` satisfies `c ≤ p − c` -/
def signPosF (K : Kit F) (y : F) : Bool :=
  match (K.toCoeffs y).reverse.find? (· != 0) with
  | none => true
  | some c => c ≤ K.c.p - c

/-- advertised size of a point -/
def specPointSize (K : Kit F) (C : Curve F) (cm : Compress) : Nat :=
  let bits := K.c.bits
  match C.te, cm with
  | false, .yes => specSize bits 2 K.k
  | false, .no => specSize bits 0 K.k + specSize bits 2 K.k
  | true, .yes => specSize bits 1 K.k
  | true, .no => specSize bits 0 K.k + specSize bits 0 K.k

/-- spec-decode one coordinate carrying `f` flag bits -/
def specCoord (K : Kit F) (f : Nat) (bs : List Nat) : Option (F × Nat) :=
  match specDecode K.c.p K.c.bits f K.k bs with
  | .ok cs fb => (K.ofCoeffs cs).map (fun x => (x, fb))
  | _ => none

/-- the serialiser's output `bs` is THE encoding of the SW point `P`:
    compressed `x ‖ flags`, uncompressed `x ‖ y ‖ flags`; identity: zero coordinates and the infinity bit;
    otherwise the sign bit of `y` (`y > −y`) -/
def encStrictSW (K : Kit F) (cm : Compress) (bs : List Nat) (P : Option (F × F)) : Bool :=
  let flagOf (y : F) : Nat := if signPosF K y then 0 else 2
  match cm with
  | .yes =>
    match specCoord K 2 bs, P with
    | some (x', fb), none => isZeroF K x' && fb == 1
    | some (x', fb), some (x, y) => x' == x && fb == flagOf y
    | _, _ => false
  | .no =>
    let s0 := specSize K.c.bits 0 K.k
    match specCoord K 0 (bs.take s0), specCoord K 2 (bs.drop s0), P with
    | some (x', _), some (y', fb), none => isZeroF K x' && isZeroF K y' && fb == 1
    | some (x', _), some (y', fb), some (x, y) => x' == x && y' == y && fb == flagOf y
    | _, _, _ => false

def encStrictTE (K : Kit F) (cm : Compress) (bs : List Nat) (P : F × F) : Bool :=
  match cm with
  | .yes =>
    match specCoord K 1 bs with
    | some (y', fb) => y' == P.2 && fb == (if signPosF K P.1 then 0 else 1)
    | _ => false
  | .no =>
    let s0 := specSize K.c.bits 0 K.k
    match specCoord K 0 (bs.take s0), specCoord K 0 (bs.drop s0) with
    | some (x', _), some (y', _) => x' == P.1 && y' == P.2
    | _, _ => false

/-- a point ACCEPTED by the deserialiser is the one the bytes describe: the transmitted coordinates
    are returned unchanged, a decompressed point lies on the curve and has the announced sign
    (unless the recovered coordinate is zero), the identity comes from the infinity bit only.
    Byte strings that the strict format description does not parse (a non-reduced integer, stray
    bits) are outside this relation: accepting them is a uniqueness matter (C09 `funiq`), C10 only
    requires the returned point to be valid. -/
def decConsistentSW (K : Kit F) (C : Curve F) (cm : Compress) (bs : List Nat) (P : Option (F × F)) : Bool :=
  match cm with
  | .yes =>
    match specCoord K 2 bs, P with
    | some (_, fb), none => fb == 1
    | some (x', fb), some (x, y) =>
      x' == x && swOnCurve C P && (fb == 0 || fb == 2) && (isZeroF K y || (fb == 0) == signPosF K y)
    | none, _ => true
  | .no =>
    let s0 := specSize K.c.bits 0 K.k
    match specCoord K 0 (bs.take s0), specCoord K 2 (bs.drop s0), P with
    | some _, some (_, fb), none => fb == 1
    | some (x', _), some (y', fb), some (x, y) => x' == x && y' == y && (fb == 0 || fb == 2)
    | _, _, _ => true

def decConsistentTE (K : Kit F) (C : Curve F) (cm : Compress) (bs : List Nat) (P : F × F) : Bool :=
  match cm with
  | .yes =>
    match specCoord K 1 bs with
    | some (y', fb) => y' == P.2 && teOnCurve C P && (isZeroF K P.1 || (fb == 0) == signPosF K P.1)
    | none => true
  | .no =>
    let s0 := specSize K.c.bits 0 K.k
    match specCoord K 0 (bs.take s0), specCoord K 0 (bs.drop s0) with
    | some (x', _), some (y', _) => x' == P.1 && y' == P.2
    | _, _ => true

/-- the curve records handed to the model: default subgroup tests over the spec-level groups,
    or the override announced on the line -/
def swE (K : Kit F) (C : Curve F) : SWCfg F where
  a := C.a
  b := C.b
  inSubgroup := match C.sub with
    | some f => f
    | none => defaultInSubgroup C.h1 (fun P => P.infinity || K.swKills C.a C.b C.r P.x P.y)

def teE (C : Curve F) : TECfg F where
  a := C.a
  d := C.b
  inSubgroup := fun P => teSmul C.a C.b C.r P == TEAff.zero

/-- the four point kinds handled uniformly: parse, model (de)serialisers, printers, canonical affine form -/
structure PointKind (F : Type) where
  T : Type
  parse : String → Option T
  show_ : T → String
  ser : T → Compress → Res (List Nat)
  de : Compress → Validate → M T
  /-- spec: affine coordinates denoted (`none` = SW identity) -/
  canon : T → Option (F × F)
  /-- spec: the representation a successful round trip returns -/
  back : Option (F × F) → String
  /-- spec side: affine coordinates of a representation printed by the deserialiser
      (`none`: not of the shape a deserialiser returns) -/
  unback : T → Option (Option (F × F))
  /-- `Valid::check` -/
  check : T → Outcome Bool
  /-- `Valid::batch_check` -/
  batchCheck : List T → Bool

def pointKind (K : Kit F) (C : Curve F) (proj : Bool) : PointKind F :=
  let Kc := K.codec
  let one : F := 1
  match C.te, proj with
  | false, false =>
    { T := SWAff F, parse := parseSwAff K, show_ := swAffStr K,
      ser := fun P cm => swSerialize Kc P cm, de := fun cm vd => swDeserialize Kc (swE K C) cm vd,
      canon := swAffCanon,
      back := fun P => match P with | none => "inf" | some (x, y) => fStr K x ++ "/" ++ fStr K y,
      unback := fun P => some (swAffCanon P),
      check := fun P => .ok (swCheck (swE K C) P), batchCheck := swBatchCheck (swE K C) }
  | false, true =>
    { T := SWProj F,
      parse := fun s => match parseFs K s with | some [x, y, z] => some ⟨x, y, z⟩ | _ => none,
      show_ := swProjStr K,
      ser := fun P cm => swProjSerialize Kc P cm, de := fun cm vd => swProjDeserialize Kc (swE K C) cm vd,
      canon := swProjCanon,
      back := fun P => match P with
        | none => fStr K one ++ "/" ++ fStr K one ++ "/" ++ fStr K (0 : F)
        | some (x, y) => fStr K x ++ "/" ++ fStr K y ++ "/" ++ fStr K one,
      -- a deserialised projective point is `(x, y, 1)` or `(1, 1, 0)`
      unback := fun P =>
        if P.z = 0 then (if P.x = one ∧ P.y = one then some none else none)
        else if P.z = one then some (some (P.x, P.y)) else none,
      check := swProjCheck (swE K C), batchCheck := swProjBatchCheck (swE K C) }
  | true, false =>
    { T := TEAff F,
      parse := fun s => match parseFs K s with | some [x, y] => some ⟨x, y⟩ | _ => none,
      show_ := teAffStr K,
      ser := fun P cm => teSerialize Kc P cm, de := fun cm vd => teDeserialize Kc (teE C) cm vd,
      canon := fun P => some (P.x, P.y),
      back := fun P => match P with | none => "?" | some (x, y) => fStr K x ++ "/" ++ fStr K y,
      unback := fun P => some (some (P.x, P.y)),
      check := fun P => .ok (teCheck (teE C) P), batchCheck := teBatchCheck (teE C) }
  | true, true =>
    { T := TEProj F,
      parse := fun s => match parseFs K s with | some [x, y, t, z] => some ⟨x, y, t, z⟩ | _ => none,
      show_ := teProjStr K,
      ser := fun P cm => teProjSerialize Kc P cm, de := fun cm vd => teProjDeserialize Kc (teE C) cm vd,
      canon := fun P => some (teProjCanon P),
      back := fun P => match P with
        | none => "?"
        | some (x, y) => fStr K x ++ "/" ++ fStr K y ++ "/" ++ fStr K (x * y) ++ "/" ++ fStr K one,
      unback := fun P => if P.z = one ∧ P.t = P.x * P.y then some (some (P.x, P.y)) else none,
      check := teProjCheck (teE C), batchCheck := teProjBatchCheck (teE C) }

def sizeOfKind (K : Kit F) (C : Curve F) (cm : Compress) : Nat :=
  if C.te then teSerializedSize K.codec cm else swSerializedSize K.codec cm

def validCanon (K : Kit F) (C : Curve F) (P : Option (F × F)) : Bool :=
  if C.te then (match P with | some q => teValid K C q | none => false) else swValid K C P

def onCurveCanon (C : Curve F) (P : Option (F × F)) : Bool :=
  if C.te then (match P with | some q => teOnCurve C q | none => false) else swOnCurve C P

def reducedCanon (K : Kit F) (P : Option (F × F)) : Bool :=
  match P with
  | none => true
  | some (x, y) => reducedF K x && reducedF K y

def runPrt (K : Kit F) (C : Curve F) (proj : Bool) (cm : Compress) (vd : Validate) (ps : String) (impl : String) :
    Option (String × String) := do
  let PK := pointKind K C proj
  let P ← PK.parse ps
  let m := rtStr (PK.ser P cm) (sizeOfKind K C cm) (runM (PK.de cm vd)) PK.show_
  let canon := PK.canon P
  let verdict :=
    if impl == "panic" then "bad:panic"
    else if cm == .yes && !onCurveCanon C canon then "bad:input-not-on-curve"
    else match impl.splitOn ";" with
      | [bs, size, de, used] =>
        match parseList? bs, parseHex? size with
        | some bytes, some size =>
          if size != specPointSize K C cm then "bad:size-formula"
          else if bytes.length != size then "bad:size-mismatch"
          else if !(if C.te then (match canon with | some q => encStrictTE K cm bytes q | none => false)
                    else encStrictSW K cm bytes canon) then "bad:bytes"
          else
            let want :=
              if vd == .yes && !validCanon K C canon then "err:invalid"
              else "ok " ++ PK.back canon
            if de != want then "bad:want-de=" ++ want
            else if used != hex size then "bad:consumed"
            else "ok"
        | _, _ => "bad:parse"
      | _ => "bad:" ++ impl
  some (m, verdict)

def runMpde (K : Kit F) (C : Curve F) (proj : Bool) (cm : Compress) (vd : Validate) (bs : List Nat) (impl : String) :
    Option (String × String) := do
  let PK := pointKind K C proj
  let m := deStr PK.show_ (runM (PK.de cm vd) bs)
  let size := specPointSize K C cm
  let verdict :=
    if impl == "panic" then "bad:panic"
    else match impl.splitOn ";" with
      | [de, used] =>
        match parseHex? used with
        | none => "bad:parse"
        | some used =>
          if used > size then "bad:read-past-size"
          else if bs.length < size then (if de.startsWith "err:" then "ok" else "bad:want=err")
          else if de.startsWith "ok " then
            if used != size then "bad:consumed"
            else match (PK.parse (de.drop 3).toString).bind PK.unback with
              | none => "bad:shape"
              | some canon =>
                if !reducedCanon K canon then "bad:range"
                else if !(if C.te then (match canon with | some q => decConsistentTE K C cm bs q | none => false)
                          else decConsistentSW K C cm bs canon) then "bad:not-the-encoded-point"
                else if vd == .yes && !validCanon K C canon then "bad:invalid-point-accepted"
                else "ok"
          else if de.startsWith "err:" then "ok"
          else "bad:" ++ impl
      | _ => "bad:" ++ impl
  some (m, verdict)

/-- `C10 pchk CD <rep> <P>` / `C10 pbchk CD <rep> <P1;P2;…>` => `ok` | `err:invalid`: `Valid::check`, `Valid::batch_check` -/
def runChk (K : Kit F) (kind a b r h1 rep ps impl : String) : Option (String × String) := do
  let C ← parseCurve K kind a b r h1
  let proj ← if rep == "proj" then some true else if rep == "aff" then some false else none
  let PK := pointKind K C proj
  let Ps ← if ps == "_" then some [] else mapM? PK.parse (ps.splitOn ";")
  let m := match Ps with
    | [P] => (match PK.check P with | .panic => "panic" | .ok true => "ok" | .ok false => "err:invalid")
    | _ => if PK.batchCheck Ps then "ok" else "err:invalid"
  let want := if Ps.all (fun P => validCanon K C (PK.canon P)) then "ok" else "err:invalid"
  some (m, if impl == "panic" then "bad:panic" else if impl == want then "ok" else "bad:want=" ++ want)

/-- a point line: `kind a b r h1 rep cm vd payload` over the field of `K` -/
def runPoint (K : Kit F) (mal : Bool) (kind a b r h1 rep cm vd payload impl : String) : Option (String × String) := do
  let C ← parseCurve K kind a b r h1
  let proj ← if rep == "proj" then some true else if rep == "aff" then some false else none
  let cm ← parseCompress cm
  let vd ← parseValidate vd
  if mal then runMpde K C proj cm vd (← parseList? payload) impl
  else runPrt K C proj cm vd payload impl

end generic

/-- dispatch on the coordinate field: `_` = `Fp p`, `2:<β>` = `Fp[u]/(u² − β)` -/
def runPointLine (mal : Bool) (args : List String) (impl : String) : Option (String × String) :=
  match args with
  | [kind, p, n, t, a, b, r, h1, rep, cm, vd, payload] => do
    let p ← parseHex? p
    let n ← parseHex? n
    if t == "_" then runPoint (kitFp ⟨p, n⟩) mal kind a b r h1 rep cm vd payload impl
    else match t.splitOn ":" with
      | ["2", beta] => do
        let beta ← parseHex? beta
        runPoint (kitFp2 ⟨p, n⟩ beta) mal kind a b r h1 rep cm vd payload impl
      | _ => none
  | _ => none

def runChkLine (args : List String) (impl : String) : Option (String × String) :=
  match args with
  | [kind, p, n, t, a, b, r, h1, rep, ps] => do
    let p ← parseHex? p
    let n ← parseHex? n
    if t == "_" then runChk (kitFp ⟨p, n⟩) kind a b r h1 rep ps impl
    else match t.splitOn ":" with
      | ["2", beta] => do
        let beta ← parseHex? beta
        runChk (kitFp2 ⟨p, n⟩ beta) kind a b r h1 rep ps impl
      | _ => none
  | _ => none

/-! ## flags of a point / a coordinate, `Flags::from_u8`, `AffineRepr::from_random_bytes`

    C09 toflags   CD <P>            => <mask>            `sw::Affine::to_flags().u8_bitmask()`
    C09 signflag  FD <S|T> <x>      => <mask>            `SWFlags::from_y_coordinate` / `TEFlags::from_x_coordinate` (FD's tower: `_` | `2:<β>`)
    C09 flagu8    S <byte>          => none <byte'> | <mask> <inf> <pos: 1|0|-> <byte'>     `from_u8`, accessors, `from_u8_remove_flags`
    C09 flagu8    T <byte>          => <mask> <neg> <byte'>
    C09 flagconst S                 => <default mask> <infinity() mask> <BIT_SIZE>
    C09 flagconst T                 => <default mask> <BIT_SIZE>
    C09 prb       CD <bytes>        => none | inf | <x>/<y>         `AffineRepr::from_random_bytes`
    C09 prbrt     CD <P>            => none | inf | <x>/<y>         `from_random_bytes(serialize_compressed(P))`

  Specs (independent of the model's functions): the documented flag layout (bit 7 = sign, bit 6 = infinity
  (SW only), both = invalid; the remaining bits are ignored), the documented sign rule (`signPosF`),
  the documented position of the flag bits in a `from_random_bytes` input (`specRbCoord`), the curve
  equation, Euler's criterion. -/

section frbops
variable {F : Type} [Add F] [Sub F] [Mul F] [Neg F] [Zero F] [One F] [Inv F] [DecidableEq F]

/-- spec: mask of the sign flag of a coordinate: `0` if `v ≤ −v`, else bit 7 -/
def specSignMask (K : Kit F) (v : F) : Nat := if signPosF K v then 0 else 0x80

def runToflags (K : Kit F) (C : Curve F) (ps impl : String) : Option (String × String) :=
  if C.te then none else
  match parseSwAff K ps with
  | none => none
  | some P =>
    let m := flagStr (swToFlags K.codec P)
    let want := hex (if P.infinity then 0x40 else specSignMask K P.y)
    some (m, if impl == want then "ok" else "bad:want=" ++ want)

def runSignflag (K : Kit F) (fl xs impl : String) : Option (String × String) :=
  match parseF K xs with
  | none => none
  | some x =>
    let m? := if fl == "S" then some (flagStr (swFlagsFromY K.codec x))
      else if fl == "T" then some (flagStr (teFlagsFromX K.codec x)) else none
    let want := hex (specSignMask K x)
    m?.map (fun m => (m, if impl == want then "ok" else "bad:want=" ++ want))

/-- spec: one prime-field coordinate of a `from_random_bytes` input carrying `f` flag bits.
    The input is zero-padded to `8N + 1` bytes; the integer is the little-endian value of the first
    `8N` bytes with the bits at positions `≥ bits` cleared; the flag bits are the top `f` bits of byte
    `⌈(bits + f)/8⌉ − 1`.  Returns (integer, flag bits, flag bits read from the first byte of the last
    8-byte chunk instead — only different for inputs longer than `8N + 8` bytes whose flag byte is the extra byte `8N`). -/
def specRbCoord (c : FpCfg) (f : Nat) (bs : List Nat) : Nat × Nat × Nat :=
  let n8 := 8 * c.N
  let padded := bs ++ List.replicate (n8 + 1) 0
  let int := leNat (padded.take n8) % 2 ^ c.bits
  let s := ceil8 (c.bits + f)
  let flagByte := padded.getD (s - 1) 0
  let altByte := if s - 1 == n8 && bs.length > n8 + 8 then bs.getD (8 * ((bs.length - 1) / 8)) 0 else flagByte
  (int, flagByte / 2 ^ (8 - f), altByte / 2 ^ (8 - f))

/-- spec: the coordinate denoted by a `from_random_bytes` input (`none` inside: some integer `≥ p`), the flag
    bits; a quadratic extension splits the input at `len / 2`: `c0` (no flags) then `c1` (flags) -/
def specRbField (K : Kit F) (f : Nat) (bs : List Nat) : Option (Option F × Nat × Nat) :=
  if K.k == 1 then
    let (n, fb, fq) := specRbCoord K.c f bs
    some ((if n < K.c.p then K.ofCoeffs [n] else none), fb, fq)
  else if K.k == 2 then
    let h := bs.length / 2
    let (n0, _, _) := specRbCoord K.c 0 (bs.take h)
    let (n1, fb, fq) := specRbCoord K.c f (bs.drop h)
    some ((if n0 < K.c.p && n1 < K.c.p then K.ofCoeffs [n0, n1] else none), fb, fq)
  else none

/-- spec: Euler's criterion in the field with `p^k` elements -/
def isSquareF (K : Kit F) (v : F) : Bool :=
  isZeroF K v || gpow v ((K.c.p ^ K.k - 1) / 2) == 1

def wantStr (impl want : String) : String := if impl == want then "ok" else "bad:want=" ++ want

/-- verdict on `from_random_bytes` of an SW curve for flag bits `fb` (`0` positive, `1` infinity, `2` negative, `3` invalid) -/
def judgePrbSW1 (K : Kit F) (C : Curve F) (x? : Option F) (fb : Nat) (impl : String) : String :=
  match x? with
  | none => wantStr impl "none"
  | some x =>
    if fb == 3 then wantStr impl "none"
    else if fb == 1 then (if isZeroF K x then wantStr impl "inf" else wantStr impl "none")
    else if !isSquareF K (x * x * x + C.a * x + C.b) then wantStr impl "none"
    else match (if impl == "none" then none else parseSwAff K impl) with
      | none => "bad:want-point"
      | some P =>
        if P.infinity then "bad:want-finite-point"
        else if !(reducedF K P.x && reducedF K P.y) then "bad:range"
        else if P.x != x then "bad:x"
        else if !swOnCurve C (some (P.x, P.y)) then "bad:not-on-curve"
        -- the returned point carries the flag that was in the bytes (`to_flags`, documented sign rule)
        else if isZeroF K P.y || (fb == 0) == signPosF K P.y then "ok"
        else "note:from_random_bytes-sign-flag-inverted"

def judgePrbTE1 (K : Kit F) (C : Curve F) (y? : Option F) (fb : Nat) (impl : String) : String :=
  match y? with
  | none => wantStr impl "none"
  | some y =>
    let den := C.a - C.b * (y * y)
    if isZeroF K den then wantStr impl "none"
    else if !isSquareF K ((1 - y * y) * den⁻¹) then wantStr impl "none"
    else match (if impl == "none" then none else parseFs K impl) with
      | some [px, py] =>
        if !(reducedF K px && reducedF K py) then "bad:range"
        else if py != y then "bad:y"
        else if !teOnCurve C (px, py) then "bad:not-on-curve"
        else if isZeroF K px || (fb == 0) == signPosF K px then "ok"
        else "note:from_random_bytes-sign-flag-inverted"
      | _ => "bad:want-point"

def judgePrb (K : Kit F) (C : Curve F) (bs : List Nat) (impl : String) : String :=
  if impl == "panic" then "bad:panic" else
  match specRbField K (if C.te then 1 else 2) bs with
  | none => "bad:spec-field"
  | some (v?, fb, fq) =>
    let judge := fun fb => if C.te then judgePrbTE1 K C v? fb impl else judgePrbSW1 K C v? fb impl
    let v := judge fb
    if v == "ok" || fq == fb then v
    else
      let v2 := judge fq
      if v2 == "ok" then "note:flag-byte-from-last-chunk"
      else if v2 == "note:from_random_bytes-sign-flag-inverted" then "note:from_random_bytes-sign-flag-inverted+flag-byte-from-last-chunk"
      else v

abbrev Frb (F : Type) := (Fl : Type) → [Flags Fl] → List Nat → Outcome (Option (F × Fl))

def prbModel (K : Kit F) (C : Curve F) (frb : Frb F) (bs : List Nat) : String :=
  if C.te then
    match teFromRandomBytes K.codec (teE C) frb bs with
    | .panic => "panic"
    | .ok none => "none"
    | .ok (some P) => teAffStr K P
  else
    match swFromRandomBytes K.codec (swE K C) frb bs with
    | .panic => "panic"
    | .ok none => "none"
    | .ok (some P) => swAffStr K P

def runPrb (K : Kit F) (C : Curve F) (frb : Frb F) (bs : List Nat) (impl : String) : Option (String × String) :=
  some (prbModel K C frb bs, judgePrb K C bs impl)

/-- `from_random_bytes(serialize_compressed(P))`: the documentation of `AffineRepr::from_random_bytes`
    ("returns a group element if the set of bytes forms a valid group element … primarily intended for
    sampling random group elements") does not promise the round trip, so `−P` is a `note` -/
def runPrbrt (K : Kit F) (C : Curve F) (frb : Frb F) (ps impl : String) : Option (String × String) :=
  if C.te then
    match parseFs K ps with
    | some [x, y] =>
      let m := match teSerialize K.codec (⟨x, y⟩ : TEAff F) .yes with
        | .ok bytes => prbModel K C frb bytes
        | .err e => errStr e
        | .panic => "panic"
      let want := fStr K x ++ "/" ++ fStr K y
      let neg := fStr K (-x) ++ "/" ++ fStr K y
      some (m, if impl == want then "ok" else if impl == neg then "note:negated-point" else "bad:want=" ++ want)
    | _ => none
  else
    match parseSwAff K ps with
    | none => none
    | some P =>
      let m := match swSerialize K.codec P .yes with
        | .ok bytes => prbModel K C frb bytes
        | .err e => errStr e
        | .panic => "panic"
      let want := if P.infinity then "inf" else fStr K P.x ++ "/" ++ fStr K P.y
      let neg := if P.infinity then "inf" else fStr K P.x ++ "/" ++ fStr K (-P.y)
      some (m, if impl == want then "ok" else if impl == neg then "note:negated-point" else "bad:want=" ++ want)

def runCurveOp (K : Kit F) (frb : Frb F) (op kind a b r h1 payload impl : String) : Option (String × String) := do
  let C ← parseCurve K kind a b r h1
  match op with
  | "toflags" => runToflags K C payload impl
  | "prb" => runPrb K C frb (← parseList? payload) impl
  | "prbrt" => runPrbrt K C frb payload impl
  | _ => none

end frbops

def frbFp (c : FpCfg) : Frb (Fp c.p) := fun Fl _ bs => fpFromRandomBytesFlags c Fl bs
def frbFp2 (c : FpCfg) (β : Nat) : Frb (Fp2 c.p β) := fun Fl _ bs => fp2FromRandomBytesFlags c β Fl bs

def runCurveOpLine (op : String) (args : List String) (impl : String) : Option (String × String) :=
  match args with
  | [kind, p, n, t, a, b, r, h1, payload] => do
    let p ← parseHex? p
    let n ← parseHex? n
    if t == "_" then runCurveOp (kitFp ⟨p, n⟩) (frbFp ⟨p, n⟩) op kind a b r h1 payload impl
    else match t.splitOn ":" with
      | ["2", beta] => do
        let beta ← parseHex? beta
        runCurveOp (kitFp2 ⟨p, n⟩ beta) (frbFp2 ⟨p, n⟩ beta) op kind a b r h1 payload impl
      | _ => none
  | _ => none

def runSignflagLine (args : List String) (impl : String) : Option (String × String) :=
  match args with
  | [p, n, t, fl, x] => do
    let p ← parseHex? p
    let n ← parseHex? n
    if t == "_" then runSignflag (kitFp ⟨p, n⟩) fl x impl
    else match t.splitOn ":" with
      | ["2", beta] => do
        let beta ← parseHex? beta
        runSignflag (kitFp2 ⟨p, n⟩ beta) fl x impl
      | _ => none
  | _ => none

/-- `from_u8`, `u8_bitmask`, `is_infinity`, `is_positive` / `is_negative`, `from_u8_remove_flags` on one byte -/
def runFlagu8 (fl : String) (v : Nat) (impl : String) : Option (String × String) :=
  if v ≥ 256 then none else
  let b7 := v / 128 % 2
  let b6 := v / 64 % 2
  if fl == "S" then
    let m := match fromU8RemoveFlags SWFlags v with
      | none => "none " ++ hex v
      | some (f, v') =>
        flagStr f ++ " " ++ boolStr f.isInfinity ++ " " ++
          (match f.isPositive with | none => "-" | some true => "1" | some false => "0") ++ " " ++ hex v'
    -- spec: bit 7 = negative sign, bit 6 = infinity, both = no flag (the byte is left alone); low 6 bits ignored
    let want :=
      if b7 == 1 && b6 == 1 then "none " ++ hex v
      else hex (v - v % 64) ++ " " ++ hex b6 ++ " " ++ (if b6 == 1 then "-" else if b7 == 1 then "0" else "1") ++ " " ++ hex (v % 64)
    some (m, wantStr impl want)
  else if fl == "T" then
    let m := match fromU8RemoveFlags TEFlags v with
      | none => "none " ++ hex v
      | some (f, v') => flagStr f ++ " " ++ boolStr f.isNegative ++ " " ++ hex v'
    let want := hex (v - v % 128) ++ " " ++ hex b7 ++ " " ++ hex (v % 128)
    some (m, wantStr impl want)
  else none

/-- `Default`, `SWFlags::infinity()`, `BIT_SIZE`.  Spec: "The default flags (empty) should not change the
    binary representation" (doc comment of both enums): the default mask is `0`; infinity is bit 6 -/
def runFlagconst (fl : String) (impl : String) : Option (String × String) :=
  if fl == "S" then
    some (flagStr SWFlags.dflt ++ " " ++ flagStr SWFlags.infinityFlag ++ " " ++ hex (bitSize SWFlags),
      (if impl == "80 40 2" then "note:SWFlags-default-is-YIsNegative-doc-says-no-flag" else wantStr impl "0 40 2"))
  else if fl == "T" then
    some (flagStr TEFlags.dflt ++ " " ++ hex (bitSize TEFlags), wantStr impl "0 1")
  else none

/-! ## point serialisation into a writer that fails after `k` bytes

`serialize_with_mode` hands the encoding to the writer with `write_all` and propagates the first error
with `?` (`ec/src/models/{short_weierstrass,twisted_edwards}/mod.rs`, `Fp::serialize_with_flags`,
`SerBuffer::write_up_to`): the writer has received exactly the first `min k size` bytes, and the result
is `IoError` iff `k < size` (`Ok(0)` from the writer becomes `WriteZero`). -/

section pwfail
variable {F : Type} [Add F] [Sub F] [Mul F] [Neg F] [Zero F] [One F] [Inv F] [DecidableEq F]

def runPwfail (K : Kit F) (kind a b r h1 rep cm k ps impl : String) : Option (String × String) := do
  let C ← parseCurve K kind a b r h1
  let proj ← if rep == "proj" then some true else if rep == "aff" then some false else none
  let cm ← parseCompress cm
  let k ← parseHex? k
  let PK := pointKind K C proj
  let P ← PK.parse ps
  let full := PK.ser P cm
  let m := match full with
    | .ok bytes => (if k < bytes.length then "err:io " else "ok ") ++ hexList (bytes.take k)
    | .err e => errStr e
    | .panic => "panic"
  let size := specPointSize K C cm
  let canon := PK.canon P
  let verdict :=
    if impl == "panic" then "bad:panic"
    else match impl.splitOn " " with
      | [st, ws] =>
        match parseList? ws with
        | none => "bad:parse"
        | some w =>
          if st == "ok" then
            if k < size then "bad:ok-without-room"
            else if w.length != size then "bad:size-mismatch"
            else if !(if C.te then (match canon with | some q => encStrictTE K cm w q | none => false)
                      else encStrictSW K cm w canon) then "bad:bytes"
            else "ok"
          else if st == "err:io" then
            if k ≥ size then "bad:error-with-room"
            else if w.length != k then "bad:written≠capacity"
            -- what was handed over is the beginning of THE encoding (judged in full on the `ok` lines of the same point)
            else match full with
              | .ok bytes => if w == bytes.take k then "ok" else "bad:not-a-prefix"
              | _ => "bad:model"
          else "bad:error-class"
      | _ => "bad:" ++ impl
  some (m, verdict)

end pwfail

def runPwfailLine (args : List String) (impl : String) : Option (String × String) :=
  match args with
  | [kind, p, n, t, a, b, r, h1, rep, cm, _fl, k, ps] => do
    let p ← parseHex? p
    let n ← parseHex? n
    if t == "_" then runPwfail (kitFp ⟨p, n⟩) kind a b r h1 rep cm k ps impl
    else match t.splitOn ":" with
      | ["2", beta] => do
        let beta ← parseHex? beta
        runPwfail (kitFp2 ⟨p, n⟩ beta) kind a b r h1 rep cm k ps impl
      | _ => none
  | _ => none

/-! ## dispatch -/

def run (op : String) (args : List String) (impl : String) : Option (String × String) := do
  match op, args with
  | "frt", [p, n, t, cm, vd, x] =>
    let F ← parseFD p n t
    runFrt F (← parseCompress cm) (← parseValidate vd) x impl
  | "fflrt", [p, n, t, fname, mask, x] =>
    let F ← parseFD p n t
    runFflrt F fname (← parseHex? mask) x impl
  | "funiq", [p, n, t, fname, bs] =>
    let F ← parseFD p n t
    runFuniq F fname (← parseList? bs) impl
  | "frb", [p, n, t, fname, bs] =>
    let F ← parseFD p n t
    runFrb F fname (← parseList? bs) impl
  | "mfde", [p, n, t, cm, vd, bs] =>
    let F ← parseFD p n t
    runMfde F (← parseCompress cm) (← parseValidate vd) (← parseList? bs) impl
  | "mfdefl", [p, n, t, fname, bs] =>
    let F ← parseFD p n t
    runMfdefl F fname (← parseList? bs) impl
  | "prt", _ => runPointLine false args impl
  | "mpde", _ => runPointLine true args impl
  | "pchk", _ => runChkLine args impl
  | "pbchk", _ => runChkLine args impl
  | "toflags", _ => runCurveOpLine op args impl
  | "prb", _ => runCurveOpLine op args impl
  | "prbrt", _ => runCurveOpLine op args impl
  | "signflag", _ => runSignflagLine args impl
  | "flagu8", [fl, v] => runFlagu8 fl (← parseHex? v) impl
  | "flagconst", [fl] => runFlagconst fl impl
  | "pwfail", _ => runPwfailLine args impl
  | _, _ => none

end Ark.DrvC09
