import Ark.Model.Bytes
import Ark.Model.Proto
/-
  Driver dispatch for C09 (round trip / size / uniqueness) and C10 (malformed input):
  `<op> args…` with the implementation's output → (model output, verdict).

  Line formats (harness: `src/serial_common.rs`):
    FD = `<p> <N> <tower>`      CD = `sw FD <a> <b> <r> <h1>` | `te FD <a> <d> <r> <h1>`
    C09 frt    FD <c|u> <y|n> <x>              => <bytes>;<size>;<de>;<consumed>   (de reads bytes ++ [a5,5a])
    C09 fflrt  FD <flagty> <flag> <x>          => <bytes>;<size>;<de>;<consumed>
    C09 funiq  FD <flagty> <bytes>             => <de>;<consumed>;<re-serialised | ->
    C09 frb    FD <flagty> <bytes>             => some <x> <flag> | none
    C09 prt    CD <aff|proj> <c|u> <y|n> <P>   => <bytes>;<size>;<de>;<consumed>
    C10 mfde   FD <c|u> <y|n> <bytes>          => <de>;<consumed>
    C10 mfdefl FD <flagty> <bytes>             => <de>;<consumed>
    C10 mpde   CD <aff|proj> <c|u> <y|n> <bytes> => <de>;<consumed>

  The verdicts use an independently written description of the format (`specDecode`, `encStrict`,
  `decConsistent`: one little-endian integer per coordinate, flag bits in the top bits of the last
  byte, sign rule `y ≤ −y` / `x ≤ −x` on integers) and the spec-level groups `Ark.AffPt` /
  `teSmul`; they never call the model's (de)serialisers.
-/
namespace Ark.DrvC09
open Ark Ark.Proto Ark.Bytes

/-! ## parsing / printing -/

def trail : List Nat := [0xa5, 0x5a]

def parseTower (s : String) : Option Tower :=
  if s == "_" then some .base
  else (s.splitOn ".").foldr (fun d acc => match acc, d with
    | some t, "2" => some (.quad t)
    | some t, "3" => some (.cubic t)
    | _, _ => none) (some .base)

def ofCoeffs {p : Nat} : Tower → List Nat → Option (ExtV p × List Nat)
  | .base, x :: xs => some (.base ⟨x⟩, xs)
  | .base, [] => none
  | .quad t, xs => do
    let (a, r) ← ofCoeffs t xs
    let (b, r) ← ofCoeffs t r
    pure (.quad a b, r)
  | .cubic t, xs => do
    let (a, r) ← ofCoeffs t xs
    let (b, r) ← ofCoeffs t r
    let (c, r) ← ofCoeffs t r
    pure (.cubic a b c, r)

def toCoeffs {p : Nat} : ExtV p → List Nat
  | .base x => [x.val]
  | .quad a b => toCoeffs a ++ toCoeffs b
  | .cubic a b c => toCoeffs a ++ toCoeffs b ++ toCoeffs c

def parseExt (p : Nat) (t : Tower) (s : String) : Option (ExtV p) := do
  let cs ← parseList? s
  match ofCoeffs (p := p) t cs with
  | some (v, []) => some v
  | _ => none

def extStr {p : Nat} (v : ExtV p) : String := hexList (toCoeffs v)

def errStr : Err → String
  | .io => "err:io" | .invalid => "err:invalid" | .notenough => "err:notenough" | .flags => "err:flags"

def parseCompress (s : String) : Option Compress :=
  if s == "c" then some .yes else if s == "u" then some .no else none
def parseValidate (s : String) : Option Validate :=
  if s == "y" then some .yes else if s == "n" then some .no else none

/-- run `k` at the flag type named on the line -/
def flagDispatch {α : Type} (name : String) (k : (Fl : Type) → [Flags Fl] → α) : Option α :=
  match name with
  | "E" => some (k EmptyFlags)
  | "S" => some (k SWFlags)
  | "T" => some (k TEFlags)
  | "W3" => some (k (WFlags 3))
  | "W8" => some (k (WFlags 8))
  | "W9" => some (k (WFlags 9))
  | _ => none

def flagStr {Fl : Type} [Flags Fl] (f : Fl) : String := hex (Flags.u8Bitmask f % 256)

/-- `<de>;<consumed>` of a deserialiser run -/
def deStr {α : Type} (show_ : α → String) : R α → String
  | .ok a s => "ok " ++ show_ a ++ ";" ++ hex s.used
  | .err e s => errStr e ++ ";" ++ hex s.used
  | .panic => "panic"

/-- `<bytes>;<size>;<de>;<consumed>` of a round trip -/
def rtStr {α : Type} (ser : Res (List Nat)) (size : Nat) (de : List Nat → R α) (show_ : α → String) : String :=
  match ser with
  | .panic => "panic"
  | .err e => errStr e
  | .ok bytes =>
    match de (bytes ++ trail) with
    | .panic => "panic"
    | r => hexList bytes ++ ";" ++ hex size ++ ";" ++ deStr show_ r

/-! ## the independent description of the format -/

def ceil8 (n : Nat) : Nat := (n + 7) / 8

/-- advertised size of an element of a degree-`k` tower carrying `f` flag bits -/
def specSize (bits f k : Nat) : Nat := (k - 1) * ceil8 bits + ceil8 (bits + f)

/-- number denoted by little-endian bytes -/
def leNat (bs : List Nat) : Nat := bs.foldr (fun b acc => b + 256 * acc) 0

inductive SpecDec
  | short                               -- fewer bytes than the advertised size
  | nonreduced                          -- some coordinate ≥ p (includes stray bits above the modulus)
  | ok (coeffs : List Nat) (flagBits : Nat)
  deriving Repr

/-- first `k - 1` coordinates: `⌈bits/8⌉` bytes each, an integer `< p`;
    last coordinate: `⌈(bits+f)/8⌉` bytes, flag = top `f` bits of the last byte, the rest an integer `< p` -/
def specDecode (p bits f k : Nat) (bs : List Nat) : SpecDec :=
  let s0 := ceil8 bits
  let sl := ceil8 (bits + f)
  if bs.length < (k - 1) * s0 + sl then .short else
  let coords := (List.range (k - 1)).map (fun i => leNat ((bs.drop (i * s0)).take s0))
  let lastN := leNat ((bs.drop ((k - 1) * s0)).take sl)
  let flagBits := lastN / 2 ^ (8 * sl - f)
  let lastInt := lastN % 2 ^ (8 * sl - f)
  if coords.all (· < p) && lastInt < p then .ok (coords ++ [lastInt]) flagBits else .nonreduced

/-- which flag-bit patterns are flags (only `SWFlags` has an invalid pattern: both bits set) -/
def specFlagOk (name : String) (flagBits : Nat) : Bool :=
  if name == "S" then flagBits != 3 else true

def flagWidth (name : String) : Nat :=
  match name with
  | "E" => 0 | "S" => 2 | "T" => 1 | "W3" => 3 | "W8" => 8 | "W9" => 9 | _ => 0

/-- `y ≤ −y` on canonical integers -/
def signPos (p y : Nat) : Bool := y == 0 || y ≤ p - y

/-! ## field ops -/

structure FieldCtx where
  c : FpCfg
  t : Tower

def parseFD (p n t : String) : Option FieldCtx := do
  let p ← parseHex? p
  let n ← parseHex? n
  let t ← parseTower t
  some ⟨⟨p, n⟩, t⟩

def showExtFl {p : Nat} {Fl : Type} [Flags Fl] (v : ExtV p × Fl) : String := extStr v.1 ++ " " ++ flagStr v.2

/-- expected `<de>;<consumed>` of reading back a correct encoding of `coeffs` with flag byte mask `mask` -/
def wantDe (coeffs : List Nat) (mask : Option Nat) (size : Nat) : String :=
  "ok " ++ hexList coeffs ++ (match mask with | some m => " " ++ hex m | none => "") ++ ";" ++ hex size

/-- verdict of a round-trip line `<bytes>;<size>;<de>;<consumed>` for a field element -/
def judgeFieldRt (F : FieldCtx) (fname : String) (withFlag : Bool) (mask : Nat) (coeffs : List Nat) (impl : String) : String :=
  let f := flagWidth fname
  if f > 8 then (if impl == "err:notenough" then "ok" else "bad:want=err:notenough") else
  if impl == "panic" then "bad:panic" else
  match impl.splitOn ";" with
  | [bs, size, de, used] =>
    match parseList? bs, parseHex? size with
    | some bytes, some size =>
      let k := F.t.degree
      if size != specSize F.c.bits f k then "bad:size-formula"
      else if bytes.length != size then "bad:size-mismatch"
      else match specDecode F.c.p F.c.bits f k bytes with
        | .ok cs fb =>
          if cs != coeffs then "bad:bytes-value"
          else if fb * 2 ^ (8 - f) != mask then "bad:bytes-flag"
          else
            let want := wantDe coeffs (if withFlag then some mask else none) size
            if de ++ ";" ++ used == want then "ok" else "bad:want-de=" ++ want
        | _ => "bad:bytes-not-canonical"
    | _, _ => "bad:parse"
  | _ => "bad:" ++ impl

def runFrt (F : FieldCtx) (cm : Compress) (vd : Validate) (xs : String) (impl : String) : Option (String × String) := do
  let x ← parseExt F.c.p F.t xs
  let m := rtStr (extSer F.c x cm) (extSize F.c F.t cm) (runM (extDe F.c F.t cm vd)) extStr
  some (m, judgeFieldRt F "E" false 0 (toCoeffs x) impl)

def runFflrt (F : FieldCtx) (fname : String) (mask : Nat) (xs : String) (impl : String) : Option (String × String) := do
  let x ← parseExt F.c.p F.t xs
  let m ← flagDispatch fname (fun Fl _ =>
    match Flags.fromU8 (Fl := Fl) mask with
    | none => "bad-flag"
    | some fl => rtStr (extSerFlags F.c Fl x fl) (extSizeFlags F.c Fl F.t) (runM (extDeFlags F.c Fl F.t)) showExtFl)
  some (m, judgeFieldRt F fname true mask (toCoeffs x) impl)

/-- uniqueness: `<de>;<consumed>;<re-serialised>` -/
def runFuniq (F : FieldCtx) (fname : String) (bs : List Nat) (impl : String) : Option (String × String) := do
  let m ← flagDispatch fname (fun Fl _ =>
    match runM (extDeFlags F.c Fl F.t) bs with
    | .panic => "panic"
    | .err e s => errStr e ++ ";" ++ hex s.used ++ ";-"
    | .ok (x, fl) s =>
      "ok " ++ showExtFl (x, fl) ++ ";" ++ hex s.used ++ ";" ++
        (match extSerFlags F.c Fl x fl with
         | .ok b => hexList b
         | .err e => errStr e
         | .panic => "panic"))
  let f := flagWidth fname
  let k := F.t.degree
  let size := specSize F.c.bits f k
  let verdict :=
    if impl == "panic" then "bad:panic"
    else if f > 8 then
      -- `BIT_SIZE > 8`: refused (an extension reads its leading coordinates first, so a short input is an io error)
      (if impl.startsWith "err:notenough;" || (impl.startsWith "err:io;" && bs.length < (k - 1) * ceil8 F.c.bits) then "ok"
       else "bad:want=err:notenough")
    else match impl.splitOn ";" with
      | [de, used, re] =>
        let spec := specDecode F.c.p F.c.bits f k bs
        if de.startsWith "ok " then
          -- accepted: must re-serialise to exactly the bytes that were read, and be what the format says
          if used != hex size then "bad:consumed"
          else if re != hexList (bs.take size) then "bad:nonunique"
          else match spec with
            | .ok cs fb =>
              if specFlagOk fname fb && de == "ok " ++ hexList cs ++ " " ++ hex (fb * 2 ^ (8 - f)) then "ok" else "bad:value"
            | _ => "bad:accepted-noncanonical"
        else
          -- rejected: the format must say so too
          match spec with
          | .ok _ fb => if specFlagOk fname fb then "bad:rejected-canonical" else (if de == "err:flags" then "ok" else "bad:want=err:flags")
          | .short => if de == "err:io" then "ok" else "bad:want=err:io"
          | .nonreduced => if de == "err:invalid" || de == "err:flags" then "ok" else "bad:want=err:invalid"
      | _ => "bad:" ++ impl
  some (m, verdict)

def runFrb (F : FieldCtx) (fname : String) (bs : List Nat) (impl : String) : Option (String × String) := do
  let m ← flagDispatch fname (fun Fl _ =>
    match extFromRandomBytesFlags F.c Fl F.t bs with
    | .panic => "panic"
    | .ok none => "none"
    | .ok (some v) => "some " ++ showExtFl v)
  let verdict :=
    if impl == "panic" then "bad:panic"
    else if impl == "none" then "ok"
    else match impl.splitOn " " with
      | ["some", cs, _] =>
        match parseList? cs with
        | some cs => if cs.length == F.t.degree && cs.all (· < F.c.p) then "ok" else "bad:range"
        | none => "bad:parse"
      | _ => "bad:" ++ impl
  some (m, verdict)

/-- C10 verdict on `<de>;<consumed>` for field elements: no panic, at most the advertised size is read,
    exactly that much on success, a short input is an io error, returned coefficients are `< p` -/
def judgeFieldMal (F : FieldCtx) (f : Nat) (bs : List Nat) (impl : String) : String :=
  if impl == "panic" then "bad:panic" else
  if f > 8 then
    (if impl.startsWith "err:notenough;" || (impl.startsWith "err:io;" && bs.length < (F.t.degree - 1) * ceil8 F.c.bits) then "ok"
     else "bad:want=err:notenough") else
  let size := specSize F.c.bits f F.t.degree
  match impl.splitOn ";" with
  | [de, used] =>
    match parseHex? used with
    | none => "bad:parse"
    | some used =>
      if used > size then "bad:read-past-size"
      else if bs.length < size then (if de.startsWith "err:" then "ok" else "bad:want=err")
      else if de.startsWith "ok " then
        if used != size then "bad:consumed"
        else match (de.drop 3).toString.splitOn " " with
          | cs :: _ =>
            match parseList? cs with
            | some cs => if cs.length == F.t.degree && cs.all (· < F.c.p) then "ok" else "bad:range"
            | none => "bad:parse"
          | _ => "bad:parse"
      else if de.startsWith "err:" then "ok"
      else "bad:" ++ impl
  | _ => "bad:" ++ impl

def runMfde (F : FieldCtx) (cm : Compress) (vd : Validate) (bs : List Nat) (impl : String) : Option (String × String) :=
  some (deStr extStr (runM (extDe F.c F.t cm vd) bs), judgeFieldMal F 0 bs impl)

def runMfdefl (F : FieldCtx) (fname : String) (bs : List Nat) (impl : String) : Option (String × String) := do
  let m ← flagDispatch fname (fun Fl _ => deStr showExtFl (runM (extDeFlags F.c Fl F.t) bs))
  some (m, judgeFieldMal F (flagWidth fname) bs impl)

/-! ## point ops (prime base fields) -/

structure CurveCtx where
  te : Bool
  c : FpCfg
  a : Nat
  b : Nat          -- `b` (SW) or `d` (TE)
  r : Nat
  h1 : Bool

def parseCD (kind p n t a b r h1 : String) : Option CurveCtx := do
  let te ← if kind == "sw" then some false else if kind == "te" then some true else none
  let p ← parseHex? p
  let n ← parseHex? n
  if t != "_" then none
  let a ← parseHex? a
  let b ← parseHex? b
  let r ← parseHex? r
  let h1 ← parseHex? h1
  some ⟨te, ⟨p, n⟩, a, b, r, h1 == 1⟩

def fpStr {p : Nat} (x : Fp p) : String := hex x.val

def parseFps (p : Nat) (s : String) : Option (List (Fp p)) :=
  mapM? (fun t => (parseHex? t).map (fun n => (⟨n⟩ : Fp p))) (s.splitOn "/")

def swAffStr {p : Nat} (P : SWAff (Fp p)) : String :=
  if P.infinity then
    (if P.x.val == 0 && P.y.val == 0 then "inf" else "inf!" ++ fpStr P.x ++ "/" ++ fpStr P.y)
  else fpStr P.x ++ "/" ++ fpStr P.y

def swProjStr {p : Nat} (P : SWProj (Fp p)) : String := fpStr P.x ++ "/" ++ fpStr P.y ++ "/" ++ fpStr P.z
def teAffStr {p : Nat} (P : TEAff (Fp p)) : String := fpStr P.x ++ "/" ++ fpStr P.y
def teProjStr {p : Nat} (P : TEProj (Fp p)) : String :=
  fpStr P.x ++ "/" ++ fpStr P.y ++ "/" ++ fpStr P.t ++ "/" ++ fpStr P.z

def parseSwAff (p : Nat) (s : String) : Option (SWAff (Fp p)) :=
  if s == "inf" then some ⟨⟨0⟩, ⟨0⟩, true⟩
  else if s.startsWith "inf!" then
    match parseFps p (s.drop 4).toString with
    | some [x, y] => some ⟨x, y, true⟩
    | _ => none
  else match parseFps p s with
    | some [x, y] => some ⟨x, y, false⟩
    | _ => none

/-- spec: the affine point (`none` = identity) a parsed input denotes -/
def swAffCanon {p : Nat} (P : SWAff (Fp p)) : Option (Nat × Nat) :=
  if P.infinity then none else some (P.x.val, P.y.val)

def swProjCanon {p : Nat} (P : SWProj (Fp p)) : Option (Nat × Nat) :=
  if P.z.val % p == 0 then none
  else
    let zi := P.z⁻¹
    some ((P.x * (zi * zi)).val, (P.y * (zi * zi * zi)).val)

def teProjCanon {p : Nat} (P : TEProj (Fp p)) : Nat × Nat :=
  let zi := P.z⁻¹
  ((P.x * zi).val, (P.y * zi).val)

/-- spec: validity of an affine SW point: coordinates reduced, on the curve, killed by `r` -/
def swValid (C : CurveCtx) (P : Option (Nat × Nat)) : Bool :=
  match P with
  | none => true
  | some (x, y) =>
    let p := C.c.p
    x < p && y < p && (y * y) % p == (x * x * x + C.a * x + C.b) % p &&
      (AffPt.smul (p := p) (E := ⟨⟨C.a⟩, ⟨C.b⟩⟩) C.r ⟨some (⟨x⟩, ⟨y⟩)⟩).pt.isNone

def swOnCurve (C : CurveCtx) (P : Option (Nat × Nat)) : Bool :=
  match P with
  | none => true
  | some (x, y) => let p := C.c.p; (y * y) % p == (x * x * x + C.a * x + C.b) % p

def teOnCurve (C : CurveCtx) (P : Nat × Nat) : Bool :=
  let p := C.c.p
  let (x, y) := P
  (C.a * x * x + y * y) % p == (1 + C.b * (x * x % p) * (y * y % p)) % p

def teValid (C : CurveCtx) (P : Nat × Nat) : Bool :=
  let p := C.c.p
  P.1 < p && P.2 < p && teOnCurve C P &&
    teSmul (F := Fp p) ⟨C.a⟩ ⟨C.b⟩ C.r ⟨⟨P.1⟩, ⟨P.2⟩⟩ == (⟨⟨0⟩, ⟨1 % p⟩⟩ : TEAff (Fp p))

/-- advertised size of a point -/
def specPointSize (C : CurveCtx) (cm : Compress) : Nat :=
  let bits := C.c.bits
  match C.te, cm with
  | false, .yes => ceil8 (bits + 2)
  | false, .no => ceil8 bits + ceil8 (bits + 2)
  | true, .yes => ceil8 (bits + 1)
  | true, .no => ceil8 bits + ceil8 bits

/-- the serialiser's output `bs` is THE encoding of the SW point `P`:
    compressed `x ‖ flags`, uncompressed `x ‖ y ‖ flags`; identity: zero coordinates and the infinity bit;
    otherwise the sign bit of `y` (`y > −y`) -/
def encStrictSW (C : CurveCtx) (cm : Compress) (bs : List Nat) (P : Option (Nat × Nat)) : Bool :=
  let p := C.c.p
  let bits := C.c.bits
  let flagOf (y : Nat) : Nat := if signPos p y then 0 else 2
  match cm with
  | .yes =>
    match specDecode p bits 2 1 bs, P with
    | .ok [x'] fb, none => x' == 0 && fb == 1
    | .ok [x'] fb, some (x, y) => x' == x && fb == flagOf y
    | _, _ => false
  | .no =>
    let s0 := ceil8 bits
    match specDecode p bits 0 1 (bs.take s0), specDecode p bits 2 1 (bs.drop s0), P with
    | .ok [x'] _, .ok [y'] fb, none => x' == 0 && y' == 0 && fb == 1
    | .ok [x'] _, .ok [y'] fb, some (x, y) => x' == x && y' == y && fb == flagOf y
    | _, _, _ => false

def encStrictTE (C : CurveCtx) (cm : Compress) (bs : List Nat) (P : Nat × Nat) : Bool :=
  let p := C.c.p
  let bits := C.c.bits
  match cm with
  | .yes =>
    match specDecode p bits 1 1 bs with
    | .ok [y'] fb => y' == P.2 && fb == (if signPos p P.1 then 0 else 1)
    | _ => false
  | .no =>
    let s0 := ceil8 bits
    match specDecode p bits 0 1 (bs.take s0), specDecode p bits 0 1 (bs.drop s0) with
    | .ok [x'] _, .ok [y'] _ => x' == P.1 && y' == P.2
    | _, _ => false

/-- a point ACCEPTED by the deserialiser is the one the bytes describe: the transmitted coordinates
    are returned unchanged, a decompressed point lies on the curve and has the announced sign
    (unless the recovered coordinate is zero), the identity comes from the infinity bit only.
    Byte strings that the strict format description does not parse (a non-reduced integer, stray
    bits) are outside this relation: accepting them is a uniqueness matter (C09 `funiq`), C10 only
    requires the returned point to be valid. -/
def decConsistentSW (C : CurveCtx) (cm : Compress) (bs : List Nat) (P : Option (Nat × Nat)) : Bool :=
  let p := C.c.p
  let bits := C.c.bits
  match cm with
  | .yes =>
    match specDecode p bits 2 1 bs, P with
    | .ok [_] fb, none => fb == 1
    | .ok [x'] fb, some (x, y) =>
      x' == x && swOnCurve C P && (fb == 0 || fb == 2) && (y == 0 || (fb == 0) == signPos p y)
    | .ok _ _, _ => false
    | _, _ => true
  | .no =>
    let s0 := ceil8 bits
    match specDecode p bits 0 1 (bs.take s0), specDecode p bits 2 1 (bs.drop s0), P with
    | .ok [_] _, .ok [_] fb, none => fb == 1
    | .ok [x'] _, .ok [y'] fb, some (x, y) => x' == x && y' == y && (fb == 0 || fb == 2)
    | .ok _ _, .ok _ _, _ => false
    | _, _, _ => true

def decConsistentTE (C : CurveCtx) (cm : Compress) (bs : List Nat) (P : Nat × Nat) : Bool :=
  let p := C.c.p
  let bits := C.c.bits
  match cm with
  | .yes =>
    match specDecode p bits 1 1 bs with
    | .ok [y'] fb => y' == P.2 && teOnCurve C P && (P.1 == 0 || (fb == 0) == signPos p P.1)
    | .ok _ _ => false
    | _ => true
  | .no =>
    let s0 := ceil8 bits
    match specDecode p bits 0 1 (bs.take s0), specDecode p bits 0 1 (bs.drop s0) with
    | .ok [x'] _, .ok [y'] _ => x' == P.1 && y' == P.2
    | .ok _ _, .ok _ _ => false
    | _, _ => true

/-- the four point kinds handled uniformly: parse, model (de)serialisers, printers, canonical affine form -/
structure PointKind (C : CurveCtx) where
  T : Type
  parse : String → Option T
  show_ : T → String
  ser : T → Compress → Res (List Nat)
  de : Compress → Validate → M T
  /-- spec: affine coordinates denoted (`none` = SW identity) -/
  canon : T → Option (Nat × Nat)
  /-- spec: the representation a successful round trip returns -/
  back : Option (Nat × Nat) → String

def swE (C : CurveCtx) : SWCfg (Fp C.c.p) := swCfgFp ⟨C.a⟩ ⟨C.b⟩ C.h1 C.r
def teE (C : CurveCtx) : TECfg (Fp C.c.p) := teCfgFp ⟨C.a⟩ ⟨C.b⟩ C.r

def pointKind (C : CurveCtx) (proj : Bool) : PointKind C :=
  let K := fpCodec C.c
  match C.te, proj with
  | false, false =>
    { T := SWAff (Fp C.c.p), parse := parseSwAff C.c.p, show_ := swAffStr,
      ser := fun P cm => swSerialize K P cm, de := fun cm vd => swDeserialize K (swE C) cm vd,
      canon := swAffCanon,
      back := fun P => match P with | none => "inf" | some (x, y) => hex x ++ "/" ++ hex y }
  | false, true =>
    { T := SWProj (Fp C.c.p),
      parse := fun s => match parseFps C.c.p s with | some [x, y, z] => some ⟨x, y, z⟩ | _ => none,
      show_ := swProjStr,
      ser := fun P cm => swProjSerialize K P cm, de := fun cm vd => swProjDeserialize K (swE C) cm vd,
      canon := swProjCanon,
      back := fun P => match P with
        | none => hex (1 % C.c.p) ++ "/" ++ hex (1 % C.c.p) ++ "/0"
        | some (x, y) => hex x ++ "/" ++ hex y ++ "/" ++ hex (1 % C.c.p) }
  | true, false =>
    { T := TEAff (Fp C.c.p),
      parse := fun s => match parseFps C.c.p s with | some [x, y] => some ⟨x, y⟩ | _ => none,
      show_ := teAffStr,
      ser := fun P cm => teSerialize K P cm, de := fun cm vd => teDeserialize K (teE C) cm vd,
      canon := fun P => some (P.x.val, P.y.val),
      back := fun P => match P with | none => "?" | some (x, y) => hex x ++ "/" ++ hex y }
  | true, true =>
    { T := TEProj (Fp C.c.p),
      parse := fun s => match parseFps C.c.p s with | some [x, y, t, z] => some ⟨x, y, t, z⟩ | _ => none,
      show_ := teProjStr,
      ser := fun P cm => teProjSerialize K P cm, de := fun cm vd => teProjDeserialize K (teE C) cm vd,
      canon := fun P => some (teProjCanon P),
      back := fun P => match P with
        | none => "?"
        | some (x, y) => hex x ++ "/" ++ hex y ++ "/" ++ hex (x * y % C.c.p) ++ "/" ++ hex (1 % C.c.p) }

def sizeOfKind (C : CurveCtx) (cm : Compress) : Nat :=
  if C.te then teSerializedSize (fpCodec C.c) cm else swSerializedSize (fpCodec C.c) cm

def validCanon (C : CurveCtx) (P : Option (Nat × Nat)) : Bool :=
  if C.te then (match P with | some q => teValid C q | none => false) else swValid C P

def onCurveCanon (C : CurveCtx) (P : Option (Nat × Nat)) : Bool :=
  if C.te then (match P with | some q => teOnCurve C q | none => false) else swOnCurve C P

def runPrt (C : CurveCtx) (proj : Bool) (cm : Compress) (vd : Validate) (ps : String) (impl : String) :
    Option (String × String) := do
  let PK := pointKind C proj
  let P ← PK.parse ps
  let m := rtStr (PK.ser P cm) (sizeOfKind C cm) (runM (PK.de cm vd)) PK.show_
  let canon := PK.canon P
  let verdict :=
    if impl == "panic" then "bad:panic"
    else if cm == .yes && !onCurveCanon C canon then "bad:input-not-on-curve"
    else match impl.splitOn ";" with
      | [bs, size, de, used] =>
        match parseList? bs, parseHex? size with
        | some bytes, some size =>
          if size != specPointSize C cm then "bad:size-formula"
          else if bytes.length != size then "bad:size-mismatch"
          else if !(if C.te then (match canon with | some q => encStrictTE C cm bytes q | none => false)
                    else encStrictSW C cm bytes canon) then "bad:bytes"
          else
            let want :=
              if vd == .yes && !validCanon C canon then "err:invalid"
              else "ok " ++ PK.back canon
            if de != want then "bad:want-de=" ++ want
            else if used != hex size then "bad:consumed"
            else "ok"
        | _, _ => "bad:parse"
      | _ => "bad:" ++ impl
  some (m, verdict)

/-- parse a point printed by the harness into its affine coordinates (spec side; `none` = unparsable) -/
def canonOfString (C : CurveCtx) (proj : Bool) (s : String) : Option (Option (Nat × Nat) × Bool) :=
  -- second component: all printed coordinates are reduced
  let p := C.c.p
  match C.te, proj with
  | false, false =>
    (parseSwAff p s).map (fun P => (swAffCanon P, P.x.val < p && P.y.val < p))
  | false, true =>
    match parseFps p s with
    | some [x, y, z] =>
      -- a deserialised projective point is `(x, y, 1)` or `(1, 1, 0)`
      if z.val == 0 then (if x.val == 1 % p && y.val == 1 % p then some (none, true) else none)
      else if z.val == 1 % p then some (some (x.val, y.val), x.val < p && y.val < p)
      else none
    | _ => none
  | true, false =>
    match parseFps p s with
    | some [x, y] => some (some (x.val, y.val), x.val < p && y.val < p)
    | _ => none
  | true, true =>
    match parseFps p s with
    | some [x, y, t, z] =>
      if z.val == 1 % p && t.val == x.val * y.val % p then some (some (x.val, y.val), x.val < p && y.val < p) else none
    | _ => none

def runMpde (C : CurveCtx) (proj : Bool) (cm : Compress) (vd : Validate) (bs : List Nat) (impl : String) :
    Option (String × String) := do
  let PK := pointKind C proj
  let m := deStr PK.show_ (runM (PK.de cm vd) bs)
  let size := specPointSize C cm
  let verdict :=
    if impl == "panic" then "bad:panic"
    else match impl.splitOn ";" with
      | [de, used] =>
        match parseHex? used with
        | none => "bad:parse"
        | some used =>
          if used > size then "bad:read-past-size"
          else if bs.length < size then (if de.startsWith "err:" then "ok" else "bad:want=err")
          else if de.startsWith "ok " then
            if used != size then "bad:consumed"
            else match canonOfString C proj (de.drop 3).toString with
              | none => "bad:shape"
              | some (canon, reduced) =>
                if !reduced then "bad:range"
                else if !(if C.te then (match canon with | some q => decConsistentTE C cm bs q | none => false)
                          else decConsistentSW C cm bs canon) then "bad:not-the-encoded-point"
                else if vd == .yes && !validCanon C canon then "bad:invalid-point-accepted"
                else "ok"
          else if de.startsWith "err:" then "ok"
          else "bad:" ++ impl
      | _ => "bad:" ++ impl
  some (m, verdict)

/-! ## dispatch -/

def run (op : String) (args : List String) (impl : String) : Option (String × String) := do
  match op, args with
  | "frt", [p, n, t, cm, vd, x] =>
    let F ← parseFD p n t
    runFrt F (← parseCompress cm) (← parseValidate vd) x impl
  | "fflrt", [p, n, t, fname, mask, x] =>
    let F ← parseFD p n t
    runFflrt F fname (← parseHex? mask) x impl
  | "funiq", [p, n, t, fname, bs] =>
    let F ← parseFD p n t
    runFuniq F fname (← parseList? bs) impl
  | "frb", [p, n, t, fname, bs] =>
    let F ← parseFD p n t
    runFrb F fname (← parseList? bs) impl
  | "mfde", [p, n, t, cm, vd, bs] =>
    let F ← parseFD p n t
    runMfde F (← parseCompress cm) (← parseValidate vd) (← parseList? bs) impl
  | "mfdefl", [p, n, t, fname, bs] =>
    let F ← parseFD p n t
    runMfdefl F fname (← parseList? bs) impl
  | "prt", [kind, p, n, t, a, b, r, h1, rep, cm, vd, ps] =>
    let C ← parseCD kind p n t a b r h1
    let proj ← if rep == "proj" then some true else if rep == "aff" then some false else none
    runPrt C proj (← parseCompress cm) (← parseValidate vd) ps impl
  | "mpde", [kind, p, n, t, a, b, r, h1, rep, cm, vd, bs] =>
    let C ← parseCD kind p n t a b r h1
    let proj ← if rep == "proj" then some true else if rep == "aff" then some false else none
    runMpde C proj (← parseCompress cm) (← parseValidate vd) (← parseList? bs) impl
  | _, _ => none

end Ark.DrvC09
