import Ark.Model.Mont
/-
  Ark.Model.Lit — executable model of the compile-time literal path (property C20):

  * `ff-macros/src/utils.rs`      `parse_string`, `str_to_limbs`, `str_to_limbs_u64`
  * `ff-macros/src/lib.rs`        `to_sign_and_limbs!`, `#[derive(MontConfig)]` (`mont_config`, `fetch_attr`)
  * `ff-macros/src/montgomery/mod.rs`  `mont_config_helper` (limb-count loop, trace, roots of unity)
  * `ff/src/biginteger/mod.rs`    `BigInt!`, `two_adic_valuation`, `TryFrom<BigUint>`, `FromStr for BigInt<N>`
  * `ff/src/fields/models/fp/montgomery_backend.rs`  `MontFp!`, `Fp::from_sign_and_limbs`, `const_neg`
    (`Fp::new` and the const CIOS are `Ark.Mont.fpNew` / `Ark.Mont.constMul`)
  * `ff/src/fields/models/fp/mod.rs`  `FromStr for Fp` (run-time twin of `MontFp!`)

  The string → number step goes through the crate `num-bigint` (0.4.8).  Its *lexical* rules
  (`BigInt::from_str_radix`, `BigUint::from_str_radix`: signs, `_`, digit classes, error cases) are
  modelled below rule by rule; the positional evaluation of the normalised digit vector
  (`from_bitwise_digits_le` / `from_radix_digits_be`) and `BigUint::modpow` are treated as `Nat`
  arithmetic (Horner / square-and-multiply).

  A string is a `List Char`.  `num-bigint` works on bytes: every byte of a non-ASCII character is
  `≥ 0x80` and therefore an invalid digit, exactly like the non-ASCII `Char` here.

  Mathlib-free: linked into the `arkdrv` executable.
-/
namespace Ark.Lit
open Ark Ark.Mont

/-! ## 1. `num-bigint` lexical rules -/

/-- the byte → digit map of `BigUint::from_str_radix`:
    `b'0'..=b'9' => b - b'0', b'a'..=b'z' => b - b'a' + 10, b'A'..=b'Z' => b - b'A' + 10, _ => u8::MAX`
    (`b'_'` is handled by the caller) -/
def digitVal (c : Char) : Nat :=
  if '0' ≤ c ∧ c ≤ '9' then c.toNat - '0'.toNat
  else if 'a' ≤ c ∧ c ≤ 'z' then c.toNat - 'a'.toNat + 10
  else if 'A' ≤ c ∧ c ≤ 'Z' then c.toNat - 'A'.toNat + 10
  else 255

/-- the normalisation loop `for b in s.bytes()`: `_` is skipped (`continue`), a digit `≥ radix`
    (in particular `u8::MAX`) is `ParseBigIntError::invalid()` -/
def normDigits (radix : Nat) : List Char → Option (List Nat)
  | [] => some []
  | c :: cs =>
    if c == '_' then normDigits radix cs
    else
      let d := digitVal c
      if d < radix then (normDigits radix cs).map (d :: ·) else none

/-- value of a most-significant-first digit vector (stands for `from_bitwise_digits_le` on the
    reversed vector / `from_radix_digits_be`) -/
def digitsValueBE (radix : Nat) (ds : List Nat) : Nat := ds.foldl (fun acc d => acc * radix + d) 0

/-- `<BigUint as Num>::from_str_radix(s, radix)`:
    one leading `+` is stripped unless a second `+` follows; empty ⇒ error; leading `_` ⇒ error -/
def bigUintFromStrRadix (s : List Char) (radix : Nat) : Option Nat :=
  let s1 := match s with
    | '+' :: tail => (match tail with
      | '+' :: _ => s
      | _ => tail)
    | _ => s
  match s1 with
  | [] => none
  | '_' :: _ => none
  | _ => (normDigits radix s1).map (digitsValueBE radix)

/-- `<BigInt as Num>::from_str_radix(s, radix)`: one leading `-` is stripped unless a `+` follows
    (then the `-` stays and is an invalid digit); `BigInt::from_biguint(Minus, 0)` is zero -/
def bigIntFromStrRadix (s : List Char) (radix : Nat) : Option Int :=
  match s with
  | '-' :: tail =>
    let s1 := match tail with
      | '+' :: _ => s
      | _ => tail
    (bigUintFromStrRadix s1 radix).map (fun m => - (m : Int))
  | _ => (bigUintFromStrRadix s radix).map (fun m => (m : Int))

/-- `num_bigint::Sign` -/
inductive Sign where
  | minus | noSign | plus
  deriving DecidableEq, Repr

def signOf (k : Int) : Sign := if k < 0 then .minus else if k = 0 then .noSign else .plus

/-- little-endian hexits of a non-zero magnitude, most significant one non-zero
    (`to_bitwise_digits_le(u, 4)`); `fuel ≥` number of hexits (any `fuel ≥ n` works) -/
def hexitsLE : Nat → Nat → List Nat
  | 0, _ => []
  | fuel + 1, n => if n = 0 then [] else n % 16 :: hexitsLE fuel (n / 16)

/-- `BigUint::to_radix_le(16)`: `vec![0]` for zero -/
def toRadixLE16 (n : Nat) : List Nat := if n = 0 then [0] else hexitsLE n n

/-- `BigInt::to_radix_le(16)` = `(self.sign, self.data.to_radix_le(16))` -/
def bigIntToRadixLE16 (k : Int) : Sign × List Nat := (signOf k, toRadixLE16 k.natAbs)

/-! ## 2. `str_to_limbs_u64`, `to_sign_and_limbs!` -/

/-- the closure of `digits.chunks(16).map(..)`:
    `for (i, hexit) in chunk.iter().enumerate() { this += (*hexit as u64) << (4 * i) }`
    (`i ≤ 15`, `hexit ≤ 15`: neither the shift nor the sum can overflow a `u64`) -/
def limbOfChunk : List Nat → Nat → Nat
  | [], _ => 0
  | h :: t, i => h * 2 ^ (4 * i) + limbOfChunk t (i + 1)

/-- `str_to_limbs_u64(num) -> (sign_is_positive, limbs)`; `.panic` = `expect("could not parse to bigint")`.
    Branch order as in the code: a leading `-` is removed first, then the prefixes `0x|0X`, `0o|0O`,
    `0b|0B` are tried in this order, else decimal; the remainder is handed to `BigInt::from_str_radix`
    (which accepts a sign of its own). -/
def strToLimbsU64 (num : List Char) : Outcome (Bool × List Nat) :=
  let isNegative := match num with
    | '-' :: _ => true
    | _ => false
  let num1 := if isNegative then num.drop 1 else num
  let number : Option Int := match num1 with
    | '0' :: 'x' :: rest => bigIntFromStrRadix rest 16
    | '0' :: 'X' :: rest => bigIntFromStrRadix rest 16
    | '0' :: 'o' :: rest => bigIntFromStrRadix rest 8
    | '0' :: 'O' :: rest => bigIntFromStrRadix rest 8
    | '0' :: 'b' :: rest => bigIntFromStrRadix rest 2
    | '0' :: 'B' :: rest => bigIntFromStrRadix rest 2
    | _ => bigIntFromStrRadix num1 10
  match number with
  | none => .panic
  | some k =>
    let k1 := if isNegative then -k else k
    let (sign, digits) := bigIntToRadixLE16 k1
    let limbs := (chunks 16 digits digits.length).map (fun ch => limbOfChunk ch 0)
    .ok (sign != Sign.minus, limbs)

/-- what the proc-macro receives: `syn::parse::<Expr>(input)` of the token stream -/
inductive MacroArg where
  | groupStr (s : List Char)   -- `Expr::Group` around a string literal (the shape produced by `$c0:expr`)
  | groupOther                 -- `Expr::Group` around any other literal or expression
  | bare                       -- not an `Expr::Group` (direct call of `to_sign_and_limbs!`)

/-- `parse_string`: `panic!("could not parse")` unless the expression is a group -/
def parseString : MacroArg → Outcome (Option (List Char))
  | .groupStr s => .ok (some s)
  | .groupOther => .ok none
  | .bare => .panic

/-- `to_sign_and_limbs!` on the string value of the literal. `str_to_limbs` prints every limb as
    `"{l}u64"`, the pieces are joined into the source text `(is_positive, [l0u64, l1u64, …])` and
    re-parsed by rustc: the identity on `(Bool, [u64; k])` (translation boundary, not modelled). -/
def toSignAndLimbs (s : List Char) : Outcome (Bool × List Nat) := strToLimbsU64 s

def toSignAndLimbsArg (a : MacroArg) : Outcome (Bool × List Nat) :=
  match parseString a with
  | .panic => .panic
  | .ok none => .panic                      -- `.expect("expected decimal string")`
  | .ok (some s) => toSignAndLimbs s

/-! ## 3. `BigInt!`, `Fp::from_sign_and_limbs`, `MontFp!` -/

/-- `for i in 0..limbs.len() { repr.0[i] = limbs[i] }` on `[0; N]` (requires `limbs.len() ≤ N`) -/
def padTo (n : Nat) (limbs : List Nat) : List Nat := limbs ++ List.replicate (n - limbs.length) 0

/-- `BigInt!(s)` at type `BigInt<N>`: `assert!(is_positive); assert!(integer.0.len() >= limbs.len())`.
    `.panic` = the constant does not compile. -/
def bigIntMacro (n : Nat) (s : List Char) : Outcome (List Nat) :=
  match toSignAndLimbs s with
  | .panic => .panic
  | .ok (isPositive, limbs) =>
    if !isPositive then .panic
    else if !(n ≥ limbs.length) then .panic
    else .ok (padTo n limbs)

/-- `const_neg`: `if !self.const_is_zero() { MODULUS - self } else { self }` -/
def constNeg (c : MontCfg) (a : List Nat) : List Nat :=
  if !isZero a then (subB c.p a 0).1 else a

/-- `Fp::from_sign_and_limbs(is_positive, limbs)`: `assert!(limbs.len() <= N)`, zero-extend,
    `Self::new(repr)` (const CIOS by `R2`, *no* range check: `repr` may be `≥ p`), then `const_neg` -/
def fromSignAndLimbs (c : MontCfg) (isPositive : Bool) (limbs : List Nat) : Outcome (List Nat) :=
  if !(limbs.length ≤ c.n) then .panic
  else
    let res := fpNew c (padTo c.n limbs)
    .ok (if isPositive then res else constNeg c res)

/-- `MontFp!(s)` at the field of configuration `c`; the result is the list of Montgomery limbs -/
def montFp (c : MontCfg) (s : List Char) : Outcome (List Nat) :=
  match toSignAndLimbs s with
  | .panic => .panic
  | .ok (isPositive, limbs) => fromSignAndLimbs c isPositive limbs

/-! ## 4. run-time parsers: `FromStr for BigInt<N>`, `FromStr for Fp` -/

/-- `to_bitwise_digits_le(u, 8)` for `u ≠ 0` -/
def bytesLE : Nat → Nat → List Nat
  | 0, _ => []
  | fuel + 1, n => if n = 0 then [] else n % 256 :: bytesLE fuel (n / 256)

/-- `BigUint::to_bytes_le`: `vec![0]` for zero -/
def bigUintToBytesLE (n : Nat) : List Nat := if n = 0 then [0] else bytesLE n n

/-- `u64::from_le_bytes(chunk_padded)` -/
def limbOfBytes : List Nat → Nat
  | [] => 0
  | b :: bs => b + 256 * limbOfBytes bs

/-- `TryFrom<BigUint> for BigInt<N>`: `Err(())` iff `bytes.len() > N * 8` -/
def bigIntTryFromBigUint (n : Nat) (v : Nat) : Option (List Nat) :=
  let bytes := bigUintToBytesLE v
  if bytes.length > n * 8 then none
  else some (padTo n ((chunks 8 bytes bytes.length).map limbOfBytes))

/-- `FromStr for BigInt<N>`: `BigUint::from_str(s)` then `try_from` -/
def bigIntFromStr (n : Nat) (s : List Char) : Option (List Nat) :=
  match bigUintFromStrRadix s 10 with
  | none => none
  | some v => bigIntTryFromBigUint n v

/-- `FromStr for Fp<P, N>`: `BigInt::from_str(s)? % modulus` (truncated remainder: sign of the
    dividend), `+= modulus` if negative, `BigUint::try_from`, `BigInt::<N>::try_from`,
    `from_bigint` (run-time multiplication of the flavour).  `none` = `Err(())`. -/
def fpFromStr (c : MontCfg) (s : List Char) : Option (List Nat) :=
  match bigIntFromStrRadix s 10 with
  | none => none
  | some k =>
    let modulus : Int := (value c.p : Int)
    let a := Int.tmod k modulus
    let a1 := if a < 0 then a + modulus else a
    if a1 < 0 then none                                     -- `BigUint::try_from(a)`
    else match bigIntTryFromBigUint c.n a1.toNat with
      | none => none
      | some r => fromBigint c r

/-! ## 5. `#[derive(MontConfig)]` -/

/-- result of a computation that runs inside rustc: a value, a panic (= compile error), or a loop
    that never ends (the build hangs / const-eval is aborted) -/
inductive CT (α : Type) where
  | ok : α → CT α
  | panic : CT α
  | diverge : CT α
  deriving Repr

/-- `let mut cur = 1 << 64; while cur < modulus { limbs += 1; cur <<= 64 }` — fuel-bounded
    (`cur` reaches `modulus` after at most `modulus` rounds) -/
def limbLoop (modulus : Nat) : Nat → Nat → Nat → Nat
  | 0, _, limbs => limbs
  | fuel + 1, cur, limbs =>
    if cur < modulus then limbLoop modulus fuel (cur * B) (limbs + 1) else limbs

/-- the derive macro's limb count -/
def macroLimbCount (modulus : Nat) : Nat := limbLoop modulus modulus B 1

/-- `while !trace.bit(0) { trace >>= 1 }` — `none` when the fuel runs out (only for `trace = 0`) -/
def traceLoop : Nat → Nat → Option Nat
  | 0, _ => none
  | fuel + 1, t => if t % 2 == 1 then some t else traceLoop fuel (t / 2)

/-- `trace = modulus - 1` (`BigUint` subtraction panics on underflow), then the halving loop,
    which does not terminate for `modulus = 1` -/
def macroTrace (modulus : Nat) : CT Nat :=
  if modulus = 0 then .panic
  else match traceLoop (modulus + 1) (modulus - 1) with
    | some t => .ok t
    | none => .diverge

/-- binary exponentiation, most significant bit first (stands for `BigUint::modpow`, which panics on
    a zero modulus) -/
def modPowBits (m b : Nat) : List Bool → Nat → Nat
  | [], acc => acc
  | bit :: bits, acc =>
    let sq := (acc * acc) % m
    modPowBits m b bits (if bit then (sq * b) % m else sq)

def natBitsLE : Nat → Nat → List Bool
  | 0, _ => []
  | fuel + 1, n => if n = 0 then [] else (n % 2 == 1) :: natBitsLE fuel (n / 2)

def modPow (b e m : Nat) : Nat := modPowBits m (b % m) (natBitsLE e e).reverse (1 % m)

/-- `BigUint::from(base).pow(power)` -/
def natPow (b e : Nat) : Nat := b ^ e

/-- everything `mont_config_helper` computes before emitting tokens -/
structure Derived where
  limbs : Nat
  modulusLimbs : List Nat                 -- `str_to_limbs_u64(&modulus.to_string()).1`
  spare : Bool                            -- `modulus_has_spare_bit`
  noCarry : Bool                          -- `can_use_no_carry_mul_opt`
  generator : List Char                   -- decimal text passed to `MontFp!`
  root : List Char                        -- `two_adic_root_of_unity.to_string()`
  large : Option (List Char)              -- `large_subgroup_generator`
  smallBase : Option Nat
  smallPower : Option Nat
  deriving Repr

/-- `BigUint::to_string()` (canonical decimal) -/
def decimal (n : Nat) : List Char := (Nat.repr n).toList

/-- `mont_config_helper(modulus, generator, small_subgroup_base, small_subgroup_power, _)` -/
def montConfigHelper (modulus generator : Nat) (base power : Option Nat) : CT Derived :=
  let limbs := macroLimbCount modulus
  match macroTrace modulus with
  | .panic => .panic
  | .diverge => .diverge
  | .ok trace =>
    let remaining : CT (Option Nat) := match base, power with
      | some b, some k => if natPow b k = 0 then .panic else .ok (some (trace / natPow b k))   -- division by zero panics
      | none, none => .ok none
      | _, _ => .panic            -- "Must specify both `small_subgroup_base` and `small_subgroup_power`"
    match remaining with
    | .panic => .panic
    | .diverge => .diverge
    | .ok rem =>
      -- `modulus ≠ 0` here, so `modpow` does not panic
      let root := modPow generator trace modulus
      let large := rem.map (fun e => decimal (modPow generator e modulus))
      match strToLimbsU64 (decimal modulus) with
      | .panic => .panic
      | .ok (_, modulusLimbs) =>
        match modulusLimbs.getLast? with
        | none => .panic                                  -- `.last().unwrap()`
        | some top =>
          let spare := top / 2 ^ 63 == 0
          let firstLimbCheck := decide (top < 2 ^ 63 - 1)
          -- `modulus_limbs[..limbs - 1]` panics if `limbs - 1 > len`
          if limbs ≠ 1 ∧ limbs - 1 > modulusLimbs.length then .panic
          else
            let noCarry := if limbs == 1 then firstLimbCheck
              else firstLimbCheck && (modulusLimbs.take (limbs - 1)).any (· != B - 1)
            .ok { limbs := limbs, modulusLimbs := modulusLimbs, spare := spare, noCarry := noCarry,
                  generator := decimal generator, root := decimal root, large := large,
                  smallBase := base, smallPower := power }

/-- `str::parse::<u32>()`: optional single `+`, then one or more ASCII digits (no `_`), value `< 2^32` -/
def parseU32Digits : List Char → Nat → Option Nat
  | [], acc => some acc
  | c :: cs, acc =>
    if '0' ≤ c ∧ c ≤ '9' then
      let acc1 := acc * 10 + (c.toNat - '0'.toNat)
      if acc1 < 2 ^ 32 then parseU32Digits cs acc1 else none
    else none

def parseU32 (s : List Char) : Option Nat :=
  let s1 := match s with
    | '+' :: t => t
    | _ => s
  match s1 with
  | [] => none
  | _ => parseU32Digits s1 0

/-- the derive entry point `mont_config`: attribute strings as `fetch_attr` returns them
    (`none` = attribute absent).  `modulus`/`generator` go through `BigUint::from_str`. -/
def montConfigDerive (modulus generator base power : Option (List Char)) : CT Derived :=
  match modulus with
  | none => .panic                                              -- "Please supply a modulus attribute"
  | some ms =>
    match bigUintFromStrRadix ms 10 with
    | none => .panic                                            -- "Modulus should be a number"
    | some m =>
      match generator with
      | none => .panic
      | some gs =>
        match bigUintFromStrRadix gs 10 with
        | none => .panic
        | some g =>
          let pb : CT (Option Nat) := match base with
            | none => .ok none
            | some s => (match parseU32 s with
              | some v => .ok (some v)
              | none => .panic)
          let pp : CT (Option Nat) := match power with
            | none => .ok none
            | some s => (match parseU32 s with
              | some v => .ok (some v)
              | none => .panic)
          match pb, pp with
          | .ok b, .ok k => montConfigHelper m g b k
          | _, _ => .panic

/-- `BigInt::two_adic_valuation` (const): `assert!(odd)`, `self.0[0] -= 1`, count `const_shr`s while
    even.  The loop never ends on the value `1`. -/
def twoAdicLoop : Nat → List Nat → Nat → Option Nat
  | 0, _, _ => none
  | fuel + 1, a, acc => if a.headD 0 % 2 == 0 then twoAdicLoop fuel (div2 a) (acc + 1) else some acc

def twoAdicValuation (a : List Nat) : CT Nat :=
  match a with
  | [] => .panic
  | a0 :: rest =>
    if a0 % 2 != 1 then .panic
    else match twoAdicLoop (64 * a.length + 1) ((a0 - 1) :: rest) 0 with
      | some s => .ok s
      | none => .diverge

/-- the associated constants of the generated `impl MontConfig<limbs>` as const evaluation
    produces them (Montgomery limbs) -/
structure DerivedConsts where
  n : Nat
  cfg : MontCfg
  modulus : List Nat
  twoAdicity : Nat
  generator : List Nat
  root : List Nat
  large : Option (List Nat)

def derivedConsts (d : Derived) : CT DerivedConsts :=
  -- `const MODULUS: BigInt<#limbs> = BigInt([#(#modulus_limbs),*])`: array length must match
  if d.modulusLimbs.length ≠ d.limbs then .panic
  else
    let c := mkCfg true d.limbs (value d.modulusLimbs)
    match twoAdicValuation d.modulusLimbs with
    | .panic => .panic
    | .diverge => .diverge
    | .ok s =>
      match montFp c d.generator, montFp c d.root with
      | .ok g, .ok r =>
        match d.large with
        | none => .ok { n := d.limbs, cfg := c, modulus := d.modulusLimbs, twoAdicity := s, generator := g, root := r, large := none }
        | some ls =>
          match montFp c ls with
          | .ok l => .ok { n := d.limbs, cfg := c, modulus := d.modulusLimbs, twoAdicity := s, generator := g, root := r, large := some l }
          | .panic => .panic
      | _, _ => .panic

end Ark.Lit
