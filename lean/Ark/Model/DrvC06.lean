import Ark.Model.Pairing
import Ark.Model.DrvC02
import Ark.Model.Proto
/-
  Driver dispatch for C06 (pairings).

  Header line (cached by id):  `cfg <id> <family> key=value… => <extension degree of the target field>`
    common : p r
    bls12  : nr2 fr2 nr6 fr6c1 fr6c2 nr12 fr12   x xneg tw b2
    bn     : (same tower)                         x xneg alc tw qx qy b2
    bw6    : nr3 fr3c1 fr3c2 nr6 fr6              x xneg xm1d3 alc1 alc1neg alc2 alc2neg tw ht hy tmodr b2 hard
    mnt4   : nr2 fr2 nr4 fr4                      twist twa alc alcneg w1 w0neg w0
    mnt6   : nr3 fr3c1 fr3c2 nr6 fr6              twist twa alc alcneg w1 w0neg w0
  All values are the public trait constants of the configuration, read by the harness from the
  compiled crate.  The tower hooks are instantiated with the trait-default bodies (value-equal to the
  curve crates' overrides; that equality is C02 / C16 business).

  Elements of any tower level are comma-separated base-prime-field coordinates; points are `inf` or
  `x-coordinates,y-coordinates`; lists are `;`-separated (`_` = empty).

  Conformance ops (model column = the model's output): pairing multi miller finalexp prep g2prep g1prep
  outadd outsub outneg outdbl outmul.
  Tests of the real code (`t_*`; model column = the value the relation demands, or `any`):
  t_bilin t_addl t_addr t_nondeg t_idl t_idr t_multi t_prep t_femul t_fepow.

  The rest of the public API of `ec/src/pairing.rs` (conformance): mlomul outzero outiszero outzeroize outdisplay
  outaddv outsubv outdblv outmulv outsum outmulbig outmulbits valid vbatch deserb; tests: t_mlofe t_outrand t_outmsm.
  * `valid` / `vbatch` / `deserb`: accepted under `Validate::Yes` ⇔ every member satisfies `x^r = 1` (plain
    exponentiation over the schoolbook product), `Validate::No` accepts every canonical encoding.
  * `PairingOutput`'s group operations use the `cyclotomic_*` methods of the target field; the wrapped field is
    public, so operands outside `GT` are constructible: the model follows the code, the verdict is `note:` when a
    result deviates from the group law and some operand is outside `GT`, `bad:` when all operands are in `GT`.

  Every verdict is computed with the *independent* schoolbook arithmetic of `DrvC02`
  (`smul` / `spow` on flattened coordinates), never with the tower templates the model runs on.
-/
namespace Ark.DrvC06
open Ark Ark.Proto Ark.Ext Ark.Pairing
open Ark.DrvC02 (Shape smul spow unitVec fps showE showO showOO parseE vs)

/-! ## key=value header -/

abbrev KV := List (String × String)

def parseKV (l : List String) : KV :=
  l.filterMap fun s => match s.splitOn "=" with
    | [k, v] => some (k, v)
    | _ => none

def KV.get (kv : KV) (k : String) : Option String := (kv.find? (·.1 == k)).map (·.2)
def KV.nat (kv : KV) (k : String) : Option Nat := kv.get k >>= parseHex?
def KV.int (kv : KV) (k : String) : Option Int := kv.get k >>= parseInt?
def KV.list (kv : KV) (k : String) : Option (List Nat) := kv.get k >>= parseList?
def KV.ints (kv : KV) (k : String) : Option (List Int) := kv.get k >>= parseIntList?
def KV.bool (kv : KV) (k : String) : Option Bool := (kv.get k).map (· == "1")
def KV.twist (kv : KV) (k : String) : Option Twist :=
  match kv.get k with
  | some "M" => some .M
  | some "D" => some .D
  | _ => none

/-! ## instances -/

structure Inst where
  family : String
  p : Nat
  r : Nat
  shape : Shape
  /-- exponent of the power map the final exponentiation is expected to be (`t_fepow`), if specified -/
  feExp : Option Nat
  model : String → List String → Option String

structure Cache where
  insts : List (String × Inst) := []

section model
variable {p : Nat}

def splitList (s : String) : List String := if s == "_" then [] else s.splitOn ";"

def parsePt1 (s : String) : Option (Aff (Fp p)) :=
  if s == "inf" then some ⟨0, 0, true⟩
  else match parseList? s with
    | some [x, y] => some ⟨Fp.ofNat p x, Fp.ofNat p y, false⟩
    | _ => none

def parsePt2 {G : Type} [Zero G] (D : FieldD (Fp p) G) (s : String) : Option (Aff G) :=
  if s == "inf" then some ⟨0, 0, true⟩
  else do
    let l ← parseList? s
    let d := D.extDeg
    if l.length != 2 * d then none
    else
      let x ← D.fromPrimes (fps (l.take d))
      let y ← D.fromPrimes (fps (l.drop d))
      some ⟨x, y, false⟩

def showCoeffs {G : Type} (D : FieldD (Fp p) G) (cs : List (EllCoeff G)) : String :=
  if cs.isEmpty then "_"
  else joinWith ";" (cs.map fun c => showE D c.1 ++ "," ++ showE D c.2.1 ++ "," ++ showE D c.2.2)


/-! ## byte-level glue for the (de)serialization ops (the target field's own format is C09 / C10 business:
    every base-prime-field coordinate as `⌈bits(p)/8⌉` little-endian bytes, no flags) -/

def coordBytes (p : Nat) : Nat := (p.log2 + 1 + 7) / 8

def hexPairs? : List Char → Option (List Nat)
  | [] => some []
  | a :: b :: rest => do
    let x ← hexDigit? a; let y ← hexDigit? b
    let t ← hexPairs? rest
    some ((16 * x + y) :: t)
  | _ => none

/-- a byte string printed as two hex digits per byte (`_` = empty) -/
def hexBytes? (s : String) : Option (List Nat) := if s == "_" then some [] else hexPairs? s.toList

def leVal (bs : List Nat) : Nat := bs.foldr (fun b acc => b + 256 * acc) 0

def bytesLE : Nat → Nat → List Nat
  | 0, _ => []
  | n + 1, v => v % 256 :: bytesLE n (v / 256)

def showBytes (bs : List Nat) : String :=
  if bs.isEmpty then "_" else String.ofList (bs.flatMap fun b => [hexChar (b / 16), hexChar (b % 16)])

/-- `Fp::deserialize_with_flags::<EmptyFlags>` `deg` times (the extension towers read coordinate after
    coordinate): `read_exact` failing ↦ `io`, a value `≥ p` ↦ `invalid` -/
def readCoords (p : Nat) : Nat → List Nat → Except String (List Nat × List Nat)
  | 0, bs => .ok ([], bs)
  | d + 1, bs =>
    let n := coordBytes p
    if bs.length < n then .error "io"
    else
      let v := leVal (bs.take n)
      if v ≥ p then .error "invalid"
      else match readCoords p d (bs.drop n) with
        | .error e => .error e
        | .ok (cs, rest) => .ok (v :: cs, rest)

/-- `n` elements, one after the other -/
def readMany {α : Type} (rd : List Nat → Except String (α × List Nat)) : Nat → List Nat → Except String (List α × List Nat)
  | 0, bs => .ok ([], bs)
  | n + 1, bs =>
    match rd bs with
    | .error e => .error e
    | .ok (x, rest) => match readMany rd n rest with
      | .error e => .error e
      | .ok (xs, rest) => .ok (x :: xs, rest)

/-- the containers of `ark-serialize` around an element reader `rd` and a batch validity predicate `bc`
    (`Vec<T>`: `u64` length prefix, elements read with `Validate::No`, then `T::batch_check`; `[T; 2]`: the same
    without prefix; `Option<T>`: a `bool` tag byte, then `T::deserialize_with_mode(.., validate)`).
    Result: the list of elements (`none` = `Option::None`) -/
def deContainer {α : Type} (rd : List Nat → Except String (α × List Nat)) (bc : List α → Bool)
    (kind : String) (validate : Bool) (bs : List Nat) : Option (Except String (Option (List α))) :=
  let fin (r : Except String (List α × List Nat)) : Except String (Option (List α)) :=
    match r with
    | .error e => .error e
    | .ok (xs, _) => if validate && !bc xs then .error "invalid" else .ok (some xs)
  match kind with
  | "one" => some (fin (readMany rd 1 bs))
  | "arr2" => some (fin (readMany rd 2 bs))
  | "vec" =>
    if bs.length < 8 then some (.error "io")
    else some (fin (readMany rd (leVal (bs.take 8)) (bs.drop 8)))
  | "opt" =>
    match bs with
    | [] => some (.error "io")
    | 0 :: _ => some (.ok none)
    | 1 :: rest => some (fin (readMany rd 1 rest))
    | _ => some (.error "invalid")
  | _ => none

def showDe {α : Type} (sh : α → String) : Except String (Option (List α)) → String
  | .error e => "err:" ++ e
  | .ok none => "ok:none"
  | .ok (some xs) => "ok:" ++ (if xs.isEmpty then "_" else joinWith ";" (xs.map sh))

/-- `n` forms of the same operation on one line (a panic of any of them is the line's result) -/
def rep (n : Nat) (s : String) : String := if s == "panic" then s else joinWith ";" (List.replicate n s)

/-- `Display` of the tower types: `Fp` prints the decimal standard value, `QuadExtField(c0 + c1 * u)`,
    `CubicExtField(c0, c1, c2)` -/
def displayT : Shape → List Nat → String
  | .prime, a => toString (a.headD 0)
  | .ext k _ s, a =>
    let cs := (DrvC02.chunk s.deg k a).map (displayT s)
    if k == 2 then "QuadExtField(" ++ cs.headD "" ++ " + " ++ (cs.drop 1).headD "" ++ " * u)"
    else "CubicExtField(" ++ joinWith ", " cs ++ ")"

/-- the tokens of a `valid` line: check, batch_check of the singleton, checked / unchecked deserialization in both
    modes, `Option<_>`, the sizes (claimed compressed / uncompressed, written compressed / uncompressed), the bytes -/
def validTokens (p : Nat) (v : Bool) (coords : List Nat) : String :=
  let b := boolStr v
  let n := coordBytes p
  let sz := hex (n * coords.length)
  joinWith "," [b, b, b, b, "1", "1", b, sz ++ "/" ++ sz ++ "/" ++ sz ++ "/" ++ sz,
                showBytes (coords.flatMap (bytesLE n))]

/-- the tokens of a `vbatch` line -/
def batchTokens (p deg : Nat) (v : Bool) (len : Nat) : String :=
  let b := boolStr v
  let two := if len == 2 then b else "-"
  let sz := hex (8 + len * deg * coordBytes p)
  joinWith "," [b, b, b, b, "1", "1", two, two, sz ++ "/" ++ sz]

/-- the ops every family answers through the trait `Pairing` and `PairingOutput` -/
def engineModel {A1 A2 T : Type} [Mul T] [Zero T] [One T] [DecidableEq T]
    (Eng : Engine A1 A2 T) (DT : FieldD (Fp p) T) (C : CycD T) (r : Nat) (sh : Shape)
    (p1 : String → Option A1) (p2 : String → Option A2)
    (extra : String → List String → Option String) (op : String) (args : List String) : Option String :=
  match op, args with
  | "pairing", [a, b] => do let a ← p1 a; let b ← p2 b; some (showO DT (Eng.pairing a b))
  -- prepared inputs: `multiMillerLoop` IS `multiMillerLoopPrepared ∘ prepare`
  | "prep", [a, b] => do let a ← p1 a; let b ← p2 b; some (showO DT (Eng.pairing a b))
  | "multi", [as, bs] => do
    let as ← mapM? p1 (splitList as); let bs ← mapM? p2 (splitList bs)
    some (showO DT (Eng.multiPairing as bs))
  | "miller", [as, bs] => do
    let as ← mapM? p1 (splitList as); let bs ← mapM? p2 (splitList bs)
    some (showO DT (Eng.multiMillerLoop as bs))
  | "finalexp", [f] => do let f ← parseE DT f; some (showOO DT (Eng.finalExponentiation f))
  | "outadd", [a, b] => do let a ← parseE DT a; let b ← parseE DT b; some (showE DT (outAdd a b))
  | "outsub", [a, b] => do let a ← parseE DT a; let b ← parseE DT b; some (showO DT (outSub C a b))
  | "outneg", [a] => do let a ← parseE DT a; some (showO DT (outNeg C a))
  | "outdbl", [a] => do let a ← parseE DT a; some (showE DT (outDouble C a))
  | "outmul", [a, s] => do
    let a ← parseE DT a; let s ← parseHex? s
    -- `other.into_bigint()`: the limbs of the scalar field's `BigInt`
    some (showO DT (outMulBigint C a (toLimbs (s.log2 / 64 + 1) s)))
  -- ---- the rest of the public API of `ec/src/pairing.rs` ----
  | "mlomul", [f, s] => do
    let f ← parseE DT f; let s ← parseHex? s
    some (showE DT (mloMul DT f (toLimbs (r.log2 / 64 + 1) s)))
  | "outzero", [_] => some (showE DT (outZero : T))
  | "outiszero", [a] => do let a ← parseE DT a; some (boolStr (outIsZero a))
  | "outzeroize", [a] => do let a ← parseE DT a; some (showE DT (outZeroize a))
  | "outaddv", [a, b] => do let a ← parseE DT a; let b ← parseE DT b; some (rep 9 (showE DT (outAdd a b)))
  | "outsubv", [a, b] => do let a ← parseE DT a; let b ← parseE DT b; some (rep 9 (showO DT (outSub C a b)))
  | "outdblv", [a] => do let a ← parseE DT a; some (rep 2 (showE DT (outDouble C a)))
  | "outmulv", [a, s] => do
    let a ← parseE DT a; let s ← parseHex? s
    some (rep 7 (showO DT (outMulBigint C a (toLimbs (r.log2 / 64 + 1) s))))
  | "outsum", [l] => do
    let l ← mapM? (parseE DT) (splitList l)
    some (rep 2 (showE DT (outSum l)))
  | "outmulbig", [a, l] => do
    let a ← parseE DT a; let l ← parseList? l
    some (showO DT (outMulBigint C a l))
  | "outmulbits", [a, bits] => do
    let a ← parseE DT a; let bits ← parseBits? bits
    some (showO DT (outMulBitsBE C a bits))
  | "outdisplay", [a] => do let l ← parseList? a; let _ ← parseE DT a; some (displayT sh l)
  | "valid", [a] => do
    let l ← parseList? a; let a ← parseE DT a
    some (validTokens p (outCheck DT (DrvC02.charLimbs r) a) l)
  | "vbatch", [l] => do
    let l ← mapM? (parseE DT) (splitList l)
    some (batchTokens p DT.extDeg (outBatchCheck DT (DrvC02.charLimbs r) l) l.length)
  | "deserb", [kind, mode, bytes] => do
    let bs ← hexBytes? bytes
    let validate := mode.endsWith "y"
    let rd (bs : List Nat) : Except String (T × List Nat) :=
      match readCoords p DT.extDeg bs with
      | .error e => .error e
      | .ok (cs, rest) => match DT.fromPrimes (fps cs) with
        | some x => .ok (x, rest)
        | none => .error "invalid"
    let out ← deContainer rd (outBatchCheck DT (DrvC02.charLimbs r)) kind validate bs
    some (showDe (showE DT) out)
  | _, _ => extra op args

abbrev F2 (p : Nat) := Quad (Fp p)
abbrev F3 (p : Nat) := Cubic (Fp p)
abbrev F12 (p : Nat) := Quad (Cubic (Quad (Fp p)))
abbrev F6a (p : Nat) := Quad (Cubic (Fp p))
abbrev F4 (p : Nat) := Quad (Quad (Fp p))

def parseEls {E : Type} (D : FieldD (Fp p) E) (l : List Nat) : Option (List E) :=
  let d := D.extDeg
  if d = 0 ∨ l.length % d != 0 then none
  else mapM? (fun c => D.fromPrimes (fps c)) (DrvC02.chunk d (l.length / d) l)

/-- the Fp2 ⊂ Fp6 ⊂ Fp12 tower of BLS12 / BN with the trait-default hooks -/
def withTower12 {α : Type} (kv : KV)
    (k : (m2 : Mul (F2 p)) → FieldD (Fp p) (F2 p) → Fp6bCfg (F2 p) →
         (m12 : Mul (F12 p)) → FieldD (Fp p) (F12 p) → CycD (F12 p) → Shape → Option α) : Option α := do
  let nr2 ← kv.nat "nr2"; let fr2 ← kv.list "fr2"
  let nr6 ← kv.list "nr6"; let c1 ← kv.list "fr6c1"; let c2 ← kv.list "fr6c2"
  let nr12 ← kv.list "nr12"; let fr12 ← kv.list "fr12"
  let B0 := fpD p
  let cf2 := Fp2Cfg.default (Fp.ofNat p nr2) (fps (p := p) fr2)
  let q2 := cf2.wrap
  let m2 : Mul (F2 p) := ⟨Quad.mul q2 B0⟩
  let D2 := Quad.fieldD q2 B0
  let nr6e ← D2.fromPrimes (fps nr6)
  let c1e ← parseEls D2 c1
  let c2e ← parseEls D2 c2
  let cf6 := Fp6bCfg.default nr6e c1e c2e
  let q6 := cf6.wrap
  let _m6 : Mul (Cubic (F2 p)) := ⟨Cubic.mul q6⟩
  let D6 := Cubic.fieldD q6 D2
  let nr12e ← D6.fromPrimes (fps nr12)
  let t12 ← parseEls D2 fr12
  let q12 := Fp12.cfg cf6 nr12e t12
  let m12 : Mul (F12 p) := ⟨Quad.mul q12 D6⟩
  let D12 := Quad.fieldD q12 D6
  let gs := Fp12.cycSquare cf6 D2.double D12.square (DrvC02.charLimbs p)
  let C12 := CycD.conj D12 (some gs)
  k m2 D2 cf6 m12 D12 C12 (.ext 2 nr12 (.ext 3 nr6 (.ext 2 [nr2] .prime)))

/-- the Fp3 ⊂ Fp6 tower of BW6 / MNT6 -/
def withTower6a {α : Type} (kv : KV)
    (k : Fp3Cfg (Fp p) → (m3 : Mul (F3 p)) → FieldD (Fp p) (F3 p) →
         (m6 : Mul (F6a p)) → FieldD (Fp p) (F6a p) → CycD (F6a p) → Shape → Option α) : Option α := do
  let nr3 ← kv.nat "nr3"; let c1 ← kv.list "fr3c1"; let c2 ← kv.list "fr3c2"
  let nr6 ← kv.list "nr6"; let fr6 ← kv.list "fr6"
  let B0 := fpD p
  let c3 := Fp3Cfg.default (Fp.ofNat p nr3) (fps (p := p) c1) (fps c2)
  let q3 := c3.wrap
  let m3 : Mul (F3 p) := ⟨Cubic.mul q3⟩
  let D3 := Cubic.fieldD q3 B0
  let nr6e ← D3.fromPrimes (fps nr6)
  let q6 := Fp6a.cfg c3 nr6e (fps fr6)
  let m6 : Mul (F6a p) := ⟨Quad.mul q6 D3⟩
  let D6 := Quad.fieldD q6 D3
  let C6 := CycD.conj D6 none
  k c3 m3 D3 m6 D6 C6 (.ext 2 nr6 (.ext 3 [nr3] .prime))

/-- the Fp2 ⊂ Fp4 tower of MNT4 -/
def withTower4 {α : Type} (kv : KV)
    (k : (m2 : Mul (F2 p)) → FieldD (Fp p) (F2 p) →
         (m4 : Mul (F4 p)) → FieldD (Fp p) (F4 p) → CycD (F4 p) → Shape → Option α) : Option α := do
  let nr2 ← kv.nat "nr2"; let fr2 ← kv.list "fr2"
  let nr4 ← kv.list "nr4"; let fr4 ← kv.list "fr4"
  let B0 := fpD p
  let c2 := Fp2Cfg.default (Fp.ofNat p nr2) (fps (p := p) fr2)
  let q2 := c2.wrap
  let m2 : Mul (F2 p) := ⟨Quad.mul q2 B0⟩
  let D2 := Quad.fieldD q2 B0
  let nr4e ← D2.fromPrimes (fps nr4)
  let q4 := Fp4.cfg c2 nr4e (fps fr4)
  let m4 : Mul (F4 p) := ⟨Quad.mul q4 D2⟩
  let D4 := Quad.fieldD q4 D2
  let C4 := CycD.conj D4 none
  k m2 D2 m4 D4 C4 (.ext 2 nr4 (.ext 2 [nr2] .prime))

def fp2Field [Mul (F2 p)] (D2 : FieldD (Fp p) (F2 p)) : G2Field (Fp p) (F2 p) :=
  ⟨D2.square, D2.double, Fp2.mulAssignByFp⟩

def valueInt (neg : Bool) (l : List Nat) : Int := if neg then -(value l : Int) else (value l : Int)

def instBls12 (p r : Nat) (kv : KV) : Option Inst :=
  withTower12 (p := p) kv fun m2 D2 cf6 m12 D12 C12 sh => do
    let _ := m2; let _ := m12
    let x ← kv.list "x"; let xneg ← kv.bool "xneg"; let tw ← kv.twist "tw"
    let b2 ← kv.list "b2" >>= fun l => D2.fromPrimes (fps l)
    let E : Bls12 (Fp p) (Fp p) (F2 p) (F12 p) :=
      { x := x, xIsNegative := xneg, twist := tw, coeffB := b2, BF := fpD p, one := 1,
        K := fp2Field D2, oneG := 1, S := ⟨Fp12.mulBy014 cf6, Fp12.mulBy034 cf6⟩, DT := D12, C := C12 }
    let Eng : Engine (Aff (Fp p)) (Aff (F2 p)) (F12 p) := ⟨E.multiMillerLoop, E.finalExponentiation⟩
    let extra (op : String) (args : List String) : Option String :=
      match op, args with
      | "g2prep", [q] => do
        let q ← parsePt2 D2 q
        some (match E.g2Prepare q with
          | .panic => "panic"
          | .ok pr => if pr.infinity then "inf" else showCoeffs D2 pr.ellCoeffs)
      | _, _ => none
    let pk := p ^ 12 - 1
    some { family := "bls12", p := p, r := r, shape := sh,
           feExp := if pk % r == 0 then some (3 * (pk / r)) else none,
           model := engineModel Eng D12 C12 r sh parsePt1 (parsePt2 D2) extra }

def instBn (p r : Nat) (kv : KV) : Option Inst :=
  withTower12 (p := p) kv fun m2 D2 cf6 m12 D12 C12 sh => do
    let _ := m2; let _ := m12
    let x ← kv.list "x"; let xneg ← kv.bool "xneg"; let tw ← kv.twist "tw"
    let alc ← kv.ints "alc"
    let qx ← kv.list "qx" >>= fun l => D2.fromPrimes (fps l)
    let qy ← kv.list "qy" >>= fun l => D2.fromPrimes (fps l)
    let b2 ← kv.list "b2" >>= fun l => D2.fromPrimes (fps l)
    let E : Bn (Fp p) (Fp p) (F2 p) (F12 p) :=
      { x := x, xIsNegative := xneg, ateLoopCount := alc, twist := tw, twistMulByQX := qx, twistMulByQY := qy,
        coeffB := b2, BF := fpD p, one := 1, K := fp2Field D2, oneG := 1, frobG := D2.frob,
        S := ⟨Fp12.mulBy014 cf6, Fp12.mulBy034 cf6⟩, DT := D12, C := C12 }
    let Eng : Engine (Aff (Fp p)) (Aff (F2 p)) (F12 p) := ⟨E.multiMillerLoop, E.finalExponentiation⟩
    let extra (op : String) (args : List String) : Option String :=
      match op, args with
      | "g2prep", [q] => do
        let q ← parsePt2 D2 q
        some (match E.g2Prepare q with
          | .panic => "panic"
          | .ok pr => if pr.infinity then "inf" else showCoeffs D2 pr.ellCoeffs)
      | _, _ => none
    -- `elt^(2z(6z²+3z+1)·(q⁴-q²+1)/r)` after the easy part (comment in `bn/mod.rs`), `z` the signed `X`
    let z := valueInt xneg x
    let c := 2 * z * (6 * z * z + 3 * z + 1)
    let pk := p ^ 12 - 1
    let ord : Nat := (p ^ 4 + 1) - p ^ 2   -- Φ₁₂(p)
    some { family := "bn", p := p, r := r, shape := sh,
           feExp := if pk % r == 0 then some ((c % ((ord : Nat) : Int)).toNat * (pk / r)) else none,
           model := engineModel Eng D12 C12 r sh parsePt1 (parsePt2 D2) extra }

def instBw6 (p r : Nat) (kv : KV) : Option Inst :=
  withTower6a (p := p) kv fun c3 _m3 _D3 m6 D6 C6 sh => do
    let _ := m6
    let x ← kv.list "x"; let xneg ← kv.bool "xneg"; let xm ← kv.list "xm1d3"
    let alc1 ← kv.list "alc1"; let alc1neg ← kv.bool "alc1neg"
    let alc2 ← kv.ints "alc2"; let alc2neg ← kv.bool "alc2neg"
    let tw ← kv.twist "tw"; let ht ← kv.int "ht"; let hy ← kv.int "hy"; let tmodr ← kv.bool "tmodr"
    let b2 ← kv.nat "b2"; let hard ← kv.get "hard"
    let B0 := fpD p
    let E : Bw6 (Fp p) (Fp p) (F6a p) :=
      { x := x, xIsNegative := xneg, xMinus1Div3 := xm, ateLoopCount1 := alc1, ateLoopCount1IsNegative := alc1neg,
        ateLoopCount2 := alc2, ateLoopCount2IsNegative := alc2neg, twist := tw, hT := ht, hY := hy,
        tModRIsZero := tmodr, coeffB := Fp.ofNat p b2, BF := B0, one := 1,
        K := ⟨B0.square, B0.double, fun a e => a * e⟩,
        S := ⟨Fp6a.mulBy014 c3.nonresidue, Fp6a.mulBy034 c3.nonresidue⟩, DT := D6, C := C6,
        conj := Quad.conj, hardPartOverride := hard == "761" }
    let Eng : Engine (Aff (Fp p)) (Aff (Fp p)) (F6a p) := ⟨E.multiMillerLoop, E.finalExponentiation⟩
    let extra (op : String) (args : List String) : Option String :=
      match op, args with
      | "g2prep", [q] => do
        let q ← parsePt1 q
        some (match E.g2Prepare q with
          | .panic => "panic"
          | .ok pr => if pr.infinity then "inf"
                      else showCoeffs B0 pr.ellCoeffs1 ++ "/" ++ showCoeffs B0 pr.ellCoeffs2)
      | _, _ => none
    -- generic hard part: `(u+1)·Φ₆(p)/r` (comment in `bw6/mod.rs`); BW6-761 override: `3(u³-u²+1)·Φ₆(p)/r`
    -- (eprint 2020/351, Alg. 6); `u` the signed `X`
    let u := valueInt xneg x
    let c : Int := if hard == "761" then 3 * (u * u * u - u * u + 1) else u + 1
    let pk := p ^ 6 - 1
    some { family := "bw6", p := p, r := r, shape := sh,
           feExp := if pk % r == 0 then some ((c % (r : Int)).toNat * (pk / r)) else none,
           model := engineModel Eng D6 C6 r sh parsePt1 parsePt1 extra }

def showMntG2 {G : Type} (D : FieldD (Fp p) G) (pr : MntG2Prepared G) : String :=
  let sh := showE D
  let ds := if pr.doubleCoefficients.isEmpty then "_" else
    joinWith ";" (pr.doubleCoefficients.map fun c => sh c.cH ++ "," ++ sh c.c4C ++ "," ++ sh c.cJ ++ "," ++ sh c.cL)
  let as := if pr.additionCoefficients.isEmpty then "_" else
    joinWith ";" (pr.additionCoefficients.map fun c => sh c.cL1 ++ "," ++ sh c.cRZ)
  sh pr.x ++ ";" ++ sh pr.y ++ ";" ++ sh pr.xOverTwist ++ ";" ++ sh pr.yOverTwist ++ "/" ++ ds ++ "/" ++ as

def mntInst {G : Type} [Add G] [Sub G] [Mul G] [Neg G] [Zero G] [One G] [DecidableEq G] [Mul (Quad G)]
    (fam : String) (p r : Nat) (kv : KV) (isMnt6 : Bool) (mulByFp : G → Fp p → G) (embed : Fp p → G)
    (DG : FieldD (Fp p) G) (DT : FieldD (Fp p) (Quad G)) (C : CycD (Quad G)) (sh : Shape) : Option Inst := do
  let twist ← kv.list "twist" >>= fun l => DG.fromPrimes (fps l)
  let twa ← kv.list "twa" >>= fun l => DG.fromPrimes (fps l)
  let alc ← kv.ints "alc"; let alcneg ← kv.bool "alcneg"
  let w1 ← kv.list "w1"; let w0neg ← kv.bool "w0neg"; let w0 ← kv.list "w0"
  let E : Mnt (Fp p) (Fp p) G :=
    { isMnt6 := isMnt6, twist := twist, twistCoeffA := twa, ateLoopCount := alc, ateIsLoopCountNeg := alcneg,
      finalExponentLastChunk1 := w1, finalExponentLastChunkW0IsNeg := w0neg, finalExponentLastChunkAbsOfW0 := w0,
      mulByFp := mulByFp, embed := embed, oneG := 1, DG := DG, DT := DT, C := C }
  let Eng : Engine (Aff (Fp p)) (Aff G) (Quad G) := ⟨E.multiMillerLoop, E.finalExponentiation⟩
  let extra (op : String) (args : List String) : Option String :=
    match op, args with
    | "g2prep", [q] => do
      let q ← parsePt2 DG q
      some (match E.g2Prepare q with
        | .panic => "panic"
        | .ok pr => showMntG2 DG pr)
    | "g1prep", [a] => do
      let a ← parsePt1 a
      let pr := E.g1Prepare a
      some (hex pr.x.val ++ ";" ++ hex pr.y.val ++ ";" ++ showE DG pr.xTwist ++ ";" ++ showE DG pr.yTwist)
    | _, _ => none
  -- first chunk `q^(k/2) - 1` (MNT6: times `q + 1`), last chunk `w1·q + w0`
  let w : Int := (value w1 : Int) * p + valueInt w0neg w0
  let first : Nat := if isMnt6 then (p ^ 3 - 1) * (p + 1) else p ^ 2 - 1
  some { family := fam, p := p, r := r, shape := sh,
         feExp := if w ≥ 0 then some (first * w.toNat) else none,
         model := engineModel Eng DT C r sh parsePt1 (parsePt2 DG) extra }

def instMnt4 (p r : Nat) (kv : KV) : Option Inst :=
  withTower4 (p := p) kv fun m2 D2 m4 D4 C4 sh =>
    let _ := m2; let _ := m4
    mntInst "mnt4" p r kv false Fp2.mulAssignByFp (fun x => (⟨x, 0⟩ : F2 p)) D2 D4 C4 sh

def instMnt6 (p r : Nat) (kv : KV) : Option Inst :=
  withTower6a (p := p) kv fun _c3 m3 D3 m6 D6 C6 sh =>
    let _ := m3; let _ := m6
    mntInst "mnt6" p r kv true Fp3.mulAssignByFp (fun x => (⟨x, 0, 0⟩ : F3 p)) D3 D6 C6 sh

end model

def buildInst (family : String) (kv : KV) : Option Inst := do
  let p ← kv.nat "p"; let r ← kv.nat "r"
  match family with
  | "bls12" => instBls12 p r kv
  | "bn" => instBn p r kv
  | "bw6" => instBw6 p r kv
  | "mnt4" => instMnt4 p r kv
  | "mnt6" => instMnt6 p r kv
  | _ => none

/-! ## the executable spec (verdicts) -/

def parseT (I : Inst) (s : String) : Option (List Nat) := do
  let l ← parseList? s
  if l.length == I.shape.deg && l.all (· < I.p) then some l else none

def oneT (I : Inst) : List Nat := unitVec I.p I.shape.deg 0
def mulT (I : Inst) (a b : List Nat) : List Nat := smul I.p I.shape a b
def powT (I : Inst) (a : List Nat) (e : Nat) : List Nat := spow I.p I.shape a e

/-- an output of the pairing: a target-field element of order dividing `r` -/
def isOutput (I : Inst) (impl : String) (k : List Nat → String) : String :=
  if impl == "panic" then "bad:panic"
  else match parseT I impl with
    | none => "bad:malformed"
    | some v => if powT I v I.r == oneT I then k v else "bad:order-not-dividing-r"


/-- membership in the target group `GT = {x : x^r = 1}`, by plain exponentiation -/
def inGT (I : Inst) (v : List Nat) : Bool := powT I v I.r == oneT I

/-- `PairingOutput`'s arithmetic goes through the `cyclotomic_*` methods of the target field, which are only
    specified for members of the cyclotomic subgroup; the field of `PairingOutput` is public, so any field element
    can be wrapped.  A result that deviates from the group law is a violation when all operands lie in `GT`,
    and a note (outside the type's invariant) otherwise.  Membership is only computed on deviation. -/
def gtAware (I : Inst) (operands : List (List Nat)) (good : Bool) (want : String) : String :=
  if good then "ok"
  else if operands.all (inGT I) then "bad:want=" ++ want
  else "note:operand-outside-GT,want=" ++ want

/-- all `;`-separated pieces of `impl` are target-field elements satisfying `k` -/
def allPieces (I : Inst) (impl : String) (n : Nat) (k : List Nat → Bool) : Bool :=
  let ps := impl.splitOn ";"
  ps.length == n && ps.all fun s => match parseT I s with
    | some v => k v
    | none => false

/-- value of a bit string read big-endian (first bit = most significant) -/
def bitsValBE (bits : List Bool) : Nat := bits.foldl (fun acc b => 2 * acc + (if b then 1 else 0)) 0

def isInf (s : String) : Bool := s == "inf"

/-- `(model column, verdict)` of the test ops -/
def testOp (I : Inst) (op : String) (args : List String) (impl : String) : Option (String × String) :=
  let want (w : List Nat) : String × String := (hexList w, vs impl (hexList w))
  match op, args with
  | "t_bilin", [a, b, e0] => do
    let a ← parseHex? a; let b ← parseHex? b
    if e0 == "panic" || impl == "panic" then some ("any", "bad:panic")
    else
      let e0 ← parseT I e0
      some (want (powT I e0 (a * b)))
  | "t_addl", [e1, e2] | "t_addr", [e1, e2] | "t_femul", [e1, e2] => do
    if e1 == "panic" || e2 == "panic" || impl == "panic" then some ("any", "bad:panic")
    else if e1 == "none" || e2 == "none" then some ("any", "bad:none")
    else
      let e1 ← parseT I e1; let e2 ← parseT I e2
      some (want (mulT I e1 e2))
  | "t_nondeg", [] =>
    some ("any", isOutput I impl fun v => if v == oneT I then "bad:degenerate" else "ok")
  | "t_idl", [_] | "t_idr", [_] =>
    if impl == "panic" then some (hexList (oneT I), "bad:panic") else some (want (oneT I))
  | "t_multi", [es] => do
    let es := splitList es
    if es.contains "panic" || impl == "panic" then some ("any", "bad:panic")
    else
      let es ← mapM? (parseT I) es
      some (want (es.foldl (mulT I) (oneT I)))
  | "t_prep", [e] =>
    if e == "panic" || impl == "panic" then some ("any", "bad:panic") else some (e, vs impl e)
  -- the same with an explicit cofactor `c` (signed): `FE(f) = f^((c mod r)·(p^k-1)/r)`
  | "t_fepowc", [c, f] => do
    let c ← parseInt? c
    let f ← parseT I f
    let k := I.shape.deg
    if (I.p ^ k - 1) % I.r != 0 then some ("any", "bad:r-does-not-divide-p^k-1")
    else some (want (powT I f ((c % (I.r : Int)).toNat * ((I.p ^ k - 1) / I.r))))
  | "t_fepow", [f] => do
    let f ← parseT I f
    match I.feExp with
    | none => some ("any", "note:exponent-not-specified")
    | some e =>
      let k := I.shape.deg
      if (e * I.r) % (I.p ^ k - 1) != 0 then some ("any", "bad:spec-exponent-not-a-multiple-of-(p^k-1)/r")
      else some (want (powT I f e))
  -- `final_exponentiation(ML * s) = final_exponentiation(ML)^s`
  | "t_mlofe", [e, s] => do
    let s ← parseHex? s
    if e == "panic" || impl == "panic" then some ("any", "bad:panic")
    else if e == "none" || impl == "none" then some ("any", "bad:none")
    else
      let e ← parseT I e
      some (want (powT I e s))
  -- `Distribution<PairingOutput>`: a member of `GT`
  | "t_outrand", [] => some ("any", isOutput I impl fun _ => "ok")
  -- `VariableBaseMSM for PairingOutput` on honest outputs: `Σ sᵢ•eᵢ`, i.e. `Π eᵢ^sᵢ`
  | "t_outmsm", [bs, ss] => do
    let bs ← mapM? (parseT I) (splitList bs)
    let ss ← parseList? ss
    if bs.length != ss.length then none
    else some (want ((bs.zip ss).foldl (fun acc (b, s) => mulT I acc (powT I b s)) (oneT I)))
  | _, _ => none

/-- verdicts of the conformance ops -/
def verdict (I : Inst) (op : String) (args : List String) (impl : String) : Option String :=
  match op, args with
  | "pairing", [a, b] | "prep", [a, b] =>
    some (isOutput I impl fun v =>
      if isInf a || isInf b then (if v == oneT I then "ok" else "bad:identity-not-preserved")
      else if v == oneT I then "bad:degenerate" else "ok")
  | "multi", [as, bs] =>
    if (splitList as).length != (splitList bs).length then some "note:lists-of-different-length"
    else some (isOutput I impl fun _ => "ok")
  | "miller", [_, _] => some (if impl == "panic" then "bad:panic" else if (parseT I impl).isSome then "ok" else "bad:malformed")
  | "finalexp", [f] => do
    let f ← parseT I f
    if f.all (· == 0) then some "note:final-exponentiation-of-zero"
    else if impl == "none" then some "bad:none"
    else some (isOutput I impl fun _ => "ok")
  | "g2prep", [_] | "g1prep", [_] => some (if impl == "panic" then "bad:panic" else "ok")
  | "outadd", [a, b] => do let a ← parseT I a; let b ← parseT I b; some (vs impl (hexList (mulT I a b)))
  | "outdbl", [a] => do
    let a ← parseT I a
    let w := hexList (mulT I a a)
    some (gtAware I [a] (impl == w) w)
  | "outsub", [a, b] => do
    let a ← parseT I a; let b ← parseT I b
    some (gtAware I [b, a] (allPieces I impl 1 fun v => mulT I v b == a) "(a-b)+b=a")
  | "outneg", [a] => do
    let a ← parseT I a
    some (gtAware I [a] (allPieces I impl 1 fun v => mulT I v a == oneT I) "a+(-a)=0")
  | "outmul", [a, s] => do
    let a ← parseT I a; let s ← parseHex? s
    let w := hexList (powT I a s)
    some (gtAware I [a] (impl == w) w)
  -- ---- the rest of the public API of `ec/src/pairing.rs` ----
  | "mlomul", [f, s] => do let f ← parseT I f; let s ← parseHex? s; some (vs impl (hexList (powT I f s)))
  | "outzero", [_] => some (vs impl (hexList (oneT I)))
  | "outiszero", [a] => do let a ← parseT I a; some (vs impl (boolStr (a == oneT I)))
  | "outzeroize", [_] => some (vs impl (hexList (List.replicate I.shape.deg 0)))
  | "outaddv", [a, b] => do let a ← parseT I a; let b ← parseT I b; some (vs impl (rep 9 (hexList (mulT I a b))))
  | "outsubv", [a, b] => do
    let a ← parseT I a; let b ← parseT I b
    some (gtAware I [b, a] (allPieces I impl 9 fun v => mulT I v b == a) "(a-b)+b=a")
  | "outdblv", [a] => do
    let a ← parseT I a
    let w := rep 2 (hexList (mulT I a a))
    some (gtAware I [a] (impl == w) w)
  | "outmulv", [a, s] => do
    let a ← parseT I a; let s ← parseHex? s
    let w := rep 7 (hexList (powT I a s))
    some (gtAware I [a] (impl == w) w)
  | "outsum", [l] => do
    let l ← mapM? (parseT I) (splitList l)
    some (vs impl (rep 2 (hexList (l.foldl (mulT I) (oneT I)))))
  | "outmulbig", [a, l] => do
    let a ← parseT I a; let l ← parseList? l
    let w := hexList (powT I a (value l))
    some (gtAware I [a] (impl == w) w)
  -- `mul_bits_be`: "`other` is a big-endian bit representation of some integer" (`PrimeGroup`)
  | "outmulbits", [a, bits] => do
    let a ← parseT I a; let bits ← parseBits? bits
    let w := hexList (powT I a (bitsValBE bits))
    some (gtAware I [a] (impl == w) w)
  | "outdisplay", [a] => do let a ← parseT I a; some (vs impl (displayT I.shape a))
  -- accepted under `Validate::Yes` ⇔ `x^r = 1`; `Validate::No` accepts; sizes = bytes written; canonical bytes
  | "valid", [a] => do let a ← parseT I a; some (vs impl (validTokens I.p (inGT I a) a))
  | "vbatch", [l] => do
    let l ← mapM? (parseT I) (splitList l)
    some (vs impl (batchTokens I.p I.shape.deg (l.all (inGT I)) l.length))
  | "deserb", [kind, mode, bytes] => do
    let bs ← hexBytes? bytes
    let out ← deContainer (readCoords I.p I.shape.deg) (fun l => l.all (inGT I)) kind (mode.endsWith "y") bs
    some (vs impl (showDe hexList out))
  | _, _ => none

def run (cache : Cache) (op : String) (args : List String) (impl : String) :
    Option (Cache × String × String) := do
  match op, args with
  | "cfg", id :: family :: rest =>
    let I ← buildInst family (parseKV rest)
    let d := hex I.shape.deg
    some ({ insts := (id, I) :: cache.insts.filter (fun e => e.1 != id) }, d, vs impl d)
  | _, id :: rest =>
    let I ← (cache.insts.find? (fun e => e.1 == id)).map (·.2)
    if op.startsWith "t_" then
      let (m, v) ← testOp I op rest impl
      some (cache, m, v)
    else
      let m ← I.model op rest
      let v ← verdict I op rest impl
      some (cache, m, v)
  | _, _ => none

end Ark.DrvC06
