import Ark.Model.Fft
import Ark.Model.Fp
import Ark.Model.NatSpec
import Ark.Model.Proto
/-
  Driver dispatch for C07 (evaluation domains / FFT).

  Lines (all numbers hex, field elements as standard residues, lists comma separated, `_` empty,
  `-` absent):
    field <fid> <p> <TWO_ADICITY> <TWO_ADIC_ROOT> <BASE|-> <BASE_ADICITY|-> <LARGE_ROOT|->   (header, cached)
    root  <fid> <n>                               get_root_of_unity(n)
    new   <fid> <k> <n>                           D::new(n)                k ∈ r (radix-2) m (mixed) g (general)
    csize <fid> <k> <n>                           D::compute_size_of_domain(n)
    coset <fid> <k> <n> <off>                     D::new(n).unwrap().get_coset(off)
  and, on the domain `D::new(n).unwrap().get_coset(off).unwrap()`:
    elem <fid> <k> <n> <off> <i>      elems <fid> <k> <n> <off>
    fft | ifft | rt | fftlong | ifftlong | interp <fid> <k> <n> <off> <list>
    vanish <fid> <k> <n> <off>        vanishat | lagrange <fid> <k> <n> <off> <tau>
    filter <fid> <k> <n> <off> <m> <suboff>       filterat … <tau>
    reindex <fid> <k> <n> <m> <idx>
    distpow <fid> <g> <c> <list>      bitrevperm <width> <list>
  additions (trait getters / defaults, in-place transforms, `Evaluations` API):
    newcoset <fid> <k> <n> <off>                  D::new_coset(n, off)
    getters <fid> <k> <n> <off>                   the nine trait getters of the coset domain
    fftip | ifftip | fftiplong | ifftiplong <fid> <k> <n> <off> <list>    fft_in_place / ifft_in_place
    mulevals <fid> <k> <n> <off> <a> <b>          mul_polynomials_in_evaluation_domain
    mulpoly  <fid> <k> <n> <off> <a> <b>          ifft(mul_polynomials_in_evaluation_domain(fft a, fft b))
    sampleout <fid> <k> <n> <off> <seed>          sample_element_outside_domain (verdict only)
    evzero | evdom <fid> <k> <n> <off> [<list>]   Evaluations::zero / Evaluations::domain()
    evidx <fid> <k> <n> <off> <list> <i>          Evaluations[i]
    evscale <fid> <k> <n> <off> <list> <c>        &Evaluations * c
    evadd|evsub|evmul|evdiv[as] <fid> <k> <n> <off> <n2> <off2> <a> <b>   &a ⊕ &b  /  a ⊕= &b
    ser  <fid> <k> <n> <off> <c|u>                serialize_with_mode / serialized_size / deserialize_with_mode
                                                  of the domain: `<bytes> <size> <round trip>`
    serx <fid> <k> <n> <off> <v2|vff|trunc>       deserialization of a damaged encoding (bad variant byte, truncated)
    evser <fid> <k> <n> <off> <list> <c|u>        the same for `Evaluations` (derived impls)
  Output `(model, verdict)`; the verdict is the executable specification on `Nat` (Horner
  evaluation, product formulas, orders of elements by modular exponentiation) applied to the
  implementation's output.
-/
namespace Ark.DrvC07
open Ark Ark.Proto Ark.Fft Ark.Spec

structure FieldInfo where
  id : String
  p : Nat
  s : Nat
  root : Nat
  base : Option Nat
  adic : Option Nat
  large : Option Nat

structure Cache where
  fields : List FieldInfo := []

def Cache.find? (c : Cache) (id : String) : Option FieldInfo := c.fields.find? (·.id == id)

def optHex? (s : String) : Option (Option Nat) :=
  if s == "-" then some none else (parseHex? s).map some

def vs (impl spec : String) : String := if impl == spec then "ok" else "bad:want=" ++ spec

/-! ### faster hex I/O for long lists of big numbers (same syntax as `Ark.Proto`):
    15 hex digits (60 bits) at a time, so that only one big-number operation is needed per chunk -/

def parseChunks : List Char → Nat → Option Nat
  | [], acc => some acc
  | cs, acc =>
    match parseHexChars (cs.take 15) 0 with
    | some v => if _h : cs.length ≤ 15 then some (acc <<< (4 * cs.length) ||| v)
                else parseChunks (cs.drop 15) (acc <<< 60 ||| v)
    | none => none
termination_by cs => cs.length
decreasing_by simp only [List.length_drop]; omega

def parseHex? (s : String) : Option Nat :=
  match s.toList with
  | [] => none
  | cs => parseChunks cs 0

def parseList? (s : String) : Option (List Nat) :=
  if s == "_" then some [] else mapM? parseHex? (s.splitOn ",")

def pad15 (cs : List Char) : List Char := List.replicate (15 - cs.length) '0' ++ cs

def hexChunks : Nat → Nat → List Char → List Char
  | 0, _, acc => acc
  | fuel + 1, n, acc =>
    if n < 2 ^ 60 then (Proto.hex n).toList ++ acc
    else hexChunks fuel (n >>> 60) (pad15 (Proto.hex (n &&& (2 ^ 60 - 1))).toList ++ acc)

def hex (n : Nat) : String := String.ofList (hexChunks (n.log2 / 60 + 2) n [])

def hexList (l : List Nat) : String := if l.isEmpty then "_" else joinWith "," (l.map hex)

/-! ### specification side (plain `Nat` arithmetic mod `p`) -/

def v2Aux : Nat → Nat → Nat → Nat
  | 0, _, r => r
  | f + 1, n, r => if n % 2 = 0 then v2Aux f (n / 2) (r + 1) else r
/-- 2-adic valuation of `n > 0` -/
def v2 (n : Nat) : Nat := if n = 0 then 0 else v2Aux (n.log2 + 1) n 0

def stripAux (l : Nat) : Nat → Nat → Nat
  | 0, n => n
  | f + 1, n => if n % l = 0 then stripAux l f (n / l) else n

def primeFactorsAux : Nat → Nat → Nat → List Nat → List Nat
  | 0, _, _, acc => acc
  | f + 1, n, d, acc =>
    if n ≤ 1 then acc
    else if d * d > n then n :: acc
    else if n % d = 0 then primeFactorsAux f (stripAux d 64 n) (d + 1) (d :: acc)
    else primeFactorsAux f n (d + 1) acc
/-- distinct prime factors by trial division (sizes here are ≤ 2^32 and smooth) -/
def primeFactors (n : Nat) : List Nat := primeFactorsAux 100000 n 2 []

/-- `g` has multiplicative order exactly `n` modulo `p` -/
def hasOrder (p g n : Nat) : Bool :=
  n != 0 && powMod g n p == 1 % p && (primeFactors n).all (fun l => powMod g (n / l) p != 1 % p)

/-- Horner evaluation of `Σ c_j x^j` mod `p` -/
def evalNat (p : Nat) (c : List Nat) (x : Nat) : Nat := c.foldr (fun a acc => (a + x * acc) % p) 0

def ceilPow2 (n : Nat) : Nat := if n ≤ 1 then 1 else 2 ^ ((n - 1).log2 + 1)

/-- smallest power of two `≥ n` that divides `p − 1` exists? -/
def specRadix2Size (p n : Nat) : Option Nat :=
  let want := ceilPow2 n
  if (p - 1) % want == 0 then some want else none

/-- smallest `2^a·q^b ≥ n` with `b ≤ k` dividing `p − 1` -/
def specMixedSize (p n q k : Nat) : Option Nat :=
  let s := v2 (p - 1)
  let cands := (List.range (k + 1)).flatMap (fun b => (List.range (s + 1)).map (fun a => 2 ^ a * q ^ b))
  let ok := cands.filter (fun m => m ≥ n && (p - 1) % m == 0)
  match ok with
  | [] => none
  | m :: ms => some (ms.foldl min m)

/-- the specification of `new` for kind `k`: expected variant tag and size -/
def specNew (fi : FieldInfo) (k : String) (n : Nat) : Option (String × Nat) :=
  let r := (specRadix2Size fi.p n).map (fun s => ("r", s))
  let m := match fi.base, fi.adic with
    | some q, some a => (specMixedSize fi.p n q a).map (fun s => ("m", s))
    | _, _ => none
  if k == "r" then r else if k == "m" then m else (match r with | some x => some x | none => m)

/-- the domain facts, checked on the nine printed struct fields -/
def checkDomain (p : Nat) (tag : String) (wantSize off : Nat) (t : List Nat) : String :=
  match t with
  | [size, log, sizeF, sizeInv, gen, genInv, o, oInv, oPow] =>
    if size != wantSize then s!"bad:size:want={hex wantSize}"
    else if tag == "r" && 2 ^ log != size then "bad:log"
    else if tag == "m" && log != v2 size then "bad:log"
    else if sizeF != size % p then "bad:sizeF"
    else if (sizeInv * size) % p != 1 % p then "bad:sizeInv"
    else if !hasOrder p gen size then "bad:gen-order"
    else if (gen * genInv) % p != 1 % p then "bad:genInv"
    else if o != off % p then "bad:offset"
    else if (o * oInv) % p != 1 % p then "bad:offsetInv"
    else if oPow != powMod off size p then "bad:offsetPow"
    else "ok"
  | _ => "bad:format"

def sampleIdx (n seed : Nat) : List Nat :=
  ([0, 1, 2, n / 2 - 1, n / 2, n / 2 + 1, n - 2, n - 1] ++
    (List.range 8).map (fun k => (seed * (2 * k + 3) + k * k * 7919 + 12345) % n)).eraseDups

def firstBadAll (p : Nat) (c : List Nat) (g : Nat) : Nat → Nat → List Nat → Option (Nat × Nat)
  | _, _, [] => none
  | i, x, y :: ys =>
    let w := evalNat p c x
    if w != y then some (i, w) else firstBadAll p c g (i + 1) ((x * g) % p) ys

/-- `ys[i] = Σ_j c_j (h g^i)^j` for all `i < n` when `n < 256`; for larger `n` (cost `n²`) at the
    ≤ 16 indices of `sampleIdx` (both ends, the middle, 8 input-dependent positions) -/
def checkEvals (p : Nat) (c : List Nat) (h g n : Nat) (ys : List Nat) : String :=
  if ys.length != n then s!"bad:len={hex ys.length}"
  else if n < 256 then
    match firstBadAll p c g 0 (h % p) ys with
    | none => "ok"
    | some (i, w) => s!"bad:idx={hex i}:want={hex w}"
  else
    let seed := (c.foldl (· + ·) 0 + ys.foldl (· + ·) 0) % 4294967291
    let arr := ys.toArray
    match (sampleIdx n seed).find? (fun i => evalNat p c ((h * powMod g i p) % p) != arr.getD i 0) with
    | none => "ok"
    | some i => s!"bad:idx={hex i}"

def domElems (p h g n : Nat) : List Nat :=
  ((List.range n).foldl (fun (st : List Nat × Nat) _ => (st.2 :: st.1, (st.2 * g) % p)) ([], h % p)).1.reverse

def subMod (p a b : Nat) : Nat := (a + (p - b % p)) % p

/-- naive Lagrange basis values `L_i(τ) = Π_{j≠i} (τ − x_j)/(x_i − x_j)` -/
def lagrangeNaive (p : Nat) (xs : List Nat) (tau : Nat) : List Nat :=
  let ixs := (List.range xs.length).zip xs
  ixs.map (fun (i, xi) =>
    let num := ixs.foldl (fun acc (j, xj) => if j == i then acc else (acc * subMod p tau xj) % p) (1 % p)
    let den := ixs.foldl (fun acc (j, xj) => if j == i then acc else (acc * subMod p xi xj) % p) (1 % p)
    (num * modInv den p) % p)

/-- `Σ_i L_i x_i^k = τ^k` for every `k < n` (characterises the Lagrange coefficients) -/
def lagrangeVandermonde (p : Nat) (xs ls : List Nat) (tau : Nat) : Bool :=
  let n := xs.length
  ((List.range n).foldl (fun (st : Bool × List Nat × Nat) _ =>
    let (ok, pw, tk) := st
    if !ok then st
    else
      let s := (List.zipWith (fun l x => l * x) ls pw).foldl (fun a b => (a + b) % p) 0
      (s == tk, List.zipWith (fun a b => (a * b) % p) pw xs, (tk * tau) % p))
    (true, xs.map (fun _ => 1 % p), 1 % p)).1

def checkLagrange (p : Nat) (xs : List Nat) (tau : Nat) (ls : List Nat) : String :=
  if ls.length != xs.length then "bad:len"
  else if xs.length ≤ 64 then
    let w := lagrangeNaive p xs tau
    if w == ls then "ok" else "bad:want=" ++ hexList w
  else if lagrangeVandermonde p xs ls tau then "ok" else "bad:vandermonde"

def parseSparse? (s : String) : Option (List (Nat × Nat)) :=
  if s == "_" then some [] else
    mapM? (fun t => match t.splitOn ":" with
      | [a, b] => (do let a ← parseHex? a; let b ← parseHex? b; pure (a, b))
      | _ => none) (s.splitOn ",")

def sparseStr (l : List (Nat × Nat)) : String :=
  if l.isEmpty then "_" else joinWith "," (l.map (fun (i, c) => hex i ++ ":" ++ hex c))

def bitrevSpec (k width : Nat) : Nat :=
  (List.range width).foldl (fun r i => r * 2 + (k / 2 ^ i) % 2) 0

/-- schoolbook product of coefficient lists mod `p` (length `la + lb − 1`, `[]` if one is empty) -/
def convNat (p : Nat) (a b : List Nat) : Array Nat :=
  if a.isEmpty || b.isEmpty then #[] else
  let bz := b.toArray
  ((List.range a.length).zip a).foldl (fun (acc : Array Nat) (i, ai) =>
    (List.range bz.size).foldl (fun (acc : Array Nat) j =>
      acc.modify (i + j) (fun v => (v + ai * bz[j]!) % p)) acc)
    (Array.replicate (a.length + b.length - 1) 0)

/-- `A·B mod (X^N − c)` as `N` coefficients: `r_k = Σ_j full[k + jN]·c^j` -/
def mulModVanish (p : Nat) (a b : List Nat) (N c : Nat) : List Nat :=
  let full := convNat p a b
  (List.range N).map (fun k =>
    ((List.range (full.size / N + 1)).foldl (fun (st : Nat × Nat) j =>
      ((st.1 + full.getD (k + j * N) 0 * st.2) % p, (st.2 * c) % p)) (0, 1 % p)).1)

/-- pointwise `a_i ⊕ b_i` on lists of equal length -/
def pointwise (f : Nat → Nat → Nat) (a b : List Nat) : List Nat := List.zipWith f a b

/-! ### byte encodings (`CanonicalSerialize`): little-endian integers, field elements in
    `⌈bits(p)/8⌉` bytes, `Vec` = `u64` length then the elements -/

def leBytes (n w : Nat) : List Nat := (List.range w).map (fun i => (n >>> (8 * i)) % 256)
def fromLE (bs : List Nat) : Nat := bs.foldr (fun b acc => b + 256 * acc) 0
def bytesHex (bs : List Nat) : String :=
  if bs.isEmpty then "_" else String.ofList (bs.flatMap (fun b => [hexChar (b / 16), hexChar (b % 16)]))
def parseBytesAux : List Char → Option (List Nat)
  | [] => some []
  | [_] => none
  | a :: b :: r => do
    let x ← hexDigit? a; let y ← hexDigit? b; let t ← parseBytesAux r
    pure ((16 * x + y) :: t)
def parseBytes? (s : String) : Option (List Nat) := if s == "_" then some [] else parseBytesAux s.toList
def feWidth (p : Nat) : Nat := (p.log2 + 1 + 7) / 8

/-- the encoding of a domain given its nine fields: `[variant]` (general only), `size: u64`,
    `log_size_of_group: u32`, seven field elements -/
def domainBytes (general : Bool) (tag : String) (fw : Nat) (nine : List Nat) : List Nat :=
  (if general then [if tag == "r" then 0 else 1] else []) ++
  (match nine with
   | size :: log :: fs => leBytes size 8 ++ leBytes log 4 ++ fs.flatMap (fun f => leBytes f fw)
   | _ => [])

/-- decoding by the format: `(tag, nine fields, remaining bytes)` -/
def decodeDomain (general : Bool) (k : String) (fw : Nat) (bs : List Nat) : Option (String × List Nat × List Nat) := do
  let (tag, bs) ← (if general then
      (match bs with
       | 0 :: r => some ("r", r)
       | 1 :: r => some ("m", r)
       | _ => none)
    else some (k, bs))
  if bs.length < 12 + 7 * fw then none
  else
    let size := fromLE (bs.take 8)
    let log := fromLE ((bs.drop 8).take 4)
    let fs := (List.range 7).map (fun i => fromLE ((bs.drop (12 + i * fw)).take fw))
    some (tag, size :: log :: fs, bs.drop (12 + 7 * fw))

def nineStr (tag : String) (nine : List Nat) : String := joinWith " " (tag :: nine.map hex)

/-! ### model side -/

section Run
variable {p : Nat}

def fe (p : Nat) (n : Nat) : Fp p := ⟨n % p⟩
def hexFs (l : List (Fp p)) : String := hexList (l.map (·.val))

def params (fi : FieldInfo) : Params (Fp fi.p) :=
  { twoAdicity := fi.s, twoAdicRoot := fe fi.p fi.root, smallBase := fi.base,
    smallAdicity := fi.adic, largeRoot := fi.large.map (fe fi.p) }

def domStr (tag : String) (d : Domain (Fp p)) : String :=
  s!"{tag} {hex d.size} {hex d.logSizeOfGroup} {hex d.sizeAsFieldElement.val} {hex d.sizeInv.val} {hex d.groupGen.val} {hex d.groupGenInv.val} {hex d.offset.val} {hex d.offsetInv.val} {hex d.offsetPowSize.val}"

def tagOf (g : GeneralDomain (Fp p)) : String :=
  match g with | .radix2 _ => "r" | .mixedRadix _ => "m"

/-- `D::new(n)` for the three domain types, wrapped as a `GeneralDomain` -/
def newDom (P : Params (Fp p)) (k : String) (n : Nat) : Outcome (Option (GeneralDomain (Fp p))) :=
  if k == "r" then
    match radix2New P n with | .panic => .panic | .ok o => .ok (o.map .radix2)
  else if k == "m" then
    match mixedNew P n with | .panic => .panic | .ok o => .ok (o.map .mixedRadix)
  else generalNew P n

def sizeDom (P : Params (Fp p)) (k : String) (n : Nat) : Outcome (Option Nat) :=
  if k == "r" then .ok (radix2ComputeSize P n)
  else if k == "m" then mixedComputeSize P n
  else generalComputeSize P n

/-- `D::new(n).unwrap().get_coset(off).unwrap()` -/
def cosetDom (P : Params (Fp p)) (k : String) (n off : Nat) : Option (GeneralDomain (Fp p)) :=
  match newDom P k n with
  | .ok (some g) => generalGetCoset g (fe p off)
  | _ => none

def outList (o : Outcome (List (Fp p))) : String :=
  match o with | .panic => "panic" | .ok l => hexFs l

end Run

def parseDomLine (s : String) : Option (String × List Nat) :=
  match s.splitOn " " with
  | tag :: rest => (mapM? parseHex? rest).map (fun l => (tag, l))
  | _ => none

def run (cache : Cache) (op : String) (args : List String) (impl : String) :
    Option (Cache × String × String) := do
  match op, args with
  | "field", [fid, p, s, root, base, adic, large] =>
    let p ← parseHex? p; let s ← parseHex? s; let root ← parseHex? root
    let base ← optHex? base; let adic ← optHex? adic; let large ← optHex? large
    let fi : FieldInfo := { id := fid, p := p, s := s, root := root, base := base, adic := adic, large := large }
    let cache' : Cache := { fields := fi :: cache.fields.filter (·.id != fid) }
    let v :=
      if p < 3 || p % 2 == 0 then "bad:p"
      else if s != v2 (p - 1) then "bad:two-adicity"
      else if !hasOrder p root (2 ^ s) then "bad:two-adic-root-order"
      else match base, adic, large with
        | none, none, none => "ok"
        | some q, some k, some lg =>
          if q < 2 then "bad:base"
          else if (p - 1) % (2 ^ s * q ^ k) != 0 then "bad:small-subgroup"
          else if !hasOrder p lg (2 ^ s * q ^ k) then "bad:large-root-order"
          else "ok"
        | _, _, _ => "bad:inconsistent-small-subgroup"
    some (cache', "-", if impl == "-" then v else "bad:format")
  | "bitrevperm", [width, l] =>
    let width ← parseHex? width; let l ← parseList? l
    let m := match bitreversePermutation l width with
      | .panic => "panic" | .ok r => hexList r
    let v :=
      if l.length == 2 ^ width then
        vs impl (hexList ((List.range l.length).map (fun k => (l[bitrevSpec k width]?).getD 0)))
      else vs impl m   -- outside the contract `len = 2^width`: behaviour recorded, no specification
    some (cache, m, v)
  | _, fid :: rest =>
    let fi ← cache.find? fid
    let p := fi.p
    let P := params fi
    let out (m v : String) : Option (Cache × String × String) := some (cache, m, v)
    match op, rest with
    | "root", [n] =>
      let n ← parseHex? n
      let m := match getRootOfUnity P n with
        | .panic => "panic" | .ok none => "none" | .ok (some w) => hex w.val
      -- spec: `Some(ω)` with ω of order exactly n iff n is a size of the field's FFT subgroup family
      let inFamily : Bool := match fi.base, fi.adic, fi.large with
        | some q, some k, some _ =>
          n != 0 && (List.range (k + 1)).any (fun b => n % q ^ b == 0 && isPowerOfTwo (n / q ^ b) && v2 (n / q ^ b) ≤ fi.s)
        | _, _, _ => isPowerOfTwo n && v2 n ≤ fi.s
      let v := if impl == "panic" then "bad:panic"
        else if impl == "none" then (if inFamily then "bad:none" else "ok")
        else match parseHex? impl with
          | none => "bad:format"
          | some w => if !inFamily then "bad:want=none" else if hasOrder p w n then "ok" else "bad:order"
      out m v
    | "new", [k, n] =>
      let n ← parseHex? n
      let m := match newDom P k n with
        | .panic => "panic" | .ok none => "none" | .ok (some g) => domStr (tagOf g) g.dom
      let v := if impl == "panic" then "bad:panic"
        else match specNew fi k n, impl == "none" with
          | none, true => "ok"
          | none, false => "bad:want=none"
          | some _, true => "bad:none"
          | some (tag, size), false =>
            match parseDomLine impl with
            | some (t, l) => if t != tag then "bad:variant:want=" ++ tag else checkDomain p tag size 1 l
            | none => "bad:format"
      out m v
    | "csize", [k, n] =>
      let n ← parseHex? n
      let m := match sizeDom P k n with
        | .panic => "panic" | .ok none => "none" | .ok (some s) => hex s
      out m (vs impl (match specNew fi k n with | none => "none" | some (_, s) => hex s))
    | "coset", [k, n, off] =>
      let n ← parseHex? n; let off ← parseHex? off
      let base ← (match newDom P k n with | .ok (some g) => some g | _ => none)
      let m := match generalGetCoset base (fe p off) with
        | none => "none" | some g => domStr (tagOf g) g.dom
      let v := if off % p == 0 then vs impl "none"
        else match parseDomLine impl with
          | some (t, l) => if t != tagOf base then "bad:variant" else checkDomain p t base.dom.size off l
          | none => "bad:format"
      out m v
    | "newcoset", [k, n, off] =>
      let n ← parseHex? n; let off ← parseHex? off
      let m := match newCoset (newDom P k n) (fe p off) with
        | .panic => "panic" | .ok none => "none" | .ok (some g) => domStr (tagOf g) g.dom
      let v := if impl == "panic" then "bad:panic"
        else match specNew fi k n, impl == "none" with
          | none, true => "ok"
          | none, false => "bad:want=none"
          | some _, true => if off % p == 0 then "ok" else "bad:none"
          | some (tag, size), false =>
            if off % p == 0 then "bad:want=none"
            else match parseDomLine impl with
            | some (t, l) => if t != tag then "bad:variant:want=" ++ tag else checkDomain p tag size off l
            | none => "bad:format"
      out m v
    | "distpow", [g, c, l] =>
      let g ← parseHex? g; let c ← parseHex? c; let l ← parseList? l
      let m := hexFs (distributePowersAndMulByConst (l.map (fe p)) (fe p g) (fe p c))
      let s := ((List.range l.length).zip l).map (fun (i, x) => (c * powMod g i p % p * x) % p)
      out m (vs impl (hexList s))
    | "reindex", [k, n, msub, idx] =>
      let n ← parseHex? n; let msub ← parseHex? msub; let idx ← parseHex? idx
      let d ← (match newDom P k n with | .ok (some g) => some g.dom | _ => none)
      let o ← (match newDom P k msub with | .ok (some g) => some g.dom | _ => none)
      let m := match reindexBySubdomain d o idx with | .panic => "panic" | .ok r => hex r
      let v :=
        if d.size < o.size then vs impl "panic"          -- documented `assert!`
        else if d.size % o.size != 0 then vs impl m     -- `other` is not a subdomain: no specification
        else if idx ≥ d.size then vs impl m             -- index outside the domain: no specification
        else
          let period := d.size / o.size
          let order := (List.range o.size).map (· * period) ++ (List.range d.size).filter (fun j => j % period != 0)
          match order[idx]? with
          | some w => vs impl (hex w)
          | none => "bad:spec"
      out m v
    | _, k :: n :: off :: more =>
      let n ← parseHex? n; let off ← parseHex? off
      let g ← cosetDom P k n off
      let d := g.dom
      let N := d.size
      let gen := d.groupGen.val
      let h := off % p
      match op, more with
      | "elem", [i] =>
        let i ← parseHex? i
        out (hex (element d i).val) (vs impl (hex ((h * powMod gen i p) % p)))
      | "elems", [] =>
        out (hexFs (elements d)) (vs impl (hexList (domElems p h gen N)))
      | "fft", [l] | "fftip", [l] =>
        let c ← parseList? l
        let m := outList (generalFft P g (c.map (fe p)))
        let v := if c.length > N then "bad:input-longer-than-domain"
          else if impl == "panic" then "bad:panic"
          else match parseList? impl with
            | some ys => checkEvals p c h gen N ys
            | none => "bad:format"
        out m v
      | "fftlong", [l] | "fftiplong", [l] =>
        -- inputs longer than the domain (outside the property): the code truncates to `size`
        let c ← parseList? l
        let m := outList (generalFft P g (c.map (fe p)))
        let v := if impl == "panic" then "bad:panic"
          else match parseList? impl with
            | some ys => checkEvals p (c.take N) h gen N ys
            | none => "bad:format"
        out m v
      | "ifft", [l] | "ifftip", [l] =>
        let e ← parseList? l
        let m := outList (generalIfft P g (e.map (fe p)))
        let v := if e.length > N then "bad:input-longer-than-domain"
          else if impl == "panic" then "bad:panic"
          else match parseList? impl with
            | some c => if c.length != N then "bad:len" else checkEvals p c h gen N (e ++ List.replicate (N - e.length) 0)
            | none => "bad:format"
        out m v
      | "ifftlong", [l] | "ifftiplong", [l] =>
        let e ← parseList? l
        let m := outList (generalIfft P g (e.map (fe p)))
        let v := if impl == "panic" then "bad:panic"
          else match parseList? impl with
            | some c => if c.length != N then "bad:len" else checkEvals p c h gen N (e.take N)
            | none => "bad:format"
        out m v
      | "rt", [l] =>
        let c ← parseList? l
        let m := match generalFft P g (c.map (fe p)) with
          | .panic => "panic"
          | .ok ys => outList (generalIfft P g ys)
        let v := if c.length > N then "bad:input-longer-than-domain"
          else vs impl (hexList (c.map (· % p) ++ List.replicate (N - c.length) 0))
        out m v
      | "interp", [l] =>
        let e ← parseList? l
        let m := outList (interpolateGeneral P g (e.map (fe p)))
        let v := if e.length > N then "bad:input-longer-than-domain"
          else if impl == "panic" then "bad:panic"
          else match parseList? impl with
            | some c =>
              if c.length > N then "bad:len"
              else if c.getLast? == some 0 then "bad:trailing-zero"
              else checkEvals p c h gen N (e ++ List.replicate (N - e.length) 0)
            | none => "bad:format"
        out m v
      | "vanish", [] =>
        let m := match vanishingPolynomial d with
          | .panic => "panic" | .ok s => sparseStr (s.map (fun (i, c) => (i, c.val)))
        out m (vs impl (sparseStr [(0, subMod p 0 (powMod h N p)), (N, 1 % p)]))
      | "vanishat", [tau] =>
        let tau ← parseHex? tau
        let m := hex (evaluateVanishingPolynomial d (fe p tau)).val
        let w := subMod p (powMod tau N p) (powMod h N p)
        let v := if impl != hex w then "bad:want=" ++ hex w
          else if N ≤ 256 then
            -- definition: Z(τ) = Π_i (τ − h g^i)
            let prod := (domElems p h gen N).foldl (fun acc x => (acc * subMod p tau x) % p) (1 % p)
            if prod == w then "ok" else "bad:product-formula"
          else "ok"
        out m v
      | "lagrange", [tau] =>
        let tau ← parseHex? tau
        let m := outList (evaluateAllLagrangeCoefficients d (fe p tau))
        let v := if impl == "panic" then "bad:panic"
          else match parseList? impl with
            | some ls => checkLagrange p (domElems p h gen N) (tau % p) ls
            | none => "bad:format"
        out m v
      | "filter", [msub, suboff] =>
        let msub ← parseHex? msub; let suboff ← parseHex? suboff
        let sub ← cosetDom P k msub suboff
        let sd := sub.dom
        let m := outList (filterPolynomial d sd)
        -- subdomain coset ⊆ domain coset  ⇔  |sub| divides |dom| and suboff^|dom| = off^|dom|
        let contained := N % sd.size == 0 && powMod suboff N p == powMod h N p
        let v :=
          if !contained then vs impl "panic"    -- documented: "Panics if `subdomain` is not contained"
          else if impl == "panic" then "bad:panic"
          else match parseList? impl with
            | some c =>
              if c.length > N then "bad:degree"
              else
                let subEl := domElems p (suboff % p) sd.groupGen.val sd.size
                let bad := (domElems p h gen N).find? (fun x =>
                  evalNat p c x != (if subEl.contains x then 1 % p else 0))
                -- filter polynomials are outside the statement of C07: a deviation from the
                -- mathematical filter polynomial is recorded as a note (see `Fft.filterPolynomial`)
                (match bad with | none => "ok" | some _ => "note:filter-coset-scaling")
            | none => "bad:format"
        out m v
      | "filterat", [msub, suboff, tau] =>
        let msub ← parseHex? msub; let suboff ← parseHex? suboff; let tau ← parseHex? tau
        let sub ← cosetDom P k msub suboff
        let sd := sub.dom
        let m := hex (evaluateFilterPolynomial d sd (fe p tau)).val
        let contained := N % sd.size == 0 && powMod suboff N p == powMod h N p
        let v :=
          if !contained then "bad:subdomain-not-contained"
          else
            -- definition: the filter polynomial is Σ_{x ∈ sub} L_x (Lagrange basis of the domain)
            let xs := domElems p h gen N
            let subEl := domElems p (suboff % p) sd.groupGen.val sd.size
            let ls := lagrangeNaive p xs (tau % p)
            let w := ((xs.zip ls).foldl (fun acc (x, l) => if subEl.contains x then (acc + l) % p else acc) 0)
            if impl == hex w then "ok" else "note:filter-coset-scaling"
        out m v
      | "getters", [] =>
        -- the nine trait getters (`size_as_field_element()` is the trait default `F::from(size)`)
        let m := domStr (tagOf g) { d with sizeAsFieldElement := sizeAsFieldElement d }
        let v := match specNew fi k n, parseDomLine impl with
          | some (tag, size), some (t, l) =>
            if t != tag then "bad:variant:want=" ++ tag else checkDomain p tag size off l
          | none, _ => "bad:spec-no-domain"
          | _, none => "bad:format"
        out m v
      | "evdom", [l] =>
        -- `Evaluations::from_vec_and_domain(l, dom).domain()`: the struct fields of the stored domain
        let _ ← parseList? l
        let m := domStr (tagOf g) d
        let v := match specNew fi k n, parseDomLine impl with
          | some (tag, size), some (t, l) =>
            if t != tag then "bad:variant:want=" ++ tag else checkDomain p tag size off l
          | none, _ => "bad:spec-no-domain"
          | _, none => "bad:format"
        out m v
      | "evzero", [] =>
        out (hexFs (evalsZero d)) (vs impl (hexList (List.replicate N 0)))
      | "evidx", [l, i] =>
        let e ← parseList? l; let i ← parseHex? i
        let m := match evalsIndex (e.map (fe p)) i with | .panic => "panic" | .ok x => hex x.val
        out m (vs impl (match e[i]? with | some x => hex (x % p) | none => "panic"))
      | "evscale", [l, c] =>
        let e ← parseList? l; let c ← parseHex? c
        out (hexFs (evalsMulScalar (e.map (fe p)) (fe p c))) (vs impl (hexList (e.map (fun x => (x * c) % p))))
      | "mulevals", [a, b] =>
        let a ← parseList? a; let b ← parseList? b
        let m := outList (mulPolynomialsInEvaluationDomain (a.map (fe p)) (b.map (fe p)))
        let v := if a.length != b.length then vs impl m   -- outside the contract (documented `assert_eq!`): behaviour recorded
          else vs impl (hexList (pointwise (fun x y => (x * y) % p) a b))
        out m v
      | "mulpoly", [a, b] =>
        -- coefficient vectors → evaluations → pointwise product → interpolation = A·B mod (X^N − h^N)
        let a ← parseList? a; let b ← parseList? b
        let m := match generalFft P g (a.map (fe p)), generalFft P g (b.map (fe p)) with
          | .ok ea, .ok eb =>
            (match mulPolynomialsInEvaluationDomain ea eb with
             | .ok pr => outList (generalIfft P g pr)
             | .panic => "panic")
          | _, _ => "panic"
        let v := if a.length > N || b.length > N then "bad:input-longer-than-domain"
          else vs impl (hexList (mulModVanish p (a.map (· % p)) (b.map (· % p)) N (powMod h N p)))
        out m v
      | "ser", [_mode] =>
        -- (compressed and uncompressed encodings of prime-field elements coincide)
        let general := k == "g"
        let fw := feWidth p
        let nine := [d.size, d.logSizeOfGroup, d.sizeAsFieldElement.val, d.sizeInv.val, d.groupGen.val, d.groupGenInv.val,
          d.offset.val, d.offsetInv.val, d.offsetPowSize.val]
        let bytes := domainBytes general (tagOf g) fw nine
        let m := bytesHex bytes ++ " " ++ hex bytes.length ++ " " ++ domStr (tagOf g) d
        let v := match impl.splitOn " " with
          | bs :: sz :: back =>
            (match parseBytes? bs, parseHex? sz with
             | some bl, some sz =>
               if sz != bl.length then "bad:serialized_size"
               else match decodeDomain general k fw bl, specNew fi k n with
                 | some (tag, nn, rest), some (wtag, wsize) =>
                   if !rest.isEmpty then "bad:trailing-bytes"
                   else if tag != wtag then "bad:variant"
                   else if joinWith " " back != nineStr tag nn then "bad:round-trip"
                   else checkDomain p tag wsize off nn
                 | none, _ => "bad:encoding"
                 | _, none => "bad:spec-no-domain"
             | _, _ => "bad:format")
          | _ => "bad:format"
        out m v
      | "serx", [_what] =>
        out "err" (vs impl "err")
      | "evser", [l, _mode] =>
        let e ← parseList? l
        let general := k == "g"
        let fw := feWidth p
        let nine := [d.size, d.logSizeOfGroup, d.sizeAsFieldElement.val, d.sizeInv.val, d.groupGen.val, d.groupGenInv.val,
          d.offset.val, d.offsetInv.val, d.offsetPowSize.val]
        let bytes := leBytes e.length 8 ++ e.flatMap (fun x => leBytes (x % p) fw) ++ domainBytes general (tagOf g) fw nine
        let m := bytesHex bytes ++ " " ++ hex bytes.length ++ " " ++ hexList (e.map (· % p)) ++ " " ++ domStr (tagOf g) d
        let v := match impl.splitOn " " with
          | bs :: sz :: ev :: back =>
            (match parseBytes? bs, parseHex? sz with
             | some bl, some sz =>
               if sz != bl.length then "bad:serialized_size"
               else
                 let len := fromLE (bl.take 8)
                 let body := bl.drop 8
                 if len != e.length || body.length < len * fw then "bad:length-prefix"
                 else
                   let els := (List.range len).map (fun i => fromLE ((body.drop (i * fw)).take fw))
                   if els != e.map (· % p) then "bad:elements"
                   else if ev != hexList els then "bad:round-trip-evals"
                   else match decodeDomain general k fw (body.drop (len * fw)), specNew fi k n with
                     | some (tag, nn, rest), some (wtag, wsize) =>
                       if !rest.isEmpty then "bad:trailing-bytes"
                       else if tag != wtag then "bad:variant"
                       else if joinWith " " back != nineStr tag nn then "bad:round-trip"
                       else checkDomain p tag wsize off nn
                     | none, _ => "bad:encoding"
                     | _, none => "bad:spec-no-domain"
             | _, _ => "bad:format")
          | _ => "bad:format"
        out m v
      | "sampleout", [_seed] =>
        -- verdict only: the sampled element is a canonical residue outside the coset domain
        let v := if impl == "panic" then "bad:panic"
          else match parseHex? impl with
            | some w => if w ≥ p then "bad:noncanonical"
                        else if powMod w N p == powMod h N p then "bad:element-in-domain" else "ok"
            | none => "bad:format"
        out "any" v
      | _, [n2, off2, a, b] =>
        let n2 ← parseHex? n2; let off2 ← parseHex? off2
        let a ← parseList? a; let b ← parseList? b
        let g2 ← cosetDom P k n2 off2
        let same := generalDomainEq g g2
        let fa := a.map (fe p); let fb := b.map (fe p)
        let res ← (match op with
          | "evadd" | "evaddas" => some (evalsBinAssign (· + ·) same fa fb)
          | "evsub" | "evsubas" => some (evalsBinAssign (· - ·) same fa fb)
          | "evmul" | "evmulas" => some (evalsBinAssign (· * ·) same fa fb)
          | "evdiv" | "evdivas" => some (evalsDivAssign same fa fb)
          | _ => none)
        let m := outList res
        -- spec: the two domains are the same coset iff sizes agree and the offsets agree;
        -- documented `assert_eq!(…, "domains are unequal")` otherwise
        let size2 := match specNew fi k n2 with | some (_, s) => s | none => 0
        let sameSpec := size2 == N && off2 % p == h
        let v :=
          if !sameSpec then vs impl "panic"
          else if impl == "panic" then "bad:panic"
          else if a.length != b.length then vs impl m   -- zipped update of unequal lengths: behaviour recorded
          else match parseList? impl with
            | none => "bad:format"
            | some r =>
              if r.length != a.length then "bad:len"
              else if op == "evdiv" || op == "evdivas" then
                -- field division with the convention `x / 0 = 0` (what `batch_inversion` yields: zero entries stay zero)
                let bad := (r.zip (a.zip b)).any (fun (ri, ai, bi) =>
                  ri != (if bi % p == 0 then 0 else (ai * modInv bi p) % p))
                if bad then "bad:quotient"
                else if b.any (· % p == 0) then "note:evaluation-divided-by-zero" else "ok"
              else
                let f : Nat → Nat → Nat :=
                  if op == "evadd" || op == "evaddas" then (fun x y => (x + y) % p)
                  else if op == "evsub" || op == "evsubas" then (fun x y => subMod p x y)
                  else (fun x y => (x * y) % p)
                vs impl (hexList (pointwise f a b))
        out m v
      | _, _ => none
    | _, _ => none
  | _, _ => none

end Ark.DrvC07
