import Ark.Model.ScalarMul
import Ark.Model.Subgroup
import Ark.Model.Curve
import Ark.Model.DrvC12
import Ark.Model.Proto
/-
  Driver dispatch for the extra C04 stream over the SHIPPED GLV configurations (harness2 `c04x`): the ten
  `GLVConfig`s of the curve crates and `ark_test_curves::bls12_381::g1`, on the real curves.
  Numbers lower-case hex; field elements = comma separated base-prime-field coordinates; points `x:y` | `inf`;
  limb slices comma separated, `_` = empty.

  Header (cached by id):
    xcfg <id> <tower> <p> <a> <b> <N> <r> <cofactor limbs> <glv|def> <λ> <β> <n11> <n12> <n21> <n22> <G> => <0|1>
      tower = fp | fp2:<nonresidue>;  `glv` = the configuration overrides `mul_projective` by
      `glv_mul_projective` (bls12_381 / bls12_377 / bn254 G1, test-curves bls12_381 G1), `def` = trait default;
      φ(x, y) = (β·x, y) (`res.x *= ENDO_COEFFS[0]` in all eleven configurations)
      model  : `G.is_on_curve() && G.mul_bigint(r).is_zero()`
      verdict: G ≠ O on the curve with r•G = O;  det(n_ij) = r;  n_i1 + λ·n_i2 ≡ 0 (mod r);  λ² + λ + 1 ≡ 0 (mod r);
               β³ = 1, β ≠ 1
  Ops:
    xdec  <id> <k>                   => s1 k1 s2 k2    GLVConfig::scalar_decomposition
          verdict: k1 + λ·k2 ≡ k (mod r) with the printed signs, both halves < r, < 2^(64N-1), and short
                   (< 2^(⌈bits r / 2⌉ + 2))
    xendo <id> <aff|proj> <P>        => point          endomorphism_affine / endomorphism
          verdict: the result is on the curve and equals λ•P
    xglv  <id> <which> <P> <k|limbs> => point
          which = glv.proj | glv.aff | mul.proj | mul.aff (k: a scalar-field element)
                | bigint.proj | bigint.aff (raw limbs: an arbitrary integer, NOT reduced modulo r by the spec)
          verdict: the result equals k•P
    xendo_off / xglv_off : the same calls through GLV on a point of the curve outside the order-r subgroup:
          a mismatch is `note:` (after checking that r•P ≠ O); a panic or an off-curve result is still `bad`.

  As in C12, two groups per configuration: the SPEC group `S` — the textbook affine law `Ark.Subgroup.SWPt` over
  `Fp p` or `Fq2 p β` with the LSB-first reference multiplication `SWPt.smul` (plain double-and-add) — and the
  EXECUTION group `G` of the model, `Ark.DrvC12.JacG` (Jacobian formulas of the C03 model `Ark.Curve.SW`).
  Every verdict is computed in `S` from the input and the implementation's output only.  The reference
  multiple `k•P` of the last `(id, P, k)` is memoised (the harness prints the six paths of one `(P, k)`
  consecutively).
-/
namespace Ark.DrvC04x
open Ark Ark.Proto Ark.ScalarMul Ark.Subgroup

def b01 (b : Bool) : String := if b then "1" else "0"

structure Head where
  id : String
  tower : String
  p : Nat
  a : String
  b : String
  cofactor : List Nat
  ovr : Bool
  glv : GlvCfg
  beta : String
  gen : String

/-- the last reference multiplication: key `id P k` -/
structure Memo where
  key : String := ""
  val : String := ""

structure Inst where
  run : Memo → String → List String → String → Option (Memo × String × String)
  head : String × String

structure Cache where
  insts : List (String × Inst) := []
  memo : Memo := {}

def parseHead : List String → Option Head
  | [id, tower, p, a, b, n, r, cof, ovr, lam, beta, n11, n12, n21, n22, gen] => do
    let p ← parseHex? p; let n ← parseHex? n; let r ← parseHex? r
    let cof ← parseList? cof; let lam ← parseHex? lam
    let n11 ← parseInt? n11; let n12 ← parseInt? n12; let n21 ← parseInt? n21; let n22 ← parseInt? n22
    if ovr != "glv" && ovr != "def" then none
    else if p < 2 || r < 2 || n = 0 then none
    else some { id, tower, p, a, b, cofactor := cof, ovr := ovr == "glv", beta, gen,
                glv := { nLimbs := n, r := r, lambda := lam, n11 := n11, n12 := n12, n21 := n21, n22 := n22 } }
  | _ => none

/-- one configuration is executed in two groups (see the file header) -/
structure GIO (S G : Type) where
  parse : String → Option S
  str : S → String
  smul : Nat → S → S
  onCurve : S → Bool
  /-- `From<Affine> for Projective` of the parsed point -/
  toG : String → Option G
  /-- `From<Projective> for Affine`, printed -/
  strG : G → String
  /-- `GLVConfig::endomorphism` (`res.x *= ENDO_COEFFS[0]` on the Jacobian `X`) -/
  endoG : G → G
  /-- `GLVConfig::endomorphism_affine` (`res.x *= ENDO_COEFFS[0]` on the `Affine` struct), printed -/
  endoAff : String → Option String
  /-- `Affine::is_on_curve` of the parsed point (model side of the header) -/
  onCurveG : String → Option Bool
  /-- β³ = 1 ∧ β ≠ 1 -/
  betaOk : Bool

/-- branch tag of a double-and-add call: shape of the bit stream -/
def bitsTag (bits : List Bool) : String :=
  match bits with
  | [] => "nobits"
  | b :: _ => if b then "topbit" else if (skipLeadingZeros bits).isEmpty then "allzero" else "lz"

/-- which way the `skip_zeros` flag of the joint ladder goes -/
def glvTag (c : GlvCfg) (k : Nat) : String :=
  let ((_, k1), (_, k2)) := scalarDecomposition c k
  let prs := (bitsBE (toLimbs c.nLimbs k1)).zip (bitsBE (toLimbs c.nLimbs k2))
  match prs with
  | [] => "nopairs"
  | (x, y) :: rest =>
    if !x && !y then "skip-first"
    else if rest.any (fun (x, y) => !x && !y) then "skip-mid" else "no-skip"

/-- which of the two quotients of `scalar_decomposition` were rounded up, and the signs of the halves -/
def decTag (c : GlvCfg) (k : Nat) : String :=
  let up := fun (x : Int) => decide (roundDiv x c.r != Int.tdiv x c.r)
  let (k1, k2) := decompInt c k
  let sg := fun (x : Int) => if x > 0 then "+" else if x < 0 then "-" else "0"
  "up" ++ b01 (up ((k : Int) * c.n22)) ++ b01 (up ((k : Int) * (- c.n12))) ++ ":" ++ sg k1 ++ sg k2

section G
variable {S G : Type} [Zero S] [DecidableEq S] [Add G] [Neg G] [Sub G] [Zero G] [BEq G]

def sOG (io : GIO S G) : Outcome G → String
  | .ok P => io.strG P
  | .panic => "panic"

/-- `k•P` in the specification group (plain double-and-add), memoised on `(id, P, k)` -/
def specMul (io : GIO S G) (id : String) (memo : Memo) (Ps : String) (P : S) (k : Nat) : Memo × String :=
  let key := id ++ " " ++ Ps ++ " " ++ hex k
  if memo.key == key then (memo, memo.val)
  else
    let v := io.str (io.smul k P)
    ({ key := key, val := v }, v)

/-- the verdict of a point-valued line: `impl = k•P`; on the `_off` ops a mismatch is a note once `r•P ≠ O` is confirmed -/
def vsPoint (io : GIO S G) (hd : Head) (memo : Memo) (off : Bool) (Ps : String) (P : S) (k : Nat) (impl : String) :
    Memo × String :=
  if !io.onCurve P then (memo, "bad:input-off-curve")
  else
    let (memo, want) := specMul io hd.id memo Ps P k
    if impl == want then (memo, "ok")
    else if impl == "panic" then (memo, "bad:panic")
    else match io.parse impl with
      | none => (memo, "bad:unparsable")
      | some Q =>
        if !io.onCurve Q then (memo, "bad:result-off-curve,want=" ++ want)
        else if off && io.smul hd.glv.r P ≠ 0 then (memo, "note:P-outside-order-r-subgroup,want=" ++ want)
        else (memo, "bad:want=" ++ want)

def runOp (io : GIO S G) (hd : Head) (memo : Memo) (op : String) (args : List String) (impl : String) :
    Option (Memo × String × String) :=
  let c := hd.glv
  let mp : MulProjImpl := if hd.ovr then .glv c else .default
  match op, args with
  | "xdec", [ks] => do
    let k ← parseHex? ks
    let ((s1, k1), (s2, k2)) := scalarDecomposition c k
    let ms := b01 s1 ++ " " ++ hex k1 ++ " " ++ b01 s2 ++ " " ++ hex k2
    let verdict : String :=
      match impl.splitOn " " with
      | [i1, ik1, i2, ik2] =>
        match parseHex? ik1, parseHex? ik2 with
        | some a1, some a2 =>
          if (i1 != "0" && i1 != "1") || (i2 != "0" && i2 != "1") then "bad:sign-flag"
          else
            let v1 : Int := if i1 == "1" then (a1 : Int) else - (a1 : Int)
            let v2 : Int := if i2 == "1" then (a2 : Int) else - (a2 : Int)
            let bound := 2 ^ ((bitLen c.r + 1) / 2 + 2)
            if k ≥ c.r then "bad:input-not-reduced"
            else if (v1 + (c.lambda : Int) * v2 - (k : Int)) % (c.r : Int) != 0 then "bad:k1+lambda*k2!=k"
            else if a1 ≥ c.r ∨ a2 ≥ c.r then "bad:half-not-below-r"
            else if a1 ≥ 2 ^ (64 * c.nLimbs - 1) ∨ a2 ≥ 2 ^ (64 * c.nLimbs - 1) then "bad:half-has-top-bit"
            else if a1 ≥ bound ∨ a2 ≥ bound then "bad:half-not-small"
            else "ok"
        | _, _ => "bad:unparsable"
      | _ => if impl == "panic" then "bad:panic" else "bad:unparsable"
    some (memo, ms ++ " @" ++ decTag c k, verdict)
  | o, [which, Ps] => do
    if o != "xendo" && o != "xendo_off" then none
    let P ← io.parse Ps
    let mo ← if which == "aff" then io.endoAff Ps
             else if which == "proj" then (io.toG Ps).map (fun Pg => io.strG (io.endoG Pg))
             else none
    let (memo, v) := vsPoint io hd memo (o == "xendo_off") Ps P c.lambda impl
    some (memo, mo ++ " @" ++ (if P = 0 then "id" else "pt"), v)
  | o, [which, Ps, ks] => do
    if o != "xglv" && o != "xglv_off" then none
    let P ← io.parse Ps; let Pg ← io.toG Ps
    let (k, mo, tag) ← match which with
      | "glv.proj" => do
        let k ← parseHex? ks
        some (k, io.strG (glvMulProjective c io.endoG Pg k), glvTag c k)
      | "glv.aff" => do
        let k ← parseHex? ks
        some (k, io.strG (glvMulAffine c io.endoG Pg k), glvTag c k)
      | "mul.proj" => do
        let k ← parseHex? ks
        some (k, sOG io (swProjMulScalar mp io.endoG c.nLimbs Pg k), if hd.ovr then "glv:" ++ glvTag c k else "def")
      | "mul.aff" => do
        let k ← parseHex? ks
        some (k, io.strG (swAffMulScalar c.nLimbs Pg k), "def")
      | "bigint.proj" => do
        let ls ← parseList? ks
        let tag :=
          if hd.ovr then
            (if ls.length > c.nLimbs then "glv-long" else if value ls ≥ c.r then "glv-reduced" else "glv")
              ++ ":" ++ glvTag c (glvOverrideScalar c ls)
          else bitsTag (bitsBE ls)
        some (value ls, sOG io (swProjMulBigint mp io.endoG Pg ls), tag)
      | "bigint.aff" => do
        let ls ← parseList? ks
        some (value ls, io.strG (swAffMulBigint Pg ls), bitsTag (bitsBE ls))
      | _ => none
    let (memo, v) := vsPoint io hd memo (o == "xglv_off") Ps P k impl
    some (memo, mo ++ " @" ++ tag, v)
  | _, _ => none

def headVerdict (io : GIO S G) (hd : Head) (impl : String) : Option (String × String) := do
  let c := hd.glv
  let Gs ← io.parse hd.gen; let Gg ← io.toG hd.gen
  let oc ← io.onCurveG hd.gen
  -- `g.is_on_curve() && g.mul_bigint(r).is_zero()` (`Affine::mul_bigint` = `mul_affine`, never overridden)
  let m := b01 (oc && (swAffMulBigint Gg (toLimbs c.nLimbs c.r) == 0))
  let r : Int := c.r
  let lam : Int := c.lambda
  let v :=
    if impl != "1" then "bad:generator-check=" ++ impl
    else if Gs = 0 then "bad:generator-is-identity"
    else if !io.onCurve Gs then "bad:generator-off-curve"
    else if io.smul c.r Gs ≠ 0 then "bad:r*G≠O"
    else if c.n11 * c.n22 - c.n12 * c.n21 != r then "bad:det≠r"
    else if (c.n11 + lam * c.n12) % r != 0 || (c.n21 + lam * c.n22) % r != 0 then "bad:row-not-in-lattice"
    else if (lam * lam + lam + 1) % r != 0 then "bad:lambda²+lambda+1≠0"
    else if c.lambda ≥ c.r then "bad:lambda-not-reduced"
    else if !io.betaOk then "bad:beta-not-a-primitive-cube-root-of-unity"
    else "ok"
  some (m, v)

end G

/-! ### building an instance from a header -/

section mk
variable {F : Type} [Add F] [Sub F] [Mul F] [Neg F] [Zero F] [One F] [Inv F] [Div F] [DecidableEq F]

def affParse (pf : String → Option F) (s : String) : Option (Curve.SW.Affine F) :=
  if s == "inf" then some Curve.SW.Affine.identity
  else match s.splitOn ":" with
    | [x, y] => do let x ← pf x; let y ← pf y; some ⟨x, y, false⟩
    | _ => none

def affStr (sf : F → String) (P : Curve.SW.Affine F) : String :=
  match P.xy with
  | none => "inf"
  | some (x, y) => sf x ++ ":" ++ sf y

def mkInst (pf : String → Option F) (sf : F → String) (hd : Head) (impl : String) : Option Inst := do
  let a ← pf hd.a; let b ← pf hd.b; let beta ← pf hd.beta
  let E : SWc F := ⟨a, b⟩
  -- prime and quadratic base fields: `[1, 2].contains(&extension_degree())`
  let c : Curve.SW.Curve F := Curve.SW.Curve.std a b true
  let io : GIO (SWPt E) (DrvC12.JacG c) :=
    { parse := DrvC12.swParse E pf, str := DrvC12.swStr sf, smul := SWPt.smul, onCurve := SWPt.onCurve,
      toG := DrvC12.jacParse c pf, strG := DrvC12.jacStr c sf,
      endoG := fun P => ⟨{ P.j with x := P.j.x * beta }⟩,
      endoAff := fun s => (affParse pf s).map (fun P => affStr sf { P with x := P.x * beta }),
      onCurveG := fun s => (affParse pf s).map (fun P => Curve.SW.Affine.isOnCurve c P),
      betaOk := decide (beta * beta * beta = 1) && decide (beta ≠ 1) }
  let head ← headVerdict io hd impl
  some { run := runOp io hd, head := head }

end mk

def mkInstance (hd : Head) (impl : String) : Option Inst :=
  match hd.tower.splitOn ":" with
  | ["fp"] => mkInst (DrvC12.parseFp hd.p) DrvC12.strFp hd impl
  | ["fp2", nr] => do
    let nr ← parseHex? nr
    mkInst (DrvC12.parseFq2 hd.p nr) DrvC12.strFq2 hd impl
  | _ => none

def run (c : Cache) (op : String) (args : List String) (impl : String) : Option (Cache × String × String) :=
  match op, args with
  | "xcfg", _ => do
    let hd ← parseHead args
    let I ← mkInstance hd impl
    some ({ c with insts := (hd.id, I) :: c.insts.filter (fun e => e.1 != hd.id) }, I.head.1, I.head.2)
  | _, id :: rest => do
    let I ← (c.insts.find? (fun e => e.1 == id)).map (·.2)
    let (memo, m, v) ← I.run c.memo op rest impl
    some ({ c with memo := memo }, m, v)
  | _, _ => none

end Ark.DrvC04x
