import Ark.Model.Poly
import Ark.Model.Fp
import Ark.Model.Proto
/-
  Driver dispatch for C08: `C08 <op> <p> args…` with `p` the field modulus (hex).
  * dense polynomial: comma-separated coefficients low-to-high, exactly as stored (`_` = empty);
  * sparse polynomial: `deg:coeff,deg:coeff,…` in stored order (`_` = empty);
  * domain: `<size> <group_gen> <coset_offset>`.
  Model output = the stored representation the model computes (or `panic`), optionally followed
  by ` @<branch tag>`.  Verdict = executable spec on the implementation's output: coefficient-wise
  equality with the mathematically expected polynomial (computed here on coefficient functions,
  independently of the model), canonical form, no panic.  Operators are judged on canonical
  operands only (`note:noncanonical-input` otherwise — model = impl is still compared); the two
  constructors are judged on arbitrary input vectors.
-/
/-
  Additions: the `impl_op!` receiver variants (`daddvr` = owned ⊕ &ref, `daddrv` = &ref ⊕ owned, `d…v` =
  owned ⊕ owned, for add/sub/mul/div); `DenseOrSparsePolynomial` built from the four `From` impls
  (kind `do`/`db` = dense owned/borrowed Cow, `so`/`sb` = sparse): `dosz`, `dosdeg`, `dos2d`
  (`Into<DensePolynomial>`), `dos2s` (`TryInto<SparsePolynomial>`, `err` for the dense variant),
  `dosevaldom`; division with owned Cows (`ddivo`, `dsdivo`, `sddivo`, `ssdivo`); `drand <d> <seed>`
  (`DenseUVPolynomial::rand`, verdict only); `sevalx` / `sevaldomx` (sparse evaluation with exponents up to
  `usize::MAX`; spec by fast exponentiation); `dser` / `sser` (derived `CanonicalSerialize` / `CanonicalDeserialize`
  of `DensePolynomial` / `SparsePolynomial`: `<bytes> <serialized_size> <round trip>`).
-/
namespace Ark.DrvC08
open Ark Ark.Proto Ark.Poly

/-! ### parsing / printing at `Fp p` -/
def pEl (p : Nat) (s : String) : Option (Fp p) := (parseHex? s).map (Fp.ofNat p)
def pD (p : Nat) (s : String) : Option (List (Fp p)) :=
  if s == "_" then some [] else mapM? (pEl p) (s.splitOn ",")
def pTerm (p : Nat) (s : String) : Option (Nat × Fp p) :=
  match s.splitOn ":" with
  | [d, c] => match parseHex? d, pEl p c with
    | some d, some c => some (d, c)
    | _, _ => none
  | _ => none
def pS (p : Nat) (s : String) : Option (List (Nat × Fp p)) :=
  if s == "_" then some [] else mapM? (pTerm p) (s.splitOn ",")

def shEl {p : Nat} (x : Fp p) : String := hex x.val
def shD {p : Nat} (l : List (Fp p)) : String := if l.isEmpty then "_" else joinWith "," (l.map shEl)
def shS {p : Nat} (s : List (Nat × Fp p)) : String :=
  if s.isEmpty then "_" else joinWith "," (s.map (fun t => hex t.1 ++ ":" ++ shEl t.2))
def oD {p : Nat} : Outcome (List (Fp p)) → String
  | .ok l => shD l
  | .panic => "panic"
def oS {p : Nat} : Outcome (List (Nat × Fp p)) → String
  | .ok l => shS l
  | .panic => "panic"
def oQR {p : Nat} : Outcome (List (Fp p) × List (Fp p)) → String
  | .ok (q, r) => shD q ++ " " ++ shD r
  | .panic => "panic"

/-! ### the executable spec: coefficient functions -/
section spec
variable {p : Nat}

/-- coefficient function of a stored dense vector (an `Array`, so that look-ups are O(1)) -/
def cD (l : Array (Fp p)) (i : Nat) : Fp p := l.getD i 0
/-- a term list denotes the sum of its monomials -/
def cS (s : List (Nat × Fp p)) (i : Nat) : Fp p :=
  s.foldl (fun acc t => if t.1 = i then acc + t.2 else acc) 0
def canonD (l : List (Fp p)) : Bool :=
  match l.getLast? with
  | none => true
  | some c => c != 0
def canonS : List (Nat × Fp p) → Bool
  | [] => true
  | [t] => t.2 != 0
  | t :: u :: r => t.2 != 0 && decide (t.1 < u.1) && canonS (u :: r)
def boundS (s : List (Nat × Fp p)) : Nat := s.foldl (fun m t => max m (t.1 + 1)) 0
def sumTo (n : Nat) (f : Nat → Fp p) : Fp p := (List.range n).foldl (fun acc i => acc + f i) 0
def conv (f g : Nat → Fp p) (k : Nat) : Fp p := sumTo (k + 1) (fun i => f i * g (k - i))
def trimD (l : List (Fp p)) : List (Fp p) := (l.reverse.dropWhile (· == 0)).reverse
def wantD (n : Nat) (f : Nat → Fp p) : List (Fp p) := trimD ((List.range n).map f)
def wantS (n : Nat) (f : Nat → Fp p) : List (Nat × Fp p) :=
  ((List.range n).map (fun i => (i, f i))).filter (fun t => t.2 != 0)
def agree (n : Nat) (f g : Nat → Fp p) : Bool := (List.range n).all (fun i => f i == g i)
/-- `some d` = degree of the coefficient function below `n`, `none` for zero -/
def degBelow (n : Nat) (f : Nat → Fp p) : Option Nat :=
  (List.range n).foldl (fun acc i => if f i != 0 then some i else acc) none
/-- `Σ_{i<n} f i · x^i` with a running power -/
def evalFn (n : Nat) (f : Nat → Fp p) (x : Fp p) : Fp p :=
  ((List.range n).foldl (fun (st : Fp p × Fp p) i => (st.1 + f i * st.2, st.2 * x)) (0, 1)).1
def allZero (n : Nat) (f : Nat → Fp p) : Bool := (List.range n).all (fun i => f i == 0)

def judgeD (impl : String) (n : Nat) (want : Nat → Fp p) : String :=
  if impl == "panic" then "bad:panic"
  else match pD p impl with
    | none => "bad:unparseable"
    | some l =>
      let fl := cD l.toArray
      if agree (max n l.length) fl want then
        (if canonD l then "ok" else "bad:noncanonical")
      else "bad:want=" ++ shD (wantD n want)

def judgeS (impl : String) (n : Nat) (want : Nat → Fp p) : String :=
  if impl == "panic" then "bad:panic"
  else match pS p impl with
    | none => "bad:unparseable"
    | some s =>
      if agree (max n (boundS s)) (cS s) want then
        (if canonS s then "ok" else "bad:noncanonical")
      else "bad:want=" ++ shS (wantS n want)

/-- `a = q·b + r ∧ (r = 0 ∨ deg r < deg b)`, `q`, `r` canonical; `b ≠ 0` -/
def judgeQR (impl : String) (na : Nat) (fa : Nat → Fp p) (nb : Nat) (fb : Nat → Fp p) : String :=
  if impl == "panic" then "bad:panic"
  else match impl.splitOn " " with
    | [qs, rs] =>
      match pD p qs, pD p rs with
      | some q, some r =>
        let n := max na (max (q.length + nb) r.length)
        let fq := cD q.toArray
        let fr := cD r.toArray
        if !agree n fa (fun k => conv fq fb k + fr k) then "bad:a!=q*b+r"
        else if !(canonD q && canonD r) then "bad:noncanonical"
        else match degBelow nb fb, degBelow r.length fr with
          | some db, some dr => if dr < db then "ok" else "bad:deg-r>=deg-b"
          | some _, none => "ok"
          | none, _ => "bad:zero-divisor"
      | _, _ => "bad:unparseable"
    | _ => "bad:unparseable"

def vs (impl spec : String) : String := if impl == spec then "ok" else "bad:want=" ++ spec
def pre (ok : Bool) (v : String) : String := if ok then v else "note:noncanonical-input"
end spec

/-! ### byte encodings: `Vec<T>` = `u64` length (LE) then the elements; field elements in `⌈bits(p)/8⌉` bytes LE -/
def leBytes (n w : Nat) : List Nat := (List.range w).map (fun i => (n >>> (8 * i)) % 256)
def fromLE (bs : List Nat) : Nat := bs.foldr (fun b acc => b + 256 * acc) 0
def bytesHex (bs : List Nat) : String :=
  if bs.isEmpty then "_" else String.ofList (bs.flatMap (fun b => [hexChar (b / 16), hexChar (b % 16)]))
def parseBytesAux : List Char → Option (List Nat)
  | [] => some []
  | [_] => none
  | a :: b :: r => do
    let x ← hexDigit? a; let y ← hexDigit? b; let t ← parseBytesAux r
    pure ((16 * x + y) :: t)
def parseBytes? (s : String) : Option (List Nat) := if s == "_" then some [] else parseBytesAux s.toList
def feWidth (p : Nat) : Nat := (p.log2 + 1 + 7) / 8

/-- two-adicity of `p − 1` -/
def twoAdicityAux : Nat → Nat → Nat
  | 0, _ => 0
  | fuel + 1, n => if n % 2 = 0 ∧ n ≠ 0 then twoAdicityAux fuel (n / 2) + 1 else 0
def twoAdicity (p : Nat) : Nat := twoAdicityAux 4096 (p - 1)

def pDom (p : Nat) (n g h : String) : Option (Domain (Fp p)) :=
  match parseHex? n, pEl p g, pEl p h with
  | some n, some g, some h => some ⟨n, g, h⟩
  | _, _, _ => none

/-- domain elements for the spec: `h·g^i` -/
def specElements {p : Nat} (D : Domain (Fp p)) : List (Fp p) :=
  (List.range D.size).map (fun i => D.offset * Fp.pow D.gen i)

/-- coefficient function of the domain's vanishing polynomial `X^n − h^n` -/
def vanFn {p : Nat} (D : Domain (Fp p)) (i : Nat) : Fp p :=
  (if i = D.size then (1 : Fp p) else 0) + (if i = 0 then -(Fp.pow D.offset D.size) else 0)

def tag2 (az bz : Bool) (la lb : Nat) : String :=
  if az then "zs" else if bz then "zo" else if la ≥ lb then "ge" else "lt"

def withTag (m tag : String) : String := m ++ " @" ++ tag

def runP (p : Nat) (op : String) (args : List String) (impl : String) : Option (String × String) :=
  let ta := twoAdicity p
  match op, args with
  /- ---------- dense: constructor, queries ---------- -/
  | "dfrom", [v] | "dfroms", [v] => do
    let v ← pD p v; let fv := cD v.toArray
    some (shD (fromCoefficientsVec v), judgeD impl v.length fv)
  | "ddeg", [a] => do
    let a ← pD p a
    let m := match degree a with
      | .ok d => hex d
      | .panic => "panic"
    some (m, pre (canonD a) (vs impl (hex (a.length - 1))))
  | "dzero", [a] => do
    let a ← pD p a; let fa := cD a.toArray
    some (boolStr (Poly.isZero a), vs impl (boolStr (allZero a.length fa)))
  | "deval", [a, x] => do
    let a ← pD p a; let fa := cD a.toArray; let x ← pEl p x
    some (shEl (evaluate a x), vs impl (shEl (evalFn a.length fa x)))
  /- ---------- dense ⊕ dense ---------- -/
  | "dadd", [a, b] => do
    let a ← pD p a; let fa := cD a.toArray; let b ← pD p b; let fb := cD b.toArray
    some (withTag (oD (addDD a b)) (tag2 (Poly.isZero a) (Poly.isZero b) a.length b.length),
      pre (canonD a && canonD b) (judgeD impl (max a.length b.length) (fun i => fa i + fb i)))
  | "daddv", [a, b] | "daddvr", [a, b] | "daddrv", [a, b] => do
    let a ← pD p a; let fa := cD a.toArray; let b ← pD p b; let fb := cD b.toArray
    some (oD (addDD a b),
      pre (canonD a && canonD b) (judgeD impl (max a.length b.length) (fun i => fa i + fb i)))
  | "daddas", [a, b] => do
    let a ← pD p a; let fa := cD a.toArray; let b ← pD p b; let fb := cD b.toArray
    some (withTag (shD (addAssignDD a b)) (tag2 (Poly.isZero b) (Poly.isZero a) b.length a.length),
      pre (canonD a && canonD b) (judgeD impl (max a.length b.length) (fun i => fa i + fb i)))
  | "daddsc", [a, f, b] => do
    let a ← pD p a; let fa := cD a.toArray; let f ← pEl p f; let b ← pD p b; let fb := cD b.toArray
    some (withTag (oD (addAssignScaledDD a f b)) (tag2 (Poly.isZero b) (Poly.isZero a) b.length a.length ++ (if f == 0 then "f0" else "")),
      pre (canonD a && canonD b) (judgeD impl (max a.length b.length) (fun i => fa i + f * fb i)))
  | "dsub", [a, b] => do
    let a ← pD p a; let fa := cD a.toArray; let b ← pD p b; let fb := cD b.toArray
    some (withTag (oD (subDD a b)) (tag2 (Poly.isZero a) (Poly.isZero b) a.length b.length),
      pre (canonD a && canonD b) (judgeD impl (max a.length b.length) (fun i => fa i - fb i)))
  | "dsubv", [a, b] | "dsubvr", [a, b] | "dsubrv", [a, b] => do
    let a ← pD p a; let fa := cD a.toArray; let b ← pD p b; let fb := cD b.toArray
    some (oD (subDD a b),
      pre (canonD a && canonD b) (judgeD impl (max a.length b.length) (fun i => fa i - fb i)))
  | "dsubas", [a, b] => do
    let a ← pD p a; let fa := cD a.toArray; let b ← pD p b; let fb := cD b.toArray
    some (withTag (oD (subAssignDD a b)) (tag2 (Poly.isZero a) (Poly.isZero b) a.length b.length),
      pre (canonD a && canonD b) (judgeD impl (max a.length b.length) (fun i => fa i - fb i)))
  | "dneg", [a] => do
    let a ← pD p a; let fa := cD a.toArray
    some (shD (neg a), pre (canonD a) (judgeD impl a.length (fun i => -(fa i))))
  | "dscale", [a, f] => do
    let a ← pD p a; let fa := cD a.toArray; let f ← pEl p f
    some (withTag (shD (scale a f)) (if Poly.isZero a then "zs" else if f == 0 then "f0" else "nz"),
      pre (canonD a) (judgeD impl a.length (fun i => fa i * f)))
  | "dscalev", [a, f] => do
    let a ← pD p a; let fa := cD a.toArray; let f ← pEl p f
    some (shD (scale a f), pre (canonD a) (judgeD impl a.length (fun i => fa i * f)))
  | "dnmul", [a, b] => do
    let a ← pD p a; let fa := cD a.toArray; let b ← pD p b; let fb := cD b.toArray
    some (withTag (oD (naiveMul a b)) (tag2 (Poly.isZero a) (Poly.isZero b) a.length b.length),
      pre (canonD a && canonD b) (judgeD impl (a.length + b.length) (conv fa fb)))
  | "dmul", [a, b] | "dmulv", [a, b] | "dmulvr", [a, b] | "dmulrv", [a, b] => do
    let a ← pD p a; let fa := cD a.toArray; let b ← pD p b; let fb := cD b.toArray
    let noDom := !(Poly.isZero a || Poly.isZero b) && !domainExists ta (a.length + b.length - 1)
    some (withTag (oD (mulDD ta a b)) (if noDom then "nodomain" else tag2 (Poly.isZero a) (Poly.isZero b) a.length b.length),
      pre (canonD a && canonD b)
        (if noDom && impl == "panic" then "note:field-has-no-domain-of-that-size"
         else judgeD impl (a.length + b.length) (conv fa fb)))
  /- ---------- division ---------- -/
  | "ddiv", [a, b] | "ddivo", [a, b] => do
    let a ← pD p a; let fa := cD a.toArray; let b ← pD p b; let fb := cD b.toArray
    let tg := if Poly.isZero a then "za" else if Poly.isZero b then "zb" else if a.length < b.length then "lt" else "loop"
    some (withTag (oQR (divideWithQAndR (.d a) (.d b))) tg,
      pre (canonD a && canonD b)
        (if allZero b.length fb then (if impl == "panic" || Poly.isZero a then "note:division-by-zero" else "bad:division-by-zero-returned")
         else judgeQR impl a.length fa b.length fb))
  | "ddivq", [a, b] | "ddivv", [a, b] | "ddivvr", [a, b] | "ddivrv", [a, b] => do
    let a ← pD p a; let fa := cD a.toArray; let b ← pD p b; let fb := cD b.toArray
    -- `&a / &b`: only the quotient is returned; the remainder `a − q·b` must have degree < deg b
    let v :=
      if allZero b.length fb then (if impl == "panic" || Poly.isZero a then "note:division-by-zero" else "bad:division-by-zero-returned")
      else if impl == "panic" then "bad:panic"
      else match pD p impl with
        | none => "bad:unparseable"
        | some q =>
          let n := max a.length (q.length + b.length)
          let fq := cD q.toArray
          let rem := fun k => fa k - conv fq fb k
          if !canonD q then "bad:noncanonical"
          else match degBelow b.length fb, degBelow n rem with
            | some db, some dr => if dr < db then "ok" else "bad:deg(a-q*b)>=deg-b"
            | _, _ => "ok"
    some (oD (divDD a b), pre (canonD a && canonD b) v)
  | "dsdiv", [a, s] | "dsdivo", [a, s] => do
    let a ← pD p a; let fa := cD a.toArray; let s ← pS p s
    let tg := if Poly.isZero a then "za" else if sIsZero s then "zb" else "nz"
    some (withTag (oQR (divideWithQAndR (.d a) (.s s))) tg,
      pre (canonD a && canonS s)
        (if sIsZero s then (if impl == "panic" || Poly.isZero a then "note:division-by-zero" else "bad:division-by-zero-returned")
         else judgeQR impl a.length fa (boundS s) (cS s)))
  | "sddiv", [s, b] | "sddivo", [s, b] => do
    let s ← pS p s; let b ← pD p b; let fb := cD b.toArray
    let tg := if sIsZero s then "za" else if Poly.isZero b then "zb" else "nz"
    some (withTag (oQR (divideWithQAndR (.s s) (.d b))) tg,
      pre (canonS s && canonD b)
        (if Poly.isZero b then (if impl == "panic" || sIsZero s then "note:division-by-zero" else "bad:division-by-zero-returned")
         else judgeQR impl (boundS s) (cS s) b.length fb))
  | "ssdiv", [s, t] | "ssdivo", [s, t] => do
    let s ← pS p s; let t ← pS p t
    let tg := if sIsZero s then "za" else if sIsZero t then "zb" else "nz"
    some (withTag (oQR (divideWithQAndR (.s s) (.s t))) tg,
      pre (canonS s && canonS t)
        (if sIsZero t then (if impl == "panic" || sIsZero s then "note:division-by-zero" else "bad:division-by-zero-returned")
         else judgeQR impl (boundS s) (cS s) (boundS t) (cS t)))
  /- ---------- vanishing polynomial of a domain ---------- -/
  | "dmulvan", [a, n, g, h] => do
    let a ← pD p a; let fa := cD a.toArray; let D ← pDom p n g h
    some (withTag (shD (mulByVanishingPoly a D.size D.offsetPowSize)) (if D.offset == 1 then "subgroup" else "coset"),
      pre (canonD a) (judgeD impl (a.length + D.size + 1) (conv fa (vanFn D))))
  | "ddivvan", [a, n, g, h] => do
    let a ← pD p a; let fa := cD a.toArray; let D ← pDom p n g h
    some (withTag (oQR (divideByVanishingPoly a D.size D.offsetPowSize))
        ((if a.length < D.size then "short" else if a.length ≤ 2 * D.size then "one" else "many") ++ (if D.offset == 1 then "-subgroup" else "-coset")),
      pre (canonD a) (judgeQR impl a.length fa (D.size + 1) (vanFn D)))
  /- ---------- dense ⊕ sparse ---------- -/
  | "dsadd", [a, s] => do
    let a ← pD p a; let fa := cD a.toArray; let s ← pS p s
    some (withTag (oD (addDS a s)) (tag2 (Poly.isZero a) (sIsZero s) a.length (boundS s)),
      pre (canonD a && canonS s) (judgeD impl (max a.length (boundS s)) (fun i => fa i + cS s i)))
  | "dsaddas", [a, s] => do
    let a ← pD p a; let fa := cD a.toArray; let s ← pS p s
    some (withTag (oD (addAssignDS a s)) (tag2 (sIsZero s) (Poly.isZero a) (boundS s) a.length),
      pre (canonD a && canonS s) (judgeD impl (max a.length (boundS s)) (fun i => fa i + cS s i)))
  | "dssub", [a, s] => do
    let a ← pD p a; let fa := cD a.toArray; let s ← pS p s
    some (withTag (oD (subDS a s)) (tag2 (Poly.isZero a) (sIsZero s) a.length (boundS s)),
      pre (canonD a && canonS s) (judgeD impl (max a.length (boundS s)) (fun i => fa i - cS s i)))
  | "dssubas", [a, s] => do
    let a ← pD p a; let fa := cD a.toArray; let s ← pS p s
    some (withTag (shD (subAssignDS a s)) (tag2 (Poly.isZero a) (sIsZero s) a.length (boundS s)),
      pre (canonD a && canonS s) (judgeD impl (max a.length (boundS s)) (fun i => fa i - cS s i)))
  | "s2d", [s] => do
    let s ← pS p s
    some (oD (sparseToDense s), pre (canonS s) (judgeD impl (boundS s) (cS s)))
  | "d2s", [a] => do
    let a ← pD p a; let fa := cD a.toArray
    some (shS (denseToSparse a), pre (canonD a) (judgeS impl a.length fa))
  /- ---------- sparse ---------- -/
  | "sfrom", [v] | "sfroms", [v] => do
    let v ← pS p v
    some (shS (sFromCoefficientsVec v), judgeS impl (boundS v) (cS v))
  | "sdeg", [s] => do
    let s ← pS p s
    let m := match sDegree s with
      | .ok d => hex d
      | .panic => "panic"
    some (m, pre (canonS s) (vs impl (hex (boundS s - 1))))
  | "szero", [s] => do
    let s ← pS p s
    some (boolStr (sIsZero s), pre (canonS s) (vs impl (boolStr (allZero (boundS s) (cS s)))))
  | "seval", [s, x] => do
    let s ← pS p s; let x ← pEl p x
    let m := match sEvaluate s x with
      | .ok v => shEl v
      | .panic => "panic"
    some (m, pre (canonS s) (vs impl (shEl (evalFn (boundS s) (cS s) x))))
  | "sadd", [s, t] => do
    let s ← pS p s; let t ← pS p t
    some (withTag (oS (sAdd s t)) (tag2 (sIsZero s) (sIsZero t) (boundS s) (boundS t)),
      pre (canonS s && canonS t) (judgeS impl (max (boundS s) (boundS t)) (fun i => cS s i + cS t i)))
  | "saddv", [s, t] => do
    let s ← pS p s; let t ← pS p t
    some (oS (sAdd s t),
      pre (canonS s && canonS t) (judgeS impl (max (boundS s) (boundS t)) (fun i => cS s i + cS t i)))
  | "saddas", [s, t] => do
    let s ← pS p s; let t ← pS p t
    some (oS (sAddAssign s t),
      pre (canonS s && canonS t) (judgeS impl (max (boundS s) (boundS t)) (fun i => cS s i + cS t i)))
  | "saddsc", [s, f, t] => do
    let s ← pS p s; let f ← pEl p f; let t ← pS p t
    some (oS (sAddAssignScaled s f t),
      pre (canonS s && canonS t) (judgeS impl (max (boundS s) (boundS t)) (fun i => cS s i + f * cS t i)))
  | "ssubas", [s, t] => do
    let s ← pS p s; let t ← pS p t
    some (oS (sSubAssign s t),
      pre (canonS s && canonS t) (judgeS impl (max (boundS s) (boundS t)) (fun i => cS s i - cS t i)))
  | "sneg", [s] => do
    let s ← pS p s
    some (shS (sNeg s), pre (canonS s) (judgeS impl (boundS s) (fun i => -(cS s i))))
  | "sscale", [s, f] => do
    let s ← pS p s; let f ← pEl p f
    some (shS (sScale s f), pre (canonS s) (judgeS impl (boundS s) (fun i => cS s i * f)))
  | "smul", [s, t] => do
    let s ← pS p s; let t ← pS p t
    some (withTag (shS (sMul s t)) (tag2 (sIsZero s) (sIsZero t) 0 0),
      pre (canonS s && canonS t) (judgeS impl (boundS s + boundS t) (conv (cS s) (cS t))))
  /- ---------- evaluation over a domain / coset, interpolation ---------- -/
  | "devaldom", [a, n, g, h] => do
    let a ← pD p a; let fa := cD a.toArray; let D ← pDom p n g h
    some (withTag (oD (evaluateOverDomainRef D a)) (if a.length > D.size then "fold" else "fit"),
      pre (canonD a) (vs impl (shD ((specElements D).map (evalFn a.length fa)))))
  | "devaldomo", [a, n, g, h] => do
    let a ← pD p a; let fa := cD a.toArray; let D ← pDom p n g h
    some (withTag (oD (evaluateOverDomainOwned D a)) (if a.length > D.size then "fold" else "fit"),
      pre (canonD a) (vs impl (shD ((specElements D).map (evalFn a.length fa)))))
  | "sevaldom", [s, n, g, h] | "sevaldomo", [s, n, g, h] => do
    let s ← pS p s; let D ← pDom p n g h
    some (oD (sEvaluateOverDomain D s),
      pre (canonS s) (vs impl (shD ((specElements D).map (evalFn (boundS s) (cS s))))))
  | "interp", [ev, n, g, h] | "interpr", [ev, n, g, h] => do
    let ev ← pD p ev; let fev := cD ev.toArray; let D ← pDom p n g h
    -- the interpolant: canonical, degree < size, and takes the given values on the domain
    let evs := (List.range D.size).map fev
    let v :=
      if impl == "panic" then "bad:panic"
      else match pD p impl with
        | none => "bad:unparseable"
        | some r =>
          if !canonD r then "bad:noncanonical"
          else if r.length > D.size then "bad:degree>=size"
          else if (specElements D).map (evalFn r.length (cD r.toArray)) == evs then "ok"
          else "bad:values-differ"
    some (shD (interpolate D ev), v)
  | "dround", [a, n, g, h] => do
    let a ← pD p a; let fa := cD a.toArray; let D ← pDom p n g h
    -- evaluate over the domain and interpolate back: a mod (X^n − h^n)
    let m := match evaluateOverDomainOwned D a with
      | .ok e => shD (interpolate D e)
      | .panic => "panic"
    let v :=
      if impl == "panic" then "bad:panic"
      else match pD p impl with
        | none => "bad:unparseable"
        | some r =>
          if !canonD r then "bad:noncanonical"
          else if r.length > D.size then "bad:degree>=size"
          else if (specElements D).map (evalFn r.length (cD r.toArray)) == (specElements D).map (evalFn a.length fa) then "ok"
          else "bad:values-differ"
    some (m, pre (canonD a) v)
  /- ---------- DenseOrSparsePolynomial: conversions and queries ---------- -/
  | "dosz", [kind, a] => do
    if kind == "do" || kind == "db" then
      let a ← pD p a; let fa := cD a.toArray
      some (boolStr (DoS.isZero (.d a)), vs impl (boolStr (allZero a.length fa)))
    else
      let s ← pS p a
      some (boolStr (DoS.isZero (.s s)), pre (canonS s) (vs impl (boolStr (allZero (boundS s) (cS s)))))
  | "dosdeg", [kind, a] => do
    if kind == "do" || kind == "db" then
      let a ← pD p a
      let m := match DoS.degree (.d a) with | .ok d => hex d | .panic => "panic"
      some (m, pre (canonD a) (vs impl (hex (a.length - 1))))
    else
      let s ← pS p a
      let m := match DoS.degree (.s s) with | .ok d => hex d | .panic => "panic"
      some (m, pre (canonS s) (vs impl (hex (boundS s - 1))))
  | "dos2d", [kind, a] => do
    if kind == "do" || kind == "db" then
      let a ← pD p a; let fa := cD a.toArray
      some (oD (DoS.toDense (.d a)), pre (canonD a) (judgeD impl a.length fa))
    else
      let s ← pS p a
      some (oD (DoS.toDense (.s s)), pre (canonS s) (judgeD impl (boundS s) (cS s)))
  | "dos2s", [kind, a] => do
    if kind == "do" || kind == "db" then
      let a ← pD p a
      -- the conversion refuses the dense variant
      some ((match DoS.tryIntoSparse (.d a) with | some t => shS t | none => "err"), vs impl "err")
    else
      let s ← pS p a
      some ((match DoS.tryIntoSparse (.s s) with | some t => shS t | none => "err"),
        pre (canonS s) (judgeS impl (boundS s) (cS s)))
  | "dosevaldom", [kind, a, n, g, h] => do
    let D ← pDom p n g h
    if kind == "do" || kind == "db" then
      let a ← pD p a; let fa := cD a.toArray
      let m := if kind == "do" then evaluateOverDomainOwned D a else evaluateOverDomainRef D a
      some (withTag (oD m) (kind ++ (if a.length > D.size then "-fold" else "-fit")),
        pre (canonD a) (vs impl (shD ((specElements D).map (evalFn a.length fa)))))
    else
      let s ← pS p a
      some (withTag (oD (sEvaluateOverDomain D s)) kind,
        pre (canonS s) (vs impl (shD ((specElements D).map (evalFn (boundS s) (cS s))))))
  /- ---------- derived serialization ---------- -/
  | "dser", [a] => do
    let a ← pD p a
    let fw := feWidth p
    let bytes := leBytes a.length 8 ++ a.flatMap (fun x => leBytes x.val fw)
    let m := bytesHex bytes ++ " " ++ hex bytes.length ++ " " ++ shD a
    let v := match impl.splitOn " " with
      | [bs, sz, back] =>
        (match parseBytes? bs, parseHex? sz with
         | some bl, some sz =>
           if sz != bl.length then "bad:serialized_size"
           else if fromLE (bl.take 8) != a.length || bl.length != 8 + a.length * fw then "bad:length"
           else if (List.range a.length).map (fun i => fromLE ((bl.drop (8 + i * fw)).take fw)) != a.map (·.val) then "bad:elements"
           else if back != shD a then "bad:round-trip"
           else if canonD a then "ok" else "note:deserialization-keeps-noncanonical-form"
         | _, _ => "bad:format")
      | _ => "bad:format"
    some (m, v)
  | "sser", [s] => do
    let s ← pS p s
    let fw := feWidth p
    let bytes := leBytes s.length 8 ++ s.flatMap (fun t => leBytes t.1 8 ++ leBytes t.2.val fw)
    let m := bytesHex bytes ++ " " ++ hex bytes.length ++ " " ++ shS s
    let v := match impl.splitOn " " with
      | [bs, sz, back] =>
        (match parseBytes? bs, parseHex? sz with
         | some bl, some sz =>
           if sz != bl.length then "bad:serialized_size"
           else if fromLE (bl.take 8) != s.length || bl.length != 8 + s.length * (8 + fw) then "bad:length"
           else if (List.range s.length).map (fun i =>
               let t := (bl.drop (8 + i * (8 + fw))).take (8 + fw)
               (fromLE (t.take 8), fromLE (t.drop 8))) != s.map (fun t => (t.1, t.2.val)) then "bad:terms"
           else if back != shS s then "bad:round-trip"
           else if canonS s then "ok" else "note:deserialization-keeps-noncanonical-form"
         | _, _ => "bad:format")
      | _ => "bad:format"
    some (m, v)
  /- ---------- DenseUVPolynomial::rand (verdict only) ---------- -/
  | "drand", [d, _seed] => do
    let d ← parseHex? d
    -- `<coeffs> <degree()>`: exactly d+1 canonical residues, the last one non-zero, degree d
    let v := match impl.splitOn " " with
      | [cs, dg] =>
        (match (if cs == "_" then some [] else mapM? parseHex? (cs.splitOn ",")), parseHex? dg with
         | some l, some dg =>
           if l.length != d + 1 then "bad:len"
           else if l.any (· ≥ p) then "bad:noncanonical-residue"
           else if l.getLast? == some 0 then "bad:leading-zero"
           else if dg != d then "bad:degree"
           else "ok"
         | _, _ => "bad:unparseable")
      | _ => if impl == "panic" then "bad:panic" else "bad:unparseable"
    some ("any", v)
  /- ---------- sparse evaluation with huge exponents ---------- -/
  | "sevalx", [s, x] => do
    let s ← pS p s; let x ← pEl p x
    let m := match sEvaluate s x with
      | .ok v => shEl v
      | .panic => "panic"
    let w : Fp p := s.foldl (fun acc t => acc + t.2 * Fp.pow x t.1) 0
    some (m, pre (canonS s) (vs impl (shEl w)))
  | "sevaldomx", [s, n, g, h] => do
    let s ← pS p s; let D ← pDom p n g h
    let w := (specElements D).map (fun e => s.foldl (fun (acc : Fp p) t => acc + t.2 * Fp.pow e t.1) 0)
    some (oD (sEvaluateOverDomain D s), pre (canonS s) (vs impl (shD w)))
  | _, _ => none

def run (op : String) (args : List String) (impl : String) : Option (String × String) :=
  match args with
  | ps :: rest =>
    match parseHex? ps with
    | some p => if p < 2 then none else runP p op rest impl
    | none => none
  | [] => none

end Ark.DrvC08
