import Ark.Model.Bytes
import Ark.Model.Sqrt
/-
  Ark.Model.BytesSqrt — the prime-field `Codec` of the point (de)serialisers with `Field::sqrt`
  routed through the C11 model of the Rust square-root code (`Ark.Model.Sqrt`):

    /repo/ff/src/fields/mod.rs                          `Field::sqrt` (dispatch on `SQRT_PRECOMP`)
    /repo/ff/src/fields/sqrt.rs                         `SqrtPrecomputation::{TonelliShanks, Case3Mod4}::sqrt`
    /repo/ff/src/fields/models/fp/montgomery_backend.rs `sqrt_precomputation` (`TWO_ADIC_ROOT_OF_UNITY = g^t`)

  `fpCodecV c` is `fpCodec c` (`Ark.Model.Bytes`) except for the field `sqrt`, which is
  `(fpSqrtD false p (sqrtPrecomputation N p root)).sqrt` with `root = g^t`, `p − 1 = 2^s·t`, `g` the least
  quadratic non-residue `≥ 2` (Rust reads `g^t` from the configuration constant
  `TWO_ADIC_ROOT_OF_UNITY`; the serialisation configuration `FpCfg` only carries `p` and `N`, so it is
  recomputed here — the sign rule of the point code makes the result independent of which root is
  returned, hence of the choice of `g`).  The search is skipped for `p ≡ 3 (mod 4)`, where
  `sqrt_precomputation` ignores the root.  `p = 2` (no non-residue; never a curve field) is answered
  directly as in `fpSqrt`.  As in `fpSqrt` the argument is reduced first (a no-op on field elements).

  `fp2CodecV c β` is `fp2Codec c β` except for `sqrt`, which is `QuadExtField::sqrt` (the complex method
  of /repo/ff/src/fields/models/quadratic_extension.rs, C11's `quadSqrt`) over the same prime-field
  dictionary, with the default hooks of `Fp2Config` for `NONRESIDUE = β`.

  Mathlib-free: linked into the `arkdrv` executable (`Ark.Model.DrvC09`).
-/
namespace Ark.Bytes
open Ark

/-- least `z ≥ z₀` whose Legendre symbol (Euler's criterion, `Fp::legendre` of C11) is `−1`;
    fuel `p` always suffices from `z₀ = 2` for an odd prime `p` -/
def findQnr (p : Nat) : Nat → Nat → Nat
  | 0, z => z
  | fuel + 1, z =>
    if Sqrt.legendreEuler (fun a : Fp p => a * a) (p / 2) (Fp.ofNat p z) = .qnr then z
    else findQnr p fuel (z + 1)

/-- `TWO_ADIC_ROOT_OF_UNITY = g^t` with `t = MODULUS.two_adic_coefficient()` -/
def twoAdicRoot (p : Nat) : Fp p :=
  Sqrt.pow (fun a : Fp p => a * a) (Fp.ofNat p (findQnr p p 2)) (Sqrt.twoAdic p).2

/-- `SQRT_PRECOMP = sqrt_precomputation::<N, T>()` -/
def fpSqrtPre (c : FpCfg) : Option (Sqrt.Precomp (Fp c.p)) :=
  if c.p % 4 = 3 then Sqrt.sqrtPrecomputation c.N c.p (0 : Fp c.p)
  else Sqrt.sqrtPrecomputation c.N c.p (twoAdicRoot c.p)

/-- `Field::sqrt` through the C11 model (release build: no debug assertions); a panic or a
    non-terminating loop — both unreachable for a prime modulus, see `Ark.Props.C09b` — is `none` -/
def fpSqrtV (c : FpCfg) (pre : Option (Sqrt.Precomp (Fp c.p))) (a : Fp c.p) : Option (Fp c.p) :=
  if c.p = 2 then some ⟨a.val % 2⟩
  else
    match (Sqrt.fpSqrtD false c.p pre).sqrt ⟨a.val % c.p⟩ with
    | .ok r => r
    | _ => none

/-- the `Codec` of a prime field, `sqrt` by the verified model -/
def fpCodecV (c : FpCfg) : Codec (Fp c.p) :=
  let pre := fpSqrtPre c
  { fpCodec c with sqrt := fpSqrtV c pre }

/-! ## `Fp2 = Fp[u]/(u² − β)` -/

/-- `Fp2ConfigWrapper<P>` with the default hooks of `Fp2Config` (`NONRESIDUE = β`); the Frobenius table
    is not used by `sqrt` -/
def fp2QuadCfg (p β : Nat) : Ext.QuadCfg (Fp p) := (Ext.Fp2Cfg.default (Fp.ofNat p β) []).wrap

/-- `QuadExtField::sqrt` through the C11 model (release build); the coordinates are reduced first
    (a no-op on field elements); a panic — unreachable for a prime modulus and a non-residue `β`,
    see `Ark.Props.C09b` — is `none` -/
def fp2SqrtV (c : FpCfg) (β : Nat) (pre : Option (Sqrt.Precomp (Fp c.p))) (a : Fp2 c.p β) :
    Option (Fp2 c.p β) :=
  match Sqrt.quadSqrt false (fp2QuadCfg c.p β) (Ext.fpD c.p) (Sqrt.fpSqrtD false c.p pre)
      (Sqrt.fpPrimeD c.p c.N) ⟨⟨a.c0.val % c.p⟩, ⟨a.c1.val % c.p⟩⟩ with
  | .ok (some r) => some ⟨r.c0, r.c1⟩
  | _ => none

/-- the `Codec` of `Fp2`, `sqrt` by the verified model -/
def fp2CodecV (c : FpCfg) (β : Nat) : Codec (Fp2 c.p β) :=
  let pre := fpSqrtPre c
  { fp2Codec c β with sqrt := fp2SqrtV c β pre }

end Ark.Bytes
