import Ark.Model.Mont
import Ark.Model.MontOps
import Ark.Model.FieldOps
import Ark.Model.NatSpec
import Ark.Model.Proto
/-  Driver dispatch for C01: `<op> <d|t> <N> <p> args…`; elements are raw Montgomery values -/
namespace Ark.DrvC01
open Ark Ark.Proto Ark.Mont Ark.Spec

structure Cache where
  key : String := ""
  cfg : MontCfg := mkCfg true 1 3
  rinv : Nat := 0      -- (2^(64N))⁻¹ mod p

def getCfg (cache : Cache) (fl n p : String) : Option Cache := do
  let key := fl ++ " " ++ n ++ " " ++ p
  if cache.key == key then some cache
  else
    let nn ← parseHex? n; let pp ← parseHex? p
    some { key := key, cfg := mkCfg (fl == "d") nn pp, rinv := modInv (B ^ nn % pp) pp }

def vs (impl spec : String) : String := if impl == spec then "ok" else "bad:want=" ++ spec

def outStr : Outcome (List Nat) → String
  | .ok l => hex (value l)
  | .panic => "panic"

def optStr : Option (List Nat) → String
  | some l => hex (value l)
  | none => "none"

def run (cache : Cache) (op : String) (args : List String) (impl : String) : Option (Cache × String × String) := do
  match args with
  | fl :: n :: p :: rest =>
    let cache ← getCfg cache fl n p
    let c := cache.cfg
    let nn := c.n
    let pv := value c.p
    let R := B ^ nn % pv
    let toN (x : Nat) : Nat := (x * cache.rinv) % pv      -- Montgomery → standard
    let frN (y : Nat) : Nat := (y * R) % pv               -- standard → Montgomery
    let L (x : Nat) := toLimbs nn x
    let out (m s : String) : Option (Cache × String × String) := some (cache, m, vs impl s)
    match op, rest with
    | "consts", [] =>
      -- R, R2, INV, spare, nocarry as the flavour computes them
      -- the constant `CAN_USE_NO_CARRY_MUL_OPT` is always the trait's predicate (the derive
      -- macro bakes its own, stricter predicate into the generated code instead)
      let traitNoCarry := (mkCfg false nn pv).noCarry
      let m := s!"{hex (value c.r)} {hex (value c.r2)} {hex c.inv} {boolStr c.spare} {boolStr traitNoCarry}"
      let invSpec := (B - modInv (pv % B) B) % B
      let s := s!"{hex R} {hex ((R * R) % pv)} {hex invSpec} {boolStr (decide (pv < B ^ nn / 2))} {boolStr (decide (pv < B ^ nn / 2) && pv != B ^ nn / 2 - 1)}"
      out m s
    | "add", [a, b] =>
      let a ← parseHex? a; let b ← parseHex? b
      out (hex (value (Mont.add c (L a) (L b)))) (hex ((a + b) % pv))
    | "sub", [a, b] =>
      let a ← parseHex? a; let b ← parseHex? b
      out (hex (value (Mont.sub c (L a) (L b)))) (hex ((pv + a - b) % pv))
    | "neg", [a] =>
      let a ← parseHex? a
      out (hex (value (Mont.neg c (L a)))) (hex ((pv - a) % pv))
    | "double", [a] =>
      let a ← parseHex? a
      out (hex (value (Mont.double c (L a)))) (hex ((2 * a) % pv))
    | "mul", [a, b] =>
      let a ← parseHex? a; let b ← parseHex? b
      out (hex (value (Mont.mul c (L a) (L b)))) (hex (frN (toN a * toN b)))
    | "square", [a] =>
      let a ← parseHex? a
      out (hex (value (Mont.square c (L a)))) (hex (frN (toN a * toN a)))
    | "inverse", [a] =>
      let a ← parseHex? a
      out (optStr (Mont.inverse c (L a))) (if a % pv = 0 then "none" else hex (frN (modInv (toN a) pv)))
    | "frombigint", [x] =>
      let x ← parseHex? x
      out (optStr (Mont.fromBigint c (L x))) (if x ≥ pv then "none" else hex (frN x))
    | "intobigint", [a] =>
      let a ← parseHex? a
      out (hex (value (Mont.intoBigint c (L a)))) (hex (toN a))
    | "new", [x] =>
      let x ← parseHex? x       -- Fp::new (const CIOS), any x < 2^(64N)
      out (hex (value (Mont.fpNew c (L x)))) (hex (frN x))
    | "pow", [a, e] =>
      let a ← parseHex? a; let e ← parseList? e
      let bits := toBitsBE e
      out (hex (value ((montOps c).pow (L a) bits))) (hex (frN (powMod (toN a) (value e) pv)))
    | "sop", [as, bs] =>
      let as ← parseList? as; let bs ← parseList? bs
      let sp := ((as.zip bs).map (fun ab => toN ab.1 * toN ab.2)).foldl (· + ·) 0
      out (hex (value (Mont.sumOfProducts c (as.map L) (bs.map L)))) (hex (frN sp))
    | "batchinv", [vs_, coeff] =>
      let v ← parseList? vs_; let coeff ← parseHex? coeff
      let m := match (montOps c).batchInvMul (v.map L) (L coeff) with
        | some r => hexList (r.map value)
        | none => "panic"
      let s := hexList (v.map (fun x => if x % pv = 0 then 0 else frN (toN coeff * modInv (toN x) pv)))
      out m s
    | "fromu64", [x] =>
      let x ← parseHex? x
      out (outStr (Mont.fromU64 c x)) (if nn ≥ 2 ∧ x ≥ pv then "panic" else hex (frN x))
    | "fromu128", [x] =>
      let x ← parseHex? x
      out (outStr (Mont.fromU128 c x)) (if nn ≥ 3 ∧ !(isZero (c.p.drop 2)) ∧ x ≥ pv then "panic" else hex (frN x))
    | "fromi64", [x] =>
      let x ← parseInt? x
      out (outStr (Mont.fromSigned c false x)) (if nn ≥ 2 ∧ x.natAbs ≥ pv then "panic" else hex (frN ((x % (pv : Int)).toNat)))
    | "fromi128", [x] =>
      let x ← parseInt? x
      out (outStr (Mont.fromSigned c true x)) (if nn ≥ 3 ∧ !(isZero (c.p.drop 2)) ∧ x.natAbs ≥ pv then "panic" else hex (frN ((x % (pv : Int)).toNat)))
    | "frombytesle", [bs] =>
      let bs ← parseList? bs
      out (outStr (Mont.fromLeBytesModOrder c bs)) (if nn ≥ 2 ∧ pv ≤ 256 then "panic" else hex (frN (Mont.bytesValueLE bs)))
    | "frombytesbe", [bs] =>
      let bs ← parseList? bs
      out (outStr (Mont.fromBeBytesModOrder c bs)) (if nn ≥ 2 ∧ pv ≤ 256 then "panic" else hex (frN (Mont.bytesValueLE bs.reverse)))
    | "fromstr", [d] =>
      -- decimal parse goes through num-bigint (trusted): `d` is the integer, printed in hex by the harness
      let x ← parseInt? d
      let s := hex (frN ((x % (pv : Int)).toNat))
      out s s
    | "display", [a, d] =>
      -- harness passes the decimal string re-parsed as a number (hex): must equal the standard value
      let a ← parseHex? a; let _d ← parseHex? d
      let s := hex (toN a)
      out s s
    | _, _ => none
  | _ => none

end Ark.DrvC01
