import Ark.Model.Mont
import Ark.Model.MontOps
import Ark.Model.FieldOps
import Ark.Model.NatSpec
import Ark.Model.Proto
/-  Driver dispatch for C01: `<op> <d|t> <N> <p> args…`; elements are raw Montgomery values -/
/-! ### model additions for the coverage-gap ops of `ff/src/fields/models/fp/mod.rs`
    (kept here so that the modules depending on `Mont`/`MontOps` are not rebuilt) -/
namespace Ark.Mont

/-- `Field::inverse_in_place`: `self.inverse().map(|inverse| { *self = inverse; self })` —
    returns `(returned value, self afterwards)` -/
def inverseInPlace (c : MontCfg) (a : List Nat) : Option (List Nat) × List Nat :=
  match inverse c a with
  | some r => (some r, r)
  | none => (none, a)

/-- `DivAssign<&Self>`: `*self *= &other.inverse().unwrap()` (every `Div`/`DivAssign` variant ends here) -/
def div (c : MontCfg) (a b : List Nat) : Outcome (List Nat) :=
  match inverse c b with
  | some i => .ok (mul c a i)
  | none => .panic

/-- `Sum<Self>` / `Sum<&Self>`: `iter.fold(Self::zero(), Add::add)` -/
def sumIter (c : MontCfg) (xs : List (List Nat)) : List Nat := xs.foldl (add c) (zeros c.n)
/-- `Product<Self>` / `Product<&Self>`: `iter.fold(Self::one(), Mul::mul)` -/
def productIter (c : MontCfg) (xs : List (List Nat)) : List Nat := xs.foldl (mul c) c.r

/-- default body of `AdditiveGroup::double_in_place`: `*self += *self` -/
def groupDoubleDefault (c : MontCfg) (a : List Nat) : List Nat := add c a a
/-- default body of `AdditiveGroup::neg_in_place`: `*self = -(*self)` -/
def groupNegDefault (c : MontCfg) (a : List Nat) : List Nat := neg c a

/-- `Zeroize::zeroize`: `self.0.zeroize()` -/
def zeroize (c : MontCfg) (_a : List Nat) : List Nat := zeros c.n

/-- `BigInt::from_str` of num-bigint 0.4 on the bytes of a string (third-party code, modelled as far
    as the harness corpus goes): an optional `-` (kept when followed by `+`), then `BigUint::from_str`:
    an optional `+` (not followed by `+`), a non-empty rest not starting with `_`, underscores
    skipped, every other byte an ASCII digit -/
def parseBigUintStr (s : List Nat) : Option Nat :=
  let s := match s with
    | 43 :: t => if t.head? == some 43 then s else t
    | _ => s
  if s.isEmpty || s.head? == some 95 then none
  else s.foldl (fun acc ch => match acc with
    | none => none
    | some v => if ch == 95 then some v else if 48 ≤ ch ∧ ch ≤ 57 then some (v * 10 + (ch - 48)) else none) (some 0)

def parseBigIntStr (s : List Nat) : Option Int :=
  match s with
  | 45 :: t =>
    if t.head? == some 43 then none        -- "-+…": the `-` stays and is not a digit
    else (parseBigUintStr t).map (fun v => - (v : Int))
  | _ => (parseBigUintStr s).map (fun v => (v : Int))

/-- `FromStr for Fp`: parse, reduce with the truncated `%`, add the modulus when negative, `from_bigint` -/
def fromStr (c : MontCfg) (s : List Nat) : Option (List Nat) :=
  match parseBigIntStr s with
  | none => none
  | some v =>
    let pv : Int := (value c.p : Nat)
    let a := Int.tmod v pv
    let a := if a < 0 then a + pv else a
    fromBigint c (toLimbs c.n a.toNat)

end Ark.Mont

namespace Ark.DrvC01
open Ark Ark.Proto Ark.Mont Ark.Spec

structure Cache where
  key : String := ""
  cfg : MontCfg := mkCfg true 1 3
  rinv : Nat := 0      -- (2^(64N))⁻¹ mod p

def getCfg (cache : Cache) (fl n p : String) : Option Cache := do
  let key := fl ++ " " ++ n ++ " " ++ p
  if cache.key == key then some cache
  else
    let nn ← parseHex? n; let pp ← parseHex? p
    some { key := key, cfg := mkCfg (fl == "d") nn pp, rinv := modInv (B ^ nn % pp) pp }

def vs (impl spec : String) : String := if impl == spec then "ok" else "bad:want=" ++ spec

def outStr : Outcome (List Nat) → String
  | .ok l => hex (value l)
  | .panic => "panic"

def optStr : Option (List Nat) → String
  | some l => hex (value l)
  | none => "none"

def run (cache : Cache) (op : String) (args : List String) (impl : String) : Option (Cache × String × String) := do
  match args with
  | fl :: n :: p :: rest =>
    let cache ← getCfg cache fl n p
    let c := cache.cfg
    let nn := c.n
    let pv := value c.p
    let R := B ^ nn % pv
    let toN (x : Nat) : Nat := (x * cache.rinv) % pv      -- Montgomery → standard
    let frN (y : Nat) : Nat := (y * R) % pv               -- standard → Montgomery
    let L (x : Nat) := toLimbs nn x
    let out (m s : String) : Option (Cache × String × String) := some (cache, m, vs impl s)
    match op, rest with
    | "consts", [] =>
      -- R, R2, INV, spare, nocarry as the flavour computes them
      -- the constant `CAN_USE_NO_CARRY_MUL_OPT` is always the trait's predicate (the derive
      -- macro bakes its own, stricter predicate into the generated code instead)
      let traitNoCarry := (mkCfg false nn pv).noCarry
      let m := s!"{hex (value c.r)} {hex (value c.r2)} {hex c.inv} {boolStr c.spare} {boolStr traitNoCarry}"
      let invSpec := (B - modInv (pv % B) B) % B
      let s := s!"{hex R} {hex ((R * R) % pv)} {hex invSpec} {boolStr (decide (pv < B ^ nn / 2))} {boolStr (decide (pv < B ^ nn / 2) && pv != B ^ nn / 2 - 1)}"
      out m s
    | "add", [a, b] =>
      let a ← parseHex? a; let b ← parseHex? b
      out (hex (value (Mont.add c (L a) (L b)))) (hex ((a + b) % pv))
    | "sub", [a, b] =>
      let a ← parseHex? a; let b ← parseHex? b
      out (hex (value (Mont.sub c (L a) (L b)))) (hex ((pv + a - b) % pv))
    | "neg", [a] =>
      let a ← parseHex? a
      out (hex (value (Mont.neg c (L a)))) (hex ((pv - a) % pv))
    | "double", [a] =>
      let a ← parseHex? a
      out (hex (value (Mont.double c (L a)))) (hex ((2 * a) % pv))
    | "mul", [a, b] =>
      let a ← parseHex? a; let b ← parseHex? b
      out (hex (value (Mont.mul c (L a) (L b)))) (hex (frN (toN a * toN b)))
    | "square", [a] =>
      let a ← parseHex? a
      out (hex (value (Mont.square c (L a)))) (hex (frN (toN a * toN a)))
    | "inverse", [a] =>
      let a ← parseHex? a
      out (optStr (Mont.inverse c (L a))) (if a % pv = 0 then "none" else hex (frN (modInv (toN a) pv)))
    | "frombigint", [x] =>
      let x ← parseHex? x
      out (optStr (Mont.fromBigint c (L x))) (if x ≥ pv then "none" else hex (frN x))
    | "intobigint", [a] =>
      let a ← parseHex? a
      out (hex (value (Mont.intoBigint c (L a)))) (hex (toN a))
    | "new", [x] =>
      let x ← parseHex? x       -- Fp::new (const CIOS), any x < 2^(64N)
      out (hex (value (Mont.fpNew c (L x)))) (hex (frN x))
    | "pow", [a, e] =>
      let a ← parseHex? a; let e ← parseList? e
      let bits := toBitsBE e
      out (hex (value ((montOps c).pow (L a) bits))) (hex (frN (powMod (toN a) (value e) pv)))
    | "sop", [as, bs] =>
      let as ← parseList? as; let bs ← parseList? bs
      let sp := ((as.zip bs).map (fun ab => toN ab.1 * toN ab.2)).foldl (· + ·) 0
      out (hex (value (Mont.sumOfProducts c (as.map L) (bs.map L)))) (hex (frN sp))
    | "batchinv", [vs_, coeff] =>
      let v ← parseList? vs_; let coeff ← parseHex? coeff
      let m := match (montOps c).batchInvMul (v.map L) (L coeff) with
        | some r => hexList (r.map value)
        | none => "panic"
      let s := hexList (v.map (fun x => if x % pv = 0 then 0 else frN (toN coeff * modInv (toN x) pv)))
      out m s
    | "fromu64", [x] =>
      let x ← parseHex? x
      out (outStr (Mont.fromU64 c x)) (if nn ≥ 2 ∧ x ≥ pv then "panic" else hex (frN x))
    | "fromu128", [x] =>
      let x ← parseHex? x
      out (outStr (Mont.fromU128 c x)) (if nn ≥ 3 ∧ !(isZero (c.p.drop 2)) ∧ x ≥ pv then "panic" else hex (frN x))
    | "fromi64", [x] =>
      let x ← parseInt? x
      out (outStr (Mont.fromSigned c false x)) (if nn ≥ 2 ∧ x.natAbs ≥ pv then "panic" else hex (frN ((x % (pv : Int)).toNat)))
    | "fromi128", [x] =>
      let x ← parseInt? x
      out (outStr (Mont.fromSigned c true x)) (if nn ≥ 3 ∧ !(isZero (c.p.drop 2)) ∧ x.natAbs ≥ pv then "panic" else hex (frN ((x % (pv : Int)).toNat)))
    | "frombytesle", [bs] =>
      let bs ← parseList? bs
      out (outStr (Mont.fromLeBytesModOrder c bs)) (if nn ≥ 2 ∧ pv ≤ 256 then "panic" else hex (frN (Mont.bytesValueLE bs)))
    | "frombytesbe", [bs] =>
      let bs ← parseList? bs
      out (outStr (Mont.fromBeBytesModOrder c bs)) (if nn ≥ 2 ∧ pv ≤ 256 then "panic" else hex (frN (Mont.bytesValueLE bs.reverse)))
    | "fromstr", [d] =>
      -- decimal parse goes through num-bigint (trusted): `d` is the integer, printed in hex by the harness
      let x ← parseInt? d
      let s := hex (frN ((x % (pv : Int)).toNat))
      out s s
    | "display", [a, d] =>
      -- harness passes the decimal string re-parsed as a number (hex): must equal the standard value
      let a ← parseHex? a; let _d ← parseHex? d
      let s := hex (toN a)
      out s s
    -- ---- coverage-gap ops
    | "invip", [a] =>
      let a ← parseHex? a
      let r := Mont.inverseInPlace c (L a)
      let spec := if a % pv = 0 then "none " ++ hex a
        else let i := hex (frN (modInv (toN a) pv)); i ++ " " ++ i
      out (optStr r.1 ++ " " ++ hex (value r.2)) spec
    | "div", [a, b] =>
      -- every receiver variant of `Div` / `DivAssign`; division by zero panics (documented)
      let a ← parseHex? a; let b ← parseHex? b
      out (outStr (Mont.div c (L a) (L b))) (if b % pv = 0 then "panic" else hex (frN (toN a * modInv (toN b) pv)))
    | "sum", [l] =>
      let l ← parseList? l
      out (hex (value (Mont.sumIter c (l.map L)))) (hex ((l.foldl (· + ·) 0) % pv))
    | "prod", [l] =>
      let l ← parseList? l
      out (hex (value (Mont.productIter c (l.map L)))) (hex (frN ((l.map toN).foldl (· * ·) 1)))
    | "gdouble", [a] =>
      let a ← parseHex? a
      out (hex (value (Mont.groupDoubleDefault c (L a)))) (hex ((2 * a) % pv))
    | "gneg", [a] =>
      let a ← parseHex? a
      out (hex (value (Mont.groupNegDefault c (L a)))) (hex ((pv - a) % pv))
    | "zeroize", [a] =>
      let a ← parseHex? a
      out (hex (value (Mont.zeroize c (L a)))) "0"
    | "valid", [a] =>
      let _ ← parseHex? a
      out "ok" "ok"
    | "char", [] =>
      out (hexList c.p) (hexList ((List.range nn).map (fun i => (pv / B ^ i) % B)))
    | "fromelems", [l] =>
      let l ← parseList? l
      out (match l with | [x] => hex x | _ => "none") (if l.length == 1 then hex (l.headD 0) else "none")
    | "toelems", [a] =>
      let a ← parseHex? a
      out (hexList [a]) (hex a)
    | "fromw", [w, x] =>
      -- `From<w> for Fp`, w ∈ {u8,…,u128,i8,…,i128,bool}
      let x ← parseInt? x
      let (signed, bits) ← match w with
        | "u8" => some (false, 8) | "u16" => some (false, 16) | "u32" => some (false, 32) | "u64" => some (false, 64)
        | "u128" => some (false, 128) | "i8" => some (true, 8) | "i16" => some (true, 16) | "i32" => some (true, 32)
        | "i64" => some (true, 64) | "i128" => some (true, 128) | "bool" => some (false, 1) | _ => none
      let inRange := if signed then (-(2 ^ (bits - 1) : Int) ≤ x ∧ x < (2 ^ (bits - 1) : Int)) else (0 ≤ x ∧ x < (2 ^ bits : Int))
      if !inRange then none
      else
        let wide := bits == 128
        let m := if signed then Mont.fromSigned c wide x
          else if wide then Mont.fromU128 c x.toNat else Mont.fromU64 c x.toNat
        -- hand-written configurations with more limbs than the modulus needs: `BigInt → Fp` conversion
        -- `unwrap`s on values ≥ p (DESIGN.md §5 notes; same rule as fromu64 / fromu128 above)
        let panics := if wide then nn ≥ 3 ∧ !(isZero (c.p.drop 2)) ∧ x.natAbs ≥ pv else nn ≥ 2 ∧ x.natAbs ≥ pv
        out (outStr m) (if panics then "panic" else hex (frN ((x % (pv : Int)).toNat)))
    | "fromstrs", [bs] =>
      -- `FromStr`: documented as "a string of numbers … Does not accept unnecessary leading zeroes or a
      -- blank string"; spec: `-?(0|[1-9][0-9]*)` ↦ the congruent element, everything else `Err`
      let bs ← parseList? bs
      let m := match Mont.fromStr c bs with | some r => hex (value r) | none => "err"
      let (neg, ds) := match bs with | 45 :: t => (true, t) | _ => (false, bs)
      let okDigits := !ds.isEmpty && ds.all (fun ch => 48 ≤ ch && ch ≤ 57) && (ds.length == 1 || ds.head? != some 48)
      let v : Nat := ds.foldl (fun acc ch => acc * 10 + (ch - 48)) 0
      let r : Int := if neg then - (v : Int) else v
      if okDigits then out m (hex (frN ((r % (pv : Int)).toNat)))
      else if impl == "err" then out m "err"
      else
        -- a string outside the documented syntax was accepted (the parser is num-bigint's, which also takes
        -- leading zeros, `+`, `_` separators): the accepted *syntax* is not part of C01's statement; the
        -- value must still be the congruent element of the liberally read number
        let (neg2, ds2) := match bs with | 45 :: t => (true, t) | 43 :: t => (false, t) | _ => (false, bs)
        let ds2 := ds2.filter (· != 95)
        let lib := !ds2.isEmpty && ds2.all (fun ch => 48 ≤ ch && ch ≤ 57)
        let v2 : Nat := ds2.foldl (fun acc ch => acc * 10 + (ch - 48)) 0
        let r2 : Int := if neg2 then - (v2 : Int) else v2
        if lib && impl == hex (frN ((r2 % (pv : Int)).toNat)) then
          some (cache, m, "note:FromStr accepts a string the doc comment says it rejects (leading zero / + / _)")
        else some (cache, m, "bad:want=err")
    | _, _ => none
  | _ => none

end Ark.DrvC01
