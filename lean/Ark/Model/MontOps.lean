import Ark.Model.Mont
import Ark.Model.FieldOps
/-
  Ark.Model.MontOps — the Montgomery backend packaged as an `Ops` record (so that the generic
  algorithms `pow`, `batchInvMul` run on it) and the integer / byte-string conversions of
  `ff/src/fields/models/fp/mod.rs` (`From<u64>`, `From<u128>`, `From<i*>`, `From<bool>`) and
  `ff/src/fields/prime.rs` (`from_le_bytes_mod_order`, `from_be_bytes_mod_order`).
-/
namespace Ark.Mont
open Ark

def montOps (c : MontCfg) : Ops (List Nat) where
  zero := zeros c.n
  one := c.r
  add := Mont.add c
  sub := Mont.sub c
  mul := Mont.mul c
  neg := Mont.neg c
  square := Mont.square c
  double := Mont.double c
  inv := Mont.inverse c
  isZero := isZero

/-- `BigInt::from(x).into()` = `from_bigint(..).unwrap()`: panics when `x ≥ p` -/
def fromBigintUnwrap (c : MontCfg) (x : Nat) : Outcome (List Nat) :=
  match fromBigint c (toLimbs c.n x) with
  | some r => .ok r
  | none => .panic

/-- `From<u64>` (also `u32/u16/u8/bool` after widening): for `N == 1` reduce `% MODULUS.0[0]` first -/
def fromU64 (c : MontCfg) (x : Nat) : Outcome (List Nat) :=
  if c.n == 1 then fromBigintUnwrap c (x % c.p.headD 1) else fromBigintUnwrap c x

/-- `From<u128>` -/
def fromU128 (c : MontCfg) (x : Nat) : Outcome (List Nat) :=
  if c.n == 1 then fromBigintUnwrap c (x % c.p.headD 1)
  else if c.n == 2 || isZero (c.p.drop 2) then
    let m := c.p.headD 0 + B * (c.p.getD 1 0)
    fromBigintUnwrap c (x % m)        -- `other %= mod_as_u128` (panics on m = 0: impossible for a modulus)
  else fromBigintUnwrap c x

/-- `From<i128>` / `From<i64>` …: `abs = other.unsigned_abs().into(); if other.is_positive() { abs } else { -abs }`
    (zero goes through the negation branch) -/
def fromSigned (c : MontCfg) (wide : Bool) (x : Int) : Outcome (List Nat) :=
  let abs := if wide then fromU128 c x.natAbs else fromU64 c x.natAbs
  match abs with
  | .ok a => if x > 0 then .ok a else .ok (neg c a)
  | .panic => .panic

def modulusBytes (c : MontCfg) : Nat := (numBits c.p + 7) / 8

def bytesValueLE : List Nat → Nat
  | [] => 0
  | b :: bs => b + 256 * bytesValueLE bs

/-- `from_le_bytes_mod_order`: the top `min(num_modulus_bytes − 1, len)` bytes are converted
    directly (`from_random_bytes(..).unwrap()`), the remaining low bytes are folded in from the
    most significant one down with `res = res·256 + byte` in field arithmetic -/
def fromLeBytesModOrder (c : MontCfg) (bytes : List Nat) : Outcome (List Nat) :=
  let k := min (modulusBytes c - 1) bytes.length
  let low := bytes.take (bytes.length - k)
  let direct := bytes.drop (bytes.length - k)
  match fromBigint c (toLimbs c.n (bytesValueLE direct)), fromU64 c 256 with
  | some res0, .ok w =>
    low.reverse.foldl (fun (acc : Outcome (List Nat)) byte =>
      match acc, fromU64 c byte with
      | .ok res, .ok bb => .ok (add c (mul c res w) bb)
      | _, _ => .panic) (.ok res0)
  | _, _ => .panic

def fromBeBytesModOrder (c : MontCfg) (bytes : List Nat) : Outcome (List Nat) :=
  fromLeBytesModOrder c bytes.reverse

end Ark.Mont
