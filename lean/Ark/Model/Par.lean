import Ark.Model.Limbs
import Ark.Model.FieldOps
/-
  Ark.Model.Par — C14: the work-splitting logic of every `#[cfg(feature = "parallel")]` branch
  whose *result* is computed differently from the serial branch, as a pure function of the
  thread count `T = rayon::current_num_threads()` (chunk sizes, per-chunk starting values,
  recombination), each next to the serial function it must agree with:

    ff/src/fields/mod.rs                     batch_inversion_and_mul           chunkedBatchInv
    poly/src/domain/mod.rs                   distribute_powers_and_mul_by_const distributePowersPar
    poly/src/polynomial/univariate/dense.rs  evaluate / internal_evaluate       evaluatePar
    poly/src/domain/utils.rs                 compute_powers (unused)            computePowersPar
                                             best_fft / parallel_fft            bestFft / parallelFft
    poly/src/domain/radix2/fft.rs            roots_of_unity(_recursive)         rootsOfUnityPar
    poly/src/domain/mixed_radix.rs           fft_in_place / ifft_in_place       mixedFftPar / mixedIfftPar

  What is *not* here: rayon's scheduling.  A `par_iter().for_each / map().collect()` over
  disjoint items is modelled as the corresponding `List.map`; `.sum()` / `.product()` of field
  elements as a left fold (the reduction tree chosen by rayon is not observable for an
  associative-commutative operation — an assumption of the model, see DESIGN.md §4 C14).
  `T = 0` cannot occur (`current_num_threads() ≥ 1`; the Rust code would panic on `n / 0`);
  every theorem about this file is stated for `T ≥ 1`.

  All remaining parallel sites of the crates (`cfg_iter!(..).map(f).collect()`,
  `cfg_iter_mut!(..).for_each(f)`, `cfg_chunks_mut!(pairs, 4)` of the Miller loops, the window loop
  of the MSM, the butterfly loops of the radix-2 FFT) run the *same* per-item closure on the same
  items in both builds, with no dependence on `T`; they are covered at verdict level only by the
  C14 correspondence check.
-/
namespace Ark.Par

section Generic
variable {F : Type} [Add F] [Sub F] [Mul F] [Neg F] [Zero F] [One F] [Inv F] [Div F] [DecidableEq F]

/-- the record of field operations handed to `Ark.Ops.batchInvMul` -/
def ops (F : Type) [Add F] [Sub F] [Mul F] [Neg F] [Zero F] [One F] [Inv F] [DecidableEq F] : Ops F where
  zero := 0
  one := 1
  add := (· + ·)
  sub := (· - ·)
  mul := (· * ·)
  neg := (- ·)
  square := fun a => a * a
  double := fun a => a + a
  inv := fun a => if a = 0 then none else some a⁻¹
  isZero := fun a => decide (a = 0)

/-- bits of `e`, most significant first, without leading zeros (`BitIteratorBE::without_leading_zeros`) -/
def bitsBE (e : Nat) : List Bool :=
  if e = 0 then [] else (List.range (e.log2 + 1)).reverse.map (fun i => e.testBit i)

/-- `Field::pow([e as u64])`: square-and-multiply, most significant bit first -/
def pow (a : F) (e : Nat) : F :=
  (bitsBE e).foldl (fun res bit => let s := res * res; if bit then s * a else s) 1

/-- `slice.chunks(k)` / `chunks_mut(k)` / `par_chunks(_mut)(k)` for `k ≥ 1` (fuel = length);
    all chunks have `k` elements except possibly the last -/
def chunksAux {α : Type} (k : Nat) : Nat → List α → List (List α)
  | 0, _ => []
  | fuel + 1, l => if l.isEmpty then [] else l.take k :: chunksAux k fuel (l.drop k)

def chunks {α : Type} (k : Nat) (l : List α) : List (List α) := chunksAux k l.length l

/-- `iter.enumerate()` -/
def enumFrom {α : Type} : Nat → List α → List (Nat × α)
  | _, [] => []
  | i, a :: as => (i, a) :: enumFrom (i + 1) as

def allSome {α : Type} : List (Option α) → Option (List α)
  | [] => some []
  | none :: _ => none
  | some a :: r => (allSome r).map (a :: ·)

/-! ### batch inversion (`ff/src/fields/mod.rs`) -/

/-- serial reference: `serial_batch_inversion_and_mul(v, coeff)` (`none` = the `unwrap` panic) -/
def serialBatchInv (v : List F) (coeff : F) : Option (List F) := (ops F).batchInvMul v coeff

/-- `batch_inversion_and_mul(v, coeff)` with the `parallel` feature:
    `num_elem_per_thread = max(len / T, 1)`; `v.par_chunks_mut(num_elem_per_thread)`, each chunk
    through `serial_batch_inversion_and_mul` -/
def chunkedBatchInv (T : Nat) (v : List F) (coeff : F) : Option (List F) :=
  let numElemPerThread := max (v.length / T) 1
  (allSome ((chunks numElemPerThread v).map (fun c => serialBatchInv c coeff))).map List.flatten

/-! ### `distribute_powers_and_mul_by_const` (`poly/src/domain/mod.rs`) -/

/-- serial branch: `pow = c; for coeff { *coeff *= pow; pow *= g }` -/
def distributePowersSerial : List F → F → F → List F
  | [], _, _ => []
  | a :: as, g, pw => a * pw :: distributePowersSerial as g (pw * g)

/-- parallel branch: chunks of `max(len / T, 1024)`, chunk `i` starts from
    `offset = c * g.pow([(i * num_elem_per_thread)])` -/
def distributePowersPar (T : Nat) (coeffs : List F) (g c : F) : List F :=
  let numElemPerThread := max (coeffs.length / T) 1024
  ((enumFrom 0 (chunks numElemPerThread coeffs)).map
    (fun (i, chunk) => distributePowersSerial chunk g (c * pow g (i * numElemPerThread)))).flatten

/-! ### `DensePolynomial::evaluate` (`poly/src/polynomial/univariate/dense.rs`) -/

/-- `horner_evaluate`: `coeffs.iter().rfold(0, |result, coeff| result * point + coeff)` -/
def hornerEvaluate (coeffs : List F) (point : F) : F :=
  coeffs.foldr (fun coeff result => result * point + coeff) 0

/-- `Iterator::sum` of field elements -/
def sum (l : List F) : F := l.foldl (· + ·) 0

/-- `MIN_ELEMENTS_PER_THREAD` -/
def MIN_ELEMENTS_PER_THREAD : Nat := 16

/-- parallel `internal_evaluate`: chunks of `max(len / T, 16)`; chunk `i` contributes
    `horner(chunk) * point^(i * num_elem_per_thread)`; `.sum()` -/
def hornerChunked (T : Nat) (coeffs : List F) (point : F) : F :=
  let numElemPerThread := max (coeffs.length / T) MIN_ELEMENTS_PER_THREAD
  sum ((enumFrom 0 (chunks numElemPerThread coeffs)).map
    (fun (i, chunk) => hornerEvaluate chunk point * pow point (i * numElemPerThread)))

/-- `DensePolynomial::is_zero` -/
def polyIsZero (coeffs : List F) : Bool := coeffs.isEmpty || coeffs.all (fun c => decide (c = 0))

/-- `Polynomial::evaluate` of the serial build -/
def evaluateSerial (coeffs : List F) (point : F) : F :=
  if polyIsZero coeffs then 0
  else if point = 0 then (match coeffs with | c :: _ => c | [] => 0)   -- `[]` excluded by `is_zero`
  else hornerEvaluate coeffs point

/-- `Polynomial::evaluate` of the parallel build -/
def evaluatePar (T : Nat) (coeffs : List F) (point : F) : F :=
  if polyIsZero coeffs then 0
  else if point = 0 then (match coeffs with | c :: _ => c | [] => 0)
  else hornerChunked T coeffs point

/-! ### `compute_powers` (`poly/src/domain/utils.rs`, `#[allow(unused)]`, no caller) -/

/-- `compute_powers_and_mul_by_const_serial(size, root, c)` = `[c, c·root, …]` -/
def computePowersAndMulByConstSerial : Nat → F → F → List F
  | 0, _, _ => []
  | n + 1, root, v => v :: computePowersAndMulByConstSerial n root (v * root)

/-- `compute_powers_serial(size, root)` -/
def computePowersSerial (size : Nat) (root : F) : List F := computePowersAndMulByConstSerial size root 1

/-- `MIN_PARALLEL_CHUNK_SIZE` of `utils.rs` -/
def MIN_PARALLEL_CHUNK_SIZE : Nat := 128

/-- `compute_powers(size, g)` as coded: `num_cpus_used = size / num_elem_per_thread` (rounded
    *down*), so the last `size % num_elem_per_thread` powers are never produced -/
def computePowersPar (T : Nat) (size : Nat) (g : F) : List F :=
  if size < MIN_PARALLEL_CHUNK_SIZE then computePowersSerial size g
  else
    let numElemPerThread := max (size / T) MIN_PARALLEL_CHUNK_SIZE
    let numCpusUsed := size / numElemPerThread
    ((List.range numCpusUsed).map (fun i =>
      let offset := pow g (i * numElemPerThread)
      let numElementsToCompute := min (size - i * numElemPerThread) numElemPerThread
      computePowersAndMulByConstSerial numElementsToCompute g offset)).flatten

/-! ### `roots_of_unity` (`poly/src/domain/radix2/fft.rs`) -/

/-- `ark_std::log2`: ceiling of log₂ (`log2 0 = log2 1 = 0`) -/
def log2Ceil (x : Nat) : Nat := if x ≤ 1 then 0 else (x - 1).log2 + 1

def LOG_ROOTS_OF_UNITY_PARALLEL_SIZE : Nat := 7

/-- serial `roots_of_unity`: `compute_powers_serial(size / 2, root)` -/
def rootsOfUnitySerial (size : Nat) (root : F) : List F := computePowersSerial (size / 2) root

/-- `w, w², w⁴, …` (`n` entries) by repeated `square_in_place` -/
def logPowers : Nat → F → List F
  | 0, _ => []
  | n + 1, t => t :: logPowers n (t * t)

/-- `out[0] = 1; out[idx] = out[idx-1] * g` for `len` entries -/
def powersSeq : Nat → F → F → List F
  | 0, _, _ => []
  | n + 1, g, cur => cur :: powersSeq n g (cur * g)

/-- `roots_of_unity_recursive(out, log_powers)` with `out.len() = 1 << log_powers.len()` (the
    `assert_eq!` holds at every call: each `out`/`scr_*` is allocated with exactly that length).
    Base case `len ≤ 7`: sequential powers of `log_powers[0]`; otherwise split at `⌈len/2⌉`,
    recurse on both halves (`rayon::join`), and `out[j·|lo| + i] = hi[j] * lo[i]`. -/
def rootsRec : Nat → List F → List F
  | 0, lp => powersSeq (2 ^ lp.length) (lp.headD 1) 1            -- fuel exhausted: not reached
  | fuel + 1, lp =>
    if lp.length ≤ LOG_ROOTS_OF_UNITY_PARALLEL_SIZE then
      match lp with
      | [] => [1]
      | g :: _ => powersSeq (2 ^ lp.length) g 1
    else
      let mid := (lp.length + 1) / 2
      let scrLo := rootsRec fuel (lp.take mid)
      let scrHi := rootsRec fuel (lp.drop mid)
      (scrHi.map (fun h => scrLo.map (fun l => h * l))).flatten

/-- parallel `roots_of_unity(root)` of a domain of `size` elements -/
def rootsOfUnityPar (size : Nat) (root : F) : List F :=
  let logSize := log2Ceil size
  if logSize ≤ LOG_ROOTS_OF_UNITY_PARALLEL_SIZE then computePowersSerial (size / 2) root
  else
    let lp := logPowers (logSize - 1) root
    rootsRec lp.length lp

/-! ### `best_fft` / `parallel_fft` (`poly/src/domain/utils.rs`) -/

/-- serial reference of every FFT: the naive DFT `out[i] = Σ_j a[j]·ω^(i·j)` (Horner at `ω^i`) -/
def naiveDft (a : List F) (omega : F) : List F :=
  (powersSeq a.length omega 1).map (fun x => hornerEvaluate a x)

def kAdicityAux (k : Nat) : Nat → Nat → Nat → Nat
  | 0, _, r => r
  | fuel + 1, n, r => if n > 1 then (if n % k = 0 then kAdicityAux k fuel (n / k) (r + 1) else r) else r

/-- `ark_ff::utils::k_adicity(k, n)` for `k ≥ 2` -/
def kAdicity (k n : Nat) : Nat := kAdicityAux k 64 n 0

/-- `log2_floor(num)` of `utils.rs` -/
def log2Floor (n : Nat) : Nat := if n = 0 then 0 else n.log2

/-- the `for c in 0..num_threads` loop building one coefficient; state = (`coeff`, `elt`) -/
def cosetCoeff (a : Array F) (cosetSize : Nat) (omegaStep : F) (i : Nat) : Nat → Nat → F × F → Outcome (F × F)
  | 0, _, st => .ok st
  | n + 1, c, (coeff, elt) =>
    match a[i + c * cosetSize]? with
    | none => .panic                                              -- index out of bounds: not reached
    | some x => cosetCoeff a cosetSize omegaStep i n (c + 1) (coeff + x * elt, elt * omegaStep)

/-- the `for i in 0..coset_size` loop of one coset; `elt` is carried through all iterations -/
def cosetPoly (a : Array F) (cosetSize numThreads : Nat) (omegaK omegaStep : F) :
    Nat → Nat → F → Outcome (List F)
  | 0, _, _ => .ok []
  | n + 1, i, elt =>
    match cosetCoeff a cosetSize omegaStep i numThreads 0 (0, elt) with
    | .panic => .panic
    | .ok (coeff, elt') =>
      match cosetPoly a cosetSize numThreads omegaK omegaStep n (i + 1) (elt' * omegaK) with
      | .panic => .panic
      | .ok r => .ok (coeff :: r)

def allOk {α : Type} : List (Outcome α) → Outcome (List α)
  | [] => .ok []
  | .panic :: _ => .panic
  | .ok a :: r => match allOk r with | .ok l => .ok (a :: l) | .panic => .panic

/-- `parallel_fft(a, omega, log_n, log_cpus, serial_fft)`; `.panic` = the two `assert`s / a panic
    of the sub-FFT.  `sfft` is the `serial_fft` function pointer. -/
def parallelFft (sfft : List F → F → Nat → Outcome (List F)) (a : List F) (omega : F)
    (logN logCpus : Nat) : Outcome (List F) :=
  if logN < logCpus then .panic else
  let m := a.length
  let numThreads := 2 ^ logCpus
  let numCosets := numThreads
  if m % numThreads ≠ 0 then .panic else
  let cosetSize := m / numThreads
  let newOmega := pow omega numCosets
  let newTwoAdicity := kAdicity 2 cosetSize
  let arr := a.toArray
  let tmp := (List.range numCosets).map (fun k =>
    let omegaK := pow omega k
    let omegaStep := pow omega (k * cosetSize)
    match cosetPoly arr cosetSize numThreads omegaK omegaStep cosetSize 0 1 with
    | .panic => .panic
    | .ok kthPolyCoeffs => sfft kthPolyCoeffs newOmega newTwoAdicity)
  match allOk tmp with
  | .panic => .panic
  | .ok tmp =>
    let tarr := (tmp.map List.toArray).toArray
    allOk ((List.range m).map (fun i =>
      match tarr[i % numCosets]? with
      | none => .panic
      | some row => match row[i / numCosets]? with
        | none => .panic                     -- a sub-FFT returning a shorter vector: not reached
        | some x => .ok x))

/-- `best_fft(a, omega, log_n, serial_fft)` of the parallel build with `T` threads -/
def bestFft (T : Nat) (sfft : List F → F → Nat → Outcome (List F)) (a : List F) (omega : F)
    (logN : Nat) : Outcome (List F) :=
  let logCpus := log2Floor T
  if logN ≤ logCpus then sfft a omega logN else parallelFft sfft a omega logN logCpus

/-! ### `MixedRadixEvaluationDomain::{fft_in_place, ifft_in_place}` (`poly/src/domain/mixed_radix.rs`) -/

/-- the fields of the domain that the two functions read -/
structure MixedDomain (F : Type) where
  size : Nat
  logSizeOfGroup : Nat      -- = the 2-adicity of `size` for this domain type
  sizeInv : F
  groupGen : F
  groupGenInv : F
  offset : F
  offsetInv : F

/-- `Vec::resize(n, zero)` -/
def resize (l : List F) (n : Nat) : List F := l.take n ++ List.replicate (n - l.length) 0

/-- `fft_in_place` in the parallel build -/
def mixedFftPar (T : Nat) (sfft : List F → F → Nat → Outcome (List F)) (d : MixedDomain F)
    (coeffs : List F) : Outcome (List F) :=
  let coeffs := if d.offset ≠ 1 then distributePowersPar T coeffs d.offset 1 else coeffs
  bestFft T sfft (resize coeffs d.size) d.groupGen d.logSizeOfGroup

/-- `ifft_in_place` in the parallel build -/
def mixedIfftPar (T : Nat) (sfft : List F → F → Nat → Outcome (List F)) (d : MixedDomain F)
    (evals : List F) : Outcome (List F) :=
  match bestFft T sfft (resize evals d.size) d.groupGenInv d.logSizeOfGroup with
  | .panic => .panic
  | .ok evals =>
    if d.offset = 1 then .ok (evals.map (fun v => v * d.sizeInv))
    else .ok (distributePowersPar T evals d.offsetInv d.sizeInv)

/-- serial build: `best_fft = serial_fft` and the serial `distribute_powers` -/
def mixedFftSerial (sfft : List F → F → Nat → Outcome (List F)) (d : MixedDomain F)
    (coeffs : List F) : Outcome (List F) :=
  let coeffs := if d.offset ≠ 1 then distributePowersSerial coeffs d.offset 1 else coeffs
  sfft (resize coeffs d.size) d.groupGen d.logSizeOfGroup

def mixedIfftSerial (sfft : List F → F → Nat → Outcome (List F)) (d : MixedDomain F)
    (evals : List F) : Outcome (List F) :=
  match sfft (resize evals d.size) d.groupGenInv d.logSizeOfGroup with
  | .panic => .panic
  | .ok evals =>
    if d.offset = 1 then .ok (evals.map (fun v => v * d.sizeInv))
    else .ok (distributePowersSerial evals d.offsetInv d.sizeInv)

end Generic
end Ark.Par
