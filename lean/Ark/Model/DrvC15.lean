import Ark.Model.Limbs
import Ark.Model.Mont
import Ark.Model.Proto
/-  Driver dispatch for C15: `<op> <N> args…` → "model|spec"  -/

/-! ### model additions for the coverage-gap ops of `ff/src/biginteger/mod.rs`
    (kept here, not in `Ark/Model/Limbs.lean`, so that the modules depending on `Limbs` are not
    rebuilt; same conventions: a `BigInt<N>` is its little-endian limb list) -/
namespace Ark

/-- `BitXorAssign::bitxor_assign`: `(0..N).for_each(|i| self.0[i] ^= rhs.borrow().0[i])` -/
def limbsXor (a b : List Nat) : List Nat := List.zipWith (fun x y => x ^^^ y) a b
/-- `BitAndAssign::bitand_assign` -/
def limbsAnd (a b : List Nat) : List Nat := List.zipWith (fun x y => x &&& y) a b
/-- `BitOrAssign::bitor_assign` -/
def limbsOr (a b : List Nat) : List Nat := List.zipWith (fun x y => x ||| y) a b
/-- `Not::not`: `result.0[i] = !self.0[i]` -/
def limbsNot (a : List Nat) : List Nat := a.map (fun l => B - 1 - l)

/-- `const_is_even`: `self.0[0] % 2 == 0` -/
def constIsEven (a : List Nat) : Bool := a.headD 0 % 2 == 0
/-- `const_is_odd`: `self.0[0] % 2 == 1` -/
def constIsOdd (a : List Nat) : Bool := a.headD 0 % 2 == 1
/-- `mod_4`: `(((self.0[0] << 62) >> 62) % 4) as u8` -/
def mod4 (a : List Nat) : Nat := (((a.headD 0 * 2 ^ 62) % B) / 2 ^ 62) % 4
/-- `const_shr`: the loop of `div2` (from the top limb down) on a copy -/
def constShr (a : List Nat) : List Nat := (div2Rev a.reverse 0).reverse
/-- `self.0[0] -= 1` (only executed on odd values: no underflow) -/
def decr0 : List Nat → List Nat
  | [] => []
  | l :: ls => (l - 1) :: ls
/-- `divide_by_2_round_down` -/
def divideBy2RoundDown (a : List Nat) : List Nat :=
  constShr (if constIsOdd a then decr0 a else a)
/-- `const_num_bits`: `((N - 1) * 64) as u32 + (64 - self.0[N - 1].leading_zeros())` — only the top limb is inspected -/
def constNumBits (a : List Nat) : Nat := (a.length - 1) * 64 + bitLen (a.getLastD 0)

/-- result of a computation that may panic or fail to terminate -/
inductive Run (α : Type) where
  | ok : α → Run α
  | panic : Run α
  | hang : Run α

/-- `while self.const_is_even() { self = self.const_shr(); two_adicity += 1 }`; `none` = fuel exhausted.
    A non-zero value leaves the loop after at most `64·N − 1` rounds, so with fuel `64·N + 1`
    exhaustion happens exactly for the value 0, on which the Rust loop never terminates. -/
def twoAdicLoop : Nat → List Nat → Nat → Option (List Nat × Nat)
  | 0, _, _ => none
  | fuel + 1, a, k => if constIsEven a then twoAdicLoop fuel (constShr a) (k + 1) else some (a, k)

/-- `two_adic_valuation`: `assert!(self.const_is_odd())`, then the loop on `self − 1` -/
def twoAdicValuation (a : List Nat) : Run Nat :=
  if !constIsOdd a then .panic
  else match twoAdicLoop (64 * a.length + 1) (decr0 a) 0 with
    | some r => .ok r.2
    | none => .hang

/-- `two_adic_coefficient` (the final `assert!(self.const_is_odd())` holds whenever the loop ends) -/
def twoAdicCoefficient (a : List Nat) : Run (List Nat) :=
  if !constIsOdd a then .panic
  else match twoAdicLoop (64 * a.length + 1) (decr0 a) 0 with
    | some r => if constIsOdd r.1 then .ok r.1 else .panic
    | none => .hang

/-- `montgomery_r` / `montgomery_r2` with `self` = the divisor: `assert!(!divisor.const_is_zero())`,
    then `const_modulo!` (`Mont.constModuloLoop`) -/
def bigMontgomeryR (a : List Nat) : Outcome (List Nat) :=
  if isZero a then .panic else .ok (toLimbs a.length (Mont.montgomeryR a.length (value a)))
def bigMontgomeryR2 (a : List Nat) : Outcome (List Nat) :=
  if isZero a then .panic else .ok (toLimbs a.length (Mont.montgomeryR2 a.length (value a)))

/-- `CanonicalSerialize for BigInt<N>` = `[u64; N]`: every limb as 8 little-endian bytes -/
def bigSerialize (a : List Nat) : List Nat := a.flatMap limbBytesLE
/-- `serialized_size`: `Σ size_of::<u64>()` -/
def bigSerializedSize (a : List Nat) : Nat := (a.map (fun _ => 8)).foldl (· + ·) 0
def bytesLE : List Nat → Nat
  | [] => 0
  | b :: bs => b + 256 * bytesLE bs
/-- `CanonicalDeserialize for BigInt<N>`: `N` times `read_exact` of 8 bytes; `none` = `Err` (short input);
    bytes after the first `8·N` are left in the reader -/
def bigDeserialize : Nat → List Nat → Option (List Nat)
  | 0, _ => some []
  | n + 1, bytes =>
    if bytes.length < 8 then none
    else match bigDeserialize n (bytes.drop 8) with
      | some r => some (bytesLE (bytes.take 8) :: r)
      | none => none

/-- `From<u8/u16/u32/u64> for BigInt<N>`: `repr.0[0] = val.into()` (index panic for `N = 0`) -/
def bigFromUint (n x : Nat) : Outcome (List Nat) :=
  if n = 0 then .panic else .ok (x :: List.replicate (n - 1) 0)

/-- number of bytes of `BigUint::to_bytes_le()` (`[0]` for zero) -/
def biguintByteLen (x : Nat) : Nat := if x = 0 then 1 else x.log2 / 8 + 1
/-- `TryFrom<BigUint> for BigInt<N>`: `Err` iff `to_bytes_le().len() > 8·N`, else the byte chunks become limbs -/
def bigTryFromBigUint (n x : Nat) : Option (List Nat) :=
  let bytes := (List.range (biguintByteLen x)).map (fun i => (x / 256 ^ i) % 256)
  if bytes.length > 8 * n then none
  else
    let ls := (chunks 8 bytes bytes.length).map bytesLE
    some (ls ++ List.replicate (n - ls.length) 0)

/-- `BigUint::from_str` of num-bigint 0.4 on the bytes of the string (third-party code, modelled
    only as far as the harness corpus goes): one optional leading `+` (not followed by `+`), then a
    non-empty string that does not start with `_`; underscores are skipped, every other byte must be
    an ASCII digit -/
def parseBigUintStr (s : List Nat) : Option Nat :=
  let s := match s with
    | 43 :: t => if t.head? == some 43 then s else t
    | _ => s
  if s.isEmpty || s.head? == some 95 then none
  else s.foldl (fun acc c => match acc with
    | none => none
    | some v => if c == 95 then some v else if 48 ≤ c ∧ c ≤ 57 then some (v * 10 + (c - 48)) else none) (some 0)

/-- `FromStr for BigInt<N>`: `BigUint::from_str(s)` then `try_from` -/
def bigFromStr (n : Nat) (s : List Nat) : Option (List Nat) :=
  match parseBigUintStr s with
  | some v => bigTryFromBigUint n v
  | none => none

end Ark

namespace Ark.DrvC15
open Ark Ark.Proto

def natCmp (a b : Nat) : Ordering := if a < b then .lt else if a > b then .gt else .eq

/-- verdict of a value-type spec on the implementation's output -/
def vs (impl spec : String) : String := if impl == spec then "ok" else "bad:want=" ++ spec

/-- executable spec of a signed-digit recoding of `a` with window `w` (w = 2 ⇒ NAF):
    reconstructs `a`, every digit zero or odd with `|d| < 2^(w-1)`, any `w` consecutive
    digits contain at most one non-zero, no trailing zero digit -/
def nonAdj (w : Nat) : List Int → Bool
  | [] => true
  | d :: ds => (d == 0 || (ds.take (w - 1)).all (· == 0)) && nonAdj w ds

def judgeDigits (a : Nat) (w : Nat) (adj : Bool) (ds : List Int) : String :=
  if digitsValue ds != (a : Int) then "bad:value=" ++ hexInt (digitsValue ds)
  else if !(ds.all (fun d => d == 0 || (d % 2 != 0 && d.natAbs < 2 ^ (w - 1)))) then "bad:digit-range"
  else if adj && !(nonAdj w ds) then "bad:adjacent"
  else if ds.getLast? == some 0 then "bad:trailing-zero"
  else "ok"

def judgeDigitsStr (a w : Nat) (adj : Bool) (impl : String) : String :=
  match parseIntList? impl with
  | some ds => judgeDigits a w adj ds
  | none => "bad:" ++ impl

/-- returns (model output, verdict of the spec on the implementation's output) -/
def run (op : String) (args : List String) (impl : String) : Option (String × String) := do
  match op, args with
  | "add", [n, a, b] =>
    let n ← parseHex? n; let a ← parseHex? a; let b ← parseHex? b
    let r := addC (toLimbs n a) (toLimbs n b) 0
    let m := B ^ n
    some (s!"{hex (value r.1)} {boolStr (r.2 != 0)}", vs impl (s!"{hex ((a + b) % m)} {boolStr ((a + b) / m != 0)}"))
  | "sub", [n, a, b] =>
    let n ← parseHex? n; let a ← parseHex? a; let b ← parseHex? b
    let r := subB (toLimbs n a) (toLimbs n b) 0
    let m := B ^ n
    some (s!"{hex (value r.1)} {boolStr (r.2 != 0)}", vs impl (s!"{hex ((m + a - b) % m)} {boolStr (a < b)}"))
  | "mul2", [n, a] =>
    let n ← parseHex? n; let a ← parseHex? a
    let r := mul2 (toLimbs n a)
    let m := B ^ n
    some (s!"{hex (value r.1)} {boolStr r.2}", vs impl (s!"{hex ((2 * a) % m)} {boolStr (2 * a ≥ m)}"))
  | "div2", [n, a] =>
    let n ← parseHex? n; let a ← parseHex? a
    some (hex (value (div2 (toLimbs n a))), vs impl (hex (a / 2)))
  | "shl", [n, a, k] =>
    let n ← parseHex? n; let a ← parseHex? a; let k ← parseHex? k
    some (hex (value (shl (toLimbs n a) k)), vs impl (hex (if k ≥ 64 * n then 0 else (a * 2 ^ k) % B ^ n)))
  | "shr", [n, a, k] =>
    let n ← parseHex? n; let a ← parseHex? a; let k ← parseHex? k
    some (hex (value (shr (toLimbs n a) k)), vs impl (hex (if k ≥ 64 * n then 0 else a / 2 ^ k)))
  | "mul", [n, a, b] =>
    let n ← parseHex? n; let a ← parseHex? a; let b ← parseHex? b
    let r := mul (toLimbs n a) (toLimbs n b)
    let m := B ^ n
    some (s!"{hex (value r.1)} {hex (value r.2)}", vs impl (s!"{hex ((a * b) % m)} {hex ((a * b) / m)}"))
  | "mullow", [n, a, b] =>
    let n ← parseHex? n; let a ← parseHex? a; let b ← parseHex? b
    some (hex (value (mulLow (toLimbs n a) (toLimbs n b))), vs impl (hex ((a * b) % B ^ n)))
  | "mulhigh", [n, a, b] =>
    let n ← parseHex? n; let a ← parseHex? a; let b ← parseHex? b
    some (hex (value (mulHigh (toLimbs n a) (toLimbs n b))), vs impl (hex ((a * b) / B ^ n)))
  | "cmp", [n, a, b] =>
    let n ← parseHex? n; let a ← parseHex? a; let b ← parseHex? b
    some (ordStr (cmp (toLimbs n a) (toLimbs n b)), vs impl (ordStr (natCmp a b)))
  | "numbits", [n, a] =>
    let n ← parseHex? n; let a ← parseHex? a
    some (hex (numBits (toLimbs n a)), vs impl (hex (if a = 0 then 0 else a.log2 + 1)))
  | "getbit", [n, a, i] =>
    let n ← parseHex? n; let a ← parseHex? a; let i ← parseHex? i
    some (boolStr (getBit (toLimbs n a) i), vs impl (boolStr (if i ≥ 64 * n then false else (a / 2 ^ i) % 2 == 1)))
  | "tobitsle", [n, a] =>
    let n ← parseHex? n; let a ← parseHex? a
    some (bitList (toBitsLE (toLimbs n a)), vs impl (bitList ((List.range (64 * n)).map (fun i => (a / 2 ^ i) % 2 == 1))))
  | "tobitsbe", [n, a] =>
    let n ← parseHex? n; let a ← parseHex? a
    some (bitList (toBitsBE (toLimbs n a)), vs impl (bitList ((List.range (64 * n)).reverse.map (fun i => (a / 2 ^ i) % 2 == 1))))
  -- `ff/src/bits.rs`: the four bit iterators over a limb slice (spec: the binary digits of the value)
  | "iterbe", [n, a] =>
    let n ← parseHex? n; let a ← parseHex? a
    let w := bitList ((List.range (64 * n)).reverse.map (fun i => (a / 2 ^ i) % 2 == 1))
    some (bitList (toBitsBE (toLimbs n a)), vs impl w)
  | "iterle", [n, a] =>
    let n ← parseHex? n; let a ← parseHex? a
    let w := bitList ((List.range (64 * n)).map (fun i => (a / 2 ^ i) % 2 == 1))
    some (bitList (toBitsLE (toLimbs n a)), vs impl w)
  | "iterbenz", [n, a] =>
    -- `BitIteratorBE::without_leading_zeros`: `skip_while(|b| !b)`
    let n ← parseHex? n; let a ← parseHex? a
    let len := if a = 0 then 0 else a.log2 + 1
    let w := bitList ((List.range len).reverse.map (fun i => (a / 2 ^ i) % 2 == 1))
    some (bitList ((toBitsBE (toLimbs n a)).dropWhile (fun b => !b)), vs impl w)
  | "iterlenz", [n, a] =>
    -- `BitIteratorLE::without_trailing_zeros`: stops after the most significant one
    let n ← parseHex? n; let a ← parseHex? a
    let len := if a = 0 then 0 else a.log2 + 1
    let w := bitList ((List.range len).map (fun i => (a / 2 ^ i) % 2 == 1))
    some (bitList ((toBitsLE (toLimbs n a)).take (numBits (toLimbs n a))), vs impl w)
  | "frombitsle", [n, bits] =>
    let n ← parseHex? n; let bits ← parseBits? bits
    some (hex (value (fromBitsLE n bits)), vs impl (hex (bitsToNat bits % B ^ n)))
  | "frombitsbe", [n, bits] =>
    let n ← parseHex? n; let bits ← parseBits? bits
    some (hex (value (fromBitsBE n bits)), vs impl (hex (bitsToNat bits.reverse % B ^ n)))
  | "tobytesle", [n, a] =>
    let n ← parseHex? n; let a ← parseHex? a
    some (hexList (toBytesLE (toLimbs n a)), vs impl (hexList ((List.range (8 * n)).map (fun i => (a / 256 ^ i) % 256))))
  | "tobytesbe", [n, a] =>
    let n ← parseHex? n; let a ← parseHex? a
    some (hexList (toBytesBE (toLimbs n a)), vs impl (hexList ((List.range (8 * n)).reverse.map (fun i => (a / 256 ^ i) % 256))))
  | "smr", [x, m] =>
    let x ← parseHex? x; let m ← parseHex? m
    let r := signedModReduction x m
    some (hexInt r, vs impl (hexInt (if 2 * (x % m) ≥ m - m % 2 then ((x % m : Nat) : Int) - m else (x % m : Nat))))
  | "wnaf", [n, a, w] =>
    let n ← parseHex? n; let a ← parseHex? a; let w ← parseHex? w
    match findWnaf (toLimbs n a) w with
    | some ds => some (hexIntList ds, judgeDigitsStr (a % B ^ n) w true impl)
    | none => some ("none", vs impl (if 2 ≤ w ∧ w < 64 then "some" else "none"))
  | "naf", [n, a] =>
    let n ← parseHex? n; let a ← parseHex? a
    let ds := findNaf (toLimbs n a)
    some (hexIntList ds, judgeDigitsStr (a % B ^ n) 2 true impl)
  | "rnaf", [n, a] =>
    let n ← parseHex? n; let a ← parseHex? a
    match findRelaxedNaf (toLimbs n a) with
    | .ok ds => some (hexIntList ds, judgeDigitsStr (a % B ^ n) 2 false impl)
    | .panic => some ("panic", judgeDigitsStr (a % B ^ n) 2 false impl)
  -- bitwise operators (every receiver variant prints the same op line)
  | "bxor", [n, a, b] =>
    let n ← parseHex? n; let a ← parseHex? a; let b ← parseHex? b
    some (hex (value (limbsXor (toLimbs n a) (toLimbs n b))), vs impl (hex (a ^^^ b)))
  | "band", [n, a, b] =>
    let n ← parseHex? n; let a ← parseHex? a; let b ← parseHex? b
    some (hex (value (limbsAnd (toLimbs n a) (toLimbs n b))), vs impl (hex (a &&& b)))
  | "bor", [n, a, b] =>
    let n ← parseHex? n; let a ← parseHex? a; let b ← parseHex? b
    some (hex (value (limbsOr (toLimbs n a) (toLimbs n b))), vs impl (hex (a ||| b)))
  | "not", [n, a] =>
    let n ← parseHex? n; let a ← parseHex? a
    some (hex (value (limbsNot (toLimbs n a))), vs impl (hex (B ^ n - 1 - a)))
  -- run-time calls of the `const fn`s
  | "iseven", [n, a] =>
    let n ← parseHex? n; let a ← parseHex? a
    let l := toLimbs n a
    some (s!"{boolStr (constIsEven l)} {boolStr (constIsOdd l)}", vs impl (s!"{boolStr (a % 2 == 0)} {boolStr (a % 2 == 1)}"))
  | "mod4", [n, a] =>
    let n ← parseHex? n; let a ← parseHex? a
    some (hex (mod4 (toLimbs n a)), vs impl (hex (a % 4)))
  | "constshr", [n, a] =>
    let n ← parseHex? n; let a ← parseHex? a
    some (hex (value (constShr (toLimbs n a))), vs impl (hex (a / 2)))
  | "d2rd", [n, a] =>
    let n ← parseHex? n; let a ← parseHex? a
    some (hex (value (divideBy2RoundDown (toLimbs n a))), vs impl (hex ((a - a % 2) / 2)))
  | "cnumbits", [n, a] =>
    let n ← parseHex? n; let a ← parseHex? a
    let spec := hex (if a = 0 then 0 else a.log2 + 1)
    -- `const_num_bits` reads the top limb only (it is applied to moduli, whose top limb is non-zero):
    -- values with a zero top limb are outside its domain
    let v := if impl == spec then "ok" else if n > 1 ∧ a < B ^ (n - 1) then "note:top-limb-zero want=" ++ spec else "bad:want=" ++ spec
    some (hex (constNumBits (toLimbs n a)), v)
  | "tav", [n, a] =>
    let n ← parseHex? n; let a ← parseHex? a
    let m := match twoAdicValuation (toLimbs n a) with
      | .ok k => hex k | .panic => "panic" | .hang => "hang"
    let rec val2 (fuel x : Nat) : Nat := match fuel with
      | 0 => 0
      | f + 1 => if x % 2 == 0 then 1 + val2 f (x / 2) else 0
    let v := if a % 2 == 0 then vs impl "panic"           -- documented precondition `assert!(odd)`
      else if a == 1 then (if impl == "hang" then "note:two_adic_valuation(1) does not terminate" else "bad:" ++ impl)
      else vs impl (hex (val2 (64 * n + 1) (a - 1)))
    some (m, v)
  | "tac", [n, a] =>
    let n ← parseHex? n; let a ← parseHex? a
    let m := match twoAdicCoefficient (toLimbs n a) with
      | .ok r => hex (value r) | .panic => "panic" | .hang => "hang"
    let rec odd (fuel x : Nat) : Nat := match fuel with
      | 0 => x
      | f + 1 => if x % 2 == 0 then odd f (x / 2) else x
    let v := if a % 2 == 0 then vs impl "panic"
      else if a == 1 then (if impl == "hang" then "note:two_adic_coefficient(1) does not terminate" else "bad:" ++ impl)
      else vs impl (hex (odd (64 * n + 1) (a - 1)))
    some (m, v)
  | "montr", [n, p] =>
    let n ← parseHex? n; let p ← parseHex? p
    let m := match bigMontgomeryR (toLimbs n p) with | .ok r => hex (value r) | .panic => "panic"
    some (m, vs impl (if p = 0 then "panic" else hex (B ^ n % p)))
  | "montr2", [n, p] =>
    let n ← parseHex? n; let p ← parseHex? p
    let m := match bigMontgomeryR2 (toLimbs n p) with | .ok r => hex (value r) | .panic => "panic"
    some (m, vs impl (if p = 0 then "panic" else hex (B ^ (2 * n) % p)))
  -- serialization (`mode` = c | u: both write the same bytes)
  | "ser", [n, _mode, a] =>
    let n ← parseHex? n; let a ← parseHex? a
    let l := toLimbs n a
    some (s!"{hex (bigSerializedSize l)} {hexList (bigSerialize l)}",
          vs impl (s!"{hex (8 * n)} {hexList ((List.range (8 * n)).map (fun i => (a / 256 ^ i) % 256))}"))
  | "deser", [n, _mode, bytes] =>
    let n ← parseHex? n; let bytes ← parseList? bytes
    let m := match bigDeserialize n bytes with | some r => hex (value r) | none => "err"
    let spec := if bytes.length < 8 * n then "err"
      else hex (((bytes.take (8 * n)).zipIdx.map (fun (b, i) => b * 256 ^ i)).foldl (· + ·) 0)
    some (m, vs impl spec)
  | "valid", [n, a] =>
    let _ ← parseHex? n; let _ ← parseHex? a
    some ("ok", vs impl "ok")
  -- conversions
  | "fromuint", [n, w, x] =>
    let n ← parseHex? n; let w ← parseHex? w; let x ← parseHex? x
    if x ≥ 2 ^ w then none
    else
      let m := match bigFromUint n x with | .ok r => hex (value r) | .panic => "panic"
      some (m, vs impl (hex x))
  | "trybiguint", [n, x] =>
    let n ← parseHex? n; let x ← parseHex? x
    let m := match bigTryFromBigUint n x with | some r => hex (value r) | none => "err"
    some (m, vs impl (if x < B ^ n then hex x else "err"))
  | "tobig", [n, a] =>
    -- `BigUint::from(x)` and `num_bigint::BigInt::from(x)`, both printed in hex by the harness
    let n ← parseHex? n; let a ← parseHex? a
    let v := bytesLE (toBytesLE (toLimbs n a))
    some (s!"{hex v} {hex v}", vs impl (s!"{hex a} {hex a}"))
  | "display", [n, a] =>
    let n ← parseHex? n; let a ← parseHex? a
    some (toString (value (toLimbs n a)), vs impl (toString a))
  | "upperhex", [n, a] =>
    -- `{:016X}` of the `BigUint`
    let n ← parseHex? n; let a ← parseHex? a
    let up (x : Nat) : String :=
      let h := (hex x).toUpper
      String.ofList (List.replicate (16 - h.length) '0') ++ h
    some (up (value (toLimbs n a)), vs impl (up a))
  | "fromstr", [n, s] =>
    let n ← parseHex? n; let s ← parseList? s
    let m := match bigFromStr n s with | some r => hex (value r) | none => "err"
    -- spec (harness corpus: no `+`, no `_`): a non-empty string of ASCII digits denoting a value < 2^(64N)
    let digits := !s.isEmpty && s.all (fun c => 48 ≤ c && c ≤ 57)
    let v := s.foldl (fun acc c => acc * 10 + (c - 48)) 0
    some (m, vs impl (if digits && v < B ^ n then hex v else "err"))
  | _, _ => none

end Ark.DrvC15
