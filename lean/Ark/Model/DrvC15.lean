import Ark.Model.Limbs
import Ark.Model.Proto
/-  Driver dispatch for C15: `<op> <N> args…` → "model|spec"  -/
namespace Ark.DrvC15
open Ark Ark.Proto

def natCmp (a b : Nat) : Ordering := if a < b then .lt else if a > b then .gt else .eq

/-- verdict of a value-type spec on the implementation's output -/
def vs (impl spec : String) : String := if impl == spec then "ok" else "bad:want=" ++ spec

/-- executable spec of a signed-digit recoding of `a` with window `w` (w = 2 ⇒ NAF):
    reconstructs `a`, every digit zero or odd with `|d| < 2^(w-1)`, any `w` consecutive
    digits contain at most one non-zero, no trailing zero digit -/
def nonAdj (w : Nat) : List Int → Bool
  | [] => true
  | d :: ds => (d == 0 || (ds.take (w - 1)).all (· == 0)) && nonAdj w ds

def judgeDigits (a : Nat) (w : Nat) (adj : Bool) (ds : List Int) : String :=
  if digitsValue ds != (a : Int) then "bad:value=" ++ hexInt (digitsValue ds)
  else if !(ds.all (fun d => d == 0 || (d % 2 != 0 && d.natAbs < 2 ^ (w - 1)))) then "bad:digit-range"
  else if adj && !(nonAdj w ds) then "bad:adjacent"
  else if ds.getLast? == some 0 then "bad:trailing-zero"
  else "ok"

def judgeDigitsStr (a w : Nat) (adj : Bool) (impl : String) : String :=
  match parseIntList? impl with
  | some ds => judgeDigits a w adj ds
  | none => "bad:" ++ impl

/-- returns (model output, verdict of the spec on the implementation's output) -/
def run (op : String) (args : List String) (impl : String) : Option (String × String) := do
  match op, args with
  | "add", [n, a, b] =>
    let n ← parseHex? n; let a ← parseHex? a; let b ← parseHex? b
    let r := addC (toLimbs n a) (toLimbs n b) 0
    let m := B ^ n
    some (s!"{hex (value r.1)} {boolStr (r.2 != 0)}", vs impl (s!"{hex ((a + b) % m)} {boolStr ((a + b) / m != 0)}"))
  | "sub", [n, a, b] =>
    let n ← parseHex? n; let a ← parseHex? a; let b ← parseHex? b
    let r := subB (toLimbs n a) (toLimbs n b) 0
    let m := B ^ n
    some (s!"{hex (value r.1)} {boolStr (r.2 != 0)}", vs impl (s!"{hex ((m + a - b) % m)} {boolStr (a < b)}"))
  | "mul2", [n, a] =>
    let n ← parseHex? n; let a ← parseHex? a
    let r := mul2 (toLimbs n a)
    let m := B ^ n
    some (s!"{hex (value r.1)} {boolStr r.2}", vs impl (s!"{hex ((2 * a) % m)} {boolStr (2 * a ≥ m)}"))
  | "div2", [n, a] =>
    let n ← parseHex? n; let a ← parseHex? a
    some (hex (value (div2 (toLimbs n a))), vs impl (hex (a / 2)))
  | "shl", [n, a, k] =>
    let n ← parseHex? n; let a ← parseHex? a; let k ← parseHex? k
    some (hex (value (shl (toLimbs n a) k)), vs impl (hex (if k ≥ 64 * n then 0 else (a * 2 ^ k) % B ^ n)))
  | "shr", [n, a, k] =>
    let n ← parseHex? n; let a ← parseHex? a; let k ← parseHex? k
    some (hex (value (shr (toLimbs n a) k)), vs impl (hex (if k ≥ 64 * n then 0 else a / 2 ^ k)))
  | "mul", [n, a, b] =>
    let n ← parseHex? n; let a ← parseHex? a; let b ← parseHex? b
    let r := mul (toLimbs n a) (toLimbs n b)
    let m := B ^ n
    some (s!"{hex (value r.1)} {hex (value r.2)}", vs impl (s!"{hex ((a * b) % m)} {hex ((a * b) / m)}"))
  | "mullow", [n, a, b] =>
    let n ← parseHex? n; let a ← parseHex? a; let b ← parseHex? b
    some (hex (value (mulLow (toLimbs n a) (toLimbs n b))), vs impl (hex ((a * b) % B ^ n)))
  | "mulhigh", [n, a, b] =>
    let n ← parseHex? n; let a ← parseHex? a; let b ← parseHex? b
    some (hex (value (mulHigh (toLimbs n a) (toLimbs n b))), vs impl (hex ((a * b) / B ^ n)))
  | "cmp", [n, a, b] =>
    let n ← parseHex? n; let a ← parseHex? a; let b ← parseHex? b
    some (ordStr (cmp (toLimbs n a) (toLimbs n b)), vs impl (ordStr (natCmp a b)))
  | "numbits", [n, a] =>
    let n ← parseHex? n; let a ← parseHex? a
    some (hex (numBits (toLimbs n a)), vs impl (hex (if a = 0 then 0 else a.log2 + 1)))
  | "getbit", [n, a, i] =>
    let n ← parseHex? n; let a ← parseHex? a; let i ← parseHex? i
    some (boolStr (getBit (toLimbs n a) i), vs impl (boolStr (if i ≥ 64 * n then false else (a / 2 ^ i) % 2 == 1)))
  | "tobitsle", [n, a] =>
    let n ← parseHex? n; let a ← parseHex? a
    some (bitList (toBitsLE (toLimbs n a)), vs impl (bitList ((List.range (64 * n)).map (fun i => (a / 2 ^ i) % 2 == 1))))
  | "tobitsbe", [n, a] =>
    let n ← parseHex? n; let a ← parseHex? a
    some (bitList (toBitsBE (toLimbs n a)), vs impl (bitList ((List.range (64 * n)).reverse.map (fun i => (a / 2 ^ i) % 2 == 1))))
  | "frombitsle", [n, bits] =>
    let n ← parseHex? n; let bits ← parseBits? bits
    some (hex (value (fromBitsLE n bits)), vs impl (hex (bitsToNat bits % B ^ n)))
  | "frombitsbe", [n, bits] =>
    let n ← parseHex? n; let bits ← parseBits? bits
    some (hex (value (fromBitsBE n bits)), vs impl (hex (bitsToNat bits.reverse % B ^ n)))
  | "tobytesle", [n, a] =>
    let n ← parseHex? n; let a ← parseHex? a
    some (hexList (toBytesLE (toLimbs n a)), vs impl (hexList ((List.range (8 * n)).map (fun i => (a / 256 ^ i) % 256))))
  | "tobytesbe", [n, a] =>
    let n ← parseHex? n; let a ← parseHex? a
    some (hexList (toBytesBE (toLimbs n a)), vs impl (hexList ((List.range (8 * n)).reverse.map (fun i => (a / 256 ^ i) % 256))))
  | "smr", [x, m] =>
    let x ← parseHex? x; let m ← parseHex? m
    let r := signedModReduction x m
    some (hexInt r, vs impl (hexInt (if 2 * (x % m) ≥ m - m % 2 then ((x % m : Nat) : Int) - m else (x % m : Nat))))
  | "wnaf", [n, a, w] =>
    let n ← parseHex? n; let a ← parseHex? a; let w ← parseHex? w
    match findWnaf (toLimbs n a) w with
    | some ds => some (hexIntList ds, judgeDigitsStr (a % B ^ n) w true impl)
    | none => some ("none", vs impl (if 2 ≤ w ∧ w < 64 then "some" else "none"))
  | "naf", [n, a] =>
    let n ← parseHex? n; let a ← parseHex? a
    let ds := findNaf (toLimbs n a)
    some (hexIntList ds, judgeDigitsStr (a % B ^ n) 2 true impl)
  | "rnaf", [n, a] =>
    let n ← parseHex? n; let a ← parseHex? a
    match findRelaxedNaf (toLimbs n a) with
    | .ok ds => some (hexIntList ds, judgeDigitsStr (a % B ^ n) 2 false impl)
    | .panic => some ("panic", judgeDigitsStr (a % B ^ n) 2 false impl)
  | _, _ => none

end Ark.DrvC15
