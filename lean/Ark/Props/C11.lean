import Ark.Proofs.Sqrt
/-
  Property C11 — square roots and Legendre symbols of `ark-ff`, coordinate recovery of `ark-ec`
  (`Ark.Model.Sqrt`; ff/src/fields/sqrt.rs, fields/mod.rs, models/fp/{mod,montgomery_backend}.rs,
  models/{quadratic,cubic}_extension.rs, fp3.rs; ec/src/models/{short_weierstrass,twisted_edwards}/affine.rs).

  The model is generic over core operator classes; the theorems read it over a finite field
  `[Field F] [Fintype F] [DecidableEq F]`, `q = |F|`, with the squaring hook constrained by
  `hsq : ∀ a, sq a = a * a`.  Definitions used in the statements (all in `Ark/Proofs/Sqrt.lean`,
  namespace `Ark.SqrtP`):

  * `ValidTS s z m`  — `q - 1 = 2^s·(2m+1)` (so `t = 2m+1` is odd and `m = (t-1)/2`), `s ≥ 1`,
                        `z^(2^(s-1)) = -1`  (exactly the driver's `validPre` for `ts:…`);
  * `ValidPre pre`   — `ValidTS` for `TonelliShanks`, `q % 4 = 3 ∧ e = (q+1)/4` for `Case3Mod4`;
  * `LegSpec l x`    — `(l = zero ↔ x = 0) ∧ (l = qr ↔ x ≠ 0 ∧ IsSquare x) ∧ (l = qnr ↔ ¬IsSquare x)`;
  * `SqrtSpec r x`   — `r = .ok o` with `o = none ↔ ¬IsSquare x` and `o = some y → y*y = x`
                        (in particular no panic and no divergence);
  * `SqrtLawful S`   — `S.legendre x = .ok l` with `LegSpec l x`, and `SqrtSpec (S.sqrt x) x`, for all `x`;
  * `zmodSqrtD`, `zmodPrimeD`, `primeSqrtD` — `fpSqrtD` / `fpPrimeD` with the same bodies over `ZMod p`
                        (as `primeD` mirrors `fpD`), and `ofZ : ZMod p → Fp p`, the canonical representative;
                        `fpSqrtD_sqrt_ofZ` transports every statement to the executable `Fp p`.
  Lawfulness is *preserved* by the quadratic and the cubic layer (`quadSqrtD_lawful`, `cubicSqrtD_lawful`),
  so the results apply to every layer of a tower (Fp2, Fp3, Fp4, Fp6 = 2 over 3).
-/
set_option linter.style.haveILetI false
set_option linter.unusedSectionVars false
set_option linter.unusedVariables false

namespace Ark.C11
open Ark Ark.Ext Ark.ExtB Ark.Sqrt Ark.SqrtP

/-! ### 1. `Field::pow` -/

/-- square-and-multiply over the big-endian bits of the exponent is the power -/
theorem pow_eq {M : Type} [Monoid M] [Zero M] [DecidableEq M] (sq : M → M)
    (hsq : ∀ a, sq a = a * a) (a : M) (e : Nat) : Sqrt.pow sq a e = a ^ e :=
  SqrtP.pow_eq sq hsq a e

example : Sqrt.pow (fun a : ZMod 13 => a * a) 2 11 = 7 := by decide +kernel

/-! ### 2. `Fp::legendre` = Euler's criterion = the Legendre symbol -/

section legendre
variable (p : ℕ) [Fact p.Prime]

/-- `legendre` (exponent `MODULUS_MINUS_ONE_DIV_TWO = ⌊p/2⌋`) classifies zero / residue / non-residue,
    agrees with Mathlib's `legendreSym`, and its value is `a^((p-1)/2)` (Euler's criterion) -/
theorem legendreEuler_spec (hp : p ≠ 2) (sq : ZMod p → ZMod p) (hsq : ∀ a, sq a = a * a)
    (a : ZMod p) :
    (legendreEuler sq (p / 2) a = .zero ↔ a = 0) ∧
    (legendreEuler sq (p / 2) a = .qr ↔ a ≠ 0 ∧ IsSquare a) ∧
    (legendreEuler sq (p / 2) a = .qnr ↔ ¬ IsSquare a) :=
  legendreEuler_zmod_legSpec p hp sq hsq a

theorem legendreEuler_eq_legendreSym (hp : p ≠ 2) (sq : ZMod p → ZMod p)
    (hsq : ∀ a, sq a = a * a) (a : ℤ) :
    (legendreEuler sq (p / 2) (a : ZMod p)).toInt = legendreSym p a ∧
    (((legendreEuler sq (p / 2) (a : ZMod p)).toInt : ℤ) : ZMod p) = (a : ZMod p) ^ (p / 2) := by
  have h := legendreEuler_zmod_legendreSym p hp sq hsq a
  exact ⟨h, by rw [h]; exact legendreSym.eq_pow p a⟩

/-- the same over any finite field of odd characteristic (exponent `⌊q/2⌋`), with Mathlib's
    quadratic character -/
theorem legendreEuler_spec_field {F : Type} [Field F] [Fintype F] [DecidableEq F]
    (hF : ringChar F ≠ 2) (sq : F → F) (hsq : ∀ a, sq a = a * a) (a : F) :
    LegSpec (legendreEuler sq (Fintype.card F / 2) a) a ∧
    (legendreEuler sq (Fintype.card F / 2) a).toInt = quadraticChar F a :=
  ⟨legendreEuler_legSpec sq hsq hF a,
    legSpec_toInt_quadraticChar (legendreEuler_legSpec sq hsq hF a)⟩

end legendre

example : legendreEuler (fun a : ZMod 13 => a * a) (13 / 2) 10 = .qr := by decide +kernel
example : legendreEuler (fun a : ZMod 13 => a * a) (13 / 2) 2 = .qnr := by decide +kernel
example : legendreEuler (fun a : ZMod 17 => a * a) (17 / 2) 0 = .zero := by decide +kernel

/-! ### 3. `Case3Mod4` -/

section c3m4
variable {F : Type} [Field F] [Fintype F] [DecidableEq F]

theorem sqrt3Mod4_sound (sq : F → F) (hsq : ∀ a, sq a = a * a) (e : Nat) (x y : F)
    (h : sqrt3Mod4 sq e x = some y) : y * y = x :=
  SqrtP.sqrt3Mod4_sound sq hsq e x y h

theorem sqrt3Mod4_complete (sq : F → F) (hsq : ∀ a, sq a = a * a) (e : Nat) (x : F)
    (hq : Fintype.card F % 4 = 3) (he : e = (Fintype.card F + 1) / 4) (hx : IsSquare x) :
    sqrt3Mod4 sq e x = some (x ^ e) :=
  SqrtP.sqrt3Mod4_complete sq hsq e x hq he hx

/-- hence `None` exactly on non-squares -/
theorem sqrt3Mod4_none_iff (sq : F → F) (hsq : ∀ a, sq a = a * a) (e : Nat) (x : F)
    (hq : Fintype.card F % 4 = 3) (he : e = (Fintype.card F + 1) / 4) :
    sqrt3Mod4 sq e x = none ↔ ¬ IsSquare x :=
  SqrtP.sqrt3Mod4_none_iff sq hsq e x hq he

theorem sqrt3Mod4_zero (sq : F → F) (hsq : ∀ a, sq a = a * a) (e : Nat) (he : e ≠ 0) :
    sqrt3Mod4 sq e (0 : F) = some 0 :=
  SqrtP.sqrt3Mod4_zero sq hsq e he

end c3m4

example : Fintype.card (ZMod 7) % 4 = 3 ∧ 2 = (Fintype.card (ZMod 7) + 1) / 4 := by
  rw [ZMod.card]; exact ⟨rfl, rfl⟩
example : sqrt3Mod4 (fun a : ZMod 7 => a * a) 2 4 = some 2 := by decide +kernel
example : sqrt3Mod4 (fun a : ZMod 7 => a * a) 2 3 = none := by decide +kernel

/-! ### 4. Tonelli–Shanks: soundness (no assumption on the constants) -/

section ts
variable {F : Type} [Field F] [DecidableEq F]

theorem sqrtTS_sound (dbg : Bool) (sq : F → F) (hsq : ∀ a, sq a = a * a) (leg : F → Res Legendre)
    (s : Nat) (z : F) (m : Nat) (x y : F) (h : sqrtTS dbg sq leg s z m x = .ok (some y)) :
    y * y = x :=
  SqrtP.sqrtTS_sound dbg sq hsq leg s z m x y h

theorem sqrtTS_zero (dbg : Bool) (sq : F → F) (leg : F → Res Legendre) (s : Nat) (z : F) (m : Nat) :
    sqrtTS dbg sq leg s z m (0 : F) = .ok (some 0) :=
  SqrtP.sqrtTS_zero dbg sq leg s z m

/-! ### 5. the inner loop -/

/-- with `b^(2^s) = 1` the inner loop (fuel `s + 1`) returns the least `k` with `b^(2^k) = 1`; `k ≤ s` -/
theorem findK_spec {M : Type} [Monoid M] [Zero M] [DecidableEq M] (sq : M → M)
    (hsq : ∀ a, sq a = a * a) (s : Nat) (b : M) (h : b ^ 2 ^ s = 1) :
    ∃ k, findK sq (s + 1) b 0 = some k ∧ k ≤ s ∧ b ^ 2 ^ k = 1 ∧ ∀ i, i < k → b ^ 2 ^ i ≠ 1 :=
  SqrtP.findK_spec sq hsq s b h

/-! ### 6. the loop invariant (DESIGN.md, Appendix A.6) -/

/-- from `x² = a·b`, `b^(2^(v-1)) = 1`, `z^(2^(v-1)) = -1`, `1 ≤ v ≤ s` and fuel `> v`, the outer loop
    ends with `.ok (some x')`, `x'² = a` — in particular it neither panics (`k ≤ v-1 < v`), nor
    diverges, nor returns `None` -/
theorem tsLoop_invariant (sq : F → F) (hsq : ∀ a, sq a = a * a) (s : Nat) (a : F)
    (fuel : Nat) (z b x : F) (v : Nat)
    (hx : x * x = a * b) (hb : b ^ 2 ^ (v - 1) = 1) (hz : z ^ 2 ^ (v - 1) = -1)
    (hv1 : 1 ≤ v) (hvs : v ≤ s) (hf : v < fuel) :
    ∃ x', tsLoop sq s fuel z b x v = .ok (some x') ∧ x' * x' = a :=
  SqrtP.tsLoop_invariant sq hsq s a fuel z b x v hx hb hz hv1 hvs hf

/-- the loop as `sqrt` calls it (`v = s`, fuel `s + 1`, only `b^(2^s) = 1` known): a root if
    `b^(2^(s-1)) = 1`, and `None` — decided in the first round, `k = s` — otherwise -/
theorem tsLoop_spec (sq : F → F) (hsq : ∀ a, sq a = a * a) (s : Nat) (a z b x : F)
    (hs : 1 ≤ s) (hz : z ^ 2 ^ (s - 1) = -1) (hx : x * x = a * b) (hb : b ^ 2 ^ s = 1) :
    (b ^ 2 ^ (s - 1) = 1 → ∃ x', tsLoop sq s (s + 1) z b x s = .ok (some x') ∧ x' * x' = a) ∧
    (b ^ 2 ^ (s - 1) ≠ 1 → tsLoop sq s (s + 1) z b x s = .ok none) :=
  SqrtP.tsLoop_spec sq hsq s a z b x hs hz hx hb

end ts

section tsfin
variable {F : Type} [Field F] [Fintype F] [DecidableEq F]

/-- `.ok none` in the first round iff `a^((q-1)/2) = -1` -/
theorem tsLoop_first_round (sq : F → F) (hsq : ∀ a, sq a = a * a)
    {s : Nat} {z : F} {m : Nat} (h : ValidTS s z m) (a : F) (ha : a ≠ 0) :
    tsLoop sq s (s + 1) z (a ^ m * a * a ^ m) (a ^ m * a) s = .ok none ↔
      a ^ ((Fintype.card F - 1) / 2) = -1 :=
  SqrtP.tsLoop_first_round sq hsq h a ha

/-! ### 7. Tonelli–Shanks is complete, for every two-adicity -/

/-- with valid constants, on `x ≠ 0`: a root is reported exactly when `x` is a square, `None` exactly
    when it is not (so never `panic`, never `diverge`), whatever `dbg` and the `legendre` of the
    debug assertion -/
theorem sqrtTS_complete (dbg : Bool) (sq : F → F) (hsq : ∀ a, sq a = a * a) (leg : F → Res Legendre)
    {s : Nat} {z : F} {m : Nat} (h : ValidTS s z m) (x : F) (hx : x ≠ 0) :
    (IsSquare x ↔ ∃ y, sqrtTS dbg sq leg s z m x = .ok (some y)) ∧
    (¬ IsSquare x ↔ sqrtTS dbg sq leg s z m x = .ok none) :=
  SqrtP.sqrtTS_complete dbg sq hsq leg h x hx

/-- the same for `SqrtPrecomputation::sqrt` / `Field::sqrt` with either variant, zero included -/
theorem fieldSqrt_spec (dbg : Bool) (sq : F → F) (hsq : ∀ a, sq a = a * a)
    (leg : F → Res Legendre) (pre : Precomp F) (hpre : ValidPre pre) (x : F) :
    SqrtSpec (fieldSqrt dbg sq leg (some pre) x) x :=
  SqrtP.fieldSqrt_spec dbg sq hsq leg pre hpre x

/-- `SQRT_PRECOMP = None` is `unimplemented!()` -/
theorem fieldSqrt_none (dbg : Bool) (sq : F → F) (leg : F → Res Legendre) (x : F) :
    fieldSqrt dbg sq leg none x = .panic := rfl

end tsfin

/-- two-adicity 2 (`F₁₃`) and 4 (`F₁₇`) -/
example : ValidTS (F := ZMod 13) 2 8 1 := valid13
example : ValidTS (F := ZMod 17) 4 3 0 := valid17
example : findK (fun a : ZMod 17 => a * a) 5 2 0 = some 3 := by decide +kernel
example : sqrtTS false (fun a : ZMod 13 => a * a) (fun _ => .ok .zero) 2 8 1 10 = .ok (some 7) := by
  decide +kernel
example : sqrtTS false (fun a : ZMod 13 => a * a) (fun _ => .ok .zero) 2 8 1 2 = .ok none := by
  decide +kernel
example : sqrtTS true (fun a : ZMod 17 => a * a) (fun _ => .panic) 4 3 0 13 = .ok (some 8) := by
  decide +kernel
example : sqrtTS true (fun a : ZMod 17 => a * a) (fun _ => .panic) 4 3 0 3 = .ok none := by
  decide +kernel
/-- the hypothesis matters: with a `z` of too small order (`16 = -1`, order 2) the loop does not
    terminate on the square `2 = 6²`, and with a wrong two-adicity (`3` instead of `4`) it takes the
    `usize` underflow of `v - k` -/
example : sqrtTS false (fun a : ZMod 17 => a * a) (fun _ => .ok .zero) 4 16 0 2 = .diverge := by
  decide +kernel
example : sqrtTS false (fun a : ZMod 17 => a * a) (fun _ => .ok .zero) 3 3 0 16 = .panic := by
  decide +kernel

/-! ### 8. the constants of the Montgomery backend -/

/-- `two_adic_valuation` / `two_adic_coefficient`: the unique `m - 1 = 2^s·t`, `t` odd -/
theorem twoAdic_eq (m s t : Nat) (h : m - 1 = 2 ^ s * t) (ht : t % 2 = 1) : twoAdic m = (s, t) :=
  SqrtP.twoAdic_eq m s t h ht

theorem twoAdic_spec (m : Nat) (hm : 1 < m) :
    m - 1 = 2 ^ (twoAdic m).1 * (twoAdic m).2 ∧ (twoAdic m).2 % 2 = 1 :=
  SqrtP.twoAdic_spec m hm

/-- `MODULUS_PLUS_ONE_DIV_FOUR` (the carry of `m + 1` is put back: correct even for `m + 1 = 2^(64n)`) -/
theorem modulusPlusOneDivFour_eq (n m : Nat) (h4 : m % 4 = 3) (hlt : m < 2 ^ (64 * n)) :
    modulusPlusOneDivFour n m = some ((m + 1) / 4) :=
  SqrtP.modulusPlusOneDivFour_eq n m h4 hlt

theorem sqrtPrecomputation_3mod4 {F : Type} (n p : Nat) (root : F) (h4 : p % 4 = 3)
    (hlt : p < 2 ^ (64 * n)) :
    sqrtPrecomputation n p root = some (.case3Mod4 ((p + 1) / 4)) :=
  SqrtP.sqrtPrecomputation_3mod4 n p root h4 hlt

theorem sqrtPrecomputation_ts {F : Type} (n p : Nat) (root : F) (h4 : p % 4 ≠ 3) (s t : Nat)
    (h : p - 1 = 2 ^ s * t) (ht : t % 2 = 1) :
    sqrtPrecomputation n p root = some (.tonelliShanks s root ((t - 1) / 2)) :=
  SqrtP.sqrtPrecomputation_ts n p root h4 s t h ht

/-- `root = g^t` for a non-residue `g` gives `ValidTS` -/
theorem validTS_of_nonresidue {F : Type} [Field F] [Fintype F] [DecidableEq F] (s t : Nat)
    (h : Fintype.card F - 1 = 2 ^ s * t) (ht : t % 2 = 1) (g : F) (hg : ¬ IsSquare g) :
    ValidTS s (g ^ t) ((t - 1) / 2) :=
  SqrtP.validTS_of_nonresidue s t h ht g hg

/-- altogether: for an odd prime fitting its limbs, `sqrt_precomputation` is `Some` of valid constants -/
theorem sqrtPrecomputation_valid (p : ℕ) [Fact p.Prime] (hp : p ≠ 2) (n : Nat)
    (hlt : p < 2 ^ (64 * n)) (g : ZMod p) (hg : ¬ IsSquare g) :
    ∃ pre, sqrtPrecomputation n p (g ^ (twoAdic p).2) = some pre ∧ ValidPre pre :=
  SqrtP.sqrtPrecomputation_valid p hp n hlt g hg

example : twoAdic 13 = (2, 3) ∧ twoAdic 17 = (4, 1) := by decide +kernel
example : modulusPlusOneDivFour 1 7 = some 2 := by decide +kernel
example : modulusPlusOneDivFour 1 (2 ^ 64 - 1) = some (2 ^ 62) := by decide +kernel
example : (2 : ZMod 13) ^ (twoAdic 13).2 = 8 := by decide +kernel
example : sqrtPrecomputation 1 13 (8 : ZMod 13) = some (.tonelliShanks 2 8 1) :=
  sqrtPrecomputation_ts 1 13 8 (by norm_num) 2 3 (by norm_num) (by norm_num)
example : sqrtPrecomputation 1 7 (6 : ZMod 7) = some (.case3Mod4 2) :=
  sqrtPrecomputation_3mod4 1 7 6 (by norm_num) (by norm_num)
example : ¬ IsSquare (2 : ZMod 13) := by decide

/-! ### 9. the prime field -/

section prime
variable (p : ℕ) [Fact p.Prime]

/-- over `ZMod p` (same bodies as `fpSqrtD`) with `pre = sqrt_precomputation`: `legendre` and `sqrt`
    are correct -/
theorem zmodSqrtD_correct (dbg : Bool) (hp : p ≠ 2) (n : Nat) (hlt : p < 2 ^ (64 * n))
    (g : ZMod p) (hg : ¬ IsSquare g) :
    SqrtLawful (zmodSqrtD dbg p (sqrtPrecomputation n p (g ^ (twoAdic p).2))) :=
  zmodSqrtD_lawful p dbg hp n hlt g hg

/-- … and for any valid constants (a config that overrides `SQRT_PRECOMP`) -/
theorem zmodSqrtD_correct_of_valid (dbg : Bool) (hp : p ≠ 2) (pre : Precomp (ZMod p))
    (hpre : ValidPre pre) : SqrtLawful (zmodSqrtD dbg p (some pre)) :=
  zmodSqrtD_lawful_of_valid p dbg hp pre hpre

/-- the executable `fpSqrtD` is the image of `zmodSqrtD` under `ofZ` (canonical representatives) -/
theorem fpSqrtD_sqrt_ofZ (dbg : Bool) (pre : Option (Precomp (ZMod p))) (x : ZMod p) :
    (fpSqrtD dbg p (pre.map (precompMap (ofZ p)))).sqrt (ofZ p x) =
      Res.map (Option.map (ofZ p)) ((zmodSqrtD dbg p pre).sqrt x) :=
  SqrtP.fpSqrtD_sqrt_ofZ p dbg pre x

/-- **`fpSqrtD_correct`** on the executable `Fp p`: `.ok r`, `r = none ↔` non-residue,
    `r = some y → y² = x` (and `y` is the canonical representative of a root) -/
theorem fpSqrtD_correct (dbg : Bool) (hp : p ≠ 2) (n : Nat) (hlt : p < 2 ^ (64 * n))
    (g : ZMod p) (hg : ¬ IsSquare g) (x : ZMod p) :
    ∃ r, (fpSqrtD dbg p (sqrtPrecomputation n p (ofZ p (g ^ (twoAdic p).2)))).sqrt (ofZ p x) = .ok r ∧
      (r = none ↔ ¬ IsSquare x) ∧
      ∀ y, r = some y → y * y = ofZ p x ∧ ∃ y', y = ofZ p y' ∧ y' * y' = x :=
  SqrtP.fpSqrtD_correct p dbg hp n hlt g hg x

theorem fpSqrtD_legendre_correct (dbg : Bool) (hp : p ≠ 2) (pre : Option (Precomp (Fp p)))
    (a : ℤ) :
    ∃ l, (fpSqrtD dbg p pre).legendre (ofZ p (a : ZMod p)) = .ok l ∧ LegSpec l (a : ZMod p) ∧
      l.toInt = legendreSym p a :=
  SqrtP.fpSqrtD_legendre_correct p dbg hp pre a

/-- every reduced element of `Fp p` is a canonical representative -/
theorem ofZ_surj_reduced (a : Fp p) (h : a.val < p) : ofZ p (a.val : ZMod p) = a :=
  SqrtP.ofZ_surj_reduced p a h

end prime

example : (fpSqrtD false 13 (sqrtPrecomputation 1 13 (ofZ 13 ((2 : ZMod 13) ^ (twoAdic 13).2)))).sqrt
    (ofZ 13 10) = .ok (some ⟨7⟩) := by decide +kernel
example : (fpSqrtD false 13 (sqrtPrecomputation 1 13 (ofZ 13 ((2 : ZMod 13) ^ (twoAdic 13).2)))).sqrt
    (ofZ 13 2) = .ok none := by decide +kernel

/-! ### 10. `QuadExtField::legendre` -/

section quad
variable {P F : Type} [Field F] [Fintype F] [DecidableEq F]
variable {cfg : QuadCfg F} {B : FieldD P F}

theorem quadLegendre_eq (SB : SqrtD F) (a : Quad F) :
    quadLegendre cfg B SB a = SB.legendre (Quad.norm cfg B a) := rfl

/-- given a correct base dictionary and `β` a non-residue, this is the Legendre symbol of `a` in the
    field `F_{q²}` — i.e. Euler's criterion `a^((q²-1)/2)`, read through Mathlib's quadratic character -/
theorem quadLegendre_correct (hB : BaseLawful B) (hc : QuadLawful cfg)
    (hnr : ∀ x : F, x * x ≠ cfg.nonresidue) {SB : SqrtD F} (hS : SqrtLawful SB) (a : Quad F) :
    letI := Quad.field cfg B hB hc hnr
    ∃ l, quadLegendre cfg B SB a = .ok l ∧ LegSpec l a ∧ l.toInt = quadraticChar (Quad F) a := by
  letI := Quad.field cfg B hB hc hnr
  obtain ⟨l, h1, h2⟩ := quadLegendre_legSpec hB hc hnr hS a
  exact ⟨l, h1, h2, legSpec_toInt_quadraticChar h2⟩

/-- the facts behind it: `a` is a square of `F_{q²}` iff its norm is a square of `F_q`, and
    `a^((q²-1)/2) = norm(a)^((q-1)/2)` -/
theorem quad_isSquare_iff_norm (hB : BaseLawful B) (hc : QuadLawful cfg)
    (hnr : ∀ x : F, x * x ≠ cfg.nonresidue) (a : Quad F) :
    letI := Quad.field cfg B hB hc hnr
    IsSquare a ↔ IsSquare (Quad.norm cfg B a) :=
  quad_isSquare_iff hB hc hnr a

theorem quad_euler_norm (hB : BaseLawful B) (hc : QuadLawful cfg)
    (hnr : ∀ x : F, x * x ≠ cfg.nonresidue) (a : Quad F) :
    letI := Quad.field cfg B hB hc hnr
    a ^ ((Fintype.card F ^ 2 - 1) / 2)
      = Quad.ofBase hB hc (Quad.norm cfg B a ^ ((Fintype.card F - 1) / 2)) := by
  letI := Quad.field cfg B hB hc hnr
  have hF := char_ne_two_of_nonsquare (nonresidue_not_isSquare hnr)
  have hodd := FiniteField.odd_card_of_char_ne_two hF
  have h := SqrtP.quad_euler_norm hB hc hnr a
  rw [Quad.card] at h
  have e1 : (Fintype.card F ^ 2 - 1) / 2 = Fintype.card F ^ 2 / 2 := by
    have : Fintype.card F ^ 2 % 2 = 1 := by rw [Nat.pow_mod, hodd]
    omega
  have e2 : (Fintype.card F - 1) / 2 = Fintype.card F / 2 := by omega
  rw [e1, e2]; exact h

/-! ### 11. `QuadExtField::sqrt` (complex method) -/

/-- soundness needs only soundness of the base `sqrt` -/
theorem quadSqrt_sound (hB : BaseLawful B) (hc : QuadLawful cfg)
    (hnr : ∀ x : F, x * x ≠ cfg.nonresidue) {SB : SqrtD F}
    (hSs : ∀ x y, SB.sqrt x = .ok (some y) → y * y = x)
    (dbg : Bool) (PD : PrimeD P) (a y : Quad F)
    (h : quadSqrt dbg cfg B SB PD a = .ok (some y)) : Quad.square cfg B y = a :=
  SqrtP.quadSqrt_sound hB hc hnr hSs dbg PD a y h

/-- never `panic` (both `expect`s and the `unwrap` of `Div` are unreachable), never `diverge` -/
theorem quadSqrt_total (hB : BaseLawful B) (hc : QuadLawful cfg)
    (hnr : ∀ x : F, x * x ≠ cfg.nonresidue) {SB : SqrtD F} (hS : SqrtLawful SB) (dbg : Bool)
    (PD : PrimeD P) (hti : twoInv B PD = .ok (2⁻¹ : F)) (a : Quad F) :
    quadSqrt dbg cfg B SB PD a ≠ .panic ∧ quadSqrt dbg cfg B SB PD a ≠ .diverge := by
  letI := Quad.field cfg B hB hc hnr
  exact (quadSqrt_spec hB hc hnr hS dbg PD hti a).ne_panic

theorem quadSqrt_complete (hB : BaseLawful B) (hc : QuadLawful cfg)
    (hnr : ∀ x : F, x * x ≠ cfg.nonresidue) {SB : SqrtD F} (hS : SqrtLawful SB) (dbg : Bool)
    (PD : PrimeD P) (hti : twoInv B PD = .ok (2⁻¹ : F)) (a : Quad F) :
    letI := Quad.field cfg B hB hc hnr
    (IsSquare a ↔ quadSqrt dbg cfg B SB PD a ≠ .ok none) ∧
    (IsSquare a → ∃ y, quadSqrt dbg cfg B SB PD a = .ok (some y) ∧ y * y = a) := by
  letI := Quad.field cfg B hB hc hnr
  have h := quadSqrt_spec hB hc hnr hS dbg PD hti a
  exact ⟨h.isSquare_iff, h.some_of_isSquare⟩

theorem quadSqrt_zero (hB : BaseLawful B) (hc : QuadLawful cfg)
    (hnr : ∀ x : F, x * x ≠ cfg.nonresidue) {SB : SqrtD F} (hS : SqrtLawful SB) (dbg : Bool)
    (PD : PrimeD P) : quadSqrt dbg cfg B SB PD (0 : Quad F) = .ok (some 0) :=
  SqrtP.quadSqrt_zero hB hc hnr hS dbg PD

/-- the quadratic layer is again a lawful dictionary (towers) -/
theorem quadSqrtD_lawful (hB : BaseLawful B) (hc : QuadLawful cfg)
    (hnr : ∀ x : F, x * x ≠ cfg.nonresidue) {SB : SqrtD F} (hS : SqrtLawful SB) (dbg : Bool)
    (PD : PrimeD P) (hti : twoInv B PD = .ok (2⁻¹ : F)) :
    letI := Quad.field cfg B hB hc hnr
    SqrtLawful (quadSqrtD dbg cfg B SB PD) :=
  SqrtP.quadSqrtD_lawful hB hc hnr hS dbg PD hti

end quad

/-- the constant `1/2`: `(MODULUS + 1)/2` for an odd prime below `2^(64n) - 1`, inherited upwards -/
theorem twoInv_zmod (p : Nat) [Fact p.Prime] (hp : p ≠ 2) (n : Nat) (hlt : p + 1 < 2 ^ (64 * n)) :
    twoInv (primeD (ZMod p)) (zmodPrimeD p n) = .ok (2⁻¹ : ZMod p) :=
  SqrtP.twoInv_zmod p hp n hlt

theorem twoInv_quad {P F : Type} [Field F] [DecidableEq F] {cfg : QuadCfg F} {B : FieldD P F}
    (hB : BaseLawful B) (hc : QuadLawful cfg) (hnr : ∀ x : F, x * x ≠ cfg.nonresidue)
    (PD : PrimeD P) (h2 : (2 : F) ≠ 0) (h : twoInv B PD = .ok (2⁻¹ : F)) :
    letI := Quad.field cfg B hB hc hnr
    twoInv (Quad.fieldD cfg B) PD = .ok (2⁻¹ : Quad F) :=
  SqrtP.twoInv_quad hB hc hnr PD h2 h

theorem twoInv_cubic {P F : Type} [Field F] [DecidableEq F] {cfg : CubicCfg F} {B : FieldD P F}
    (hc : CubicLawful cfg) (hnc : ∀ x : F, x ^ 3 ≠ cfg.nonresidue)
    (PD : PrimeD P) (h2 : (2 : F) ≠ 0) (h : twoInv B PD = .ok (2⁻¹ : F)) :
    letI := Cubic.field cfg hc hnc
    twoInv (Cubic.fieldD cfg B) PD = .ok (2⁻¹ : Cubic F) :=
  SqrtP.twoInv_cubic hc hnc PD h2 h

/-- non-vacuity: `F₁₃[X]/(X² - 2)` over the Tonelli–Shanks base (two-adicity 2), and
    `F₇[X]/(X² + 1)` with the `bls12_381`-style hooks over the 3-mod-4 base -/
example : BaseLawful B13 ∧ QuadLawful c13two.wrap ∧ (∀ x : ZMod 13, x * x ≠ c13two.wrap.nonresidue) ∧
    SqrtLawful S13 ∧ twoInv B13 (zmodPrimeD 13 1) = .ok (2⁻¹ : ZMod 13) :=
  ⟨B13_lawful, c13two_lawful, nonsq13, S13_lawful, twoInv13⟩
example : BaseLawful B7 ∧ QuadLawful c7neg.wrap ∧ (∀ x : ZMod 7, x * x ≠ c7neg.wrap.nonresidue) ∧
    SqrtLawful S7 ∧ twoInv B7 (zmodPrimeD 7 1) = .ok (2⁻¹ : ZMod 7) :=
  ⟨B7_lawful, c7neg_lawful, nonsq7_neg, S7_lawful, twoInv7⟩
example : quadSqrt false c13two.wrap B13 S13 (zmodPrimeD 13 1) ⟨1, 1⟩ = .ok (some ⟨9, 8⟩) := by
  decide +kernel
example : Quad.square c13two.wrap B13 (⟨9, 8⟩ : Quad (ZMod 13)) = ⟨1, 1⟩ := by decide +kernel
example : quadSqrt false c13two.wrap B13 S13 (zmodPrimeD 13 1) ⟨2, 1⟩ = .ok none := by
  decide +kernel
/-- the `c1 = 0` branch on a base non-residue: `2 = X²` -/
example : quadSqrt false c13two.wrap B13 S13 (zmodPrimeD 13 1) ⟨2, 0⟩ = .ok (some ⟨0, 1⟩) := by
  decide +kernel
example : quadLegendre c13two.wrap B13 S13 ⟨1, 1⟩ = .ok .qr ∧
    quadLegendre c13two.wrap B13 S13 ⟨2, 1⟩ = .ok .qnr := by decide +kernel
example : quadSqrt true c7neg.wrap B7 S7 (zmodPrimeD 7 1) ⟨2, 1⟩ = .ok none ∧
    quadSqrt true c7neg.wrap B7 S7 (zmodPrimeD 7 1) ⟨0, 2⟩ = .ok (some ⟨1, 1⟩) ∧
    quadSqrt true c7neg.wrap B7 S7 (zmodPrimeD 7 1) ⟨3, 0⟩ = .ok (some ⟨0, 2⟩) := by decide +kernel

/-- two quadratic layers (`Fp4 = Fp2[Y]/(Y² - X)`): lawfulness composes -/
theorem fp4SqrtD_lawful {P F : Type} [Field F] [Fintype F] [DecidableEq F] (c2 : Fp2Cfg F)
    {B : FieldD P F} (hB : BaseLawful B) (hc : QuadLawful c2.wrap)
    (hnr : ∀ x : F, x * x ≠ c2.wrap.nonresidue) (tbl : List F)
    (hnr4 : letI := Quad.field c2.wrap B hB hc hnr
      ∀ x : Quad F, x * x ≠ ⟨0, 1⟩)
    {SB : SqrtD F} (hS : SqrtLawful SB) (dbg : Bool) (PD : PrimeD P)
    (hti : twoInv B PD = .ok (2⁻¹ : F)) :
    letI := Quad.field c2.wrap B hB hc hnr
    letI := Quad.field (Fp4.cfg c2 ⟨0, 1⟩ tbl) (Quad.fieldD c2.wrap B)
      (Quad.fieldD_baseLawful hB hc hnr) (Fp4.cfg_lawful c2 hB hc hnr tbl) hnr4
    SqrtLawful (quadSqrtD dbg (Fp4.cfg c2 ⟨0, 1⟩ tbl) (Quad.fieldD c2.wrap B)
      (quadSqrtD dbg c2.wrap B SB PD) PD) :=
  SqrtP.fp4SqrtD_lawful c2 hB hc hnr tbl hnr4 hS dbg PD hti

/-- non-vacuity over `F₅` (`X² = 2`, `Y² = X`; base Tonelli–Shanks with two-adicity 2) -/
example : QuadLawful c5two.wrap ∧ (∀ x : ZMod 5, x * x ≠ c5two.wrap.nonresidue) ∧ SqrtLawful S5 ∧
    twoInv (primeD (ZMod 5)) (zmodPrimeD 5 1) = .ok (2⁻¹ : ZMod 5) :=
  ⟨c5two_lawful, nonsq5, S5_lawful, twoInv5⟩
example :
    letI := Quad.field c5two.wrap (primeD (ZMod 5)) primeD_lawful c5two_lawful nonsq5
    ∀ x : Quad (ZMod 5), x * x ≠ ⟨0, 1⟩ := nonsq5_4
example :
    letI : Mul (Quad (ZMod 5)) := ⟨Quad.mul c5two.wrap (primeD (ZMod 5))⟩
    quadSqrt false (Fp4.cfg c5two ⟨0, 1⟩ tbl5) (Quad.fieldD c5two.wrap (primeD (ZMod 5)))
      (quadSqrtD false c5two.wrap (primeD (ZMod 5)) S5 (zmodPrimeD 5 1)) (zmodPrimeD 5 1)
      ⟨⟨1, 2⟩, ⟨3, 1⟩⟩ = .ok (some ⟨⟨0, 1⟩, ⟨3, 2⟩⟩) ∧
    quadSqrt false (Fp4.cfg c5two ⟨0, 1⟩ tbl5) (Quad.fieldD c5two.wrap (primeD (ZMod 5)))
      (quadSqrtD false c5two.wrap (primeD (ZMod 5)) S5 (zmodPrimeD 5 1)) (zmodPrimeD 5 1)
      ⟨⟨1, 2⟩, ⟨3, 4⟩⟩ = .ok none := by decide +kernel

/-! ### 12. the cubic extension -/

section cubic
variable {P F : Type} [Field F] [Fintype F] [DecidableEq F]
variable {cfg : CubicCfg F} {B : FieldD P F}

/-- given valid Frobenius tables (`frobenius_map(d)`, `frobenius_map(2d)` are the `q`- and `q²`-power
    maps) the `assert!` of the norm is unreachable, the norm is `a^(1+q+q²)`, and `cubicLegendre` is the
    Legendre symbol (Euler's criterion) of `a` in `F_{q³}` -/
theorem cubicLegendre_correct (hc : CubicLawful cfg) (hnc : ∀ x : F, x ^ 3 ≠ cfg.nonresidue)
    {SB : SqrtD F} (hS : SqrtLawful SB) (hF : ringChar F ≠ 2) (a : Cubic F)
    (hf1 : letI := Cubic.commRing cfg hc
      Cubic.frob cfg B a B.extDeg = .ok (a ^ Fintype.card F))
    (hf2 : letI := Cubic.commRing cfg hc
      Cubic.frob cfg B a (2 * B.extDeg) = .ok (a ^ Fintype.card F ^ 2)) :
    letI := Cubic.field cfg hc hnc
    ∃ l, cubicLegendre cfg B SB a = .ok l ∧ LegSpec l a ∧ l.toInt = quadraticChar (Cubic F) a := by
  letI := Cubic.field cfg hc hnc
  obtain ⟨l, h1, h2⟩ := cubicLegendre_legSpec hc hnc hS hF a hf1 hf2
  exact ⟨l, h1, h2, legSpec_toInt_quadraticChar h2⟩

/-- `cubicSqrt` with the configured constants: soundness always … -/
theorem cubicSqrt_sound (hB : BaseLawful B) (hc : CubicLawful cfg)
    (hnc : ∀ x : F, x ^ 3 ≠ cfg.nonresidue) (dbg : Bool) (SB : SqrtD F) (s : Nat) (z : Cubic F)
    (m : Nat) (a y : Cubic F)
    (h : cubicSqrt dbg cfg B SB (fp3Precomp s z m) a = .ok (some y)) : Cubic.mul cfg y y = a :=
  SqrtP.cubicSqrt_sound hB hc hnc dbg SB s z m a y h

/-- … and completeness, totality, `sqrt 0` given `ValidTS` in `F_{q³}` (items 4–7 with `q ↦ q³`) -/
theorem cubicSqrt_spec (hB : BaseLawful B) (hc : CubicLawful cfg)
    (hnc : ∀ x : F, x ^ 3 ≠ cfg.nonresidue) (dbg : Bool) (SB : SqrtD F) (s : Nat) (z : Cubic F)
    (m : Nat)
    (hv : letI := Cubic.field cfg hc hnc
      ValidTS s z m) (a : Cubic F) :
    letI := Cubic.field cfg hc hnc
    SqrtSpec (cubicSqrt dbg cfg B SB (fp3Precomp s z m) a) a :=
  SqrtP.cubicSqrt_spec hB hc hnc dbg SB (.tonelliShanks s z m) hv a

theorem cubicSqrt_none (dbg : Bool) (SB : SqrtD F) (a : Cubic F) :
    cubicSqrt dbg cfg B SB none a = .panic := rfl

theorem cubicSqrtD_lawful (hB : BaseLawful B) (hc : CubicLawful cfg)
    (hnc : ∀ x : F, x ^ 3 ≠ cfg.nonresidue) {SB : SqrtD F} (hS : SqrtLawful SB)
    (hF : ringChar F ≠ 2) (dbg : Bool) (pre : Precomp (Cubic F))
    (hpre : letI := Cubic.field cfg hc hnc
      ValidPre pre)
    (hf1 : letI := Cubic.commRing cfg hc
      ∀ a : Cubic F, Cubic.frob cfg B a B.extDeg = .ok (a ^ Fintype.card F))
    (hf2 : letI := Cubic.commRing cfg hc
      ∀ a : Cubic F, Cubic.frob cfg B a (2 * B.extDeg) = .ok (a ^ Fintype.card F ^ 2)) :
    letI := Cubic.field cfg hc hnc
    SqrtLawful (cubicSqrtD dbg cfg B SB (some pre)) :=
  SqrtP.cubicSqrtD_lawful hB hc hnc hS hF dbg pre hpre hf1 hf2

/-- `Fp3` over the prime field with correct tables: unconditional -/
theorem fp3SqrtD_lawful (p : ℕ) [Fact p.Prime] [CharP F p] (hp3 : p % 3 = 1)
    (hcard : Fintype.card F = p) (c : Fp3Cfg F) (hc : CubicLawful c.wrap)
    (hnc : ∀ x : F, x ^ 3 ≠ c.wrap.nonresidue)
    (hlen1 : c.frobC1.length = 3) (hlen2 : c.frobC2.length = 3)
    (htbl1 : ∀ i, i < 3 → c.frobC1.getD i 0 = c.nonresidue ^ ((p ^ i - 1) / 3))
    (htbl2 : ∀ i, i < 3 → c.frobC2.getD i 0 = c.nonresidue ^ ((2 * p ^ i - 2) / 3))
    {SB : SqrtD F} (hS : SqrtLawful SB) (hF : ringChar F ≠ 2) (dbg : Bool)
    (pre : Precomp (Cubic F))
    (hpre : letI := Cubic.field c.wrap hc hnc
      ValidPre pre) :
    letI := Cubic.field c.wrap hc hnc
    SqrtLawful (cubicSqrtD dbg c.wrap (primeD F) SB (some pre)) :=
  SqrtP.fp3SqrtD_lawful p hp3 hcard c hc hnc hlen1 hlen2 htbl1 htbl2 hS hF dbg pre hpre

end cubic

/-- non-vacuity: `F₁₃[X]/(X³ - 2)`, `13³ - 1 = 2²·549` (two-adicity 2), `z = 5` -/
example :
    letI := Cubic.field c13cub.wrap c13cub_lawful noncube13
    ValidTS (F := Cubic (ZMod 13)) 2 ⟨5, 0, 0⟩ 274 := valid13cub
example : 13 % 3 = 1 ∧ Fintype.card (ZMod 13) = 13 ∧ c13cub.frobC1.length = 3 ∧ c13cub.frobC2.length = 3 ∧
    (∀ i, i < 3 → c13cub.frobC1.getD i 0 = c13cub.nonresidue ^ ((13 ^ i - 1) / 3)) ∧
    (∀ i, i < 3 → c13cub.frobC2.getD i 0 = c13cub.nonresidue ^ ((2 * 13 ^ i - 2) / 3)) :=
  ⟨rfl, ZMod.card 13, c13cub_tables⟩
example : cubicSqrt false c13cub.wrap B13 S13 (fp3Precomp 2 ⟨5, 0, 0⟩ 274) ⟨1, 1, 0⟩
    = .ok (some ⟨7, 12, 12⟩) := by decide +kernel
example : Cubic.mul c13cub.wrap (⟨7, 12, 12⟩ : Cubic (ZMod 13)) ⟨7, 12, 12⟩ = ⟨1, 1, 0⟩ := by
  decide +kernel
example : cubicSqrt false c13cub.wrap B13 S13 (fp3Precomp 2 ⟨5, 0, 0⟩ 274) ⟨1, 2, 3⟩ = .ok none := by
  decide +kernel
example : cubicLegendre c13cub.wrap B13 S13 ⟨1, 1, 0⟩ = .ok .qr ∧
    cubicLegendre c13cub.wrap B13 S13 ⟨1, 2, 3⟩ = .ok .qnr := by decide +kernel

/-! ### 14. `sqrt_in_place` -/

theorem sqrtInPlace_spec {K : Type} [Mul K] (sqrt : K → Res (Option K)) (x : K)
    (h : SqrtSpec (sqrt x) x) :
    (IsSquare x → ∃ y, sqrtInPlace sqrt x = .ok (y, some y) ∧ y * y = x) ∧
    (¬ IsSquare x → sqrtInPlace sqrt x = .ok (x, none)) :=
  SqrtP.sqrtInPlace_spec sqrt x h

example : sqrtInPlace S13.sqrt 10 = .ok (7, some 7) ∧ sqrtInPlace S13.sqrt 2 = .ok (2, none) := by
  decide +kernel

/-! ### 15. coordinate recovery -/

section curves
variable {P F : Type} [Field F] [DecidableEq F]
variable {B : FieldD P F} {S : SqrtD F}

theorem getYsFromX_none_iff (hB : BaseLawful B) (hS : ∀ x, SqrtSpec (S.sqrt x) x) (a b x : F) :
    getYsFromX B S a b x = .ok none ↔ ¬ IsSquare (x ^ 3 + a * x + b) :=
  SqrtP.getYsFromX_none_iff hB hS a b x

theorem getYsFromX_no_panic (hB : BaseLawful B) (hS : ∀ x, SqrtSpec (S.sqrt x) x) (a b x : F) :
    ∃ r, getYsFromX B S a b x = .ok r :=
  SqrtP.getYsFromX_total hB hS a b x

/-- both solutions, the smaller first, and there are no others -/
theorem getYsFromX_some (hB : BaseLawful B) (hS : ∀ x, SqrtSpec (S.sqrt x) x)
    (hcmp : CmpOriented S) (a b x y1 y2 : F)
    (h : getYsFromX B S a b x = .ok (some (y1, y2))) :
    y1 * y1 = x ^ 3 + a * x + b ∧ y2 = -y1 ∧ S.cmp y1 y2 ≠ .gt ∧
      ∀ y, y * y = x ^ 3 + a * x + b → y = y1 ∨ y = y2 :=
  SqrtP.getYsFromX_some hB hS hcmp a b x y1 y2 h

/-- `get_point_from_x_unchecked(x, greatest)` picks `y2` iff `greatest` -/
theorem getPointFromX_eq (hB : BaseLawful B) (hS : ∀ x, SqrtSpec (S.sqrt x) x) (a b x : F)
    (greatest : Bool) :
    (getYsFromX B S a b x = .ok none → getPointFromX B S a b x greatest = .ok none) ∧
    (∀ y1 y2, getYsFromX B S a b x = .ok (some (y1, y2)) →
      getPointFromX B S a b x greatest = .ok (some (x, if greatest then y2 else y1))) :=
  SqrtP.getPointFromX_eq hB hS a b x greatest

theorem getXsFromY_none_iff (hB : BaseLawful B) (hS : ∀ x, SqrtSpec (S.sqrt x) x) (a d y : F) :
    getXsFromY B S a d y = .ok none ↔
      a - d * y ^ 2 = 0 ∨ ¬ IsSquare ((1 - y ^ 2) / (a - d * y ^ 2)) :=
  SqrtP.getXsFromY_none_iff hB hS a d y

theorem getXsFromY_no_panic (hB : BaseLawful B) (hS : ∀ x, SqrtSpec (S.sqrt x) x) (a d y : F) :
    ∃ r, getXsFromY B S a d y = .ok r :=
  SqrtP.getXsFromY_total hB hS a d y

theorem getXsFromY_some (hB : BaseLawful B) (hS : ∀ x, SqrtSpec (S.sqrt x) x)
    (hcmp : CmpOriented S) (a d y x1 x2 : F)
    (h : getXsFromY B S a d y = .ok (some (x1, x2))) :
    a - d * y ^ 2 ≠ 0 ∧ x1 * x1 = (1 - y ^ 2) / (a - d * y ^ 2) ∧
      a * x1 ^ 2 + y ^ 2 = 1 + d * x1 ^ 2 * y ^ 2 ∧ x2 = -x1 ∧ S.cmp x1 x2 ≠ .gt ∧
      ∀ x, a * x ^ 2 + y ^ 2 = 1 + d * x ^ 2 * y ^ 2 → x = x1 ∨ x = x2 :=
  SqrtP.getXsFromY_some hB hS hcmp a d y x1 x2 h

theorem getPointFromY_eq (hB : BaseLawful B) (hS : ∀ x, SqrtSpec (S.sqrt x) x) (a d y : F)
    (greatest : Bool) :
    (getXsFromY B S a d y = .ok none → getPointFromY B S a d y greatest = .ok none) ∧
    (∀ x1 x2, getXsFromY B S a d y = .ok (some (x1, x2)) →
      getPointFromY B S a d y greatest = .ok (some (if greatest then x2 else x1, y))) :=
  SqrtP.getPointFromY_eq hB hS a d y greatest

end curves

/-- `Ord` of the prime field (integers below `p`) is oriented, and orientation is inherited by the
    lexicographic orders of the extension layers -/
theorem zmod_cmp_oriented (dbg : Bool) (p : Nat) [Fact p.Prime] (pre : Option (Precomp (ZMod p))) :
    CmpOriented (zmodSqrtD dbg p pre) :=
  SqrtP.zmod_cmp_oriented dbg p pre

theorem quadSqrtD_cmp_oriented {P K : Type} [Add K] [Sub K] [Mul K] [Neg K] [Zero K] [One K]
    [DecidableEq K] {SB : SqrtD K} (h : CmpOriented SB) (dbg : Bool) (cfg : QuadCfg K)
    (B : FieldD P K) (PD : PrimeD P) : CmpOriented (quadSqrtD dbg cfg B SB PD) :=
  fun a b => quadCmp_oriented h a b

theorem cubicSqrtD_cmp_oriented {P K : Type} [Add K] [Sub K] [Mul K] [Neg K] [Zero K] [One K]
    [DecidableEq K] {SB : SqrtD K} (h : CmpOriented SB) (dbg : Bool) (cfg : CubicCfg K)
    (B : FieldD P K) (pre : Option (Precomp (Cubic K))) :
    CmpOriented (cubicSqrtD dbg cfg B SB pre) :=
  fun a b => cubicCmp_oriented h a b

example : CmpOriented S13 := zmod_cmp_oriented _ _ _
example : getYsFromX B13 S13 1 1 (0 : ZMod 13) = .ok (some (1, 12)) ∧
    getYsFromX B13 S13 1 1 (2 : ZMod 13) = .ok none ∧
    getPointFromX B13 S13 1 1 (4 : ZMod 13) true = .ok (some (4, 11)) ∧
    getPointFromX B13 S13 1 1 (4 : ZMod 13) false = .ok (some (4, 2)) := by decide +kernel
/-- twisted Edwards `x² + y² = 1 + 4x²y²` over `F₁₃`: `y = 6` makes the denominator vanish -/
example : getXsFromY B13 S13 1 4 (6 : ZMod 13) = .ok none ∧
    getXsFromY B13 S13 1 2 (4 : ZMod 13) = .ok (some (4, 9)) ∧
    getXsFromY B13 S13 1 2 (2 : ZMod 13) = .ok none ∧
    getPointFromY B13 S13 1 2 (4 : ZMod 13) true = .ok (some (9, 4)) := by decide +kernel

end Ark.C11
