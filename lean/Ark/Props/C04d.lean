/-
  Property C04 (GLV), tie to the shipped configurations.

  `Ark.C04c.glv_mul_correct_on_generator_subgroup` needs, besides additivity of the endomorphism
  (a theorem on curves `y² = x³ + b`: `Ark.C04c.glv_endo_additive`) and `φ(g) = λ·g`
  (kernel-checked per configuration: `checkGlvEigen`), the lattice-row congruences, `det N = r` and
  the size bound of the halves.  Here these are derived from the generated, kernel-checked facts
  `checkGlvDecompRows`, `checkGlvDet`, `checkGlvLadderBound` for EVERY shipped `GLVConfig`
  (the constants are re-dumped from the compiled tree on every run: `Ark/Gen/*.lean`).
-/
import Ark.Props.C04c
import Ark.Gen.All

namespace Ark.C04d
open Ark Ark.ScalarMul Ark.GlvEndo Ark.C04c

/-- the three generated checks of a configuration give `glvBoundOk` of its scalar-multiplication view -/
theorem bound_ok_of_checks (c : Ark.Cfg.GlvCfg) (hr : 0 < c.curve.r)
    (hdet : Ark.Cfg.checkGlvDet c = true) (hb : Ark.Cfg.checkGlvLadderBound c = true) :
    glvBoundOk (glvOfCfg c.scalarLimbs c) = true := by
  rw [glv_bound_ok_iff]
  have hd := Ark.Props.C16Meaning.glv_det_meaning c hdet
  unfold Ark.Cfg.checkGlvLadderBound at hb
  simp only [Bool.and_eq_true, decide_eq_true_eq] at hb
  show 0 < c.curve.r ∧ c.n 0 * c.n 3 - c.n 1 * c.n 2 = (c.curve.r : Int) ∧
    (c.n 0).natAbs + (c.n 2).natAbs < min c.curve.r (2 ^ (64 * c.scalarLimbs - 1)) ∧
    (c.n 1).natAbs + (c.n 3).natAbs < min c.curve.r (2 ^ (64 * c.scalarLimbs - 1))
  exact ⟨hr, hd, hb.1, hb.2⟩

/-- for a configuration passing the generated checks, both halves of the decomposition of EVERY scalar fit the
    joint ladder (the hypotheses `hk1 hk2` of `C04b.glv_mul_correct`) -/
theorem decomp_small_of_checks (c : Ark.Cfg.GlvCfg) (hr : 0 < c.curve.r)
    (hdet : Ark.Cfg.checkGlvDet c = true) (hb : Ark.Cfg.checkGlvLadderBound c = true) (k : Nat) :
    (decompInt (glvOfCfg c.scalarLimbs c) k).1.natAbs
        < min c.curve.r (2 ^ (64 * c.scalarLimbs - 1)) ∧
    (decompInt (glvOfCfg c.scalarLimbs c) k).2.natAbs
        < min c.curve.r (2 ^ (64 * c.scalarLimbs - 1)) :=
  glv_decomp_small _ (bound_ok_of_checks c hr hdet hb) k

/-- the hand-written constants used by the C12 theorems are the shipped ones -/
theorem bls12381Glv_is_shipped :
    glvOfCfg Ark.Gen.bls12_381_G1_glv.scalarLimbs Ark.Gen.bls12_381_G1_glv = Ark.C12.bls12381Glv := by
  have h : ∀ a b : GlvCfg, a.nLimbs = b.nLimbs → a.r = b.r → a.lambda = b.lambda → a.n11 = b.n11 →
      a.n12 = b.n12 → a.n21 = b.n21 → a.n22 = b.n22 → a = b := by
    intro a b h1 h2 h3 h4 h5 h6 h7; cases a; cases b; simp_all
  apply h <;> decide +kernel

/-- every shipped `GLVConfig`: halves of every scalar fit the ladder -/
theorem shipped_glv_bound_ok :
    glvBoundOk (glvOfCfg Ark.Gen.bls12_381_G1_glv.scalarLimbs Ark.Gen.bls12_381_G1_glv) = true
    ∧ glvBoundOk (glvOfCfg Ark.Gen.bls12_381_G2_glv.scalarLimbs Ark.Gen.bls12_381_G2_glv) = true
    ∧ glvBoundOk (glvOfCfg Ark.Gen.bls12_377_G1_glv.scalarLimbs Ark.Gen.bls12_377_G1_glv) = true
    ∧ glvBoundOk (glvOfCfg Ark.Gen.bls12_377_G2_glv.scalarLimbs Ark.Gen.bls12_377_G2_glv) = true
    ∧ glvBoundOk (glvOfCfg Ark.Gen.bn254_G1_glv.scalarLimbs Ark.Gen.bn254_G1_glv) = true
    ∧ glvBoundOk (glvOfCfg Ark.Gen.bn254_G2_glv.scalarLimbs Ark.Gen.bn254_G2_glv) = true
    ∧ glvBoundOk (glvOfCfg Ark.Gen.bw6_761_G1_glv.scalarLimbs Ark.Gen.bw6_761_G1_glv) = true
    ∧ glvBoundOk (glvOfCfg Ark.Gen.bw6_761_G2_glv.scalarLimbs Ark.Gen.bw6_761_G2_glv) = true
    ∧ glvBoundOk (glvOfCfg Ark.Gen.pallas_G1_glv.scalarLimbs Ark.Gen.pallas_G1_glv) = true
    ∧ glvBoundOk (glvOfCfg Ark.Gen.vesta_G1_glv.scalarLimbs Ark.Gen.vesta_G1_glv) = true
    ∧ glvBoundOk (glvOfCfg Ark.Gen.test_bls12_381_G1_glv.scalarLimbs Ark.Gen.test_bls12_381_G1_glv) = true :=
  ⟨bound_ok_of_checks _ (by decide +kernel) Ark.Gen.bls12_381_G1_glv_decomp_det Ark.Gen.bls12_381_G1_glv_ladder_bound,
   bound_ok_of_checks _ (by decide +kernel) Ark.Gen.bls12_381_G2_glv_decomp_det Ark.Gen.bls12_381_G2_glv_ladder_bound,
   bound_ok_of_checks _ (by decide +kernel) Ark.Gen.bls12_377_G1_glv_decomp_det Ark.Gen.bls12_377_G1_glv_ladder_bound,
   bound_ok_of_checks _ (by decide +kernel) Ark.Gen.bls12_377_G2_glv_decomp_det Ark.Gen.bls12_377_G2_glv_ladder_bound,
   bound_ok_of_checks _ (by decide +kernel) Ark.Gen.bn254_G1_glv_decomp_det Ark.Gen.bn254_G1_glv_ladder_bound,
   bound_ok_of_checks _ (by decide +kernel) Ark.Gen.bn254_G2_glv_decomp_det Ark.Gen.bn254_G2_glv_ladder_bound,
   bound_ok_of_checks _ (by decide +kernel) Ark.Gen.bw6_761_G1_glv_decomp_det Ark.Gen.bw6_761_G1_glv_ladder_bound,
   bound_ok_of_checks _ (by decide +kernel) Ark.Gen.bw6_761_G2_glv_decomp_det Ark.Gen.bw6_761_G2_glv_ladder_bound,
   bound_ok_of_checks _ (by decide +kernel) Ark.Gen.pallas_G1_glv_decomp_det Ark.Gen.pallas_G1_glv_ladder_bound,
   bound_ok_of_checks _ (by decide +kernel) Ark.Gen.vesta_G1_glv_decomp_det Ark.Gen.vesta_G1_glv_ladder_bound,
   bound_ok_of_checks _ (by decide +kernel) Ark.Gen.test_bls12_381_G1_glv_decomp_det Ark.Gen.test_bls12_381_G1_glv_ladder_bound⟩

/-- non-vacuity / negative test: a basis with `det N = -r` is rejected by `checkGlvDet` -/
example : Ark.Cfg.checkGlvDet Ark.Props.C16Meaning.toyGlv = false := by decide +kernel

end Ark.C04d
