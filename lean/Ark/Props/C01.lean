import Ark.Props.C01a
import Ark.Props.C01b
import Ark.Props.C01e
/-
  Property C01 — prime-field operations equal integer arithmetic modulo p.
  The theorems live in Ark.Props.C01a (add/sub/neg/double), C01b (Montgomery
  multiplication, both CIOS variants), C01e (configuration constants) …; this module
  collects them so that `lake build Ark.Props.C01` checks them all.
-/
