import Ark.Proofs.FieldOps
import Mathlib.Algebra.Field.Rat
import Mathlib.Tactic.NormNum
/-
  Field-generic algorithms of `ff/src/fields/mod.rs` (`Field::pow`,
  `serial_batch_inversion_and_mul`), modelled in `Ark.Model.FieldOps` over a record of
  operations `Ops F`.  The operations act on concrete representations and are only correct on
  valid ones, so every theorem is relative to an interpretation `I : o.Interp K` (validity
  predicate `I.V`, denotation `I.φ : F → K` into an abstract field `K`).
  Only property theorems live here; helpers are in Ark/Proofs/FieldOps.lean.
-/
namespace Ark.FieldOpsGeneric
open Ark Ark.Ops

variable {F : Type} {o : Ops F} {K : Type} [Field K]

/-! ## 0. a concrete instance for the non-vacuity examples: `ℚ` with the obvious operations -/

/-- the obvious operations on `ℚ` -/
def ratOps : Ops ℚ where
  zero := 0
  one := 1
  add := (· + ·)
  sub := (· - ·)
  mul := (· * ·)
  neg := (- ·)
  square := fun a => a * a
  double := fun a => a + a
  inv := fun a => if a = 0 then none else some a⁻¹
  isZero := fun a => decide (a = 0)

/-- `ratOps` is interpreted in `ℚ` by the identity, every representation being valid -/
def ratInterp : ratOps.Interp ℚ where
  V := fun _ => True
  φ := id
  one_V := trivial
  one_φ := rfl
  mul_V := fun _ _ => trivial
  mul_φ := fun _ _ => rfl
  square_V := fun _ => trivial
  square_φ := fun _ => rfl
  isZero_iff := fun {a} _ => by simp [ratOps]
  inv_some := fun {a} _ h => ⟨a⁻¹, by simp only [id] at h; simp [ratOps, h], trivial, rfl⟩

/-! ## 1. pow -/

/-- the big-endian value used below is the little-endian value of the reversed bit list -/
theorem bits_val_be_exact (bits : List Bool) : bitsValBE bits = bitsToNat bits.reverse :=
  bitsValBE_eq_bitsToNat_reverse bits

example : bitsValBE [false, true, true, false] = 6 := by decide

/-- `Field::pow(a, exp)`: for a valid `a` and any big-endian bit list (leading zeros allowed) the
    result is valid and denotes `φ a ^ (value of the bit list)` -/
theorem pow_correct (I : o.Interp K) {a : F} (ha : I.V a) (bits : List Bool) :
    I.V (o.pow a bits) ∧ I.φ (o.pow a bits) = I.φ a ^ bitsValBE bits :=
  Ops.pow_correct I ha bits

/-- the form the driver uses: the exponent is a well-formed limb list `e` and the bit list is
    `toBitsBE e` (`BitIteratorBE`) -/
theorem pow_limbs_correct (I : o.Interp K) {a : F} (ha : I.V a) (e : List Nat) (he : WF e) :
    I.V (o.pow a (toBitsBE e)) ∧ I.φ (o.pow a (toBitsBE e)) = I.φ a ^ value e :=
  Ops.pow_limbs_correct I ha e he

example : ratOps.pow (2 / 3) [false, false, true, false, true] = 32 / 243 := by
  norm_num [Ops.pow, ratOps]
example : ratOps.pow 0 [false, false] = 1 := by norm_num [Ops.pow, ratOps]
example : ratInterp.φ (ratOps.pow (2 / 3) (toBitsBE [5, 0])) = (2 / 3 : ℚ) ^ 5 := by
  have h := (pow_limbs_correct ratInterp (a := (2 / 3 : ℚ)) trivial [5, 0]
    (by intro l hl; simp at hl; rcases hl with rfl | rfl <;> exact by decide +kernel)).2
  simpa [value, ratInterp] using h

/-! ## 2. serial_batch_inversion_and_mul -/

/-- `serial_batch_inversion_and_mul(v, coeff)` on valid inputs: it returns (the `unwrap` of the
    inverse of the product of the non-zero entries cannot panic), the output has the same length,
    every output entry is valid, zero entries are left untouched and every non-zero entry `x`
    is replaced by a representation of `coeff / x`. -/
theorem batchInvMul_correct (I : o.Interp K) (v : List F) (coeff : F) (hv : ∀ f ∈ v, I.V f)
    (hc : I.V coeff) :
    ∃ w, o.batchInvMul v coeff = some w ∧ w.length = v.length ∧ (∀ x ∈ w, I.V x) ∧
      ∀ (i : Nat) (h1 : i < v.length) (h2 : i < w.length),
        (I.φ v[i] = 0 → w[i] = v[i]) ∧
        (I.φ v[i] ≠ 0 → I.φ w[i] = I.φ coeff * (I.φ v[i])⁻¹) :=
  Ops.batchInvMul_correct I v coeff hv hc

/-- the `unwrap` is unreachable -/
theorem batchInvMul_no_panic (I : o.Interp K) (v : List F) (coeff : F) (hv : ∀ f ∈ v, I.V f)
    (hc : I.V coeff) : o.batchInvMul v coeff ≠ none := by
  obtain ⟨w, hw, _⟩ := Ops.batchInvMul_correct I v coeff hv hc
  rw [hw]; exact Option.some_ne_none w

/-- the running products of the non-zero entries (in particular their total product, which is
    what gets inverted) are valid and non-zero -/
theorem batchInvMul_product_ne_zero (I : o.Interp K) (v : List F) (hv : ∀ f ∈ v, I.V f) :
    I.V ((o.prefixProds v o.one).getLast?.getD o.one) ∧
    I.φ ((o.prefixProds v o.one).getLast?.getD o.one) ≠ 0 :=
  Ops.last_V I v hv o.one I.one_V (by rw [I.one_φ]; exact one_ne_zero)

/-- empty input -/
theorem batchInvMul_nil (I : o.Interp K) (coeff : F) (hc : I.V coeff) :
    o.batchInvMul [] coeff = some [] := by
  obtain ⟨w, hw, hl, _⟩ := Ops.batchInvMul_correct I [] coeff (by simp) hc
  rw [hw, List.length_eq_zero_iff.1 hl]

/-- all-zero input: the vector is returned unchanged -/
theorem batchInvMul_all_zero (I : o.Interp K) (v : List F) (coeff : F) (hv : ∀ f ∈ v, I.V f)
    (hc : I.V coeff) (hz : ∀ f ∈ v, I.φ f = 0) : o.batchInvMul v coeff = some v := by
  obtain ⟨w, hw, hl, _, hi⟩ := Ops.batchInvMul_correct I v coeff hv hc
  rw [hw]
  congr 1
  apply List.ext_getElem hl
  intro i h1 h2
  exact (hi i h2 h1).1 (hz _ (List.getElem_mem h2))

example : ratOps.batchInvMul [2, 0, 4, 0, 1 / 3] 3 = some [3 / 2, 0, 3 / 4, 0, 9] := by
  norm_num [Ops.batchInvMul, Ops.prefixProds, Ops.batchBack, ratOps]
example : ratOps.batchInvMul [] 3 = some [] := batchInvMul_nil ratInterp 3 trivial
example : ratOps.batchInvMul [0, 0] 3 = some [0, 0] :=
  batchInvMul_all_zero ratInterp [0, 0] 3 (fun _ _ => trivial) trivial (by simp [ratInterp])
example : ∃ w, ratOps.batchInvMul [2, 0, 4] 3 = some w ∧ w.length = 3 :=
  let ⟨w, hw, hl, _⟩ := batchInvMul_correct ratInterp [2, 0, 4] 3 (fun _ _ => trivial) trivial
  ⟨w, hw, hl⟩

end Ark.FieldOpsGeneric
