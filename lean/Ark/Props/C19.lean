import Ark.Proofs.EqOrd
/-
  Property C19 — `PartialEq` / `Ord` / `Hash` / `is_zero` / `is_one` as modelled in `Ark.Model.EqOrd`
  (ff/src/biginteger/mod.rs, ff/src/fields/models/{fp/mod.rs, quadratic_extension.rs,
  cubic_extension.rs}, ec/src/models/{short_weierstrass,twisted_edwards}/{group,affine}.rs,
  ec/src/pairing.rs, poly/src/polynomial/univariate/{dense,sparse}.rs) agree with the
  mathematical objects denoted:

    §1 prime-field elements      `std c a = value (into_bigint a)` is the standard residue
    §2 `BigInt<N>`               `value a`
    §3 extension towers, pairing outputs   the list of standard residues of the coefficients
    §4 short-Weierstrass points  `SW.toAff p` / `SW.ofAffine a`  (`none` = the point at infinity)
    §5 twisted-Edwards points    `TE.toAff p` / `TE.ofAffine a`
    §6 polynomials               the coefficient function

  "total order" is `IsTotalOrderOn P cmp eq` (Ark/Proofs/EqOrd.lean): on the carrier `P`,
  `cmp a a = .eq`, `cmp b a = (cmp a b).swap`, `≤` transitive, `cmp a b = .eq ↔ eq a b`.
  `Hash`: equal objects feed equal byte streams / keys to the hasher.
  Derived equality on NON-canonical representations (affine identity with junk coordinates,
  dense vectors with trailing zeros, sparse vectors with zero terms) is finer than equality of the
  denoted objects: witnesses `sw_aff_eq_noncanonical`, `poly_eq_noncanonical`,
  `sparse_eq_noncanonical`.
  Helpers are in Ark/Proofs/EqOrd.lean.
-/
namespace Ark.C19
open Ark Ark.Mont Ark.EqOrd Ark.Curve

local instance fact13 : Fact (Nat.Prime 13) := ⟨prime13⟩

/-- the one-limb field of 13 elements (`R = 2^64 ≡ 3`): the Montgomery limbs `[3], [12], [1], [7]`
    denote `1, 4, 9, 11` -/
local notation "c13" => mkCfg true 1 13
/-- a two-limb field without spare bit -/
local notation "pW" => (2 ^ 128 - 159 : Nat)
local notation "cW" => mkCfg false 2 (2 ^ 128 - 159)

example : CfgOK c13 13 := cfg13
example : CfgOK cW pW := by
  constructor <;> first | decide +kernel | exact toLimbs_wf _ _
example : Elem c13 13 [12] ∧ Elem c13 13 [1] := ⟨elem13 12 (by omega), elem13 1 (by omega)⟩
example : Elem cW pW (toLimbs 2 (2 ^ 128 - 160)) ∧ Elem cW pW (toLimbs 2 12345) := by
  refine ⟨?_, ?_⟩ <;> constructor <;> first | decide +kernel | exact toLimbs_wf _ _
example : std c13 [3] = 1 ∧ std c13 [12] = 4 ∧ std c13 [1] = 9 ∧ std c13 [7] = 11 := by
  decide +kernel

/-! ## 0. what "total order" gives: totality, antisymmetry, transitivity of `<` -/

theorem total_order_consequences {α : Type} {P : α → Prop} {cmp : α → α → Ordering}
    {eq : α → α → Bool} (h : IsTotalOrderOn P cmp eq) (a b d : α) (ha : P a) (hb : P b) (hd : P d) :
    ((cmp a b).isLE = true ∨ (cmp b a).isLE = true) ∧
    ((cmp a b).isLE = true → (cmp b a).isLE = true → eq a b = true) ∧
    (cmp a b = .lt → cmp b d = .lt → cmp a d = .lt) ∧
    (cmp a b = .lt ↔ cmp b a = .gt) :=
  ⟨h.total a b ha hb, h.antisymm a b ha hb, h.lt_trans a b d ha hb hd, by
    rw [h.swap a b ha hb]; cases cmp a b <;> simp⟩

/-- the driver's `natOrd` is `compare` on `Nat` -/
theorem nat_ord_exact (a b : Nat) : Ark.DrvC19.natOrd a b = compare a b := natOrd_eq_compare a b

/-! ## 1. `Fp` (Montgomery limbs) -/

section Fp
variable {c : MontCfg} {pv : Nat}

/-- the standard residue is `(den c pv a).val`, `den` the `ZMod pv` denotation of C01f -/
theorem std_eq_den_val [Fact pv.Prime] (h : CfgOK c pv) {a : List Nat} (ha : Elem c pv a) :
    std c a = (den c pv a).val :=
  EqOrd.std_eq_den_val h ha

/-- `std c a` is the residue `t < p` with `t·R ≡ a (mod p)`, and the only one -/
theorem std_exact (h : CfgOK c pv) {a : List Nat} (ha : Elem c pv a) :
    std c a < pv ∧ (std c a * B ^ c.n) % pv = value a ∧
      ∀ t, t < pv → (t * B ^ c.n) % pv = value a → std c a = t :=
  ⟨std_lt h ha, std_mont h ha, fun _ ht e => std_unique h ha ht e⟩

/-- derived `PartialEq` on the Montgomery limbs is equality of the residues -/
theorem fp_eq_iff_std (h : CfgOK c pv) {a b : List Nat} (ha : Elem c pv a) (hb : Elem c pv b) :
    fpEq a b = true ↔ std c a = std c b :=
  fpEq_iff_std h ha hb

/-- `fpEq` is an equivalence relation (on all limb lists) -/
theorem fp_eq_equivalence :
    (∀ a, fpEq a a = true) ∧ (∀ a b, fpEq a b = true → fpEq b a = true) ∧
    (∀ a b d, fpEq a b = true → fpEq b d = true → fpEq a d = true) := by
  refine ⟨fun a => (fpEq_iff_eq a a).2 rfl, fun a b h => ?_, fun a b d h1 h2 => ?_⟩
  · exact (fpEq_iff_eq b a).2 ((fpEq_iff_eq a b).1 h).symm
  · exact (fpEq_iff_eq a d).2 (((fpEq_iff_eq a b).1 h1).trans ((fpEq_iff_eq b d).1 h2))

example : fpEq [12] [12] = true ∧ fpEq [12] [1] = false := by decide

/-- `Ord for Fp` is the order of the standard residues … -/
theorem fp_cmp_exact (h : CfgOK c pv) {a b : List Nat} (ha : Elem c pv a) (hb : Elem c pv b) :
    fpCmp c a b = compare (std c a) (std c b) :=
  fpCmp_eq_compare h ha hb

theorem fp_cmp_iff (h : CfgOK c pv) {a b : List Nat} (ha : Elem c pv a) (hb : Elem c pv b) :
    (fpCmp c a b = .lt ↔ std c a < std c b) ∧ (fpCmp c a b = .eq ↔ std c a = std c b) ∧
    (fpCmp c a b = .gt ↔ std c b < std c a) := by
  rw [fpCmp_eq_compare h ha hb]
  exact ⟨Nat.compare_eq_lt, Nat.compare_eq_eq, Nat.compare_eq_gt⟩

/-- … hence a total order on the field elements, consistent with `==` -/
theorem fp_cmp_total_order (h : CfgOK c pv) : IsTotalOrderOn (Elem c pv) (fpCmp c) fpEq :=
  fpCmp_total h

theorem fp_cmp_eq_iff_eq (h : CfgOK c pv) {a b : List Nat} (ha : Elem c pv a) (hb : Elem c pv b) :
    fpCmp c a b = .eq ↔ fpEq a b = true :=
  (fpCmp_total h).eq_iff a b ha hb

/-- the order is NOT the order of the Montgomery limbs: `[12]` denotes `4`, `[1]` denotes `9` -/
example : fpCmp c13 [12] [1] = .lt ∧ bigCmp [12] [1] = .gt ∧ fpCmp c13 [1] [12] = .gt ∧
    fpCmp c13 [7] [7] = .eq := by decide +kernel
example : fpCmp cW (toLimbs 2 (2 ^ 128 - 160)) (toLimbs 2 12345) = .lt ∧
    std cW (toLimbs 2 (2 ^ 128 - 160)) < std cW (toLimbs 2 12345) := by decide +kernel

/-- equal elements feed the same byte stream to the hasher … -/
theorem fp_hash_of_eq {a b : List Nat} (h : fpEq a b = true) : fpHashKey a = fpHashKey b := by
  rw [(fpEq_iff_eq a b).1 h]

/-- … and well-formed limb lists with the same stream are equal (no length hypothesis is needed:
    the stream starts with the length prefix, and determines the length anyway) -/
theorem fp_hash_inj {a b : List Nat} (ha : WF a) (hb : WF b) (h : fpHashKey a = fpHashKey b) :
    fpEq a b = true :=
  (fpEq_iff_eq a b).2 (bigHashKey_inj ha hb h)

theorem fp_hash_iff (h : CfgOK c pv) {a b : List Nat} (ha : Elem c pv a) (hb : Elem c pv b) :
    fpHashKey a = fpHashKey b ↔ std c a = std c b :=
  ⟨fun e => (fpEq_iff_std h ha hb).1 (fp_hash_inj ha.wf hb.wf e),
    fun e => fp_hash_of_eq ((fpEq_iff_std h ha hb).2 e)⟩

example : fpHashKey [12] = [1, 0, 0, 0, 0, 0, 0, 0, 12, 0, 0, 0, 0, 0, 0, 0] := by decide +kernel
example : WF [12] ∧ WF [1] := by unfold WF; decide +kernel

/-- `is_zero` / `is_one` -/
theorem fp_is_zero_one (h : CfgOK c pv) {a : List Nat} (ha : Elem c pv a) :
    (fpIsZero c a = true ↔ std c a = 0) ∧ (fpIsOne c a = true ↔ std c a = 1 % pv) :=
  ⟨fpIsZero_iff h ha, fpIsOne_iff h ha⟩

example : fpIsZero c13 [0] = true ∧ fpIsZero c13 [3] = false ∧ fpIsOne c13 [3] = true ∧
    fpIsOne c13 [1] = false ∧ std c13 [0] = 0 ∧ std c13 [3] = 1 % 13 := by decide +kernel
example : Elem c13 13 [0] ∧ Elem c13 13 [3] := ⟨elem13 0 (by omega), elem13 3 (by omega)⟩

end Fp

/-! ## 2. `BigInt<N>` -/

/-- hand-written `Ord`: the order of the denoted integers -/
theorem big_cmp_exact {a b : List Nat} (hl : a.length = b.length) (ha : WF a) (hb : WF b) :
    bigCmp a b = compare (value a) (value b) :=
  C15.cmp_exact a b hl ha hb

theorem big_eq_iff_value {a b : List Nat} (hl : a.length = b.length) (ha : WF a) (hb : WF b) :
    bigEq a b = true ↔ value a = value b :=
  bigEq_iff_value hl ha hb

theorem big_cmp_total_order (n : Nat) :
    IsTotalOrderOn (fun a => a.length = n ∧ WF a) bigCmp bigEq :=
  bigCmp_total n

theorem big_hash_of_eq {a b : List Nat} (h : bigEq a b = true) : bigHashKey a = bigHashKey b := by
  rw [(bigEq_iff_eq a b).1 h]

theorem big_hash_inj {a b : List Nat} (ha : WF a) (hb : WF b) (h : bigHashKey a = bigHashKey b) :
    bigEq a b = true :=
  (bigEq_iff_eq a b).2 (bigHashKey_inj ha hb h)

theorem big_is_zero (a : List Nat) : bigIsZero a = true ↔ value a = 0 := isZero_iff a

example : bigCmp [5, 1] [7, 0] = .gt ∧ bigEq [5, 1] [5, 1] = true ∧ bigEq [5, 1] [7, 0] = false ∧
    bigIsZero [0, 0] = true ∧ bigIsZero [0, 1] = false := by decide +kernel
example : WF [5, 1] ∧ WF [7, 0] ∧ [5, 1].length = [7, 0].length := by unfold WF; decide +kernel
/-- the length takes part in `Hash` (slices), so `[5]` and `[5, 0]` hash differently -/
example : bigHashKey [5] ≠ bigHashKey [5, 0] := by decide +kernel

/-! ## 3. extension towers and pairing outputs

  `Ext.skel a` is the shape of `a` (leaves erased), `Ext.Leaves P a` says that every base-prime-field
  coefficient satisfies `P`, `Ext.flat a` lists the coefficients, lowest first. -/

section Tower
variable {c : MontCfg} {pv : Nat}

theorem ext_leaves_iff (P : List Nat → Prop) (a : Ext) : a.Leaves P ↔ ∀ x ∈ a.flat, P x :=
  Ext.leaves_iff P a

/-- derived `PartialEq`: equality of the coefficient vectors of standard residues -/
theorem ext_eq_iff_std (h : CfgOK c pv) {a b : Ext} (hs : a.skel = b.skel)
    (ha : a.Leaves (Elem c pv)) (hb : b.Leaves (Elem c pv)) :
    a.eq b = true ↔ a.flat.map (std c) = b.flat.map (std c) :=
  Ext.eq_iff_std h hs ha hb

/-- it is structural equality, hence an equivalence relation -/
theorem ext_eq_iff_eq (a b : Ext) : a.eq b = true ↔ a = b := Ext.eq_iff_eq a b

theorem ext_eq_equivalence :
    (∀ a : Ext, a.eq a = true) ∧ (∀ a b : Ext, a.eq b = true → b.eq a = true) ∧
    (∀ a b d : Ext, a.eq b = true → b.eq d = true → a.eq d = true) := by
  refine ⟨fun a => (Ext.eq_iff_eq a a).2 rfl, fun a b h => ?_, fun a b d h1 h2 => ?_⟩
  · exact (Ext.eq_iff_eq b a).2 ((Ext.eq_iff_eq a b).1 h).symm
  · exact (Ext.eq_iff_eq a d).2 (((Ext.eq_iff_eq a b).1 h1).trans ((Ext.eq_iff_eq b d).1 h2))

/-- `Ord`: lexicographic, the LAST (highest) coefficient most significant -/
theorem ext_cmp_exact (h : CfgOK c pv) {a b : Ext} (hs : a.skel = b.skel)
    (ha : a.Leaves (Elem c pv)) (hb : b.Leaves (Elem c pv)) :
    Ext.cmp c a b = lexHigh (a.flat.map (std c)) (b.flat.map (std c)) :=
  Ext.cmp_eq_lexHigh h hs ha hb

/-- `lexHigh` is the driver's specification function, and on lists of equal length it is the
    lexicographic `compare` of the reversed lists -/
theorem lexHigh_exact (a b : List Nat) :
    lexHigh a b = Ark.DrvC19.lexHigh a b ∧
      (a.length = b.length → lexHigh a b = compare a.reverse b.reverse) :=
  ⟨lexHigh_eq_drv a b, lexHigh_eq_compare a b⟩

example : lexHigh [4, 9] [9, 4] = .gt ∧ lexHigh [9, 4] [4, 9] = .lt ∧ lexHigh [1, 2, 3] [0, 2, 3] = .gt ∧
    lexHigh [7, 7] [7, 7] = .eq := by decide

theorem ext_cmp_total_order (h : CfgOK c pv) (s : Ext) :
    IsTotalOrderOn (fun a => a.skel = s ∧ a.Leaves (Elem c pv)) (Ext.cmp c) Ext.eq :=
  Ext.cmp_total h s

theorem ext_cmp_eq_iff_eq (h : CfgOK c pv) {a b : Ext} (hs : a.skel = b.skel)
    (ha : a.Leaves (Elem c pv)) (hb : b.Leaves (Elem c pv)) :
    Ext.cmp c a b = .eq ↔ a.eq b = true :=
  (Ext.cmp_total h b.skel).eq_iff a b ⟨hs, ha⟩ ⟨rfl, hb⟩

theorem ext_hash_of_eq {a b : Ext} (h : a.eq b = true) : a.hashKey = b.hashKey := by
  rw [(Ext.eq_iff_eq a b).1 h]

/-- `is_zero`: all coefficients are `0`;  `is_one`: the coefficients are `[1, 0, …, 0]` -/
theorem ext_is_zero (h : CfgOK c pv) {a : Ext} (ha : a.Leaves (Elem c pv)) :
    a.isZero c = true ↔ ∀ x ∈ a.flat.map (std c), x = 0 :=
  Ext.isZero_iff h ha

theorem ext_is_one (h : CfgOK c pv) {a : Ext} (ha : a.Leaves (Elem c pv)) :
    a.isOne c = true ↔ a.flat.map (std c) = (1 % pv) :: List.replicate (a.flat.length - 1) 0 :=
  Ext.isOne_iff h ha

/-- `Fp2` over `F_13`: `a = 4 + 9u`, `b = 9 + 4u`; `c1` decides, so `a > b` -/
example :
    let a : Ext := .quad (.fp [12]) (.fp [1])
    let b : Ext := .quad (.fp [1]) (.fp [12])
    a.skel = b.skel ∧ a.flat.map (std c13) = [4, 9] ∧ b.flat.map (std c13) = [9, 4] ∧
      Ext.cmp c13 a b = .gt ∧ Ext.cmp c13 b a = .lt ∧ a.eq b = false ∧ a.eq a = true := by
  decide +kernel
example : (Ext.quad (.fp [12]) (.fp [1])).Leaves (Elem c13 13) :=
  ⟨elem13 12 (by omega), elem13 1 (by omega)⟩
/-- a `3 over 2` tower (six coefficients): `c2.c1` is the most significant coefficient -/
example :
    let a : Ext := .cubic (.quad (.fp [7]) (.fp [7])) (.quad (.fp [7]) (.fp [7])) (.quad (.fp [7]) (.fp [12]))
    let b : Ext := .cubic (.quad (.fp [0]) (.fp [0])) (.quad (.fp [0]) (.fp [0])) (.quad (.fp [0]) (.fp [1]))
    a.skel = b.skel ∧ Ext.cmp c13 a b = .lt ∧
      lexHigh (a.flat.map (std c13)) (b.flat.map (std c13)) = .lt := by decide +kernel
example :
    let o : Ext := .cubic (.quad (.fp [3]) (.fp [0])) (.quad (.fp [0]) (.fp [0])) (.quad (.fp [0]) (.fp [0]))
    o.isOne c13 = true ∧ o.isZero c13 = false ∧ o.flat.map (std c13) = [1, 0, 0, 0, 0, 0] ∧
      (Ext.zeroLike c13 o).isZero c13 = true := by decide +kernel

/-- `is_zero` / `is_one` are comparisons with the zero / one of the tower:
    `zeroLike c a`, `oneLike c a` have the shape of `a` and coefficients `[0,…,0]`, `[R,0,…,0]` -/
theorem ext_is_zero_one_eq (c : MontCfg) (a : Ext) :
    a.isZero c = a.eq (Ext.zeroLike c a) ∧ a.isOne c = a.eq (Ext.oneLike c a) ∧
    (Ext.zeroLike c a).skel = a.skel ∧
    (Ext.zeroLike c a).flat = List.replicate a.flat.length (zeros c.n) ∧
    (Ext.oneLike c a).skel = a.skel ∧
    (Ext.oneLike c a).flat = c.r :: List.replicate (a.flat.length - 1) (zeros c.n) :=
  ⟨Ext.isZero_eq c a, Ext.isOne_eq c a, (Ext.zeroLike_spec c a).1, (Ext.zeroLike_spec c a).2,
    (Ext.oneLike_spec c a).1, (Ext.oneLike_spec c a).2⟩

/-- `PairingOutput`: everything is the target field's -/
theorem pairing_exact (c : MontCfg) (a b : Ext) :
    pairingEq a b = a.eq b ∧ pairingCmp c a b = Ext.cmp c a b ∧ pairingHashKey a = a.hashKey :=
  ⟨rfl, rfl, rfl⟩

/-- `PairingOutput::is_zero` (the group is written additively) is `== zero()`, where
    `zero() = PairingOutput(TargetField::one())` is ANY element `one` of the shape of `a` whose
    coefficients are `[R, 0, …, 0]` -/
theorem pairing_is_zero (c : MontCfg) (a one : Ext) (hs : one.skel = a.skel)
    (hf : one.flat = c.r :: List.replicate (a.flat.length - 1) (zeros c.n)) :
    pairingIsZero c a = pairingEq a one := by
  have : one = Ext.oneLike c a :=
    Ext.eq_of_flat (by rw [hs, (Ext.oneLike_spec c a).1]) (by rw [hf, (Ext.oneLike_spec c a).2])
  rw [this]; exact Ext.isOne_eq c a

theorem pairing_is_zero_iff (h : CfgOK c pv) {a : Ext} (ha : a.Leaves (Elem c pv)) :
    pairingIsZero c a = true ↔
      a.flat.map (std c) = (1 % pv) :: List.replicate (a.flat.length - 1) 0 :=
  Ext.isOne_iff h ha

example :
    let a : Ext := .quad (.fp [3]) (.fp [0])
    let one : Ext := .quad (.fp (mkCfg true 1 13).r) (.fp (zeros 1))
    one.skel = a.skel ∧
      one.flat = (mkCfg true 1 13).r :: List.replicate (a.flat.length - 1) (zeros (mkCfg true 1 13).n) ∧
      pairingIsZero c13 a = true ∧ pairingIsZero c13 (.quad (.fp [3]) (.fp [3])) = false := by
  decide +kernel

end Tower

/-! ## 4. short-Weierstrass points -/

section SWPoints
variable {F : Type} [Field F] [DecidableEq F]

/-- `PartialEq for Projective`: equality of the denoted affine points (any triples) -/
theorem sw_eq_iff (p q : SW.Jac F) : swEq p q = true ↔ SW.toAff p = SW.toAff q := swEq_iff p q

/-- independence of the representative -/
theorem sw_eq_rescale (x y z l : F) (hl : l ≠ 0) (q : SW.Jac F) :
    swEq ⟨x * (l * l), y * (l * l * l), z * l⟩ q = swEq ⟨x, y, z⟩ q ∧
    swEq q ⟨x * (l * l), y * (l * l * l), z * l⟩ = swEq q ⟨x, y, z⟩ := by
  simp only [swEq_eq_decide, C03.sw_toAff_rescale x y z l hl, and_self]

theorem sw_eq_equivalence :
    (∀ p : SW.Jac F, swEq p p = true) ∧ (∀ p q : SW.Jac F, swEq p q = true → swEq q p = true) ∧
    (∀ p q r : SW.Jac F, swEq p q = true → swEq q r = true → swEq p r = true) := by
  refine ⟨fun p => (swEq_iff p p).2 rfl, fun p q h => ?_, fun p q r h1 h2 => ?_⟩
  · exact (swEq_iff q p).2 ((swEq_iff p q).1 h).symm
  · exact (swEq_iff p r).2 (((swEq_iff p q).1 h1).trans ((swEq_iff q r).1 h2))

/-- `Hash for Projective` never panics: it hashes the canonical affine value of the point -/
theorem sw_hash_total (p : SW.Jac F) :
    ∃ r, SW.toAffine p = .ok r ∧ swHashKey p = .ok (swAffHashKey r) ∧ SWCanon r ∧
      SW.ofAffine r = SW.toAff p :=
  swHashKey_spec p

/-- equal points (possibly with different coordinates) hash equally — and only those -/
theorem sw_hash_of_eq {p q : SW.Jac F} (h : swEq p q = true) : swHashKey p = swHashKey q :=
  swHashKey_congr ((swEq_iff p q).1 h)

theorem sw_hash_iff (p q : SW.Jac F) : swHashKey p = swHashKey q ↔ swEq p q = true :=
  ⟨fun e => (swEq_iff p q).2 (swHashKey_inj e), sw_hash_of_eq⟩

/-- `is_zero` -/
theorem sw_is_zero (p : SW.Jac F) :
    (swIsZero p = true ↔ SW.toAff p = none) ∧ (swIsZero p = true ↔ swEq p SW.Jac.zero = true) := by
  refine ⟨C03.sw_isZero_iff p, ?_⟩
  rw [swEq_iff, SW.toAff_zero]; exact C03.sw_isZero_iff p

/-- mixed comparisons -/
theorem sw_mixed_eq (a : SW.Affine F) (p : SW.Jac F) :
    swAffEqProj a p = decide (SW.ofAffine a = SW.toAff p) ∧
    swProjEqAff p a = decide (SW.ofAffine a = SW.toAff p) := by
  constructor
  · rw [Bool.eq_iff_iff, swAffEqProj_iff]; simp
  · rw [Bool.eq_iff_iff, swProjEqAff_iff]; simp

/-- `y² = x³ + 6` over `F_13`: `(2·9, 1·27, 3)` and `(2·4, 1·8, 2)` both denote `(2, 1)` -/
example :
    let p : SW.Jac (ZMod 13) := ⟨2 * 9, 1 * 27, 3⟩
    let q : SW.Jac (ZMod 13) := ⟨2 * 4, 1 * 8, 2⟩
    p ≠ q ∧ swEq p q = true ∧ swHashKey p = .ok (2, 1, false) ∧ swHashKey q = .ok (2, 1, false) ∧
      swEq p ⟨2 * 4, 12 * 8, 2⟩ = false ∧ swHashKey (⟨2 * 4, 12 * 8, 2⟩ : SW.Jac (ZMod 13)) = .ok (2, 12, false) ∧
      swIsZero p = false ∧ swAffEqProj ⟨2, 1, false⟩ p = true ∧ swProjEqAff q ⟨2, 1, false⟩ = true ∧
      swAffEqProj ⟨2, 1, true⟩ p = false := by decide +kernel
example :
    let o : SW.Jac (ZMod 13) := ⟨4, 5, 0⟩
    swIsZero o = true ∧ swEq o SW.Jac.zero = true ∧ o ≠ SW.Jac.zero ∧ swHashKey o = .ok (0, 0, true) ∧
      swHashKey (SW.Jac.zero : SW.Jac (ZMod 13)) = .ok (0, 0, true) ∧
      swAffEqProj ⟨7, 7, true⟩ o = true := by decide +kernel
example : ((3 : ZMod 13)) ≠ 0 := by decide

/-! ### affine values: derived `PartialEq` / `Hash` on `(x, y, infinity)` -/

/-- derived equality implies equality of the denoted points … -/
theorem sw_aff_eq_sound {a b : SW.Affine F} (h : swAffEq a b = true) :
    SW.ofAffine a = SW.ofAffine b := by
  rw [(swAffEq_iff_eq a b).1 h]

/-- … and is equivalent to it on canonical values (`SWCanon a`: `infinity → x = 0 ∧ y = 0`) -/
theorem sw_aff_eq_iff {a b : SW.Affine F} (ha : SWCanon a) (hb : SWCanon b) :
    swAffEq a b = true ↔ SW.ofAffine a = SW.ofAffine b :=
  ⟨sw_aff_eq_sound, fun e => (swAffEq_iff_eq a b).2 (ofAffine_inj_of_canon ha hb e)⟩

/-- outside `SWCanon` it fails, in every field: `(2, 3, infinity)` and `identity()` both denote
    the point at infinity but compare (and hash) differently -/
theorem sw_aff_eq_noncanonical :
    swAffEq (⟨2, 3, true⟩ : SW.Affine F) SW.Affine.identity = false ∧
    SW.ofAffine (⟨2, 3, true⟩ : SW.Affine F) = none ∧
    SW.ofAffine (SW.Affine.identity : SW.Affine F) = none ∧
    swAffHashKey (⟨2, 3, true⟩ : SW.Affine F) ≠ swAffHashKey SW.Affine.identity ∧
    swAffIsZero (⟨2, 3, true⟩ : SW.Affine F) = true := by
  refine ⟨?_, rfl, rfl, ?_, rfl⟩
  · rw [Bool.eq_false_iff, Ne, swAffEq_iff_eq]
    intro e
    have := congrArg SW.Affine.x e
    have := congrArg SW.Affine.y e
    exact two_three_ne_zero (F := F) ⟨by assumption, by assumption⟩
  · intro e
    simp only [swAffHashKey, SW.Affine.identity, Prod.mk.injEq] at e
    exact two_three_ne_zero (F := F) ⟨e.1, e.2.1⟩

example : swAffEq (⟨2, 3, true⟩ : SW.Affine (ZMod 13)) SW.Affine.identity = false := by decide

/-- derived `Hash` is consistent with derived `PartialEq` (always), hence with equality of points on
    canonical values -/
theorem sw_aff_hash_iff (a b : SW.Affine F) :
    swAffEq a b = true ↔ swAffHashKey a = swAffHashKey b :=
  ⟨fun h => by rw [(swAffEq_iff_eq a b).1 h], fun e => (swAffEq_iff_eq a b).2 (swAffHashKey_inj e)⟩

theorem sw_aff_hash_iff_point {a b : SW.Affine F} (ha : SWCanon a) (hb : SWCanon b) :
    swAffHashKey a = swAffHashKey b ↔ SW.ofAffine a = SW.ofAffine b := by
  rw [← sw_aff_hash_iff, sw_aff_eq_iff ha hb]

/-- `AffineRepr::is_zero` reads the flag only; `== identity()` agrees with it on canonical values -/
theorem sw_aff_is_zero (a : SW.Affine F) :
    (swAffIsZero a = true ↔ SW.ofAffine a = none) ∧
    (SWCanon a → (swAffEq a SW.Affine.identity = true ↔ SW.ofAffine a = none)) :=
  ⟨swAffIsZero_iff a, fun ha => sw_aff_eq_iff ha identity_canon⟩

example : SWCanon (⟨2, 1, false⟩ : SW.Affine (ZMod 13)) ∧ SWCanon (SW.Affine.identity : SW.Affine (ZMod 13)) ∧
    ¬ SWCanon (⟨2, 3, true⟩ : SW.Affine (ZMod 13)) := by
  unfold SWCanon; decide
example : swAffEq (⟨2, 1, false⟩ : SW.Affine (ZMod 13)) ⟨2, 1, false⟩ = true ∧
    swAffEq (⟨2, 1, false⟩ : SW.Affine (ZMod 13)) ⟨2, 12, false⟩ = false ∧
    swAffHashKey (⟨2, 1, false⟩ : SW.Affine (ZMod 13)) = (2, 1, false) := by decide

end SWPoints

/-! ## 5. twisted-Edwards points (extended coordinates; `TE.wellFormed p`: `Z ≠ 0 ∧ T·Z = X·Y`) -/

section TEPoints
variable {F : Type} [Field F] [DecidableEq F]

theorem te_eq_iff (p q : TE.Ext F) (hp : TE.wellFormed p = true) (hq : TE.wellFormed q = true) :
    teEq p q = true ↔ TE.toAff p = TE.toAff q :=
  teEq_iff p q hp hq

/-- independence of the representative -/
theorem te_eq_rescale (p q : TE.Ext F) (l : F) (hl : l ≠ 0) (hp : TE.wellFormed p = true)
    (hq : TE.wellFormed q = true) :
    teEq ⟨p.x * l, p.y * l, p.t * l, p.z * l⟩ q = teEq p q ∧
    teEq q ⟨p.x * l, p.y * l, p.t * l, p.z * l⟩ = teEq q p := by
  obtain ⟨w, e⟩ := C03.te_rescale p l hl hp
  constructor
  · rw [Bool.eq_iff_iff, teEq_iff _ _ w hq, teEq_iff _ _ hp hq, e]
  · rw [Bool.eq_iff_iff, teEq_iff _ _ hq w, teEq_iff _ _ hq hp, e]

/-- on well-formed points `teEq` is an equivalence relation -/
theorem te_eq_equivalence :
    (∀ p : TE.Ext F, TE.wellFormed p = true → teEq p p = true) ∧
    (∀ p q : TE.Ext F, TE.wellFormed p = true → TE.wellFormed q = true →
      teEq p q = true → teEq q p = true) ∧
    (∀ p q r : TE.Ext F, TE.wellFormed p = true → TE.wellFormed q = true →
      TE.wellFormed r = true → teEq p q = true → teEq q r = true → teEq p r = true) := by
  refine ⟨fun p hp => (teEq_iff p p hp hp).2 rfl, fun p q hp hq h => ?_, fun p q r hp hq hr h1 h2 => ?_⟩
  · exact (teEq_iff q p hq hp).2 ((teEq_iff p q hp hq).1 h).symm
  · exact (teEq_iff p r hp hr).2 (((teEq_iff p q hp hq).1 h1).trans ((teEq_iff q r hq hr).1 h2))

/-- `Hash for Projective` does not panic on well-formed points and hashes the denoted point -/
theorem te_hash_total (p : TE.Ext F) (hp : TE.wellFormed p = true) :
    ∃ k, teHashKey p = .ok k ∧ some k = TE.toAff p :=
  teHashKey_spec p hp

theorem te_hash_of_eq {p q : TE.Ext F} (hp : TE.wellFormed p = true) (hq : TE.wellFormed q = true)
    (h : teEq p q = true) : teHashKey p = teHashKey q :=
  teHashKey_congr hp hq ((teEq_iff p q hp hq).1 h)

theorem te_hash_iff {p q : TE.Ext F} (hp : TE.wellFormed p = true) (hq : TE.wellFormed q = true) :
    teHashKey p = teHashKey q ↔ teEq p q = true :=
  ⟨fun e => (teEq_iff p q hp hq).2 (teHashKey_inj hp hq e), te_hash_of_eq hp hq⟩

theorem te_is_zero (p : TE.Ext F) (hp : TE.wellFormed p = true) :
    (teIsZero p = true ↔ TE.toAff p = some ((0 : F), (1 : F))) ∧
    (teIsZero p = true ↔ teEq p TE.Ext.zero = true) := by
  refine ⟨C03.te_isZero p hp, ?_⟩
  rw [teEq_iff p _ hp C03.te_zero.1, C03.te_zero.2]; exact C03.te_isZero p hp

/-- affine values: derived equality and hash on `(x, y)` are equality of points -/
theorem te_aff_eq_iff (a b : TE.Affine F) :
    (teAffEq a b = true ↔ a = b) ∧ (teAffEq a b = true ↔ TE.ofAffine a = TE.ofAffine b) ∧
    (teAffEq a b = true ↔ teAffHashKey a = teAffHashKey b) := by
  refine ⟨teAffEq_iff_eq a b, ?_, ?_⟩ <;>
  · rw [teAffEq_iff_eq]; cases a; cases b; simp [TE.ofAffine, teAffHashKey]

theorem te_aff_is_zero (a : TE.Affine F) :
    (teAffIsZero a = true ↔ TE.ofAffine a = ((0 : F), (1 : F))) ∧
    (teAffIsZero a = true ↔ teAffEq a TE.Affine.zero = true) := by
  refine ⟨teAffIsZero_iff a, ?_⟩
  rw [teAffIsZero_iff, teAffEq_iff_eq]; cases a; simp [TE.ofAffine, TE.Affine.zero]

/-- mixed comparisons -/
theorem te_mixed_eq (a : TE.Affine F) (p : TE.Ext F) (hp : TE.wellFormed p = true) :
    teAffEqProj a p = decide (some (TE.ofAffine a) = TE.toAff p) ∧
    teProjEqAff p a = decide (some (TE.ofAffine a) = TE.toAff p) := by
  constructor
  · rw [Bool.eq_iff_iff, teAffEqProj_iff a p hp]; simp
  · rw [Bool.eq_iff_iff, teProjEqAff_iff p a hp]; simp

/-- `x² + y² = 1 + 7x²y²` over `F_13`: `(6,12,11,3)` and `(10,7,1,5)` both denote `(2, 4)` -/
example :
    let p : TE.Ext (ZMod 13) := ⟨6, 12, 11, 3⟩
    let q : TE.Ext (ZMod 13) := ⟨10, 7, 1, 5⟩
    TE.wellFormed p = true ∧ TE.wellFormed q = true ∧ p ≠ q ∧ teEq p q = true ∧
      teHashKey p = .ok (2, 4) ∧ teHashKey q = .ok (2, 4) ∧ teIsZero p = false ∧
      teEq p ⟨0, 5, 0, 5⟩ = false ∧ teAffEqProj ⟨2, 4⟩ p = true ∧ teProjEqAff q ⟨2, 4⟩ = true ∧
      teProjEqAff q ⟨2, 9⟩ = false := by decide +kernel
example :
    let o : TE.Ext (ZMod 13) := ⟨0, 5, 0, 5⟩
    TE.wellFormed o = true ∧ teIsZero o = true ∧ teEq o TE.Ext.zero = true ∧ o ≠ TE.Ext.zero ∧
      teHashKey o = .ok (0, 1) ∧ teAffIsZero (⟨0, 1⟩ : TE.Affine (ZMod 13)) = true ∧
      teAffEq (⟨2, 4⟩ : TE.Affine (ZMod 13)) ⟨2, 4⟩ = true ∧
      teAffEq (⟨2, 4⟩ : TE.Affine (ZMod 13)) ⟨2, 9⟩ = false := by decide +kernel
/-- well-formedness is needed: `Z = 0` panics in `Hash`; `(0, 5, 1, 5)` denotes `(0, 1)` but is not
    `is_zero`, yet `==` to a well-formed representation of `(0, 1)` holds neither -/
example : teHashKey (⟨6, 12, 11, 0⟩ : TE.Ext (ZMod 13)) = .panic ∧
    TE.toAff (⟨0, 5, 1, 5⟩ : TE.Ext (ZMod 13)) = some (0, 1) ∧
    teEq (⟨0, 5, 1, 5⟩ : TE.Ext (ZMod 13)) TE.Ext.zero = false := by decide +kernel

end TEPoints

/-! ## 6. polynomials: derived `PartialEq` / `Hash` on the stored vectors -/

section Polys
variable {F : Type} [DecidableEq F]

/-- dense: `PolyCanon a` (empty, or non-zero leading coefficient; `polyCanon_iff`) -/
theorem poly_canon_iff [Zero F] (a : List F) :
    PolyCanon a ↔ a = [] ∨ ∃ h : a ≠ [], a.getLast h ≠ 0 := polyCanon_iff a

/-- on canonical vectors derived equality is equality of polynomials -/
theorem poly_eq_iff [Zero F] {a b : List F} (ha : PolyCanon a) (hb : PolyCanon b) :
    polyEq a b = true ↔ ∀ i, polyCoeff a i = polyCoeff b i :=
  ⟨fun h i => by rw [(polyEq_iff_eq a b).1 h],
    fun h => (polyEq_iff_eq a b).2 (polyCanon_ext ha hb h)⟩

/-- in general it only implies it -/
theorem poly_eq_sound [Zero F] {a b : List F} (h : polyEq a b = true) (i : Nat) :
    polyCoeff a i = polyCoeff b i := by rw [(polyEq_iff_eq a b).1 h]

theorem poly_hash_of_eq (enc : F → List Nat) {a b : List F} (h : polyEq a b = true) :
    polyHashKey enc a = polyHashKey enc b := by rw [(polyEq_iff_eq a b).1 h]

/-- `is_zero` says "all coefficients are zero" (always); `== zero()` agrees on canonical vectors -/
theorem poly_is_zero [Zero F] {isZ : F → Bool} (hz : ∀ x, isZ x = true ↔ x = 0) (a : List F) :
    (polyIsZero isZ a = true ↔ ∀ i, polyCoeff a i = 0) ∧
    (PolyCanon a → (polyIsZero isZ a = true ↔ polyEq a [] = true)) :=
  ⟨polyIsZero_iff_coeff hz a, fun ha => by rw [polyIsZero_iff_nil hz ha, polyEq_iff_eq]⟩

/-- outside `PolyCanon`: `[0]` is the zero polynomial, `is_zero` says so, `== zero()` does not -/
theorem poly_eq_noncanonical :
    polyEq [(0 : ZMod 13)] [] = false ∧ polyIsZero (· == 0) [(0 : ZMod 13)] = true ∧
    (∀ i, polyCoeff [(0 : ZMod 13)] i = polyCoeff [] i) ∧
    polyEq [(1 : ZMod 13), 2, 0] [1, 2] = false ∧
    (∀ i, polyCoeff [(1 : ZMod 13), 2, 0] i = polyCoeff [1, 2] i) ∧
    polyHashKey (fun x : ZMod 13 => [x.val]) [(1 : ZMod 13), 2, 0] ≠ polyHashKey (fun x : ZMod 13 => [x.val]) [1, 2] := by
  refine ⟨by decide, by decide, ?_, by decide, ?_, by decide +kernel⟩
  · intro i; rcases i with _ | i <;> simp [polyCoeff]
  · intro i; rcases i with _ | _ | _ | i <;> simp [polyCoeff]

example : PolyCanon [(1 : ZMod 13), 2] ∧ PolyCanon ([] : List (ZMod 13)) ∧
    ¬ PolyCanon [(1 : ZMod 13), 2, 0] := by
  refine ⟨fun _ => ?_, fun h => absurd rfl h, fun h => h (by simp) (by decide)⟩
  simp only [List.getLast_cons_cons, List.getLast_singleton]; decide
example : polyEq [(1 : ZMod 13), 2] [1, 2] = true ∧ polyEq [(1 : ZMod 13), 2] [1, 3] = false := by
  decide
example : ∀ x : ZMod 13, (x == 0) = true ↔ x = 0 := by simp

/-- sparse: `SparseCanon a` = strictly increasing degrees and no zero coefficient;
    `sparseCoeff a i` adds up the terms of degree `i` -/
theorem sparse_eq_iff [AddMonoid F] {a b : List (Nat × F)} (ha : SparseCanon a)
    (hb : SparseCanon b) :
    sparseEq a b = true ↔ ∀ i, sparseCoeff a i = sparseCoeff b i :=
  ⟨fun h i => by rw [(sparseEq_iff_eq a b).1 h],
    fun h => (sparseEq_iff_eq a b).2 (sparseCanon_ext ha hb h)⟩

theorem sparse_eq_sound [AddMonoid F] {a b : List (Nat × F)} (h : sparseEq a b = true) (i : Nat) :
    sparseCoeff a i = sparseCoeff b i := by rw [(sparseEq_iff_eq a b).1 h]

theorem sparse_hash_of_eq (enc : F → List Nat) {a b : List (Nat × F)} (h : sparseEq a b = true) :
    sparseHashKey enc a = sparseHashKey enc b := by rw [(sparseEq_iff_eq a b).1 h]

theorem sparse_is_zero [Zero F] {isZ : F → Bool} (hz : ∀ x, isZ x = true ↔ x = 0)
    {a : List (Nat × F)} (ha : SparseCanon a) :
    sparseIsZero isZ a = true ↔ sparseEq a [] = true := by
  rw [sparseIsZero_iff_nil hz ha, sparseEq_iff_eq]

/-- outside `SparseCanon` (a zero term; unsorted terms): same polynomial, different vectors -/
theorem sparse_eq_noncanonical :
    sparseEq [(0, (1 : ZMod 13)), (1, 0), (2, 2)] [(0, 1), (2, 2)] = false ∧
    (∀ i, sparseCoeff [(0, (1 : ZMod 13)), (1, 0), (2, 2)] i = sparseCoeff [(0, 1), (2, 2)] i) ∧
    sparseEq [(2, (2 : ZMod 13)), (0, 1)] [(0, 1), (2, 2)] = false ∧
    (∀ i, sparseCoeff [(2, (2 : ZMod 13)), (0, 1)] i = sparseCoeff [(0, 1), (2, 2)] i) ∧
    sparseIsZero (· == 0) [(1, (0 : ZMod 13))] = true ∧ sparseEq [(1, (0 : ZMod 13))] [] = false := by
  refine ⟨by decide, ?_, by decide, ?_, by decide, by decide⟩
  · intro i; rcases i with _ | _ | _ | i <;> simp [sparseCoeff]
  · intro i; rcases i with _ | _ | _ | i <;> simp [sparseCoeff]

example : SparseCanon [(0, (1 : ZMod 13)), (2, 2)] ∧ ¬ SparseCanon [(0, (1 : ZMod 13)), (1, 0), (2, 2)] ∧
    ¬ SparseCanon [(2, (2 : ZMod 13)), (0, 1)] := by
  unfold SparseCanon
  refine ⟨⟨by simp, by decide⟩, fun h => h.2 (1, 0) (by simp) rfl, fun h => ?_⟩
  have := h.1
  simp at this
example : sparseEq [(0, (1 : ZMod 13)), (2, 2)] [(0, 1), (2, 2)] = true ∧
    sparseEq [(0, (1 : ZMod 13)), (2, 2)] [(0, 1), (3, 2)] = false := by decide

end Polys

end Ark.C19
