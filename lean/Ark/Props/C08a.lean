import Ark.Proofs.PolyA
import Mathlib.Data.ZMod.Basic
import Mathlib.Algebra.Field.ZMod
/-
  Property C08 (part a): the DENSE univariate polynomial operators of `ark-poly`
  (`poly/src/polynomial/univariate/dense.rs`, the dense/dense case of
  `DenseOrSparsePolynomial::divide_with_q_and_r` in `univariate/mod.rs`).
  The model is `Ark.Model.Poly` (generic over operator classes, panics explicit as `Outcome`);
  everything here is over an abstract `[CommRing F]` (`[IsDomain F]` / `[Field F]` where the code
  needs no zero divisors / an inverse).  Only property theorems and non-vacuity examples; helper
  lemmas are in `Ark/Proofs/PolyA.lean`.

  Vocabulary (`Ark.Poly.A`): `coeff p i = p.getD i 0`; `Canon p ↔ p.getLast? ≠ some 0` (no stored
  leading zero; `[]` is the zero polynomial); `conv a b k = Σ_{i ≤ k} coeff a i · coeff b (k − i)`;
  `toPoly p = Σ C (coeff p i) · X^i : F[X]`.
-/
namespace Ark.C08
open Ark Ark.Poly Ark.Poly.A

set_option linter.unusedSectionVars false

instance fact_prime_5a : Fact (Nat.Prime 5) := ⟨Nat.prime_five⟩

/-! ## 1. constructors and queries -/

section Ring
variable {F : Type} [CommRing F] [DecidableEq F]

/-- `truncate_leading_zeros` returns the canonical vector with the same coefficients -/
theorem truncate_correct (p : List F) :
    Canon (truncate p) ∧ ∀ i, coeff (truncate p) i = coeff p i := truncate_spec p

example : truncate ([1, 0, 2, 0, 0] : List (ZMod 5)) = [1, 0, 2] := by decide
example : truncate ([0, 0] : List (ZMod 5)) = [] := by decide

/-- `from_coefficients_vec` / `from_coefficients_slice`: any input vector, canonical output,
    same coefficients (the trailing assert cannot fail: the model has no panic here) -/
theorem fromCoefficientsVec_correct (v : List F) :
    Canon (fromCoefficientsVec v) ∧ ∀ i, coeff (fromCoefficientsVec v) i = coeff v i :=
  truncate_spec v

example : fromCoefficientsVec ([3, 4, 0] : List (ZMod 5)) = [3, 4] := by decide

/-- a canonical vector is left alone by the truncation -/
theorem truncate_canon_id {p : List F} (hp : Canon p) : truncate p = p := truncate_of_canon hp

/-- two canonical vectors with the same coefficient function are the same vector: the stored
    form of a polynomial is unique -/
theorem canon_unique {a b : List F} (ha : Canon a) (hb : Canon b)
    (h : ∀ i, coeff a i = coeff b i) : a = b := ha.ext hb h

/-- asking for the degree never fails on canonical input, and is `len − 1` (`0` for `[]`) -/
theorem degree_correct {p : List F} (hp : Canon p) : degree p = .ok (p.length - 1) :=
  degree_of_canon hp

theorem degree_zero : degree ([] : List F) = .ok 0 := rfl

example : Canon ([1, 0, 2] : List (ZMod 5)) ∧ degree ([1, 0, 2] : List (ZMod 5)) = .ok 2 := by decide
/-- the precondition matters: on a non-canonical non-zero vector the `assert!` fires -/
example : degree ([1, 0, 2, 0] : List (ZMod 5)) = .panic := by decide

/-- `evaluate` is `Σ coeff p i · xⁱ` (any stored vector, any point) -/
theorem evaluate_correct (p : List F) (x : F) :
    evaluate p x = ∑ i ∈ Finset.range p.length, coeff p i * x ^ i := evaluate_eq_sum p x

/-- … i.e. the value of the denoted polynomial -/
theorem evaluate_eq_eval (p : List F) (x : F) : evaluate p x = (toPoly p).eval x :=
  (eval_toPoly p x).symm

example : evaluate ([1, 2, 3] : List (ZMod 5)) 2 = 2 := by decide
example : evaluate ([1, 2, 3] : List (ZMod 5)) 0 = 1 := by decide

/-- `is_zero` ⇔ every coefficient is zero (any stored vector) -/
theorem isZero_correct (p : List F) : Poly.isZero p = true ↔ ∀ i, coeff p i = 0 := isZero_iff p

/-- on canonical input `is_zero` ⇔ the vector is empty -/
theorem isZero_canon {p : List F} (hp : Canon p) : Poly.isZero p = true ↔ p = [] := hp.isZero_iff

example : Poly.isZero ([0, 0, 0] : List (ZMod 5)) = true ∧ Poly.isZero ([0, 1] : List (ZMod 5)) = false := by
  decide

/-! ## 2. addition, subtraction, negation, scaling -/

/-- `&a + &b` -/
theorem addDD_correct {a b : List F} (ha : Canon a) (hb : Canon b) :
    ∃ r, addDD a b = .ok r ∧ Canon r ∧ ∀ i, coeff r i = coeff a i + coeff b i := addDD_spec ha hb

-- equal degrees with cancelling leading terms; a zero operand; different lengths
example : Canon ([1, 2, 3] : List (ZMod 5)) ∧ Canon ([1, 3, 2] : List (ZMod 5)) ∧
    Canon ([4, 3, 2] : List (ZMod 5)) ∧ Canon ([] : List (ZMod 5)) ∧ Canon ([1] : List (ZMod 5)) := by
  decide
example : addDD ([1, 2, 3] : List (ZMod 5)) [1, 3, 2] = .ok [2] := by decide
example : addDD ([1, 2, 3] : List (ZMod 5)) [4, 3, 2] = .ok [] := by decide
example : addDD ([] : List (ZMod 5)) [4, 3, 2] = .ok [4, 3, 2] := by decide
example : addDD ([1] : List (ZMod 5)) [4, 3, 2] = .ok [0, 3, 2] := by decide

/-- `a += &b` (total; the model shows it canonicalises whatever it is given) -/
theorem addAssignDD_correct (a b : List F) :
    Canon (addAssignDD a b) ∧ ∀ i, coeff (addAssignDD a b) i = coeff a i + coeff b i :=
  addAssignDD_spec a b

example : addAssignDD ([1, 2] : List (ZMod 5)) [1, 3, 2] = [2, 0, 2] := by decide
example : addAssignDD ([1, 2, 3] : List (ZMod 5)) [4, 3, 2] = [] := by decide

/-- `&a - &b` -/
theorem subDD_correct {a b : List F} (ha : Canon a) (hb : Canon b) :
    ∃ r, subDD a b = .ok r ∧ Canon r ∧ ∀ i, coeff r i = coeff a i - coeff b i := subDD_spec ha hb

example : Canon ([1, 2, 3] : List (ZMod 5)) ∧ Canon ([0, 2, 3] : List (ZMod 5)) := by decide
example : subDD ([1, 2, 3] : List (ZMod 5)) [0, 2, 3] = .ok [1] := by decide
example : subDD ([1] : List (ZMod 5)) [0, 2, 3] = .ok [1, 3, 2] := by decide
example : subDD ([] : List (ZMod 5)) [0, 2, 3] = .ok [0, 3, 2] := by decide

/-- `a -= &b` -/
theorem subAssignDD_correct {a b : List F} (ha : Canon a) (hb : Canon b) :
    ∃ r, subAssignDD a b = .ok r ∧ Canon r ∧ ∀ i, coeff r i = coeff a i - coeff b i :=
  subAssignDD_spec ha hb

example : Canon ([1, 2] : List (ZMod 5)) ∧ Canon ([1, 2, 3] : List (ZMod 5)) := by decide
example : subAssignDD ([1, 2, 3] : List (ZMod 5)) [1, 2, 3] = .ok [] := by decide
example : subAssignDD ([1, 2] : List (ZMod 5)) [1, 2, 3] = .ok [0, 0, 2] := by decide

/-- `-a` -/
theorem neg_correct {a : List F} (ha : Canon a) :
    Canon (neg a) ∧ ∀ i, coeff (neg a) i = - coeff a i := ⟨canon_neg ha, coeff_neg a⟩

example : Canon ([1, 0, 3] : List (ZMod 5)) ∧ neg ([1, 0, 3] : List (ZMod 5)) = [4, 0, 2] := by decide

/-- `&a * f` needs no zero divisors to stay canonical; `a * 0 = []` -/
theorem scale_correct [IsDomain F] {a : List F} (ha : Canon a) (f : F) :
    Canon (scale a f) ∧ ∀ i, coeff (scale a f) i = coeff a i * f := scale_spec ha f

theorem scale_by_zero (a : List F) : scale a (0 : F) = [] := scale_zero a

example : scale ([1, 0, 3] : List (ZMod 5)) 2 = [2, 0, 1] := by decide
example : scale ([1, 0, 3] : List (ZMod 5)) 0 = [] := by decide

/-! ## 3. `a += (f, &b)` -/

theorem addAssignScaledDD_correct {a b : List F} (ha : Canon a) (hb : Canon b) (f : F) :
    ∃ r, addAssignScaledDD a f b = .ok r ∧ Canon r ∧ ∀ i, coeff r i = coeff a i + f * coeff b i :=
  addAssignScaledDD_spec ha hb f

example : Canon ([1, 2, 3] : List (ZMod 5)) ∧ Canon ([0, 0, 1] : List (ZMod 5)) := by decide
example : addAssignScaledDD ([1, 2, 3] : List (ZMod 5)) 2 [0, 0, 1] = .ok [1, 2] := by decide
example : addAssignScaledDD ([] : List (ZMod 5)) 0 [0, 0, 1] = .ok [] := by decide
example : addAssignScaledDD ([1] : List (ZMod 5)) 3 [0, 0, 1] = .ok [1, 0, 3] := by decide

/-! ## 4. multiplication -/

/-- `naive_mul`: the Cauchy product, canonical (the code truncates, so no hypothesis on zero
    divisors is needed), never panics on canonical operands -/
theorem naiveMul_correct {a b : List F} (ha : Canon a) (hb : Canon b) :
    ∃ r, naiveMul a b = .ok r ∧ Canon r ∧ ∀ k, coeff r k = conv a b k := naiveMul_spec ha hb

example : Canon ([1, 2] : List (ZMod 5)) ∧ Canon ([3, 0, 1] : List (ZMod 5)) := by decide
example : naiveMul ([1, 2] : List (ZMod 5)) [3, 0, 1] = .ok [3, 1, 1, 2] := by decide
example : naiveMul ([1, 2] : List (ZMod 5)) [] = .ok [] := by decide

/-- `&a * &b` (FFT based) under the model's `domainExists` guard -/
theorem mulDD_correct (ta : Nat) (a b : List F)
    (hd : domainExists ta (a.length + b.length - 1) = true) :
    ∃ r, mulDD ta a b = .ok r ∧ Canon r ∧ ∀ k, coeff r k = conv a b k := mulDD_spec ta a b hd

/-- … and then it agrees with `naive_mul` on canonical operands -/
theorem mulDD_eq_naive (ta : Nat) {a b : List F} (ha : Canon a) (hb : Canon b)
    (hd : domainExists ta (a.length + b.length - 1) = true) : mulDD ta a b = naiveMul a b :=
  mulDD_eq_naiveMul ta ha hb hd

/-- without a large enough domain the product of two non-zero polynomials is the `expect` panic -/
theorem mulDD_no_domain (ta : Nat) (a b : List F) (hza : Poly.isZero a = false) (hzb : Poly.isZero b = false)
    (hd : domainExists ta (a.length + b.length - 1) = false) : mulDD ta a b = .panic :=
  mulDD_panic ta a b hza hzb hd

-- `ZMod 5` has two-adicity 2: domains of size ≤ 4 exist
example : domainExists 2 4 = true ∧ mulDD 2 ([1, 2] : List (ZMod 5)) [3, 0, 1] = .ok [3, 1, 1, 2] := by
  decide
example : Poly.isZero ([1, 2, 1] : List (ZMod 5)) = false ∧ Poly.isZero ([3, 0, 1] : List (ZMod 5)) = false ∧
    domainExists 2 (3 + 3 - 1) = false ∧ mulDD 2 ([1, 2, 1] : List (ZMod 5)) [3, 0, 1] = .panic := by
  decide

end Ring

/-! ## 5. division with remainder -/

section Field
variable {F : Type} [Field F] [DecidableEq F]

/-- `divide_with_q_and_r`, dense / dense: `a = q·b + r`, `deg r < deg b`, both canonical, no panic
    for a non-zero divisor -/
theorem divideWithQAndR_correct {a b : List F} (ha : Canon a) (hb : Canon b) (hbne : b ≠ []) :
    ∃ q r, divideWithQAndR (.d a) (.d b) = .ok (q, r) ∧ Canon q ∧ Canon r ∧
      (∀ k, coeff a k = conv q b k + coeff r k) ∧ (r = [] ∨ r.length < b.length) :=
  divide_spec ha hb hbne

example : Canon ([1, 0, 3] : List (ZMod 5)) ∧ Canon ([1, 2] : List (ZMod 5)) ∧
    ([1, 2] : List (ZMod 5)) ≠ [] := by decide
example : divideWithQAndR (.d ([1, 0, 3] : List (ZMod 5))) (.d [1, 2]) = .ok ([3, 4], [3]) := by
  decide +kernel
example : divideWithQAndR (.d ([1, 2] : List (ZMod 5))) (.d [1, 0, 3]) = .ok ([], [1, 2]) := by
  decide +kernel
example : divideWithQAndR (.d ([4, 0, 1] : List (ZMod 5))) (.d [1, 1]) = .ok ([4, 1], []) := by
  decide +kernel

/-- dividing a non-zero polynomial by zero is the documented panic -/
theorem divide_by_zero {a b : List F} (hza : Poly.isZero a = false) (hzb : Poly.isZero b = true) :
    divideWithQAndR (.d a) (.d b) = .panic := divide_by_zero_panic hza hzb

/-- `0 / b = (0, 0)` for every `b` — including `0 / 0`, as coded -/
theorem divide_zero {a : List F} (b : List F) (hza : Poly.isZero a = true) :
    divideWithQAndR (.d a) (.d b) = .ok ([], []) := divide_zero_left b hza

example : divideWithQAndR (.d ([1, 2] : List (ZMod 5))) (.d []) = .panic := by decide +kernel
example : divideWithQAndR (.d ([] : List (ZMod 5))) (.d []) = .ok ([], []) := by decide +kernel

/-- `&a / &b` is the first component -/
theorem divDD_correct {a b : List F} (ha : Canon a) (hb : Canon b) (hbne : b ≠ []) :
    ∃ q r, divDD a b = .ok q ∧ Canon q ∧ Canon r ∧
      (∀ k, coeff a k = conv q b k + coeff r k) ∧ (r = [] ∨ r.length < b.length) :=
  divDD_spec ha hb hbne

theorem divDD_fst {a b q r : List F} (h : divideWithQAndR (.d a) (.d b) = .ok (q, r)) :
    divDD a b = .ok q := divDD_eq h

example : divDD ([1, 0, 3] : List (ZMod 5)) [1, 2] = .ok [3, 4] := by decide +kernel

end Field

/-! ## 6. the vanishing polynomial `Xⁿ − c` of a (coset) domain, `c = offset^size` -/

section Van
variable {F : Type} [CommRing F] [DecidableEq F]

/-- `mul_by_vanishing_poly`: `a · (Xⁿ − c)`, canonical (any stored `a`) -/
theorem mulByVanishingPoly_correct (a : List F) (n : Nat) (c : F) :
    Canon (mulByVanishingPoly a n c) ∧ ∀ k, coeff (mulByVanishingPoly a n c) k =
      (if n ≤ k then coeff a (k - n) else 0) - c * coeff a k := mulByVanishingPoly_spec a n c

example : mulByVanishingPoly ([1, 2, 3] : List (ZMod 5)) 2 3 = [2, 4, 2, 2, 3] := by decide

/-- `divide_by_vanishing_poly` for a non-empty domain: `a = q·(Xⁿ − c) + r`, `deg r < n` -/
theorem divideByVanishingPoly_correct {a : List F} (ha : Canon a) (n : Nat) (hn : 0 < n) (c : F) :
    ∃ q r, divideByVanishingPoly a n c = .ok (q, r) ∧ Canon q ∧ Canon r ∧
      (∀ k, coeff a k = (if n ≤ k then coeff q (k - n) else 0) - c * coeff q k + coeff r k) ∧
      r.length ≤ n := divideByVanishingPoly_spec ha n hn c

example : Canon ([1, 2, 3, 4, 1] : List (ZMod 5)) := by decide
example : divideByVanishingPoly ([1, 2, 3, 4, 1] : List (ZMod 5)) 2 3 = .ok ([1, 4, 1], [4, 4]) := by
  decide
example : divideByVanishingPoly ([2, 4, 2, 2, 3] : List (ZMod 5)) 2 3 = .ok ([1, 2, 3], []) := by
  decide
example : divideByVanishingPoly ([1, 2] : List (ZMod 5)) 4 1 = .ok ([], [1, 2]) := by decide

/-- a domain of size `0` (not constructible) would hit the `len / 0` panic -/
theorem divideByVanishingPoly_size_zero (a : List F) (c : F) :
    divideByVanishingPoly a 0 c = .panic := by
  unfold divideByVanishingPoly; simp

end Van

/-! ## 7. the same statements in `F[X]` and on values -/

section Bridge
variable {F : Type} [CommRing F] [DecidableEq F]

theorem toPoly_coeff (p : List F) (k : Nat) : (toPoly p).coeff k = coeff p k := coeff_toPoly p k

theorem toPoly_truncate (p : List F) : toPoly (truncate p) = toPoly p :=
  toPoly_congr (coeff_truncate p)

theorem addDD_toPoly {a b : List F} (ha : Canon a) (hb : Canon b) :
    ∃ r, addDD a b = .ok r ∧ Canon r ∧ toPoly r = toPoly a + toPoly b ∧
      ∀ x, evaluate r x = evaluate a x + evaluate b x := by
  obtain ⟨r, h, hc, he⟩ := addDD_spec ha hb
  exact ⟨r, h, hc, toPoly_add he, fun x => by simp only [← eval_toPoly, toPoly_add he, Polynomial.eval_add]⟩

theorem addAssignDD_toPoly (a b : List F) : toPoly (addAssignDD a b) = toPoly a + toPoly b :=
  toPoly_add (addAssignDD_spec a b).2

theorem subDD_toPoly {a b : List F} (ha : Canon a) (hb : Canon b) :
    ∃ r, subDD a b = .ok r ∧ Canon r ∧ toPoly r = toPoly a - toPoly b ∧
      ∀ x, evaluate r x = evaluate a x - evaluate b x := by
  obtain ⟨r, h, hc, he⟩ := subDD_spec ha hb
  exact ⟨r, h, hc, toPoly_sub he, fun x => by simp only [← eval_toPoly, toPoly_sub he, Polynomial.eval_sub]⟩

theorem subAssignDD_toPoly {a b : List F} (ha : Canon a) (hb : Canon b) :
    ∃ r, subAssignDD a b = .ok r ∧ Canon r ∧ toPoly r = toPoly a - toPoly b := by
  obtain ⟨r, h, hc, he⟩ := subAssignDD_spec ha hb
  exact ⟨r, h, hc, toPoly_sub he⟩

theorem neg_toPoly (a : List F) : toPoly (neg a) = - toPoly a := toPoly_neg (coeff_neg a)

theorem scale_toPoly [IsDomain F] {a : List F} (ha : Canon a) (f : F) :
    toPoly (scale a f) = Polynomial.C f * toPoly a := toPoly_smul (scale_spec ha f).2

theorem addAssignScaledDD_toPoly {a b : List F} (ha : Canon a) (hb : Canon b) (f : F) :
    ∃ r, addAssignScaledDD a f b = .ok r ∧ Canon r ∧ toPoly r = toPoly a + Polynomial.C f * toPoly b := by
  obtain ⟨r, h, hc, he⟩ := addAssignScaledDD_spec ha hb f
  exact ⟨r, h, hc, toPoly_add_smul he⟩

theorem naiveMul_toPoly {a b : List F} (ha : Canon a) (hb : Canon b) :
    ∃ r, naiveMul a b = .ok r ∧ Canon r ∧ toPoly r = toPoly a * toPoly b ∧
      ∀ x, evaluate r x = evaluate a x * evaluate b x := by
  obtain ⟨r, h, hc, he⟩ := naiveMul_spec ha hb
  exact ⟨r, h, hc, toPoly_mul he, fun x => by simp only [← eval_toPoly, toPoly_mul he, Polynomial.eval_mul]⟩

theorem mulDD_toPoly (ta : Nat) (a b : List F)
    (hd : domainExists ta (a.length + b.length - 1) = true) :
    ∃ r, mulDD ta a b = .ok r ∧ Canon r ∧ toPoly r = toPoly a * toPoly b ∧
      ∀ x, evaluate r x = evaluate a x * evaluate b x := by
  obtain ⟨r, h, hc, he⟩ := mulDD_spec ta a b hd
  exact ⟨r, h, hc, toPoly_mul he, fun x => by simp only [← eval_toPoly, toPoly_mul he, Polynomial.eval_mul]⟩

theorem mulByVanishingPoly_toPoly (a : List F) (n : Nat) (c : F) :
    toPoly (mulByVanishingPoly a n c) = toPoly a * (Polynomial.X ^ n - Polynomial.C c) :=
  toPoly_eq_of_coeff (fun k => by
    rw [(mulByVanishingPoly_spec a n c).2 k, coeff_mul_X_pow_sub_C, coeff_toPoly, coeff_toPoly])

theorem divideByVanishingPoly_toPoly {a : List F} (ha : Canon a) (n : Nat) (hn : 0 < n) (c : F) :
    ∃ q r, divideByVanishingPoly a n c = .ok (q, r) ∧ Canon q ∧ Canon r ∧
      toPoly a = toPoly q * (Polynomial.X ^ n - Polynomial.C c) + toPoly r ∧ (toPoly r).degree < (n : WithBot ℕ) := by
  obtain ⟨q, r, h, hq, hr, he, hl⟩ := divideByVanishingPoly_spec ha n hn c
  refine ⟨q, r, h, hq, hr, toPoly_eq_of_coeff (fun k => ?_),
    lt_of_lt_of_le (degree_toPoly_lt r) (by exact_mod_cast hl)⟩
  rw [he k, Polynomial.coeff_add, coeff_mul_X_pow_sub_C, coeff_toPoly, coeff_toPoly, coeff_toPoly]

end Bridge

section BridgeField
variable {F : Type} [Field F] [DecidableEq F]

/-- Euclidean division in `F[X]`: the outputs denote `a / b` and `a % b` -/
theorem divideWithQAndR_toPoly {a b : List F} (ha : Canon a) (hb : Canon b) (hbne : b ≠ []) :
    ∃ q r, divideWithQAndR (.d a) (.d b) = .ok (q, r) ∧ Canon q ∧ Canon r ∧
      toPoly a = toPoly q * toPoly b + toPoly r ∧ (toPoly r).degree < (toPoly b).degree ∧
      toPoly q = toPoly a / toPoly b ∧ toPoly r = toPoly a % toPoly b ∧
      ∀ x, evaluate a x = evaluate q x * evaluate b x + evaluate r x := by
  obtain ⟨q, r, h, hq, hr, he, hd⟩ := divide_spec ha hb hbne
  have h1 := toPoly_divmod he
  have h2 := degree_toPoly_lt_of_length hb hbne hd
  obtain ⟨h3, h4⟩ := div_mod_unique (toPoly_ne_zero hb hbne) h1 h2
  refine ⟨q, r, h, hq, hr, h1, h2, h3.symm, h4.symm, fun x => ?_⟩
  simp only [← eval_toPoly]
  rw [h1, Polynomial.eval_add, Polynomial.eval_mul]

theorem divDD_toPoly {a b : List F} (ha : Canon a) (hb : Canon b) (hbne : b ≠ []) :
    ∃ q, divDD a b = .ok q ∧ Canon q ∧ toPoly q = toPoly a / toPoly b := by
  obtain ⟨q, r, h, hq, _, _, _, h3, _⟩ := divideWithQAndR_toPoly ha hb hbne
  exact ⟨q, divDD_eq h, hq, h3⟩

end BridgeField

end Ark.C08
