import Ark.Proofs.H2C
import Mathlib.Data.ZMod.Basic
/-
  Property C13 — hash-to-field / hash-to-curve: the MODEL `Ark.H2C` (transcription of the Rust code of
  ff/src/fields/field_hashers and ec/src/hashing) against the SPEC `Ark.H2C.Rfc` (transcription of RFC 9380).
  Only property theorems and non-vacuity examples live here; helper lemmas are in Ark/Proofs/H2C.lean
  (namespace `Ark.H2C.P`).

  Standing assumptions (structures of Ark/Proofs/H2C.lean), over a Mathlib `Field F`:
    FieldXSound X : `X.isQR x ↔ x ≠ 0 ∧ IsSquare x`, `X.sqrt x = some r → r·r = x`, `IsSquare x → X.sqrt x = some _`
    ParitySound X : `parity (−y) = !parity y` for `y ≠ 0`   (needed only where a *sign* is compared)
    NonsqMul F    : the product of two non-squares is a square (`nonsqMul_of_finite`: every finite field)
-/
namespace Ark.C13
open Ark Ark.H2C Ark.H2C.P

/-! ### concrete instances used by the non-vacuity examples: `F_127` with brute-force square roots -/

instance fact127 : Fact (Nat.Prime 127) := ⟨by decide⟩

/-- a concrete dictionary over `F_127` -/
def X127 : FieldX (ZMod 127) where
  isQR := fun x => decide (x ≠ 0 ∧ ∃ r : ZMod 127, r * r = x)
  sqrt := fun x => (List.finRange 127).find? (fun r : ZMod 127 => r * r = x)
  coords := fun x => [x.val]

theorem X127_sound : FieldXSound X127 where
  isQR_iff := by
    intro x
    simp only [X127, decide_eq_true_eq, IsSquare]
    constructor
    · rintro ⟨h, r, hr⟩; exact ⟨h, r, hr.symm⟩
    · rintro ⟨h, r, hr⟩; exact ⟨h, r, hr.symm⟩
  sqrt_sound := by
    intro x r h
    have := List.find?_some h
    simpa using this
  sqrt_complete := by
    rintro x ⟨r, rfl⟩
    revert r
    decide +kernel

theorem X127_parity : ParitySound X127 := by
  unfold ParitySound
  decide +kernel

theorem nonsq127 : NonsqMul (ZMod 127) := nonsqMul_of_finite _

theorem nonsquare_neg_one_127 : ¬ IsSquare (-1 : ZMod 127) := by
  rintro ⟨r, hr⟩
  revert r
  decide +kernel

/-- a toy hash with 2-byte output (`bLen = 2`) for the expander examples -/
def toyH (x : Bytes) : Bytes := [x.sum % 256, x.length % 256]

/-- the 2-isogeny `TOY_ISO_2` of the harness: `E' : y² = x³ + 114x + 12 → E : y² = x³ + 37x + 82` over `F_127` -/
def toyIso2 : Iso (ZMod 127) := ⟨[117, -1, 1], [-1, 1], [11, -2, 1], [1, -2, 1]⟩

/-! ### 1. the expander and hash_to_field -/

/-- the model's expander IS `expand_message_xmd` of RFC 9380 §5.3.1 with `s_in_bytes := blockSize`
    (any hash `H`, any output size `bLen`): same bytes … -/
theorem expand_xmd_ok_iff (H : Bytes → Bytes) (bLen s : Nat) (hs : s ≤ 256) (dst msg : Bytes) (n : Nat)
    (b : Bytes) :
    expandXmd H bLen s dst msg n = .ok b ↔ Rfc.expandMessageXmd H bLen s msg dst n = some b := by
  rw [expandXmd_eq H bLen s hs]
  cases Rfc.expandMessageXmd H bLen s msg dst n <;> simp [ofOpt]

/-- … and it panics exactly when the RFC aborts -/
theorem expand_xmd_panic_iff (H : Bytes → Bytes) (bLen s : Nat) (hs : s ≤ 256) (dst msg : Bytes) (n : Nat) :
    expandXmd H bLen s dst msg n = .panic ↔ Rfc.expandMessageXmd H bLen s msg dst n = none := by
  rw [expandXmd_eq H bLen s hs]
  cases Rfc.expandMessageXmd H bLen s msg dst n <;> simp [ofOpt]

/-- (the only other case: `blockSize > 256` is the out-of-range slice of the 256-byte `Z_PAD`) -/
theorem expand_xmd_block_too_large (H : Bytes → Bytes) (bLen s : Nat) (hs : 256 < s) (dst msg : Bytes) (n : Nat) :
    ∀ b, expandXmd H bLen s dst msg n ≠ .ok b := by
  intro b h
  unfold expandXmd at h
  simp only at h
  split at h
  · cases h
  · cases hd : dstNewXmd H dst with
    | panic => rw [hd] at h; cases h
    | ok d =>
      rw [hd] at h
      simp only [obind] at h
      split at h <;> cases h

example : expandXmd toyH 2 64 [81, 85] [97] 5 = .ok [254, 6, 219, 6, 193] := by decide +kernel
example : Rfc.expandMessageXmd toyH 2 64 [97] [81, 85] 5 = some [254, 6, 219, 6, 193] := by decide +kernel
-- ell = 256 > 255: panic / ABORT
example : expandXmd toyH 2 64 [81] [97] 512 = .panic := by decide +kernel
example : Rfc.expandMessageXmd toyH 2 64 [97] [81] 512 = none :=
  (expand_xmd_panic_iff toyH 2 64 (by decide) [81] [97] 512).1 (by decide +kernel)
-- an over-long DST is hashed first (§5.3.3)
example : (expandXmd toyH 2 7 (List.replicate 300 1) [] 3) = .ok [51, 6, 69] := by decide +kernel

/-- the two slice operations of `hash_to_field` -/
theorem sub_slice_extract (b : Array Nat) (off len : Nat) :
    (b.extract off (off + len)).toList = (b.toList.drop off).take len :=
  extract_toList b off len

example : (#[1, 2, 3, 4, 5].extract 1 (1 + 3)).toList = [2, 3, 4] := by decide

/-- `get_len_per_elem` is the `L` of RFC 9380 §5.1 -/
theorem len_per_elem_eq_paramL (p k : Nat) : getLenPerElem (Rfc.ceilLog2 p) k = Rfc.paramL p k :=
  getLenPerElem_eq p k

example : getLenPerElem (Rfc.ceilLog2 Rfc.blsP) 128 = 64 := by decide +kernel
example : Rfc.paramL 127 128 = 17 := by decide +kernel

/-- the modelled SHA-256 satisfies the size hypothesis of the next two theorems -/
theorem sha256_output_length (msg : Bytes) : (Ark.Sha256.sha256 msg).length = 32 := sha256_length msg

/-- the model's `hash_to_field` is the RFC's `hash_to_field` run with `s_in_bytes := L`
    (for a hash whose output has `bLen > 0` bytes; `MODULUS_BIT_SIZE = ⌈log2 p⌉`) -/
theorem hash_to_field_eq_rfc (H : Bytes → Bytes) (bLen : Nat) (hH : ∀ x, (H x).length = bLen) (hb : 0 < bLen)
    (p m k N : Nat) (hL : Rfc.paramL p k ≤ 256) (dst msg : Bytes) :
    hashToField H bLen p (Rfc.ceilLog2 p) m k N dst msg =
      ofOpt (Rfc.hashToField H bLen (Rfc.paramL p k) p m k dst msg N) :=
  hashToField_eq H bLen hH hb p m k N hL dst msg

/-- hence: when `get_len_per_elem = 64` (the supported BLS12-381 suites) the model is RFC 9380 §5.2 with
    `s_in_bytes = 64` (SHA-256's block size) -/
theorem hash_to_field_eq_rfc_64 (H : Bytes → Bytes) (bLen : Nat) (hH : ∀ x, (H x).length = bLen) (hb : 0 < bLen)
    (p m k N : Nat) (hL : getLenPerElem (Rfc.ceilLog2 p) k = 64) (dst msg : Bytes) :
    hashToField H bLen p (Rfc.ceilLog2 p) m k N dst msg =
      ofOpt (Rfc.hashToField H bLen 64 p m k dst msg N) := by
  rw [getLenPerElem_eq] at hL
  have := hashToField_eq H bLen hH hb p m k N (by omega) dst msg
  rwa [hL] at this

example : hashToField Ark.Sha256.sha256 32 Rfc.blsP (Rfc.ceilLog2 Rfc.blsP) 1 128 2 [81] [97] =
    ofOpt (Rfc.hashToField Ark.Sha256.sha256 32 64 Rfc.blsP 1 128 [81] [97] 2) :=
  hash_to_field_eq_rfc_64 _ 32 sha256_output_length (by decide) _ 1 128 2 (by decide +kernel) _ _

example : hashToField toyH 2 127 (Rfc.ceilLog2 127) 1 128 2 [81] [97] = .ok [[96], [38]] := by decide +kernel

/-! ### 2. parity is sgn0 -/

/-- `parity` (first non-zero coordinate odd) is `sgn0` of RFC 9380 §4.1 -/
theorem parity_coords_eq_sgn0 (cs : List Nat) : parityCoords cs = (Rfc.sgn0 cs == 1) :=
  parityCoords_eq cs

example : parityCoords [0, 0, 7, 2] = true ∧ Rfc.sgn0 [0, 0, 7, 2] = 1 := by decide

/-! ### 3. simplified SWU -/

section swu
variable {F : Type} [Field F] [DecidableEq F] {X : FieldX F}

/-- for ALL `u` (including `u = 0` and the exceptional `ζ²u⁴ + ζu² = 0`): no panic — the `expect`s and the
    divisions are unreachable — and the output is on the curve -/
theorem swu_on_curve (hX : FieldXSound X) (hN : NonsqMul F) {a b ζ : F}
    (hp : Rfc.sswuParamsOk X a b ζ = true) (u : F) :
    ∃ x y, swuMap X a b ζ u = .ok (x, y) ∧ y * y = x * x * x + a * x + b := by
  obtain ⟨x, y, h1, h2, _⟩ := swuMap_ok hX hN hp u
  exact ⟨x, y, h1, h2⟩

/-- sign convention: `y = 0` or `parity y = parity u` -/
theorem swu_sign (hX : FieldXSound X) (hP : ParitySound X) (hN : NonsqMul F) {a b ζ : F}
    (hp : Rfc.sswuParamsOk X a b ζ = true) (u : F) :
    ∃ x y, swuMap X a b ζ u = .ok (x, y) ∧ (y = 0 ∨ parity X y = parity X u) := by
  obtain ⟨x, y, h1, _, h3⟩ := swuMap_ok hX hN hp u
  exact ⟨x, y, h1, h3 hP⟩

/-- the model is `map_to_curve_simple_swu` of RFC 9380 §6.6.2 whenever `gx1 ≠ 0` -/
theorem swu_eq_rfc (hX : FieldXSound X) (hP : ParitySound X) (hN : NonsqMul F) {a b ζ : F}
    (hp : Rfc.sswuParamsOk X a b ζ = true) (u : F) (hgx : Rfc.sswuGx1 a b ζ u ≠ 0) :
    swuMap X a b ζ u = .ok (Rfc.sswu X a b ζ u) :=
  swuMap_eq_rfc hX hP hN hp u hgx

/-- the output does not depend on which of the two roots `sqrt` returns (for all `u`) -/
theorem swu_root_independent {X' : FieldX F} (hX : FieldXSound X) (hX' : FieldXSound X')
    (hc : X.coords = X'.coords) (hP : ParitySound X) (hN : NonsqMul F) {a b ζ : F}
    (hp : Rfc.sswuParamsOk X a b ζ = true) (u : F) :
    swuMap X a b ζ u = swuMap X' a b ζ u :=
  swuMap_indep hX hX' hc hP hN hp u

/-- key algebra (`gx2·div³ = ζ³u⁶·num_gx1`): `g(ζu²·x1) = (ζu²)³·g(x1)` away from the exceptional case -/
theorem swu_gx2_identity {a b ζ : F} (ha : a ≠ 0) (u : F)
    (hta : ζ * ζ * (u * u * (u * u)) + ζ * (u * u) ≠ 0) :
    g a b (ζ * (u * u) * rfcX1 a b ζ u) =
      (ζ * (u * u)) * (ζ * (u * u)) * (ζ * (u * u)) * g a b (rfcX1 a b ζ u) :=
  g_x2_eq ha u hta

/-- hence exactly one of `gx1`, `gx2` is a square when `gx1 ≠ 0` -/
theorem swu_exactly_one_square (hN : NonsqMul F) {a b ζ : F} (ha : a ≠ 0) (hζ : ¬ IsSquare ζ) (u : F)
    (hta : ζ * ζ * (u * u * (u * u)) + ζ * (u * u) ≠ 0) (hgx : Rfc.sswuGx1 a b ζ u ≠ 0) :
    IsSquare (g a b (ζ * (u * u) * rfcX1 a b ζ u)) ↔ ¬ IsSquare (g a b (rfcX1 a b ζ u)) :=
  swu_exactly_one hN ha hζ u hta (by rwa [sswuGx1_eq] at hgx)

end swu

-- the F_127 SWU curve of the harness (`y² = x³ + x + 63`, ZETA = −1): parameters valid; u = 0, the exceptional
-- u = 1 (ζu² = −1) and a generic u
example : Rfc.sswuParamsOk X127 1 63 (-1) = true := by decide +kernel
example : ∃ x y, swuMap X127 1 63 (-1) 0 = .ok (x, y) ∧ y * y = x * x * x + 1 * x + 63 :=
  swu_on_curve X127_sound nonsq127 (by decide +kernel) 0
example : swuMap X127 1 63 (-1) 0 = .ok (64, 4) := by decide +kernel
example : swuMap X127 1 63 (-1) 1 = .ok (64, 123) := by decide +kernel
example : swuMap X127 1 63 (-1) 5 = .ok (Rfc.sswu X127 1 63 (-1) 5) :=
  swu_eq_rfc X127_sound X127_parity nonsq127 (by decide +kernel) 5 (by decide +kernel)
example : (-1 : ZMod 127) * (-1) * (5 * 5 * (5 * 5)) + (-1) * (5 * 5) ≠ 0 := by decide +kernel
-- the hypothesis `gx1 ≠ 0` of `swu_eq_rfc` cannot be dropped: on `y² = x³ + 114x + 12` (rational 2-torsion),
-- ZETA = 3, u = 1 gives gx1 = 0 and the code (which treats 0 as a non-square) returns (x2, 0), the RFC (x1, 0)
example : Rfc.sswuParamsOk X127 114 12 3 = true ∧ Rfc.sswuGx1 (114 : ZMod 127) 12 3 1 = 0 ∧
    swuMap X127 114 12 3 1 = .ok (3, 0) ∧ Rfc.sswu X127 114 12 3 1 = (1, 0) := by decide +kernel

/-! ### 4. the isogeny and the WB map -/

section wb
variable {F : Type} [Field F] [DecidableEq F] {X : FieldX F}

/-- `DensePolynomial::from_coefficients_slice(cs).evaluate(x) = Σ cs_i x^i` -/
theorem poly_eval_eq (cs : List F) (x : F) : polyEval (polyOfSlice cs) x = Rfc.evalPoly cs x :=
  polyEval_polyOfSlice cs x

/-- `IsogenyMap::apply` is `iso_map` of RFC 9380 §6.6.3 / App. E at every point: never panics … -/
theorem iso_apply_eq_rfc (iso : Iso F) (x y : F) :
    isoApply iso (some (x, y)) = .ok (Rfc.isoMap iso (x, y)) :=
  isoApply_eq iso x y

/-- … and returns the identity exactly at the poles of the rational maps -/
theorem iso_apply_identity_iff (iso : Iso F) (x y : F) :
    isoApply iso (some (x, y)) = .ok none ↔
      (polyEval (polyOfSlice iso.xDen) x = 0 ∨ polyEval (polyOfSlice iso.yDen) x = 0) :=
  isoApply_none_iff iso x y

/-- `IsoOnCurve` follows from the (pointwise) polynomial identity of the isogeny -/
theorem iso_on_curve_of_identity {iso : Iso F} {a' b' a b : F} (h : IsoIdentity iso a' b' a b) :
    IsoOnCurve iso a' b' a b :=
  isoOnCurve_of_identity h

/-- WB for ALL `u`: no panic, the result is `iso_map` of the model's SWU point, and it lies on `E` -/
theorem wb_map_ok (hX : FieldXSound X) (hN : NonsqMul F) {a' b' ζ : F}
    (hp : Rfc.sswuParamsOk X a' b' ζ = true) (iso : Iso F) {a b : F} (hi : IsoOnCurve iso a' b' a b) (u : F) :
    ∃ q P, swuMap X a' b' ζ u = .ok q ∧ wbMap X a' b' ζ iso u = .ok P ∧ P = Rfc.isoMap iso q ∧
      swOnCurve a b P = true := by
  obtain ⟨q, h1, h2, h3⟩ := wbMap_ok hX hN hp iso u
  exact ⟨q, _, h1, h2, rfl, h3 a b hi⟩

/-- WB is `iso_map(map_to_curve_simple_swu(u))` whenever `gx1 ≠ 0` -/
theorem wb_map_eq_rfc (hX : FieldXSound X) (hP : ParitySound X) (hN : NonsqMul F) {a' b' ζ : F}
    (hp : Rfc.sswuParamsOk X a' b' ζ = true) (iso : Iso F) (u : F)
    (hgx : Rfc.sswuGx1 a' b' ζ u ≠ 0) :
    wbMap X a' b' ζ iso u = .ok (Rfc.isoMap iso (Rfc.sswu X a' b' ζ u)) :=
  wbMap_eq_rfc hX hP hN hp iso u hgx

end wb

example : polyEval (polyOfSlice [3, 0, 5, 0, 0]) (2 : ZMod 127) = 23 ∧ polyOfSlice [3, 0, 5, 0, (0 : ZMod 127)] = [3, 0, 5] := by
  decide +kernel
-- the harness's 2-isogeny: the polynomial identity holds, a regular point, and a pole (x = 1)
theorem toyIso2_identity : IsoIdentity toyIso2 114 12 37 82 := by
  unfold IsoIdentity
  decide +kernel
example : isoApply toyIso2 (some (3, 0)) = .ok (some (125, 0)) := by decide +kernel
example : isoApply toyIso2 (some (1, 0)) = .ok none := by decide +kernel
example : ∃ q P, swuMap X127 114 12 3 5 = .ok q ∧ wbMap X127 114 12 3 toyIso2 5 = .ok P ∧
    P = Rfc.isoMap toyIso2 q ∧ swOnCurve 37 82 P = true :=
  wb_map_ok X127_sound nonsq127 (by decide +kernel) toyIso2 (iso_on_curve_of_identity toyIso2_identity) 5
example : wbMap X127 114 12 3 toyIso2 5 = .ok (Rfc.isoMap toyIso2 (Rfc.sswu X127 114 12 3 5)) :=
  wb_map_eq_rfc X127_sound X127_parity nonsq127 (by decide +kernel) toyIso2 5 (by decide +kernel)

/-! ### 5. Elligator 2 -/

section ell
variable {F : Type} [Field F] [DecidableEq F] {X : FieldX F}

/-- the model is `map_to_curve_elligator2_edwards` of RFC 9380 §6.7.1 / §6.8.2 / App. D.1 for ALL `u`; no panic -/
theorem ell2_eq_rfc (hX : FieldXSound X) (hN : NonsqMul F) {J K Z jOnK ksqInv : F}
    (hZ : ¬ IsSquare Z) (hK : K ≠ 0) (hks : ksqInv * (K * K) = 1) (hj : jOnK * K = J) (u : F) :
    ell2Map X K jOnK ksqInv Z u = .ok (Rfc.elligator2Edwards X J K Z u) :=
  ell2Map_eq_rfc hX hN hZ hK hks hj u

/-- the output lies on `a v² + w² = 1 + d v² w²` with `a = (J+2)/K`, `d = (J−2)/K` -/
theorem ell2_on_curve (hX : FieldXSound X) (hN : NonsqMul F) {J K Z jOnK ksqInv : F}
    (hZ : ¬ IsSquare Z) (hK : K ≠ 0) (hks : ksqInv * (K * K) = 1) (hj : jOnK * K = J) (u : F) :
    ∃ v w, ell2Map X K jOnK ksqInv Z u = .ok (v, w) ∧
      (J + 2) / K * v * v + w * w = 1 + (J - 2) / K * v * v * w * w :=
  ell2Map_onCurve hX hN hZ hK hks hj u

/-- the branch `gx1 = 0` of the model is unreachable (for `J ≠ 0`, which Elligator 2 requires; for `J = 0`
    every `u` has `gx1 = 0` and both the model and the RFC return `(0, 1)`, covered by `ell2_eq_rfc`) -/
theorem ell2_gx1_ne_zero {J K Z jOnK ksqInv : F} (hZ : ¬ IsSquare Z) (hK : K ≠ 0)
    (hks : ksqInv * (K * K) = 1) (hj : jOnK * K = J) (hJ : J ≠ 0) (u : F) :
    let x1 := -jOnK / (if 1 + Z * (u * u) = 0 then 1 else 1 + Z * (u * u))
    x1 * x1 * x1 + jOnK * (x1 * x1) + x1 * ksqInv ≠ 0 :=
  ell_model_gx1_ne_zero hZ hK hks hj hJ u

end ell

-- the harness's toy suite: Montgomery `y² = x³ + 5x² + x` over F_127 (J = 5, K = 1), Z = −1;
-- u = 1 is the exceptional `1 + Z u² = 0`
example : ell2Map X127 1 5 1 (-1) 3 = .ok (Rfc.elligator2Edwards X127 5 1 (-1) 3) :=
  ell2_eq_rfc X127_sound nonsq127 nonsquare_neg_one_127 (by decide) (by decide +kernel) (by decide +kernel) 3
example : ell2Map X127 1 5 1 (-1) 3 = .ok (91, 125) := by decide +kernel
example : ell2Map X127 1 5 1 (-1) 1 = .ok (73, 65) := by decide +kernel
example : ∃ v w, ell2Map X127 1 5 1 (-1) 1 = .ok (v, w) ∧
    ((5 : ZMod 127) + 2) / 1 * v * v + w * w = 1 + (5 - 2) / 1 * v * v * w * w :=
  ell2_on_curve X127_sound nonsq127 nonsquare_neg_one_127 (by decide) (by decide +kernel) (by decide +kernel) 1

/-! ### 6. the tail of `MapToCurveBasedHasher::hash` -/

/-- `Q0 + Q1` followed by `clear_cofactor` (as `h_eff · P`) is steps 4–5 of RFC 9380 §3 -/
theorem hash_finish_eq_rfc {F : Type} [Field F] [DecidableEq F] (a : F) (hEff : Nat) (q0 q1 : SwPt F) :
    hashFinishSw a hEff q0 q1 = Rfc.finishSw a hEff q0 q1 := rfl

example : hashFinishSw (1 : ZMod 127) 1 (some (64, 4)) (some (6, 83)) =
    Rfc.finishSw 1 1 (some (64, 4)) (some (6, 83)) := hash_finish_eq_rfc _ _ _ _

end Ark.C13
