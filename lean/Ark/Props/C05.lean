import Ark.Props.C05a
import Ark.Props.C05b
/-
  Property C05 — composition of the two halves: the inner-MSM hypothesis `MsmOK` of the stream
  accumulator theorems (C05b) is discharged by the bucket-method theorem of C05a, giving the
  unconditional statements: for EVERY sequence of add calls and EVERY buffer size the incremental
  Pippenger accumulators return Σ kᵢ • Pᵢ, and `msm_chunks` returns the aligned sum.
-/
namespace Ark.C05
open Ark Ark.Msm

variable {G : Type} [AddCommGroup G]

/-- the inner MSM (`msm_bigint`, both bucket methods) satisfies the accumulators' hypothesis -/
theorem msmOK_of_cfg (cfg : Cfg) (hr0 : 0 < cfg.r) (hr : cfg.r < 2 ^ (64 * cfg.limbs)) :
    MsmOK G cfg (InRange cfg) :=
  ⟨fun bases ks hks hsize => msmBigint_spec_zip cfg hr0 hr bases ks hks hsize⟩

/-- `ChunkedPippenger`: every add history, every buffer size -/
theorem chunked_pippenger_correct (cfg : Cfg) (hr0 : 0 < cfg.r) (hr : cfg.r < 2 ^ (64 * cfg.limbs))
    (bufSize : Nat) (adds : List (G × List Nat))
    (hP : ∀ a ∈ adds, a.2.length = cfg.limbs ∧ WF a.2 ∧ value a.2 < 2 ^ cfg.numBits)
    (hB : adds.length < 2 ^ 64 ∨ (0 < bufSize ∧ bufSize < 2 ^ 64)) :
    Chunked.run cfg bufSize adds = .ok (pairSum adds) :=
  Chunked.run_spec_inRange (msmOK_of_cfg cfg hr0 hr) bufSize adds hP hB

end Ark.C05
