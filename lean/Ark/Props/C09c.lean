import Ark.Proofs.SurfaceC
/-
  Property C09c — the API surface of the serialisation flags and of `AffineRepr::from_random_bytes`
  (`Ark.Model.Bytes`, model of ec/src/models/short_weierstrass/{affine,serialization_flags}.rs,
  ec/src/models/twisted_edwards/{affine,serialization_flags}.rs, serialize/src/flags.rs).

  1. flag algebra of `SWFlags` / `TEFlags`: `from_u8 ∘ u8_bitmask`, `from_u8` on all 256 bytes,
     `from_u8_remove_flags`, the `Default` flags, `from_y_coordinate` / `from_x_coordinate`
  2. `from_random_bytes_with_flags` and `from_random_bytes` never panic on a real configuration
  3. every point returned by `from_random_bytes` is on the curve
  4. the recorded sign inversion of the short-Weierstrass `from_random_bytes`, and the twisted-Edwards
     round trip (under the contract `FrbRT`)
  5. the contract `FrbRT` holds for every real prime-field configuration: unconditional forms of 3 and 4

  Standing notions (Ark/Proofs/Bytes.lean): `WFc`, `FlagsOK`, `SignLaws`, `SqrtOK`, `LtOK`; and the
  contract `FrbRT K canon frb` (Ark/Proofs/SurfaceC.lean) between the field's
  `from_random_bytes_with_flags` and its `serialize_with_flags`: what the latter writes for a canonical
  element and a flag, the former reads back as that element and flag.
-/
namespace Ark.C09c
open Ark Ark.Bytes

/-! ## 1. Flag algebra -/

/-- `from_u8(f.u8_bitmask()) = Some(f)` -/
theorem sw_from_u8_bitmask (f : SWFlags) : Flags.fromU8 (Flags.u8Bitmask f) = some f :=
  Bytes.sw_fromU8_bitmask f
theorem te_from_u8_bitmask (f : TEFlags) : Flags.fromU8 (Flags.u8Bitmask f) = some f :=
  Bytes.te_fromU8_bitmask f
theorem empty_from_u8_bitmask (f : EmptyFlags) : Flags.fromU8 (Flags.u8Bitmask f) = some f :=
  Bytes.empty_fromU8_bitmask f

/-- `SWFlags::from_u8` on each of the 256 bytes: bit 7 is "negative", bit 6 is "infinity", both set is
    rejected -/
theorem sw_from_u8_byte (v : Nat) (hv : v < 256) :
    Flags.fromU8 (Fl := SWFlags) v =
      (if v < 64 then some .yIsPositive else if v < 128 then some .pointAtInfinity
       else if v < 192 then some .yIsNegative else none) :=
  Bytes.sw_fromU8_byte v hv

theorem sw_from_u8_both_bits_rejected (v : Nat) (h1 : 192 ≤ v) (h2 : v < 256) :
    Flags.fromU8 (Fl := SWFlags) v = none := by
  rw [sw_from_u8_byte v h2, if_neg (by omega), if_neg (by omega), if_neg (by omega)]

/-- … and on any `u8`-valued expression: only bits 6 and 7 are read -/
theorem sw_from_u8_bits (v : Nat) : Flags.fromU8 (Fl := SWFlags) v =
    (match v / 64 % 4 with
      | 0 => some .yIsPositive | 1 => some .pointAtInfinity | 2 => some .yIsNegative | _ => none) :=
  swFlags_fromU8 v

/-- `TEFlags::from_u8` never fails: bit 7 is "negative" -/
theorem te_from_u8_byte (v : Nat) (hv : v < 256) :
    Flags.fromU8 (Fl := TEFlags) v = (if v < 128 then some .xIsPositive else some .xIsNegative) :=
  Bytes.te_fromU8_byte v hv

/-- `from_u8_remove_flags`: the flag of `from_u8`, and `*value` with exactly the two (one) flag bits
    cleared; `None` leaves the byte alone -/
theorem sw_remove_flags (v : Nat) (hv : v < 256) :
    fromU8RemoveFlags SWFlags v = (Flags.fromU8 (Fl := SWFlags) v).map (fun f => (f, v % 64)) :=
  Bytes.sw_removeFlags_byte v hv
theorem te_remove_flags (v : Nat) (hv : v < 256) :
    fromU8RemoveFlags TEFlags v = (Flags.fromU8 (Fl := TEFlags) v).map (fun f => (f, v % 128)) :=
  Bytes.te_removeFlags_byte v hv

/-- the cleared byte and the mask of the returned flag recompose the byte, without overlap -/
theorem sw_remove_flags_recompose (v : Nat) (hv : v < 256) (f : SWFlags) (v' : Nat)
    (h : fromU8RemoveFlags SWFlags v = some (f, v')) :
    v' ||| Flags.u8Bitmask f = v ∧ v' &&& Flags.u8Bitmask f = 0 ∧ v' < 64 :=
  Bytes.sw_removeFlags_recompose v hv f v' h
theorem te_remove_flags_recompose (v : Nat) (hv : v < 256) (f : TEFlags) (v' : Nat)
    (h : fromU8RemoveFlags TEFlags v = some (f, v')) :
    v' ||| Flags.u8Bitmask f = v ∧ v' &&& Flags.u8Bitmask f = 0 ∧ v' < 128 :=
  Bytes.te_removeFlags_recompose v hv f v' h

example : fromU8RemoveFlags SWFlags 0xA5 = some (.yIsNegative, 0x25) ∧
    fromU8RemoveFlags SWFlags 0x65 = some (.pointAtInfinity, 0x25) ∧
    fromU8RemoveFlags SWFlags 0xE5 = none ∧
    fromU8RemoveFlags TEFlags 0xE5 = some (.xIsNegative, 0x65) := by decide +kernel

/-- the `Default` flags: for `SWFlags` it is `YIsNegative` (mask `1 << 7`), i.e. NOT the flag of the
    zero byte; for `TEFlags` it is `XIsPositive` (mask 0) -/
theorem default_flags :
    SWFlags.dflt = .yIsNegative ∧ Flags.u8Bitmask SWFlags.dflt = 128 ∧
    Flags.fromU8 (Fl := SWFlags) 0 = some .yIsPositive ∧
    SWFlags.infinityFlag = .pointAtInfinity ∧ Flags.u8Bitmask SWFlags.infinityFlag = 64 ∧
    TEFlags.dflt = .xIsPositive ∧ Flags.u8Bitmask TEFlags.dflt = 0 ∧
    Flags.fromU8 (Fl := TEFlags) 0 = some TEFlags.dflt := by decide +kernel

section flagsY
variable {F : Type} [Add F] [Sub F] [Mul F] [Neg F] [Zero F] [One F] [Inv F] [DecidableEq F]

/-- `SWFlags::from_y_coordinate(y)` is the flag `to_flags` computes for a finite point with that `y`:
    `YIsPositive` iff `y ≤ −y`; never the infinity flag -/
theorem sw_flags_from_y (K : Codec F) (x y : F) :
    swFlagsFromY K y = swToFlags K ⟨x, y, false⟩ ∧
    (swFlagsFromY K y).isPositive = some (K.le y (-y)) ∧
    (swFlagsFromY K y).isInfinity = false :=
  ⟨swFlagsFromY_eq_toFlags K x y, swFlagsFromY_isPositive K y, swFlagsFromY_not_infinity K y⟩

/-- `TEFlags::from_x_coordinate(x)`: `XIsNegative` iff not `x ≤ −x` -/
theorem te_flags_from_x (K : Codec F) (x : F) : (teFlagsFromX K x).isNegative = !K.le x (-x) :=
  teFlagsFromX_isNegative K x

end flagsY

example : swFlagsFromY (fpCodec ⟨13, 1⟩) ⟨5⟩ = .yIsPositive ∧ swFlagsFromY (fpCodec ⟨13, 1⟩) ⟨8⟩ = .yIsNegative ∧
    swFlagsFromY (fpCodec ⟨13, 1⟩) ⟨0⟩ = .yIsPositive ∧ teFlagsFromX (fpCodec ⟨13, 1⟩) ⟨9⟩ = .xIsNegative := by
  decide +kernel

/-! ## 2. No panic -/

/-- `Fp::from_random_bytes_with_flags`: on a real configuration (`N ≥ 1`, the modulus fills the top
    limb) no flag type and no byte string makes it panic -/
theorem fp_from_random_bytes_total {c : FpCfg} (h : WFc c) (Fl : Type) [Flags Fl] (bytes : List Nat) :
    fpFromRandomBytesFlags c Fl bytes ≠ .panic :=
  fpFromRandomBytesFlags_no_panic h Fl bytes

/-- the extension-field templates (any tower) -/
theorem ext_from_random_bytes_total {c : FpCfg} (h : WFc c) (t : Tower) (Fl : Type) [Flags Fl]
    (bytes : List Nat) : extFromRandomBytesFlags c Fl t bytes ≠ .panic :=
  extFromRandomBytesFlags_no_panic h t Fl bytes

theorem fp2_from_random_bytes_total {c : FpCfg} (h : WFc c) (β : Nat) (Fl : Type) [Flags Fl]
    (bytes : List Nat) : fp2FromRandomBytesFlags c β Fl bytes ≠ .panic :=
  fp2FromRandomBytesFlags_no_panic h β Fl bytes

/-- `N = 0` is the only way to the panic (the slice `buffers[N - 1]`) -/
example : fpFromRandomBytesFlags ⟨13, 0⟩ SWFlags [1, 2] = .panic := by decide +kernel
example : WFc ⟨13, 1⟩ ∧ WFc ⟨2 ^ 63 - 25, 1⟩ := ⟨wfc_13, wfc_63⟩

section points
variable {F : Type} [Add F] [Sub F] [Mul F] [Neg F] [Zero F] [One F] [Inv F] [DecidableEq F]

/-- `<sw::Affine as AffineRepr>::from_random_bytes` panics only if the field's function does -/
theorem sw_from_random_bytes_total (K : Codec F) (E : SWCfg F) (frb : Frb F) (bytes : List Nat)
    (h : frb SWFlags bytes ≠ .panic) : swFromRandomBytes K E frb bytes ≠ .panic :=
  swFromRandomBytes_no_panic K E frb bytes h

theorem te_from_random_bytes_total (K : Codec F) (E : TECfg F) (frb : Frb F) (bytes : List Nat)
    (h : frb TEFlags bytes ≠ .panic) : teFromRandomBytes K E frb bytes ≠ .panic :=
  teFromRandomBytes_no_panic K E frb bytes h

end points

/-- over a prime field and over `Fp2`, with any dictionary and curve record -/
theorem sw_from_random_bytes_total_fp {c : FpCfg} (h : WFc c) (K : Codec (Fp c.p)) (E : SWCfg (Fp c.p))
    (bytes : List Nat) : swFromRandomBytes K E (fpFromRandomBytesFlags c) bytes ≠ .panic :=
  swFromRandomBytes_no_panic K E _ bytes (fpFromRandomBytesFlags_no_panic h SWFlags bytes)

theorem te_from_random_bytes_total_fp {c : FpCfg} (h : WFc c) (K : Codec (Fp c.p)) (E : TECfg (Fp c.p))
    (bytes : List Nat) : teFromRandomBytes K E (fpFromRandomBytesFlags c) bytes ≠ .panic :=
  teFromRandomBytes_no_panic K E _ bytes (fpFromRandomBytesFlags_no_panic h TEFlags bytes)

theorem sw_from_random_bytes_total_fp2 {c : FpCfg} (h : WFc c) (β : Nat) (K : Codec (Fp2 c.p β))
    (E : SWCfg (Fp2 c.p β)) (bytes : List Nat) :
    swFromRandomBytes K E (fp2FromRandomBytesFlags c β) bytes ≠ .panic :=
  swFromRandomBytes_no_panic K E _ bytes (fp2FromRandomBytesFlags_no_panic h β SWFlags bytes)

/-! ## 3. Returned points are on the curve -/

section points
variable {F : Type} [Add F] [Sub F] [Mul F] [Neg F] [Zero F] [One F] [Inv F] [DecidableEq F]

/-- every point `from_random_bytes` returns is on the curve; the point at infinity is only ever
    returned as `(0, 0, true)`.  (No subgroup test is performed.) -/
theorem sw_from_random_bytes_on_curve {K : Codec F} {canon : F → Prop} (hL : SignLaws F canon)
    (hS : SqrtOK K canon) (E : SWCfg F) (frb : Frb F) (bytes : List Nat) (P : SWAff F)
    (h : swFromRandomBytes K E frb bytes = .ok (some P)) :
    swIsOnCurve E P = true ∧ (P.infinity = true → P = ⟨0, 0, true⟩) :=
  swFromRandomBytes_onCurve hL hS E frb bytes P h

/-- twisted Edwards: `get_point_from_y_unchecked` performs no curve test; the returned point satisfies
    the curve equation solved for `x²`, `x² = (1 − y²)/(a − d·y²)` with a non-zero denominator … -/
theorem te_from_random_bytes_solved {K : Codec F} {canon : F → Prop} (hL : SignLaws F canon)
    (hS : SqrtOK K canon) (E : TECfg F) (frb : Frb F) (bytes : List Nat) (P : TEAff F)
    (h : teFromRandomBytes K E frb bytes = .ok (some P)) :
    P.x * P.x = teX2 E P.y ∧ E.a - (P.y * P.y) * E.d ≠ 0 :=
  teFromRandomBytes_solved hL hS E frb bytes P h

end points

/-- … which over a genuine field is `is_on_curve` … -/
theorem te_from_random_bytes_on_curve {F : Type} [Field F] [DecidableEq F] {K : Codec F}
    (hS : SqrtOK K (fun _ => True)) (E : TECfg F) (frb : Frb F) (bytes : List Nat) (P : TEAff F)
    (h : teFromRandomBytes K E frb bytes = .ok (some P)) : teIsOnCurve E P = true := by
  obtain ⟨h1, h2⟩ := teFromRandomBytes_solved (fieldSignLaws F) hS E frb bytes P h
  exact teIsOnCurve_of_solved E P h1 h2

/-- … and so it is inside the executable `Fp p` for a prime `p` -/
theorem te_from_random_bytes_on_curve_fp {p : ℕ} (hp : p.Prime) {K : Codec (Fp p)}
    (hS : SqrtOK K (fun x => x.val < p)) (E : TECfg (Fp p)) (frb : Frb (Fp p)) (bytes : List Nat)
    (P : TEAff (Fp p)) (h : teFromRandomBytes K E frb bytes = .ok (some P)) : teIsOnCurve E P = true := by
  obtain ⟨h1, h2⟩ := teFromRandomBytes_solved (fpSignLaws hp) hS E frb bytes P h
  exact teIsOnCurve_of_solved_fp hp E P h1 h2

/-- non-vacuity on `y² = x³ + 7` over `F_13` (7 points) and on `x² + y² = 1 + 2x²y²` over `F_13` -/
example : swFromRandomBytes (fpCodec ⟨13, 1⟩) (swCfgFp ⟨0⟩ ⟨7⟩ false 7) (fpFromRandomBytesFlags ⟨13, 1⟩) [7] =
      .ok (some ⟨⟨7⟩, ⟨8⟩, false⟩) ∧
    swIsOnCurve (swCfgFp (⟨0⟩ : Fp 13) ⟨7⟩ false 7) ⟨⟨7⟩, ⟨8⟩, false⟩ = true ∧
    swFromRandomBytes (fpCodec ⟨13, 1⟩) (swCfgFp ⟨0⟩ ⟨7⟩ false 7) (fpFromRandomBytesFlags ⟨13, 1⟩) [64] =
      .ok (some ⟨0, 0, true⟩) ∧
    -- infinity flag on a non-zero `x`, both flag bits, a non-residue: `None`
    swFromRandomBytes (fpCodec ⟨13, 1⟩) (swCfgFp ⟨0⟩ ⟨7⟩ false 7) (fpFromRandomBytesFlags ⟨13, 1⟩) [71] = .ok none ∧
    swFromRandomBytes (fpCodec ⟨13, 1⟩) (swCfgFp ⟨0⟩ ⟨7⟩ false 7) (fpFromRandomBytesFlags ⟨13, 1⟩) [199] = .ok none ∧
    swFromRandomBytes (fpCodec ⟨13, 1⟩) (swCfgFp ⟨0⟩ ⟨7⟩ false 7) (fpFromRandomBytesFlags ⟨13, 1⟩) [1] = .ok none := by
  decide +kernel
example : teFromRandomBytes (fpCodec ⟨13, 1⟩) (teCfgFp ⟨1⟩ ⟨2⟩ 8) (fpFromRandomBytesFlags ⟨13, 1⟩) [137] =
      .ok (some ⟨⟨9⟩, ⟨9⟩⟩) ∧
    teIsOnCurve (teCfgFp (⟨1⟩ : Fp 13) ⟨2⟩ 8) ⟨⟨9⟩, ⟨9⟩⟩ = true := by decide +kernel
example : SqrtOK (fpCodec ⟨13, 1⟩) (fun x => x.val < 13) := fpSqrtOK_13

/-! ## 4. `from_random_bytes` against `serialize_compressed` -/

section points
variable {F : Type} [Add F] [Sub F] [Mul F] [Neg F] [Zero F] [One F] [Inv F] [DecidableEq F]

/-- THE RECORDED SIGN INVERSION.  `to_flags` / `from_y_coordinate` set `YIsPositive` for the SMALLER
    root (`y ≤ −y`) and `deserialize_compressed` selects the smaller root for that flag, but
    `from_random_bytes` calls `get_point_from_x_unchecked(x, greatest = y_is_positive)`: the LARGER root.
    Hence on the compressed serialisation of any finite curve point `P = (x, y)` it returns `(x, −y)`
    — the negation of the point `deserialize_compressed` returns (the same point only when `y = −y`). -/
theorem sw_from_random_bytes_sign_inverted {K : Codec F} {canon : F → Prop} {frb : Frb F}
    (hR : FrbRT K canon frb) (hL : SignLaws F canon) (hS : SqrtOK K canon) (hO : LtOK K canon)
    (E : SWCfg F) (P : SWAff F) (hinf : P.infinity = false) (hx : canon P.x) (hy : canon P.y)
    (hon : swIsOnCurve E P = true) (bs : List Nat) (hs : swSerialize K P .yes = .ok bs) :
    swFromRandomBytes K E frb bs = .ok (some ⟨P.x, -P.y, false⟩) :=
  swFromRandomBytes_serialize hR hL hS hO E P hinf hx hy hon bs hs

/-- in particular, for `y ≠ −y` the result differs from `P`, which `deserialize_compressed` returns -/
theorem sw_from_random_bytes_ne_deserialize {K : Codec F} {canon : F → Prop} {frb : Frb F}
    (hR : FrbRT K canon frb) (hL : SignLaws F canon) (hS : SqrtOK K canon) (hO : LtOK K canon)
    (E : SWCfg F) (P : SWAff F) (hinf : P.infinity = false) (hx : canon P.x) (hy : canon P.y)
    (hon : swIsOnCurve E P = true) (hne : -P.y ≠ P.y) (bs : List Nat) (hs : swSerialize K P .yes = .ok bs) :
    swFromRandomBytes K E frb bs ≠ .ok (some P) := by
  rw [swFromRandomBytes_serialize hR hL hS hO E P hinf hx hy hon bs hs]
  intro h
  simp only [Outcome.ok.injEq, Option.some.injEq] at h
  exact hne (congrArg SWAff.y h)

/-- the identity is read back as the identity -/
theorem sw_from_random_bytes_identity {K : Codec F} {canon : F → Prop} {frb : Frb F}
    (hR : FrbRT K canon frb) (h0 : canon 0) (E : SWCfg F) (P : SWAff F) (hinf : P.infinity = true)
    (bs : List Nat) (hs : swSerialize K P .yes = .ok bs) :
    swFromRandomBytes K E frb bs = .ok (some ⟨0, 0, true⟩) :=
  swFromRandomBytes_serialize_identity hR h0 E P hinf bs hs

/-- twisted Edwards: `greatest = flags.is_negative()` is consistent with `from_x_coordinate`:
    `from_random_bytes` inverts `serialize_compressed` on curve points (`hsolve`/`hden`: the curve
    equation solved for `x²`, see `C09.te_solve`) -/
theorem te_from_random_bytes_round_trip {K : Codec F} {canon : F → Prop} {frb : Frb F}
    (hR : FrbRT K canon frb) (hL : SignLaws F canon) (hS : SqrtOK K canon) (hO : LtOK K canon)
    (E : TECfg F) (P : TEAff F) (hx : canon P.x) (hy : canon P.y)
    (hden : E.a - (P.y * P.y) * E.d ≠ 0) (hsolve : P.x * P.x = teX2 E P.y)
    (bs : List Nat) (hs : teSerialize K P .yes = .ok bs) :
    teFromRandomBytes K E frb bs = .ok (some P) :=
  teFromRandomBytes_serialize hR hL hS hO E P hx hy hden hsolve bs hs

end points

/-- non-vacuity of the sign inversion: `(7, 8)` on `y² = x³ + 7` over `F_13` serialises to `[135]`,
    which `deserialize_compressed` reads as `(7, 8)` and `from_random_bytes` as `(7, 5) = (7, −8)` -/
example : swSerialize (fpCodec ⟨13, 1⟩) (⟨⟨7⟩, ⟨8⟩, false⟩ : SWAff (Fp 13)) .yes = .ok [135] ∧
    runM (swDeserialize (fpCodec ⟨13, 1⟩) (swCfgFp ⟨0⟩ ⟨7⟩ false 7) .yes .yes) [135] =
      .ok ⟨⟨7⟩, ⟨8⟩, false⟩ ⟨[], 1⟩ ∧
    swFromRandomBytes (fpCodec ⟨13, 1⟩) (swCfgFp ⟨0⟩ ⟨7⟩ false 7) (fpFromRandomBytesFlags ⟨13, 1⟩) [135] =
      .ok (some ⟨⟨7⟩, ⟨5⟩, false⟩) ∧
    (-(⟨8⟩ : Fp 13)) = ⟨5⟩ := by decide +kernel
/-- … and of the twisted-Edwards round trip -/
example : teSerialize (fpCodec ⟨13, 1⟩) (⟨⟨9⟩, ⟨9⟩⟩ : TEAff (Fp 13)) .yes = .ok [137] ∧
    teFromRandomBytes (fpCodec ⟨13, 1⟩) (teCfgFp ⟨1⟩ ⟨2⟩ 8) (fpFromRandomBytesFlags ⟨13, 1⟩) [137] =
      .ok (some ⟨⟨9⟩, ⟨9⟩⟩) := by decide +kernel
/-- the other hypotheses on `F_13` -/
example : SignLaws (Fp 13) (fun x => x.val < 13) ∧ LtOK (fpCodec ⟨13, 1⟩) (fun x => x.val < 13) :=
  ⟨fpSignLaws (by decide), fpLtOK ⟨13, 1⟩⟩

/-! ## 5. The contract `FrbRT` holds for the prime fields of the model: unconditional forms -/

/-- `Fp::from_random_bytes_with_flags` inverts `Fp::serialize_with_flags`: for every real
    configuration (`WFc`; the byte count `8N + 1` fits a `usize`), every flag type that lives in the top
    bits of a byte (`FlagsOK`: `EmptyFlags`, `SWFlags`, `TEFlags`), every reduced element and every flag -/
theorem fp_from_random_bytes_inverts_serialize {c : FpCfg} (h : WFc c) (hNb : 8 * c.N + 1 < 2 ^ 64)
    {Fl : Type} [Flags Fl] (hF : FlagsOK Fl) (x : Fp c.p) (hx : x.val < c.p) (fl : Fl) (bs : List Nat)
    (hs : fpSerFlags c Fl x fl = .ok bs) : fpFromRandomBytesFlags c Fl bs = .ok (some (x, fl)) :=
  fpFrb_RT h hF x hx hNb fl bs hs

/-- i.e. the contract of section 4 holds for the prime-field dictionaries -/
theorem fp_frb_rt {c : FpCfg} (h : WFc c) (hNb : 8 * c.N + 1 < 2 ^ 64) :
    FrbRT (fpCodec c) (fun x => x.val < c.p) (fpFromRandomBytesFlags c) ∧
    FrbRT (fpCodecV c) (fun x => x.val < c.p) (fpFromRandomBytesFlags c) :=
  ⟨fpFrbRT h hNb, fpFrbRTV h hNb⟩

/-- THE SIGN INVERSION, unconditionally over every prime field (dictionary `fpCodecV`: the square root
    is the C11 model of `Field::sqrt`): on the compressed serialisation of a finite curve point `(x, y)`
    with reduced coordinates, `from_random_bytes` returns `(x, −y)` -/
theorem sw_from_random_bytes_sign_inverted_fp {c : FpCfg} (h : WFc c) (hNb : 8 * c.N + 1 < 2 ^ 64)
    (hp : c.p.Prime) (E : SWCfg (Fp c.p)) (P : SWAff (Fp c.p)) (hinf : P.infinity = false)
    (hx : P.x.val < c.p) (hy : P.y.val < c.p) (hon : swIsOnCurve E P = true) (bs : List Nat)
    (hs : swSerialize (fpCodecV c) P .yes = .ok bs) :
    swFromRandomBytes (fpCodecV c) E (fpFromRandomBytesFlags c) bs = .ok (some ⟨P.x, -P.y, false⟩) :=
  swFromRandomBytes_serialize (fpFrbRTV h hNb) (fpSignLaws hp) (fpSqrtOKV hp h.p_lt) (fpLtOKV c)
    E P hinf hx hy hon bs hs

/-- … while `deserialize_compressed` returns `(x, y)` on the same bytes (`C09b.sw_round_trip_fp_unconditional`) -/
theorem sw_deserialize_same_bytes_fp {c : FpCfg} (h : WFc c) (hp : c.p.Prime)
    (E : SWCfg (Fp c.p)) (P : SWAff (Fp c.p)) (hinf : P.infinity = false)
    (hx : P.x.val < c.p) (hy : P.y.val < c.p) (hon : swIsOnCurve E P = true) (bs : List Nat)
    (hs : swSerialize (fpCodecV c) P .yes = .ok bs) :
    runM (swDeserialize (fpCodecV c) E .yes .no) bs = .ok P ⟨[], bs.length⟩ := by
  have := swRT_compressed (fpCodecVOK h) h.p_pos (fpSignLaws hp) (fpSqrtOKV hp h.p_lt) (fpLtOKV c) E P
    (fun _ => ⟨hx, hy⟩) hon .no bs hs [] 0
  rw [List.append_nil, Nat.zero_add, if_neg (by simp [hinf]), if_neg (by simp)] at this
  exact this

/-- twisted Edwards, unconditionally over every prime field, for a curve with `a ≠ d`:
    `from_random_bytes ∘ serialize_compressed` is the identity on curve points with reduced coordinates -/
theorem te_from_random_bytes_round_trip_fp {c : FpCfg} (h : WFc c) (hNb : 8 * c.N + 1 < 2 ^ 64)
    (hp : c.p.Prime) (E : TECfg (Fp c.p)) (had : E.a.val % c.p ≠ E.d.val % c.p)
    (P : TEAff (Fp c.p)) (hx : P.x.val < c.p) (hy : P.y.val < c.p) (hon : teIsOnCurve E P = true)
    (bs : List Nat) (hs : teSerialize (fpCodecV c) P .yes = .ok bs) :
    teFromRandomBytes (fpCodecV c) E (fpFromRandomBytesFlags c) bs = .ok (some P) :=
  teFromRandomBytes_serialize (fpFrbRTV h hNb) (fpSignLaws hp) (fpSqrtOKV hp h.p_lt) (fpLtOKV c) E P hx hy
    (Bytes.te_solve_fp hp E P hon had).1 (Bytes.te_solve_fp hp E P hon had).2 bs hs

/-- every point returned over a prime field is on the curve (both curve forms) -/
theorem sw_from_random_bytes_on_curve_fp {c : FpCfg} (h : WFc c) (hp : c.p.Prime) (E : SWCfg (Fp c.p))
    (bytes : List Nat) (P : SWAff (Fp c.p))
    (hr : swFromRandomBytes (fpCodecV c) E (fpFromRandomBytesFlags c) bytes = .ok (some P)) :
    swIsOnCurve E P = true :=
  (swFromRandomBytes_onCurve (fpSignLaws hp) (fpSqrtOKV hp h.p_lt) E _ bytes P hr).1

theorem te_from_random_bytes_on_curve_fpv {c : FpCfg} (h : WFc c) (hp : c.p.Prime) (E : TECfg (Fp c.p))
    (bytes : List Nat) (P : TEAff (Fp c.p))
    (hr : teFromRandomBytes (fpCodecV c) E (fpFromRandomBytesFlags c) bytes = .ok (some P)) :
    teIsOnCurve E P = true :=
  te_from_random_bytes_on_curve_fp hp (fpSqrtOKV hp h.p_lt) E _ bytes P hr

/-- the same over `Fp2 = Fp[u]/(u² − β)` (`β` a non-residue): the contract, and the sign inversion on
    the compressed serialisation of a finite curve point of e.g. a G2 -/
theorem fp2_frb_rt {c : FpCfg} (h : WFc c) (hNb : 8 * c.N + 1 < 2 ^ 64) (β : Nat) :
    FrbRT (fp2Codec c β) (fun x => x.c0.val < c.p ∧ x.c1.val < c.p) (fp2FromRandomBytesFlags c β) ∧
    FrbRT (fp2CodecV c β) (fun x => x.c0.val < c.p ∧ x.c1.val < c.p) (fp2FromRandomBytesFlags c β) :=
  ⟨fp2FrbRT h hNb β, fp2FrbRTV h hNb β⟩

theorem sw_from_random_bytes_sign_inverted_fp2 {c : FpCfg} (h : WFc c) (hNb : 8 * c.N + 1 < 2 ^ 64)
    (hp : c.p.Prime) (β : ℕ) (hβ : ∀ x : ZMod c.p, x * x ≠ ((β : ℕ) : ZMod c.p))
    (E : SWCfg (Fp2 c.p β)) (P : SWAff (Fp2 c.p β)) (hinf : P.infinity = false)
    (hx : P.x.c0.val < c.p ∧ P.x.c1.val < c.p) (hy : P.y.c0.val < c.p ∧ P.y.c1.val < c.p)
    (hon : swIsOnCurve E P = true) (bs : List Nat)
    (hs : swSerialize (fp2CodecV c β) P .yes = .ok bs) :
    swFromRandomBytes (fp2CodecV c β) E (fp2FromRandomBytesFlags c β) bs = .ok (some ⟨P.x, -P.y, false⟩) :=
  swFromRandomBytes_serialize (fp2FrbRTV h hNb β) (fp2SignLaws hp β hβ) (fp2SqrtOKV hp h.p_lt β hβ)
    (fp2LtOKV c β) E P hinf hx hy hon bs hs

/-- the hypothesis on `β` is satisfiable: 2 is a non-residue modulo 13 (the `Fp2` of the C10b examples) -/
example : ∀ x : ZMod 13, x * x ≠ ((2 : ℕ) : ZMod 13) := by decide

/-- non-vacuity over `F_97` (7 bits: the two flag bits go to a second byte) with the C11 square root:
    `(3, 6)` is on `y² = x³ + 9` (`36 = 27 + 9`) -/
example : WFc ⟨97, 1⟩ ∧ Nat.Prime 97 ∧ 8 * (⟨97, 1⟩ : FpCfg).N + 1 < 2 ^ 64 := ⟨wfc_97, prime_97, by decide⟩
example : swIsOnCurve (⟨⟨0⟩, ⟨9⟩, fun _ => true⟩ : SWCfg (Fp 97)) ⟨⟨3⟩, ⟨6⟩, false⟩ = true ∧
    swSerialize (fpCodecV ⟨97, 1⟩) (⟨⟨3⟩, ⟨6⟩, false⟩ : SWAff (Fp 97)) .yes = .ok [3, 0] ∧
    swFromRandomBytes (fpCodecV ⟨97, 1⟩) (⟨⟨0⟩, ⟨9⟩, fun _ => true⟩ : SWCfg (Fp 97))
      (fpFromRandomBytesFlags ⟨97, 1⟩) [3, 0] = .ok (some ⟨⟨3⟩, ⟨91⟩, false⟩) ∧
    (-(⟨6⟩ : Fp 97)) = ⟨91⟩ := by decide +kernel

/-- the contract `FrbRT` on concrete prime fields: every element of `F_13` (one limb, flags inside the
    only byte) with every flag; sample elements of a 63-bit field (the two `SWFlags` bits spill into a
    ninth byte) and of a two-limb field -/
example : (List.range 13).all (fun x =>
    [SWFlags.yIsPositive, .pointAtInfinity, .yIsNegative].all (fun fl =>
      match fpSerFlags ⟨13, 1⟩ SWFlags ⟨x⟩ fl with
      | .ok bs => decide (fpFromRandomBytesFlags ⟨13, 1⟩ SWFlags bs = .ok (some (⟨x⟩, fl)))
      | _ => false) &&
    [TEFlags.xIsPositive, .xIsNegative].all (fun fl =>
      match fpSerFlags ⟨13, 1⟩ TEFlags ⟨x⟩ fl with
      | .ok bs => decide (fpFromRandomBytesFlags ⟨13, 1⟩ TEFlags bs = .ok (some (⟨x⟩, fl)))
      | _ => false)) = true := by decide +kernel
example : [0, 1, 255, 256, 2 ^ 62 + 12345, 2 ^ 63 - 26].all (fun x =>
    [SWFlags.yIsPositive, .pointAtInfinity, .yIsNegative].all (fun fl =>
      match fpSerFlags ⟨2 ^ 63 - 25, 1⟩ SWFlags ⟨x⟩ fl with
      | .ok bs => decide (bs.length = 9 ∧
          fpFromRandomBytesFlags ⟨2 ^ 63 - 25, 1⟩ SWFlags bs = .ok (some (⟨x⟩, fl)))
      | _ => false)) = true := by decide +kernel
example : WFc ⟨2 ^ 64 + 13, 2⟩ ∧ [0, 1, 2 ^ 64 - 1, 2 ^ 64, 2 ^ 64 + 12].all (fun x =>
    [SWFlags.yIsPositive, .pointAtInfinity, .yIsNegative].all (fun fl =>
      match fpSerFlags ⟨2 ^ 64 + 13, 2⟩ SWFlags ⟨x⟩ fl with
      | .ok bs => decide (bs.length = 9 ∧
          fpFromRandomBytesFlags ⟨2 ^ 64 + 13, 2⟩ SWFlags bs = .ok (some (⟨x⟩, fl)))
      | _ => false)) = true := by
  refine ⟨⟨by decide, by decide, by decide⟩, by decide +kernel⟩

end Ark.C09c
