import Ark.Proofs.PolyB
import Mathlib.Data.ZMod.Basic
import Mathlib.Algebra.Field.ZMod
import Mathlib.Tactic.NormNum.Prime
import Mathlib.RingTheory.RootsOfUnity.PrimitiveRoots
/-
  Property C08 (part b): sparse univariate polynomials of `ark-poly`
  (`poly/src/polynomial/univariate/{sparse,mod}.rs`, the dense/sparse parts of
  `poly/src/evaluations/univariate/mod.rs`) — the sparse constructor, sparse operators,
  dense/sparse conversions and mixed operators, `divide_with_q_and_r` with sparse operands,
  evaluation over a domain and interpolation.  The model is `Ark.Model.Poly`; everything here
  is over an abstract `[Field F] [DecidableEq F]`.  Only property theorems and non-vacuity
  examples (over `ZMod 5`); helpers are in `Ark/Proofs/PolyB.lean`.

  Vocabulary (`Ark.PolyB`):
  * `coeffB p i = p.getD i 0`, `CanonB p : p.getLast? ≠ some 0` (dense vectors);
  * `scoeff s i` = sum of the stored terms of degree `i`,
    `SCanon s` : degrees strictly increasing and every stored coefficient non-zero;
  * `sdeg s` = last stored degree (`0` for the empty list).
-/
namespace Ark.C08
open Ark Ark.Poly Ark.PolyB

set_option linter.unusedSectionVars false

instance factPrime5B : Fact (Nat.Prime 5) := ⟨by norm_num⟩

variable {F : Type} [Field F] [DecidableEq F]

/-! ## 6. the sparse constructor and its corollaries -/

/-- `SparsePolynomial::from_coefficients_vec` on EVERY term list (duplicates, zero coefficients,
    unsorted): canonical output, same coefficient function. -/
theorem sFromCoefficientsVec_canonical (v : Terms F) :
    SCanon (sFromCoefficientsVec v) ∧ ∀ i, scoeff (sFromCoefficientsVec v) i = scoeff v i :=
  sFromCoefficientsVec_spec v

/-- canonical forms are unique: the constructor is determined by the coefficient function -/
theorem sFromCoefficientsVec_unique (v : Terms F) (s : Terms F) (hs : SCanon s)
    (h : ∀ i, scoeff s i = scoeff v i) : sFromCoefficientsVec v = s :=
  scanon_ext _ _ (sFromCoefficientsVec_spec v).1 hs
    (fun i => by rw [(sFromCoefficientsVec_spec v).2, h])

-- unsorted, duplicate degrees (one pair cancelling), a stored zero
example : sFromCoefficientsVec [(3, (2 : ZMod 5)), (1, 4), (3, 3), (0, 0), (1, 2), (7, 1)]
    = [(1, 1), (7, 1)] := by decide +kernel
example : ¬ SCanon [(3, (2 : ZMod 5)), (1, 4), (3, 3), (0, 0), (1, 2), (7, 1)] := by decide +kernel
example : SCanon [(1, (1 : ZMod 5)), (7, 1)] := by decide +kernel

/-- `SparsePolynomial::mul` (for all stored operands, canonical or not): canonical, with the
    convolution coefficients `Σ_{i+j=k} s_i · t_j`. -/
theorem sMul_canonical (s t : Terms F) :
    SCanon (sMul s t) ∧
    ∀ k, scoeff (sMul s t) k = ∑ i ∈ Finset.range (k + 1), scoeff s i * scoeff t (k - i) :=
  sMul_spec s t

-- (1 + x^2)(2 + 3x^2) = 2 + 0·x^2 + 3x^4 over ZMod 5: the middle term cancels
example : sMul [(0, (1 : ZMod 5)), (2, 1)] [(0, 2), (2, 3)] = [(0, 2), (4, 3)] := by decide +kernel

/-- `From<DensePolynomial> for SparsePolynomial` (any stored vector) -/
theorem denseToSparse_canonical (a : List F) :
    SCanon (denseToSparse a) ∧ ∀ i, scoeff (denseToSparse a) i = coeffB a i :=
  denseToSparse_spec a

example : denseToSparse [(0 : ZMod 5), 2, 0, 0, 4, 0] = [(1, 2), (4, 4)] := by decide +kernel

/-- `domain.vanishing_polynomial()` is `X^n − h^n` -/
theorem vanishingPolynomial_canonical (D : Domain F) :
    SCanon D.vanishingPolynomial ∧ ∀ i, scoeff D.vanishingPolynomial i
      = (if i = D.size then 1 else 0) - (if i = 0 then D.offset ^ D.size else 0) :=
  vanishingPolynomial_spec D

/-- its stored form for a non-trivial domain -/
theorem vanishingPolynomial_stored (D : Domain F) (hn : D.size ≠ 0) (hh : D.offset ≠ 0) :
    D.vanishingPolynomial = [(0, -(D.offset ^ D.size)), (D.size, 1)] :=
  vanishingPolynomial_eq D hn hh

-- size 4, generator 2, coset offset 3 in ZMod 5: X^4 − 3^4 = X^4 − 1
example : (⟨4, 2, 3⟩ : Domain (ZMod 5)).vanishingPolynomial = [(0, 4), (4, 1)] := by
  decide +kernel

/-! ## 7. sparse operators -/

/-- `&Sparse + &Sparse`: merges equal degrees, drops cancelled terms, never panics -/
theorem sAdd_canonical (s t : Terms F) (hs : SCanon s) (ht : SCanon t) :
    ∃ r, sAdd s t = .ok r ∧ SCanon r ∧ ∀ i, scoeff r i = scoeff s i + scoeff t i :=
  sAdd_spec s t hs ht

-- equal degree merged (0), cancelled leading term (5), interleaving (2 / 3), cancelled constant
example : SCanon [(0, (1 : ZMod 5)), (2, 3), (5, 1)] ∧ SCanon [(0, (2 : ZMod 5)), (3, 1), (5, 4)] ∧
    sAdd [(0, (1 : ZMod 5)), (2, 3), (5, 1)] [(0, 2), (3, 1), (5, 4)]
      = .ok [(0, 3), (2, 3), (3, 1)] := by decide +kernel
example : sAdd [(0, (1 : ZMod 5)), (2, 3)] [(0, 4)] = .ok [(2, 3)] := by decide +kernel

/-- `Sparse += &Sparse` -/
theorem sAddAssign_canonical (s t : Terms F) (hs : SCanon s) (ht : SCanon t) :
    ∃ r, sAddAssign s t = .ok r ∧ SCanon r ∧ ∀ i, scoeff r i = scoeff s i + scoeff t i :=
  sAdd_spec s t hs ht

example : sAddAssign [(1, (1 : ZMod 5))] [(1, 4), (2, 2)] = .ok [(2, 2)] := by decide +kernel

/-- `Sparse -= &Sparse` -/
theorem sSubAssign_canonical (s t : Terms F) (hs : SCanon s) (ht : SCanon t) :
    ∃ r, sSubAssign s t = .ok r ∧ SCanon r ∧ ∀ i, scoeff r i = scoeff s i - scoeff t i :=
  sSubAssign_spec s t hs ht

example : sSubAssign [(0, (1 : ZMod 5)), (4, 2)] [(1, 1), (4, 2)] = .ok [(0, 1), (1, 4)] := by
  decide +kernel

/-- `Sparse += (f, &Sparse)` for every `f`, zero included -/
theorem sAddAssignScaled_canonical (s t : Terms F) (f : F) (hs : SCanon s) (ht : SCanon t) :
    ∃ r, sAddAssignScaled s f t = .ok r ∧ SCanon r ∧
      ∀ i, scoeff r i = scoeff s i + f * scoeff t i :=
  sAddAssignScaled_spec s t f hs ht

example : sAddAssignScaled [(0, (1 : ZMod 5)), (3, 1)] 2 [(3, 2), (6, 1)] = .ok [(0, 1), (6, 2)] := by
  decide +kernel
example : sAddAssignScaled [(0, (1 : ZMod 5)), (3, 1)] 0 [(3, 2), (6, 1)] = .ok [(0, 1), (3, 1)] := by
  decide +kernel

/-- `Neg for SparsePolynomial` -/
theorem sNeg_canonical (s : Terms F) :
    (SCanon s → SCanon (sNeg s)) ∧ ∀ i, scoeff (sNeg s) i = - scoeff s i :=
  sNeg_spec s

example : sNeg [(0, (1 : ZMod 5)), (3, 2)] = [(0, 4), (3, 3)] := by decide +kernel

/-- `&Sparse * F`; `f = 0` gives the empty list -/
theorem sScale_canonical (s : Terms F) (f : F) :
    (SCanon s → SCanon (sScale s f)) ∧ (∀ i, scoeff (sScale s f) i = scoeff s i * f) ∧
    (f = 0 → sScale s f = []) :=
  sScale_spec s f

example : sScale [(0, (1 : ZMod 5)), (3, 2)] 3 = [(0, 3), (3, 1)] := by decide +kernel
example : sScale [(0, (1 : ZMod 5)), (3, 2)] 0 = [] := by decide +kernel

/-- `Polynomial::degree` (sparse) never panics on a canonical operand: the last stored degree,
    `0` for the zero polynomial (`sdeg [] = 0`, `sdeg (init ++ [t]) = t.1`). -/
theorem sDegree_canonical (s : Terms F) (hs : SCanon s) :
    sDegree s = .ok (sdeg s) ∧ sdeg ([] : Terms F) = 0 ∧
    (∀ (init : Terms F) (t : Nat × F), sdeg (init ++ [t]) = t.1) ∧ ∀ t ∈ s, t.1 ≤ sdeg s :=
  ⟨sDegree_scanon s hs, sdeg_nil, sdeg_concat, scanon_le_sdeg s hs⟩

example : sDegree [(0, (1 : ZMod 5)), (7, 2)] = .ok 7 := by decide +kernel
example : sDegree ([] : Terms (ZMod 5)) = .ok 0 := by decide +kernel
-- the assertion is real: a stored trailing zero panics (non-canonical input)
example : sDegree [(0, (1 : ZMod 5)), (7, 0)] = .panic := by decide +kernel

/-- `Polynomial::evaluate` (sparse): `Σ c·x^d` through the table of repeated squarings -/
theorem sEvaluate_canonical (s : Terms F) (x : F) (hs : SCanon s) :
    sEvaluate s x = .ok ((s.map (fun t => t.2 * x ^ t.1)).sum) :=
  sEvaluate_spec s x hs

-- 1 + 2·x^7 at x = 3 over ZMod 5: 3^7 = 2, so 1 + 4 = 0
example : sEvaluate [(0, (1 : ZMod 5)), (7, 2)] 3 = .ok 0 := by decide +kernel
example : sEvaluate [(2, (1 : ZMod 5)), (6, 3), (13, 2)] 2 = .ok 0 := by decide +kernel

/-! ## 8. conversions and mixed dense / sparse operators -/

/-- `From<SparsePolynomial> for DensePolynomial` -/
theorem sparseToDense_canonical (s : Terms F) (hs : SCanon s) :
    ∃ r, sparseToDense s = .ok r ∧ CanonB r ∧ ∀ i, coeffB r i = scoeff s i := by
  obtain ⟨r, h1, h2, h3, _⟩ := sparseToDense_spec s hs
  exact ⟨r, h1, h2, h3⟩

example : sparseToDense [(1, (2 : ZMod 5)), (4, 3)] = .ok [0, 2, 0, 0, 3] := by decide +kernel
example : sparseToDense ([] : Terms (ZMod 5)) = .ok [] := by decide +kernel

/-- `&Dense + &Sparse` -/
theorem addDS_canonical (a : List F) (s : Terms F) (ha : CanonB a) (hs : SCanon s) :
    ∃ r, addDS a s = .ok r ∧ CanonB r ∧ ∀ i, coeffB r i = coeffB a i + scoeff s i :=
  addDS_spec a s ha hs

-- sparse degree above the dense one / below it with a cancelling leading term
example : CanonB [(1 : ZMod 5), 2] ∧ SCanon [(1, (3 : ZMod 5)), (4, 1)] ∧
    addDS [(1 : ZMod 5), 2] [(1, 3), (4, 1)] = .ok [1, 0, 0, 0, 1] := by decide +kernel
example : addDS [(1 : ZMod 5), 0, 2] [(0, 1), (2, 3)] = .ok [2] := by decide +kernel

/-- `Dense += &Sparse` -/
theorem addAssignDS_canonical (a : List F) (s : Terms F) (ha : CanonB a) (hs : SCanon s) :
    ∃ r, addAssignDS a s = .ok r ∧ CanonB r ∧ ∀ i, coeffB r i = coeffB a i + scoeff s i :=
  addAssignDS_spec a s ha hs

example : addAssignDS [(1 : ZMod 5), 2] [(1, 3), (4, 1)] = .ok [1, 0, 0, 0, 1] := by decide +kernel
example : addAssignDS [(1 : ZMod 5), 0, 2] [(0, 1), (2, 3)] = .ok [2] := by decide +kernel
example : addAssignDS ([] : List (ZMod 5)) [(0, 1), (2, 3)] = .ok [1, 0, 3] := by decide +kernel

/-- `&Dense - &Sparse` -/
theorem subDS_canonical (a : List F) (s : Terms F) (ha : CanonB a) (hs : SCanon s) :
    ∃ r, subDS a s = .ok r ∧ CanonB r ∧ ∀ i, coeffB r i = coeffB a i - scoeff s i :=
  subDS_spec a s ha hs

example : subDS [(1 : ZMod 5), 2] [(1, 3), (4, 1)] = .ok [1, 4, 0, 0, 4] := by decide +kernel
example : subDS [(1 : ZMod 5), 0, 2] [(0, 4), (2, 2)] = .ok [2] := by decide +kernel
example : subDS ([] : List (ZMod 5)) [(0, 4), (2, 2)] = .ok [1, 0, 3] := by decide +kernel

/-- `Dense -= &Sparse` is total: canonical result, coefficientwise difference (for EVERY stored
    operand pair, canonical or not). -/
theorem subAssignDS_canonical (a : List F) (s : Terms F) :
    CanonB (subAssignDS a s) ∧ ∀ i, coeffB (subAssignDS a s) i = coeffB a i - scoeff s i :=
  subAssignDS_spec a s

example : subAssignDS [(1 : ZMod 5), 2] [(1, 3), (4, 1)] = [1, 4, 0, 0, 4] := by decide +kernel
example : subAssignDS [(1 : ZMod 5), 0, 2] [(0, 4), (2, 2)] = [2] := by decide +kernel

/-! ## 9. `divide_with_q_and_r` with sparse operands

The model runs the same `while` loop for every mix (the divisor enters through
`iter_with_index`), so one loop theorem (`Ark.PolyB.divLoop_spec`, for an arbitrary divisor term
list) gives all mixes directly; no dense/dense hypothesis is needed. -/

/-- sparse dividend, dense divisor -/
theorem divide_sd (s : Terms F) (b : List F) (hs : SCanon s) (hb : CanonB b) (hb0 : b ≠ []) :
    ∃ q r, divideWithQAndR (.s s) (.d b) = .ok (q, r) ∧ CanonB q ∧ CanonB r ∧
      (∀ k, scoeff s k
        = ∑ i ∈ Finset.range (k + 1), coeffB q i * coeffB b (k - i) + coeffB r k) ∧
      (r = [] ∨ r.length - 1 < b.length - 1) :=
  divideWithQAndR_spec (.s s) (.d b) hs hb (dos_isZero_d b hb hb0)

-- x^3 + 2 = (x + 1)(x^2 − x + 1) + 1 over ZMod 5
example : SCanon [(0, (2 : ZMod 5)), (3, 1)] ∧ CanonB [(1 : ZMod 5), 1] ∧
    divideWithQAndR (.s [(0, (2 : ZMod 5)), (3, 1)]) (.d [1, 1]) = .ok ([1, 4, 1], [1]) := by
  decide +kernel

/-- dense dividend, sparse divisor -/
theorem divide_ds (a : List F) (t : Terms F) (ha : CanonB a) (ht : SCanon t) (ht0 : t ≠ []) :
    ∃ q r, divideWithQAndR (.d a) (.s t) = .ok (q, r) ∧ CanonB q ∧ CanonB r ∧
      (∀ k, coeffB a k
        = ∑ i ∈ Finset.range (k + 1), coeffB q i * scoeff t (k - i) + coeffB r k) ∧
      (r = [] ∨ r.length - 1 < sdeg t) :=
  divideWithQAndR_spec (.d a) (.s t) ha ht (dos_isZero_s t ht ht0)

-- 1 + 2x + 3x^2 + 4x^3 + x^4 = (2x^2 + 3)(3x^2 + 2x + 2) + x over ZMod 5
example : CanonB [(1 : ZMod 5), 2, 3, 4, 1] ∧ SCanon [(0, (3 : ZMod 5)), (2, 2)] ∧
    divideWithQAndR (.d [(1 : ZMod 5), 2, 3, 4, 1]) (.s [(0, 3), (2, 2)])
      = .ok ([2, 2, 3], [0, 1]) := by decide +kernel

/-- sparse dividend, sparse divisor -/
theorem divide_ss (s t : Terms F) (hs : SCanon s) (ht : SCanon t) (ht0 : t ≠ []) :
    ∃ q r, divideWithQAndR (.s s) (.s t) = .ok (q, r) ∧ CanonB q ∧ CanonB r ∧
      (∀ k, scoeff s k
        = ∑ i ∈ Finset.range (k + 1), coeffB q i * scoeff t (k - i) + coeffB r k) ∧
      (r = [] ∨ r.length - 1 < sdeg t) :=
  divideWithQAndR_spec (.s s) (.s t) hs ht (dos_isZero_s t ht ht0)

-- x^8 − 1 = (x^4 − 1)(x^4 + 1): division by a vanishing polynomial, zero remainder
example : divideWithQAndR (.s [(0, (4 : ZMod 5)), (8, 1)]) (.s [(0, 4), (4, 1)])
    = .ok ([1, 0, 0, 0, 1], []) := by decide +kernel
-- degree of the dividend below the divisor's
example : divideWithQAndR (.s [(1, (4 : ZMod 5))]) (.s [(0, 4), (4, 1)])
    = .ok ([], [0, 4]) := by decide +kernel

/-- all four mixes at once (`dcoeff`, `DCanon`, `ddeg` select the representation): the form that
    composes with the dense/dense statement of part a -/
theorem divide_anyMix (a b : DoS F) (ha : DCanon a) (hb : DCanon b) (hbz : b.isZero = false) :
    ∃ q r, divideWithQAndR a b = .ok (q, r) ∧ CanonB q ∧ CanonB r ∧
      (∀ k, dcoeff a k
        = ∑ i ∈ Finset.range (k + 1), coeffB q i * dcoeff b (k - i) + coeffB r k) ∧
      (r = [] ∨ r.length - 1 < ddeg b) :=
  divideWithQAndR_spec a b ha hb hbz

example : CanonB [(1 : ZMod 5), 0, 0, 1] ∧ CanonB [(2 : ZMod 5), 1] ∧
    (DoS.d [(2 : ZMod 5), 1]).isZero = false ∧
    divideWithQAndR (.d [(1 : ZMod 5), 0, 0, 1]) (.d [2, 1]) = .ok ([4, 3, 1], [3]) := by
  decide +kernel

/-! ## 10. evaluation over a domain, interpolation

`n = D.size`, `g = D.gen`, `h = D.offset`.  Only `g^n = 1` (and `n ≠ 0`) is needed for the
evaluation laws: the points are `h·g^k`, `k < n`. -/

/-- `eval_over_domain_helper` on a borrowed dense operand of ANY length: the values of the whole
    polynomial on the coset (operands longer than the domain are folded modulo `X^n − h^n`). -/
theorem evaluateOverDomainRef_values (D : Domain F) (a : List F) (hn : D.size ≠ 0)
    (hg : D.gen ^ D.size = 1) :
    evaluateOverDomainRef D a = .ok ((List.range D.size).map (fun k =>
      ∑ i ∈ Finset.range a.length, coeffB a i * (D.offset * D.gen ^ k) ^ i)) :=
  evaluateOverDomainRef_spec D a hn hg

/-- the same for an owned operand (which hands the whole folded vector to `fft_in_place`) -/
theorem evaluateOverDomainOwned_values (D : Domain F) (a : List F) (hn : D.size ≠ 0)
    (hg : D.gen ^ D.size = 1) :
    evaluateOverDomainOwned D a = .ok ((List.range D.size).map (fun k =>
      ∑ i ∈ Finset.range a.length, coeffB a i * (D.offset * D.gen ^ k) ^ i)) :=
  evaluateOverDomainOwned_spec D a hn hg

theorem evaluateOverDomain_ref_eq_owned (D : Domain F) (a : List F) (hn : D.size ≠ 0)
    (hg : D.gen ^ D.size = 1) : evaluateOverDomainRef D a = evaluateOverDomainOwned D a := by
  rw [evaluateOverDomainRef_spec D a hn hg, evaluateOverDomainOwned_spec D a hn hg]

-- ZMod 5, size 4, generator 2 (order 4), coset offset 3; operand of length 10 > 4
example : ((⟨4, 2, 3⟩ : Domain (ZMod 5)).size ≠ 0) ∧ ((2 : ZMod 5) ^ 4 = 1) ∧
    evaluateOverDomainRef (⟨4, 2, 3⟩ : Domain (ZMod 5)) [1, 2, 3, 4, 0, 1, 2, 3, 4, 1]
      = .ok [1, 1, 4, 4] ∧
    evaluateOverDomainOwned (⟨4, 2, 3⟩ : Domain (ZMod 5)) [1, 2, 3, 4, 0, 1, 2, 3, 4, 1]
      = .ok [1, 1, 4, 4] := by decide +kernel

/-- `eval_over_domain_helper` on a sparse operand -/
theorem sEvaluateOverDomain_values (D : Domain F) (s : Terms F) (hs : SCanon s) :
    sEvaluateOverDomain D s = .ok ((List.range D.size).map
      (fun k => (s.map (fun t => t.2 * (D.offset * D.gen ^ k) ^ t.1)).sum)) :=
  sEvaluateOverDomain_spec D s hs

example : sEvaluateOverDomain (⟨4, 2, 3⟩ : Domain (ZMod 5)) [(0, 1), (9, 1)] = .ok [4, 2, 3, 0] := by
  decide +kernel

/-- `Evaluations::interpolate`: canonical, fewer than `n + 1` coefficients (any input length) -/
theorem interpolate_canonical (D : Domain F) (ev : List F) :
    CanonB (interpolate D ev) ∧ (interpolate D ev).length ≤ D.size :=
  interpolate_spec D ev

example : interpolate (⟨4, 2, 3⟩ : Domain (ZMod 5)) [1, 1, 4, 4, 2, 2] = [0, 4, 0, 2] := by
  decide +kernel

/-- the interpolant takes the given values on the domain (`g` of exact order `n`, `n` invertible,
    `h ≠ 0`); inputs shorter / longer than `n` are zero-padded / truncated (`resize`).
    The model computes the naive inverse DFT, so no FFT hypothesis is involved. -/
theorem interpolate_values (D : Domain F) (ev : List F) (hg : D.gen ^ D.size = 1)
    (hprim : ∀ i, 0 < i → i < D.size → D.gen ^ i ≠ 1) (hn : (D.size : F) ≠ 0)
    (hh : D.offset ≠ 0) :
    (∀ k, k < D.size →
      ∑ i ∈ Finset.range (interpolate D ev).length,
        coeffB (interpolate D ev) i * (D.offset * D.gen ^ k) ^ i = coeffB ev k) ∧
    evaluateOverDomainRef D (interpolate D ev) = .ok (resize ev D.size) :=
  ⟨fun k hk => interpolate_value D ev hg hprim hn hh k hk,
   evaluate_interpolate D ev hg hprim hn hh⟩

/-- the same with Mathlib's `IsPrimitiveRoot` -/
theorem interpolate_values_of_isPrimitiveRoot (D : Domain F) (ev : List F)
    (hg : IsPrimitiveRoot D.gen D.size) (hn : (D.size : F) ≠ 0) (hh : D.offset ≠ 0) :
    (∀ k, k < D.size →
      ∑ i ∈ Finset.range (interpolate D ev).length,
        coeffB (interpolate D ev) i * (D.offset * D.gen ^ k) ^ i = coeffB ev k) ∧
    evaluateOverDomainRef D (interpolate D ev) = .ok (resize ev D.size) :=
  interpolate_values D ev hg.pow_eq_one
    (fun i h0 hl => hg.pow_ne_one_of_pos_of_lt (by omega) hl) hn hh

example : ((2 : ZMod 5) ^ 4 = 1) ∧ (∀ i < 4, 0 < i → (2 : ZMod 5) ^ i ≠ 1) ∧
    (((4 : ℕ) : ZMod 5) ≠ 0) ∧ ((3 : ZMod 5) ≠ 0) ∧
    evaluateOverDomainRef (⟨4, 2, 3⟩ : Domain (ZMod 5))
      (interpolate (⟨4, 2, 3⟩ : Domain (ZMod 5)) [1, 1, 4, 4, 2, 2]) = .ok [1, 1, 4, 4] ∧
    evaluateOverDomainRef (⟨4, 2, 3⟩ : Domain (ZMod 5))
      (interpolate (⟨4, 2, 3⟩ : Domain (ZMod 5)) [1, 1]) = .ok [1, 1, 0, 0] := by
  decide +kernel

end Ark.C08
