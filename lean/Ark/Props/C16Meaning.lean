import Ark.Proofs.CfgMeaning
import Mathlib.Tactic.NormNum.Prime
/-
  Ark.Props.C16Meaning — property C16, *meaning lemmas*: what `checkXxx cfg = true`
  (the facts that `Ark/Gen/*.lean` establishes by kernel evaluation for every shipped
  configuration) implies mathematically.  Primality of the moduli is a hypothesis
  (`[Fact p.Prime]`), as everywhere in this project.

  Each theorem is followed by an `example` on a toy configuration showing that its hypotheses are
  satisfiable (non-vacuity).  `Ark/Props/C16.lean` (generated) instantiates the prime-field
  lemmas at every shipped field.
-/
namespace Ark.Props.C16Meaning
open Ark.Cfg Ark.CfgMeaning Ark.Spec

/-! ### toy configurations used for the non-vacuity examples -/

/-- `F_17` with one 64-bit limb, generator 3 (`17 - 1 = 2^4 · 1`) -/
def toyFp : FpCfg :=
  { limbs := 1, modulus := 17, modulusBitSize := 5, modulusMinusOneDivTwo := 8, trace := 1,
    traceMinusOneDivTwo := 0, generator := 3, twoAdicity := 4, twoAdicRoot := 3,
    smallSubgroupBase := none, smallSubgroupBaseAdicity := none, largeSubgroupRoot := none,
    characteristic := 17,
    sqrtPrecomp := { kind := 1, twoAdicity := 4, qnrToTrace := [3], traceMinusOneDivTwo := 0 },
    montModulus := 17, montModulusLimbs := [17], montR := 2 ^ 64 % 17, montR2 := 2 ^ 128 % 17,
    montInv := 1085102592571150095, montGenerator := 3, montTwoAdicRoot := 3,
    oneRaw := 2 ^ 64 % 17, generatorRaw := 3 * (2 ^ 64 % 17) % 17, hasSpareBit := true,
    noCarryMul := true, noCarrySquare := true, modulusPlusOneDivFour := none,
    montSmallSubgroupBase := none, montSmallSubgroupBaseAdicity := none,
    montLargeSubgroupRoot := none }

/-- `F_37` (`36 = 2^2 · 3^2`) with mixed-radix data: generator 2, small subgroup base 3, adicity 2 -/
def toyFpMixed : FpCfg :=
  { toyFp with
    modulus := 37, modulusBitSize := 6, modulusMinusOneDivTwo := 18, trace := 9,
    traceMinusOneDivTwo := 4, generator := 2, twoAdicity := 2, twoAdicRoot := 2 ^ 9 % 37,
    smallSubgroupBase := some 3, smallSubgroupBaseAdicity := some 2, largeSubgroupRoot := some 2,
    characteristic := 37 }

instance : Fact (Nat.Prime 17) := ⟨by norm_num⟩
instance : Fact (Nat.Prime 37) := ⟨by norm_num⟩
instance : Fact (Nat.Prime 7) := ⟨by norm_num⟩

/-- `F_7[u]/(u² + 1)`: non-residue `6 = -1`, Frobenius table `[1, 6]` -/
def toyFp2 : ExtCfg :=
  { kind := .fp2, p := 7, baseTower := .prime 7, nonresidue := [6], frobC1 := [[1], [6]],
    frobC2 := [], nrMulBasis := [[6]] }

/-! ### prime fields -/

/-- **Montgomery constants match the modulus**: `R = 2^(64N) mod p`, `R2 = R² mod p`,
    `INV · p = -1 (mod 2^64)`, the limb vector denotes `p`, `ONE` is stored as `R`. -/
theorem mont_consts_meaning (c : FpCfg) (h : checkMontConsts c = true) :
    limbsVal c.montModulusLimbs = c.modulus
    ∧ c.montR = 2 ^ (64 * c.limbs) % c.modulus
    ∧ c.montR2 = (c.montR * c.montR) % c.modulus
    ∧ ((c.montInv : Nat) : ZMod (2 ^ 64)) * ((c.modulus : Nat) : ZMod (2 ^ 64)) = -1
    ∧ c.oneRaw = c.montR :=
  ⟨(mont_consts c h).2.1, (mont_consts c h).2.2.2.1, mont_r2_eq_sq c h, mont_inv c h,
   (mont_consts c h).2.2.2.2.2.2.2.1⟩

example : checkMontConsts toyFp = true := by decide +kernel

/-- `p - 1 = 2^s · t` with `t` odd (two-adicity and trace) -/
theorem two_adicity_meaning (c : FpCfg) (h : checkTwoAdicity c = true) :
    c.modulus - 1 = 2 ^ c.twoAdicity * c.trace ∧ c.trace % 2 = 1 :=
  ⟨(two_adicity c h).1, (two_adicity c h).2.1⟩

example : checkTwoAdicity toyFp = true := by decide +kernel

theorem modulus_odd (c : FpCfg) (h : checkModulusShape c = true) : c.modulus % 2 = 1 := by
  unfold checkModulusShape at h
  simp only [and_true_iff] at h
  exact beq_nat_true h.1.1.1.1.1.1.2

/-- **the stated generator is a quadratic non-residue** -/
theorem generator_is_nonresidue (c : FpCfg) [Fact c.modulus.Prime]
    (hs : checkModulusShape c = true) (h : checkGeneratorQNR c = true) :
    ¬ IsSquare ((c.generator : Nat) : ZMod c.modulus) :=
  generator_not_square c c.modulus rfl (modulus_odd c hs) h

example : ¬ IsSquare ((toyFp.generator : Nat) : ZMod toyFp.modulus) :=
  haveI : Fact toyFp.modulus.Prime := (inferInstance : Fact (Nat.Prime 17))
  generator_is_nonresidue toyFp (by decide +kernel) (by decide +kernel)

/-- **the 2-adic root of unity is `g^t` and has order exactly `2^s`**
    (so it is a primitive `2^s`-th root of unity) -/
theorem two_adic_root_meaning (c : FpCfg) [Fact c.modulus.Prime] (h : checkRootOfUnity c = true) :
    ((c.twoAdicRoot : Nat) : ZMod c.modulus) = ((c.generator : Nat) : ZMod c.modulus) ^ c.trace
    ∧ orderOf ((c.twoAdicRoot : Nat) : ZMod c.modulus) = 2 ^ c.twoAdicity
    ∧ IsPrimitiveRoot ((c.twoAdicRoot : Nat) : ZMod c.modulus) (2 ^ c.twoAdicity) := by
  obtain ⟨h1, h2⟩ := root_order c c.modulus rfl h
  exact ⟨h1, h2, h2 ▸ IsPrimitiveRoot.orderOf _⟩

example : orderOf ((toyFp.twoAdicRoot : Nat) : ZMod toyFp.modulus) = 2 ^ 4 :=
  haveI : Fact toyFp.modulus.Prime := (inferInstance : Fact (Nat.Prime 17))
  (two_adic_root_meaning toyFp (by decide +kernel)).2.1

/-- **the large-subgroup root of unity has exactly the stated order** `2^s · b^k`
    (`b` the small subgroup base, assumed prime) and is the stated power of the generator -/
theorem large_subgroup_root_meaning (c : FpCfg) (b k w : Nat) [Fact c.modulus.Prime]
    (hb : c.smallSubgroupBase = some b) (hk : c.smallSubgroupBaseAdicity = some k)
    (hw : c.largeSubgroupRoot = some w) (hbp : b.Prime) (h : checkLargeSubgroup c = true) :
    ((w : Nat) : ZMod c.modulus)
        = ((c.generator : Nat) : ZMod c.modulus) ^ ((c.modulus - 1) / (2 ^ c.twoAdicity * b ^ k))
    ∧ orderOf ((w : Nat) : ZMod c.modulus) = 2 ^ c.twoAdicity * b ^ k :=
  (large_subgroup_order c c.modulus b k w rfl hb hk hw hbp h).2

example : orderOf ((2 : Nat) : ZMod toyFpMixed.modulus) = 2 ^ 2 * 3 ^ 2 :=
  haveI : Fact toyFpMixed.modulus.Prime := (inferInstance : Fact (Nat.Prime 37))
  (large_subgroup_root_meaning toyFpMixed 3 2 2 rfl rfl rfl (by norm_num) (by decide +kernel)).2

/-! ### extension fields -/

/-- **Fp2 / Fp3 non-residues are non-residues**: `k ∣ p - 1` and `NONRESIDUE` is not a `k`-th power
    of `F_p`, i.e. `X^k - NONRESIDUE` has no root in `F_p` (for `k ∈ {2, 3}`: is irreducible) -/
theorem nonresidue_meaning (c : ExtCfg) (nr : Nat) [Fact c.p.Prime] (hbase : c.baseTower = .prime c.p)
    (hnr : c.nonresidue = [nr]) (hlt : nr < c.p) (h : checkNonresidue c = true) :
    c.k ∣ c.p - 1 ∧ ¬ ∃ y : ZMod c.p, y ^ c.k = ((nr : Nat) : ZMod c.p) :=
  nonresidue_prime c c.p nr hbase hnr hlt h

example : ¬ ∃ y : ZMod 7, y ^ 2 = ((6 : Nat) : ZMod 7) :=
  haveI : Fact toyFp2.p.Prime := (inferInstance : Fact (Nat.Prime 7))
  (nonresidue_meaning toyFp2 6 rfl rfl (by decide) (by decide +kernel)).2

/-- **Frobenius tables hold the corresponding powers** (tables with entries in `F_p`: Fp2, Fp3, Fp4,
    Fp6 2-over-3): entry `i` is `b^((p^i - 1)/d)`, `b` the documented base and `d` the documented divisor -/
theorem frobenius_c1_meaning (c : ExtCfg) (b : Nat) [Fact c.p.Prime]
    (ht : c.frobTower = .prime c.p) (hb : c.frobBase = [b]) (h : checkFrobeniusC1 c = true) :
    ∀ (i : Nat) (hi : i < c.frobC1.length), ∃ v : Nat, c.frobC1[i] = [v] ∧
      ((v : Nat) : ZMod c.p) = ((b : Nat) : ZMod c.p) ^ ((c.p ^ i - 1) / c.frobDiv) :=
  (frobenius_c1_prime c c.p b rfl ht hb h).2

example : ∃ v : Nat, toyFp2.frobC1[1] = [v] ∧ ((v : Nat) : ZMod 7) = ((6 : Nat) : ZMod 7) ^ ((7 ^ 1 - 1) / 2) :=
  haveI : Fact toyFp2.p.Prime := (inferInstance : Fact (Nat.Prime 7))
  frobenius_c1_meaning toyFp2 6 rfl rfl (by decide +kernel) 1 (by decide)

/-! ### curves -/

/-- **the cofactor inverse inverts the cofactor modulo `r`** -/
theorem cofactor_inv_meaning (c : SwCfg) (h : checkSwCofactorInv c = true) :
    ((c.cofactor : Nat) : ZMod c.r) * ((c.cofactorInv : Nat) : ZMod c.r) = 1 :=
  cofactor_inv c.r c.cofactor c.cofactorInv h

theorem te_cofactor_inv_meaning (c : TeCfg) (h : checkTeCofactorInv c = true) :
    ((c.cofactor : Nat) : ZMod c.r) * ((c.cofactorInv : Nat) : ZMod c.r) = 1 :=
  cofactor_inv c.r c.cofactor c.cofactorInv h

example : checkCofactorInv 13 8 5 = true := by decide

/-- toy GLV data over `r = 7`: `λ = 2` (`4 + 2 + 1 = 7`), lattice rows `(-2, 1)` and `(3, 2)` (det `-7`…
    here only the row congruences are exercised) -/
def toyGlv : GlvCfg :=
  { curve := { tower := .prime 13, r := 7, cofactor := 1, cofactorLimbs := [1], cofactorInv := 1,
               a := [0], b := [3], gx := [1], gy := [2], gInfinity := false },
    endoCoeffs := [[3]], lambda := 2, decomp := [(false, 2), (true, 1), (true, 3), (true, 2)],
    endoGx := [3], endoGy := [2], endoGInfinity := false }

/-- **GLV**: `λ² + λ + 1 = 0 (mod r)`; the decomposition rows satisfy `n_i1 + λ n_i2 = 0 (mod r)`;
    `det N = r` -/
theorem glv_meaning (c : GlvCfg) (hl : checkGlvLambda c = true) (hr : checkGlvDecompRows c = true) :
    ((c.lambda : Nat) : ZMod c.curve.r) ^ 2 + ((c.lambda : Nat) : ZMod c.curve.r) + 1 = 0
    ∧ ((c.n 0 + (c.lambda : Int) * c.n 1 : Int) : ZMod c.curve.r) = 0
    ∧ ((c.n 2 + (c.lambda : Int) * c.n 3 : Int) : ZMod c.curve.r) = 0 :=
  ⟨glv_lambda c hl, (glv_rows c hr).1, (glv_rows c hr).2⟩

example : checkGlvLambda toyGlv = true ∧ checkGlvDecompRows toyGlv = true := by decide +kernel

theorem glv_det_meaning (c : GlvCfg) (h : checkGlvDet c = true) :
    c.n 0 * c.n 3 - c.n 1 * c.n 2 = (c.curve.r : Int) := glv_det c h

/-- **the generator lies on the curve** (curves over a prime field): `y² = x³ + a x + b` in `F_p` -/
theorem sw_generator_on_curve_meaning (c : SwCfg) (p a b x y : Nat) (ht : c.tower = .prime p)
    (ha : c.a = [a]) (hb : c.b = [b]) (hx : c.gx = [x]) (hy : c.gy = [y])
    (h : checkSwGeneratorOnCurve c = true) :
    ((y : Nat) : ZMod p) ^ 2 = ((x : Nat) : ZMod p) ^ 3 + ((a : Nat) : ZMod p) * ((x : Nat) : ZMod p)
      + ((b : Nat) : ZMod p) :=
  sw_on_curve_prime c p a b x y ht ha hb hx hy h

example : ((2 : Nat) : ZMod 13) ^ 2 = ((1 : Nat) : ZMod 13) ^ 3 + ((0 : Nat) : ZMod 13) * ((1 : Nat) : ZMod 13)
    + ((3 : Nat) : ZMod 13) :=
  sw_generator_on_curve_meaning toyGlv.curve 13 0 3 1 2 rfl rfl rfl rfl rfl (by decide +kernel)

/-- twisted Edwards generator on the curve: `a x² + y² = 1 + d x² y²` in `F_p` -/
theorem te_generator_on_curve_meaning (c : TeCfg) (p a d x y : Nat) (ht : c.tower = .prime p)
    (ha : c.a = [a]) (hd : c.d = [d]) (hx : c.gx = [x]) (hy : c.gy = [y])
    (h : checkTeGeneratorOnCurve c = true) :
    ((a : Nat) : ZMod p) * ((x : Nat) : ZMod p) ^ 2 + ((y : Nat) : ZMod p) ^ 2
      = 1 + ((d : Nat) : ZMod p) * ((x : Nat) : ZMod p) ^ 2 * ((y : Nat) : ZMod p) ^ 2 :=
  te_on_curve_prime c p a d x y ht ha hd hx hy h

/-- toy Edwards curve `x² + y² = 1 + 2 x² y²` over `F_13` with the point `(0, 1)`… and `(1, 0)` -/
def toyTe : TeCfg :=
  { tower := .prime 13, r := 7, cofactor := 1, cofactorLimbs := [1], cofactorInv := 1,
    a := [1], d := [2], gx := [1], gy := [0], montA := [0], montB := [0] }

example : checkTeGeneratorOnCurve toyTe = true := by decide +kernel

/-- **SWU `ZETA` is a non-square** (curves over a prime field) -/
theorem swu_zeta_meaning (c : SwuCfg) (p z : Nat) [Fact p.Prime] (ht : c.curve.tower = .prime p)
    (hz : c.zeta = [z]) (h : checkSwuZeta c = true) : ¬ IsSquare ((z : Nat) : ZMod p) := by
  unfold checkSwuZeta at h
  rw [ht, hz, and_true_iff] at h
  have hlt : z < p := by
    have := h.1
    simp [wf, Tw.deg, Tw.char, allB] at this
    exact of_decide_eq_true this
  exact nonSquare_prime p z hlt h.2

example : ¬ IsSquare ((2 : Nat) : ZMod 13) :=
  haveI : Fact (Nat.Prime 13) := ⟨by norm_num⟩
  swu_zeta_meaning ⟨toyGlv.curve, [2]⟩ 13 2 rfl rfl (by decide +kernel)

/-! ### pairing families -/

/-- BLS12: `r = x⁴ - x² + 1` and `3(p - x) = (x-1)² r` -/
theorem bls12_family_meaning (c : Bls12Cfg) (h : checkBls12Family c = true) :
    (c.r : Int) = c.xi ^ 4 - c.xi ^ 2 + 1 ∧ 3 * ((c.p : Int) - c.xi) = (c.xi - 1) ^ 2 * (c.r : Int) :=
  bls12_family c h

/-- BN: `p = 36x⁴+36x³+24x²+6x+1`, `r = 36x⁴+36x³+18x²+6x+1` -/
theorem bn_family_meaning (c : BnCfg) (h : checkBnFamily c = true) :
    (c.p : Int) = 36 * c.xi ^ 4 + 36 * c.xi ^ 3 + 24 * c.xi ^ 2 + 6 * c.xi + 1
    ∧ (c.r : Int) = 36 * c.xi ^ 4 + 36 * c.xi ^ 3 + 18 * c.xi ^ 2 + 6 * c.xi + 1 :=
  bn_family c h

/-- MNT4/6: the last chunk of the final exponent: `Φ_k(p) = r · (w₁ p + w₀)` -/
theorem mnt_final_exponent_meaning (c : MntCfg) (h : checkMntFinalExponent c = true) :
    (c.r : Int) * ((c.finalExponentLastChunk1 : Int) * (c.p : Int)
        + sgn c.finalExponentLastChunkW0IsNeg c.finalExponentLastChunkAbsOfW0)
      = (if c.k = 4 then (c.p : Int) ^ 2 + 1 else (c.p : Int) ^ 2 - (c.p : Int) + 1) :=
  mnt_final_exponent c h

end Ark.Props.C16Meaning
