import Ark.Proofs.MleA
/-
  Property C17 (part A) — the DENSE multilinear extension of `Ark.Model.Mle`
  (model of poly/src/evaluations/multivariate/multilinear/{mod,dense}.rs): `fix_variables`,
  `evaluate`, `swap_bits`, `relabel`, `concat` and the arithmetic operators, over any commutative
  ring `F`.  A table `t : List F` of length `2^n` is read as a function `{0,1}^n → F`, index little
  endian.  Only property theorems live here; helper lemmas are in Ark/Proofs/MleA.lean
  (namespace `Ark.Mle.A`).

    eqPoly x b = Π_{i<|x|} (x_i·b_i + (1 − x_i)(1 − b_i)),   b_i = b.testBit i
    mle t x    = Σ_{b<2^|x|} t[b] · eqPoly x b
-/
namespace Ark.C17
open Ark Ark.Mle Ark.Mle.A Finset

variable {F : Type} [CommRing F]

/-! ### 0. the equality polynomial -/

/-- `eqPoly` is the product over the coordinates, `b_i = b.testBit i` (definition unfolded) -/
theorem eq_poly_def (x : List F) (b : Nat) :
    eqPoly x b = ∏ i ∈ range x.length,
      (x.getD i 0 * (if b.testBit i then 1 else 0) +
        (1 - x.getD i 0) * (1 - (if b.testBit i then 1 else 0))) := rfl

/-- `mle t x` is the sum over the Boolean hypercube (definition unfolded) -/
theorem mle_def (t x : List F) :
    mle t x = ∑ b ∈ range (2 ^ x.length), t.getD b 0 * eqPoly x b := rfl

example : eqPoly ([2, 3] : List ℤ) 1 = 2 * (1 - 3) := by decide
example : mle ([1, 2, 3, 4] : List ℤ) [5, 7] = 20 := by decide

/-! ### 1. fix_variables -/

/-- `fix_variables`: on a table of the right length and a partial point of at most `num_vars`
    coordinates the result has `num_vars − |pp|` variables and table
    `t'[j] = Σ_{b<2^|pp|} t[b + j·2^|pp|] · eq(pp, b)`. -/
theorem dense_fix_variables_exact (d : Dense F) (pp : List F)
    (hlen : d.evals.length = 2 ^ d.numVars) (hpp : pp.length ≤ d.numVars) :
    Dense.fixVariables d pp = .ok ⟨d.numVars - pp.length,
      List.ofFn (fun j : Fin (2 ^ (d.numVars - pp.length)) =>
        ∑ b ∈ range (2 ^ pp.length), d.evals.getD (b + j * 2 ^ pp.length) 0 * eqPoly pp b)⟩ :=
  Dense.fixVariables_ok d pp hlen hpp

/-- `fix_variables` panics on a partial point that is too long (whatever the table) -/
theorem dense_fix_variables_panic (d : Dense F) (pp : List F) (hpp : d.numVars < pp.length) :
    Dense.fixVariables d pp = .panic :=
  Dense.fixVariables_panic d pp hpp

/-- on a table of the right length: panic exactly when the partial point is too long -/
theorem dense_fix_variables_panic_iff (d : Dense F) (pp : List F)
    (hlen : d.evals.length = 2 ^ d.numVars) :
    Dense.fixVariables d pp = .panic ↔ d.numVars < pp.length := by
  constructor
  · intro h
    by_contra hc
    rw [Dense.fixVariables_ok d pp hlen (by omega)] at h
    cases h
  · exact Dense.fixVariables_panic d pp

example : Dense.fixVariables (⟨2, [1, 2, 3, 4]⟩ : Dense ℤ) [5] = .ok ⟨1, [6, 8]⟩ := by decide
example : Dense.fixVariables (⟨1, [1, 2]⟩ : Dense ℤ) [5, 6] = .panic := by decide

/-! ### 2. evaluate -/

/-- THE defining property: evaluation = sum over the Boolean hypercube of the table values
    weighted by the equality polynomial. -/
theorem dense_evaluate_exact (d : Dense F) (x : List F)
    (hlen : d.evals.length = 2 ^ d.numVars) (hx : x.length = d.numVars) :
    Dense.evaluate d x = .ok (∑ b ∈ range (2 ^ d.numVars), d.evals.getD b 0 * eqPoly x b) := by
  rw [Dense.evaluate_ok d x hlen hx, mle_def, hx]

/-- a point of the wrong length panics (whatever the table) -/
theorem dense_evaluate_panic (d : Dense F) (x : List F) (hx : x.length ≠ d.numVars) :
    Dense.evaluate d x = .panic :=
  Dense.evaluate_panic d x hx

/-- on a table of the right length: panic exactly when the point has the wrong length -/
theorem dense_evaluate_panic_iff (d : Dense F) (x : List F)
    (hlen : d.evals.length = 2 ^ d.numVars) :
    Dense.evaluate d x = .panic ↔ x.length ≠ d.numVars :=
  Dense.evaluate_panic_iff d x hlen

/-- at the Boolean point whose coordinates are the bits of `c` the value is `evals[c]` -/
theorem dense_evaluate_boolean (d : Dense F) (c : Nat)
    (hlen : d.evals.length = 2 ^ d.numVars) (hc : c < 2 ^ d.numVars) :
    Dense.evaluate d (List.ofFn (fun i : Fin d.numVars => if c.testBit i then (1 : F) else 0)) =
      .ok (d.evals.getD c 0) := by
  have := Dense.evaluate_ok d (boolPoint d.numVars c) hlen (boolPoint_length _ _)
  rw [mle_boolPoint _ _ _ hc] at this
  exact this

/-- the weights `eq(bits of c, ·)` are the indicator of `c` on the hypercube -/
theorem eq_poly_boolean (n c b : Nat) (hc : c < 2 ^ n) (hb : b < 2 ^ n) :
    eqPoly (List.ofFn (fun i : Fin n => if c.testBit i then (1 : F) else 0)) b =
      if b = c then 1 else 0 :=
  eqPoly_boolPoint_of_lt n c b hc hb

example : Dense.evaluate (⟨2, [1, 2, 3, 4]⟩ : Dense ℤ) [5, 7] = .ok 20 := by decide
example : Dense.evaluate (⟨2, [1, 2, 3, 4]⟩ : Dense ℤ) [0, 1] = .ok 3 := by decide
example : Dense.evaluate (⟨2, [1, 2, 3, 4]⟩ : Dense ℤ) [5] = .panic := by decide

/-! ### 3. swap_bits -/

/-- `sigma a b k` exchanges the bit positions `a+j ↔ b+j` for `j < k` (definition unfolded) -/
theorem sigma_def (a b k q : Nat) :
    sigma a b k q =
      if a ≤ q ∧ q < a + k then b + (q - a) else if b ≤ q ∧ q < b + k then a + (q - b) else q := rfl

/-- `swap_bits(x, a, b, k)` permutes the bits of `x` by `sigma` when the windows are disjoint -/
theorem swap_bits_test_bit (x a b k q : Nat) (h : a + k ≤ b) :
    (swapBits x a b k).testBit q = x.testBit (sigma a b k q) :=
  swapBits_testBit x a b k q h

/-- `swap_bits` is an involution -/
theorem swap_bits_involution (x a b k : Nat) (h : a + k ≤ b) :
    swapBits (swapBits x a b k) a b k = x :=
  swapBits_invol x a b k h

/-- `swap_bits` preserves `< 2^n` when both windows lie inside `0..n` -/
theorem swap_bits_lt (x a b k n : Nat) (h : a + k ≤ b) (hn : b + k ≤ n) (hx : x < 2 ^ n) :
    swapBits x a b k < 2 ^ n :=
  swapBits_lt x a b k n h hn hx

/-- hence it is a bijection of `[0, 2^n)` -/
theorem swap_bits_bijOn (a b k n : Nat) (h : a + k ≤ b) (hn : b + k ≤ n) :
    ∀ y < 2 ^ n, ∃ x < 2 ^ n, swapBits x a b k = y ∧ ∀ x' , swapBits x' a b k = y → x' = x := by
  intro y hy
  refine ⟨swapBits y a b k, swapBits_lt y a b k n h hn hy, swapBits_invol y a b k h, ?_⟩
  intro x' hx'
  rw [← hx', swapBits_invol x' a b k h]

example : swapBits 0b0110 0 2 2 = 0b1001 := by decide
example : swapBits 0b10011 0 3 2 = 0b11010 := by decide
example : sigma 0 3 2 1 = 4 ∧ sigma 0 3 2 4 = 1 ∧ sigma 0 3 2 2 = 2 := by decide

/-! ### 4. relabel -/

/-- the model's window condition (`a = b` or `k = 0`: no-op; otherwise both windows inside
    `0..num_vars` and disjoint), `min`/`max` because `relabel` orders its arguments first -/
theorem window_ok_def (nv a b k : Nat) :
    WindowOK nv a b k ↔ (a = b ∨ k = 0 ∨ (max a b + k ≤ nv ∧ min a b + k ≤ max a b)) := Iff.rfl

/-- `relabel`: under the window condition the result is `.ok`, with the same `num_vars` and
    `evals'[i] = evals[swap_bits(i, min a b, max a b, k)]` -/
theorem dense_relabel_exact (d : Dense F) (a b k : Nat)
    (hlen : d.evals.length = 2 ^ d.numVars) (hwin : WindowOK d.numVars a b k) :
    Dense.relabel d a b k = .ok ⟨d.numVars,
      List.ofFn (fun i : Fin (2 ^ d.numVars) =>
        d.evals.getD (swapBits i (min a b) (max a b) k) 0)⟩ :=
  Dense.relabel_ok d a b k hlen hwin

/-- `relabel` panics exactly when the call is not a no-op and a window leaves `0..num_vars`
    or the windows overlap -/
theorem dense_relabel_panic_iff (d : Dense F) (a b k : Nat)
    (hlen : d.evals.length = 2 ^ d.numVars) :
    Dense.relabel d a b k = .panic ↔
      ¬ (a = b ∨ k = 0) ∧ (max a b + k > d.numVars ∨ min a b + k > max a b) :=
  Dense.relabel_panic_iff d a b k hlen

omit [CommRing F] in
/-- the `←` direction needs no assumption on the table -/
theorem dense_relabel_panic (d : Dense F) (a b k : Nat) (h : ¬ WindowOK d.numVars a b k) :
    Dense.relabel d a b k = .panic :=
  Dense.relabel_panic d a b k h

/-- relabelling the table = permuting the coordinates of the point:
    `evaluate (relabel d a b k) x = evaluate d (x ∘ σ)` (both sides panic when `|x| ≠ num_vars`) -/
theorem dense_relabel_evaluate (d d' : Dense F) (a b k : Nat) (x : List F)
    (hlen : d.evals.length = 2 ^ d.numVars) (h : Dense.relabel d a b k = .ok d') :
    Dense.evaluate d' x = Dense.evaluate d
      (List.ofFn (fun i : Fin x.length => x.getD (sigma (min a b) (max a b) k i) 0)) :=
  Dense.relabel_evaluate d d' a b k x hlen h

example : WindowOK 3 2 0 1 := by unfold WindowOK; decide
example : Dense.relabel (⟨3, [0, 1, 2, 3, 4, 5, 6, 7]⟩ : Dense ℤ) 2 0 1 =
    .ok ⟨3, [0, 4, 2, 6, 1, 5, 3, 7]⟩ := by decide
example : Dense.relabel (⟨3, [0, 1, 2, 3, 4, 5, 6, 7]⟩ : Dense ℤ) 0 1 2 = .panic := by decide
example : Dense.relabel (⟨3, [0, 1, 2, 3, 4, 5, 6, 7]⟩ : Dense ℤ) 0 2 2 = .panic := by decide

/-! ### 5. concat -/

/-- `concat` never panics: the tables are appended and zero-padded to length `2^m`, where
    `m = ⌈log₂ total⌉` is the number of variables of the result -/
theorem dense_concat_exact (ps : List (Dense F)) :
    Dense.concat ps = .ok ⟨Nat.clog 2 (flatTable ps).length,
      flatTable ps ++ List.replicate (2 ^ Nat.clog 2 (flatTable ps).length - (flatTable ps).length) 0⟩ :=
  Dense.concat_ok ps

omit [CommRing F] in
/-- `flatTable` is the concatenation of the tables -/
theorem flat_table_def (ps : List (Dense F)) : flatTable ps = (ps.map (·.evals)).flatten := rfl

/-- `2 ^ Nat.clog 2 L` is the least power of two `≥ max 1 L` -/
theorem clog_least (L : Nat) :
    max 1 L ≤ 2 ^ Nat.clog 2 L ∧ ∀ m, max 1 L ≤ 2 ^ m → Nat.clog 2 L ≤ m := by
  refine ⟨max_le Nat.one_le_two_pow (Nat.le_pow_clog (by norm_num) L), ?_⟩
  intro m hm
  exact Nat.clog_le_of_le_pow (le_trans (le_max_right 1 L) hm)

/-- `2^m` polynomials of equal arity `n`: the result has `n + m` variables, no padding, and
    `evaluate (concat ps) (x ++ y) = Σ_j eq(y, j) · evaluate ps[j] x` -/
theorem dense_concat_evaluate (ps : List (Dense F)) (n m : Nat) (x y : List F)
    (hps : ps.length = 2 ^ m) (hwf : ∀ p ∈ ps, p.numVars = n ∧ p.evals.length = 2 ^ n)
    (hx : x.length = n) (hy : y.length = m) :
    ∃ (c : Dense F) (v : Fin ps.length → F), Dense.concat ps = .ok c ∧ c.numVars = n + m ∧
      c.evals = (ps.map (·.evals)).flatten ∧
      (∀ j : Fin ps.length, Dense.evaluate ps[j] x = .ok (v j)) ∧
      Dense.evaluate c (x ++ y) = .ok (∑ j : Fin ps.length, eqPoly y j * v j) := by
  obtain ⟨c, h1, h2, h3, h4, h5⟩ := Dense.concat_evaluate ps n m x y hps hwf hx hy
  exact ⟨c, fun j => mle ps[j].evals x, h1, h2, h3, h4, h5⟩

example : Dense.concat [(⟨1, [1, 2]⟩ : Dense ℤ), ⟨0, [3]⟩] = .ok ⟨2, [1, 2, 3, 0]⟩ := by decide
example : Dense.concat ([] : List (Dense ℤ)) = .ok ⟨0, [0]⟩ := by decide
example : Dense.concat [(⟨1, [1, 2]⟩ : Dense ℤ), ⟨1, [3, 4]⟩] = .ok ⟨2, [1, 2, 3, 4]⟩ ∧
    Dense.evaluate (⟨2, [1, 2, 3, 4]⟩ : Dense ℤ) ([5] ++ [7]) = .ok 20 ∧
    Dense.evaluate (⟨1, [1, 2]⟩ : Dense ℤ) [5] = .ok 6 ∧
    Dense.evaluate (⟨1, [3, 4]⟩ : Dense ℤ) [5] = .ok 8 ∧
    eqPoly ([7] : List ℤ) 0 * 6 + eqPoly ([7] : List ℤ) 1 * 8 = 20 := by decide

/-! ### 6. arithmetic -/

section Arith
variable [DecidableEq F]

omit [DecidableEq F] in
/-- the zero polynomial as `is_zero` sees it: the 0-variable table `[0]` -/
theorem is_zero_poly_def (d : Dense F) :
    IsZeroPoly d ↔ (d.numVars = 0 ∧ d.evals.getD 0 0 = 0) := Iff.rfl

/-- `is_zero` on a table of the right length -/
theorem dense_is_zero_exact (d : Dense F) (hlen : d.evals.length = 2 ^ d.numVars) :
    Dense.isZero d = .ok (decide (IsZeroPoly d)) :=
  Dense.isZero_ok d hlen

/-- `add` is entrywise whenever the arities agree -/
theorem dense_add_entrywise (s r : Dense F) (hs : s.evals.length = 2 ^ s.numVars)
    (hr : r.evals.length = 2 ^ r.numVars) (h : s.numVars = r.numVars) :
    Dense.add s r = .ok ⟨s.numVars, List.zipWith (· + ·) s.evals r.evals⟩ :=
  Dense.add_same s r hs hr h

/-- a zero right operand is the identity, whatever its (lack of) arity agreement -/
theorem dense_add_zero_right (s r : Dense F) (hs : s.evals.length = 2 ^ s.numVars)
    (hr : r.evals.length = 2 ^ r.numVars) (hz : IsZeroPoly r) : Dense.add s r = .ok s :=
  Dense.add_zero_right s r hs hr hz

/-- a zero left operand is the identity -/
theorem dense_add_zero_left (s r : Dense F) (hs : s.evals.length = 2 ^ s.numVars)
    (hr : r.evals.length = 2 ^ r.numVars) (hz : IsZeroPoly s) : Dense.add s r = .ok r :=
  Dense.add_zero_left s r hs hr hz

/-- `add` panics exactly when the arities differ and neither operand is zero -/
theorem dense_add_panic_iff (s r : Dense F) (hs : s.evals.length = 2 ^ s.numVars)
    (hr : r.evals.length = 2 ^ r.numVars) :
    Dense.add s r = .panic ↔ s.numVars ≠ r.numVars ∧ ¬ IsZeroPoly s ∧ ¬ IsZeroPoly r :=
  Dense.add_panic_iff s r hs hr

/-- `evaluate` is additive -/
theorem dense_add_evaluate (s r : Dense F) (hs : s.evals.length = 2 ^ s.numVars)
    (hr : r.evals.length = 2 ^ r.numVars) (h : s.numVars = r.numVars) (x : List F)
    (hx : x.length = s.numVars) :
    ∃ c u v, Dense.add s r = .ok c ∧ Dense.evaluate s x = .ok u ∧ Dense.evaluate r x = .ok v ∧
      Dense.evaluate c x = .ok (u + v) :=
  Dense.add_evaluate s r hs hr h x hx

example : Dense.add (⟨1, [1, 2]⟩ : Dense ℤ) ⟨1, [10, 20]⟩ = .ok ⟨1, [11, 22]⟩ := by decide
example : Dense.add (⟨1, [1, 2]⟩ : Dense ℤ) ⟨0, [0]⟩ = .ok ⟨1, [1, 2]⟩ := by decide
example : Dense.add (⟨0, [0]⟩ : Dense ℤ) ⟨1, [1, 2]⟩ = .ok ⟨1, [1, 2]⟩ := by decide
example : Dense.add (⟨1, [1, 2]⟩ : Dense ℤ) ⟨0, [5]⟩ = .panic := by decide

omit [DecidableEq F] in
/-- `neg` is entrywise (by definition), keeps the arity and negates every value -/
theorem dense_neg_entrywise (d : Dense F) :
    Dense.neg d = ⟨d.numVars, d.evals.map (fun x => -x)⟩ := rfl

omit [DecidableEq F] in
/-- `evaluate` commutes with `neg` -/
theorem dense_neg_evaluate (d : Dense F) (hd : d.evals.length = 2 ^ d.numVars) (x : List F)
    (hx : x.length = d.numVars) :
    ∃ u, Dense.evaluate d x = .ok u ∧ Dense.evaluate (Dense.neg d) x = .ok (-u) :=
  Dense.neg_evaluate d hd x hx

/-- `sub` is entrywise whenever the arities agree -/
theorem dense_sub_entrywise (s r : Dense F) (hs : s.evals.length = 2 ^ s.numVars)
    (hr : r.evals.length = 2 ^ r.numVars) (h : s.numVars = r.numVars) :
    Dense.sub s r = .ok ⟨s.numVars, List.zipWith (· - ·) s.evals r.evals⟩ :=
  Dense.sub_same s r hs hr h

theorem dense_sub_zero_right (s r : Dense F) (hs : s.evals.length = 2 ^ s.numVars)
    (hr : r.evals.length = 2 ^ r.numVars) (hz : IsZeroPoly r) : Dense.sub s r = .ok s :=
  Dense.sub_zero_right s r hs hr hz

theorem dense_sub_zero_left (s r : Dense F) (hs : s.evals.length = 2 ^ s.numVars)
    (hr : r.evals.length = 2 ^ r.numVars) (hz : IsZeroPoly s) :
    Dense.sub s r = .ok (Dense.neg r) :=
  Dense.sub_zero_left s r hs hr hz

theorem dense_sub_panic_iff (s r : Dense F) (hs : s.evals.length = 2 ^ s.numVars)
    (hr : r.evals.length = 2 ^ r.numVars) :
    Dense.sub s r = .panic ↔ s.numVars ≠ r.numVars ∧ ¬ IsZeroPoly s ∧ ¬ IsZeroPoly r :=
  Dense.sub_panic_iff s r hs hr

theorem dense_sub_evaluate (s r : Dense F) (hs : s.evals.length = 2 ^ s.numVars)
    (hr : r.evals.length = 2 ^ r.numVars) (h : s.numVars = r.numVars) (x : List F)
    (hx : x.length = s.numVars) :
    ∃ c u v, Dense.sub s r = .ok c ∧ Dense.evaluate s x = .ok u ∧ Dense.evaluate r x = .ok v ∧
      Dense.evaluate c x = .ok (u - v) :=
  Dense.sub_evaluate s r hs hr h x hx

example : Dense.sub (⟨1, [1, 2]⟩ : Dense ℤ) ⟨1, [10, 20]⟩ = .ok ⟨1, [-9, -18]⟩ := by decide
example : Dense.sub (⟨0, [0]⟩ : Dense ℤ) ⟨1, [1, 2]⟩ = .ok ⟨1, [-1, -2]⟩ := by decide

/-- `self += (f, other)` is entrywise `a + f·b` whenever the arities agree -/
theorem dense_add_scaled_entrywise (s : Dense F) (f : F) (r : Dense F)
    (hs : s.evals.length = 2 ^ s.numVars) (hr : r.evals.length = 2 ^ r.numVars)
    (h : s.numVars = r.numVars) :
    Dense.addScaled s f r = .ok ⟨s.numVars, List.zipWith (fun a b => a + f * b) s.evals r.evals⟩ :=
  Dense.addScaled_same s f r hs hr h

/-- a zero `self` yields the scaled operand -/
theorem dense_add_scaled_zero_left (s : Dense F) (f : F) (r : Dense F)
    (hs : s.evals.length = 2 ^ s.numVars) (hr : r.evals.length = 2 ^ r.numVars)
    (hz : IsZeroPoly s) :
    Dense.addScaled s f r = .ok ⟨r.numVars, r.evals.map (fun x => f * x)⟩ :=
  Dense.addScaled_zero_left s f r hs hr hz

/-- a scaled operand that is the zero polynomial is ignored -/
theorem dense_add_scaled_zero_right (s : Dense F) (f : F) (r : Dense F)
    (hs : s.evals.length = 2 ^ s.numVars) (hr : r.evals.length = 2 ^ r.numVars)
    (hz : r.numVars = 0 ∧ f * r.evals.getD 0 0 = 0) : Dense.addScaled s f r = .ok s :=
  Dense.addScaled_zero_right s f r hs hr hz

/-- panic exactly when the arities differ, `self` is not zero and `f·other` is not zero -/
theorem dense_add_scaled_panic_iff (s : Dense F) (f : F) (r : Dense F)
    (hs : s.evals.length = 2 ^ s.numVars) (hr : r.evals.length = 2 ^ r.numVars) :
    Dense.addScaled s f r = .panic ↔
      s.numVars ≠ r.numVars ∧ ¬ IsZeroPoly s ∧ ¬ (r.numVars = 0 ∧ f * r.evals.getD 0 0 = 0) :=
  Dense.addScaled_panic_iff s f r hs hr

theorem dense_add_scaled_evaluate (s : Dense F) (f : F) (r : Dense F)
    (hs : s.evals.length = 2 ^ s.numVars) (hr : r.evals.length = 2 ^ r.numVars)
    (h : s.numVars = r.numVars) (x : List F) (hx : x.length = s.numVars) :
    ∃ c u v, Dense.addScaled s f r = .ok c ∧ Dense.evaluate s x = .ok u ∧
      Dense.evaluate r x = .ok v ∧ Dense.evaluate c x = .ok (u + f * v) :=
  Dense.addScaled_evaluate s f r hs hr h x hx

example : Dense.addScaled (⟨1, [1, 2]⟩ : Dense ℤ) 3 ⟨1, [10, 20]⟩ = .ok ⟨1, [31, 62]⟩ := by decide

/-- `mul` by a non-zero scalar is entrywise and keeps the arity -/
theorem dense_mul_entrywise (d : Dense F) (s : F) (hs : s ≠ 0) :
    Dense.mul d s = ⟨d.numVars, d.evals.map (fun x => x * s)⟩ :=
  Dense.mul_ne_zero d s hs

theorem dense_mul_evaluate (d : Dense F) (s : F) (hs : s ≠ 0)
    (hd : d.evals.length = 2 ^ d.numVars) (x : List F) (hx : x.length = d.numVars) :
    ∃ u, Dense.evaluate d x = .ok u ∧ Dense.evaluate (Dense.mul d s) x = .ok (u * s) :=
  Dense.mul_evaluate d s hs hd x hx

example : Dense.mul (⟨1, [1, 2]⟩ : Dense ℤ) 3 = ⟨1, [3, 6]⟩ := by decide

/-- KNOWN FINDING (counter-statement, kept as a witness): scaling by zero collapses the arity —
    `&poly * &F::zero()` returns the 0-variable `zero()`, not the all-zero table of `num_vars`
    variables, so `(p * 0).num_vars ≠ p.num_vars` for `num_vars > 0`. -/
theorem dense_mul_zero_collapses_arity (a b : F) :
    Dense.mul (⟨1, [a, b]⟩ : Dense F) 0 = ⟨0, [0]⟩ :=
  Dense.mul_zero_collapses a b

/-- in general: `mul d 0` is the 0-variable zero polynomial whatever `d` is -/
theorem dense_mul_zero (d : Dense F) : Dense.mul d (0 : F) = ⟨0, [0]⟩ :=
  Dense.mul_zero d

example : (Dense.mul (⟨1, [1, 2]⟩ : Dense ℤ) 0).numVars ≠ (⟨1, [1, 2]⟩ : Dense ℤ).numVars := by
  decide

end Arith

/-! ### 7. agreement with the driver's executable specification of `relabel` -/

/-- the bit permutation used by the driver's spec (`Ark.DrvC17.sigma`) is `sigma` -/
theorem driver_sigma_eq : Ark.DrvC17.sigma = sigma := sigma_eq_driver

/-- inside the driver's domain (`windowOK`) the index permutation `permIdx` of the executable
    spec `specRelabel` — defined bit by bit from `sigma` — is the model's `swap_bits` with ordered
    windows, i.e. the spec judges `relabel` by exactly the table of `dense_relabel_exact` -/
theorem driver_perm_idx_eq_swap_bits (nv a b k i : Nat)
    (hw : Ark.DrvC17.windowOK nv a b k = true) (hi : i < 2 ^ nv) :
    Ark.DrvC17.permIdx nv a b k i = swapBits i (min a b) (max a b) k :=
  permIdx_eq_swapBits nv a b k i hw hi

/-- the driver's domain is contained in the model's window condition -/
theorem driver_window_ok_imp (nv a b k : Nat) (hw : Ark.DrvC17.windowOK nv a b k = true) :
    WindowOK nv a b k := by
  unfold Ark.DrvC17.windowOK at hw
  simp only [Bool.and_eq_true, Bool.or_eq_true, decide_eq_true_eq, beq_iff_eq] at hw
  obtain ⟨⟨ha, hb⟩, hd⟩ := hw
  unfold WindowOK
  rcases hd with (h | h) | h
  · exact Or.inl h
  · exact Or.inr (Or.inl h)
  · exact Or.inr (Or.inr ⟨by omega, h⟩)

example : Ark.DrvC17.windowOK 5 3 0 2 = true := by decide
example : Ark.DrvC17.permIdx 5 3 0 2 0b10011 = 0b11010 := by decide

end Ark.C17
