import Ark.Proofs.LimbsB
/-
  Property C15 (part b) — multiplication, shifts, bit and byte views of the fixed-width
  big integers modelled in `Ark.Model.Limbs` (ff/src/biginteger/{mod,arithmetic}.rs,
  ff/src/bits.rs).  Every theorem holds for every limb count `N = a.length` and all
  well-formed operands.  Only property theorems live here; helpers are in
  Ark/Proofs/LimbsB.lean.
-/
namespace Ark.C15
open Ark

/-! ## 1. multiplication -/

/-- one `mac_with_carry` row is exact: `out + 2^(64n)·carry = r + x·b + c`; the output limbs
    are well-formed, and the carry is a `u64` whenever the inputs are. -/
theorem mac_row_exact (r : List Nat) (x : Nat) (b : List Nat) (c : Nat) (h : r.length = b.length) :
    let q := macRow r x b c
    value q.1 + B ^ r.length * q.2 = value r + x * value b + c ∧ WF q.1 ∧ q.1.length = r.length ∧
    (WF r → x < B → WF b → c < B → q.2 < B) :=
  ⟨macRow_spec r x b c h, macRow_wf r x b c, macRow_length r x b c h,
    fun hr hx hb hc => macRow_carry_lt r x b c hr hx hb hc⟩

example : macRow [B - 1, B - 1] (B - 1) [B - 1, B - 1] (B - 1) = ([B - 1, B - 1], B - 1) := by
  decide +kernel

/-- `mul`: `lo + 2^(64N)·hi = a·b`, both halves well-formed `N`-limb integers
    (including the zero short-cut branch). -/
theorem mul_exact (a b : List Nat) (h : a.length = b.length) (ha : WF a) (hb : WF b) :
    value (mul a b).1 + B ^ a.length * value (mul a b).2 = value a * value b ∧
    WF (mul a b).1 ∧ WF (mul a b).2 ∧
    (mul a b).1.length = a.length ∧ (mul a b).2.length = a.length :=
  mul_spec a b h ha hb

/-- hence `lo = a·b mod 2^(64N)` and `hi = a·b / 2^(64N)` -/
theorem mul_lo_hi (a b : List Nat) (h : a.length = b.length) (ha : WF a) (hb : WF b) :
    value (mul a b).1 = (value a * value b) % B ^ a.length ∧
    value (mul a b).2 = (value a * value b) / B ^ a.length := by
  have ⟨h1, h2, _, h4, _⟩ := mul_spec a b h ha hb
  have hlt := value_lt' h2 h4
  have hpos : 0 < B ^ a.length := Nat.pow_pos B_pos
  constructor
  · rw [← h1, Nat.add_mul_mod_self_left, Nat.mod_eq_of_lt hlt]
  · rw [← h1, Nat.add_mul_div_left _ _ hpos, Nat.div_eq_of_lt hlt, Nat.zero_add]

example : WF [B - 1, B - 1] := by unfold WF; decide +kernel
example : mul [B - 1, B - 1] [B - 1, B - 1] = ([1, 0], [B - 2, B - 1]) := by decide +kernel
example : mul [0, 0] [5, 7] = ([0, 0], [0, 0]) := by decide +kernel

/-- `mul_low`: the low `N` limbs of the product, i.e. `a·b mod 2^(64N)` -/
theorem mul_low_exact (a b : List Nat) (h : a.length = b.length) (_ha : WF a) (_hb : WF b) :
    value (mulLow a b) = (value a * value b) % B ^ a.length ∧ WF (mulLow a b) ∧
    (mulLow a b).length = a.length :=
  mulLow_spec a b h

example : mulLow [B - 1, B - 1] [B - 1, B - 1] = [1, 0] := by decide +kernel

/-- `mul_high`: the high `N` limbs of the product, i.e. `a·b / 2^(64N)` -/
theorem mul_high_exact (a b : List Nat) (h : a.length = b.length) (ha : WF a) (hb : WF b) :
    value (mulHigh a b) = (value a * value b) / B ^ a.length ∧ WF (mulHigh a b) ∧
    (mulHigh a b).length = a.length := by
  have ⟨_, _, h3, _, h5⟩ := mul_spec a b h ha hb
  exact ⟨(mul_lo_hi a b h ha hb).2, h3, h5⟩

example : mulHigh [B - 1, B - 1] [B - 1, B - 1] = [B - 2, B - 1] := by decide +kernel

/-! ## 2. shifts -/

/-- `<<= n` for every `n` (saturating, whole-limb and sub-limb stages):
    `a·2^n mod 2^(64N)` -/
theorem shl_exact (a : List Nat) (n : Nat) (ha : WF a) :
    value (shl a n) = (value a * 2 ^ n) % B ^ a.length ∧ WF (shl a n) ∧
    (shl a n).length = a.length :=
  shl_spec a n ha

example : shl [B - 1, 3, 0] 68 = [0, (B - 1) * 16 % B, 63] := by decide +kernel
example : shl [B - 1, 3, 0] 192 = [0, 0, 0] := by decide +kernel

/-- `>>= n` for every `n`: `⌊a / 2^n⌋` -/
theorem shr_exact (a : List Nat) (n : Nat) (ha : WF a) :
    value (shr a n) = value a / 2 ^ n ∧ WF (shr a n) ∧ (shr a n).length = a.length :=
  shr_spec a n ha

example : shr [5, 7, B - 1] 68 = [15 * 2 ^ 60, (B - 1) / 16, 0] := by decide +kernel
example : shr [5, 7, B - 1] 200 = [0, 0, 0] := by decide +kernel

/-! ## 3. bits -/

/-- `num_bits` is the bit length of the value -/
theorem num_bits_exact (a : List Nat) (ha : WF a) :
    numBits a = if value a = 0 then 0 else Nat.log2 (value a) + 1 :=
  numBits_spec a ha

example : numBits [5, 1, 0] = 65 := by decide +kernel

/-- `get_bit(i)` is bit `i` of the value, for every `i` (also beyond `64N`) -/
theorem get_bit_exact (a : List Nat) (ha : WF a) (i : Nat) :
    getBit a i = (value a).testBit i :=
  getBit_spec a ha i

theorem get_bit_exact' (a : List Nat) (ha : WF a) (i : Nat) :
    getBit a i = decide ((value a / 2 ^ i) % 2 = 1) := by
  rw [getBit_spec a ha i, Nat.testBit_eq_decide_div_mod_eq]

example : getBit [5, 1] 64 = true ∧ getBit [5, 1] 1 = false ∧ getBit [5, 1] 500 = false := by
  decide +kernel

/-- `to_bits_le` has `64N` entries and entry `i` is bit `i` of the value -/
theorem to_bits_le_exact (a : List Nat) (ha : WF a) :
    (toBitsLE a).length = 64 * a.length ∧
    ∀ i (h : i < (toBitsLE a).length), (toBitsLE a)[i] = (value a).testBit i := by
  refine ⟨toBitsLE_length a, fun i h => ?_⟩
  have h1 := toBitsLE_getElem? a ha i
  rw [toBitsLE_length] at h
  rw [if_pos h, List.getElem?_eq_some_iff] at h1
  exact h1.2

theorem to_bits_be_exact (a : List Nat) : toBitsBE a = (toBitsLE a).reverse := rfl

/-- `from_bits_le` reads the bit string modulo `2^(64n)` (extra chunks dropped, short input
    zero-padded) -/
theorem from_bits_le_exact (n : Nat) (bits : List Bool) :
    value (fromBitsLE n bits) = bitsToNat bits % B ^ n ∧ WF (fromBitsLE n bits) ∧
    (fromBitsLE n bits).length = n :=
  fromBitsLE_spec n bits

theorem to_bits_le_value (a : List Nat) (ha : WF a) : bitsToNat (toBitsLE a) = value a :=
  bitsToNat_toBitsLE a ha

theorem from_to_bits_le (a : List Nat) (ha : WF a) : fromBitsLE a.length (toBitsLE a) = a :=
  fromBitsLE_toBitsLE a ha

theorem from_to_bits_be (a : List Nat) (ha : WF a) : fromBitsBE a.length (toBitsBE a) = a := by
  unfold fromBitsBE toBitsBE
  rw [List.reverse_reverse]; exact fromBitsLE_toBitsLE a ha

example : fromBitsLE 2 (toBitsLE [5, B - 1]) = [5, B - 1] := by decide +kernel
example : fromBitsLE 1 (toBitsLE [5, B - 1]) = [5] := by decide +kernel

/-! ## 4. bytes -/

/-- `Σ byteᵢ · 256^i` -/
def bytesValue (l : List Nat) : Nat := l.foldr (fun b acc => b + 256 * acc) 0

/-- `to_bytes_le`: `8N` bytes, each `< 256`, denoting the value -/
theorem to_bytes_le_exact (a : List Nat) (ha : WF a) :
    (toBytesLE a).length = 8 * a.length ∧ (∀ b ∈ toBytesLE a, b < 256) ∧
    bytesValue (toBytesLE a) = value a :=
  ⟨toBytesLE_length a, toBytesLE_lt a, toBytesLE_fold a ha⟩

theorem to_bytes_be_exact (a : List Nat) : toBytesBE a = (toBytesLE a).reverse := rfl

example : toBytesLE [258, 1] = [2, 1, 0, 0, 0, 0, 0, 0, 1, 0, 0, 0, 0, 0, 0, 0] := by
  decide +kernel

end Ark.C15
