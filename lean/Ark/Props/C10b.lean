import Ark.Proofs.Zcash
/-
  Property C10b (and the C09 half for the same code) — the ZCash point encoding with which `ark-bls12-381`
  overrides `SWCurveConfig::{serialize_with_mode, deserialize_with_mode, serialized_size}` for G1 and G2
  (`Ark.Model.Zcash`; /repo/curves/bls12_381/src/curves/{util,g1,g2}.rs).

  Standing hypotheses
  * `ZcashCfg c` : `c.N = 6 ∧ 0 < c.p ∧ c.p ≤ 2^381` — six limbs and three free top bits in the 48-byte
    big-endian integer (derived, see §0: the bound is tight); decidable, and true of the shipped modulus;
  * `c.p.Prime` where the sign rule / `sqrt` are involved;
  * the dictionary `K` only through the contracts `SqrtOK K canon`, `LtOK K canon` of C09, which the C11-verified
    dictionaries `fpCodecV c`, `fp2CodecV c β` satisfy (`…_v` corollaries);
  * bytes of the model are `Nat`s: the uniqueness statements need `∀ b ∈ bs, b < 256` (what a `u8` is).

  NO hypothesis at all is needed for "no panic / bounded read" (§3) and for validity in checked mode (§4).
  Only theorems and examples here; helper lemmas are in Ark/Proofs/Zcash.lean.
-/
set_option exponentiation.threshold 512
namespace Ark.C10b
open Ark Ark.Bytes Ark.Zcash

/-! ## 0. The configuration predicate -/

/-- the base-field modulus of BLS12-381 -/
def blsP : Nat :=
  0x1a0111ea397fe69a4b1ba7b6434bacd764774b84f38512bf6730d2a0f6b0f6241eabfffeb153ffffb9feffffffffaaab

theorem zcash_cfg_iff (c : FpCfg) : ZcashCfg c ↔ c.N = 6 ∧ 0 < c.p ∧ c.p ≤ 2 ^ 381 := Iff.rfl

/-- the shipped configuration (`Fq = Fp384<…>`, six limbs) satisfies it -/
theorem zcash_cfg_bls12_381 : ZcashCfg ⟨blsP, 6⟩ := by decide +kernel

/-- the toy configuration of the examples below -/
theorem zcash_cfg_13 : ZcashCfg ⟨13, 6⟩ := by decide +kernel

theorem prime_13 : Nat.Prime 13 := by decide +kernel

/-- the bound `p ≤ 2^381` is tight: with a 382-bit modulus the element `2^381` is written with the
    sort-flag bit set, and is not read back -/
example : ¬ ZcashCfg ⟨2 ^ 381 + 2, 6⟩ ∧
    (serializeFq ⟨2 ^ 381 + 2, 6⟩ ⟨2 ^ 381⟩).head? = some 32 ∧
    getFlags (serializeFq ⟨2 ^ 381 + 2, 6⟩ ⟨2 ^ 381⟩) = .err .invalid := by decide +kernel

/-! ## 1. Flags -/

/-- `get_flags` indexes `bytes[0]`: it panics on the empty slice only (its callers pass 48…192 bytes) -/
theorem get_flags_no_panic (bs : List Nat) (h : bs ≠ []) : getFlags bs ≠ .panic :=
  getFlags_ne_panic bs h

theorem get_flags_empty : getFlags [] = .panic := rfl

/-- what `get_flags` returns is well formed: not (largest ∧ (¬compressed ∨ infinity)) -/
theorem get_flags_wf (b0 : Nat) (rest : List Nat) (f : EncodingFlags) (h : getFlags (b0 :: rest) = .ok f) :
    ¬ (f.isLexographicallyLargest = true ∧ (f.isCompressed = false ∨ f.isInfinity = true)) :=
  flagsOfByte_wf b0 f h

/-- `get_flags ∘ encode_flags = id` and `remove_flags ∘ encode_flags = id` on well-formed flags, when the three
    top bits of the first byte are clear -/
theorem flags_round_trip (f : EncodingFlags)
    (hf : ¬ (f.isLexographicallyLargest = true ∧ (f.isCompressed = false ∨ f.isInfinity = true)))
    (b0 : Nat) (rest : List Nat) (hb : b0 < 32) :
    ∃ bs', encodeFlags f (b0 :: rest) = .ok bs' ∧ getFlags bs' = .ok f ∧
      removeFlags bs' = .ok (b0 :: rest) := by
  obtain ⟨c, i, l⟩ := f
  obtain ⟨h1, h2⟩ := byte_enc_dec b0 hb c i l
  refine ⟨_, encodeFlags_cons _ _ _, ?_, ?_⟩
  · rw [getFlags_cons, h1, EncodingFlags.norm_of_wf _ hf]
  · rw [removeFlags_cons, h2]

/-- on arbitrary flags `encode_flags` drops the sort bit unless the point is compressed and finite -/
theorem flags_round_trip_any (f : EncodingFlags) (b0 : Nat) (rest : List Nat) (hb : b0 < 32) :
    ∃ bs', encodeFlags f (b0 :: rest) = .ok bs' ∧
      getFlags bs' = .ok ⟨f.isCompressed, f.isInfinity,
        f.isCompressed && !f.isInfinity && f.isLexographicallyLargest⟩ ∧
      removeFlags bs' = .ok (b0 :: rest) := by
  obtain ⟨c, i, l⟩ := f
  obtain ⟨h1, h2⟩ := byte_enc_dec b0 hb c i l
  refine ⟨_, encodeFlags_cons _ _ _, ?_, ?_⟩
  · rw [getFlags_cons, h1]; rfl
  · rw [removeFlags_cons, h2]

/-- conversely a flag byte is determined by its flags and its low five bits -/
theorem flags_unique (b0 : Nat) (rest : List Nat) (hb : b0 < 256) (f : EncodingFlags)
    (h : getFlags (b0 :: rest) = .ok f) :
    encodeFlags f ((b0 &&& 31) :: rest) = .ok (b0 :: rest) := by
  obtain ⟨c, i, l⟩ := f
  have hwf := flagsOfByte_wf b0 _ h
  have := byte_dec_enc b0 hb ⟨c, i, l⟩ l h (by
    have := EncodingFlags.norm_of_wf _ hwf
    simp only [EncodingFlags.norm, EncodingFlags.mk.injEq, true_and] at this
    exact this)
  rw [encodeFlags_cons, this]

example : encodeFlags ⟨true, false, true⟩ [0x17, 1, 2] = .ok [0xb7, 1, 2] ∧
    getFlags [0xb7, 1, 2] = .ok ⟨true, false, true⟩ ∧ removeFlags [0xb7, 1, 2] = .ok [0x17, 1, 2] ∧
    getFlags [0x20] = .err .invalid ∧ getFlags [0xe0] = .err .invalid := by decide +kernel

/-! ## 2. The field codec `serialize_fq` / `deserialize_fq` -/

/-- meaning: the 48 big-endian bytes of the integer representative -/
theorem serialize_fq_big_endian {c : FpCfg} (h : ZcashCfg c) (x : Fp c.p) :
    serializeFq c x = (toB 48 x.val).reverse :=
  serializeFq_eq c h.1 x

theorem serialize_fq_length {c : FpCfg} (h : ZcashCfg c) (x : Fp c.p) : (serializeFq c x).length = 48 :=
  serializeFq_length c h.1 x

theorem serialize_fq_bytes {c : FpCfg} (h : ZcashCfg c) (x : Fp c.p) : ∀ b ∈ serializeFq c x, b < 256 :=
  serializeFq_lt c h.1 x

/-- the three top bits of the first byte are clear -/
theorem serialize_fq_top_bits_clear {c : FpCfg} (h : ZcashCfg c) (x : Fp c.p) (hx : x.val < c.p) :
    ∃ b0 rest, serializeFq c x = b0 :: rest ∧ b0 < 32 :=
  serializeFq_top c h x hx

theorem deserialize_serialize_fq {c : FpCfg} (h : ZcashCfg c) (x : Fp c.p) (hx : x.val < c.p) :
    deserializeFq c (serializeFq c x) = some x :=
  deserialize_serialize c h x hx

/-- uniqueness: an accepted 48-byte string is the encoding of the (reduced) element it decodes to -/
theorem serialize_fq_unique {c : FpCfg} (h : ZcashCfg c) (bs : List Nat) (x : Fp c.p)
    (hl : bs.length = 48) (hb : ∀ b ∈ bs, b < 256) (hd : deserializeFq c bs = some x) :
    serializeFq c x = bs ∧ x.val < c.p :=
  serialize_deserialize c h bs x hl hb hd

/-- every accepted string decodes to a reduced element; `≥ p` is refused -/
theorem deserialize_fq_reduced {c : FpCfg} (h : ZcashCfg c) (bs : List Nat) (x : Fp c.p)
    (hd : deserializeFq c bs = some x) : x.val < c.p :=
  deserializeFq_canon c h.2.1 bs x hd

example : serializeFq ⟨13, 6⟩ ⟨7⟩ = List.replicate 47 0 ++ [7] ∧
    deserializeFq ⟨13, 6⟩ (List.replicate 47 0 ++ [7]) = some ⟨7⟩ ∧
    deserializeFq ⟨13, 6⟩ (List.replicate 47 0 ++ [13]) = none := by decide +kernel
/-- (the model's bytes are `Nat`s: without `b < 256` uniqueness fails for the non-byte `256`) -/
example : deserializeFq ⟨1009, 6⟩ (List.replicate 47 0 ++ [256]) = some ⟨256⟩ ∧
    serializeFq ⟨1009, 6⟩ ⟨256⟩ = List.replicate 46 0 ++ [1, 0] := by decide +kernel
/-- the generator of BLS12-381 G1 -/
example : serializeFq ⟨blsP, 6⟩ ⟨0x17f1d3a73197d7942695638c4fa9ac0fc3688c4f9774b905a14e3a3f171bac586c55e83ff97a1aeffb3af00adb22c6bb⟩ =
    [0x17, 0xf1, 0xd3, 0xa7, 0x31, 0x97, 0xd7, 0x94, 0x26, 0x95, 0x63, 0x8c, 0x4f, 0xa9, 0xac, 0x0f,
     0xc3, 0x68, 0x8c, 0x4f, 0x97, 0x74, 0xb9, 0x05, 0xa1, 0x4e, 0x3a, 0x3f, 0x17, 0x1b, 0xac, 0x58,
     0x6c, 0x55, 0xe8, 0x3f, 0xf9, 0x7a, 0x1a, 0xef, 0xfb, 0x3a, 0xf0, 0x0a, 0xdb, 0x22, 0xc6, 0xbb] := by
  decide +kernel

/-! ## 3. C10 — no panic, bounded read (no hypothesis on the configuration, the dictionary or the curve) -/

theorem g1_sizes : g1SerializedSizeOf .yes = 48 ∧ g1SerializedSizeOf .no = 96 := ⟨rfl, rfl⟩
theorem g2_sizes : g2SerializedSizeOf .yes = 96 ∧ g2SerializedSizeOf .no = 192 := ⟨rfl, rfl⟩

/-- G1: `deserialize_with_mode` never panics, reads exactly `serialized_size(compress)` bytes when it
    succeeds and at most that many (never more than the input holds) when it fails -/
theorem g1_de_reads (c : FpCfg) (K : Codec (Fp c.p)) (E : SWCfg (Fp c.p)) (cm : Compress) (vd : Validate) :
    Reads (g1Deserialize c K E cm vd) (g1SerializedSizeOf cm) :=
  g1_reads c K E cm vd

/-- spelled out on a byte string: every input, both compression modes, both validation modes -/
theorem g1_de_total_bounded (c : FpCfg) (K : Codec (Fp c.p)) (E : SWCfg (Fp c.p)) (cm : Compress)
    (vd : Validate) (bs : List Nat) :
    runM (g1Deserialize c K E cm vd) bs ≠ .panic ∧
    (∀ P s, runM (g1Deserialize c K E cm vd) bs = .ok P s →
      s.used = g1SerializedSizeOf cm ∧ s.inp = bs.drop (g1SerializedSizeOf cm) ∧
        g1SerializedSizeOf cm ≤ bs.length) ∧
    (∀ e s, runM (g1Deserialize c K E cm vd) bs = .err e s →
      s.used ≤ g1SerializedSizeOf cm ∧ s.used ≤ bs.length) ∧
    (bs.length < g1SerializedSizeOf cm → ∃ e s, runM (g1Deserialize c K E cm vd) bs = .err e s) :=
  reads_consumption (g1_reads c K E cm vd) bs

/-- a short input is `InvalidData` (not `IoError`), everything available having been consumed -/
theorem g1_de_short (c : FpCfg) (K : Codec (Fp c.p)) (E : SWCfg (Fp c.p)) (cm : Compress) (vd : Validate)
    (bs : List Nat) (h : bs.length < g1SerializedSizeOf cm) :
    runM (g1Deserialize c K E cm vd) bs = .err .invalid ⟨[], bs.length⟩ :=
  (g1_isRead c K E cm vd).run_short bs h

theorem g2_de_reads (c : FpCfg) (β : Nat) (K : Codec (Fp2 c.p β)) (E : SWCfg (Fp2 c.p β)) (cm : Compress)
    (vd : Validate) : Reads (g2Deserialize c β K E cm vd) (g2SerializedSizeOf cm) :=
  g2_reads c β K E cm vd

theorem g2_de_total_bounded (c : FpCfg) (β : Nat) (K : Codec (Fp2 c.p β)) (E : SWCfg (Fp2 c.p β))
    (cm : Compress) (vd : Validate) (bs : List Nat) :
    runM (g2Deserialize c β K E cm vd) bs ≠ .panic ∧
    (∀ P s, runM (g2Deserialize c β K E cm vd) bs = .ok P s →
      s.used = g2SerializedSizeOf cm ∧ s.inp = bs.drop (g2SerializedSizeOf cm) ∧
        g2SerializedSizeOf cm ≤ bs.length) ∧
    (∀ e s, runM (g2Deserialize c β K E cm vd) bs = .err e s →
      s.used ≤ g2SerializedSizeOf cm ∧ s.used ≤ bs.length) ∧
    (bs.length < g2SerializedSizeOf cm → ∃ e s, runM (g2Deserialize c β K E cm vd) bs = .err e s) :=
  reads_consumption (g2_reads c β K E cm vd) bs

theorem g2_de_short (c : FpCfg) (β : Nat) (K : Codec (Fp2 c.p β)) (E : SWCfg (Fp2 c.p β)) (cm : Compress)
    (vd : Validate) (bs : List Nat) (h : bs.length < g2SerializedSizeOf cm) :
    runM (g2Deserialize c β K E cm vd) bs = .err .invalid ⟨[], bs.length⟩ :=
  (g2_isRead c β K E cm vd).run_short bs h

/-- the toy curve of the examples: `y² = x³ + 7` over `F_13` (7 points, genuine subgroup test by `r = 7`) -/
abbrev c13 : FpCfg := ⟨13, 6⟩
abbrev E13 : SWCfg (Fp 13) := swCfgFp ⟨0⟩ ⟨7⟩ false 7

example : runM (g1Deserialize c13 (fpCodecV c13) E13 .yes .yes) [] = .err .invalid ⟨[], 0⟩ ∧
    runM (g1Deserialize c13 (fpCodecV c13) E13 .yes .yes) (List.replicate 47 0) = .err .invalid ⟨[], 47⟩ ∧
    -- uncompressed bytes to the compressed reader, and conversely: `UnexpectedFlags`
    runM (g1Deserialize c13 (fpCodecV c13) E13 .yes .yes) (List.replicate 48 0) = .err .flags ⟨[], 48⟩ ∧
    runM (g1Deserialize c13 (fpCodecV c13) E13 .no .yes) (0x80 :: List.replicate 96 0) = .err .flags ⟨[0], 96⟩ ∧
    -- sort flag without compression flag / with infinity flag
    runM (g1Deserialize c13 (fpCodecV c13) E13 .yes .no) (0x20 :: List.replicate 47 0) = .err .invalid ⟨[], 48⟩ ∧
    runM (g1Deserialize c13 (fpCodecV c13) E13 .yes .no) (0xe0 :: List.replicate 47 0) = .err .invalid ⟨[], 48⟩ ∧
    -- infinity with a non-zero coordinate, a non-reduced coordinate, a non-residue
    runM (g1Deserialize c13 (fpCodecV c13) E13 .yes .no) (0xc0 :: List.replicate 46 0 ++ [1]) = .err .invalid ⟨[], 48⟩ ∧
    runM (g1Deserialize c13 (fpCodecV c13) E13 .yes .no) (0x80 :: List.replicate 46 0 ++ [13]) = .err .invalid ⟨[], 48⟩ ∧
    runM (g1Deserialize c13 (fpCodecV c13) E13 .yes .no) (0x80 :: List.replicate 46 0 ++ [1]) = .err .invalid ⟨[], 48⟩ := by
  decide +kernel

/-! ## 4. C10 — validity of accepted points -/

/-- checked mode, any configuration / dictionary / curve record, both compression modes: an accepted point
    satisfies `is_on_curve` and the subgroup test of the curve record (since the repair f0f8c67) -/
theorem g1_de_valid {c : FpCfg} {K : Codec (Fp c.p)} {E : SWCfg (Fp c.p)} {cm : Compress} {bs : List Nat}
    {P : SWAff (Fp c.p)} {s : Rd} (h : runM (g1Deserialize c K E cm .yes) bs = .ok P s) :
    swIsOnCurve E P = true ∧ E.inSubgroup P = true :=
  run_valid (g1_isRead c K E cm .yes) h

theorem g2_de_valid {c : FpCfg} {β : Nat} {K : Codec (Fp2 c.p β)} {E : SWCfg (Fp2 c.p β)} {cm : Compress}
    {bs : List Nat} {P : SWAff (Fp2 c.p β)} {s : Rd}
    (h : runM (g2Deserialize c β K E cm .yes) bs = .ok P s) :
    swIsOnCurve E P = true ∧ E.inSubgroup P = true :=
  run_valid (g2_isRead c β K E cm .yes) h

/-- any mode: the coordinates returned are reduced, the identity is only returned as `(0, 0, true)`, and a
    COMPRESSED encoding always decodes to a point of the curve, also unchecked (`sqrt` returns a root) -/
theorem g1_de_reduced_on_curve {c : FpCfg} (h : ZcashCfg c) (hp : c.p.Prime) {K : Codec (Fp c.p)}
    (hS : SqrtOK K (fun x => x.val < c.p)) (hO : LtOK K (fun x => x.val < c.p))
    (E : SWCfg (Fp c.p)) (cm : Compress) (vd : Validate) (bs : List Nat) (P : SWAff (Fp c.p)) (s : Rd)
    (hd : runM (g1Deserialize c K E cm vd) bs = .ok P s) :
    P.x.val < c.p ∧ P.y.val < c.p ∧ (P.infinity = true → P = ⟨0, 0, true⟩) ∧
      (cm = .yes → swIsOnCurve E P = true) :=
  run_canon (fqCOK c h) (fpSignLaws hp) hS hO (g1_isRead c K E cm vd) hd

theorem g1_de_reduced_on_curve_v {c : FpCfg} (h : ZcashCfg c) (hp : c.p.Prime)
    (E : SWCfg (Fp c.p)) (cm : Compress) (vd : Validate) (bs : List Nat) (P : SWAff (Fp c.p)) (s : Rd)
    (hd : runM (g1Deserialize c (fpCodecV c) E cm vd) bs = .ok P s) :
    P.x.val < c.p ∧ P.y.val < c.p ∧ (P.infinity = true → P = ⟨0, 0, true⟩) ∧
      (cm = .yes → swIsOnCurve E P = true) :=
  g1_de_reduced_on_curve h hp (fpSqrtOKV hp h.p_lt) (fpLtOKV c) E cm vd bs P s hd

theorem g2_de_reduced_on_curve {c : FpCfg} (h : ZcashCfg c) (hp : c.p.Prime) (β : Nat)
    (hβ : ∀ x : ZMod c.p, x * x ≠ ((β : ℕ) : ZMod c.p)) {K : Codec (Fp2 c.p β)}
    (hS : SqrtOK K (fun x => x.c0.val < c.p ∧ x.c1.val < c.p))
    (hO : LtOK K (fun x => x.c0.val < c.p ∧ x.c1.val < c.p))
    (E : SWCfg (Fp2 c.p β)) (cm : Compress) (vd : Validate) (bs : List Nat) (P : SWAff (Fp2 c.p β)) (s : Rd)
    (hd : runM (g2Deserialize c β K E cm vd) bs = .ok P s) :
    (P.x.c0.val < c.p ∧ P.x.c1.val < c.p) ∧ (P.y.c0.val < c.p ∧ P.y.c1.val < c.p) ∧
      (P.infinity = true → P = ⟨0, 0, true⟩) ∧ (cm = .yes → swIsOnCurve E P = true) :=
  run_canon (fq2COK c β h) (fp2SignLaws hp β hβ) hS hO (g2_isRead c β K E cm vd) hd

theorem g2_de_reduced_on_curve_v {c : FpCfg} (h : ZcashCfg c) (hp : c.p.Prime) (β : Nat)
    (hβ : ∀ x : ZMod c.p, x * x ≠ ((β : ℕ) : ZMod c.p))
    (E : SWCfg (Fp2 c.p β)) (cm : Compress) (vd : Validate) (bs : List Nat) (P : SWAff (Fp2 c.p β)) (s : Rd)
    (hd : runM (g2Deserialize c β (fp2CodecV c β) E cm vd) bs = .ok P s) :
    (P.x.c0.val < c.p ∧ P.x.c1.val < c.p) ∧ (P.y.c0.val < c.p ∧ P.y.c1.val < c.p) ∧
      (P.infinity = true → P = ⟨0, 0, true⟩) ∧ (cm = .yes → swIsOnCurve E P = true) :=
  g2_de_reduced_on_curve h hp β hβ (fp2SqrtOKV hp h.p_lt β hβ) (fp2LtOKV c β) E cm vd bs P s hd

/-- non-vacuity, and the behaviour the repair f0f8c67 established: the off-curve pair `(7, 9)` is refused in
    checked mode (before the repair only the subgroup test ran), accepted unchecked; `(7, 8)` is accepted -/
example :
    runM (g1Deserialize c13 (fpCodecV c13) E13 .no .yes)
      (List.replicate 47 0 ++ [7] ++ List.replicate 47 0 ++ [9]) = .err .invalid ⟨[], 96⟩ ∧
    runM (g1Deserialize c13 (fpCodecV c13) E13 .no .no)
      (List.replicate 47 0 ++ [7] ++ List.replicate 47 0 ++ [9]) = .ok ⟨⟨7⟩, ⟨9⟩, false⟩ ⟨[], 96⟩ ∧
    swIsOnCurve E13 ⟨⟨7⟩, ⟨9⟩, false⟩ = false ∧
    runM (g1Deserialize c13 (fpCodecV c13) E13 .no .yes)
      (List.replicate 47 0 ++ [7] ++ List.replicate 47 0 ++ [8, 0xee]) = .ok ⟨⟨7⟩, ⟨8⟩, false⟩ ⟨[0xee], 96⟩ ∧
    swIsOnCurve E13 ⟨⟨7⟩, ⟨8⟩, false⟩ = true ∧ E13.inSubgroup ⟨⟨7⟩, ⟨8⟩, false⟩ = true := by
  decide +kernel

/-! ## 5. C09 — round trip and size -/

/-- serialisation never fails -/
theorem g1_serialize_ok {c : FpCfg} (h : ZcashCfg c) (K : Codec (Fp c.p)) (P : SWAff (Fp c.p))
    (cm : Compress) : ∃ bs, g1Serialize c K P cm = .ok bs :=
  serGen_ok (fqC c) K (fqCOK c h) P cm

theorem g2_serialize_ok {c : FpCfg} (h : ZcashCfg c) (β : Nat) (K : Codec (Fp2 c.p β))
    (P : SWAff (Fp2 c.p β)) (cm : Compress) : ∃ bs, g2Serialize c β K P cm = .ok bs :=
  serGen_ok (fq2C c β) K (fq2COK c β h) P cm

/-- **G1 round trip**, both compression modes, both validation modes, whatever follows in the input: what
    `serialize_with_mode` writes has the advertised size and is read back — consuming exactly that many
    bytes — as the identity `(0, 0, true)` for a point with `infinity = true`, else as the point itself; in
    checked mode a point failing `is_on_curve && is_in_correct_subgroup` is `InvalidData`.
    The point must have reduced coordinates and, for the compressed mode, lie on the curve.
    `y = 0` needs no exclusion: then `y > −y` is false and `get_point_from_x_unchecked(x, false)` returns `0`. -/
theorem g1_round_trip {c : FpCfg} (h : ZcashCfg c) (hp : c.p.Prime) {K : Codec (Fp c.p)}
    (hS : SqrtOK K (fun x => x.val < c.p)) (hO : LtOK K (fun x => x.val < c.p))
    (E : SWCfg (Fp c.p)) (P : SWAff (Fp c.p)) (hc : P.infinity = false → P.x.val < c.p ∧ P.y.val < c.p)
    (cm : Compress) (vd : Validate) (hon : cm = .yes → swIsOnCurve E P = true)
    (bs : List Nat) (hs : g1Serialize c K P cm = .ok bs) (tl : List Nat) :
    bs.length = g1SerializedSizeOf cm ∧
    runM (g1Deserialize c K E cm vd) (bs ++ tl) =
      if vd = .yes ∧ swCheck E (if P.infinity = true then SWAff.identity else P) = false
      then .err .invalid ⟨tl, g1SerializedSizeOf cm⟩
      else .ok (if P.infinity = true then SWAff.identity else P) ⟨tl, g1SerializedSizeOf cm⟩ :=
  run_rt (fqCOK c h) (fpSignLaws hp) hS hO (g1_isRead c K E cm vd) (g1Size_eq c cm) P hc hon bs hs tl

/-- with the C11-verified dictionary: no hypothesis on `sqrt` -/
theorem g1_round_trip_v {c : FpCfg} (h : ZcashCfg c) (hp : c.p.Prime)
    (E : SWCfg (Fp c.p)) (P : SWAff (Fp c.p)) (hc : P.infinity = false → P.x.val < c.p ∧ P.y.val < c.p)
    (cm : Compress) (vd : Validate) (hon : cm = .yes → swIsOnCurve E P = true)
    (bs : List Nat) (hs : g1Serialize c (fpCodecV c) P cm = .ok bs) (tl : List Nat) :
    bs.length = g1SerializedSizeOf cm ∧
    runM (g1Deserialize c (fpCodecV c) E cm vd) (bs ++ tl) =
      if vd = .yes ∧ swCheck E (if P.infinity = true then SWAff.identity else P) = false
      then .err .invalid ⟨tl, g1SerializedSizeOf cm⟩
      else .ok (if P.infinity = true then SWAff.identity else P) ⟨tl, g1SerializedSizeOf cm⟩ :=
  g1_round_trip h hp (fpSqrtOKV hp h.p_lt) (fpLtOKV c) E P hc cm vd hon bs hs tl

/-- the two readings asked for: a finite point on the curve with reduced coordinates (or the identity
    `(0, 0, true)`) is read back unchecked as itself; checked as itself when it passes the subgroup test -/
theorem g1_round_trip_unchecked {c : FpCfg} (h : ZcashCfg c) (hp : c.p.Prime)
    (E : SWCfg (Fp c.p)) (P : SWAff (Fp c.p))
    (hP : P = SWAff.identity ∨ (P.infinity = false ∧ P.x.val < c.p ∧ P.y.val < c.p ∧ swIsOnCurve E P = true))
    (cm : Compress) (bs : List Nat) (hs : g1Serialize c (fpCodecV c) P cm = .ok bs) (tl : List Nat) :
    bs.length = g1SerializedSizeOf cm ∧
    runM (g1Deserialize c (fpCodecV c) E cm .no) (bs ++ tl) = .ok P ⟨tl, g1SerializedSizeOf cm⟩ := by
  have hon : swIsOnCurve E P = true := by
    rcases hP with rfl | hP
    · rfl
    · exact hP.2.2.2
  have hc : P.infinity = false → P.x.val < c.p ∧ P.y.val < c.p := by
    rcases hP with rfl | hP
    · intro hh; cases hh
    · exact fun _ => ⟨hP.2.1, hP.2.2.1⟩
  have hP' : (if P.infinity = true then SWAff.identity else P) = P := by
    rcases hP with rfl | hP
    · rfl
    · rw [hP.1]; rfl
  have := g1_round_trip_v h hp E P hc cm .no (fun _ => hon) bs hs tl
  rw [hP'] at this
  simpa using this

theorem g1_round_trip_checked {c : FpCfg} (h : ZcashCfg c) (hp : c.p.Prime)
    (E : SWCfg (Fp c.p)) (P : SWAff (Fp c.p))
    (hP : P = SWAff.identity ∨ (P.infinity = false ∧ P.x.val < c.p ∧ P.y.val < c.p ∧ swIsOnCurve E P = true))
    (hsub : E.inSubgroup P = true)
    (cm : Compress) (bs : List Nat) (hs : g1Serialize c (fpCodecV c) P cm = .ok bs) (tl : List Nat) :
    bs.length = g1SerializedSizeOf cm ∧
    runM (g1Deserialize c (fpCodecV c) E cm .yes) (bs ++ tl) = .ok P ⟨tl, g1SerializedSizeOf cm⟩ := by
  have hon : swIsOnCurve E P = true := by
    rcases hP with rfl | hP
    · rfl
    · exact hP.2.2.2
  have hc : P.infinity = false → P.x.val < c.p ∧ P.y.val < c.p := by
    rcases hP with rfl | hP
    · intro hh; cases hh
    · exact fun _ => ⟨hP.2.1, hP.2.2.1⟩
  have hP' : (if P.infinity = true then SWAff.identity else P) = P := by
    rcases hP with rfl | hP
    · rfl
    · rw [hP.1]; rfl
  have := g1_round_trip_v h hp E P hc cm .yes (fun _ => hon) bs hs tl
  rw [hP'] at this
  have hchk : swCheck E P = true := by unfold swCheck; rw [hon, hsub]; rfl
  rw [hchk] at this
  simpa using this

/-- **G2 round trip** (`c1 ‖ c0` order) -/
theorem g2_round_trip {c : FpCfg} (h : ZcashCfg c) (hp : c.p.Prime) (β : Nat)
    (hβ : ∀ x : ZMod c.p, x * x ≠ ((β : ℕ) : ZMod c.p)) {K : Codec (Fp2 c.p β)}
    (hS : SqrtOK K (fun x => x.c0.val < c.p ∧ x.c1.val < c.p))
    (hO : LtOK K (fun x => x.c0.val < c.p ∧ x.c1.val < c.p))
    (E : SWCfg (Fp2 c.p β)) (P : SWAff (Fp2 c.p β))
    (hc : P.infinity = false →
      (P.x.c0.val < c.p ∧ P.x.c1.val < c.p) ∧ (P.y.c0.val < c.p ∧ P.y.c1.val < c.p))
    (cm : Compress) (vd : Validate) (hon : cm = .yes → swIsOnCurve E P = true)
    (bs : List Nat) (hs : g2Serialize c β K P cm = .ok bs) (tl : List Nat) :
    bs.length = g2SerializedSizeOf cm ∧
    runM (g2Deserialize c β K E cm vd) (bs ++ tl) =
      if vd = .yes ∧ swCheck E (if P.infinity = true then SWAff.identity else P) = false
      then .err .invalid ⟨tl, g2SerializedSizeOf cm⟩
      else .ok (if P.infinity = true then SWAff.identity else P) ⟨tl, g2SerializedSizeOf cm⟩ :=
  run_rt (fq2COK c β h) (fp2SignLaws hp β hβ) hS hO (g2_isRead c β K E cm vd) (g2Size_eq c β cm) P hc hon
    bs hs tl

theorem g2_round_trip_v {c : FpCfg} (h : ZcashCfg c) (hp : c.p.Prime) (β : Nat)
    (hβ : ∀ x : ZMod c.p, x * x ≠ ((β : ℕ) : ZMod c.p))
    (E : SWCfg (Fp2 c.p β)) (P : SWAff (Fp2 c.p β))
    (hc : P.infinity = false →
      (P.x.c0.val < c.p ∧ P.x.c1.val < c.p) ∧ (P.y.c0.val < c.p ∧ P.y.c1.val < c.p))
    (cm : Compress) (vd : Validate) (hon : cm = .yes → swIsOnCurve E P = true)
    (bs : List Nat) (hs : g2Serialize c β (fp2CodecV c β) P cm = .ok bs) (tl : List Nat) :
    bs.length = g2SerializedSizeOf cm ∧
    runM (g2Deserialize c β (fp2CodecV c β) E cm vd) (bs ++ tl) =
      if vd = .yes ∧ swCheck E (if P.infinity = true then SWAff.identity else P) = false
      then .err .invalid ⟨tl, g2SerializedSizeOf cm⟩
      else .ok (if P.infinity = true then SWAff.identity else P) ⟨tl, g2SerializedSizeOf cm⟩ :=
  g2_round_trip h hp β hβ (fp2SqrtOKV hp h.p_lt β hβ) (fp2LtOKV c β) E P hc cm vd hon bs hs tl

/-- the sign rule of the format: the flag written (`y > −y`) selects `y` again in
    `get_point_from_x_unchecked(x, greatest)`; `y = 0` included (flag clear, "smaller" root `0`) -/
theorem sort_flag_consistent {c : FpCfg} (h : ZcashCfg c) (hp : c.p.Prime) (E : SWCfg (Fp c.p))
    (x y : Fp c.p) (hy : y.val < c.p) (hon : swIsOnCurve E ⟨x, y, false⟩ = true) :
    swGetPointFromX (fpCodecV c) E x ((fpCodecV c).lt (-y) y) = some ⟨x, y, false⟩ :=
  swGetPoint_select (fpSignLaws hp) (fpSqrtOKV hp h.p_lt) (fpLtOKV c) E x y hy
    ((swIsOnCurve_iff E ⟨x, y, false⟩ rfl).mp hon)

/-- non-vacuity on the toy curve: `(7, 8)` (`8 > −8 = 5`: sort flag set), `(7, 5)`, the identity, and the
    2-torsion point `(12, 0)` of `y² = x³ + 1` -/
example : ZcashCfg c13 ∧ Nat.Prime 13 ∧ swIsOnCurve E13 ⟨⟨7⟩, ⟨8⟩, false⟩ = true := by decide +kernel
example :
    g1Serialize c13 (fpCodecV c13) ⟨⟨7⟩, ⟨8⟩, false⟩ .yes = .ok (0xa0 :: List.replicate 46 0 ++ [7]) ∧
    runM (g1Deserialize c13 (fpCodecV c13) E13 .yes .yes) (0xa0 :: List.replicate 46 0 ++ [7, 0xee]) =
      .ok ⟨⟨7⟩, ⟨8⟩, false⟩ ⟨[0xee], 48⟩ ∧
    g1Serialize c13 (fpCodecV c13) ⟨⟨7⟩, ⟨5⟩, false⟩ .yes = .ok (0x80 :: List.replicate 46 0 ++ [7]) ∧
    runM (g1Deserialize c13 (fpCodecV c13) E13 .yes .yes) (0x80 :: List.replicate 46 0 ++ [7]) =
      .ok ⟨⟨7⟩, ⟨5⟩, false⟩ ⟨[], 48⟩ ∧
    g1Serialize c13 (fpCodecV c13) ⟨⟨7⟩, ⟨8⟩, false⟩ .no =
      .ok (List.replicate 47 0 ++ [7] ++ List.replicate 47 0 ++ [8]) ∧
    g1Serialize c13 (fpCodecV c13) ⟨⟨3⟩, ⟨4⟩, true⟩ .yes = .ok (0xc0 :: List.replicate 47 0) ∧
    runM (g1Deserialize c13 (fpCodecV c13) E13 .yes .yes) (0xc0 :: List.replicate 47 0) =
      .ok ⟨⟨0⟩, ⟨0⟩, true⟩ ⟨[], 48⟩ ∧
    g1Serialize c13 (fpCodecV c13) ⟨⟨3⟩, ⟨4⟩, true⟩ .no = .ok (0x40 :: List.replicate 95 0) ∧
    runM (g1Deserialize c13 (fpCodecV c13) E13 .no .yes) (0x40 :: List.replicate 95 0) =
      .ok ⟨⟨0⟩, ⟨0⟩, true⟩ ⟨[], 96⟩ := by decide +kernel
example :
    swIsOnCurve (swCfgFp (p := 13) ⟨0⟩ ⟨1⟩ true 1) ⟨⟨12⟩, ⟨0⟩, false⟩ = true ∧
    g1Serialize c13 (fpCodecV c13) ⟨⟨12⟩, ⟨0⟩, false⟩ .yes = .ok (0x80 :: List.replicate 46 0 ++ [12]) ∧
    runM (g1Deserialize c13 (fpCodecV c13) (swCfgFp ⟨0⟩ ⟨1⟩ true 1) .yes .yes)
      (0x80 :: List.replicate 46 0 ++ [12]) = .ok ⟨⟨12⟩, ⟨0⟩, false⟩ ⟨[], 48⟩ := by decide +kernel

/-- the real thing: the ZCash compressed encoding `97f1d3a7…` of the BLS12-381 G1 generator -/
example :
    let G : SWAff (Fp blsP) :=
      ⟨⟨0x17f1d3a73197d7942695638c4fa9ac0fc3688c4f9774b905a14e3a3f171bac586c55e83ff97a1aeffb3af00adb22c6bb⟩,
       ⟨0x08b3f481e3aaa0f1a09e30ed741d8ae4fcf5e095d5d00af600db18cb2c04b3edd03cc744a2888ae40caa232946c5e7e1⟩,
       false⟩
    let bs : List Nat :=
      [0x97, 0xf1, 0xd3, 0xa7, 0x31, 0x97, 0xd7, 0x94, 0x26, 0x95, 0x63, 0x8c, 0x4f, 0xa9, 0xac, 0x0f,
       0xc3, 0x68, 0x8c, 0x4f, 0x97, 0x74, 0xb9, 0x05, 0xa1, 0x4e, 0x3a, 0x3f, 0x17, 0x1b, 0xac, 0x58,
       0x6c, 0x55, 0xe8, 0x3f, 0xf9, 0x7a, 0x1a, 0xef, 0xfb, 0x3a, 0xf0, 0x0a, 0xdb, 0x22, 0xc6, 0xbb]
    g1Serialize ⟨blsP, 6⟩ (fpCodecV ⟨blsP, 6⟩) G .yes = .ok bs ∧
    runM (g1Deserialize ⟨blsP, 6⟩ (fpCodecV ⟨blsP, 6⟩) ⟨⟨0⟩, ⟨4⟩, fun _ => true⟩ .yes .yes) bs =
      .ok G ⟨[], 48⟩ := by decide +kernel

/-- G2 on `F_13[u]/(u² − 2)`, `y² = x³ + (1 + u)`, the point `(u, 5 + 12u)` (`c1` first, then `c0`) -/
abbrev E13q : SWCfg (Fp2 13 2) := ⟨0, ⟨⟨1⟩, ⟨1⟩⟩, fun _ => true⟩
example : ∀ x : ZMod 13, x * x ≠ ((2 : ℕ) : ZMod 13) := by decide
example :
    let P : SWAff (Fp2 13 2) := ⟨⟨⟨0⟩, ⟨1⟩⟩, ⟨⟨5⟩, ⟨12⟩⟩, false⟩
    swIsOnCurve E13q P = true ∧
    g2Serialize c13 2 (fp2CodecV c13 2) P .yes =
      .ok (0xa0 :: List.replicate 46 0 ++ [1] ++ List.replicate 48 0) ∧
    runM (g2Deserialize c13 2 (fp2CodecV c13 2) E13q .yes .yes)
      (0xa0 :: List.replicate 46 0 ++ [1] ++ List.replicate 48 0 ++ [9]) = .ok P ⟨[9], 96⟩ ∧
    g2Serialize c13 2 (fp2CodecV c13 2) P .no =
      .ok (List.replicate 47 0 ++ [1] ++ List.replicate 48 0 ++ List.replicate 47 0 ++ [12] ++
        List.replicate 47 0 ++ [5]) ∧
    runM (g2Deserialize c13 2 (fp2CodecV c13 2) E13q .no .yes)
      (List.replicate 47 0 ++ [1] ++ List.replicate 48 0 ++ List.replicate 47 0 ++ [12] ++
        List.replicate 47 0 ++ [5]) = .ok P ⟨[], 192⟩ ∧
    runM (g2Deserialize c13 2 (fp2CodecV c13 2) E13q .yes .yes) (0xc0 :: List.replicate 95 0) =
      .ok ⟨0, 0, true⟩ ⟨[], 96⟩ := by decide +kernel

/-! ## 6. Uniqueness of accepted encodings -/

/-
  Full statement (FALSE in one corner, see the counterexample below):
    runM (g1Deserialize c K E cm vd) bs = .ok P s → g1Serialize c K P cm = .ok (bs.take (g1SerializedSizeOf cm))
  It fails exactly for compressed encodings of a 2-torsion point `(x, 0)` with the sort flag SET: the reader
  returns "the larger of `0` and `−0`", i.e. `(x, 0)`, and the serialiser writes the flag clear (`0 > −0` is
  false).  Such points do not exist on BLS12-381 G1 / G2 curves (odd group orders), hence the testing evidence.
-/

/-- **uniqueness, corner excluded** (`P.y ≠ 0` for compressed finite points): an accepted byte string is, on
    its first `serialized_size` bytes, exactly what `serialize_with_mode` writes for the point returned -/
theorem g1_de_unique_partial {c : FpCfg} (h : ZcashCfg c) (hp : c.p.Prime) (h2 : c.p ≠ 2)
    {K : Codec (Fp c.p)} (hS : SqrtOK K (fun x => x.val < c.p)) (hO : LtOK K (fun x => x.val < c.p))
    (E : SWCfg (Fp c.p)) (cm : Compress) (vd : Validate) (bs : List Nat) (hb : ∀ b ∈ bs, b < 256)
    (P : SWAff (Fp c.p)) (s : Rd) (hd : runM (g1Deserialize c K E cm vd) bs = .ok P s)
    (hy : cm = .yes → P.infinity = false → P.y ≠ 0) :
    g1Serialize c K P cm = .ok (bs.take (g1SerializedSizeOf cm)) := by
  have hcan := run_canon (fqCOK c h) (fpSignLaws hp) hS hO (g1_isRead c K E cm vd) hd
  exact run_uniq (fqCOK c h) (fpSignLaws hp) hS hO (g1_isRead c K E cm vd) (g1Size_eq c cm) bs hb P s hd
    (fun h1 h3 hneg => hy h1 h3 (Fp.neg_eq_self (prime_odd hp h2) P.y hcan.2.1 hneg))

/-- full strength on a curve without 2-torsion (`x³ + a·x + b` has no root), e.g. one of odd order -/
theorem g1_de_unique_no_two_torsion {c : FpCfg} (h : ZcashCfg c) (hp : c.p.Prime) (h2 : c.p ≠ 2)
    {K : Codec (Fp c.p)} (hS : SqrtOK K (fun x => x.val < c.p)) (hO : LtOK K (fun x => x.val < c.p))
    (E : SWCfg (Fp c.p)) (hE : ∀ x : Fp c.p, x.val < c.p → swRhs E x ≠ 0)
    (cm : Compress) (vd : Validate) (bs : List Nat) (hb : ∀ b ∈ bs, b < 256)
    (P : SWAff (Fp c.p)) (s : Rd) (hd : runM (g1Deserialize c K E cm vd) bs = .ok P s) :
    g1Serialize c K P cm = .ok (bs.take (g1SerializedSizeOf cm)) := by
  have hcan := run_canon (fqCOK c h) (fpSignLaws hp) hS hO (g1_isRead c K E cm vd) hd
  refine g1_de_unique_partial h hp h2 hS hO E cm vd bs hb P s hd (fun h1 h3 h0 => ?_)
  have hon := (swIsOnCurve_iff E P h3).mp (hcan.2.2.2 h1)
  rw [h0, Fp.zero_mul_zero] at hon
  exact hE P.x hcan.1 hon.symm

theorem g1_de_unique_partial_v {c : FpCfg} (h : ZcashCfg c) (hp : c.p.Prime) (h2 : c.p ≠ 2)
    (E : SWCfg (Fp c.p)) (cm : Compress) (vd : Validate) (bs : List Nat) (hb : ∀ b ∈ bs, b < 256)
    (P : SWAff (Fp c.p)) (s : Rd) (hd : runM (g1Deserialize c (fpCodecV c) E cm vd) bs = .ok P s)
    (hy : cm = .yes → P.infinity = false → P.y ≠ 0) :
    g1Serialize c (fpCodecV c) P cm = .ok (bs.take (g1SerializedSizeOf cm)) :=
  g1_de_unique_partial h hp h2 (fpSqrtOKV hp h.p_lt) (fpLtOKV c) E cm vd bs hb P s hd hy

theorem g2_de_unique_partial {c : FpCfg} (h : ZcashCfg c) (hp : c.p.Prime) (h2 : c.p ≠ 2) (β : Nat)
    (hβ : ∀ x : ZMod c.p, x * x ≠ ((β : ℕ) : ZMod c.p)) {K : Codec (Fp2 c.p β)}
    (hS : SqrtOK K (fun x => x.c0.val < c.p ∧ x.c1.val < c.p))
    (hO : LtOK K (fun x => x.c0.val < c.p ∧ x.c1.val < c.p))
    (E : SWCfg (Fp2 c.p β)) (cm : Compress) (vd : Validate) (bs : List Nat) (hb : ∀ b ∈ bs, b < 256)
    (P : SWAff (Fp2 c.p β)) (s : Rd) (hd : runM (g2Deserialize c β K E cm vd) bs = .ok P s)
    (hy : cm = .yes → P.infinity = false → P.y ≠ 0) :
    g2Serialize c β K P cm = .ok (bs.take (g2SerializedSizeOf cm)) := by
  have hcan := run_canon (fq2COK c β h) (fp2SignLaws hp β hβ) hS hO (g2_isRead c β K E cm vd) hd
  exact run_uniq (fq2COK c β h) (fp2SignLaws hp β hβ) hS hO (g2_isRead c β K E cm vd) (g2Size_eq c β cm)
    bs hb P s hd (fun h1 h3 hneg => hy h1 h3 (Fp2.neg_eq_self (prime_odd hp h2) P.y hcan.2.1 hneg))

theorem g2_de_unique_no_two_torsion {c : FpCfg} (h : ZcashCfg c) (hp : c.p.Prime) (h2 : c.p ≠ 2) (β : Nat)
    (hβ : ∀ x : ZMod c.p, x * x ≠ ((β : ℕ) : ZMod c.p)) {K : Codec (Fp2 c.p β)}
    (hS : SqrtOK K (fun x => x.c0.val < c.p ∧ x.c1.val < c.p))
    (hO : LtOK K (fun x => x.c0.val < c.p ∧ x.c1.val < c.p))
    (E : SWCfg (Fp2 c.p β))
    (hE : ∀ x : Fp2 c.p β, x.c0.val < c.p ∧ x.c1.val < c.p → swRhs E x ≠ 0)
    (cm : Compress) (vd : Validate) (bs : List Nat) (hb : ∀ b ∈ bs, b < 256)
    (P : SWAff (Fp2 c.p β)) (s : Rd) (hd : runM (g2Deserialize c β K E cm vd) bs = .ok P s) :
    g2Serialize c β K P cm = .ok (bs.take (g2SerializedSizeOf cm)) := by
  have hcan := run_canon (fq2COK c β h) (fp2SignLaws hp β hβ) hS hO (g2_isRead c β K E cm vd) hd
  refine g2_de_unique_partial h hp h2 β hβ hS hO E cm vd bs hb P s hd (fun h1 h3 h0 => ?_)
  have hon := (swIsOnCurve_iff E P h3).mp (hcan.2.2.2 h1)
  rw [h0, Fp2.zero_mul_zero] at hon
  exact hE P.x hcan.1 hon.symm

theorem g2_de_unique_partial_v {c : FpCfg} (h : ZcashCfg c) (hp : c.p.Prime) (h2 : c.p ≠ 2) (β : Nat)
    (hβ : ∀ x : ZMod c.p, x * x ≠ ((β : ℕ) : ZMod c.p))
    (E : SWCfg (Fp2 c.p β)) (cm : Compress) (vd : Validate) (bs : List Nat) (hb : ∀ b ∈ bs, b < 256)
    (P : SWAff (Fp2 c.p β)) (s : Rd)
    (hd : runM (g2Deserialize c β (fp2CodecV c β) E cm vd) bs = .ok P s)
    (hy : cm = .yes → P.infinity = false → P.y ≠ 0) :
    g2Serialize c β (fp2CodecV c β) P cm = .ok (bs.take (g2SerializedSizeOf cm)) :=
  g2_de_unique_partial h hp h2 β hβ (fp2SqrtOKV hp h.p_lt β hβ) (fp2LtOKV c β) E cm vd bs hb P s hd hy

/-- **the corner is real** (model and Rust code alike): on `y² = x³ + 1` over `F_13` the 2-torsion point
    `(12, 0)` is accepted from TWO compressed byte strings — sort flag clear and sort flag set (`0xa0…`) — and
    re-serialised as the first: the accepted encoding `0xa0 00 … 0c` is not canonical -/
example :
    runM (g1Deserialize c13 (fpCodecV c13) (swCfgFp ⟨0⟩ ⟨1⟩ true 1) .yes .yes)
      (0xa0 :: List.replicate 46 0 ++ [12]) = .ok ⟨⟨12⟩, ⟨0⟩, false⟩ ⟨[], 48⟩ ∧
    runM (g1Deserialize c13 (fpCodecV c13) (swCfgFp ⟨0⟩ ⟨1⟩ true 1) .yes .yes)
      (0x80 :: List.replicate 46 0 ++ [12]) = .ok ⟨⟨12⟩, ⟨0⟩, false⟩ ⟨[], 48⟩ ∧
    g1Serialize c13 (fpCodecV c13) ⟨⟨12⟩, ⟨0⟩, false⟩ .yes = .ok (0x80 :: List.replicate 46 0 ++ [12]) := by
  decide +kernel

/-- non-vacuity of the uniqueness theorems: accepted strings on the 7-point curve (no 2-torsion) -/
example : ∀ x : Fp 13, x.val < 13 → swRhs E13 x ≠ 0 := by
  rintro ⟨x⟩ hx
  have : ∀ x : Fin 13, swRhs E13 ⟨x.val⟩ ≠ 0 := by decide +kernel
  exact this ⟨x, hx⟩
example :
    runM (g1Deserialize c13 (fpCodecV c13) E13 .yes .yes) (0xa0 :: List.replicate 46 0 ++ [7, 1, 2]) =
      .ok ⟨⟨7⟩, ⟨8⟩, false⟩ ⟨[1, 2], 48⟩ ∧
    g1Serialize c13 (fpCodecV c13) ⟨⟨7⟩, ⟨8⟩, false⟩ .yes =
      .ok ((0xa0 :: List.replicate 46 0 ++ [7, 1, 2]).take 48) := by decide +kernel

end Ark.C10b
