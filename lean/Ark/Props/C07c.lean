import Ark.Proofs.SurfaceB
import Mathlib.Data.ZMod.Basic
import Mathlib.Algebra.Field.ZMod
import Mathlib.Tactic.NormNum.Prime
/-
  Property C07 (part c): the remaining API surface of `ark-poly`'s evaluation domains and
  `Evaluations` — `EvaluationDomain::{new_coset, mul_polynomials_in_evaluation_domain}`
  (poly/src/domain/mod.rs), `PartialEq for GeneralEvaluationDomain` (poly/src/domain/general.rs),
  `Evaluations::{zero, index, interpolate}` and its `Mul<F>`, `AddAssign/SubAssign/MulAssign/
  DivAssign` operators (poly/src/evaluations/univariate/mod.rs).  The model is `Ark.Model.Fft`;
  the algebraic statements are over an abstract `[Field F] [DecidableEq F]` and reuse the
  hypotheses of parts a/b (primitive root of order `N`, the stored inverses; `Domain.Good`).
  Only property theorems and non-vacuity examples; helpers are in `Ark/Proofs/SurfaceB.lean`.

  Vocabulary.  `fn l i = l.getD i 0`, `tab N f = (List.range N).map f`,
  `evalL c x = Σ c_i x^i` (Horner), `polyOf c : F[X]` the polynomial with coefficient list `c`
  (all from `Ark/Proofs/FftB.lean`); `conv A B k = Σ_{i ≤ k} A_i·B_{k−i}`;
  `mulModCoeffs N c A B` = the `N` coefficients of `A·B mod (X^N − c)`;
  `withOffset g h h' p` = the general domain `g` with `offset, offsetInv, offsetPowSize := h, h', p`;
  `FftReady P g` = the hypotheses under which parts a/b prove `fft`/`ifft` of `g` correct.
-/
namespace Ark.C07
open Ark Ark.Fft Ark.SurfaceB

set_option linter.unusedSectionVars false

/-! ### concrete inputs for the non-vacuity examples: `ZMod 17`, `N = 4`, `4` has order 4 -/

instance fact_prime_17_c : Fact (Nat.Prime 17) := ⟨by norm_num⟩

/-- `ZMod 17`: two-adicity 4, `3` has order 16, no small subgroup -/
def P17c : Params (ZMod 17) := { twoAdicity := 4, twoAdicRoot := 3 }

/-- the size-4 subgroup domain of `ZMod 17` (generator `13 = 3^4`) as built by `new(4)` -/
def s4c : Domain (ZMod 17) := mkDom 13 4 2

/-- its coset by `3` as built by `new_coset(4, 3)`: `3⁻¹ = 6`, `3^4 = 13` -/
def c4c : Domain (ZMod 17) := { s4c with offset := 3, offsetInv := 6, offsetPowSize := 13 }

theorem order_3_mod_17_c : orderOf (3 : ZMod 17) = 2 ^ 4 :=
  (orderOf_eq_iff (by norm_num)).2 (by decide +kernel)

theorem P17c_WF : P17c.WF := ⟨order_3_mod_17_c, fun w h => by cases h⟩

theorem prim_13_4_c : IsPrimitiveRoot (13 : ZMod 17) 4 := by
  refine IsPrimitiveRoot.mk_of_lt _ (by decide) (by decide +kernel) ?_
  intro l h0 h4
  interval_cases l <;> decide +kernel

/-- the hypotheses of the radix-2 theorems of part a hold for `c4c` -/
theorem c4c_hyps : (2 : Nat) ≤ 64 ∧ c4c.size = 2 ^ 2 ∧ c4c.logSizeOfGroup = 2 ∧
    IsPrimitiveRoot c4c.groupGen c4c.size ∧ c4c.sizeInv * (c4c.size : ZMod 17) = 1 ∧
    c4c.groupGenInv * c4c.groupGen = 1 ∧ c4c.offsetInv * c4c.offset = 1 :=
  ⟨by decide, rfl, rfl, prim_13_4_c, by decide +kernel, by decide +kernel, by decide +kernel⟩

/-! ### … and `ZMod 37`, `N = 12 = 2²·3`: `8` has order 12, coset offset `2` (`2⁻¹ = 19`, `2^12 = 26`) -/

instance fact_prime_37_c : Fact (Nat.Prime 37) := ⟨by norm_num⟩

def P37c : Params (ZMod 37) :=
  { twoAdicity := 2, twoAdicRoot := 31, smallBase := some 3, smallAdicity := some 2,
    largeRoot := some 2 }

def m12c : Domain (ZMod 37) := { mkDom 8 12 2 with offset := 2, offsetInv := 19, offsetPowSize := 26 }

theorem order_8_mod_37_c : orderOf (8 : ZMod 37) = 12 :=
  (orderOf_eq_iff (by norm_num)).2 (by decide +kernel)

theorem m12c_good : m12c.Good :=
  ⟨by decide, by decide, rfl, by decide +kernel, order_8_mod_37_c, by decide +kernel,
    by decide +kernel, by decide +kernel⟩

section
variable {F : Type} [Field F] [DecidableEq F]
open Polynomial

/-! ## 15. `mul_polynomials_in_evaluation_domain` -/

/-- `Ok` exactly for equal lengths, and then the pointwise product -/
theorem mulPolynomialsInEvaluationDomain_ok_iff (a b r : List F) :
    mulPolynomialsInEvaluationDomain a b = .ok r ↔
      a.length = b.length ∧ r = List.zipWith (· * ·) a b := mul_ok_iff a b r

/-- the `assert_eq!` on the lengths is the only panic -/
theorem mulPolynomialsInEvaluationDomain_panic_iff (a b : List F) :
    mulPolynomialsInEvaluationDomain a b = .panic ↔ a.length ≠ b.length := mul_panic_iff a b

/-- indexed form: `r[i] = a[i]·b[i]` -/
theorem mulPolynomialsInEvaluationDomain_pointwise (a b r : List F)
    (h : mulPolynomialsInEvaluationDomain a b = .ok r) :
    a.length = b.length ∧ r.length = a.length ∧
      ∀ i (hr : i < r.length) (ha : i < a.length) (hb : i < b.length), r[i] = a[i] * b[i] :=
  mul_pointwise a b r h

example : mulPolynomialsInEvaluationDomain ([0, 1, 5, 15] : List (ZMod 17)) [2, 12, 6, 13]
    = .ok [0, 12, 13, 8] := by decide +kernel
example : mulPolynomialsInEvaluationDomain ([0, 1, 5, 15] : List (ZMod 17)) [2, 12, 6] = .panic := by
  decide +kernel

/-- the vector `mulModCoeffs N c A B` is, by definition, the list of the first `N` coefficients of
    the remainder of `A·B` modulo the monic `X^N − c` (of degree `< N`) -/
theorem mulModCoeffs_is_mod (N : Nat) (hN : 0 < N) (c : F) (A B : List F) :
    mulModCoeffs N c A B =
      (List.range N).map (fun j => ((polyOf A * polyOf B) %ₘ (X ^ N - C c)).coeff j) ∧
    ((polyOf A * polyOf B) %ₘ (X ^ N - C c)).degree < N ∧
    (mulModCoeffs N c A B).length = N :=
  ⟨rfl, degree_modByMonic_XpowN _ N hN c, mulModCoeffs_length N c A B⟩

/-- explicitly (operands not longer than `N`): coefficient `j` is
    `(A·B)_j + c·(A·B)_{j+N}` — the upper half of the product wraps around with the factor `c` -/
theorem mulModCoeffs_wrap_around (N : Nat) (hN : 0 < N) (c : F) (A B : List F) (hA : A.length ≤ N)
    (hB : B.length ≤ N) :
    mulModCoeffs N c A B = tab N (fun j => conv A B j + c * conv A B (j + N)) :=
  mulModCoeffs_wrap N hN c A B hA hB

/-- no wrap-around when `deg A + deg B < N`: the coefficients of `A·B` itself -/
theorem mulModCoeffs_no_wrap (N : Nat) (hN : 0 < N) (c : F) (A B : List F)
    (h : A.length + B.length ≤ N + 1) :
    mulModCoeffs N c A B = tab N (conv A B) ∧
    mulModCoeffs N c A B = (List.range N).map (fun j => (polyOf A * polyOf B).coeff j) := by
  refine ⟨mulModCoeffs_small N hN c A B h, ?_⟩
  rw [mulModCoeffs_small N hN c A B h]
  exact List.map_congr_left (fun j _ => (coeff_polyOf_mul A B j).symm)

/-- conv is the Cauchy product coefficient -/
theorem conv_eq (A B : List F) (k : Nat) :
    conv A B k = ∑ i ∈ Finset.range (k + 1), fn A i * fn B (k - i) ∧
    conv A B k = (polyOf A * polyOf B).coeff k := ⟨rfl, (coeff_polyOf_mul A B k).symm⟩

example : tab 4 (conv ([1, 2, 3] : List (ZMod 17)) [4, 5]) = [4, 13, 5, 15] := by decide +kernel

/-- radix-2 domain (hypotheses of `radix2_fft_ifft_round_trip`): `ifft(fft A ⊙ fft B)` is the
    coefficient vector of `A·B mod (X^N − h^N)`; neither transform nor the product panics -/
theorem radix2_fft_mul_ifft (d : Domain F) (k : Nat) (hk : k ≤ 64) (hd : d.size = 2 ^ k)
    (hlog : d.logSizeOfGroup = k) (hprim : IsPrimitiveRoot d.groupGen d.size)
    (hsz : d.sizeInv * (d.size : F) = 1) (hgi : d.groupGenInv * d.groupGen = 1)
    (hoi : d.offsetInv * d.offset = 1) (A B : List F) (hA : A.length ≤ d.size)
    (hB : B.length ≤ d.size) :
    ∃ ea eb r, radix2Fft d A = .ok ea ∧ radix2Fft d B = .ok eb ∧
      mulPolynomialsInEvaluationDomain ea eb = .ok r ∧
      radix2Ifft d r = mulModCoeffs d.size (d.offset ^ d.size) A B := by
  obtain ⟨ea, eb, r, h1, h2, h3, h4⟩ :=
    (radix2_transform d k hk hd hlog hprim hsz hgi hoi).mul_ifft A B hA hB
  exact ⟨ea, eb, r, h1, h2, h3, Outcome.ok.inj h4⟩

/-- hence polynomial multiplication when `deg A + deg B < N` -/
theorem radix2_fft_mul_ifft_product (d : Domain F) (k : Nat) (hk : k ≤ 64) (hd : d.size = 2 ^ k)
    (hlog : d.logSizeOfGroup = k) (hprim : IsPrimitiveRoot d.groupGen d.size)
    (hsz : d.sizeInv * (d.size : F) = 1) (hgi : d.groupGenInv * d.groupGen = 1)
    (hoi : d.offsetInv * d.offset = 1) (A B : List F) (hAB : A.length + B.length ≤ d.size + 1) :
    ∃ ea eb r, radix2Fft d A = .ok ea ∧ radix2Fft d B = .ok eb ∧
      mulPolynomialsInEvaluationDomain ea eb = .ok r ∧
      radix2Ifft d r = (List.range d.size).map (fun j => (polyOf A * polyOf B).coeff j) := by
  obtain ⟨ea, eb, r, h1, h2, h3, h4⟩ :=
    radix2_mul_ifft_product d (radix2_transform d k hk hd hlog hprim hsz hgi hoi) A B hAB
  refine ⟨ea, eb, r, h1, h2, h3, h4.trans ?_⟩
  exact List.map_congr_left (fun j _ => (coeff_polyOf_mul A B j).symm)

example : radix2Fft c4c [1, 2, 3] = .ok [0, 1, 5, 15] ∧ radix2Fft c4c [4, 5] = .ok [2, 12, 6, 13] ∧
    mulPolynomialsInEvaluationDomain ([0, 1, 5, 15] : List (ZMod 17)) [2, 12, 6, 13]
      = .ok [0, 12, 13, 8] ∧
    radix2Ifft c4c [0, 12, 13, 8] = [4, 13, 5, 15] ∧
    tab 4 (conv ([1, 2, 3] : List (ZMod 17)) [4, 5]) = [4, 13, 5, 15] := by decide +kernel
/-- wrap-around: `(1 + 2X + 3X²)(1 + X + X²) mod (X⁴ − 13)` -/
example : radix2Fft c4c [1, 2, 3] = .ok [0, 1, 5, 15] ∧ radix2Fft c4c [1, 1, 1] = .ok [13, 14, 7, 4] ∧
    mulPolynomialsInEvaluationDomain ([0, 1, 5, 15] : List (ZMod 17)) [13, 14, 7, 4]
      = .ok [0, 14, 1, 9] ∧
    radix2Ifft c4c [0, 14, 1, 9] = [6, 3, 6, 5] ∧
    tab 4 (fun j => conv ([1, 2, 3] : List (ZMod 17)) [1, 1, 1] j + 13 * conv [1, 2, 3] [1, 1, 1] (j + 4))
      = [6, 3, 6, 5] := by decide +kernel

/-- mixed-radix domain (hypotheses of `mixedFft_spec`) -/
theorem mixed_fft_mul_ifft (P : Params F) (q : Nat) (hq : P.smallBase = some q) (hq2 : 2 ≤ q)
    (hodd : q % 2 = 1) (d : Domain F) (hd : d.Good) (k : Nat)
    (hsize : d.size = 2 ^ d.logSizeOfGroup * q ^ k) (h32 : k = 0 → d.logSizeOfGroup ≤ 32)
    (A B : List F) (hA : A.length ≤ d.size) (hB : B.length ≤ d.size) :
    ∃ ea eb r, mixedFft P d A = .ok ea ∧ mixedFft P d B = .ok eb ∧
      mulPolynomialsInEvaluationDomain ea eb = .ok r ∧
      mixedIfft P d r = .ok (mulModCoeffs d.size (d.offset ^ d.size) A B) :=
  (mixed_transform P q hq hq2 hodd d hd k hsize h32).mul_ifft A B hA hB

example : P37c.smallBase = some 3 ∧ m12c.Good ∧ m12c.size = 2 ^ m12c.logSizeOfGroup * 3 ^ 1 :=
  ⟨rfl, m12c_good, by decide⟩
/-- wrap-around on the size-12 coset: `(1 + 2X + 3X²)(4 + 5X + … + 14X¹⁰) mod (X¹² − 26)` -/
example : mixedFft P37c m12c [1, 2, 3] = .ok [17, 24, 14, 2, 3, 3, 9, 34, 20, 13, 17, 4] ∧
    mixedFft P37c m12c [4, 5, 6, 7, 8, 9, 10, 11, 12, 13, 14]
      = .ok [19, 23, 5, 34, 27, 6, 18, 21, 7, 17, 14, 5] ∧
    mulPolynomialsInEvaluationDomain ([17, 24, 14, 2, 3, 3, 9, 34, 20, 13, 17, 4] : List (ZMod 37))
      [19, 23, 5, 34, 27, 6, 18, 21, 7, 17, 14, 5]
      = .ok [27, 34, 33, 31, 7, 18, 14, 11, 29, 36, 16, 20] ∧
    mixedIfft P37c m12c [27, 34, 33, 31, 7, 18, 14, 11, 29, 36, 16, 20]
      = .ok [23, 13, 28, 34, 3, 9, 15, 21, 27, 33, 2, 30] ∧
    tab 12 (fun j => conv ([1, 2, 3] : List (ZMod 37)) [4, 5, 6, 7, 8, 9, 10, 11, 12, 13, 14] j +
      26 * conv [1, 2, 3] [4, 5, 6, 7, 8, 9, 10, 11, 12, 13, 14] (j + 12))
      = [23, 13, 28, 34, 3, 9, 15, 21, 27, 33, 2, 30] := by decide +kernel

/-- `GeneralEvaluationDomain` (either variant) -/
theorem general_fft_mul_ifft (P : Params F) (g : GeneralDomain F) (hg : FftReady P g)
    (A B : List F) (hA : A.length ≤ g.dom.size) (hB : B.length ≤ g.dom.size) :
    ∃ ea eb r, generalFft P g A = .ok ea ∧ generalFft P g B = .ok eb ∧
      mulPolynomialsInEvaluationDomain ea eb = .ok r ∧
      generalIfft P g r = .ok (mulModCoeffs g.dom.size (g.dom.offset ^ g.dom.size) A B) :=
  (general_transform P g hg).mul_ifft A B hA hB

/-- what `FftReady` asks for; it holds for the radix-2 domains built by `new` on well-formed
    parameters and is stable under `get_coset` -/
theorem fftReady_iff (P : Params F) (g : GeneralDomain F) :
    FftReady P g ↔
      match g with
      | .radix2 d => d.Good ∧ d.size = 2 ^ d.logSizeOfGroup
      | .mixedRadix d => d.Good ∧ ∃ q k, P.smallBase = some q ∧ 2 ≤ q ∧ q % 2 = 1 ∧
          d.size = 2 ^ d.logSizeOfGroup * q ^ k ∧ (k = 0 → d.logSizeOfGroup ≤ 32) := by
  cases g <;> rfl

theorem fftReady_radix2New (P : Params F) (hP : P.WF) (n : Nat) (d : Domain F)
    (h : radix2New P n = .ok (some d)) : FftReady P (.radix2 d) := fftReady_of_radix2New P hP n d h

theorem fftReady_coset (P : Params F) (g : GeneralDomain F) (hg : FftReady P g) (h : F)
    (hh : h ≠ 0) : FftReady P (withOffset g h h⁻¹ (h ^ g.dom.size)) :=
  fftReady_withOffset P g hg h hh

example : FftReady P17c (.radix2 s4c) ∧ FftReady P17c (.radix2 c4c) := by
  have h1 : FftReady P17c (.radix2 s4c) :=
    fftReady_radix2New P17c P17c_WF 4 s4c (by decide +kernel)
  refine ⟨h1, ?_⟩
  have h2 := fftReady_coset P17c _ h1 3 (by decide)
  have e : withOffset (.radix2 s4c) (3 : ZMod 17) 3⁻¹ (3 ^ (GeneralDomain.radix2 s4c).dom.size)
      = .radix2 c4c := by decide +kernel
  rwa [e] at h2

example : FftReady P37c (.mixedRadix m12c) :=
  (fftReady_iff P37c _).2 ⟨m12c_good, 3, 1, rfl, by norm_num, by norm_num, by decide, by simp⟩

/-! ## 16. `new_coset` -/

/-- `new_coset(n, h)`: panics iff `new(n)` panics; is `None` iff `new(n)` is `None` or `h = 0`;
    otherwise it is the domain of `new(n)` with `offset = h`, `offset_inv = h⁻¹`,
    `offset_pow_size = h^size` (every domain built by `new` has `size < 2^64`, so the one-limb
    `pow` is exact) -/
theorem newCoset_spec (P : Params F) (n : Nat) (h : F) :
    (newCoset (generalNew P n) h = .panic ↔ generalNew P n = .panic) ∧
    (newCoset (generalNew P n) h = .ok none ↔
      generalNew P n = .ok none ∨ (h = 0 ∧ ∃ g, generalNew P n = .ok (some g))) ∧
    (∀ g, generalNew P n = .ok (some g) → h ≠ 0 →
      newCoset (generalNew P n) h = .ok (some (withOffset g h h⁻¹ (h ^ g.dom.size)))) :=
  ⟨newCoset_panic_iff _ h, newCoset_none_iff P n h, fun g hg hh => newCoset_some P n h g hg hh⟩

/-- `withOffset` changes exactly the three offset fields and keeps the variant -/
theorem withOffset_fields (g : GeneralDomain F) (h hi hp : F) :
    (withOffset g h hi hp).dom = { g.dom with offset := h, offsetInv := hi, offsetPowSize := hp } ∧
    ((∃ d, g = .radix2 d) ↔ ∃ d, withOffset g h hi hp = .radix2 d) := by
  cases g <;> simp [withOffset, GeneralDomain.dom]

/-- every domain returned by `GeneralEvaluationDomain::new` has a size below `2^64` -/
theorem generalNew_size_lt_u64 (P : Params F) (n : Nat) (g : GeneralDomain F)
    (h : generalNew P n = .ok (some g)) : g.dom.size < 2 ^ 64 := generalNew_size_lt P n g h

example : generalNew P17c 4 = .ok (some (.radix2 s4c)) ∧
    newCoset (generalNew P17c 4) 3 = .ok (some (.radix2 c4c)) ∧
    newCoset (generalNew P17c 4) 0 = .ok none ∧
    generalNew P17c 17 = .ok none ∧ newCoset (generalNew P17c 17) 3 = .ok none := by
  decide +kernel

/-! ## 17. `PartialEq for GeneralEvaluationDomain` -/

theorem generalDomainEq_iff_eq (a b : GeneralDomain F) : generalDomainEq a b = true ↔ a = b :=
  generalDomainEq_iff a b

example : generalDomainEq (.radix2 s4c) (.radix2 s4c) = true ∧
    generalDomainEq (.radix2 s4c) (.radix2 c4c) = false ∧
    generalDomainEq (.radix2 s4c) (.mixedRadix s4c) = false := by decide +kernel

/-! ## 18. `Evaluations`: `zero`, indexing, scalar multiple, the assigning operators -/

/-- `Evaluations::zero(domain)`: `N` zeros — the evaluations of the zero polynomial -/
theorem evalsZero_spec (d : Domain F) :
    evalsZero d = List.replicate d.size 0 ∧ (evalsZero d).length = d.size ∧
      evalsZero d = (elements d).map (evalL ([] : List F)) := evalsZero_eq d

example : evalsZero c4c = [0, 0, 0, 0] := by decide +kernel

/-- `evals[i]`: the entry, with the slice-index panic exactly out of bounds -/
theorem evalsIndex_spec (e : List F) (i : Nat) :
    (∀ x, evalsIndex e i = .ok x ↔ e[i]? = some x) ∧ (evalsIndex e i = .panic ↔ e.length ≤ i) :=
  ⟨fun x => evalsIndex_ok_iff e i x, evalsIndex_panic_iff e i⟩

example : evalsIndex ([5, 6, 7] : List (ZMod 17)) 2 = .ok 7 ∧
    evalsIndex ([5, 6, 7] : List (ZMod 17)) 3 = .panic := by decide +kernel

/-- `&evals * c` -/
theorem evalsMulScalar_spec (e : List F) (c : F) :
    evalsMulScalar e c = e.map (· * c) ∧ (evalsMulScalar e c).length = e.length :=
  ⟨rfl, by simp [evalsMulScalar]⟩

example : evalsMulScalar ([5, 6, 7] : List (ZMod 17)) 3 = [15, 1, 4] := by decide +kernel

/-- the zipped update keeps the length of the receiver; on the common prefix it applies `f`, the
    rest of the receiver is untouched -/
theorem zipAssign_spec (f : F → F → F) (a b : List F) :
    (zipAssign f a b).length = a.length ∧
    zipAssign f a b = List.zipWith f a b ++ a.drop b.length ∧
    (a.length ≤ b.length → zipAssign f a b = List.zipWith f a b) :=
  ⟨zipAssign_length f a b, zipAssign_eq f a b, zipAssign_eq_zipWith f a b⟩

/-- `a ⊕= &b` for `⊕ ∈ {+, −, ·}`: `Ok` iff the domains are equal (the `assert_eq!`), and then the
    zipped update (`= zipWith f a b` for equal lengths, which equal domains imply for well-formed
    `Evaluations`) -/
theorem evalsBinAssign_spec (f : F → F → F) (same : Bool) (a b : List F) :
    (∀ r, evalsBinAssign f same a b = .ok r ↔ same = true ∧ r = zipAssign f a b) ∧
    (evalsBinAssign f same a b = .panic ↔ same = false) ∧
    (same = true → a.length = b.length → evalsBinAssign f same a b = .ok (List.zipWith f a b)) := by
  refine ⟨fun r => evalsBinAssign_ok_iff f same a b r, evalsBinAssign_panic_iff f same a b, ?_⟩
  intro hs hl
  rw [evalsBinAssign_ok_iff, zipAssign_eq_zipWith f a b (le_of_eq hl)]
  exact ⟨hs, rfl⟩

example : evalsBinAssign (· - ·) true ([5, 6, 7] : List (ZMod 17)) [1, 7, 7] = .ok [4, 16, 0] ∧
    evalsBinAssign (· - ·) false ([5, 6, 7] : List (ZMod 17)) [1, 7, 7] = .panic ∧
    evalsBinAssign (· + ·) true ([5, 6, 7] : List (ZMod 17)) [1] = .ok [6, 6, 7] := by
  decide +kernel

/-- `a /= &b`: `Ok` iff the domains are equal — the modelled `batch_inversion` never takes its
    `unwrap` — and then `r[i] = a[i] / b[i]` with `x / 0 = 0` (zero entries of `b` are skipped by
    the batch inversion and stay zero) -/
theorem evalsDivAssign_spec (same : Bool) (a b : List F) :
    (∀ r, evalsDivAssign same a b = .ok r ↔
      same = true ∧ r = zipAssign (· * ·) a (b.map (·⁻¹))) ∧
    (evalsDivAssign same a b = .panic ↔ same = false) ∧
    (∀ r, evalsDivAssign true a b = .ok r → r.length = a.length ∧
      (∀ (i : Nat) (x y : F), a[i]? = some x → b[i]? = some y → r[i]? = some (x / y)) ∧
      (∀ (i : Nat) (x : F), a[i]? = some x → b[i]? = none → r[i]? = some x)) :=
  ⟨fun r => evalsDivAssign_ok_iff same a b r, evalsDivAssign_panic_iff same a b,
    fun r hr => evalsDivAssign_entries a b r hr⟩

/-- for equal lengths: `r = zipWith (/) a b` -/
theorem evalsDivAssign_eq_zipWith_div (a b : List F) (h : a.length = b.length) :
    evalsDivAssign true a b = .ok (List.zipWith (· / ·) a b) := evalsDivAssign_zipWith a b h

/-- the batch inversion behind it: every entry inverted, zeros kept -/
theorem batchInversion_total (l : List F) : batchInversion l = some (l.map (·⁻¹)) :=
  batchInversion_eq l

example : evalsDivAssign true ([5, 6, 7, 8] : List (ZMod 17)) [1, 0, 7, 2] = .ok [5, 0, 1, 4] ∧
    evalsDivAssign false ([5, 6, 7, 8] : List (ZMod 17)) [1, 0, 7, 2] = .panic ∧
    batchInversion ([1, 0, 7, 2] : List (ZMod 17)) = some [1, 0, 5, 9] := by decide +kernel

/-! ## 19. `Evaluations::interpolate` and its linearity -/

/-- on a radix-2 domain `interpolate(evals)` (`|evals| = N`) is the canonical coefficient vector of
    the unique polynomial of degree `< N` with these values on the domain -/
theorem interpolateRadix2_correct (d : Domain F) (k : Nat) (hk : k ≤ 64) (hd : d.size = 2 ^ k)
    (hlog : d.logSizeOfGroup = k) (hprim : IsPrimitiveRoot d.groupGen d.size)
    (hsz : d.sizeInv * (d.size : F) = 1) (hgi : d.groupGenInv * d.groupGen = 1)
    (hoi : d.offsetInv * d.offset = 1) (e : List F) (he : e.length = d.size) :
    (interpolateRadix2 d e).getLast? ≠ some 0 ∧ (interpolateRadix2 d e).length ≤ d.size ∧
      (elements d).map (evalL (interpolateRadix2 d e)) = e :=
  interpolateRadix2_spec (radix2_transform d k hk hd hlog hprim hsz hgi hoi) e he

/-- `interpolate(a + b) = interpolate(a) + interpolate(b)` (coefficientwise and as functions),
    `a + b` being the model's `AddAssign` -/
theorem interpolateRadix2_additive (d : Domain F) (k : Nat) (hk : k ≤ 64) (hd : d.size = 2 ^ k)
    (hlog : d.logSizeOfGroup = k) (hprim : IsPrimitiveRoot d.groupGen d.size)
    (hsz : d.sizeInv * (d.size : F) = 1) (hgi : d.groupGenInv * d.groupGen = 1)
    (hoi : d.offsetInv * d.offset = 1) (a b s : List F) (ha : a.length = d.size)
    (hb : b.length = d.size) (hs : evalsBinAssign (· + ·) true a b = .ok s) :
    (∀ i, fn (interpolateRadix2 d s) i = fn (interpolateRadix2 d a) i + fn (interpolateRadix2 d b) i) ∧
    ∀ x, evalL (interpolateRadix2 d s) x =
      evalL (interpolateRadix2 d a) x + evalL (interpolateRadix2 d b) x :=
  interpolateRadix2_add (radix2_transform d k hk hd hlog hprim hsz hgi hoi) a b s ha hb hs

/-- `interpolate(a · c) = interpolate(a) · c`, `a · c` being the model's `Mul<F>` -/
theorem interpolateRadix2_homogeneous (d : Domain F) (k : Nat) (hk : k ≤ 64) (hd : d.size = 2 ^ k)
    (hlog : d.logSizeOfGroup = k) (hprim : IsPrimitiveRoot d.groupGen d.size)
    (hsz : d.sizeInv * (d.size : F) = 1) (hgi : d.groupGenInv * d.groupGen = 1)
    (hoi : d.offsetInv * d.offset = 1) (a : List F) (c : F) (ha : a.length = d.size) :
    (∀ i, fn (interpolateRadix2 d (evalsMulScalar a c)) i = fn (interpolateRadix2 d a) i * c) ∧
    ∀ x, evalL (interpolateRadix2 d (evalsMulScalar a c)) x = evalL (interpolateRadix2 d a) x * c :=
  interpolateRadix2_smul (radix2_transform d k hk hd hlog hprim hsz hgi hoi) a c ha

/-- `interpolate(zero(domain))` is the zero polynomial `[]` -/
theorem interpolateRadix2_of_zero (d : Domain F) (k : Nat) (hk : k ≤ 64) (hd : d.size = 2 ^ k)
    (hlog : d.logSizeOfGroup = k) (hprim : IsPrimitiveRoot d.groupGen d.size)
    (hsz : d.sizeInv * (d.size : F) = 1) (hgi : d.groupGenInv * d.groupGen = 1)
    (hoi : d.offsetInv * d.offset = 1) : interpolateRadix2 d (evalsZero d) = [] :=
  interpolateRadix2_zero (radix2_transform d k hk hd hlog hprim hsz hgi hoi)

example : interpolateRadix2 c4c [1, 2, 3, 4] = [11, 2, 16, 1] ∧
    interpolateRadix2 c4c [4, 3, 2, 1] = [11, 15, 1, 16] ∧
    evalsBinAssign (· + ·) true ([1, 2, 3, 4] : List (ZMod 17)) [4, 3, 2, 1] = .ok [5, 5, 5, 5] ∧
    interpolateRadix2 c4c [5, 5, 5, 5] = [5] ∧
    interpolateRadix2 c4c (evalsMulScalar [1, 2, 3, 4] 2) = [5, 4, 15, 2] ∧
    interpolateRadix2 c4c (evalsZero c4c) = [] ∧
    (elements c4c).map (evalL (interpolateRadix2 c4c [1, 2, 3, 4])) = [1, 2, 3, 4] := by
  decide +kernel

/-- the same for `GeneralEvaluationDomain` (either variant) -/
theorem interpolateGeneral_correct (P : Params F) (g : GeneralDomain F) (hg : FftReady P g)
    (e : List F) (he : e.length = g.dom.size) :
    ∃ p, interpolateGeneral P g e = .ok p ∧ p.getLast? ≠ some 0 ∧ p.length ≤ g.dom.size ∧
      (elements g.dom).map (evalL p) = e := interpolateGeneral_spec P g hg e he

theorem interpolateGeneral_additive (P : Params F) (g : GeneralDomain F) (hg : FftReady P g)
    (a b s : List F) (ha : a.length = g.dom.size) (hb : b.length = g.dom.size)
    (hs : evalsBinAssign (· + ·) true a b = .ok s) :
    ∃ pa pb ps, interpolateGeneral P g a = .ok pa ∧ interpolateGeneral P g b = .ok pb ∧
      interpolateGeneral P g s = .ok ps ∧ (∀ i, fn ps i = fn pa i + fn pb i) ∧
      ∀ x, evalL ps x = evalL pa x + evalL pb x := interpolateGeneral_add P g hg a b s ha hb hs

theorem interpolateGeneral_homogeneous (P : Params F) (g : GeneralDomain F) (hg : FftReady P g)
    (a : List F) (c : F) (ha : a.length = g.dom.size) :
    ∃ pa ps, interpolateGeneral P g a = .ok pa ∧
      interpolateGeneral P g (evalsMulScalar a c) = .ok ps ∧ (∀ i, fn ps i = fn pa i * c) ∧
      ∀ x, evalL ps x = evalL pa x * c := interpolateGeneral_smul P g hg a c ha

example : interpolateGeneral P17c (.radix2 c4c) [1, 2, 3, 4] = .ok [11, 2, 16, 1] := by
  decide +kernel

end

end Ark.C07
