import Ark.Proofs.MontF
/-
  Property C01 (part f) — the Montgomery prime-field backend (`Ark.Model.Mont`,
  `Ark.Model.MontOps`; model of ff/src/fields/models/fp/{montgomery_backend,mod}.rs and
  ff/src/fields/prime.rs) IS integer arithmetic modulo `p`, stated in `ZMod pv`.

  `den c pv a = value a · R⁻¹ ∈ ZMod pv` (`R = 2^(64N)`) is the residue denoted by the Montgomery
  limbs `a`.  Every theorem holds for every configuration consistent with the modulus
  (`CfgOK c pv`: every limb count, spare bit or not, no-carry path or not, derived or trait flavour)
  and `pv` prime (`[Fact pv.Prime]`).
    §1  the field operations commute with `den`;
    §2  the `Ops.Interp` instance and the generic algorithms `pow`, `serial_batch_inversion_and_mul`;
    §3  `From<u64>`, `From<u128>`, `From<i*>`, `from_{le,be}_bytes_mod_order`.
  Minimal-limb-count hypothesis `B ^ (c.n - 1) ≤ pv` ("the modulus needs all its limbs"): needed
  ONLY by `from_u64_zmod`, `from_signed_zmod` (narrow) and `from_{le,be}_bytes_mod_order_zmod`, and
  only for `N ≥ 2`; their primed variants state the exact condition (`N = 1 ∨ x < p`), and
  `from_u64_panics` shows the `unwrap` does panic without it.  `From<u128>` needs nothing.
  Helpers are in Ark/Proofs/MontF.lean.
-/
namespace Ark.C01
open Ark Ark.Mont

variable {c : MontCfg} {pv : Nat} [Fact pv.Prime]

/-! ### non-vacuity: a concrete prime and configuration -/

local instance fact13 : Fact (Nat.Prime 13) := ⟨prime13⟩
-- `cfg13 : CfgOK (mkCfg true 1 13) 13` and `elem13 : x < 13 → Elem (mkCfg true 1 13) 13 [x]` are in MontF

example : CfgOK (mkCfg true 1 13) 13 := by constructor <;> first | decide +kernel | exact toLimbs_wf _ _
example : CfgOK (mkCfg true 2 13) 13 := by constructor <;> first | decide +kernel | exact toLimbs_wf _ _
example : Elem (mkCfg true 1 13) 13 [9] ∧ Elem (mkCfg true 1 13) 13 [11] ∧
    Elem (mkCfg true 1 13) 13 [0] := by
  refine ⟨⟨by decide +kernel, by unfold WF; decide +kernel, by decide +kernel⟩,
    ⟨by decide +kernel, by unfold WF; decide +kernel, by decide +kernel⟩,
    ⟨by decide +kernel, by unfold WF; decide +kernel, by decide +kernel⟩⟩

/-- `R = 2^64 ≡ 3 (mod 13)`: the limbs `[9]` denote `3` (`3·3 = 9`), `[3]` denotes `1` -/
example : den (mkCfg true 1 13) 13 [9] = 3 :=
  den_of_mont_value cfg13 (x := 3) (by decide +kernel)
example : den (mkCfg true 1 13) 13 [3] = 1 :=
  den_of_mont_value cfg13 (x := 1) (by decide +kernel)
example : den (mkCfg true 1 13) 13 [11] = 8 :=
  den_of_mont_value cfg13 (x := 8) (by decide +kernel)

/-! ## 1. the field operations in `ZMod pv` -/

/-- `den` is `value a · R⁻¹` -/
theorem den_exact (a : List Nat) :
    den c pv a = (value a : ZMod pv) * ((B ^ c.n : ℕ) : ZMod pv)⁻¹ := rfl

/-- and conversely `value a = den a · R` in `ZMod pv` (`R` is invertible) -/
theorem den_mul_R (h : CfgOK c pv) (a : List Nat) :
    den c pv a * ((B ^ c.n : ℕ) : ZMod pv) = (value a : ZMod pv) ∧
    ((B ^ c.n : ℕ) : ZMod pv) ≠ 0 :=
  ⟨Mont.den_mul_R h a, R_ne_zero h⟩

/-- canonical elements are determined by their residue -/
theorem den_injective (h : CfgOK c pv) {a b : List Nat} (ha : Elem c pv a) (hb : Elem c pv b)
    (e : den c pv a = den c pv b) : a = b :=
  den_inj h ha hb e

example : den (mkCfg true 1 13) 13 [9] ≠ den (mkCfg true 1 13) 13 [11] := by
  intro e
  exact absurd (den_injective cfg13 (elem13 9 (by omega)) (elem13 11 (by omega)) e) (by decide)

/-- `add_assign` is addition modulo `p` -/
theorem add_zmod (h : CfgOK c pv) {a b : List Nat} (ha : Elem c pv a) (hb : Elem c pv b) :
    den c pv (Mont.add c a b) = den c pv a + den c pv b :=
  den_add h ha hb

/-- `sub_assign` is subtraction modulo `p` -/
theorem sub_zmod (h : CfgOK c pv) {a b : List Nat} (ha : Elem c pv a) (hb : Elem c pv b) :
    den c pv (Mont.sub c a b) = den c pv a - den c pv b :=
  den_sub h ha hb

/-- `neg_in_place` is negation modulo `p` -/
theorem neg_zmod (h : CfgOK c pv) {a : List Nat} (ha : Elem c pv a) :
    den c pv (Mont.neg c a) = - den c pv a :=
  den_neg h ha

/-- `double_in_place` is multiplication by two modulo `p` -/
theorem double_zmod (h : CfgOK c pv) {a : List Nat} (ha : Elem c pv a) :
    den c pv (Mont.double c a) = 2 * den c pv a :=
  den_double h ha

/-- `mul_assign` is multiplication modulo `p` -/
theorem mul_zmod (h : CfgOK c pv) {a b : List Nat} (ha : Elem c pv a) (hb : Elem c pv b) :
    den c pv (Mont.mul c a b) = den c pv a * den c pv b :=
  den_mul h ha hb

/-- `square_in_place` is squaring modulo `p` -/
theorem square_zmod (h : CfgOK c pv) {a : List Nat} (ha : Elem c pv a) :
    den c pv (Mont.square c a) = den c pv a * den c pv a :=
  den_square h ha

/-- `ONE = R` denotes `1`, `ZERO` denotes `0`; both are canonical elements -/
theorem one_zmod (h : CfgOK c pv) : Elem c pv c.r ∧ den c pv c.r = 1 :=
  ⟨one_elem h, den_one h⟩

theorem zero_zmod (h : CfgOK c pv) : Elem c pv (zeros c.n) ∧ den c pv (zeros c.n) = 0 :=
  ⟨(zeros_elem h).1, den_zeros⟩

example : Mont.add (mkCfg true 1 13) [9] [11] = [7] ∧ den (mkCfg true 1 13) 13 [7] = 3 + 8 :=
  ⟨by decide +kernel, by
    rw [den_of_mont_value cfg13 (r := [7]) (x := 11) (by decide +kernel)]; decide⟩
example : Mont.mul (mkCfg true 1 13) [9] [11] = [7] ∧ (3 * 8 : ZMod 13) = 11 :=
  ⟨by decide +kernel, by decide⟩
example : (mkCfg true 1 13).r = [3] ∧ zeros (mkCfg true 1 13).n = [0] := by decide +kernel

/-- `inverse`: a non-zero element has the inverse `r` with `den r = (den a)⁻¹`; zero gives `None` -/
theorem inverse_zmod (h : CfgOK c pv) {a : List Nat} (ha : Elem c pv a) :
    (den c pv a ≠ 0 →
      ∃ r, Mont.inverse c a = some r ∧ Elem c pv r ∧ den c pv r = (den c pv a)⁻¹) ∧
    (den c pv a = 0 → Mont.inverse c a = none) :=
  ⟨den_inverse h ha, inverse_none_of_den_zero h ha⟩

example : Mont.inverse (mkCfg true 1 13) [9] = some [1] ∧ (3 : ZMod 13)⁻¹ = 9 ∧
    den (mkCfg true 1 13) 13 [1] = 9 :=
  ⟨by decide +kernel, inv_eq_of_mul_eq_one_right (by decide),
    den_of_mont_value cfg13 (x := 9) (by decide +kernel)⟩

/-- zero test: `den a = 0 ↔ value a = 0 ↔ is_zero a` for canonical elements -/
theorem is_zero_zmod (h : CfgOK c pv) {a : List Nat} (ha : Elem c pv a) :
    (den c pv a = 0 ↔ value a = 0) ∧ (value a = 0 ↔ isZero a = true) :=
  ⟨den_eq_zero_iff h ha, (isZero_iff a).symm⟩

example : isZero [0] = true ∧ isZero [9] = false := by decide +kernel

/-- `into_bigint` returns THE standard representative of the residue: as an element of `ZMod pv`
    it is `den a`, and as a natural number it is `(den a).val < p` -/
theorem into_bigint_zmod (h : CfgOK c pv) {a : List Nat} (ha : Elem c pv a) :
    (value (intoBigint c a) : ZMod pv) = den c pv a ∧
    value (intoBigint c a) = (den c pv a).val :=
  ⟨den_intoBigint h ha, intoBigint_val h ha⟩

example : intoBigint (mkCfg true 1 13) [9] = [3] := by decide +kernel

/-- `from_bigint` of an integer `x < p` denotes `x` -/
theorem from_bigint_zmod (h : CfgOK c pv) {x : List Nat} (hx : Limbs c x) (hlt : value x < pv) :
    ∃ r, fromBigint c x = some r ∧ Elem c pv r ∧ den c pv r = (value x : ZMod pv) :=
  den_fromBigint h hx hlt

/-- `Fp::new` of ANY `N`-limb integer `x` denotes `x mod p` -/
theorem fp_new_zmod (h : CfgOK c pv) {x : List Nat} (hx : Limbs c x) :
    Elem c pv (fpNew c x) ∧ den c pv (fpNew c x) = (value x : ZMod pv) :=
  den_fpNew h hx

example : fromBigint (mkCfg true 1 13) [3] = some [9] ∧ fpNew (mkCfg true 1 13) [16] = [9] ∧
    ((16 : ℕ) : ZMod 13) = 3 := ⟨by decide +kernel, by decide +kernel, by decide⟩
example : Limbs (mkCfg true 1 13) [16] := ⟨rfl, by unfold WF; decide +kernel⟩

/-- `sum_of_products` (all variants of both flavours) is `Σ aᵢ·bᵢ` modulo `p` -/
theorem sum_of_products_zmod (h : CfgOK c pv) {as bs : List (List Nat)}
    (hlen : as.length = bs.length) (ha : ∀ a ∈ as, Elem c pv a) (hb : ∀ b ∈ bs, Elem c pv b) :
    Elem c pv (sumOfProducts c as bs) ∧
    den c pv (sumOfProducts c as bs)
      = ((as.zip bs).map (fun ab => den c pv ab.1 * den c pv ab.2)).sum :=
  den_sumOfProducts h hlen ha hb

example : sumOfProducts (mkCfg true 1 13) [[9], [11]] [[11], [3]] = [5] ∧
    (3 * 8 + 8 * 1 : ZMod 13) = 6 ∧ den (mkCfg true 1 13) 13 [5] = 6 :=
  ⟨by decide +kernel, by decide, den_of_mont_value cfg13 (x := 6) (by decide +kernel)⟩

/-! ## 2. the generic algorithms on the Montgomery backend -/

/-- the Montgomery backend is an interpretation (`Ops.Interp`) of `montOps c` in the field
    `ZMod pv`, with the canonical elements as valid representations and `den` as denotation -/
theorem mont_interp_exact (h : CfgOK c pv) :
    (montInterp h).V = Elem c pv ∧ (montInterp h).φ = den c pv := ⟨rfl, rfl⟩

/-- `Field::pow`: for every exponent limb list `e` (leading zero limbs included),
    `pow(a, e)` denotes `(den a) ^ value e` -/
theorem pow_zmod (h : CfgOK c pv) {a : List Nat} (ha : Elem c pv a) (e : List Nat) (he : WF e) :
    Elem c pv ((montOps c).pow a (toBitsBE e)) ∧
    den c pv ((montOps c).pow a (toBitsBE e)) = den c pv a ^ value e :=
  den_pow h ha e he

/-- the same for an arbitrary big-endian bit list -/
theorem pow_bits_zmod (h : CfgOK c pv) {a : List Nat} (ha : Elem c pv a) (bits : List Bool) :
    Elem c pv ((montOps c).pow a bits) ∧
    den c pv ((montOps c).pow a bits) = den c pv a ^ bitsValBE bits :=
  den_pow_bits h ha bits

example : (montOps (mkCfg true 1 13)).pow [9] (toBitsBE [5, 0]) = [1] ∧ (3 : ZMod 13) ^ 5 = 9 ∧
    value [5, 0] = 5 := ⟨by decide +kernel, by decide, by decide +kernel⟩
example : WF [5, 0] := by unfold WF; decide +kernel

/-- `serial_batch_inversion_and_mul(v, coeff)` on canonical elements never panics, keeps the
    length, returns canonical elements, leaves zero entries untouched and replaces every non-zero
    entry `x` by `coeff · x⁻¹` (in `ZMod pv`) -/
theorem batch_inversion_zmod (h : CfgOK c pv) (v : List (List Nat)) (coeff : List Nat)
    (hv : ∀ f ∈ v, Elem c pv f) (hc : Elem c pv coeff) :
    ∃ w, (montOps c).batchInvMul v coeff = some w ∧ w.length = v.length ∧
      (∀ x ∈ w, Elem c pv x) ∧
      ∀ (i : Nat) (h1 : i < v.length) (h2 : i < w.length),
        (den c pv v[i] = 0 → w[i] = v[i]) ∧
        (den c pv v[i] ≠ 0 → den c pv w[i] = den c pv coeff * (den c pv v[i])⁻¹) :=
  den_batchInvMul h v coeff hv hc

theorem batch_inversion_no_panic (h : CfgOK c pv) (v : List (List Nat)) (coeff : List Nat)
    (hv : ∀ f ∈ v, Elem c pv f) (hc : Elem c pv coeff) :
    (montOps c).batchInvMul v coeff ≠ none := by
  obtain ⟨w, hw, _⟩ := den_batchInvMul h v coeff hv hc
  rw [hw]; exact Option.some_ne_none w

/-- `[3, 0, 8]` with coefficient `1`: `3⁻¹ = 9 ↦ [1]`, `8⁻¹ = 5 ↦ [2]` -/
example : (montOps (mkCfg true 1 13)).batchInvMul [[9], [0], [11]] [3] = some [[1], [0], [2]] ∧
    (3 : ZMod 13)⁻¹ = 9 ∧ (8 : ZMod 13)⁻¹ = 5 :=
  ⟨by decide +kernel, inv_eq_of_mul_eq_one_right (by decide), inv_eq_of_mul_eq_one_right (by decide)⟩

/-! ## 3. integer and byte-string conversions -/

/-- `From<u64>` (and `u32/u16/u8/bool`): for a modulus that needs all its limbs, every `x < 2^64`
    is converted (no panic) to the element denoting `x mod p`.
    Needs the minimal-limb-count hypothesis (for `N ≥ 2` the code relies on `x < 2^64 ≤ p`). -/
theorem from_u64_zmod (h : CfgOK c pv) (hmin : B ^ (c.n - 1) ≤ pv) {x : Nat} (hx : x < B) :
    ∃ r, fromU64 c x = .ok r ∧ Elem c pv r ∧ den c pv r = (x : ZMod pv) :=
  fromU64_ok h (u64_lt_of_min h hmin hx)

/-- exact condition: `N = 1` (the code reduces `x % p` first) or `x < p` -/
theorem from_u64_zmod' (h : CfgOK c pv) {x : Nat} (hx : c.n = 1 ∨ x < pv) :
    ∃ r, fromU64 c x = .ok r ∧ Elem c pv r ∧ den c pv r = (x : ZMod pv) :=
  fromU64_ok h hx

omit [Fact (Nat.Prime pv)] in
/-- and the hypothesis is necessary: with `N ≥ 2` limbs and `p ≤ x < 2^64` the `unwrap` panics -/
theorem from_u64_panics (h : CfgOK c pv) (hn : c.n ≠ 1) {x : Nat} (hx : pv ≤ x) (hlt : x < B) :
    fromU64 c x = .panic :=
  fromU64_panic h hn hx hlt

example : fromU64 (mkCfg true 1 13) 100 = .ok [1] ∧ ((100 : ℕ) : ZMod 13) = 9 ∧
    B ^ ((mkCfg true 1 13).n - 1) ≤ 13 ∧ 100 < B := by
  refine ⟨by decide +kernel, by decide, by decide +kernel, by decide +kernel⟩
/-- a 13-element field declared with two limbs: `From<u64>` panics from 13 on -/
example : fromU64 (mkCfg true 2 13) 12 = .ok [4, 0] ∧ fromU64 (mkCfg true 2 13) 13 = .panic := by
  decide +kernel
example : fromU64 (mkCfg false 2 (2 ^ 127 - 1)) (B - 1) = .ok [18446744073709551614, 1] ∧
    B ^ ((mkCfg false 2 (2 ^ 127 - 1)).n - 1) ≤ 2 ^ 127 - 1 := by decide +kernel

/-- `From<u128>`: every `x < 2^128` is converted (no panic) to the element denoting `x mod p` — on
    all three branches (`N = 1`; `N = 2` or all higher modulus limbs zero, where the low 128 bits of
    the modulus ARE the modulus; otherwise `x < 2^128 ≤ p`).  No extra hypothesis. -/
theorem from_u128_zmod (h : CfgOK c pv) {x : Nat} (hx : x < B ^ 2) :
    ∃ r, fromU128 c x = .ok r ∧ Elem c pv r ∧ den c pv r = (x : ZMod pv) :=
  fromU128_ok h hx

example : fromU128 (mkCfg true 1 13) (B ^ 2 - 1) = .ok [11] ∧
    fromU128 (mkCfg true 2 13) (B ^ 2 - 1) = .ok [7, 0] ∧
    ((B ^ 2 - 1 : ℕ) : ZMod 13) = 8 ∧ B ^ 2 - 1 < B ^ 2 := by
  refine ⟨by decide +kernel, by decide +kernel, ?_, by decide +kernel⟩
  rw [← ZMod.natCast_mod]; decide +kernel

/-- `From<i64>` (and `i32/i16/i8`): `|x| < 2^64`, zero and negatives through the negation branch.
    Needs the minimal-limb-count hypothesis (inherited from `From<u64>`). -/
theorem from_signed_zmod (h : CfgOK c pv) (hmin : B ^ (c.n - 1) ≤ pv) {x : Int}
    (hx : x.natAbs < B) :
    ∃ r, fromSigned c false x = .ok r ∧ Elem c pv r ∧ den c pv r = (x : ZMod pv) :=
  fromSigned_narrow_ok h (u64_lt_of_min h hmin hx)

theorem from_signed_zmod' (h : CfgOK c pv) {x : Int} (hx : c.n = 1 ∨ x.natAbs < pv) :
    ∃ r, fromSigned c false x = .ok r ∧ Elem c pv r ∧ den c pv r = (x : ZMod pv) :=
  fromSigned_narrow_ok h hx

/-- `From<i128>`: `|x| < 2^128`.  No extra hypothesis. -/
theorem from_signed_wide_zmod (h : CfgOK c pv) {x : Int} (hx : x.natAbs < B ^ 2) :
    ∃ r, fromSigned c true x = .ok r ∧ Elem c pv r ∧ den c pv r = (x : ZMod pv) :=
  fromSigned_wide_ok h hx

example : fromSigned (mkCfg true 1 13) false (-100) = .ok [12] ∧ ((-100 : ℤ) : ZMod 13) = 4 ∧
    fromSigned (mkCfg true 1 13) false 0 = .ok [0] ∧
    fromSigned (mkCfg true 1 13) true (-(2 : Int) ^ 127) = .ok [6] := by
  refine ⟨by decide +kernel, by decide, by decide +kernel, by decide +kernel⟩
example : den (mkCfg true 1 13) 13 [12] = 4 :=
  den_of_mont_value cfg13 (x := 4) (by decide +kernel)
example : (-100 : Int).natAbs < B ∧ (-(2 : Int) ^ 127).natAbs < B ^ 2 := by decide +kernel

omit [Fact (Nat.Prime pv)] in
/-- `256^(modulusBytes − 1) ≤ p`: the bytes converted directly never reach the modulus -/
theorem modulus_bytes_bound (h : CfgOK c pv) : 256 ^ (modulusBytes c - 1) ≤ pv :=
  pow_modulusBytes_le h

omit [Fact (Nat.Prime pv)] in
/-- `bytesValueLE` of the reversed string is the big-endian Horner value -/
theorem bytes_value_reverse (l : List Nat) :
    bytesValueLE l.reverse = l.foldl (fun acc b => 256 * acc + b) 0 :=
  bytesValueLE_reverse l

/-- `from_le_bytes_mod_order`: EVERY byte string (any length, also longer than the modulus) is
    converted, without panic, to the element denoting its little-endian value modulo `p`.
    Needs the minimal-limb-count hypothesis (through `From<u64>` of `256` and of the bytes). -/
theorem from_le_bytes_mod_order_zmod (h : CfgOK c pv) (hmin : B ^ (c.n - 1) ≤ pv)
    (bytes : List Nat) (hb : ∀ b ∈ bytes, b < 256) :
    ∃ r, fromLeBytesModOrder c bytes = .ok r ∧ Elem c pv r ∧
      den c pv r = (bytesValueLE bytes : ZMod pv) :=
  fromLeBytes_ok h bytes hb (byte_small_of_min h hmin)

/-- exact condition: `N = 1` or `256 < p` -/
theorem from_le_bytes_mod_order_zmod' (h : CfgOK c pv) (hs : c.n = 1 ∨ 256 < pv)
    (bytes : List Nat) (hb : ∀ b ∈ bytes, b < 256) :
    ∃ r, fromLeBytesModOrder c bytes = .ok r ∧ Elem c pv r ∧
      den c pv r = (bytesValueLE bytes : ZMod pv) :=
  fromLeBytes_ok h bytes hb hs

/-- `from_be_bytes_mod_order`: the same on the reversed string, i.e. the big-endian value -/
theorem from_be_bytes_mod_order_zmod (h : CfgOK c pv) (hmin : B ^ (c.n - 1) ≤ pv)
    (bytes : List Nat) (hb : ∀ b ∈ bytes, b < 256) :
    ∃ r, fromBeBytesModOrder c bytes = .ok r ∧ Elem c pv r ∧
      den c pv r = ((bytes.foldl (fun acc b => 256 * acc + b) 0 : ℕ) : ZMod pv) := by
  rw [← bytesValueLE_reverse]
  exact fromLeBytes_ok h bytes.reverse (fun b hbm => hb b (List.mem_reverse.1 hbm))
    (byte_small_of_min h hmin)

theorem from_be_bytes_mod_order_zmod' (h : CfgOK c pv) (hs : c.n = 1 ∨ 256 < pv)
    (bytes : List Nat) (hb : ∀ b ∈ bytes, b < 256) :
    ∃ r, fromBeBytesModOrder c bytes = .ok r ∧ Elem c pv r ∧
      den c pv r = (bytesValueLE bytes.reverse : ZMod pv) :=
  fromLeBytes_ok h bytes.reverse (fun b hbm => hb b (List.mem_reverse.1 hbm)) hs

/-- one-limb field of 13 elements: `modulusBytes = 1`, nothing converted directly, three Horner
    steps; `1 + 2·256 + 255·65536 = 16712193 ≡ 4 (mod 13)`, `[12]` denotes `4` -/
example : modulusBytes (mkCfg true 1 13) = 1 ∧
    fromLeBytesModOrder (mkCfg true 1 13) [1, 2, 255] = .ok [12] ∧
    bytesValueLE [1, 2, 255] = 16712193 ∧ ((16712193 : ℕ) : ZMod 13) = 4 ∧
    fromBeBytesModOrder (mkCfg true 1 13) [255, 2, 1] = .ok [12] := by
  refine ⟨by decide +kernel, by decide +kernel, by decide +kernel, ?_, by decide +kernel⟩
  rw [← ZMod.natCast_mod]; decide +kernel
example : ∀ b ∈ [1, 2, 255], b < 256 := by decide
/-- two limbs, `p = 2^127 − 1` (16 modulus bytes): 15 bytes direct, 2 Horner steps -/
example : modulusBytes (mkCfg false 2 (2 ^ 127 - 1)) = 16 ∧
    fromLeBytesModOrder (mkCfg false 2 (2 ^ 127 - 1)) (List.replicate 17 255)
      = .ok [1022, 0] ∧
    B ^ ((mkCfg false 2 (2 ^ 127 - 1)).n - 1) ≤ 2 ^ 127 - 1 := by decide +kernel
example : CfgOK (mkCfg false 2 (2 ^ 127 - 1)) (2 ^ 127 - 1) := by
  constructor <;> first | decide +kernel | exact toLimbs_wf _ _

end Ark.C01
