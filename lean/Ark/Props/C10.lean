import Ark.Proofs.Bytes
/-
  Property C10 — deserialisation of field elements and curve points on ARBITRARY input
  (`Ark.Model.Bytes`): totality (no panic), bytes consumed, validity of accepted points.

  `WFc c`, `CodecOK K canon`, `Reads m k` are defined in Ark/Proofs/Bytes.lean:
  * `Reads m k`: `m` never panics; when it succeeds it has read exactly `k` bytes (and the input had
    at least `k`); when it fails it has read at most `k` bytes and never more than the input holds.
  Only theorems and examples here; helper lemmas are in Ark/Proofs/Bytes.lean.
-/
namespace Ark.C10
open Ark Ark.Bytes

/-! ## 4. Totality: no input makes a deserialiser panic -/

/-- sub-lemma: `SerBuffer` indexing (`Index`/`IndexMut`) is in range for every index `≤ 8N`
    (the code only uses `output_byte_size − 1 ≤ 8N`) -/
theorem serbuf_get_in_range (N : Nat) (b : SerBuf) (i : Nat) (hb : b.buffers.length = N)
    (hl : ∀ l ∈ b.buffers, l.length = 8) (hi : i ≤ 8 * N) : ∃ v, SerBuf.get N b i = .ok v :=
  SerBuf.get_in_range N b i hb hl hi

theorem serbuf_set_in_range (N : Nat) (b : SerBuf) (i v : Nat) (hb : b.buffers.length = N)
    (hi : i ≤ 8 * N) : ∃ b', SerBuf.set N b i v = .ok b' :=
  SerBuf.set_in_range N b i v hb hi

/-- sub-lemma: the advertised size of a real configuration is in the range the buffer code expects,
    `8(N−1) < size ≤ 8N + 1` (so the wrapping subtraction never wraps and the index is in range) -/
theorem fp_size_in_range {c : FpCfg} (h : WFc c) (Fl : Type) [Flags Fl] (hf : bitSize Fl ≤ 8) :
    8 * (c.N - 1) < fpSizeFlags c Fl ∧ fpSizeFlags c Fl ≤ 8 * c.N + 1 :=
  h.size_range Fl hf

/-- sub-lemma: `flags.is_positive().unwrap()` cannot fail where it is called (the infinity flag is
    matched first) -/
theorem sw_is_positive_unwrap_safe (fl : SWFlags) (h : fl ≠ .pointAtInfinity) : fl.isPositive ≠ none :=
  SWFlags.isPositive_ne_none fl h

/-- `Fp::deserialize_with_flags`: for every flag type (also wider than 8 bits) and every byte string -/
theorem fp_de_total {c : FpCfg} (h : WFc c) (Fl : Type) [Flags Fl] (bs : List Nat) :
    runM (fpDeFlags c Fl) bs ≠ .panic :=
  (fpDeFlags_reads h Fl).no_panic _

theorem fp_de_plain_total {c : FpCfg} (h : WFc c) (cm : Compress) (vd : Validate) (bs : List Nat) :
    runM (fpDe c cm vd) bs ≠ .panic :=
  (fpDe_reads h cm vd).no_panic _

theorem ext_de_total {c : FpCfg} (h : WFc c) (t : Tower) (cm : Compress) (vd : Validate) (bs : List Nat) :
    runM (extDe c t cm vd) bs ≠ .panic :=
  (extDe_reads h t cm vd).no_panic _

theorem ext_de_flags_total {c : FpCfg} (h : WFc c) (Fl : Type) [Flags Fl] (t : Tower) (bs : List Nat) :
    runM (extDeFlags c Fl t) bs ≠ .panic :=
  (extDeFlags_reads h Fl t).no_panic _

example : WFc ⟨13, 1⟩ := wfc_13
example : runM (fpDeFlags ⟨13, 1⟩ SWFlags) [] = .err .io ⟨[], 0⟩ := by decide +kernel
example : runM (fpDeFlags ⟨13, 1⟩ SWFlags) [0xff] = .err .flags ⟨[], 1⟩ := by decide +kernel
example : runM (fpDeFlags ⟨13, 1⟩ (WFlags 9)) [1, 2, 3] = .err .notenough ⟨[1, 2, 3], 0⟩ := by decide +kernel
example : runM (extDe ⟨13, 1⟩ (.cubic (.quad .base)) .yes .yes) [1, 2, 3, 4, 5] = .err .io ⟨[], 5⟩ := by
  decide +kernel

section points
variable {F : Type} [Add F] [Sub F] [Mul F] [Neg F] [Zero F] [One F] [Inv F] [DecidableEq F]

/-- points over any coordinate field with `CodecOK`: all four modes, all inputs -/
theorem sw_de_total {K : Codec F} {canon : F → Prop} (hK : CodecOK K canon) (E : SWCfg F) (cm : Compress)
    (vd : Validate) (bs : List Nat) : runM (swDeserialize K E cm vd) bs ≠ .panic :=
  (swDe_reads hK E cm vd).no_panic _

theorem sw_proj_de_total {K : Codec F} {canon : F → Prop} (hK : CodecOK K canon) (E : SWCfg F)
    (cm : Compress) (vd : Validate) (bs : List Nat) : runM (swProjDeserialize K E cm vd) bs ≠ .panic :=
  (swProjDe_reads hK E cm vd).no_panic _

theorem te_de_total {K : Codec F} {canon : F → Prop} (hK : CodecOK K canon) (E : TECfg F) (cm : Compress)
    (vd : Validate) (bs : List Nat) : runM (teDeserialize K E cm vd) bs ≠ .panic :=
  (teDe_reads hK E cm vd).no_panic _

theorem te_proj_de_total {K : Codec F} {canon : F → Prop} (hK : CodecOK K canon) (E : TECfg F)
    (cm : Compress) (vd : Validate) (bs : List Nat) : runM (teProjDeserialize K E cm vd) bs ≠ .panic :=
  (teProjDe_reads hK E cm vd).no_panic _

/-- `into_affine` inside the `Projective` serialiser / `Valid::check` never panics (short Weierstrass) -/
theorem sw_proj_ser_no_panic (K : Codec F) (P : SWProj F) (cm : Compress) :
    ∃ A, swToAffine P = .ok A ∧ swProjSerialize K P cm = swSerialize K A cm := by
  obtain ⟨A, hA⟩ := swToAffine_total P
  exact ⟨A, hA, swProjSerialize_eq hA cm⟩

end points

/-- the dictionaries used by the driver: the prime field and its quadratic extension, unconditionally -/
theorem sw_de_total_fp {c : FpCfg} (h : WFc c) (E : SWCfg (Fp c.p)) (cm : Compress) (vd : Validate)
    (bs : List Nat) : runM (swDeserialize (fpCodec c) E cm vd) bs ≠ .panic :=
  sw_de_total (fpCodecOK h) E cm vd bs

theorem sw_proj_de_total_fp {c : FpCfg} (h : WFc c) (E : SWCfg (Fp c.p)) (cm : Compress) (vd : Validate)
    (bs : List Nat) : runM (swProjDeserialize (fpCodec c) E cm vd) bs ≠ .panic :=
  sw_proj_de_total (fpCodecOK h) E cm vd bs

theorem te_de_total_fp {c : FpCfg} (h : WFc c) (E : TECfg (Fp c.p)) (cm : Compress) (vd : Validate)
    (bs : List Nat) : runM (teDeserialize (fpCodec c) E cm vd) bs ≠ .panic :=
  te_de_total (fpCodecOK h) E cm vd bs

theorem te_proj_de_total_fp {c : FpCfg} (h : WFc c) (E : TECfg (Fp c.p)) (cm : Compress) (vd : Validate)
    (bs : List Nat) : runM (teProjDeserialize (fpCodec c) E cm vd) bs ≠ .panic :=
  te_proj_de_total (fpCodecOK h) E cm vd bs

theorem sw_de_total_fp2 {c : FpCfg} (h : WFc c) (β : Nat) (E : SWCfg (Fp2 c.p β)) (cm : Compress)
    (vd : Validate) (bs : List Nat) : runM (swDeserialize (fp2Codec c β) E cm vd) bs ≠ .panic :=
  sw_de_total (fp2CodecOK h β) E cm vd bs

theorem sw_proj_de_total_fp2 {c : FpCfg} (h : WFc c) (β : Nat) (E : SWCfg (Fp2 c.p β)) (cm : Compress)
    (vd : Validate) (bs : List Nat) : runM (swProjDeserialize (fp2Codec c β) E cm vd) bs ≠ .panic :=
  sw_proj_de_total (fp2CodecOK h β) E cm vd bs

/-- malformed inputs on the toy curve `y² = x³ + 7` over `F_13`: not on the curve, both flag bits,
    a non-reduced coordinate, a short input -/
example : runM (swDeserialize (fpCodec ⟨13, 1⟩) (swCfgFp ⟨0⟩ ⟨7⟩ false 7) .yes .yes) [1] = .err .invalid ⟨[], 1⟩ := by
  decide +kernel
example : runM (swDeserialize (fpCodec ⟨13, 1⟩) (swCfgFp ⟨0⟩ ⟨7⟩ false 7) .yes .yes) [0xc7] = .err .flags ⟨[], 1⟩ := by
  decide +kernel
example : runM (swDeserialize (fpCodec ⟨13, 1⟩) (swCfgFp ⟨0⟩ ⟨7⟩ false 7) .no .yes) [14, 5] = .err .invalid ⟨[5], 1⟩ := by
  decide +kernel
example : runM (swDeserialize (fpCodec ⟨13, 1⟩) (swCfgFp ⟨0⟩ ⟨7⟩ false 7) .no .no) [7] = .err .io ⟨[], 1⟩ := by
  decide +kernel

/-! ## 5. Consumption -/

/-- what `Reads m k` says about a run on a byte string: on success exactly `k` bytes are consumed (the
    rest is left), on failure at most `k` (and at most the input), a short input fails -/
theorem consumption {α : Type} {m : M α} {k : Nat} (h : Reads m k) (bs : List Nat) :
    (∀ a s, runM m bs = .ok a s → s.used = k ∧ s.inp = bs.drop k ∧ k ≤ bs.length) ∧
    (∀ e s, runM m bs = .err e s → s.used ≤ k ∧ s.used ≤ bs.length) ∧
    (bs.length < k → ∃ e s, runM m bs = .err e s) := by
  refine ⟨?_, ?_, ?_⟩
  · intro a s hr
    obtain ⟨h1, rfl⟩ := h.ok_used ⟨bs, 0⟩ a s hr
    exact ⟨Nat.zero_add _, rfl, h1⟩
  · intro e s hr
    obtain ⟨-, h2, h3⟩ := h.err_used ⟨bs, 0⟩ e s hr
    exact ⟨by simpa using h2, by simpa using h3⟩
  · intro hs
    exact h.short ⟨bs, 0⟩ hs

theorem fp_de_consumption {c : FpCfg} (h : WFc c) (Fl : Type) [Flags Fl] :
    Reads (fpDeFlags c Fl) (fpSizeFlags c Fl) := fpDeFlags_reads h Fl

/-- `Fp`, spelled out -/
theorem fp_de_used {c : FpCfg} (h : WFc c) (Fl : Type) [Flags Fl] (bs : List Nat) :
    (∀ x fl s, runM (fpDeFlags c Fl) bs = .ok (x, fl) s →
      s.used = fpSizeFlags c Fl ∧ s.inp = bs.drop (fpSizeFlags c Fl) ∧ x.val < c.p) ∧
    (∀ e s, runM (fpDeFlags c Fl) bs = .err e s → s.used ≤ fpSizeFlags c Fl ∧ s.used ≤ bs.length) := by
  obtain ⟨h1, h2, -⟩ := consumption (fpDeFlags_reads h Fl) bs
  exact ⟨fun x fl s hr => ⟨(h1 _ s hr).1, (h1 _ s hr).2.1, fpDe_ok_lt h hr⟩, h2⟩

/-- `Fp`: a short input is an `IoError` (`UnexpectedEof`), everything available having been consumed -/
theorem fp_de_short {c : FpCfg} (h : WFc c) (Fl : Type) [Flags Fl] (hf : bitSize Fl ≤ 8) (bs : List Nat)
    (hs : bs.length < fpSizeFlags c Fl) :
    runM (fpDeFlags c Fl) bs = .err .io ⟨[], bs.length⟩ := by
  have := fpDeFlags_short h Fl hf ⟨bs, 0⟩ hs
  rwa [Nat.zero_add] at this

/-- a flag type wider than 8 bits is refused before anything is read -/
theorem fp_de_refused (c : FpCfg) (Fl : Type) [Flags Fl] (hf : ¬ bitSize Fl ≤ 8) (bs : List Nat) :
    runM (fpDeFlags c Fl) bs = .err .notenough ⟨bs, 0⟩ := by
  unfold runM fpDeFlags
  simp only [if_pos (show bitSize Fl > 8 by omega), M_throw_bind]
  rfl

theorem ext_de_consumption {c : FpCfg} (h : WFc c) (t : Tower) (cm : Compress) (vd : Validate) :
    Reads (extDe c t cm vd) (extSize c t cm) := extDe_reads h t cm vd

theorem ext_de_flags_consumption {c : FpCfg} (h : WFc c) (Fl : Type) [Flags Fl] (t : Tower) :
    Reads (extDeFlags c Fl t) (extSizeFlags c Fl t) := extDeFlags_reads h Fl t

example : fpSizeFlags ⟨2 ^ 63 - 25, 1⟩ SWFlags = 9 ∧
    runM (fpDeFlags ⟨2 ^ 63 - 25, 1⟩ SWFlags) [1, 2, 3, 4, 5, 6, 7, 8] = .err .io ⟨[], 8⟩ ∧
    runM (fpDeFlags ⟨2 ^ 63 - 25, 1⟩ SWFlags) [1, 2, 3, 4, 5, 6, 7, 8, 0x80, 0xaa] =
      .ok (⟨0x0807060504030201⟩, .yIsNegative) ⟨[0xaa], 9⟩ := by decide +kernel

section points
variable {F : Type} [Add F] [Sub F] [Mul F] [Neg F] [Zero F] [One F] [Inv F] [DecidableEq F]

theorem sw_de_consumption {K : Codec F} {canon : F → Prop} (hK : CodecOK K canon) (E : SWCfg F)
    (cm : Compress) (vd : Validate) : Reads (swDeserialize K E cm vd) (swSerializedSize K cm) :=
  swDe_reads hK E cm vd

theorem sw_proj_de_consumption {K : Codec F} {canon : F → Prop} (hK : CodecOK K canon) (E : SWCfg F)
    (cm : Compress) (vd : Validate) : Reads (swProjDeserialize K E cm vd) (swSerializedSize K cm) :=
  swProjDe_reads hK E cm vd

theorem te_de_consumption {K : Codec F} {canon : F → Prop} (hK : CodecOK K canon) (E : TECfg F)
    (cm : Compress) (vd : Validate) : Reads (teDeserialize K E cm vd) (teSerializedSize K cm) :=
  teDe_reads hK E cm vd

theorem te_proj_de_consumption {K : Codec F} {canon : F → Prop} (hK : CodecOK K canon) (E : TECfg F)
    (cm : Compress) (vd : Validate) : Reads (teProjDeserialize K E cm vd) (teSerializedSize K cm) :=
  teProjDe_reads hK E cm vd

end points

/-- spelled out for the driver's prime-field curves -/
theorem sw_de_used_fp {c : FpCfg} (h : WFc c) (E : SWCfg (Fp c.p)) (cm : Compress) (vd : Validate)
    (bs : List Nat) :
    (∀ P s, runM (swDeserialize (fpCodec c) E cm vd) bs = .ok P s →
      s.used = swSerializedSize (fpCodec c) cm ∧ s.inp = bs.drop (swSerializedSize (fpCodec c) cm)) ∧
    (∀ e s, runM (swDeserialize (fpCodec c) E cm vd) bs = .err e s →
      s.used ≤ swSerializedSize (fpCodec c) cm ∧ s.used ≤ bs.length) ∧
    (bs.length < swSerializedSize (fpCodec c) cm →
      ∃ e s, runM (swDeserialize (fpCodec c) E cm vd) bs = .err e s) := by
  obtain ⟨h1, h2, h3⟩ := consumption (swDe_reads (fpCodecOK h) E cm vd) bs
  exact ⟨fun P s hr => ⟨(h1 P s hr).1, (h1 P s hr).2.1⟩, h2, h3⟩

theorem te_de_used_fp {c : FpCfg} (h : WFc c) (E : TECfg (Fp c.p)) (cm : Compress) (vd : Validate)
    (bs : List Nat) :
    (∀ P s, runM (teDeserialize (fpCodec c) E cm vd) bs = .ok P s →
      s.used = teSerializedSize (fpCodec c) cm ∧ s.inp = bs.drop (teSerializedSize (fpCodec c) cm)) ∧
    (∀ e s, runM (teDeserialize (fpCodec c) E cm vd) bs = .err e s →
      s.used ≤ teSerializedSize (fpCodec c) cm ∧ s.used ≤ bs.length) ∧
    (bs.length < teSerializedSize (fpCodec c) cm →
      ∃ e s, runM (teDeserialize (fpCodec c) E cm vd) bs = .err e s) := by
  obtain ⟨h1, h2, h3⟩ := consumption (teDe_reads (fpCodecOK h) E cm vd) bs
  exact ⟨fun P s hr => ⟨(h1 P s hr).1, (h1 P s hr).2.1⟩, h2, h3⟩

example : swSerializedSize (fpCodec ⟨13, 1⟩) .no = 2 ∧
    runM (swDeserialize (fpCodec ⟨13, 1⟩) (swCfgFp ⟨0⟩ ⟨7⟩ false 7) .no .yes) [7, 7, 0xee] =
      .err .invalid ⟨[0xee], 2⟩ ∧
    runM (swDeserialize (fpCodec ⟨13, 1⟩) (swCfgFp ⟨0⟩ ⟨7⟩ false 7) .no .yes) [7, 136, 0xee] =
      .ok ⟨⟨7⟩, ⟨8⟩, false⟩ ⟨[0xee], 2⟩ := by decide +kernel

/-! ## 6. Validity of accepted points -/

section points
variable {F : Type} [Add F] [Sub F] [Mul F] [Neg F] [Zero F] [One F] [Inv F] [DecidableEq F]

/-- a point accepted in checked mode is the identity, or lies on the curve and passes the subgroup test
    of the curve record (whatever the coordinate field and its dictionary) -/
theorem sw_de_valid {K : Codec F} {E : SWCfg F} {cm : Compress} {bs : List Nat} {s : Rd} {P : SWAff F}
    (h : runM (swDeserialize K E cm .yes) bs = .ok P s) :
    P.infinity = true ∨ (swIsOnCurve E P = true ∧ E.inSubgroup P = true) := by
  rcases swDe_valid h with rfl | ⟨-, hc⟩
  · exact Or.inl rfl
  · unfold swCheck at hc
    simp only [Bool.and_eq_true] at hc
    exact Or.inr hc

/-- the identity is only ever returned as `(0, 0, true)` -/
theorem sw_de_identity {K : Codec F} {E : SWCfg F} {cm : Compress} {bs : List Nat} {s : Rd} {P : SWAff F}
    (h : runM (swDeserialize K E cm .yes) bs = .ok P s) (hP : P.infinity = true) : P = ⟨0, 0, true⟩ := by
  rcases swDe_valid h with rfl | ⟨hf, -⟩
  · rfl
  · rw [hP] at hf; cases hf

theorem sw_proj_de_valid {K : Codec F} {E : SWCfg F} {cm : Compress} {bs : List Nat} {s : Rd} {Q : SWProj F}
    (h : runM (swProjDeserialize K E cm .yes) bs = .ok Q s) :
    ∃ P, Q = swFromAffine P ∧ (P.infinity = true ∨ (swIsOnCurve E P = true ∧ E.inSubgroup P = true)) := by
  unfold runM at h
  rw [swProjDeserialize_apply] at h
  cases hd : swDeserialize K E cm .yes ⟨bs, 0⟩ with
  | ok P s' =>
    rw [hd] at h; cases h
    exact ⟨P, rfl, sw_de_valid hd⟩
  | err e s' => rw [hd] at h; cases h
  | panic => rw [hd] at h; cases h

/-- twisted Edwards: every accepted point passes `Valid::check` -/
theorem te_de_valid {K : Codec F} {E : TECfg F} {cm : Compress} {bs : List Nat} {s : Rd} {P : TEAff F}
    (h : runM (teDeserialize K E cm .yes) bs = .ok P s) :
    teIsOnCurve E P = true ∧ E.inSubgroup P = true := by
  have hc := teDe_valid h
  unfold teCheck at hc
  simpa only [Bool.and_eq_true] using hc

theorem te_proj_de_valid {K : Codec F} {E : TECfg F} {cm : Compress} {bs : List Nat} {s : Rd} {Q : TEProj F}
    (h : runM (teProjDeserialize K E cm .yes) bs = .ok Q s) :
    ∃ P, Q = teFromAffine P ∧ teIsOnCurve E P = true ∧ E.inSubgroup P = true := by
  unfold runM at h
  rw [teProjDeserialize_apply] at h
  cases hd : teDeserialize K E cm .yes ⟨bs, 0⟩ with
  | ok P s' =>
    rw [hd] at h; cases h
    exact ⟨P, rfl, te_de_valid hd⟩
  | err e s' => rw [hd] at h; cases h
  | panic => rw [hd] at h; cases h

end points

/-- prime-field curve with the default subgroup test, in terms of the spec-level group `Ark.AffPt`:
    an accepted point is on `y² = x³ + a·x + b`, is killed by `r`, and has reduced coordinates.
    For the cofactor-one short-cut (`h1 = true`, no multiplication is performed) the meaning of the
    flag is the explicit hypothesis `hcof`: every curve point is killed by `r` (`#E = r`). -/
theorem sw_de_valid_fp {c : FpCfg} (h : WFc c) (a b : Fp c.p) (h1 : Bool) (r : Nat)
    (hcof : h1 = true → ∀ Q : AffPt c.p ⟨a, b⟩, Q.onCurve = true → AffPt.smul r Q = 0)
    (cm : Compress) (bs : List Nat) (s : Rd) (P : SWAff (Fp c.p))
    (hd : runM (swDeserialize (fpCodec c) (swCfgFp a b h1 r) cm .yes) bs = .ok P s) :
    AffPt.onCurve (P.toAffPt (E := ⟨a, b⟩)) = true ∧ AffPt.smul r (P.toAffPt (E := ⟨a, b⟩)) = 0 ∧
      P.x.val < c.p ∧ P.y.val < c.p := by
  have hcan := swDe_canon (fpCodecOK h) h.p_pos (fun _ => Nat.mod_lt _ h.p_pos)
    (fun a y hs => fpSqrt_lt h.p_pos a y hs) hd
  refine ⟨?_, ?_, hcan.1, hcan.2⟩
  · rcases swDe_valid hd with rfl | ⟨-, hc⟩
    · rfl
    · exact (swCheck_fp h.p_pos a b h1 r P hcof hc).1
  · rcases swDe_valid hd with rfl | ⟨-, hc⟩
    · exact AffPt.smul_none r
    · exact (swCheck_fp h.p_pos a b h1 r P hcof hc).2

/-- in unchecked mode the coordinates are still reduced -/
theorem sw_de_reduced_fp {c : FpCfg} (h : WFc c) (E : SWCfg (Fp c.p)) (cm : Compress) (vd : Validate)
    (bs : List Nat) (s : Rd) (P : SWAff (Fp c.p))
    (hd : runM (swDeserialize (fpCodec c) E cm vd) bs = .ok P s) : P.x.val < c.p ∧ P.y.val < c.p :=
  swDe_canon (fpCodecOK h) h.p_pos (fun _ => Nat.mod_lt _ h.p_pos)
    (fun a y hs => fpSqrt_lt h.p_pos a y hs) hd

/-- twisted Edwards over the prime field (`teCfgFp`: the subgroup test multiplies by `r` in the
    spec-level group `teSmul`) -/
theorem te_de_valid_fp {c : FpCfg} (h : WFc c) (a d : Fp c.p) (r : Nat)
    (cm : Compress) (bs : List Nat) (s : Rd) (P : TEAff (Fp c.p))
    (hd : runM (teDeserialize (fpCodec c) (teCfgFp a d r) cm .yes) bs = .ok P s) :
    teIsOnCurve (teCfgFp a d r) P = true ∧ teSmul a d r P = TEAff.zero ∧
      P.x.val < c.p ∧ P.y.val < c.p := by
  have hcan := teDe_canon (fpCodecOK h) (fun _ => Nat.mod_lt _ h.p_pos)
    (fun a y hs => fpSqrt_lt h.p_pos a y hs) hd
  obtain ⟨h1, h2⟩ := te_de_valid hd
  refine ⟨h1, ?_, hcan.1, hcan.2⟩
  have : (teSmul a d r P == TEAff.zero) = true := h2
  exact beq_iff_eq.mp this

/-- … with the curve test spelled as the textbook equation `a·x² + y² = 1 + d·x²·y²` -/
theorem te_de_valid_fp_textbook {c : FpCfg} (h : WFc c) (a d : Fp c.p) (r : Nat)
    (cm : Compress) (bs : List Nat) (s : Rd) (P : TEAff (Fp c.p))
    (hd : runM (teDeserialize (fpCodec c) (teCfgFp a d r) cm .yes) bs = .ok P s) :
    a * P.x * P.x + P.y * P.y = 1 + d * (P.x * P.x) * (P.y * P.y) ∧ teSmul a d r P = TEAff.zero :=
  ⟨(teIsOnCurve_fp (teCfgFp a d r) P).mp (te_de_valid_fp h a d r cm bs s P hd).1,
    (te_de_valid_fp h a d r cm bs s P hd).2.1⟩

theorem te_de_reduced_fp {c : FpCfg} (h : WFc c) (E : TECfg (Fp c.p)) (cm : Compress) (vd : Validate)
    (bs : List Nat) (s : Rd) (P : TEAff (Fp c.p))
    (hd : runM (teDeserialize (fpCodec c) E cm vd) bs = .ok P s) : P.x.val < c.p ∧ P.y.val < c.p :=
  teDe_canon (fpCodecOK h) (fun _ => Nat.mod_lt _ h.p_pos) (fun a y hs => fpSqrt_lt h.p_pos a y hs) hd

/-- non-vacuity: `y² = x³ + 7` over `F_13` has 7 points; with the genuine test (`h1 = false`) the point
    `(7, 8)` is accepted and killed by 7; `y² = x³ + x + 1` has 18 points, `(4, 2)` has order 9 ∤ 6 and is
    rejected in checked mode, accepted in unchecked mode -/
example : runM (swDeserialize (fpCodec ⟨13, 1⟩) (swCfgFp ⟨0⟩ ⟨7⟩ false 7) .yes .yes) [135] =
    .ok ⟨⟨7⟩, ⟨8⟩, false⟩ ⟨[], 1⟩ := by decide +kernel
example : AffPt.smul 7 (⟨some (⟨7⟩, ⟨8⟩)⟩ : AffPt 13 ⟨⟨0⟩, ⟨7⟩⟩) = 0 := by decide +kernel
example : runM (swDeserialize (fpCodec ⟨13, 1⟩) (swCfgFp ⟨1⟩ ⟨1⟩ false 6) .yes .yes) [4] = .err .invalid ⟨[], 1⟩ ∧
    runM (swDeserialize (fpCodec ⟨13, 1⟩) (swCfgFp ⟨1⟩ ⟨1⟩ false 6) .yes .no) [4] =
      .ok ⟨⟨4⟩, ⟨2⟩, false⟩ ⟨[], 1⟩ := by decide +kernel
/-- the hypothesis `hcof` on the 7-point curve, for the points the deserialiser can return -/
example : ∀ x, x < 13 → ∀ y, y < 13 →
    AffPt.onCurve (⟨some (⟨x⟩, ⟨y⟩)⟩ : AffPt 13 ⟨⟨0⟩, ⟨7⟩⟩) = true →
    AffPt.smul 7 (⟨some (⟨x⟩, ⟨y⟩)⟩ : AffPt 13 ⟨⟨0⟩, ⟨7⟩⟩) = 0 := by decide +kernel
example : runM (teDeserialize (fpCodec ⟨13, 1⟩) (teCfgFp ⟨1⟩ ⟨2⟩ 8) .yes .yes) [137] = .ok ⟨⟨9⟩, ⟨9⟩⟩ ⟨[], 1⟩ ∧
    teSmul (⟨1⟩ : Fp 13) ⟨2⟩ 8 ⟨⟨9⟩, ⟨9⟩⟩ = TEAff.zero := by decide +kernel

end Ark.C10
