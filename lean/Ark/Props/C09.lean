import Ark.Proofs.Bytes
/-
  Property C09 — (de)serialisation of field elements and curve points (`Ark.Model.Bytes`, model of
  ff/src/fields/models/fp/mod.rs `serialize_with_flags`/`deserialize_with_flags`,
  ff/src/const_helpers.rs `SerBuffer`, the extension-field templates and
  ec/src/models/{short_weierstrass,twisted_edwards}): size, round trip, uniqueness, sign rule.

  Standing notions (defined in Ark/Proofs/Bytes.lean):
  * `WFc c`      : `1 ≤ N`, `2^(64(N−1)) ≤ p < 2^(64N)`   (a real `FpConfig<N>`)
  * `FlagsOK Fl` : `BIT_SIZE ≤ 8`, masks inside the top `BIT_SIZE` bits of a byte,
                   `from_u8 (mask ||| low) = some flag`, `from_u8` only reads the top bits
  * `FlagsSub Fl`: the mask of a decoded flag is contained in the byte (the part of `FlagsOK`
                   uniqueness needs; without it uniqueness is false, see the report)
  * `CodecOK K canon`, `SqrtOK K canon`, `LtOK K canon`, `SignLaws F canon`: what the point layer
    uses of its coordinate field (`canon` = canonical representatives: `val < p` for the model's
    `Fp p`, everything for a genuine `Field`)
  * byte strings fed to uniqueness consist of bytes (`< 256`).
  Only theorems and examples here; helper lemmas are in Ark/Proofs/Bytes.lean.
-/
namespace Ark.C09
open Ark Ark.Bytes

/-! ## 0. The flag types of the model are well behaved -/

theorem empty_flags_ok : FlagsOK EmptyFlags := emptyFlagsOK
theorem sw_flags_ok : FlagsOK SWFlags := swFlagsOK
theorem te_flags_ok : FlagsOK TEFlags := teFlagsOK

/-- `FlagsOK` implies the containment used by uniqueness -/
theorem flags_ok_sub {Fl : Type} [Flags Fl] (h : FlagsOK Fl) : FlagsSub Fl := h.sub

example : Flags.fromU8 (Fl := SWFlags) (Flags.u8Bitmask SWFlags.yIsNegative ||| 0x2a) = some .yIsNegative := by
  decide +kernel
example : Flags.fromU8 (Fl := SWFlags) 0xc0 = none := by decide +kernel

/-! ## 1. Size: the number of bytes written is the advertised size -/

/-- `Fp`: every successful `serialize_with_flags` writes exactly `serialized_size_with_flags` bytes,
    which is `⌈(MODULUS_BIT_SIZE + BIT_SIZE) / 8⌉` — for every modulus bit length and every flag width -/
theorem fp_size {c : FpCfg} (h : WFc c) (Fl : Type) [Flags Fl] (x : Fp c.p) (fl : Fl) (bs : List Nat)
    (hs : fpSerFlags c Fl x fl = .ok bs) :
    bs.length = fpSizeFlags c Fl ∧ fpSizeFlags c Fl = (c.bits + bitSize Fl + 7) / 8 :=
  ⟨fpSer_size h hs, rfl⟩

/-- serialisation with at most 8 flag bits always succeeds (no error, no panic), with the closed form
    `x` little-endian, flags ORed into the last byte; more than 8 flag bits are refused -/
theorem fp_ser_ok {c : FpCfg} (h : WFc c) (Fl : Type) [Flags Fl] (hf : bitSize Fl ≤ 8) (x : Fp c.p) (fl : Fl) :
    ∃ bs, fpSerFlags c Fl x fl = .ok bs :=
  ⟨_, fpSer_char h Fl hf x fl⟩

theorem fp_ser_refused (c : FpCfg) (Fl : Type) [Flags Fl] (hf : ¬ bitSize Fl ≤ 8) (x : Fp c.p) (fl : Fl) :
    fpSerFlags c Fl x fl = .err .notenough :=
  fpSer_notenough c Fl hf x fl

/-- non-vacuity: `F_13` with two flag bits (one byte), and a 63-bit modulus whose flags spill into a
    ninth byte -/
example : WFc ⟨13, 1⟩ := wfc_13
example : fpSerFlags ⟨13, 1⟩ SWFlags ⟨5⟩ .yIsNegative = .ok [133] := by decide +kernel
example : WFc ⟨2 ^ 63 - 25, 1⟩ := wfc_63
example : (⟨2 ^ 63 - 25, 1⟩ : FpCfg).bits = 63 ∧ fpSizeFlags ⟨2 ^ 63 - 25, 1⟩ SWFlags = 9 := by decide +kernel
example : fpSerFlags ⟨2 ^ 63 - 25, 1⟩ SWFlags ⟨2 ^ 63 - 26⟩ .pointAtInfinity =
    .ok [230, 255, 255, 255, 255, 255, 255, 127, 64] := by decide +kernel

/-- towers: for an element of the tower `t` (`hasShape`: in Rust guaranteed by the type) -/
theorem ext_size {c : FpCfg} (h : WFc c) (Fl : Type) [Flags Fl] (t : Tower) (v : ExtV c.p) (fl : Fl)
    (bs : List Nat) (hv : v.hasShape t) (hs : extSerFlags c Fl v fl = .ok bs) :
    bs.length = extSizeFlags c Fl t :=
  extSer_size h t Fl v fl bs hv hs

/-- … in particular for `t = shape v` -/
theorem ext_size_shape {c : FpCfg} (h : WFc c) (Fl : Type) [Flags Fl] (v : ExtV c.p) (fl : Fl)
    (bs : List Nat) (hv : v.hasShape v.shape) (hs : extSerFlags c Fl v fl = .ok bs) :
    bs.length = extSizeFlags c Fl v.shape :=
  extSer_size h _ Fl v fl bs hv hs

example : (ExtV.quad (.base ⟨3⟩) (.base ⟨12⟩) : ExtV 13).hasShape (.quad .base) := ⟨trivial, trivial⟩
example : extSerFlags ⟨13, 1⟩ SWFlags (.quad (.base ⟨3⟩) (.base ⟨12⟩)) .pointAtInfinity = .ok [3, 76] := by
  decide +kernel

/-- points, any coordinate field whose dictionary satisfies `CodecOK` -/
theorem sw_size {F : Type} [Add F] [Sub F] [Mul F] [Neg F] [Zero F] [One F] [Inv F] [DecidableEq F]
    {K : Codec F} {canon : F → Prop} (hK : CodecOK K canon) (P : SWAff F) (cm : Compress) (bs : List Nat)
    (hs : swSerialize K P cm = .ok bs) : bs.length = swSerializedSize K cm :=
  swSer_size hK P cm bs hs

theorem sw_proj_size {F : Type} [Add F] [Sub F] [Mul F] [Neg F] [Zero F] [One F] [Inv F] [DecidableEq F]
    {K : Codec F} {canon : F → Prop} (hK : CodecOK K canon) (P : SWProj F) (cm : Compress) (bs : List Nat)
    (hs : swProjSerialize K P cm = .ok bs) : bs.length = swSerializedSize K cm :=
  swProjSer_size hK P cm bs hs

theorem te_size {F : Type} [Add F] [Sub F] [Mul F] [Neg F] [Zero F] [One F] [Inv F] [DecidableEq F]
    {K : Codec F} {canon : F → Prop} (hK : CodecOK K canon) (P : TEAff F) (cm : Compress) (bs : List Nat)
    (hs : teSerialize K P cm = .ok bs) : bs.length = teSerializedSize K cm :=
  teSer_size hK P cm bs hs

theorem te_proj_size {F : Type} [Add F] [Sub F] [Mul F] [Neg F] [Zero F] [One F] [Inv F] [DecidableEq F]
    {K : Codec F} {canon : F → Prop} (hK : CodecOK K canon) (P : TEProj F) (cm : Compress) (bs : List Nat)
    (hs : teProjSerialize K P cm = .ok bs) : bs.length = teSerializedSize K cm :=
  teProjSer_size hK P cm bs hs

/-- the two dictionaries of the driver satisfy `CodecOK` -/
theorem fp_codec_ok {c : FpCfg} (h : WFc c) : CodecOK (fpCodec c) (fun x => x.val < c.p) := fpCodecOK h
theorem fp2_codec_ok {c : FpCfg} (h : WFc c) (β : Nat) :
    CodecOK (fp2Codec c β) (fun x => x.c0.val < c.p ∧ x.c1.val < c.p) := fp2CodecOK h β

/-- hence over the prime field and its quadratic extension, unconditionally -/
theorem sw_size_fp {c : FpCfg} (h : WFc c) (P : SWAff (Fp c.p)) (cm : Compress) (bs : List Nat)
    (hs : swSerialize (fpCodec c) P cm = .ok bs) : bs.length = swSerializedSize (fpCodec c) cm :=
  swSer_size (fpCodecOK h) P cm bs hs

theorem sw_size_fp2 {c : FpCfg} (h : WFc c) (β : Nat) (P : SWAff (Fp2 c.p β)) (cm : Compress) (bs : List Nat)
    (hs : swSerialize (fp2Codec c β) P cm = .ok bs) : bs.length = swSerializedSize (fp2Codec c β) cm :=
  swSer_size (fp2CodecOK h β) P cm bs hs

theorem te_size_fp {c : FpCfg} (h : WFc c) (P : TEAff (Fp c.p)) (cm : Compress) (bs : List Nat)
    (hs : teSerialize (fpCodec c) P cm = .ok bs) : bs.length = teSerializedSize (fpCodec c) cm :=
  teSer_size (fpCodecOK h) P cm bs hs

/-- toy curve `y² = x³ + 7` over `F_13` (7 points), point `(7, 5)` -/
example : swSerialize (fpCodec ⟨13, 1⟩) ⟨⟨7⟩, ⟨5⟩, false⟩ .yes = .ok [7] ∧
    swSerialize (fpCodec ⟨13, 1⟩) ⟨⟨7⟩, ⟨8⟩, false⟩ .yes = .ok [135] ∧
    swSerialize (fpCodec ⟨13, 1⟩) ⟨⟨7⟩, ⟨8⟩, false⟩ .no = .ok [7, 136] ∧
    swSerializedSize (fpCodec ⟨13, 1⟩) .yes = 1 ∧ swSerializedSize (fpCodec ⟨13, 1⟩) .no = 2 := by
  decide +kernel

/-! ## 2. Round trip -/

/-- `Fp`: a reduced element is read back, with its flag, consuming exactly the bytes written
    (whatever follows them) -/
theorem fp_round_trip {c : FpCfg} (h : WFc c) {Fl : Type} [Flags Fl] (hF : FlagsOK Fl) (x : Fp c.p)
    (hx : x.val < c.p) (fl : Fl) (bs : List Nat) (hs : fpSerFlags c Fl x fl = .ok bs) (t : List Nat) :
    runM (fpDeFlags c Fl) (bs ++ t) = .ok (x, fl) ⟨t, bs.length⟩ := by
  have := fpRT h hF x hx fl bs hs t 0
  rwa [Nat.zero_add] at this

example : runM (fpDeFlags ⟨13, 1⟩ SWFlags) ([133] ++ [0xa5, 0x5a]) = .ok (⟨5⟩, .yIsNegative) ⟨[0xa5, 0x5a], 1⟩ := by
  decide +kernel
example : runM (fpDeFlags ⟨2 ^ 63 - 25, 1⟩ SWFlags) [230, 255, 255, 255, 255, 255, 255, 127, 64, 9] =
    .ok (⟨2 ^ 63 - 26⟩, .pointAtInfinity) ⟨[9], 9⟩ := by decide +kernel

/-- `CanonicalSerialize`/`CanonicalDeserialize for Fp` (no flags, both modes ignored) -/
theorem fp_round_trip_plain {c : FpCfg} (h : WFc c) (x : Fp c.p) (hx : x.val < c.p) (cm cm' : Compress)
    (vd : Validate) (bs : List Nat) (hs : fpSer c x cm = .ok bs) (t : List Nat) :
    runM (fpDe c cm' vd) (bs ++ t) = .ok x ⟨t, bs.length⟩ := by
  have := fpDe_RT h x hx bs hs cm' vd t 0
  rwa [Nat.zero_add] at this

/-- towers, with flags on the last coordinate -/
theorem ext_round_trip_flags {c : FpCfg} (h : WFc c) {Fl : Type} [Flags Fl] (hF : FlagsOK Fl) (t : Tower)
    (v : ExtV c.p) (hv : v.hasShape t) (hr : v.reduced) (fl : Fl) (bs : List Nat)
    (hs : extSerFlags c Fl v fl = .ok bs) (tl : List Nat) :
    runM (extDeFlags c Fl t) (bs ++ tl) = .ok (v, fl) ⟨tl, bs.length⟩ := by
  have := (extRT h t).1 Fl hF v fl bs hv hr hs tl 0
  rwa [Nat.zero_add] at this

/-- towers, `serialize_with_mode` / `deserialize_with_mode` in every mode -/
theorem ext_round_trip {c : FpCfg} (h : WFc c) (t : Tower) (v : ExtV c.p) (hv : v.hasShape t)
    (hr : v.reduced) (cm cm' : Compress) (vd : Validate) (bs : List Nat) (hs : extSer c v cm = .ok bs)
    (tl : List Nat) : runM (extDe c t cm' vd) (bs ++ tl) = .ok v ⟨tl, bs.length⟩ := by
  have := (extRT h t).2 v bs cm' vd hv hr hs tl 0
  rwa [Nat.zero_add] at this

example : runM (extDeFlags ⟨13, 1⟩ SWFlags (.quad .base)) [3, 76, 1] =
    .ok (.quad (.base ⟨3⟩) (.base ⟨12⟩), .pointAtInfinity) ⟨[1], 2⟩ := by decide +kernel
example : (ExtV.quad (.base ⟨3⟩) (.base ⟨12⟩) : ExtV 13).reduced := by
  show (3 : Nat) < 13 ∧ (12 : Nat) < 13; decide

section points
variable {F : Type} [Add F] [Sub F] [Mul F] [Neg F] [Zero F] [One F] [Inv F] [DecidableEq F]

/-- short Weierstrass, uncompressed: the point is returned (the identity as `(0, 0, true)`); in checked
    mode a non-identity point is returned iff it passes `Valid::check`, else `InvalidData` — nothing
    about the curve is needed in unchecked mode -/
theorem sw_round_trip_uncompressed {K : Codec F} {canon : F → Prop} (hK : CodecOK K canon) (h0 : canon 0)
    (E : SWCfg F) (P : SWAff F) (hc : P.infinity = false → canon P.x ∧ canon P.y) (vd : Validate)
    (bs : List Nat) (hs : swSerialize K P .no = .ok bs) (tl : List Nat) :
    runM (swDeserialize K E .no vd) (bs ++ tl) =
      if P.infinity = true then .ok ⟨0, 0, true⟩ ⟨tl, bs.length⟩
      else if vd = .yes ∧ swCheck E P = false then .err .invalid ⟨tl, bs.length⟩
      else .ok P ⟨tl, bs.length⟩ := by
  have := swRT_uncompressed hK h0 E P hc vd bs hs tl 0
  rwa [Nat.zero_add] at this

/-- short Weierstrass, compressed, for a point on the curve: `y` is recovered from `x` and the sign flag
    (including `y = 0` and `x = 0`), whatever root `sqrt` returns -/
theorem sw_round_trip_compressed {K : Codec F} {canon : F → Prop} (hK : CodecOK K canon) (h0 : canon 0)
    (hL : SignLaws F canon) (hS : SqrtOK K canon) (hO : LtOK K canon)
    (E : SWCfg F) (P : SWAff F) (hc : P.infinity = false → canon P.x ∧ canon P.y)
    (hon : swIsOnCurve E P = true) (vd : Validate)
    (bs : List Nat) (hs : swSerialize K P .yes = .ok bs) (tl : List Nat) :
    runM (swDeserialize K E .yes vd) (bs ++ tl) =
      if P.infinity = true then .ok ⟨0, 0, true⟩ ⟨tl, bs.length⟩
      else if vd = .yes ∧ swCheck E P = false then .err .invalid ⟨tl, bs.length⟩
      else .ok P ⟨tl, bs.length⟩ := by
  have := swRT_compressed hK h0 hL hS hO E P hc hon vd bs hs tl 0
  rwa [Nat.zero_add] at this

/-- both modes at once -/
theorem sw_round_trip {K : Codec F} {canon : F → Prop} (hK : CodecOK K canon) (h0 : canon 0)
    (hL : SignLaws F canon) (hS : SqrtOK K canon) (hO : LtOK K canon)
    (E : SWCfg F) (P : SWAff F) (hc : P.infinity = false → canon P.x ∧ canon P.y)
    (hon : swIsOnCurve E P = true) (cm : Compress) (vd : Validate)
    (bs : List Nat) (hs : swSerialize K P cm = .ok bs) (tl : List Nat) :
    runM (swDeserialize K E cm vd) (bs ++ tl) =
      if P.infinity = true then .ok ⟨0, 0, true⟩ ⟨tl, bs.length⟩
      else if vd = .yes ∧ swCheck E P = false then .err .invalid ⟨tl, bs.length⟩
      else .ok P ⟨tl, bs.length⟩ := by
  cases cm with
  | yes => exact sw_round_trip_compressed hK h0 hL hS hO E P hc hon vd bs hs tl
  | no => exact sw_round_trip_uncompressed hK h0 E P hc vd bs hs tl

/-- `Projective`: serialisation goes through `into_affine` (which never panics), deserialisation
    through `From<Affine>`: the identity comes back as `(1, 1, 0)`, any other point as `(x, y, 1)` -/
theorem sw_proj_round_trip {K : Codec F} {canon : F → Prop} (hK : CodecOK K canon) (h0 : canon 0)
    (hL : SignLaws F canon) (hS : SqrtOK K canon) (hO : LtOK K canon)
    (E : SWCfg F) (P : SWProj F) (A : SWAff F) (hA : swToAffine P = .ok A)
    (hc : A.infinity = false → canon A.x ∧ canon A.y)
    (hon : swIsOnCurve E A = true) (cm : Compress) (vd : Validate)
    (bs : List Nat) (hs : swProjSerialize K P cm = .ok bs) (tl : List Nat) :
    runM (swProjDeserialize K E cm vd) (bs ++ tl) =
      if A.infinity = true then .ok ⟨1, 1, 0⟩ ⟨tl, bs.length⟩
      else if vd = .yes ∧ swCheck E A = false then .err .invalid ⟨tl, bs.length⟩
      else .ok ⟨A.x, A.y, 1⟩ ⟨tl, bs.length⟩ := by
  rw [swProjSerialize_eq hA] at hs
  have h := sw_round_trip hK h0 hL hS hO E A hc hon cm vd bs hs tl
  unfold runM at h ⊢
  rw [swProjDeserialize_apply, h]
  obtain ⟨x, y, inf⟩ := A
  cases inf with
  | true => rfl
  | false =>
    simp only [Bool.false_eq_true, if_false]
    by_cases hv : vd = .yes ∧ swCheck E ⟨x, y, false⟩ = false
    · rw [if_pos hv, if_pos hv]
    · rw [if_neg hv, if_neg hv]; rfl

/-- `into_affine` never panics … -/
theorem sw_to_affine_total (P : SWProj F) : ∃ A, swToAffine P = .ok A := swToAffine_total P

end points

/-- … and in a field it is the normalisation `(X/Z², Y/Z³)` (the identity for `Z = 0`) -/
theorem sw_to_affine_normalises {F : Type} [Field F] [DecidableEq F] (P : SWProj F) :
    swToAffine P = .ok (swNormalize P) := swToAffine_field P

section points
variable {F : Type} [Add F] [Sub F] [Mul F] [Neg F] [Zero F] [One F] [Inv F] [DecidableEq F]

/-- twisted Edwards, uncompressed -/
theorem te_round_trip_uncompressed {K : Codec F} {canon : F → Prop} (hK : CodecOK K canon)
    (E : TECfg F) (P : TEAff F) (hx : canon P.x) (hy : canon P.y) (vd : Validate)
    (bs : List Nat) (hs : teSerialize K P .no = .ok bs) (tl : List Nat) :
    runM (teDeserialize K E .no vd) (bs ++ tl) =
      if vd = .yes ∧ teCheck E P = false then .err .invalid ⟨tl, bs.length⟩
      else .ok P ⟨tl, bs.length⟩ := by
  have := teRT_uncompressed hK E P hx hy vd bs hs tl 0
  rwa [Nat.zero_add] at this

/-- twisted Edwards, compressed: `hsolve` is the curve equation solved for `x²`, which holds for
    every point of a curve over a field (`te_solve` below) -/
theorem te_round_trip_compressed {K : Codec F} {canon : F → Prop} (hK : CodecOK K canon)
    (hL : SignLaws F canon) (hS : SqrtOK K canon) (hO : LtOK K canon)
    (E : TECfg F) (P : TEAff F) (hx : canon P.x) (hy : canon P.y)
    (hden : E.a - (P.y * P.y) * E.d ≠ 0) (hsolve : P.x * P.x = teX2 E P.y) (vd : Validate)
    (bs : List Nat) (hs : teSerialize K P .yes = .ok bs) (tl : List Nat) :
    runM (teDeserialize K E .yes vd) (bs ++ tl) =
      if vd = .yes ∧ teCheck E P = false then .err .invalid ⟨tl, bs.length⟩
      else .ok P ⟨tl, bs.length⟩ := by
  have := teRT_compressed hK hL hS hO E P hx hy hden hsolve vd bs hs tl 0
  rwa [Nat.zero_add] at this

/-- `Projective` (extended coordinates): through `into_affine` and `(x, y, x·y, 1)` -/
theorem te_proj_round_trip {K : Codec F} {canon : F → Prop} (hK : CodecOK K canon)
    (hL : SignLaws F canon) (hS : SqrtOK K canon) (hO : LtOK K canon)
    (E : TECfg F) (P : TEProj F) (A : TEAff F) (hA : teToAffine P = .ok A)
    (hx : canon A.x) (hy : canon A.y)
    (hden : E.a - (A.y * A.y) * E.d ≠ 0) (hsolve : A.x * A.x = teX2 E A.y)
    (cm : Compress) (vd : Validate)
    (bs : List Nat) (hs : teProjSerialize K P cm = .ok bs) (tl : List Nat) :
    runM (teProjDeserialize K E cm vd) (bs ++ tl) =
      if vd = .yes ∧ teCheck E A = false then .err .invalid ⟨tl, bs.length⟩
      else .ok ⟨A.x, A.y, A.x * A.y, 1⟩ ⟨tl, bs.length⟩ := by
  rw [teProjSerialize_eq hA] at hs
  have h : runM (teDeserialize K E cm vd) (bs ++ tl) =
      if vd = .yes ∧ teCheck E A = false then .err .invalid ⟨tl, bs.length⟩
      else .ok A ⟨tl, bs.length⟩ := by
    cases cm with
    | yes => exact te_round_trip_compressed hK hL hS hO E A hx hy hden hsolve vd bs hs tl
    | no => exact te_round_trip_uncompressed hK E A hx hy vd bs hs tl
  unfold runM at h ⊢
  rw [teProjDeserialize_apply, h]
  by_cases hv : vd = .yes ∧ teCheck E A = false
  · rw [if_pos hv, if_pos hv]
  · rw [if_neg hv, if_neg hv]; rfl

theorem te_to_affine_total (P : TEProj F) (hz : P.z ≠ 0) : ∃ A, teToAffine P = .ok A := teToAffine_total P hz

end points

/-- over a field the hypotheses `hden`, `hsolve` follow from the curve equation when `a ≠ d` -/
theorem te_solve {F : Type} [Field F] [DecidableEq F] (E : TECfg F) (P : TEAff F)
    (hon : teIsOnCurve E P = true) (had : E.a ≠ E.d) :
    E.a - (P.y * P.y) * E.d ≠ 0 ∧ P.x * P.x = teX2 E P.y :=
  ⟨te_den_ne_zero E P hon had, te_solve_field E P hon (te_den_ne_zero E P hon had)⟩

theorem te_to_affine_normalises {F : Type} [Field F] [DecidableEq F] (P : TEProj F) (hz : P.z ≠ 0) :
    teToAffine P = .ok (teNormalize P) := teToAffine_field P hz

/-- a genuine field satisfies the algebraic requirements with `canon = everything` -/
theorem field_sign_laws (F : Type) [Field F] : SignLaws F (fun _ => True) := fieldSignLaws F

/-- the model's `Fp p` for a prime `p` satisfies them on reduced representatives, and its order is total -/
theorem fp_sign_laws {p : Nat} (hp : p.Prime) : SignLaws (Fp p) (fun x => x.val < p) := fpSignLaws hp
theorem fp_lt_ok (c : FpCfg) : LtOK (fpCodec c) (fun x => x.val < c.p) := fpLtOK c

/-- the round trip for the prime-field instantiation used by the driver, both compression modes:
    the only remaining hypothesis on the field is that `fpSqrt` is a square root (property C11) -/
theorem sw_round_trip_fp {c : FpCfg} (h : WFc c) (hp : c.p.Prime)
    (hS : SqrtOK (fpCodec c) (fun x => x.val < c.p))
    (E : SWCfg (Fp c.p)) (P : SWAff (Fp c.p)) (hc : P.infinity = false → P.x.val < c.p ∧ P.y.val < c.p)
    (hon : swIsOnCurve E P = true) (cm : Compress) (vd : Validate)
    (bs : List Nat) (hs : swSerialize (fpCodec c) P cm = .ok bs) (tl : List Nat) :
    runM (swDeserialize (fpCodec c) E cm vd) (bs ++ tl) =
      if P.infinity = true then .ok ⟨0, 0, true⟩ ⟨tl, bs.length⟩
      else if vd = .yes ∧ swCheck E P = false then .err .invalid ⟨tl, bs.length⟩
      else .ok P ⟨tl, bs.length⟩ :=
  sw_round_trip (fpCodecOK h) h.p_pos (fpSignLaws hp) hS (fpLtOK c) E P hc hon cm vd bs hs tl

/-- uncompressed mode needs nothing about `sqrt`, primality or the curve -/
theorem sw_round_trip_uncompressed_fp {c : FpCfg} (h : WFc c)
    (E : SWCfg (Fp c.p)) (P : SWAff (Fp c.p)) (hc : P.infinity = false → P.x.val < c.p ∧ P.y.val < c.p)
    (vd : Validate) (bs : List Nat) (hs : swSerialize (fpCodec c) P .no = .ok bs) (tl : List Nat) :
    runM (swDeserialize (fpCodec c) E .no vd) (bs ++ tl) =
      if P.infinity = true then .ok ⟨0, 0, true⟩ ⟨tl, bs.length⟩
      else if vd = .yes ∧ swCheck E P = false then .err .invalid ⟨tl, bs.length⟩
      else .ok P ⟨tl, bs.length⟩ :=
  sw_round_trip_uncompressed (fpCodecOK h) h.p_pos E P hc vd bs hs tl

theorem te_round_trip_uncompressed_fp {c : FpCfg} (h : WFc c)
    (E : TECfg (Fp c.p)) (P : TEAff (Fp c.p)) (hx : P.x.val < c.p) (hy : P.y.val < c.p)
    (vd : Validate) (bs : List Nat) (hs : teSerialize (fpCodec c) P .no = .ok bs) (tl : List Nat) :
    runM (teDeserialize (fpCodec c) E .no vd) (bs ++ tl) =
      if vd = .yes ∧ teCheck E P = false then .err .invalid ⟨tl, bs.length⟩
      else .ok P ⟨tl, bs.length⟩ :=
  te_round_trip_uncompressed (fpCodecOK h) E P hx hy vd bs hs tl

/-- compressed twisted Edwards over the model's `Fp p`: `hden`/`hsolve` stay explicit
    (their derivation from the curve equation needs the correctness of `Spec.modInv`) -/
theorem te_round_trip_compressed_fp_partial {c : FpCfg} (h : WFc c) (hp : c.p.Prime)
    (hS : SqrtOK (fpCodec c) (fun x => x.val < c.p))
    (E : TECfg (Fp c.p)) (P : TEAff (Fp c.p)) (hx : P.x.val < c.p) (hy : P.y.val < c.p)
    (hden : E.a - (P.y * P.y) * E.d ≠ 0) (hsolve : P.x * P.x = teX2 E P.y) (vd : Validate)
    (bs : List Nat) (hs : teSerialize (fpCodec c) P .yes = .ok bs) (tl : List Nat) :
    runM (teDeserialize (fpCodec c) E .yes vd) (bs ++ tl) =
      if vd = .yes ∧ teCheck E P = false then .err .invalid ⟨tl, bs.length⟩
      else .ok P ⟨tl, bs.length⟩ :=
  te_round_trip_compressed (fpCodecOK h) (fpSignLaws hp) hS (fpLtOK c) E P hx hy hden hsolve vd bs hs tl

/-- non-vacuity on the toy curve `y² = x³ + 7` over `F_13` (group order 7, cofactor one):
    every hypothesis of `sw_round_trip_fp` holds, and the model computes what the theorem says -/
example : Nat.Prime (⟨13, 1⟩ : FpCfg).p := by decide +kernel
example : SqrtOK (fpCodec ⟨13, 1⟩) (fun x => x.val < 13) := fpSqrtOK_13
example : swIsOnCurve (swCfgFp (p := 13) ⟨0⟩ ⟨7⟩ true 7) ⟨⟨7⟩, ⟨8⟩, false⟩ = true := by decide +kernel
example : runM (swDeserialize (fpCodec ⟨13, 1⟩) (swCfgFp ⟨0⟩ ⟨7⟩ false 7) .yes .yes) ([135] ++ [1]) =
    .ok ⟨⟨7⟩, ⟨8⟩, false⟩ ⟨[1], 1⟩ := by decide +kernel
example : runM (swDeserialize (fpCodec ⟨13, 1⟩) (swCfgFp ⟨0⟩ ⟨7⟩ false 7) .yes .yes) [64] =
    .ok ⟨⟨0⟩, ⟨0⟩, true⟩ ⟨[], 1⟩ := by decide +kernel
/-- `(1, 0)` on `y² = x³ + 12` over `F_13`: `y = 0` -/
example : swIsOnCurve (swCfgFp (p := 13) ⟨0⟩ ⟨12⟩ true 1) ⟨⟨1⟩, ⟨0⟩, false⟩ = true ∧
    swSerialize (fpCodec ⟨13, 1⟩) ⟨⟨1⟩, ⟨0⟩, false⟩ .yes = .ok [1] ∧
    runM (swDeserialize (fpCodec ⟨13, 1⟩) (swCfgFp ⟨0⟩ ⟨12⟩ true 1) .yes .no) [1] =
      .ok ⟨⟨1⟩, ⟨0⟩, false⟩ ⟨[], 1⟩ := by decide +kernel
/-- twisted Edwards `x² + y² = 1 + 2·x²·y²` over `F_13`, point `(4, 9)` -/
example : teIsOnCurve (teCfgFp (p := 13) ⟨1⟩ ⟨2⟩ 8) ⟨⟨4⟩, ⟨9⟩⟩ = true ∧
    teSerialize (fpCodec ⟨13, 1⟩) ⟨⟨4⟩, ⟨9⟩⟩ .yes = .ok [9] ∧
    teSerialize (fpCodec ⟨13, 1⟩) ⟨⟨9⟩, ⟨9⟩⟩ .yes = .ok [137] ∧
    runM (teDeserialize (fpCodec ⟨13, 1⟩) (teCfgFp ⟨1⟩ ⟨2⟩ 8) .yes .yes) [137] = .ok ⟨⟨9⟩, ⟨9⟩⟩ ⟨[], 1⟩ := by
  decide +kernel
example : (teCfgFp (p := 13) ⟨1⟩ ⟨2⟩ 8).a - ((⟨9⟩ : Fp 13) * ⟨9⟩) * (teCfgFp (p := 13) ⟨1⟩ ⟨2⟩ 8).d ≠ 0 ∧
    (⟨4⟩ : Fp 13) * ⟨4⟩ = teX2 (teCfgFp (p := 13) ⟨1⟩ ⟨2⟩ 8) ⟨9⟩ := by decide +kernel

/-! ## 3. Uniqueness: an accepted byte string is THE serialisation of the result -/

/-- `Fp`: non-reduced integers and stray bits are rejected — no hypothesis on the extra byte
    (`b + f ≤ 64N`: stray bits make the integer `≥ 2^b > p`; `b + f > 64N`: the extra-byte check) -/
theorem fp_unique {c : FpCfg} (h : WFc c) {Fl : Type} [Flags Fl] (hf : bitSize Fl ≤ 8) (hsub : FlagsSub Fl)
    (bs : List Nat) (hb : ∀ b ∈ bs, b < 256) (x : Fp c.p) (fl : Fl) (s : Rd)
    (hd : runM (fpDeFlags c Fl) bs = .ok (x, fl) s) :
    fpSerFlags c Fl x fl = .ok (bs.take s.used) ∧ s.used = fpSizeFlags c Fl ∧ x.val < c.p := by
  have h1 := fpUniq h hf hsub (s := ⟨bs, 0⟩) hb hd
  have h2 := (fpDe_ok_inv h hf hd).2.1
  have h3 := fpDe_ok_lt h hd
  subst h2
  exact ⟨by simpa using h1, by simp, h3⟩

/-- with a `FlagsOK` flag type -/
theorem fp_unique' {c : FpCfg} (h : WFc c) {Fl : Type} [Flags Fl] (hF : FlagsOK Fl)
    (bs : List Nat) (hb : ∀ b ∈ bs, b < 256) (x : Fp c.p) (fl : Fl) (s : Rd)
    (hd : runM (fpDeFlags c Fl) bs = .ok (x, fl) s) :
    fpSerFlags c Fl x fl = .ok (bs.take s.used) :=
  (fp_unique h hF.bits_le hF.sub bs hb x fl s hd).1

/-- non-vacuity: accepted / rejected inputs; `[5, 0x40]` for a 63-bit modulus would have been accepted
    with a stray bit in the ninth byte before fix 6c824ba -/
example : runM (fpDeFlags ⟨13, 1⟩ SWFlags) [133] = .ok (⟨5⟩, .yIsNegative) ⟨[], 1⟩ := by decide +kernel
example : runM (fpDeFlags ⟨13, 1⟩ SWFlags) [13] = .err .invalid ⟨[], 1⟩ := by decide +kernel
example : runM (fpDeFlags ⟨13, 1⟩ SWFlags) [0x25] = .err .invalid ⟨[], 1⟩ := by decide +kernel
example : runM (fpDeFlags ⟨2 ^ 63 - 25, 1⟩ SWFlags) [5, 0, 0, 0, 0, 0, 0, 0, 0x41] = .err .invalid ⟨[], 9⟩ := by
  decide +kernel
example : runM (fpDeFlags ⟨2 ^ 63 - 25, 1⟩ SWFlags) [5, 0, 0, 0, 0, 0, 0, 0x80, 0x40] = .err .invalid ⟨[], 9⟩ := by
  decide +kernel

/-- the hypothesis `hb` is only the typing of the input (`u8`s): on a `List Nat` that is not a byte
    string the statement fails -/
example : runM (fpDeFlags ⟨2 ^ 63 - 25, 1⟩ EmptyFlags) [256, 0, 0, 0, 0, 0, 0, 0] = .ok (⟨256⟩, .mk) ⟨[], 8⟩ ∧
    fpSerFlags ⟨2 ^ 63 - 25, 1⟩ EmptyFlags ⟨256⟩ .mk = .ok [0, 1, 0, 0, 0, 0, 0, 0] := by decide +kernel

theorem ext_unique_flags {c : FpCfg} (h : WFc c) {Fl : Type} [Flags Fl] (hf : bitSize Fl ≤ 8)
    (hsub : FlagsSub Fl) (t : Tower) (bs : List Nat) (hb : ∀ b ∈ bs, b < 256) (v : ExtV c.p) (fl : Fl)
    (s : Rd) (hd : runM (extDeFlags c Fl t) bs = .ok (v, fl) s) :
    extSerFlags c Fl v fl = .ok (bs.take s.used) ∧ s.used = extSizeFlags c Fl t ∧ v.hasShape t ∧ v.reduced := by
  obtain ⟨h1, h2, h3⟩ := (extUniq h t).1 Fl hf hsub ⟨bs, 0⟩ s v fl hb hd
  obtain ⟨-, rfl⟩ := (extDeFlags_reads h Fl t).ok_used _ _ _ hd
  exact ⟨by simpa using h3, by simp, h1, h2⟩

theorem ext_unique {c : FpCfg} (h : WFc c) (t : Tower) (cm cm' : Compress) (vd : Validate) (bs : List Nat)
    (hb : ∀ b ∈ bs, b < 256) (v : ExtV c.p) (s : Rd) (hd : runM (extDe c t cm vd) bs = .ok v s) :
    extSer c v cm' = .ok (bs.take s.used) ∧ s.used = extSize c t cm' ∧ v.hasShape t ∧ v.reduced := by
  obtain ⟨h1, h2, h3⟩ := (extUniq h t).2 cm vd ⟨bs, 0⟩ s v hb hd
  obtain ⟨-, rfl⟩ := (extDe_reads h t cm vd).ok_used _ _ _ hd
  exact ⟨by simpa [extSer] using h3, by simp [extSize], h1, h2⟩

example : runM (extDeFlags ⟨13, 1⟩ SWFlags (.quad .base)) [3, 76] =
    .ok (.quad (.base ⟨3⟩) (.base ⟨12⟩), .pointAtInfinity) ⟨[], 2⟩ := by decide +kernel
example : runM (extDeFlags ⟨13, 1⟩ SWFlags (.quad .base)) [13, 76] = .err .invalid ⟨[76], 1⟩ := by decide +kernel

/-- observation (not a defect of the model: it is what the Rust code does): uniqueness does NOT extend to
    uncompressed short-Weierstrass points — the sign bit next to a transmitted `y` is never compared
    with `y`, so `(7, 8)` on `y² = x³ + 7` over `F_13` has two accepted encodings -/
example : runM (swDeserialize (fpCodec ⟨13, 1⟩) (swCfgFp ⟨0⟩ ⟨7⟩ false 7) .no .yes) [7, 136] =
      .ok ⟨⟨7⟩, ⟨8⟩, false⟩ ⟨[], 2⟩ ∧
    runM (swDeserialize (fpCodec ⟨13, 1⟩) (swCfgFp ⟨0⟩ ⟨7⟩ false 7) .no .yes) [7, 8] =
      .ok ⟨⟨7⟩, ⟨8⟩, false⟩ ⟨[], 2⟩ := by decide +kernel

/-! ## 7. Sign rule -/

section points
variable {F : Type} [Add F] [Sub F] [Mul F] [Neg F] [Zero F] [One F] [Inv F] [DecidableEq F]

/-- `get_ys_from_x_unchecked` returns `(y, −y)` with `¬ (−y < y)`, both square roots of `x³ + a·x + b` -/
theorem sw_get_ys_sign {K : Codec F} {canon : F → Prop} (hL : SignLaws F canon) (hS : SqrtOK K canon)
    (hO : LtOK K canon) (E : SWCfg F) (x y1 y2 : F) (h : swGetYsFromX K E x = some (y1, y2)) :
    y2 = -y1 ∧ K.lt (-y1) y1 = false ∧ y1 * y1 = swRhs E x ∧ y2 * y2 = swRhs E x := by
  obtain ⟨e, l, hy, -, -⟩ := swGetYs_spec hL hS hO E x y1 y2 h
  subst e
  exact ⟨rfl, l, hy, by rw [hL.neg_sq, hy]⟩

/-- … and a pair is returned exactly when the right-hand side is a square -/
theorem sw_get_ys_some_iff {K : Codec F} {canon : F → Prop} (hL : SignLaws F canon) (hS : SqrtOK K canon)
    (hO : LtOK K canon) (E : SWCfg F) (x : F) :
    (∃ q, swGetYsFromX K E x = some q) ↔ ∃ y, canon y ∧ y * y = swRhs E x := by
  constructor
  · rintro ⟨⟨y1, y2⟩, h⟩
    obtain ⟨-, -, hy, c, -⟩ := swGetYs_spec hL hS hO E x y1 y2 h
    exact ⟨y1, c, hy⟩
  · rintro ⟨y, c, hy⟩
    obtain ⟨y1, y2, h⟩ := swGetYs_some (K := K) hL hS E x y c hy
    exact ⟨_, h⟩

/-- the result does not depend on which root `sqrt` returns: any two dictionaries with the same order
    and correct square roots give the same pair -/
theorem sw_get_ys_indep {K K' : Codec F} {canon : F → Prop} (hL : SignLaws F canon) (hS : SqrtOK K canon)
    (hS' : SqrtOK K' canon) (hO : LtOK K canon) (hlt : K'.lt = K.lt) (E : SWCfg F) (x : F) :
    swGetYsFromX K' E x = swGetYsFromX K E x :=
  swGetYs_indep hL hS hS' hO hlt E x

theorem te_get_xs_sign {K : Codec F} {canon : F → Prop} (hL : SignLaws F canon) (hS : SqrtOK K canon)
    (hO : LtOK K canon) (E : TECfg F) (y x1 x2 : F) (h : teGetXsFromY K E y = some (x1, x2)) :
    x2 = -x1 ∧ K.lt (-x1) x1 = false ∧ x1 * x1 = teX2 E y ∧ x2 * x2 = teX2 E y := by
  obtain ⟨e, l, hx, -, -, -⟩ := teGetXs_spec hL hS hO E y x1 x2 h
  subst e
  exact ⟨rfl, l, hx, by rw [hL.neg_sq, hx]⟩

theorem te_get_xs_indep {K K' : Codec F} {canon : F → Prop} (hL : SignLaws F canon) (hS : SqrtOK K canon)
    (hS' : SqrtOK K' canon) (hO : LtOK K canon) (hlt : K'.lt = K.lt) (E : TECfg F) (y : F) :
    teGetXsFromY K' E y = teGetXsFromY K E y :=
  teGetXs_indep hL hS hS' hO hlt E y

/-- `to_flags`: the sign flag of a finite point is `YIsPositive` exactly when `y ≤ −y` -/
theorem sw_to_flags_positive_iff (K : Codec F) (P : SWAff F) (hP : P.infinity = false) :
    swToFlags K P = .yIsPositive ↔ K.le P.y (-P.y) = true :=
  swToFlags_pos_iff K P hP

theorem sw_to_flags_infinity (K : Codec F) (P : SWAff F) (hP : P.infinity = true) :
    swToFlags K P = .pointAtInfinity :=
  swToFlags_inf K P hP

end points

example : swGetYsFromX (fpCodec ⟨13, 1⟩) (swCfgFp (p := 13) ⟨0⟩ ⟨7⟩ true 7) ⟨7⟩ = some (⟨5⟩, ⟨8⟩) := by
  decide +kernel
example : swGetYsFromX (fpCodec ⟨13, 1⟩) (swCfgFp (p := 13) ⟨0⟩ ⟨7⟩ true 7) ⟨1⟩ = none := by decide +kernel
example : teGetXsFromY (fpCodec ⟨13, 1⟩) (teCfgFp (p := 13) ⟨1⟩ ⟨2⟩ 8) ⟨9⟩ = some (⟨4⟩, ⟨9⟩) := by
  decide +kernel
example : swToFlags (fpCodec ⟨13, 1⟩) ⟨⟨7⟩, ⟨8⟩, false⟩ = .yIsNegative := by decide +kernel

end Ark.C09
