import Ark.Proofs.MontA
/-
  Property C01 (part A) — the reduction helpers and the additive operations of the
  Montgomery prime-field backend (`Ark.Model.Mont`, model of
  ff/src/fields/models/fp/montgomery_backend.rs): `geq`, `subtract_modulus`,
  `subtract_modulus_with_carry`, `add_assign`, `sub_assign`, `double_in_place`,
  `neg_in_place`.

  Every theorem holds for every configuration `c` that is consistent with an odd modulus
  `pv > 1` (`CfgOK c pv`): every limb count `c.n`, and both `c.spare = true` (top bit of the
  modulus clear) and `c.spare = false`.  Results are stated on `Nat` with `%`.
  Helper lemmas are in Ark/Proofs/MontA.lean.
-/
namespace Ark.C01
open Ark Ark.Mont

/-! ### concrete configurations used for the non-vacuity examples -/

/-- one limb, spare bit, derive-macro flavour -/
example : CfgOK (mkCfg true 1 13) 13 := by constructor <;> first | decide +kernel | exact toLimbs_wf _ _
/-- one limb, NO spare bit (`p = 2^64 - 59`), trait flavour -/
example : CfgOK (mkCfg false 1 (2 ^ 64 - 59)) (2 ^ 64 - 59) := by constructor <;> first | decide +kernel | exact toLimbs_wf _ _
/-- two limbs, spare bit (`p = 2^127 - 1`) -/
example : CfgOK (mkCfg true 2 (2 ^ 127 - 1)) (2 ^ 127 - 1) := by constructor <;> first | decide +kernel | exact toLimbs_wf _ _
/-- two limbs, NO spare bit (`p = 2^128 - 159`) -/
example : CfgOK (mkCfg false 2 (2 ^ 128 - 159)) (2 ^ 128 - 159) := by
  constructor <;> first | decide +kernel | exact toLimbs_wf _ _

example : (mkCfg true 1 13).spare = true ∧ (mkCfg false 1 (2 ^ 64 - 59)).spare = false ∧
    (mkCfg true 2 (2 ^ 127 - 1)).spare = true ∧ (mkCfg false 2 (2 ^ 128 - 159)).spare = false := by
  decide +kernel

/-! ### 6. geq -/

/-- `geq a b` (i.e. `a >= b` on `BigInt`) decides `value a ≥ value b`. -/
theorem geq_exact (a b : List Nat) (h : a.length = b.length) (ha : WF a) (hb : WF b) :
    geq a b = decide (value a ≥ value b) :=
  geq_spec a b h ha hb

example : geq [5, 1] [7, 0] = true ∧ geq [7, 0] [5, 1] = false ∧ geq [5, 1] [5, 1] = true := by
  decide +kernel
example : WF [5, 1] ∧ WF [7, 0] ∧ [5, 1].length = [7, 0].length := by
  unfold WF; decide +kernel

/-! ### 1. subtract_modulus / subtract_modulus_with_carry -/

/-- `subtract_modulus`: for any `N`-limb `a < 2p` the result is the canonical element `a mod p`. -/
theorem subtract_modulus_exact {c : MontCfg} {pv : Nat} (h : CfgOK c pv) (a : List Nat)
    (ha : Limbs c a) (ht : value a < 2 * pv) :
    Elem c pv (subtractModulus c a) ∧ value (subtractModulus c a) = value a % pv :=
  subtractModulus_spec h a ha ht

/-- `subtract_modulus_with_carry`: the `N` limbs `a` and the carry flag `k` denote
    `t = a + k·2^(64N)`; whenever `t < 2p` the result is the canonical element `t mod p`
    (for `k = true` the subtraction `a - p` borrows, and that borrow cancels the carry). -/
theorem subtract_modulus_with_carry_exact {c : MontCfg} {pv : Nat} (h : CfgOK c pv)
    (a : List Nat) (k : Bool) (ha : Limbs c a)
    (ht : value a + (if k then B ^ c.n else 0) < 2 * pv) :
    Elem c pv (subtractModulusWithCarry c a k) ∧
    value (subtractModulusWithCarry c a k) = (value a + (if k then B ^ c.n else 0)) % pv :=
  subtractModulusWithCarry_spec h a k ha ht

/-- the side condition `k = true → t ≥ p` of the Rust comment is automatic -/
theorem carry_implies_ge {c : MontCfg} {pv : Nat} (h : CfgOK c pv) (a : List Nat) :
    pv ≤ value a + B ^ c.n := by
  have := h.p_lt; omega

example : subtractModulus (mkCfg true 1 13) [20] = [7] ∧
    subtractModulus (mkCfg true 1 13) [13] = [0] ∧
    subtractModulus (mkCfg true 1 13) [12] = [12] := by decide +kernel
example : Limbs (mkCfg true 1 13) [20] ∧ value [20] < 2 * 13 := by
  refine ⟨⟨by decide +kernel, by unfold WF; decide +kernel⟩, by decide +kernel⟩
/-- no spare bit: `t = 10 + 2^64 < 2p`, `t mod p = 69` -/
example : subtractModulusWithCarry (mkCfg false 1 (2 ^ 64 - 59)) [10] true = [69] ∧
    (value [10] + B ^ 1) % (2 ^ 64 - 59) = 69 ∧
    subtractModulusWithCarry (mkCfg false 1 (2 ^ 64 - 59)) [2 ^ 64 - 1] false = [58] := by
  decide +kernel
example : Limbs (mkCfg false 1 (2 ^ 64 - 59)) [10] ∧
    value [10] + (if true then B ^ (mkCfg false 1 (2 ^ 64 - 59)).n else 0) < 2 * (2 ^ 64 - 59) := by
  refine ⟨⟨by decide +kernel, by unfold WF; decide +kernel⟩, by decide +kernel⟩

/-! ### 2. add -/

/-- `add_assign`: the sum of two elements is the canonical element `(a + b) mod p`,
    with and without spare bit (without it the carry of `a + b` is fed to the reduction). -/
theorem add_exact {c : MontCfg} {pv : Nat} (h : CfgOK c pv) (a b : List Nat)
    (ha : Elem c pv a) (hb : Elem c pv b) :
    Elem c pv (Mont.add c a b) ∧ value (Mont.add c a b) = (value a + value b) % pv :=
  add_spec h a b ha hb

example : Mont.add (mkCfg true 1 13) [9] [11] = [7] := by decide +kernel
example : Elem (mkCfg true 1 13) 13 [9] ∧ Elem (mkCfg true 1 13) 13 [11] := by
  refine ⟨⟨by decide +kernel, by unfold WF; decide +kernel, by decide +kernel⟩,
    ⟨by decide +kernel, by unfold WF; decide +kernel, by decide +kernel⟩⟩
/-- no spare bit, the limb addition overflows `2^64`: `(p-1) + (p-2) = p - 3 (mod p)` -/
example : Mont.add (mkCfg false 1 (2 ^ 64 - 59)) [2 ^ 64 - 60] [2 ^ 64 - 61] = [2 ^ 64 - 62] := by
  decide +kernel
example : Elem (mkCfg false 1 (2 ^ 64 - 59)) (2 ^ 64 - 59) [2 ^ 64 - 60] ∧
    Elem (mkCfg false 1 (2 ^ 64 - 59)) (2 ^ 64 - 59) [2 ^ 64 - 61] := by
  refine ⟨⟨by decide +kernel, by unfold WF; decide +kernel, by decide +kernel⟩,
    ⟨by decide +kernel, by unfold WF; decide +kernel, by decide +kernel⟩⟩
/-- two limbs without spare bit -/
example : value (Mont.add (mkCfg false 2 (2 ^ 128 - 159)) (toLimbs 2 (2 ^ 128 - 160))
    (toLimbs 2 (2 ^ 128 - 200))) = 2 ^ 128 - 201 := by decide +kernel

/-! ### 3. sub -/

/-- `sub_assign`: the difference of two elements is the canonical element `(p + a - b) mod p`.
    When `b > a` the code adds `p` and drops the carry of that addition; the following
    subtraction wraps the other way, so the result is exact for every limb count, also for
    moduli without spare bit where `a + p ≥ 2^(64N)`. -/
theorem sub_exact {c : MontCfg} {pv : Nat} (h : CfgOK c pv) (a b : List Nat)
    (ha : Elem c pv a) (hb : Elem c pv b) :
    Elem c pv (Mont.sub c a b) ∧ value (Mont.sub c a b) = (pv + value a - value b) % pv :=
  sub_spec h a b ha hb

example : Mont.sub (mkCfg true 1 13) [3] [11] = [5] ∧ Mont.sub (mkCfg true 1 13) [11] [3] = [8] := by
  decide +kernel
/-- no spare bit: `1 + p = 2^64 - 58` fits, `100 + p` overflows `2^64` and the carry is dropped -/
example : Mont.sub (mkCfg false 1 (2 ^ 64 - 59)) [100] [200] = [2 ^ 64 - 159] ∧
    (addC [100] (mkCfg false 1 (2 ^ 64 - 59)).p 0) = ([41], 1) := by decide +kernel
example : Elem (mkCfg false 1 (2 ^ 64 - 59)) (2 ^ 64 - 59) [100] ∧
    Elem (mkCfg false 1 (2 ^ 64 - 59)) (2 ^ 64 - 59) [200] := by
  refine ⟨⟨by decide +kernel, by unfold WF; decide +kernel, by decide +kernel⟩,
    ⟨by decide +kernel, by unfold WF; decide +kernel, by decide +kernel⟩⟩
example : value (Mont.sub (mkCfg false 2 (2 ^ 128 - 159)) (toLimbs 2 1000) (toLimbs 2 (2 ^ 127)))
    = 2 ^ 128 - 159 + 1000 - 2 ^ 127 := by decide +kernel

/-! ### 4. double -/

/-- `double_in_place`: the canonical element `2a mod p`. -/
theorem double_exact {c : MontCfg} {pv : Nat} (h : CfgOK c pv) (a : List Nat)
    (ha : Elem c pv a) :
    Elem c pv (Mont.double c a) ∧ value (Mont.double c a) = (2 * value a) % pv :=
  double_spec h a ha

example : Mont.double (mkCfg true 1 13) [9] = [5] := by decide +kernel
/-- no spare bit, the shift loses the top bit: `2(p-1) = p - 2 (mod p)` -/
example : Mont.double (mkCfg false 1 (2 ^ 64 - 59)) [2 ^ 64 - 60] = [2 ^ 64 - 61] ∧
    (mul2 [2 ^ 64 - 60]).2 = true := by decide +kernel
example : value (Mont.double (mkCfg false 2 (2 ^ 128 - 159)) (toLimbs 2 (2 ^ 128 - 160)))
    = 2 ^ 128 - 161 := by decide +kernel

/-! ### 5. neg -/

/-- `neg_in_place`: the canonical element `(p - a) mod p`. -/
theorem neg_exact {c : MontCfg} {pv : Nat} (h : CfgOK c pv) (a : List Nat)
    (ha : Elem c pv a) :
    Elem c pv (Mont.neg c a) ∧ value (Mont.neg c a) = (pv - value a) % pv :=
  neg_spec h a ha

/-- zero stays zero (the very same limbs), non-zero `a` becomes `p - a` -/
theorem neg_cases {c : MontCfg} {pv : Nat} (h : CfgOK c pv) (a : List Nat)
    (ha : Elem c pv a) :
    (value a = 0 → Mont.neg c a = a) ∧ (value a ≠ 0 → value (Mont.neg c a) = pv - value a) := by
  constructor
  · intro h0
    unfold Mont.neg; rw [if_pos ((isZero_iff a).mpr h0)]
  · intro hne
    have hl := ha.lt
    rw [(neg_spec h a ha).2, Nat.mod_eq_of_lt (by omega)]

/-- `a + (-a) = 0` in the field -/
theorem add_neg_cancel {c : MontCfg} {pv : Nat} (h : CfgOK c pv) (a : List Nat)
    (ha : Elem c pv a) : value (Mont.add c a (Mont.neg c a)) = 0 := by
  have hn := neg_spec h a ha
  have hl := ha.lt
  rw [(add_spec h a _ ha hn.1).2, hn.2, Nat.add_mod_mod]
  have e : value a + (pv - value a) = pv := by omega
  rw [e, Nat.mod_self]

example : Mont.neg (mkCfg true 1 13) [0] = [0] ∧ Mont.neg (mkCfg true 1 13) [4] = [9] ∧
    Mont.neg (mkCfg false 1 (2 ^ 64 - 59)) [1] = [2 ^ 64 - 60] := by decide +kernel
example : Elem (mkCfg true 1 13) 13 [0] ∧ Elem (mkCfg true 1 13) 13 [4] := by
  refine ⟨⟨by decide +kernel, by unfold WF; decide +kernel, by decide +kernel⟩,
    ⟨by decide +kernel, by unfold WF; decide +kernel, by decide +kernel⟩⟩

end Ark.C01
