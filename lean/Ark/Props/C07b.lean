import Ark.Proofs.FftB
import Mathlib.Data.ZMod.Basic
import Mathlib.Algebra.Field.ZMod
import Mathlib.Tactic.NormNum.Prime
/-
  Property C07 (part b): evaluation domains of `ark-poly` — construction
  (`Radix2EvaluationDomain::new`, `MixedRadixEvaluationDomain::new`,
  `GeneralEvaluationDomain::new`, `get_coset`, `element`, `elements`), vanishing polynomial,
  Lagrange coefficients, `reindex_by_subdomain`, mixed-radix FFT.
  The model is `Ark.Model.Fft` (generic over operator classes); everything here is over an
  abstract `[Field F]`.  Only property theorems and non-vacuity examples; helpers are in
  `Ark/Proofs/FftB.lean`.

  Conventions.  `Params.WF P` : `TWO_ADIC_ROOT_OF_UNITY` has order exactly `2^TWO_ADICITY`, and a
  `LARGE_SUBGROUP_ROOT_OF_UNITY` comes with an odd base `q ≥ 2` (`< 2^64`), an adicity `k` and has
  order exactly `2^TWO_ADICITY · q^k`.  `Domain.Good d` : the coherence invariant of a constructed
  (coset) domain (`0 < size < 2^64`, `groupGen` of order `size`, the three inverses, `offsetPowSize
  = offset^size`).  `node d i = offset · groupGen^i`.
-/
namespace Ark.C07
open Ark Ark.Fft

set_option linter.unusedSectionVars false

/-! ## concrete fields for the non-vacuity examples -/

instance : Fact (Nat.Prime 17) := ⟨by norm_num⟩
instance : Fact (Nat.Prime 37) := ⟨by norm_num⟩

/-- `ZMod 17`: two-adicity 4, `3` has order 16, no small subgroup -/
def P17 : Params (ZMod 17) := { twoAdicity := 4, twoAdicRoot := 3 }

/-- `ZMod 37`: `36 = 2^2·3^2`; `31` has order 4, `2` has order 36 -/
def P37 : Params (ZMod 37) :=
  { twoAdicity := 2, twoAdicRoot := 31, smallBase := some 3, smallAdicity := some 2,
    largeRoot := some 2 }

theorem order_3_mod_17 : orderOf (3 : ZMod 17) = 2 ^ 4 :=
  (orderOf_eq_iff (by norm_num)).2 (by decide +kernel)

theorem order_31_mod_37 : orderOf (31 : ZMod 37) = 2 ^ 2 :=
  (orderOf_eq_iff (by norm_num)).2 (by decide +kernel)

theorem order_2_mod_37 : orderOf (2 : ZMod 37) = 2 ^ 2 * 3 ^ 2 :=
  (orderOf_eq_iff (by norm_num)).2 (by decide +kernel)

theorem P17_WF : P17.WF := ⟨order_3_mod_17, fun w h => by cases h⟩

theorem P37_WF : P37.WF :=
  ⟨order_31_mod_37, fun w h => by
    cases h
    exact ⟨3, 2, rfl, rfl, by norm_num, by norm_num, by norm_num, order_2_mod_37⟩⟩

/-- the size-8 subgroup domain of `ZMod 17` (generator `9 = 3^2`) and its coset by `3` -/
def D8 : Domain (ZMod 17) := mkDom 9 8 3
def D8c : Domain (ZMod 17) := { D8 with offset := 3, offsetInv := 6, offsetPowSize := 16 }

theorem order_9_mod_17 : orderOf (9 : ZMod 17) = 8 :=
  (orderOf_eq_iff (by norm_num)).2 (by decide +kernel)

theorem D8_good : D8.Good :=
  ⟨by decide, by decide, rfl, by decide +kernel, order_9_mod_17, by decide +kernel,
    by decide +kernel, by decide +kernel⟩

theorem D8c_good : D8c.Good :=
  ⟨by decide, by decide, rfl, by decide +kernel, order_9_mod_17, by decide +kernel,
    by decide +kernel, by decide +kernel⟩

section
variable {F : Type} [Field F] [DecidableEq F]

/-! ## 10. domain construction -/

/-- `Radix2EvaluationDomain::new` never panics on well-formed field parameters -/
theorem radix2New_never_panics (P : Params F) (hP : P.WF) (n : Nat) : radix2New P n ≠ .panic :=
  radix2New_ne_panic P hP n

example : P17.WF ∧ radix2New P17 5 ≠ .panic := ⟨P17_WF, by decide +kernel⟩

/-- `Radix2EvaluationDomain::new(n)` is `None` exactly when the field has no subgroup of size
    `2^⌈log₂ n⌉` (`⌈log₂ n⌉ > TWO_ADICITY`) or that size is not a `usize` (`⌈log₂ n⌉ ≥ 64`) -/
theorem radix2New_none_iff (P : Params F) (hP : P.WF) (n : Nat) :
    radix2New P n = .ok none ↔ (P.twoAdicity < Nat.clog 2 n ∨ 64 ≤ Nat.clog 2 n) :=
  Fft.radix2New_none_iff P hP n

/-- for every real field (`TWO_ADICITY < 64`): `None` iff `⌈log₂ n⌉ > TWO_ADICITY` -/
theorem radix2New_none_iff' (P : Params F) (hP : P.WF) (hs : P.twoAdicity < 64) (n : Nat) :
    radix2New P n = .ok none ↔ P.twoAdicity < Nat.clog 2 n := by
  rw [Fft.radix2New_none_iff P hP n]; omega

example : radix2New P17 17 = .ok none ∧ P17.twoAdicity < Nat.clog 2 17 := by
  refine ⟨by decide +kernel, ?_⟩
  show 4 < Nat.clog 2 17
  rw [Nat.lt_clog_iff_pow_lt (by norm_num)]; norm_num

/-- otherwise the result is the domain of the LEAST power of two `≥ n` (`n = 0, 1 ↦ 1`), with
    `group_gen` of order exactly `size`, correct inverses and trivial offset fields -/
theorem radix2New_some (P : Params F) (hP : P.WF) (n : Nat) (h1 : Nat.clog 2 n ≤ P.twoAdicity)
    (h2 : Nat.clog 2 n < 64) :
    ∃ d, radix2New P n = .ok (some d) ∧ d.Good ∧
      d.logSizeOfGroup = Nat.clog 2 n ∧ d.size = 2 ^ d.logSizeOfGroup ∧ n ≤ d.size ∧
      (∀ k, n ≤ 2 ^ k → d.size ≤ 2 ^ k) ∧
      orderOf d.groupGen = d.size ∧ d.groupGenInv * d.groupGen = 1 ∧
      d.sizeInv * (d.size : F) = 1 ∧ d.sizeAsFieldElement = (d.size : F) ∧
      d.offset = 1 ∧ d.offsetInv = 1 ∧ d.offsetPowSize = 1 :=
  Fft.radix2New_some P hP n h1 h2

example : radix2New P17 5 = .ok (some D8) := by decide +kernel
example : radix2New P17 0 = .ok (some (mkDom 1 1 0)) := by decide +kernel
example : radix2New P17 16 = .ok (some (mkDom 3 16 4)) := by decide +kernel
example : ∃ d, radix2New P17 5 = .ok (some d) ∧ d.Good ∧ d.size = 8 := by
  have h1 : Nat.clog 2 5 ≤ 3 := (Nat.clog_le_iff_le_pow (by norm_num)).2 (by norm_num)
  obtain ⟨d, h, hg, -⟩ := radix2New_some P17 P17_WF 5 (le_trans h1 (by decide)) (by omega)
  refine ⟨d, h, hg, ?_⟩
  have h2 : radix2New P17 5 = .ok (some D8) := by decide +kernel
  rw [h2] at h; cases h; rfl

/-- `get_coset(h)`: `None` for `h = 0`; otherwise the same domain with `offset = h`,
    `offset_inv·h = 1`, `offset_pow_size = h^size`, and the result is again a coherent domain -/
theorem getCoset_spec (d : Domain F) (hd : d.Good) (h : F) :
    (h = 0 → getCoset d h = none) ∧
    (h ≠ 0 → ∃ d', getCoset d h = some d' ∧ d'.Good ∧ d'.size = d.size ∧
      d'.logSizeOfGroup = d.logSizeOfGroup ∧ d'.groupGen = d.groupGen ∧
      d'.groupGenInv = d.groupGenInv ∧ d'.sizeInv = d.sizeInv ∧
      d'.sizeAsFieldElement = d.sizeAsFieldElement ∧
      d'.offset = h ∧ d'.offsetInv * h = 1 ∧ d'.offsetPowSize = h ^ d.size) :=
  ⟨fun h0 => h0 ▸ getCoset_zero d, fun hne => getCoset_good d hd hne⟩

example : D8.Good ∧ getCoset D8 3 = some D8c ∧ getCoset D8 0 = none :=
  ⟨D8_good, by decide +kernel, by decide +kernel⟩

/-- `element(i) = h·g^i` (`i` a `u64`) -/
theorem element_spec (d : Domain F) (i : Nat) (hi : i < 2 ^ 64) :
    element d i = d.offset * d.groupGen ^ i :=
  element_eq d i hi

/-- `elements()` lists `element(0), …, element(size−1)` -/
theorem elements_spec (d : Domain F) (hlt : d.size ≤ 2 ^ 64) :
    elements d = (List.range d.size).map (element d) ∧
    elements d = (List.range d.size).map (fun i => d.offset * d.groupGen ^ i) :=
  ⟨elements_eq_map_element d hlt, elements_eq d⟩

example : elements D8c = [3, 10, 5, 11, 14, 7, 12, 6] ∧ element D8c 2 = 5 := by decide +kernel

/-- `GeneralEvaluationDomain::new` = the radix-2 domain when it exists, else the mixed-radix one -/
theorem generalNew_spec (P : Params F) (n : Nat) :
    (∀ d, radix2New P n = .ok (some d) → generalNew P n = .ok (some (.radix2 d))) ∧
    (radix2New P n = .ok none → generalNew P n =
      (match mixedNew P n with
       | .panic => .panic
       | .ok (some d) => .ok (some (.mixedRadix d))
       | .ok none => .ok none)) ∧
    (radix2New P n = .panic → generalNew P n = .panic) :=
  ⟨generalNew_of_radix2_some P n, generalNew_of_radix2_none P n,
    fun h => by simp only [generalNew, h]⟩

example : generalNew P17 5 = .ok (some (.radix2 D8)) := by
  rw [(generalNew_spec P17 5).1 D8 (by decide +kernel)]
example : radix2New P37 5 = .ok none ∧ ∃ d, mixedNew P37 5 = .ok (some d) ∧ d.size = 6 ∧
    generalNew P37 5 = .ok (some (.mixedRadix d)) := by
  refine ⟨by decide +kernel, mkDom 27 6 1, by decide +kernel, rfl, ?_⟩
  rw [(generalNew_spec P37 5).2.1 (by decide +kernel)]
  have : mixedNew P37 5 = .ok (some (mkDom 27 6 1)) := by decide +kernel
  rw [this]

/-- `MixedRadixEvaluationDomain::new` is `None` on a field without small subgroup -/
theorem mixedNew_none_of_no_base (P : Params F) (n : Nat) (h : P.smallBase = none) :
    mixedNew P n = .ok none :=
  mixedNew_no_base P n h

example : mixedNew P17 5 = .ok none := mixedNew_none_of_no_base P17 5 rfl

/-- `MixedRadixEvaluationDomain::new` does not panic when base and adicity are both present or
    both absent -/
theorem mixedNew_never_panics (P : Params F) (n : Nat)
    (h : P.smallBase.isSome ↔ P.smallAdicity.isSome) : mixedNew P n ≠ .panic :=
  mixedNew_ne_panic P n h

example : (P37.smallBase.isSome ↔ P37.smallAdicity.isSome) ∧ mixedNew P37 7 ≠ .panic :=
  ⟨by decide, by decide +kernel⟩

/-- `best_mixed_domain_size(n)` for `n ≤ 2^63` is `min(usize::MAX, m)` with `m` the least
    `2^a·q^b ≥ n`, `a ≤ TWO_ADICITY`, `b ≤ k` -/
theorem bestMixedDomainSize_least (P : Params F) (n q k : Nat) (hq : P.smallBase = some q)
    (hk : P.smallAdicity = some k) (hq1 : 1 ≤ q) (hn : n ≤ 2 ^ 63) :
    ∃ R, bestMixedDomainSize P n = .ok R ∧ R ≤ usizeMax ∧
      (∀ a b, a ≤ P.twoAdicity → b ≤ k → n ≤ 2 ^ a * q ^ b → R ≤ 2 ^ a * q ^ b) ∧
      (R = usizeMax ∨ ∃ a b, a ≤ P.twoAdicity ∧ b ≤ k ∧ n ≤ 2 ^ a * q ^ b ∧ R = 2 ^ a * q ^ b) :=
  bestMixedDomainSize_spec P n q k hq hk hq1 hn

example : bestMixedDomainSize P37 5 = .ok 6 ∧ bestMixedDomainSize P37 10 = .ok 12 ∧
    bestMixedDomainSize P37 19 = .ok 36 ∧ bestMixedDomainSize P37 37 = .ok usizeMax := by
  decide +kernel

/-- on a well-formed field with a large subgroup root, `MixedRadixEvaluationDomain::new(n)`
    (`n ≤ 2^63`, some admissible size `≥ n` fits a `u64`) is the coherent domain of the least
    admissible size `2^a'·q^b'`, with `log_size_of_group = a'` and a generator of that order -/
theorem mixedNew_some (P : Params F) (w : F) (q k : Nat) (hw : P.largeRoot = some w)
    (hq : P.smallBase = some q) (hk : P.smallAdicity = some k) (hq2 : 2 ≤ q) (hodd : q % 2 = 1)
    (hq64 : q < 2 ^ 64) (hord : orderOf w = 2 ^ P.twoAdicity * q ^ k)
    (n : Nat) (hn : n ≤ 2 ^ 63) (a b : Nat) (ha : a ≤ P.twoAdicity) (hb : b ≤ k)
    (hge : n ≤ 2 ^ a * q ^ b) (hlt : 2 ^ a * q ^ b < 2 ^ 64) :
    ∃ a' b' g, a' ≤ P.twoAdicity ∧ b' ≤ k ∧ n ≤ 2 ^ a' * q ^ b' ∧ 2 ^ a' * q ^ b' < 2 ^ 64 ∧
      (∀ a b, a ≤ P.twoAdicity → b ≤ k → n ≤ 2 ^ a * q ^ b → 2 ^ a' * q ^ b' ≤ 2 ^ a * q ^ b) ∧
      orderOf g = 2 ^ a' * q ^ b' ∧
      mixedNew P n = .ok (some (mkDom g (2 ^ a' * q ^ b') a')) ∧
      (mkDom g (2 ^ a' * q ^ b') a').Good :=
  Fft.mixedNew_some P w q k hw hq hk hq2 hodd hq64 hord n hn a b ha hb hge hlt

example : mixedNew P37 10 = .ok (some (mkDom 8 12 2)) := by decide +kernel

/-! ## 11. vanishing polynomial -/

/-- `evaluate_vanishing_polynomial(τ) = τ^n − h^n = ∏_{x ∈ elements} (τ − x)` -/
theorem evaluateVanishingPolynomial_spec (d : Domain F) (hd : d.Good) (tau : F) :
    evaluateVanishingPolynomial d tau = tau ^ d.size - d.offset ^ d.size ∧
    evaluateVanishingPolynomial d tau = ((elements d).map (fun x => tau - x)).prod :=
  ⟨evaluateVanishingPolynomial_eq d hd tau,
    (evaluateVanishingPolynomial_eq d hd tau).trans (prod_sub_elements d hd tau).symm⟩

example : evaluateVanishingPolynomial D8c 5 = 0 ∧ evaluateVanishingPolynomial D8c 2 = 2 := by
  decide +kernel

/-- `vanishing_polynomial() = X^n − h^n` as the sparse list `[(0, −h^n), (n, 1)]`; its value at
    `τ` is `evaluate_vanishing_polynomial(τ)` -/
theorem vanishingPolynomial_spec (d : Domain F) (hd : d.Good) :
    vanishingPolynomial d = .ok [(0, -(d.offset ^ d.size)), (d.size, 1)] ∧
    ∀ tau, evalSparse [(0, -(d.offset ^ d.size)), (d.size, 1)] tau =
      evaluateVanishingPolynomial d tau := by
  rw [← hd.offPow]
  exact ⟨vanishingPolynomial_eq d, evalSparse_vanishing d hd⟩

example : vanishingPolynomial D8c = .ok [(0, 1), (8, 1)] := by decide +kernel

/-- the vanishing polynomial vanishes exactly on the domain elements -/
theorem vanishing_iff_mem (d : Domain F) (hd : d.Good) (tau : F) :
    evaluateVanishingPolynomial d tau = 0 ↔ tau ∈ elements d :=
  evaluateVanishingPolynomial_eq_zero_iff d hd tau

example : (5 : ZMod 17) ∈ elements D8c ∧ (2 : ZMod 17) ∉ elements D8c := by decide +kernel

/-! ## 12. Lagrange coefficients -/

/-- `evaluate_all_lagrange_coefficients(τ)` never panics and returns
    `L_i(τ) = ∏_{j≠i} (τ − x_j)/(x_i − x_j)` for `i = 0..n−1`, in both branches (τ in the coset:
    indicator vector; τ outside: closed formula + batch inversion) -/
theorem evaluateAllLagrangeCoefficients_spec (d : Domain F) (hd : d.Good) (tau : F) :
    evaluateAllLagrangeCoefficients d tau = .ok ((List.range d.size).map (fun i =>
      ∏ j ∈ (Finset.range d.size).erase i, (tau - node d j) / (node d i - node d j))) :=
  evaluateAllLagrangeCoefficients_eq d hd tau

/-- on the coset the vector is the indicator of `τ`'s position -/
theorem lagrange_on_coset (d : Domain F) (hd : d.Good) (m : Nat) (hm : m < d.size) :
    evaluateAllLagrangeCoefficients d (node d m) =
      .ok ((List.range d.size).map (fun i => if i = m then 1 else 0)) := by
  rw [evaluateAllLagrangeCoefficients_eq d hd]
  congr 1
  apply List.map_congr_left
  intro i hi
  rw [lagSpec_on d hd (List.mem_range.1 hi) hm]
  by_cases h : i = m
  · simp [h]
  · rw [if_neg h, if_neg (fun e => h (node_inj d hd (List.mem_range.1 hi) hm e))]

/-- off the coset it is the barycentric formula `Z_H(τ) / (n·x_i^(n−1)·(τ − x_i))` -/
theorem lagrange_off_coset (d : Domain F) (hd : d.Good) (tau : F) (h : tau ∉ elements d) :
    evaluateAllLagrangeCoefficients d tau = .ok ((List.range d.size).map (fun i =>
      (tau ^ d.size - d.offset ^ d.size) *
        (((d.size : F) * node d i ^ (d.size - 1))⁻¹ * (tau - node d i)⁻¹))) := by
  rw [evaluateAllLagrangeCoefficients_eq d hd]
  congr 1
  apply List.map_congr_left
  intro i hi
  exact lagSpec_off d hd tau (List.mem_range.1 hi)
    (fun e => h ((mem_elements_iff d tau).2 ⟨i, List.mem_range.1 hi, e⟩))

example : evaluateAllLagrangeCoefficients D8c 5 = .ok [0, 0, 1, 0, 0, 0, 0, 0] ∧
    evaluateAllLagrangeCoefficients D8c 2 = .ok [5, 12, 16, 14, 1, 8, 2, 11] := by
  decide +kernel

/-- hence interpolation: `Σ_i L_i(τ)·c(x_i) = c(τ)` for every coefficient list with `|c| ≤ n` -/
theorem lagrange_interpolation (d : Domain F) (hd : d.Good) (tau : F) (c : List F)
    (hc : c.length ≤ d.size) :
    ∃ L, evaluateAllLagrangeCoefficients d tau = .ok L ∧ L.length = d.size ∧
      (List.zipWith (· * ·) L ((elements d).map (evalL c))).sum = evalL c tau :=
  Fft.lagrange_interpolation d hd tau c hc

example : (List.zipWith (· * ·) [5, 12, 16, 14, 1, 8, 2, 11]
    ((elements D8c).map (evalL [1, 2, 0, 4, 5]))).sum = evalL [1, 2, 0, 4, 5] (2 : ZMod 17) := by
  decide +kernel

/-! ## 14. `reindex_by_subdomain` -/

/-- for a subdomain size dividing the domain size and `idx < size`: no panic, and the result is
    the `idx`-th entry of `[k·period | k < m] ++ [j < N | period ∤ j]` -/
theorem reindexBySubdomain_spec (self other : Domain F) (idx : Nat)
    (hdvd : other.size ∣ self.size) (hidx : idx < self.size) (hlt : self.size ≤ 2 ^ 64) :
    ∃ r, reindexBySubdomain self other idx = .ok r ∧
      ((List.range other.size).map (· * (self.size / other.size)) ++
        (List.range self.size).filter (fun j => decide (j % (self.size / other.size) ≠ 0)))[idx]?
        = some r :=
  Fft.reindexBySubdomain_spec self other idx hdvd hidx hlt

/-- that order enumerates `[0, N)` exactly once, so re-indexing is a bijection on `[0, N)` -/
theorem reindexOrder_perm (N m : Nat) (hN : 0 < N) (hdvd : m ∣ N) :
    ((List.range m).map (· * (N / m)) ++
      (List.range N).filter (fun j => decide (j % (N / m) ≠ 0))).Perm (List.range N) :=
  Fft.reindexOrder_perm N m hN hdvd

example : ((List.range 4).map (· * (12 / 4)) ++
    (List.range 12).filter (fun j => decide (j % (12 / 4) ≠ 0))) = [0, 3, 6, 9, 1, 2, 4, 5, 7, 8, 10, 11] := by
  decide

example : (List.range 8).map (fun i => reindexBySubdomain D8 (mkDom 13 4 2 : Domain (ZMod 17)) i) =
    [0, 2, 4, 6, 1, 3, 5, 7].map .ok := by decide +kernel

/-! ## 13. mixed-radix FFT -/

/-- `mixed_radix_fft_permute(s, k, q, n, ·)` (`n = 2^s·q^k`) is a bijection of `[0, n)` -/
theorem mixedRadixFftPermute_bijection (s k q n : Nat) (hq : 0 < q) (hn : n = 2 ^ s * q ^ k) :
    (∀ i, i < n → mixedRadixFftPermute s k q n i < n) ∧
    (∀ i j, i < n → j < n → mixedRadixFftPermute s k q n i = mixedRadixFftPermute s k q n j → i = j) ∧
    (∀ p, p < n → ∃ i, i < n ∧ mixedRadixFftPermute s k q n i = p) :=
  mixedRadixFftPermute_bij s k q n hq hn

example : (List.range 12).map (mixedRadixFftPermute 2 1 3 12) = [0, 6, 3, 9, 1, 7, 4, 10, 2, 8, 5, 11] := by
  decide +kernel

/-- the cycle-walking "apply the permutation" loop: for ANY `perm` that is injective on `[0,n)` and
    maps it into itself, `result[perm i] = a[i]` -/
theorem applyPermutation_spec {T : Type} (perm : Nat → Nat) (a : List T)
    (hmap : ∀ i, i < a.length → perm i < a.length)
    (hinj : ∀ i j, i < a.length → j < a.length → perm i = perm j → i = j) :
    (applyPermutation perm a).length = a.length ∧
    ∀ i, i < a.length → (applyPermutation perm a)[perm i]? = a[i]? :=
  Fft.applyPermutation_spec perm a hmap hinj

/-- in particular for `perm = mixed_radix_fft_permute` -/
theorem applyPermutation_mixedRadix {T : Type} (s k q : Nat) (hq : 0 < q) (a : List T)
    (hn : a.length = 2 ^ s * q ^ k) :
    (applyPermutation (mixedRadixFftPermute s k q a.length) a).length = a.length ∧
    ∀ i, i < a.length →
      (applyPermutation (mixedRadixFftPermute s k q a.length) a)[mixedRadixFftPermute s k q a.length i]?
        = a[i]? :=
  Fft.applyPermutation_mixedRadix s k q hq a hn

example : applyPermutation (mixedRadixFftPermute 1 1 3 6) [10, 11, 12, 13, 14, 15] =
    [10, 12, 14, 11, 13, 15] := by decide +kernel

/-- `qChunk` is the radix-`q` merge: output position `i·m + j` holds
    `Σ_{l<q} c[l·m + j]·(wm^j)^l·wq^((i·l) mod q)` -/
theorem qChunk_radix_q_merge (q m : Nat) (hq : 1 ≤ q) (hm : 1 ≤ m) (wm wq : F) (c : List F)
    (hc : c.length = q * m) :
    qChunk q m (computePowersSerial q wq) wm c =
      (List.range (q * m)).map (fun p => ∑ l ∈ Finset.range q,
        c.getD (l * m + p % m) 0 * (wm ^ (p % m)) ^ l * wq ^ ((p / m * l) % q)) :=
  qChunk_eq q m hq hm wm wq c hc

example : qChunk 3 2 (computePowersSerial 3 (26 : ZMod 37)) 8 [1, 2, 3, 4, 5, 6] =
    (List.range 6).map (fun p => ∑ l ∈ Finset.range 3,
      ([1, 2, 3, 4, 5, 6] : List (ZMod 37)).getD (l * 2 + p % 2) 0 * ((8 : ZMod 37) ^ (p % 2)) ^ l *
        (26 : ZMod 37) ^ ((p / 2 * l) % 3)) := by decide +kernel

/-- `serial_mixed_radix_fft(a, ω, s)` for `|a| = 2^s·q^k < 2^64` and a primitive `|a|`-th root `ω`
    is the DFT `[Σ_i a_i·ω^(i·K)]_K` (the 32-bit `bitreverse` of the `k = 0` branch needs `s ≤ 32`) -/
theorem serialMixedRadixFft_spec (P : Params F) (q : Nat) (hq : P.smallBase = some q) (hq2 : 2 ≤ q)
    (hodd : q % 2 = 1) (a : List F) (ω : F) (s k : Nat) (hlen : a.length = 2 ^ s * q ^ k)
    (hlt : a.length < 2 ^ 64) (hω : IsPrimitiveRoot ω a.length) (h32 : k = 0 → s ≤ 32) :
    serialMixedRadixFft P a ω s = .ok ((List.range a.length).map (fun K =>
      ∑ i ∈ Finset.range a.length, a.getD i 0 * ω ^ (i * K))) :=
  Fft.serialMixedRadixFft_spec P q hq hq2 hodd a ω s k hlen hlt hω h32

/-- `MixedRadixEvaluationDomain::fft_in_place(c)` (`|c| ≤ n`) = the evaluations of `c` on the
    (coset) domain, in the order of `elements()` -/
theorem mixedFft_spec (P : Params F) (q : Nat) (hq : P.smallBase = some q) (hq2 : 2 ≤ q)
    (hodd : q % 2 = 1) (d : Domain F) (hd : d.Good) (k : Nat)
    (hsize : d.size = 2 ^ d.logSizeOfGroup * q ^ k) (h32 : k = 0 → d.logSizeOfGroup ≤ 32)
    (c : List F) (hc : c.length ≤ d.size) :
    mixedFft P d c = .ok ((elements d).map (evalL c)) :=
  Fft.mixedFft_spec P q hq hq2 hodd d hd k hsize h32 c hc

/-- `ifft_in_place(evals)` returns `n` coefficients whose evaluations on the domain are the
    (zero-padded / truncated) input -/
theorem mixedIfft_spec (P : Params F) (q : Nat) (hq : P.smallBase = some q) (hq2 : 2 ≤ q)
    (hodd : q % 2 = 1) (d : Domain F) (hd : d.Good) (k : Nat)
    (hsize : d.size = 2 ^ d.logSizeOfGroup * q ^ k) (h32 : k = 0 → d.logSizeOfGroup ≤ 32)
    (evals : List F) :
    ∃ c, mixedIfft P d evals = .ok c ∧ c.length = d.size ∧
      (elements d).map (evalL c) = resize evals d.size 0 :=
  Fft.mixedIfft_spec P q hq hq2 hodd d hd k hsize h32 evals

/-- `ifft(fft(c))` is `c` zero-padded to the domain size -/
theorem mixedIfft_mixedFft (P : Params F) (q : Nat) (hq : P.smallBase = some q) (hq2 : 2 ≤ q)
    (hodd : q % 2 = 1) (d : Domain F) (hd : d.Good) (k : Nat)
    (hsize : d.size = 2 ^ d.logSizeOfGroup * q ^ k) (h32 : k = 0 → d.logSizeOfGroup ≤ 32)
    (c : List F) (hc : c.length ≤ d.size) :
    ∃ ys, mixedFft P d c = .ok ys ∧ mixedIfft P d ys = .ok (resize c d.size 0) :=
  Fft.mixedIfft_mixedFft P q hq hq2 hodd d hd k hsize h32 c hc

/-- end to end on a well-formed field with a large subgroup root: `new(n)`, `get_coset(h)`,
    `fft_in_place`, `ifft_in_place` (admissible sizes up to `2^32`, so that the 32-bit `bitreverse`
    of the power-of-two branch is exact) -/
theorem mixedFft_of_mixedNew (P : Params F) (w : F) (q k : Nat) (hw : P.largeRoot = some w)
    (hq : P.smallBase = some q) (hk : P.smallAdicity = some k) (hq2 : 2 ≤ q) (hodd : q % 2 = 1)
    (hq64 : q < 2 ^ 64) (hord : orderOf w = 2 ^ P.twoAdicity * q ^ k)
    (n : Nat) (hn : n ≤ 2 ^ 63) (a b : Nat) (ha : a ≤ P.twoAdicity) (hb : b ≤ k)
    (hge : n ≤ 2 ^ a * q ^ b) (hlt : 2 ^ a * q ^ b ≤ 2 ^ 32) (h : F) (hh : h ≠ 0) :
    ∃ d d', mixedNew P n = .ok (some d) ∧ getCoset d h = some d' ∧ d'.Good ∧ n ≤ d'.size ∧
      d'.offset = h ∧
      ∀ c : List F, c.length ≤ d'.size →
        mixedFft P d' c = .ok ((elements d').map (evalL c)) ∧
        mixedIfft P d' ((elements d').map (evalL c)) = .ok (resize c d'.size 0) :=
  Fft.mixedFft_of_mixedNew P w q k hw hq hk hq2 hodd hq64 hord n hn a b ha hb hge hlt h hh

example : ∃ d d', mixedNew P37 10 = .ok (some d) ∧ getCoset d 2 = some d' ∧ d'.Good ∧ 10 ≤ d'.size ∧
    d'.offset = 2 ∧ ∀ c : List (ZMod 37), c.length ≤ d'.size →
      mixedFft P37 d' c = .ok ((elements d').map (evalL c)) ∧
      mixedIfft P37 d' ((elements d').map (evalL c)) = .ok (resize c d'.size 0) :=
  mixedFft_of_mixedNew P37 2 3 2 rfl rfl rfl (by norm_num) (by norm_num) (by norm_num)
    order_2_mod_37 10 (by norm_num) 2 1 (by decide) (by decide) (by norm_num) (by norm_num) 2
    (by decide)

end

/-! ### non-vacuity for 13: the size-12 domain of `ZMod 37` (`12 = 2^2·3`) and its coset by `2` -/

def D12 : Domain (ZMod 37) := mkDom 8 12 2
def D12c : Domain (ZMod 37) := { D12 with offset := 2, offsetInv := 19, offsetPowSize := 26 }

theorem order_8_mod_37 : orderOf (8 : ZMod 37) = 12 :=
  (orderOf_eq_iff (by norm_num)).2 (by decide +kernel)

theorem D12_good : D12.Good :=
  ⟨by decide, by decide, rfl, by decide +kernel, order_8_mod_37, by decide +kernel,
    by decide +kernel, by decide +kernel⟩

theorem D12c_good : D12c.Good :=
  ⟨by decide, by decide, rfl, by decide +kernel, order_8_mod_37, by decide +kernel,
    by decide +kernel, by decide +kernel⟩

example : mixedNew P37 10 = .ok (some D12) ∧ getCoset D12 2 = some D12c := by decide +kernel
example : D12c.size = 2 ^ D12c.logSizeOfGroup * 3 ^ 1 := by decide
example : mixedFft P37 D12c [1, 2, 3, 4, 5] = .ok ((elements D12c).map (evalL [1, 2, 3, 4, 5])) := by
  decide +kernel
example : mixedFft P37 D12c [1, 2, 3, 4, 5] = .ok [18, 25, 5, 15, 6, 19, 20, 12, 1, 12, 30, 34] := by
  decide +kernel
example : mixedIfft P37 D12c [18, 25, 5, 15, 6, 19, 20, 12, 1, 12, 30, 34] =
    .ok [1, 2, 3, 4, 5, 0, 0, 0, 0, 0, 0, 0] := by decide +kernel
/-- a pure power-of-two size inside the mixed-radix code (the `bitreverse` branch) -/
example : mixedFft P37 (mkDom 31 4 2) [1, 2, 3] =
    .ok ((elements (mkDom 31 4 2 : Domain (ZMod 37))).map (evalL [1, 2, 3])) := by decide +kernel

end Ark.C07
