import Ark.Proofs.MleC
import Mathlib.Data.ZMod.Defs
/-
  Property C17 (part C) — `SparseTerm` and `SparsePolynomial<F, SparseTerm>`
  (poly/src/polynomial/multivariate/{mod,sparse}.rs), as modelled by `Ark.Mle.Term.*` and
  `Ark.Mle.MvPoly.*` in Ark/Model/Mle.lean.  Helper lemmas are in Ark/Proofs/MleC.lean.

  Vocabulary (defined in Ark/Proofs/MleC.lean):
    expo m v            total exponent of variable `v` in the raw `(variable, power)` list `m`
    powSum m            sum of all powers of `m`
    Term.Normal t       variables strictly ascending, all powers positive
    monVal m x          Π x_v ^ e over the raw list `m`
    sumVal ts x         Σ c · monVal m x over a list of `(coefficient, factor list)` pairs
    coeffOf ts t        Σ of the coefficients attached to the monomial `t` in `ts`
    LexLt s o           ∃ v, expo s v < expo o v ∧ ∀ u < v, expo s u = expo o u
    GLt s o             degree s < degree o ∨ (degree s = degree o ∧ LexLt s o)
    MvPoly.WF p         monomials normal, strictly `cmp`-ascending, variables < numVars
    MvPoly.Canonical p  WF p and no zero coefficient
    newTerms ts         `ts` with every factor list passed through `SparseTerm::new`
    oadd / osub / oneg / oaddScaled   the field operations lifted to `Outcome` (panic-strict)
-/
namespace Ark.C17
open Ark Ark.Mle

/-! ### 13. `SparseTerm::new` -/

/-- `Term.new m` is in normal form (strictly ascending variables, positive powers), has the
    exponent vector of `m` (duplicates combined, zero powers dropped) and degree `Σ powers`. -/
theorem term_new_exact (m : List (Nat × Nat)) :
    (Term.new m).Pairwise (fun a b => a.1 < b.1) ∧ (∀ vp ∈ Term.new m, 0 < vp.2) ∧
    (∀ v, expo (Term.new m) v = expo m v) ∧ Term.degree (Term.new m) = powSum m :=
  ⟨(new_normal m).1, (new_normal m).2, expo_new m, degree_new m⟩

/-- the output of `Term.new` is the only normal form with that exponent vector -/
theorem term_new_unique (m : List (Nat × Nat)) (t : Term) (ht : Term.Normal t)
    (h : ∀ v, expo t v = expo m v) : t = Term.new m := new_unique m t ht h

/-- two raw lists give the same term iff they have the same exponent vector -/
theorem term_new_eq_iff (m1 m2 : List (Nat × Nat)) :
    Term.new m1 = Term.new m2 ↔ ∀ v, expo m1 v = expo m2 v := new_eq_iff m1 m2

/-- `Term.new` is the identity on normal forms -/
theorem term_new_idem (t : Term) (ht : Term.Normal t) : Term.new t = t := new_of_normal t ht

/-- `degree` is the sum of the stored powers; `is_constant` is `degree == 0` -/
theorem term_degree_exact (t : Term) :
    Term.degree t = powSum t ∧ Term.isConstant t = decide (Term.degree t = 0) :=
  ⟨degree_eq_powSum t, isConstant_eq t⟩

example : Term.new [(2, 1), (1, 2), (1, 3), (3, 0), (0, 0), (2, 4)] = [(1, 5), (2, 5)] := by
  decide +kernel
example : expo [(2, 1), (1, 2), (1, 3), (3, 0), (0, 0), (2, 4)] 2 = 5 := by decide +kernel
example : Term.Normal [(1, 5), (2, 5)] := by unfold Term.Normal; simp

/-! ### 14. `Field::pow` and `SparseTerm::evaluate` -/

/-- the square-and-multiply loop of the model computes the power -/
theorem fpow_exact {F : Type} [CommRing F] (x : F) (e : Nat) : Term.fpow x e = x ^ e := fpow_eq x e

/-- `Term.evaluate t x` is `Π x[v]^e` when every stored variable indexes into `x`, and a panic
    otherwise (for ANY stored list, normal or not). -/
theorem term_evaluate_exact {F : Type} [CommRing F] (t : Term) (x : List F) :
    ((∀ vp ∈ t, vp.1 < x.length) → Term.evaluate t x = .ok (monVal t x)) ∧
    ((∃ vp ∈ t, x.length ≤ vp.1) → Term.evaluate t x = .panic) := by
  rw [term_evaluate_eq]
  refine ⟨fun h => if_pos h, fun ⟨vp, hvp, h⟩ => if_neg (fun h' => ?_)⟩
  have := h' vp hvp; omega

/-- evaluation of `SparseTerm::new(m)`: the product over the RAW list `m`; it panics exactly when
    a factor of non-zero power names a variable outside the point. -/
theorem term_new_evaluate_exact {F : Type} [CommRing F] (m : List (Nat × Nat)) (x : List F) :
    ((∀ vp ∈ m, vp.2 = 0 ∨ vp.1 < x.length) → Term.evaluate (Term.new m) x = .ok (monVal m x)) ∧
    ((∃ vp ∈ m, vp.2 ≠ 0 ∧ x.length ≤ vp.1) → Term.evaluate (Term.new m) x = .panic) := by
  rw [term_new_evaluate]
  refine ⟨fun h => if_pos h, fun ⟨vp, hvp, h0, h⟩ => if_neg (fun h' => ?_)⟩
  rcases h' vp hvp with h1 | h1 <;> omega

example : Term.evaluate (Term.new [(1, 2), (0, 1), (1, 1)]) [(2 : ZMod 5), 3] = .ok 4 := by
  decide +kernel
example : Term.evaluate (Term.new [(1, 2), (2, 1)]) [(2 : ZMod 5), 3] = .panic := by decide +kernel
example : monVal [(1, 2), (0, 1), (1, 1)] [(2 : ZMod 5), 3] = 4 := by decide +kernel

/-! ### 15. `Ord for SparseTerm` -/

/-- On normal forms `Term.cmp` decides the graded lexicographic order `GLt` (total degree first,
    then exponent vectors compared from variable 0 upwards), and `.eq` means equality. -/
theorem term_cmp_exact (s o : Term) (hs : Term.Normal s) (ho : Term.Normal o) :
    (Term.cmp s o = .lt ↔ GLt s o) ∧ (Term.cmp s o = .eq ↔ s = o) ∧ (Term.cmp s o = .gt ↔ GLt o s) :=
  ⟨cmp_lt_iff s o hs ho, cmp_eq_iff s o hs ho, cmp_gt_iff s o hs ho⟩

/-- `GLt` is a strict order (irreflexive, transitive) … -/
theorem glt_strict_order :
    (∀ s : Term, ¬ GLt s s) ∧ (∀ a b c : Term, GLt a b → GLt b c → GLt a c) :=
  ⟨GLt.irrefl, fun _ _ _ => GLt.trans⟩

/-- … so `Term.cmp` is a total order on normal forms: antisymmetric, transitive, and exactly one of
    `s < o`, `s = o`, `o < s` holds (whatever `cmp s o` returns, by `term_cmp_exact`). -/
theorem term_cmp_total_order (a b c : Term) (ha : Term.Normal a) (hb : Term.Normal b)
    (hc : Term.Normal c) :
    (Term.cmp a b = .gt ↔ Term.cmp b a = .lt) ∧
    (Term.cmp a b = .lt → Term.cmp b c = .lt → Term.cmp a c = .lt) ∧
    (GLt a b ∨ a = b ∨ GLt b a) := by
  refine ⟨cmp_flip ha hb, cmp_lt_trans ha hb hc, ?_⟩
  obtain ⟨i1, i2, i3⟩ := cmp_spec a b ha hb
  cases h : Term.cmp a b
  · exact Or.inl (i1 h)
  · exact Or.inr (Or.inl (i2 h))
  · exact Or.inr (Or.inr (i3 h))

/-- in terms of raw factor lists: comparing `new m1` with `new m2` compares `Σ powers` and then the
    exponent vectors of `m1`, `m2` -/
theorem term_cmp_new (m1 m2 : List (Nat × Nat)) :
    (Term.cmp (Term.new m1) (Term.new m2) = .lt ↔
      powSum m1 < powSum m2 ∨ (powSum m1 = powSum m2 ∧
        ∃ v, expo m1 v < expo m2 v ∧ ∀ u < v, expo m1 u = expo m2 u)) ∧
    (Term.cmp (Term.new m1) (Term.new m2) = .eq ↔ ∀ v, expo m1 v = expo m2 v) := by
  rw [cmp_lt_iff _ _ (new_normal m1) (new_normal m2), cmp_eq_iff _ _ (new_normal m1) (new_normal m2),
    new_eq_iff]
  unfold GLt LexLt
  simp only [degree_new, expo_new, and_true]

-- x_0·x_1 < x_0² (same degree, more weight on the lower variable is greater); degree first
example : Term.cmp [(0, 1), (1, 1)] [(0, 2)] = .lt := by decide +kernel
example : Term.cmp [(0, 3)] [(1, 2), (2, 2)] = .lt := by decide +kernel
example : Term.cmp [(1, 1)] [(2, 1)] = .gt := by decide +kernel
example : Term.Normal [(0, 1), (1, 1)] ∧ Term.Normal [(0, 2)] := by unfold Term.Normal; simp
-- normal forms are needed: a zero power makes two different lists compare equal
example : Term.cmp [(0, 1)] [(0, 1), (1, 0)] = .eq := by decide +kernel

/-! ### 16. `from_coefficients_vec` -/

/-- Constructor on normal-form terms (what the Rust API can be given, since `SparseTerm`s are only
    built by `SparseTerm::new`).  If every variable is `< nv` the result is `.ok p` with
    `p.numVars = nv`, `p` canonical (normal monomials, strictly `cmp`-ascending, variables `< nv`,
    no zero coefficient), the same coefficient for every monomial as the input list, and
    `evaluate p x = .ok (Σ c·Π x_v^e)` for `|x| ≥ nv` (`.panic` for shorter points).
    If some variable is `≥ nv` the constructor panics. -/
theorem from_coefficients_vec_exact {F : Type} [CommRing F] [DecidableEq F] (nv : Nat)
    (ts : List (F × Term)) (hN : ∀ ct ∈ ts, Term.Normal ct.2) :
    ((∀ ct ∈ ts, ∀ vp ∈ ct.2, vp.1 < nv) →
      ∃ p, MvPoly.fromCoefficientsVec nv ts = .ok p ∧ p.numVars = nv ∧ MvPoly.Canonical p ∧
        (∀ t, coeffOf p.terms t = coeffOf ts t) ∧
        (∀ x : List F, nv ≤ x.length → p.evaluate x = .ok (sumVal ts x)) ∧
        (∀ x : List F, x.length < nv → p.evaluate x = .panic)) ∧
    ((∃ ct ∈ ts, ∃ vp ∈ ct.2, nv ≤ vp.1) → MvPoly.fromCoefficientsVec nv ts = .panic) := by
  rw [fromCoefficientsVec_eq]
  constructor
  · intro hv
    have hc := canonTerms_canonical nv ts hN hv
    refine ⟨⟨nv, canonTerms ts⟩, if_pos hv, rfl, hc, canonTerms_coeffOf ts, fun x hx => ?_, fun x hx => ?_⟩
    · rw [canonical_evaluate _ hc.1, if_pos hx, canonTerms_sumVal]
    · rw [canonical_evaluate _ hc.1, if_neg (by simpa using hx)]
  · rintro ⟨ct, hct, vp, hvp, h⟩
    exact if_neg (fun h' => by have := h' ct hct vp hvp; omega)

/-- Constructor on ANY raw term list (duplicate monomials, zero coefficients, unordered / repeated
    variables, zero powers), each factor list going through `SparseTerm::new` as in the driver:
    the polynomial evaluates to the sum of its raw terms. -/
theorem from_raw_terms_exact {F : Type} [CommRing F] [DecidableEq F] (nv : Nat)
    (ts : List (F × List (Nat × Nat))) :
    ((∀ cm ∈ ts, ∀ vp ∈ cm.2, vp.2 = 0 ∨ vp.1 < nv) →
      ∃ p, MvPoly.fromCoefficientsVec nv (newTerms ts) = .ok p ∧ p.numVars = nv ∧
        MvPoly.Canonical p ∧
        (∀ t, coeffOf p.terms t = ((ts.filter (fun cm => decide (Term.new cm.2 = t))).map (·.1)).sum) ∧
        (∀ x : List F, nv ≤ x.length → p.evaluate x = .ok (sumVal ts x)) ∧
        (∀ x : List F, x.length < nv → p.evaluate x = .panic)) ∧
    ((∃ cm ∈ ts, ∃ vp ∈ cm.2, vp.2 ≠ 0 ∧ nv ≤ vp.1) →
      MvPoly.fromCoefficientsVec nv (newTerms ts) = .panic) := by
  obtain ⟨h1, h2⟩ := from_coefficients_vec_exact nv (newTerms ts) (newTerms_normal ts)
  constructor
  · intro hv
    obtain ⟨p, e1, e2, e3, e4, e5, e6⟩ := h1 ((newTerms_vars_iff ts nv).2 hv)
    refine ⟨p, e1, e2, e3, fun t => by rw [e4 t, newTerms_coeffOf], fun x hx => ?_, e6⟩
    rw [e5 x hx, newTerms_sumVal]
  · rintro ⟨cm, hcm, vp, hvp, h0, h⟩
    rw [fromCoefficientsVec_eq]
    refine if_neg (fun h' => ?_)
    rcases (newTerms_vars_iff ts nv).1 h' cm hcm vp hvp with h1 | h1 <;> omega

/-- what "canonical" says, spelled out -/
theorem canonical_iff {F : Type} [CommRing F] [DecidableEq F] (p : MvPoly F) :
    MvPoly.Canonical p ↔
      (∀ ct ∈ p.terms, Term.Normal ct.2) ∧
      p.terms.Pairwise (fun a b => Term.cmp a.2 b.2 = .lt) ∧
      (∀ ct ∈ p.terms, ∀ vp ∈ ct.2, vp.1 < p.numVars) ∧
      (∀ ct ∈ p.terms, ct.1 ≠ 0) :=
  ⟨fun h => ⟨h.1.normal, h.1.sorted, h.1.vars, h.2⟩, fun h => ⟨⟨h.1, h.2.1, h.2.2.1⟩, h.2.2.2⟩⟩

/-- in a well-formed polynomial the coefficient map is read off the stored pairs: every stored
    monomial carries its coefficient, every other monomial has coefficient 0 -/
theorem coeff_map_exact {F : Type} [CommRing F] [DecidableEq F] (p : MvPoly F) (hp : MvPoly.WF p) :
    (∀ ct ∈ p.terms, coeffOf p.terms ct.2 = ct.1) ∧
    (∀ t, (∀ ct ∈ p.terms, ct.2 ≠ t) → coeffOf p.terms t = 0) :=
  ⟨coeffOf_of_sorted p.terms hp.normal hp.sorted, fun t h => coeffOf_eq_zero p.terms t h⟩

/-- a canonical polynomial evaluates to `Σ c·Π x_v^e` over its stored terms iff `|x| ≥ numVars` -/
theorem evaluate_exact {F : Type} [CommRing F] [DecidableEq F] (p : MvPoly F) (hp : MvPoly.WF p)
    (x : List F) :
    (p.numVars ≤ x.length → p.evaluate x = .ok (sumVal p.terms x)) ∧
    (x.length < p.numVars → p.evaluate x = .panic) := by
  rw [canonical_evaluate p hp]
  exact ⟨fun h => if_pos h, fun h => if_neg (by omega)⟩

-- 3·x1²x0 + 2·x0x1·x1 + 4 + 0·x0 + 1 over 𝔽₅ : terms merge to 0·x0x1² (dropped) and the constant 0 (dropped)
example : MvPoly.fromCoefficientsVec 2 (newTerms [((3 : ZMod 5), [(1, 2), (0, 1)]),
      (2, [(0, 1), (1, 1), (1, 1)]), (4, []), (0, [(0, 1)]), (1, [(1, 0)])]) = .ok ⟨2, []⟩ := by
  decide +kernel
example : MvPoly.fromCoefficientsVec 3 (newTerms [((3 : ZMod 5), [(2, 1), (0, 1)]),
      (2, [(0, 3)]), (4, []), (1, [(0, 1), (2, 1)])]) =
      .ok ⟨3, [(4, []), (4, [(0, 1), (2, 1)]), (2, [(0, 3)])]⟩ := by decide +kernel
example : MvPoly.fromCoefficientsVec 2 (newTerms [((3 : ZMod 5), [(2, 1), (0, 1)])]) = .panic := by
  decide +kernel
example : (⟨3, [(4, []), (4, [(0, 1), (2, 1)]), (2, [(0, 3)])]⟩ : MvPoly (ZMod 5)).evaluate [2, 0, 3]
    = .ok 4 := by decide +kernel

/-! ### 17. operators -/

/-- `&a + &b`: canonical result with `numVars = max`, coefficientwise sum, pointwise evaluation
    (as outcomes: the sum panics iff one of the operands' evaluations panics). The operands only need
    to be well formed (`WF`), which canonical polynomials are. -/
theorem add_exact {F : Type} [CommRing F] [DecidableEq F] (s o : MvPoly F)
    (hs : MvPoly.WF s) (ho : MvPoly.WF o) :
    MvPoly.Canonical (s.add o) ∧ (s.add o).numVars = max s.numVars o.numVars ∧
    (∀ t, coeffOf (s.add o).terms t = coeffOf s.terms t + coeffOf o.terms t) ∧
    (∀ x : List F, (s.add o).evaluate x = oadd (s.evaluate x) (o.evaluate x)) :=
  ⟨add_canonical s o hs ho, rfl, add_coeffOf s o hs.normal ho.normal, add_evaluate s o hs ho⟩

/-- `&a - &b` -/
theorem sub_exact {F : Type} [CommRing F] [DecidableEq F] (s o : MvPoly F)
    (hs : MvPoly.WF s) (ho : MvPoly.WF o) :
    MvPoly.Canonical (s.sub o) ∧ (s.sub o).numVars = max s.numVars o.numVars ∧
    (∀ t, coeffOf (s.sub o).terms t = coeffOf s.terms t - coeffOf o.terms t) ∧
    (∀ x : List F, (s.sub o).evaluate x = osub (s.evaluate x) (o.evaluate x)) :=
  ⟨sub_canonical s o hs ho, rfl, sub_coeffOf s o hs.normal ho.normal, sub_evaluate s o hs ho⟩

/-- `Neg` -/
theorem neg_exact {F : Type} [CommRing F] [DecidableEq F] (p : MvPoly F) (hp : MvPoly.Canonical p) :
    MvPoly.Canonical p.neg ∧ p.neg.numVars = p.numVars ∧
    (∀ t, coeffOf p.neg.terms t = - coeffOf p.terms t) ∧
    (∀ x : List F, p.neg.evaluate x = oneg (p.evaluate x)) :=
  ⟨neg_canonical p hp, rfl, neg_coeffOf p, neg_evaluate p hp.1⟩

/-- `self += (f, &other)`: `self + f·other` -/
theorem add_scaled_exact {F : Type} [CommRing F] [DecidableEq F] (s : MvPoly F) (f : F) (o : MvPoly F)
    (hs : MvPoly.WF s) (ho : MvPoly.WF o) :
    MvPoly.Canonical (s.addScaled f o) ∧ (s.addScaled f o).numVars = max s.numVars o.numVars ∧
    (∀ t, coeffOf (s.addScaled f o).terms t = coeffOf s.terms t + f * coeffOf o.terms t) ∧
    (∀ x : List F, (s.addScaled f o).evaluate x = oaddScaled (s.evaluate x) f (o.evaluate x)) :=
  ⟨addScaled_canonical s f o hs ho, rfl, addScaled_coeffOf s f o hs.normal ho.normal,
    addScaled_evaluate s f o hs ho⟩

/-- the pointwise statements in plain form, for points long enough for both operands -/
theorem operators_pointwise {F : Type} [CommRing F] [DecidableEq F] (s o : MvPoly F) (f : F)
    (hs : MvPoly.WF s) (ho : MvPoly.WF o) (x : List F) (hx : max s.numVars o.numVars ≤ x.length) :
    ∃ a b, s.evaluate x = .ok a ∧ o.evaluate x = .ok b ∧
      (s.add o).evaluate x = .ok (a + b) ∧ (s.sub o).evaluate x = .ok (a - b) ∧
      s.neg.evaluate x = .ok (-a) ∧ (s.addScaled f o).evaluate x = .ok (a + f * b) := by
  have h1 : s.numVars ≤ x.length := by omega
  have h2 : o.numVars ≤ x.length := by omega
  refine ⟨sumVal s.terms x, sumVal o.terms x, ?_, ?_, ?_, ?_, ?_, ?_⟩
  · rw [canonical_evaluate s hs, if_pos h1]
  · rw [canonical_evaluate o ho, if_pos h2]
  · rw [add_evaluate s o hs ho, canonical_evaluate s hs, canonical_evaluate o ho, if_pos h1, if_pos h2]; rfl
  · rw [sub_evaluate s o hs ho, canonical_evaluate s hs, canonical_evaluate o ho, if_pos h1, if_pos h2]; rfl
  · rw [neg_evaluate s hs, canonical_evaluate s hs, if_pos h1]; rfl
  · rw [addScaled_evaluate s f o hs ho, canonical_evaluate s hs, canonical_evaluate o ho, if_pos h1,
      if_pos h2]; rfl

/-- `is_zero` of a canonical polynomial: no stored term; such a polynomial evaluates to `0`.
    (`is_zero p ↔ ∀ x, evaluate p x = 0` fails over finite fields: `x⁵ - x` over 𝔽₅.) -/
theorem is_zero_exact {F : Type} [CommRing F] [DecidableEq F] (p : MvPoly F) (hp : MvPoly.Canonical p) :
    (p.isZero = true ↔ p.terms = []) ∧
    (p.terms = [] → ∀ x : List F, p.numVars ≤ x.length → p.evaluate x = .ok 0) := by
  refine ⟨isZero_iff_of_canonical p hp, fun h x hx => ?_⟩
  rw [canonical_evaluate p hp.1, if_pos hx, h]; rfl

-- `x⁵ - x` over 𝔽₅ is not `is_zero` although it evaluates to 0 at every point
example : (⟨1, [(4, [(0, 1)]), (1, [(0, 5)])]⟩ : MvPoly (ZMod 5)).isZero = false ∧
    ∀ a : ZMod 5, (⟨1, [(4, [(0, 1)]), (1, [(0, 5)])]⟩ : MvPoly (ZMod 5)).evaluate [a] = .ok 0 := by
  decide +kernel

/-- `degree`: the maximum degree of the stored monomials (`0` without terms) -/
theorem degree_exact {F : Type} [CommRing F] [DecidableEq F] (p : MvPoly F) :
    (∀ ct ∈ p.terms, Term.degree ct.2 ≤ p.degree) ∧ (p.terms = [] → p.degree = 0) ∧
    (p.terms ≠ [] → ∃ ct ∈ p.terms, Term.degree ct.2 = p.degree) := degree_spec p

/-- `zero()` is canonical, is zero, has degree 0 -/
theorem zero_exact {F : Type} [CommRing F] [DecidableEq F] :
    MvPoly.Canonical (MvPoly.zero : MvPoly F) ∧ (MvPoly.zero : MvPoly F).isZero = true ∧
    (MvPoly.zero : MvPoly F).degree = 0 := by
  refine ⟨⟨⟨?_, ?_, ?_⟩, ?_⟩, rfl, rfl⟩ <;> simp [MvPoly.zero]

/-- non-vacuity: two canonical polynomials over 𝔽₅ (built by the constructor) and their sum,
    difference, scaled sum; cancellation drops terms -/
example : ∃ s o : MvPoly (ZMod 5), MvPoly.Canonical s ∧ MvPoly.Canonical o ∧
    s.terms ≠ [] ∧ o.terms ≠ [] ∧ s.numVars = 2 ∧ o.numVars = 3 ∧
    s.add o = ⟨3, [(1, [(0, 1)]), (1, [(2, 2)]), (3, [(1, 2)])]⟩ ∧
    s.sub o = ⟨3, [(2, []), (1, [(0, 1)]), (4, [(2, 2)])]⟩ ∧
    s.addScaled 2 o = ⟨3, [(4, []), (1, [(0, 1)]), (2, [(2, 2)]), (2, [(1, 2)])]⟩ ∧
    (s.add o).evaluate [1, 2, 3] = .ok 2 ∧ s.evaluate [1, 2, 3] = .ok 3 ∧
    o.evaluate [1, 2, 3] = .ok 4 ∧ (s.add o).evaluate [1, 2] = .panic ∧ (s.add o).degree = 2 := by
  refine ⟨⟨2, canonTerms (newTerms [(1, []), (1, [(0, 1)]), (4, [(1, 1), (1, 1)])])⟩,
    ⟨3, canonTerms (newTerms [(4, []), (4, [(1, 2)]), (1, [(2, 2)])])⟩,
    canonTerms_canonical _ _ (newTerms_normal _) ?_, canonTerms_canonical _ _ (newTerms_normal _) ?_,
    ?_⟩
  · rw [newTerms_vars_iff]; decide +kernel
  · rw [newTerms_vars_iff]; decide +kernel
  · decide +kernel

example : (⟨1, [((1 : ZMod 5), [(0, 1)])]⟩ : MvPoly (ZMod 5)).isZero = false := by decide +kernel

end Ark.C17
