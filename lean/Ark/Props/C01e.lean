import Ark.Proofs.MontE
/-
  Property C01 (part E) — the configuration constants of the Montgomery backend
  (`INV`, `R`, `R2`, `MODULUS_HAS_SPARE_BIT`, `CAN_USE_NO_CARRY_MUL_OPT`), computed by
  `Ark.Mont.mkCfg` exactly as the Rust code computes them
  (`inv::<T,N>()`, `const_modulo!`, `montgomery_r`, `montgomery_r2` in
  ff/src/fields/models/fp/montgomery_backend.rs and ff/src/const_helpers.rs), are what they
  should be for EVERY limb count `n ≥ 1` and every odd modulus `1 < pv < 2^(64n)`.
  Helper lemmas are in Ark/Proofs/MontE.lean.
-/
namespace Ark.C01
open Ark Ark.Mont

/-! ### 1. INV -/

/-- `k` rounds of the square-and-multiply loop starting from `1` compute `m0^(2^k - 1) mod 2^64`. -/
theorem inv_loop_exact (m0 k : Nat) : invLoop m0 k 1 = m0 ^ (2 ^ k - 1) % B :=
  invLoop_one m0 k

/-- for every odd `m0` (in particular every odd `u64`): `INV < 2^64` and `INV · m0 ≡ -1 (mod 2^64)`.
    (The hypothesis `m0 < B` of the requested statement is not needed.) -/
theorem compute_inv_exact (m0 : Nat) (hodd : m0 % 2 = 1) :
    computeInv m0 < B ∧ (computeInv m0 * m0 + 1) % B = 0 :=
  ⟨computeInv_lt m0, computeInv_spec m0 hodd⟩

example : computeInv 13 = 12770822820260458811 := by decide +kernel
example : (mkCfg true 1 13).inv = 12770822820260458811 := by decide +kernel
example : (12770822820260458811 * 13 + 1) % B = 0 := by decide +kernel
example : 13 % 2 = 1 := by decide
/-- a full-width low limb -/
example : computeInv (B - 59) = 14694863923124558067 := by decide +kernel

/-! ### 2. const_modulo!, R, R2 -/

/-- `const_modulo!`: starting from a reduced remainder `rem < p < w`, feeding the big-endian
    bits `bits` yields `(rem · 2^|bits| + value(bits)) mod p` — for every register width `w`,
    including moduli without a spare bit (where `2·rem` overflows the register). -/
theorem const_modulo_exact (w p : Nat) (hp : p < w) (bits : List Bool) (rem : Nat) (hrem : rem < p) :
    constModuloLoop w p bits rem = (rem * 2 ^ bits.length + bitsValueBE bits) % p :=
  constModuloLoop_spec w p hp bits rem hrem

/-- non-vacuity: `w = 16`, `p = 13` (no spare bit: `2·13 ≥ 16`), `rem = 7`, bits `1011` -/
example : constModuloLoop 16 13 [true, false, true, true] 7 = 6 := by decide +kernel
example : (7 * 2 ^ 4 + bitsValueBE [true, false, true, true]) % 13 = 6 := by decide +kernel
example : 13 < 16 ∧ 7 < 13 := by decide

/-- `R = 2^(64N) mod p` for every `0 < p < 2^(64N)`. -/
theorem montgomery_r_exact (n pv : Nat) (h0 : 0 < pv) (hlt : pv < B ^ n) :
    montgomeryR n pv = B ^ n % pv :=
  montgomeryR_eq n pv h0 hlt

/-- `R2 = 2^(128N) mod p` for every `0 < p < 2^(64N)`. -/
theorem montgomery_r2_exact (n pv : Nat) (h0 : 0 < pv) (hlt : pv < B ^ n) :
    montgomeryR2 n pv = (B ^ n * B ^ n) % pv :=
  montgomeryR2_eq n pv h0 hlt

/-- non-vacuity: the largest 64-bit prime (no spare bit), and a two-limb modulus without spare bit -/
example : montgomeryR 1 (2 ^ 64 - 59) = 59 := by decide +kernel
example : montgomeryR2 1 (2 ^ 64 - 59) = 3481 := by decide +kernel
example : 0 < 2 ^ 64 - 59 ∧ 2 ^ 64 - 59 < B ^ 1 := by decide +kernel
example : montgomeryR 2 (2 ^ 128 - 159) = 159 := by decide +kernel
example : montgomeryR2 2 (2 ^ 128 - 159) = 25281 := by decide +kernel
example : montgomeryR 2 (2 ^ 127 - 1) = 2 := by decide +kernel

/-! ### 3. mkCfg -/

/-- `MODULUS_HAS_SPARE_BIT` (the test `MODULUS.0[N-1] >> 63 == 0`) holds iff `2·p < 2^(64N)`. -/
theorem spare_bit_iff (derived : Bool) (n pv : Nat) (hn : 0 < n) (hlt : pv < B ^ n) :
    (mkCfg derived n pv).spare = true ↔ 2 * pv < B ^ n :=
  spare_test_iff n pv hn hlt

example : (mkCfg true 2 (2 ^ 127 - 1)).spare = true := by decide +kernel
example : (mkCfg true 2 (2 ^ 128 - 159)).spare = false := by decide +kernel

/-- both flavours of `CAN_USE_NO_CARRY_MUL_OPT` (derive macro and trait default) imply
    `MODULUS_HAS_SPARE_BIT` — for all `n`, `pv`. -/
theorem no_carry_implies_spare (derived : Bool) (n pv : Nat) :
    (mkCfg derived n pv).noCarry = true → (mkCfg derived n pv).spare = true :=
  mkCfg_noCarry_spare derived n pv

example : (mkCfg true 1 13).noCarry = true ∧ (mkCfg false 1 13).noCarry = true := by decide +kernel
/-- `2^127 - 1`: spare bit, but top limb `= u64::MAX >> 1` and all lower limbs `MAX`: no no-carry opt -/
example : (mkCfg true 2 (2 ^ 127 - 1)).noCarry = false ∧
    (mkCfg false 2 (2 ^ 127 - 1)).noCarry = false := by decide +kernel

/-- **all configuration constants are correct**: for `n ≥ 1` limbs and an odd modulus
    `1 < pv < 2^(64n)`, `mkCfg derived n pv` (either flavour) is a consistent configuration:
    limbs of `pv`, `INV·pv ≡ -1 (mod 2^64)`, `R = 2^(64n) mod pv`, `R2 = 2^(128n) mod pv`,
    spare-bit flag `↔ 2·pv < 2^(64n)`, no-carry flag `→` spare-bit flag. -/
theorem mk_cfg_ok (derived : Bool) (n pv : Nat) (hn : 0 < n) (hodd : pv % 2 = 1)
    (h1 : 1 < pv) (hlt : pv < B ^ n) : CfgOK (mkCfg derived n pv) pv :=
  mkCfg_ok derived n pv hn hodd h1 hlt

/-- non-vacuity: hypotheses hold for `n = 1, pv = 13` and for `n = 2, pv = 2^128 - 159` -/
example : 0 < 1 ∧ 13 % 2 = 1 ∧ 1 < 13 ∧ 13 < B ^ 1 := by decide +kernel
example : 0 < 2 ∧ (2 ^ 128 - 159) % 2 = 1 ∧ 1 < 2 ^ 128 - 159 ∧ 2 ^ 128 - 159 < B ^ 2 := by
  decide +kernel
example : (mkCfg false 2 (2 ^ 128 - 159)).p = [B - 159, B - 1] ∧
    (mkCfg false 2 (2 ^ 128 - 159)).inv = 13109950190749555551 ∧
    (mkCfg false 2 (2 ^ 128 - 159)).r = [159, 0] ∧
    (mkCfg false 2 (2 ^ 128 - 159)).r2 = [25281, 0] := by decide +kernel

end Ark.C01
