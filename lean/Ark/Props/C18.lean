import Ark.Proofs.Serial
/-
  Ark.Props.C18 — containers, wrappers and derived (de)serialisation of `ark-serialize`
  (model: `Ark.Model.Serial`, executable spec: `Ark.Model.DrvC18`).

  T1  reported size = bytes written (every mode)
  T2  round trip (T2b without `check`, T2c refusal of invalid values, T2' the exact characterisation)
  T3  no panic / no abort / hang only on zero-width element loops
  T4  truncation ⇒ `IoError`
  T5  malformed bool / UTF-8 ⇒ `InvalidData`
  T6  allocation bound
  T7  canonicity and well-typedness of decoded values
  T8  the unread rest is a suffix of the input
  T9  pins fix the modes, wrappers are transparent
  T10 derive = tuple
  T11 `BTreeMap` / `BTreeSet` construction and the order on values
-/
namespace Ark.C18
open Ark.Serial

/-- the limits of the harness' child process (`DrvC18.limits`) -/
def Lx : Limits := { mem := 2 ^ 30, steps := 2 ^ 16 }

/-- a derived struct with a syntactic tuple field (flattened by the macro), an option of the
    mode-sensitive leaf and a vector -/
def tyS : Ty := .struct [.tup [.int .u16, .bool], .opt .ml, .vec 2 (.int .i16)]
def valS : Val := .seq [.seq [.int 513, .bool true], .some (.int 7), .seq [.int (-2)]]
def bytesS : List Nat := [1, 2, 1, 1, 7, 248, 1, 0, 0, 0, 0, 0, 0, 0, 254, 255]

def tyV : Ty := .vec 1 (.int .u8)
def valV : Val := .seq [.int 1, .int 2]
def bytesV : List Nat := [2, 0, 0, 0, 0, 0, 0, 0, 1, 2]

/-- a map with a set as value, under a `CompressedChecked` pin -/
def tyM : Ty := .pin .cc (.map (.int .u8) (.set .ml))
def valM : Val := .seq [.seq [.int 1, .seq [.int 3, .int 4]], .seq [.int 2, .seq []]]
def bytesM : List Nat :=
  [2, 0, 0, 0, 0, 0, 0, 0, 1, 2, 0, 0, 0, 0, 0, 0, 0, 3, 4, 2, 0, 0, 0, 0, 0, 0, 0, 0]

/-! ## T1 -/

/-- T1: `serialized_size` equals the number of bytes `serialize_with_mode` writes, in each mode -/
theorem size_eq_written (t : Ty) (c : Compress) (v : Val) (bs : List Nat)
    (h : encode t c v = some bs) : size t c v = bs.length :=
  size_eq_length t c v bs h

theorem sizeTup_eq_written (ts : List Ty) (c : Compress) (vs : List Val) (bs : List Nat)
    (h : encodeTup ts c vs = some bs) : sizeTup ts c vs = bs.length :=
  sizeTup_eq_length ts c vs bs h

theorem sizeFields_eq_written (fs : List Ty) (c : Compress) (vs : List Val) (bs : List Nat)
    (h : encodeFields fs c vs = some bs) : sizeFields fs c vs = bs.length :=
  sizeFields_eq_length fs c vs bs h

example : encode tyS .no valS = some bytesS ∧ size tyS .no valS = 16 := by decide +kernel
example : encode tyV .yes valV = some bytesV ∧ size tyV .yes valV = 10 := by decide +kernel
example : encode tyM .no valM = some bytesM ∧ size tyM .no valM = 28 := by decide +kernel

/-! ## T2 -/

/-- T2 (exact form): the serialisation of `v` deserialises to `v`, consuming exactly the encoding,
    in validation mode `vd` whenever `v` passes what that mode validates (`vcheck`).
    `fits`: every sequence length is `< 2^64` and no loop over zero-width elements exceeds
    `L.steps`.  Memory: the pre-allocations (≤ 4096 bytes each, at most one per 8 bytes read) fit. -/
theorem roundtrip_vcheck (L : Limits) (t : Ty) (c : Compress) (vd : Validate) (v : Val) (bs : List Nat)
    (he : encode t c v = some bs) (hf : fits L t v = true) (hv : vcheck t vd v = true)
    (rest : List Nat) (e : List Ev) (hm : usedEv e + 512 * bs.length ≤ L.mem) :
    ∃ evs, decode L t c vd ⟨bs ++ rest, e⟩ = .ok v ⟨rest, e ++ evs⟩ ∧ usedEv evs ≤ 512 * bs.length :=
  (rtt_decode L t c vd v bs he hf hv).rt rest e hm

/-- T2: a value that passes `check()` is read back in every validation mode -/
theorem roundtrip (L : Limits) (t : Ty) (c : Compress) (v : Val) (bs : List Nat)
    (he : encode t c v = some bs) (hc : check t v = true) (hf : fits L t v = true)
    (vd : Validate) (rest : List Nat) (e : List Ev) (hm : usedEv e + 512 * bs.length ≤ L.mem) :
    ∃ evs, decode L t c vd ⟨bs ++ rest, e⟩ = .ok v ⟨rest, e ++ evs⟩ :=
  let ⟨evs, h, _⟩ := roundtrip_vcheck L t c vd v bs he hf (vcheck_of_check t vd v hc) rest e hm
  ⟨evs, h⟩

/-- T2b: without `check()`, under `Validate::No`, for types without `…Checked` pins -/
theorem roundtrip_unchecked (L : Limits) (t : Ty) (c : Compress) (v : Val) (bs : List Nat)
    (he : encode t c v = some bs) (hp : noValPin t = true) (hf : fits L t v = true)
    (rest : List Nat) (e : List Ev) (hm : usedEv e + 512 * bs.length ≤ L.mem) :
    ∃ evs, decode L t c .no ⟨bs ++ rest, e⟩ = .ok v ⟨rest, e ++ evs⟩ :=
  let ⟨evs, h, _⟩ := roundtrip_vcheck L t c .no v bs he hf (vcheck_no t v hp) rest e hm
  ⟨evs, h⟩

/-- T2c (exact form): a value that fails the validation of mode `vd` is refused with `InvalidData` -/
theorem invalid_refused_vcheck (L : Limits) (t : Ty) (c : Compress) (vd : Validate) (v : Val)
    (bs : List Nat) (he : encode t c v = some bs) (hf : fits L t v = true)
    (hv : vcheck t vd v = false)
    (rest : List Nat) (e : List Ev) (hm : usedEv e + 512 * bs.length ≤ L.mem) :
    ∃ s', decode L t c vd ⟨bs ++ rest, e⟩ = .fail (.err .invalid) s' :=
  inv_decode L t c vd v bs he hf hv rest e hm

/-- T2c: a value that fails `check()` is refused under `Validate::Yes` (types without
    `…Unchecked` pins, which switch validation off) -/
theorem invalid_refused (L : Limits) (t : Ty) (c : Compress) (v : Val) (bs : List Nat)
    (he : encode t c v = some bs) (hc : check t v = false) (hp : noUncheckedPin t = true)
    (hf : fits L t v = true)
    (rest : List Nat) (e : List Ev) (hm : usedEv e + 512 * bs.length ≤ L.mem) :
    ∃ s', decode L t c .yes ⟨bs ++ rest, e⟩ = .fail (.err .invalid) s' := by
  refine invalid_refused_vcheck L t c .yes v bs he hf ?_ rest e hm
  cases h : vcheck t .yes v with
  | false => rfl
  | true => rw [check_of_vcheck_yes t v hp h] at hc; cases hc

example : encode tyS .no valS = some bytesS ∧ check tyS valS = true ∧ fits Lx tyS valS = true ∧
    usedEv [] + 512 * bytesS.length ≤ Lx.mem := by decide +kernel
example : encode tyM .no valM = some bytesM ∧ check tyM valM = true ∧ fits Lx tyM valM = true ∧
    usedEv [] + 512 * bytesM.length ≤ Lx.mem := by decide +kernel
example : noValPin tyS = true ∧ noUncheckedPin tyS = true ∧ noValPin tyM = false := by decide +kernel
example : ∃ evs, decode Lx tyS .no .yes ⟨bytesS ++ [9, 9], []⟩ = .ok valS ⟨[9, 9], [] ++ evs⟩ :=
  roundtrip Lx tyS .no valS bytesS (by decide +kernel) (by decide +kernel) (by decide +kernel)
    .yes [9, 9] [] (by decide +kernel)
/-- `0xEE` is the invalid leaf: readable without validation, refused with it -/
example : encode (.vec 1 .ml) .yes (.seq [.int 5, .int 0xEE]) = some [2, 0, 0, 0, 0, 0, 0, 0, 5, 0xEE] ∧
    check (.vec 1 .ml) (.seq [.int 5, .int 0xEE]) = false ∧ noValPin (.vec 1 .ml) = true ∧
    noUncheckedPin (.vec 1 .ml) = true ∧ fits Lx (.vec 1 .ml) (.seq [.int 5, .int 0xEE]) = true := by
  decide +kernel
example : (decode Lx (.vec 1 .ml) .yes .yes ⟨[2, 0, 0, 0, 0, 0, 0, 0, 5, 0xEE], []⟩).failure =
    some (.err .invalid) := by decide +kernel
/-- the hypothesis on pins is needed: under `CompressedUnchecked` the invalid leaf is accepted even
    with `Validate::Yes` -/
example : (decode Lx (.pin .cu .ml) .yes .yes ⟨[0xEE], []⟩).failure = none := by decide +kernel

/-! ## T3 -/

/-- T3 (lemma): a capped pre-allocation never exceeds `MAX_PREALLOCATION_BYTES` -/
theorem capped_le (esz len : Nat) : cappedCapacity esz len * esz ≤ 4096 :=
  cappedCapacity_mul_le esz len

/-- T3: deserialisation never panics, whatever the type, modes and input -/
theorem no_panic (L : Limits) (t : Ty) (c : Compress) (vd : Validate) (s s' : St)
    (h : decode L t c vd s = .fail .panic s') : False :=
  ((safe_decode L t c vd s).2 _ _ h).1 rfl

/-- T3: no allocation failure when the memory limit is at least `512·|input|` above what is in
    use (one pre-allocation of ≤ 4096 bytes per 8-byte length prefix) -/
theorem no_abort (L : Limits) (t : Ty) (c : Compress) (vd : Validate) (s s' : St)
    (hm : s.used + 512 * s.inp.length ≤ L.mem) (h : decode L t c vd s = .fail .abort s') : False := by
  have := ((safe_decode L t c vd s).2 _ _ h).2.1 rfl
  omega

/-- T3 in the requested form -/
theorem no_panic_no_abort (L : Limits) (t : Ty) (c : Compress) (vd : Validate) (bs : List Nat)
    (hm : 4096 * bs.length + 4096 ≤ L.mem) (f : Fail) (s' : St)
    (h : decode L t c vd ⟨bs, []⟩ = .fail f s') : f ≠ .panic ∧ f ≠ .abort := by
  constructor
  · rintro rfl; exact no_panic L t c vd _ _ h
  · rintro rfl
    exact no_abort L t c vd ⟨bs, []⟩ s' (by simp only [St.used_eq, usedEv_nil]; omega) h

/-- T3: a hang is a loop over zero-width elements (`zwLoop t`) whose trip count, the 8-byte length
    prefix just before the unread input, exceeds `L.steps` -/
theorem hang_only_zero_width (L : Limits) (t : Ty) (c : Compress) (vd : Validate) (s s' : St)
    (h : decode L t c vd s = .fail .hang s') :
    zwLoop t = true ∧ ∃ pre l8, s.inp = pre ++ l8 ++ s'.inp ∧ l8.length = 8 ∧ L.steps < leValue l8 :=
  ((safe_decode L t c vd s).2 _ _ h).2.2 rfl

/-- an oversized length prefix: 4096 elements pre-allocated, then `IoError` -/
example : (decode Lx tyV .yes .yes ⟨[255, 255, 255, 255, 255, 255, 255, 127, 1], []⟩).failure =
      some (.err .io) ∧
    (decode Lx tyV .yes .yes ⟨[255, 255, 255, 255, 255, 255, 255, 127, 1], []⟩).st.evs =
      [⟨4096, 1, 1⟩] := by decide +kernel
/-- the hang outcome exists: `Vec<()>` with a prefix above `steps` -/
example : (decode Lx (.vec 0 .phantom) .yes .yes ⟨[1, 0, 1, 0, 0, 0, 0, 0], []⟩).failure =
    some .hang ∧ zwLoop (.vec 0 .phantom) = true := by decide +kernel
/-- the abort outcome exists when memory is short -/
example : (decode ⟨100, 10⟩ tyV .yes .yes ⟨[255, 255, 0, 0, 0, 0, 0, 0], []⟩).failure =
    some .abort := by decide +kernel

/-! ## T4 -/

/-- T4: every strict prefix of a valid encoding is refused with `IoError` -/
theorem truncation (L : Limits) (t : Ty) (c : Compress) (vd : Validate) (v : Val) (bs : List Nat)
    (he : encode t c v = some bs) (hf : fits L t v = true) (hv : vcheck t vd v = true)
    (p q : List Nat) (hb : bs = p ++ q) (hq : q ≠ []) (e : List Ev)
    (hm : usedEv e + 512 * bs.length ≤ L.mem) :
    ∃ s', decode L t c vd ⟨p, e⟩ = .fail (.err .io) s' :=
  (rtt_decode L t c vd v bs he hf hv).tr p q e hb hq hm

theorem truncation_checked (L : Limits) (t : Ty) (c : Compress) (vd : Validate) (v : Val)
    (bs : List Nat) (he : encode t c v = some bs) (hc : check t v = true) (hf : fits L t v = true)
    (p q : List Nat) (hb : bs = p ++ q) (hq : q ≠ []) (e : List Ev)
    (hm : usedEv e + 512 * bs.length ≤ L.mem) :
    ∃ s', decode L t c vd ⟨p, e⟩ = .fail (.err .io) s' :=
  truncation L t c vd v bs he hf (vcheck_of_check t vd v hc) p q hb hq e hm

example : bytesS = bytesS.take 11 ++ bytesS.drop 11 ∧ bytesS.drop 11 ≠ [] := by decide +kernel
example : (decode Lx tyS .no .yes ⟨bytesS.take 11, []⟩).failure = some (.err .io) := by
  decide +kernel

/-! ## T5 -/

/-- T5: a bool byte other than 0 / 1 is `InvalidData` -/
theorem bool_malformed (L : Limits) (c : Compress) (vd : Validate) (b : Nat) (rest : List Nat)
    (e : List Ev) (hb : b ≥ 2) :
    decode L .bool c vd ⟨b :: rest, e⟩ = .fail (.err .invalid) ⟨rest, e⟩ :=
  decode_bool_bad L c vd b rest e hb

/-- T5: a `String` whose bytes are not UTF-8 is `InvalidData` (after the capped pre-allocation) -/
theorem str_malformed (L : Limits) (c : Compress) (vd : Validate) (n : Nat) (s rest : List Nat)
    (e : List Ev) (hs : s.length = n) (hn : n < 2 ^ 64) (hu : utf8Valid s = false)
    (hm : usedEv e + 4096 ≤ L.mem) :
    ∃ s', decode L .str c vd ⟨leBytes 8 n ++ s ++ rest, e⟩ = .fail (.err .invalid) s' :=
  ⟨_, decode_str_bad L c vd n s rest e hs hn hu hm⟩

example : utf8Valid [0xC3, 0x28] = false ∧ utf8Valid [0xC3, 0xA9] = true := by decide +kernel
example : (decode Lx .str .yes .no ⟨leBytes 8 2 ++ [0xC3, 0x28] ++ [1], []⟩).failure =
    some (.err .invalid) := by decide +kernel

/-! ## T6 -/

/-- T6: every allocation event requests at most 4096 bytes and at most as many elements as the
    8-byte length prefix (located right before the `rem` unread bytes) announces -/
theorem alloc_bounded (L : Limits) (t : Ty) (c : Compress) (vd : Validate) (bs : List Nat)
    (ev : Ev) (h : ev ∈ (decode L t c vd ⟨bs, []⟩).st.evs) :
    ev.n * ev.esz ≤ 4096 ∧
    ∃ pre l8 post, bs = pre ++ l8 ++ post ∧ l8.length = 8 ∧ post.length = ev.rem ∧
      ev.n ≤ leValue l8 := by
  obtain ⟨evs, he, hok⟩ := (safe_decode L t c vd ⟨bs, []⟩).1.evs
  rw [he] at h
  exact hok ev (by simpa using h)

/-- T6, as the executable spec states it (`Ev.bounded 64 4096`) -/
theorem alloc_bounded_spec (L : Limits) (t : Ty) (c : Compress) (vd : Validate) (bs : List Nat)
    (ev : Ev) (h : ev ∈ (decode L t c vd ⟨bs, []⟩).st.evs) : ev.bounded 64 4096 = true := by
  have := (alloc_bounded L t c vd bs ev h).1
  simp only [Ev.bounded, Ev.bytes]; exact decide_eq_true (by omega)

example : (decode Lx (.vec 8 (.vec 1 (.int .u8))) .yes .no
    ⟨[2, 0, 0, 0, 0, 0, 0, 0, 1, 0, 0, 0, 0, 0, 0, 0, 7, 255, 255, 255, 255, 0, 0, 0, 0], []⟩).st.evs =
    [⟨2, 8, 17⟩, ⟨1, 1, 9⟩, ⟨4096, 1, 0⟩] := by decide +kernel

/-! ## T7 -/

/-- T7: for a type with a unique encoding, an accepted input (of bytes) is the encoding of the
    returned value followed by the unread rest -/
theorem canonical_reencode (L : Limits) (t : Ty) (c : Compress) (vd : Validate) (s s' : St) (v : Val)
    (hc : canonical t = true) (hb : ∀ b ∈ s.inp, b < 256) (h : decode L t c vd s = .ok v s') :
    ∃ pre, s.inp = pre ++ s'.inp ∧ encode t c v = some pre := by
  obtain ⟨pre, e, _, hh⟩ := cw_decode L t c vd s v s' hb h
  exact ⟨pre, e, hh hc⟩

/-- T7: every returned value is a value of the type (integers in range, arrays of the right
    length, valid UTF-8, maps and sets strictly ascending) -/
theorem decoded_well_typed (L : Limits) (t : Ty) (c : Compress) (vd : Validate) (s s' : St) (v : Val)
    (hb : ∀ b ∈ s.inp, b < 256) (h : decode L t c vd s = .ok v s') : (encode t c v).isSome = true := by
  obtain ⟨pre, _, hw, _⟩ := cw_decode L t c vd s v s' hb h
  exact hw

example : canonical tyS = true ∧ canonical tyM = false ∧ (∀ b ∈ bytesS ++ [77], b < 256) := by
  decide +kernel
example : (decode Lx tyS .no .yes ⟨bytesS ++ [77], []⟩).value.map (fun v => encode tyS .no v) =
      some (some bytesS) ∧
    (decode Lx tyS .no .yes ⟨bytesS ++ [77], []⟩).st.inp = [77] := by decide +kernel
/-- the hypothesis "input made of bytes" is needed: the model's input alphabet is `Nat` -/
example : ((decode Lx (.int .u8) .yes .yes ⟨[300], []⟩).value.map
      (fun v => encode (.int .u8) .yes v)) = some none := by decide +kernel
/-- `BigUint` is not canonical: a trailing zero byte is accepted and dropped -/
example : ((decode Lx .big .yes .yes ⟨[2, 0, 0, 0, 0, 0, 0, 0, 5, 0], []⟩).value.map
      (fun v => encode .big .yes v)) = some (some [1, 0, 0, 0, 0, 0, 0, 0, 5]) := by decide +kernel
/-- a set given out of order with a repeated element is accepted and re-encodes sorted -/
example : ((decode Lx (.set (.int .u8)) .yes .yes ⟨[3, 0, 0, 0, 0, 0, 0, 0, 9, 4, 9], []⟩).value.map
      (fun v => encode (.set (.int .u8)) .yes v)) = some (some [2, 0, 0, 0, 0, 0, 0, 0, 4, 9]) := by
  decide +kernel

/-! ## T8 -/

/-- T8: the unread rest is a suffix of the input (on success and on failure) -/
theorem rest_is_suffix (L : Limits) (t : Ty) (c : Compress) (vd : Validate) (s : St) :
    ∃ pre, s.inp = pre ++ (decode L t c vd s).st.inp :=
  (safe_decode L t c vd s).1.suf

theorem ok_rest_is_suffix (L : Limits) (t : Ty) (c : Compress) (vd : Validate) (bs : List Nat)
    (e : List Ev) (v : Val) (s' : St) (h : decode L t c vd ⟨bs, e⟩ = .ok v s') :
    ∃ pre, bs = pre ++ s'.inp := by
  have := rest_is_suffix L t c vd ⟨bs, e⟩
  rw [h] at this; exact this

/-- events are only appended -/
theorem events_appended (L : Limits) (t : Ty) (c : Compress) (vd : Validate) (s : St) :
    ∃ evs, (decode L t c vd s).st.evs = s.evs ++ evs :=
  let ⟨evs, h, _⟩ := (safe_decode L t c vd s).1.evs
  ⟨evs, h⟩

/-! ## T9 -/

/-- T9: a pin fixes the compression mode of `serialize`, `serialized_size` and both modes of
    `deserialize`; `check` is not affected -/
theorem pin_fixes_modes (L : Limits) (p : Pin) (t : Ty) (c : Compress) (vd : Validate) (v : Val) :
    encode (.pin p t) c v = encode t p.compress v ∧ size (.pin p t) c v = size t p.compress v ∧
    decode L (.pin p t) c vd = decode L t p.compress p.validate ∧ check (.pin p t) v = check t v :=
  ⟨encode_pin p t c v, size_pin p t c v, decode_pin L p t c vd, check_pin p t v⟩

/-- T9: `Rc` / `Arc` / `Cow` / references serialise like their content -/
theorem wrap_transparent (L : Limits) (w : Wrap) (t : Ty) (c : Compress) (vd : Validate) (v : Val) :
    encode (.wrap w t) c v = encode t c v ∧ size (.wrap w t) c v = size t c v ∧
    decode L (.wrap w t) c vd = decode L t c vd ∧ check (.wrap w t) v = check t v :=
  ⟨encode_wrap w t c v, size_wrap w t c v, decode_wrap L w t c vd, check_wrap w t v⟩

/-- the pin is observable: the two modes of the leaf differ -/
example : encode (.pin .uu .ml) .yes (.int 7) = some [7, 248] ∧ encode .ml .yes (.int 7) = some [7] := by
  decide +kernel

/-! ## T10 -/

/-- T10: the derive macro (with its syntactic flattening of tuple fields) is the tuple impl -/
theorem derive_eq_tuple (L : Limits) (fs : List Ty) (c : Compress) (vd : Validate) (vs : List Val) :
    encodeFields fs c vs = encodeTup fs c vs ∧ decodeFields L fs c vd = decodeTup L fs c vd ∧
    sizeFields fs c vs = sizeTup fs c vs ∧ checkFields fs vs = checkTup fs vs :=
  ⟨encodeFields_eq fs c vs, decodeFields_eq L fs c vd, sizeFields_eq fs c vs, checkFields_eq fs vs⟩

example : encodeFields [.tup [.int .u16, .bool], .opt .ml] .no [.seq [.int 513, .bool true], .some (.int 7)]
    = some [1, 2, 1, 1, 7, 248] := by decide +kernel

/-! ## T11 -/

/-- T11: `Val.cmp` is a total order on the values of one type: reflexive, antisymmetric
    (`cmp b a` is `cmp a b` swapped), `eq` only between equal values, transitive -/
theorem cmp_total_order (t : Ty) :
    (∀ a, Val.cmp a a = .eq) ∧
    (∀ a b, Val.cmp b a = oswap (Val.cmp a b)) ∧
    (∀ a b, WT t a → WT t b → Val.cmp a b = .eq → a = b) ∧
    (∀ a b c, WT t a → WT t b → WT t c → Val.cmp a b = .lt → Val.cmp b c = .lt → Val.cmp a c = .lt) :=
  ⟨Val.cmp_refl, Val.cmp_swap, (ordOn_WT t).eq_imp, (ordOn_WT t).trans⟩

/-- T11: `from_iter` yields strictly ascending keys -/
theorem fromIter_sorted (t : Ty) (key : Val → Val) (es : List Val) (hw : ∀ x ∈ es, WT t (key x)) :
    sortedBy key (fromIter key es) = true :=
  sortedBy_fromIter (ordOn_WT t) key es hw

/-- T11: `from_iter` keeps exactly, for each key, the last entry carrying it; together with
    `fromIter_sorted` this determines the result: the stable sort by key followed by de-duplication
    with the last entry winning -/
theorem fromIter_last_wins (t : Ty) (key : Val → Val) (es : List Val) (hw : ∀ x ∈ es, WT t (key x))
    (y : Val) :
    y ∈ fromIter key es ↔
      ∃ l1 l2, es = l1 ++ y :: l2 ∧ ∀ z ∈ l2, Val.cmp (key z) (key y) ≠ .eq :=
  mem_fromIter (ordOn_WT t) key es hw y

/-- T11: conversely any strictly ascending list keeping for each key the last entry *is*
    `from_iter es` — in particular the stable sort of `es` by key followed by de-duplication with the
    last entry winning -/
theorem fromIter_unique' (t : Ty) (key : Val → Val) (es l : List Val) (hw : ∀ x ∈ es, WT t (key x))
    (hs : sortedBy key l = true)
    (hm : ∀ y, y ∈ l ↔ ∃ l1 l2, es = l1 ++ y :: l2 ∧ ∀ z ∈ l2, Val.cmp (key z) (key y) ≠ .eq) :
    l = fromIter key es :=
  fromIter_unique (ordOn_WT t) key es l hw hs hm

/-- T11: a `BTreeMap` / `BTreeSet` iteration order is a fixed point -/
theorem fromIter_fixed (t : Ty) (key : Val → Val) (es : List Val) (hw : ∀ x ∈ es, WT t (key x))
    (hs : sortedBy key es = true) : fromIter key es = es :=
  fromIter_of_sorted (ordOn_WT t) key es hw hs

example : Val.eqbList (fromIter entryKey [.seq [.int 3, .bool true], .seq [.int 1, .bool true],
      .seq [.int 3, .bool false], .seq [.int 2, .bool true]])
    [.seq [.int 1, .bool true], .seq [.int 2, .bool true], .seq [.int 3, .bool false]] = true := by
  decide +kernel
/-- the typing hypothesis of T11 is needed: on values of different shapes `cmp` is not transitive -/
example : Val.cmp (.seq [.int 1]) (.seq [.bool true, .int 5]) = .lt ∧
    Val.cmp (.seq [.bool true, .int 5]) (.seq [.int 0, .int 6]) = .lt ∧
    Val.cmp (.seq [.int 1]) (.seq [.int 0, .int 6]) = .gt := by decide +kernel

end Ark.C18
