import Ark.Proofs.SurfaceA
/-
  Property C15 (part c) — the API-surface operations of `BigInt<N>` that parts a/b did not cover
  (`ff/src/biginteger/mod.rs`, modelled at the top of `Ark/Model/DrvC15.lean`): the bitwise
  operators, the run-time `const fn`s (`const_is_even`, `mod_4`, `const_shr`,
  `divide_by_2_round_down`, `const_num_bits`, `two_adic_valuation`, `two_adic_coefficient`,
  `montgomery_r`, `montgomery_r2`), `CanonicalSerialize`/`CanonicalDeserialize`, `From<u*>` and
  `TryFrom<BigUint>`.  A `BigInt<N>` is a well-formed (`WF`) little-endian limb list of length `N`;
  every statement is for every `N` and all operands.  Helper lemmas are in Ark/Proofs/SurfaceA.lean.
-/
namespace Ark.C15c
open Ark

/-! ### 1. bitwise operators -/

/-- `^=`: the limb-wise xor is the xor of the integers -/
theorem bitxor_exact (a b : List Nat) (h : a.length = b.length) (ha : WF a) (hb : WF b) :
    value (limbsXor a b) = value a ^^^ value b ∧ WF (limbsXor a b) ∧
    (limbsXor a b).length = a.length :=
  limbsXor_spec a b h ha hb

/-- `&=` -/
theorem bitand_exact (a b : List Nat) (h : a.length = b.length) (ha : WF a) (hb : WF b) :
    value (limbsAnd a b) = value a &&& value b ∧ WF (limbsAnd a b) ∧
    (limbsAnd a b).length = a.length :=
  limbsAnd_spec a b h ha hb

/-- `|=` -/
theorem bitor_exact (a b : List Nat) (h : a.length = b.length) (ha : WF a) (hb : WF b) :
    value (limbsOr a b) = value a ||| value b ∧ WF (limbsOr a b) ∧
    (limbsOr a b).length = a.length :=
  limbsOr_spec a b h ha hb

/-- `!`: the complement within `N` limbs, `2^(64N) − 1 − a` -/
theorem not_exact (a : List Nat) (ha : WF a) :
    value (limbsNot a) = B ^ a.length - 1 - value a ∧ WF (limbsNot a) ∧
    (limbsNot a).length = a.length :=
  limbsNot_spec a ha

example : limbsXor [B - 1, 5] [1, 6] = [B - 2, 3] ∧ limbsAnd [B - 1, 5] [1, 6] = [1, 4] ∧
    limbsOr [B - 1, 5] [1, 6] = [B - 1, 7] ∧ limbsNot [B - 1, 5] = [0, B - 6] := by decide +kernel
example : WF [B - 1, 5] ∧ WF [1, 6] ∧ [B - 1, 5].length = [1, 6].length := by
  unfold WF; decide +kernel
example : value [B - 1, 5] ^^^ value [1, 6] = value [B - 2, 3] ∧
    B ^ 2 - 1 - value [B - 1, 5] = value [0, B - 6] := by decide +kernel

/-! ### 2. parity, `mod_4`, `const_shr`, `divide_by_2_round_down` -/

/-- `const_is_even` / `const_is_odd` look at limb 0 only and decide the parity of the integer -/
theorem const_is_even_exact (a : List Nat) (ha : WF a) :
    constIsEven a = decide (value a % 2 = 0) ∧ constIsOdd a = decide (value a % 2 = 1) :=
  ⟨constIsEven_spec a ha, constIsOdd_spec a ha⟩

/-- `mod_4` (`(limb0 << 62) >> 62`) is the integer modulo 4 -/
theorem mod4_exact (a : List Nat) (ha : WF a) : mod4 a = value a % 4 :=
  mod4_spec a ha

/-- `const_shr` is the same limb loop as `div2`: the integer halved (rounding down) -/
theorem const_shr_exact (a : List Nat) (ha : WF a) :
    value (constShr a) = value a / 2 ∧ WF (constShr a) ∧ (constShr a).length = a.length :=
  constShr_spec a ha

/-- `divide_by_2_round_down`: `(a − a mod 2) / 2` (the decrement of limb 0 on odd values never
    borrows) — which is `a / 2` -/
theorem divide_by_2_round_down_exact (a : List Nat) (ha : WF a) :
    value (divideBy2RoundDown a) = (value a - value a % 2) / 2 ∧
    value (divideBy2RoundDown a) = value a / 2 ∧ WF (divideBy2RoundDown a) ∧
    (divideBy2RoundDown a).length = a.length := by
  have ⟨h1, h2, h3⟩ := divideBy2RoundDown_spec a ha
  exact ⟨h1, by rw [h1, sub_mod_div_two], h2, h3⟩

example : constIsEven [6, 1] = true ∧ constIsOdd [7, 1] = true ∧ mod4 [7, 1] = 3 ∧
    constShr [6, 1] = [2 ^ 63 + 3, 0] ∧ divideBy2RoundDown [7, 3] = [2 ^ 63 + 3, 1] := by
  decide +kernel
example : WF [6, 1] ∧ WF [7, 1] ∧ WF [7, 3] := by unfold WF; decide +kernel

/-! ### 3. `const_num_bits` -/

/-- `const_num_bits` inspects the top limb only: it returns `64·(N−1) + bitlen(top limb)` where the
    top limb is `a / 2^(64(N−1))` … -/
theorem const_num_bits_general (a : List Nat) (ha : WF a) :
    constNumBits a = 64 * (a.length - 1) + bitLen (value a / B ^ (a.length - 1)) :=
  constNumBits_general a ha

/-- … so it is the bit length of the integer exactly when the top limb is non-zero (as it is for a
    modulus that needs all its limbs) … -/
theorem const_num_bits_exact (a : List Nat) (ha : WF a) (htop : a.getLastD 0 ≠ 0) :
    constNumBits a = bitLen (value a) ∧ constNumBits a = numBits a :=
  ⟨constNumBits_top_ne_zero a ha htop,
    by rw [constNumBits_top_ne_zero a ha htop, numBits_spec a ha]⟩

/-- … and `64·(N−1)` (NOT the bit length, unless `N = 1`) when the top limb is zero -/
theorem const_num_bits_top_zero (a : List Nat) (htop : a.getLastD 0 = 0) :
    constNumBits a = 64 * (a.length - 1) :=
  constNumBits_top_zero a htop

example : constNumBits [5, 3] = 66 ∧ bitLen (value [5, 3]) = 66 ∧ [5, 3].getLastD 0 ≠ 0 := by
  decide +kernel
/-- a zero top limb: the answer 64 is not the bit length 3 of the value 5 -/
example : constNumBits [5, 0] = 64 ∧ bitLen (value [5, 0]) = 3 ∧ numBits [5, 0] = 3 := by
  decide +kernel

/-! ### 4. `two_adic_valuation`, `two_adic_coefficient` -/

/-- `two_adic_valuation a` returns `k` iff `a` is odd, `a ≠ 1` and `2^k ∥ a − 1` -/
theorem two_adic_valuation_ok_iff (a : List Nat) (ha : WF a) (k : Nat) :
    twoAdicValuation a = .ok k ↔
      value a % 2 = 1 ∧ value a ≠ 1 ∧ 2 ^ k ∣ value a - 1 ∧ ¬ 2 ^ (k + 1) ∣ value a - 1 :=
  twoAdicValuation_ok_iff a ha k

/-- the `assert!(self.const_is_odd())` fires exactly on even values -/
theorem two_adic_valuation_panic_iff (a : List Nat) (ha : WF a) :
    twoAdicValuation a = .panic ↔ value a % 2 = 0 :=
  twoAdicValuation_panic_iff a ha

/-- the loop `while self.const_is_even()` never ends exactly on the value 1 (`a − 1 = 0`) -/
theorem two_adic_valuation_hang_iff (a : List Nat) (ha : WF a) :
    twoAdicValuation a = .hang ↔ value a = 1 :=
  twoAdicValuation_hang_iff a ha

/-- `two_adic_coefficient a` returns `r` iff `a` is odd, `a ≠ 1` and `r` is the odd part of `a − 1`
    (as an `N`-limb integer): `a − 1 = 2^t · r` with `r` odd -/
theorem two_adic_coefficient_ok_iff (a : List Nat) (ha : WF a) (r : List Nat) :
    twoAdicCoefficient a = .ok r ↔
      value a % 2 = 1 ∧ value a ≠ 1 ∧ WF r ∧ r.length = a.length ∧ value r % 2 = 1 ∧
        ∃ t, value a - 1 = 2 ^ t * value r :=
  twoAdicCoefficient_ok_iff a ha r

/-- together: `a = 2^s · t + 1` with `s = two_adic_valuation`, `t = two_adic_coefficient` odd -/
theorem two_adic_decomposition (a : List Nat) (ha : WF a) (hodd : value a % 2 = 1)
    (h1 : value a ≠ 1) :
    ∃ r s, twoAdicCoefficient a = .ok r ∧ twoAdicValuation a = .ok s ∧ WF r ∧
      r.length = a.length ∧ value a = 2 ^ s * value r + 1 ∧ value r % 2 = 1 := by
  obtain ⟨r, t, e1, e2, w, l, v, o⟩ := twoAdicCoefficient_ok a ha hodd h1
  exact ⟨r, t, e1, e2, w, l, by omega, o⟩

/-- the first assertion fires exactly on even values; the final `assert!(self.const_is_odd())`
    never fires -/
theorem two_adic_coefficient_panic_iff (a : List Nat) (ha : WF a) :
    twoAdicCoefficient a = .panic ↔ value a % 2 = 0 :=
  twoAdicCoefficient_panic_iff a ha

theorem two_adic_coefficient_hang_iff (a : List Nat) (ha : WF a) :
    twoAdicCoefficient a = .hang ↔ value a = 1 :=
  twoAdicCoefficient_hang_iff a ha

/-- `a = 2^66·3 + 1` on two limbs -/
example : twoAdicValuation [1, 12] = .ok 66 ∧ twoAdicCoefficient [1, 12] = .ok [3, 0] ∧
    value [1, 12] = 2 ^ 66 * 3 + 1 := by decide +kernel
example : WF [1, 12] ∧ value [1, 12] % 2 = 1 ∧ value [1, 12] ≠ 1 := by
  refine ⟨by unfold WF; decide +kernel, by decide +kernel, by decide +kernel⟩
example : twoAdicValuation [1, 0] = .hang ∧ twoAdicValuation [4, 1] = .panic ∧
    twoAdicCoefficient [1, 0] = .hang ∧ twoAdicCoefficient [4, 1] = .panic := by decide +kernel

/-! ### 5. `montgomery_r`, `montgomery_r2` -/

/-- invariant of `const_modulo!`: from a reduced remainder the register stays `< p` through every
    round, for every register width `w > p` (spare bit or not) -/
theorem const_modulo_remainder_lt (w p : Nat) (hp : p < w) (bits : List Bool) (rem : Nat)
    (hrem : rem < p) : Mont.constModuloLoop w p bits rem < p :=
  constModuloLoop_lt w p hp bits rem hrem

/-- `a.montgomery_r()` is `2^(64N) mod a` for every non-zero `a` (odd or not, spare bit or not);
    `assert!(!divisor.const_is_zero())` fires exactly on zero -/
theorem montgomery_r_exact (a : List Nat) (ha : WF a) :
    (bigMontgomeryR a = .panic ↔ value a = 0) ∧
    (∀ r, bigMontgomeryR a = .ok r →
      value r = B ^ a.length % value a ∧ WF r ∧ r.length = a.length) := by
  have ⟨h1, h2⟩ := bigMontgomeryR_spec a ha
  constructor
  · constructor
    · intro e; by_contra hne
      obtain ⟨r, e', _⟩ := h2 hne; rw [e'] at e; cases e
    · exact h1
  · intro r e
    by_cases h0 : value a = 0
    · rw [h1 h0] at e; cases e
    · obtain ⟨r', e', w, l, v⟩ := h2 h0
      rw [e'] at e; cases e; exact ⟨v, w, l⟩

/-- `a.montgomery_r2()` is `2^(128N) mod a` -/
theorem montgomery_r2_exact (a : List Nat) (ha : WF a) :
    (bigMontgomeryR2 a = .panic ↔ value a = 0) ∧
    (∀ r, bigMontgomeryR2 a = .ok r →
      value r = (B ^ a.length * B ^ a.length) % value a ∧ WF r ∧ r.length = a.length) := by
  have ⟨h1, h2⟩ := bigMontgomeryR2_spec a ha
  constructor
  · constructor
    · intro e; by_contra hne
      obtain ⟨r, e', _⟩ := h2 hne; rw [e'] at e; cases e
    · exact h1
  · intro r e
    by_cases h0 : value a = 0
    · rw [h1 h0] at e; cases e
    · obtain ⟨r', e', w, l, v⟩ := h2 h0
      rw [e'] at e; cases e; exact ⟨v, w, l⟩

/-- an even divisor without spare bit: `2^128 mod (2^128 − 160) = 160` -/
example : bigMontgomeryR [B - 160, B - 1] = .ok [160, 0] ∧
    bigMontgomeryR2 [B - 160, B - 1] = .ok [25600, 0] ∧ bigMontgomeryR [0, 0] = .panic := by
  decide +kernel
example : WF [B - 160, B - 1] ∧ B ^ 2 % value [B - 160, B - 1] = 160 := by
  refine ⟨by unfold WF; decide +kernel, by decide +kernel⟩

/-! ### 6. `CanonicalSerialize` / `CanonicalDeserialize` -/

/-- `serialized_size` is `8·N`, which is the number of bytes written, and the bytes are the
    little-endian bytes of the integer (`to_bytes_le`, C15b `to_bytes_le_exact`) -/
theorem serialize_size (a : List Nat) :
    bigSerializedSize a = 8 * a.length ∧ (bigSerialize a).length = 8 * a.length ∧
    bigSerialize a = toBytesLE a :=
  ⟨bigSerializedSize_eq a, bigSerialize_length a, rfl⟩

/-- round trip: deserializing `N` limbs from the serialization gives the integer back; bytes after
    the first `8·N` are ignored -/
theorem deserialize_serialize (a : List Nat) (ha : WF a) :
    bigDeserialize a.length (bigSerialize a) = some a ∧
    ∀ rest, bigDeserialize a.length (bigSerialize a ++ rest) = some a :=
  ⟨by simpa using bigDeserialize_serialize_append a ha [], bigDeserialize_serialize_append a ha⟩

/-- `deserialize` fails exactly on inputs shorter than `8·N` bytes -/
theorem deserialize_none_iff (n : Nat) (bs : List Nat) :
    bigDeserialize n bs = none ↔ bs.length < 8 * n :=
  bigDeserialize_none_iff n bs

/-- and otherwise returns the `N`-limb integer whose value is the little-endian value of the first
    `8·N` bytes -/
theorem deserialize_some (n : Nat) (bs : List Nat) (hb : ∀ b ∈ bs, b < 256)
    (hlen : 8 * n ≤ bs.length) :
    ∃ l, bigDeserialize n bs = some l ∧ l.length = n ∧ WF l ∧
      value l = bytesLE (bs.take (8 * n)) :=
  bigDeserialize_some n bs hb hlen

example : bigSerialize [0x0102, 7] = [2, 1, 0, 0, 0, 0, 0, 0, 7, 0, 0, 0, 0, 0, 0, 0] ∧
    bigSerializedSize [0x0102, 7] = 16 ∧
    bigDeserialize 2 (bigSerialize [0x0102, 7] ++ [9]) = some [0x0102, 7] ∧
    bigDeserialize 2 [1, 2, 3, 4, 5, 6, 7, 8, 9, 10, 11, 12, 13, 14, 15] = none := by
  decide +kernel
example : WF [0x0102, 7] := by unfold WF; decide +kernel

/-! ### 7. `From<u8…u64>`, `TryFrom<BigUint>` -/

/-- `From<u64>` (and the narrower unsigned types): limb 0 is the value, the rest zero; the index
    `repr.0[0]` panics for `N = 0` -/
theorem from_uint_exact (n x : Nat) (hx : x < B) :
    (n = 0 → bigFromUint n x = .panic) ∧
    (n ≠ 0 → ∃ l, bigFromUint n x = .ok l ∧ l.length = n ∧ WF l ∧ value l = x) :=
  bigFromUint_spec n x hx

example : bigFromUint 3 77 = .ok [77, 0, 0] ∧ bigFromUint 0 77 = .panic := by decide +kernel

/-- `TryFrom<BigUint>`: a result is the `N`-limb representation of `x` itself -/
theorem try_from_biguint_some (n x : Nat) (l : List Nat) (h : bigTryFromBigUint n x = some l) :
    value l = x ∧ WF l ∧ l.length = n := by
  by_cases hlen : biguintByteLen x ≤ 8 * n
  · obtain ⟨l', e, h1, h2, h3⟩ := (bigTryFromBigUint_spec n x).2 hlen
    rw [e] at h; cases h; exact ⟨h3, h2, h1⟩
  · rw [(bigTryFromBigUint_spec n x).1 (by omega)] at h; cases h

/-- `Err` iff `x ≥ 2^(64N)` — for `N ≥ 1` or `x ≠ 0`.  (For `N = 0` and `x = 0` the code answers
    `Err` although `0 < 2^0`: `to_bytes_le()` of zero is the one byte `[0]`, longer than `0` bytes;
    see `try_from_biguint_zero_limbs`.) -/
theorem try_from_biguint_none_iff (n x : Nat) (h : n ≠ 0 ∨ x ≠ 0) :
    bigTryFromBigUint n x = none ↔ B ^ n ≤ x := by
  rw [← Nat.not_lt, ← biguintByteLen_le_iff n x h]
  constructor
  · intro e hlen
    obtain ⟨l, e', _⟩ := (bigTryFromBigUint_spec n x).2 hlen
    rw [e'] at e; cases e
  · intro hlen; exact (bigTryFromBigUint_spec n x).1 (by omega)

/-- the degenerate exception -/
theorem try_from_biguint_zero_limbs : bigTryFromBigUint 0 0 = none ∧ 0 < B ^ 0 := by
  decide +kernel

example : bigTryFromBigUint 2 (2 ^ 64 * 3 + 5) = some [5, 3] ∧
    bigTryFromBigUint 2 (2 ^ 128 - 1) = some [B - 1, B - 1] ∧
    bigTryFromBigUint 2 (2 ^ 128) = none ∧ bigTryFromBigUint 2 0 = some [0, 0] := by
  decide +kernel

/-- `FromStr` on a non-empty string of ASCII digits (the documented syntax; the parser itself is
    num-bigint's): the `N`-limb integer with the decimal value `v` of the string when `v < 2^(64N)`,
    `Err` otherwise (`N ≥ 1`) -/
theorem from_str_digits (n : Nat) (hn : n ≠ 0) (s : List Nat) (hne : s ≠ [])
    (hs : ∀ c ∈ s, 48 ≤ c ∧ c ≤ 57) :
    (s.foldl (fun acc c => acc * 10 + (c - 48)) 0 < B ^ n →
      ∃ l, bigFromStr n s = some l ∧ value l = s.foldl (fun acc c => acc * 10 + (c - 48)) 0 ∧
        WF l ∧ l.length = n) ∧
    (B ^ n ≤ s.foldl (fun acc c => acc * 10 + (c - 48)) 0 → bigFromStr n s = none) := by
  unfold bigFromStr
  rw [parseBigUintStr_digits s hne hs]
  simp only []
  constructor
  · intro hlt
    cases e : bigTryFromBigUint n (s.foldl (fun acc c => acc * 10 + (c - 48)) 0) with
    | none => exact absurd ((try_from_biguint_none_iff n _ (Or.inl hn)).mp e) (by omega)
    | some l => exact ⟨l, rfl, try_from_biguint_some n _ l e⟩
  · intro hge
    exact (try_from_biguint_none_iff n _ (Or.inl hn)).mpr hge

/-- "18446744073709551621" = 2^64 + 5 -/
example : bigFromStr 2 [49, 56, 52, 52, 54, 55, 52, 52, 48, 55, 51, 55, 48, 57, 53, 53, 49, 54, 50, 49]
    = some [5, 1] ∧ bigFromStr 1 [49, 56, 52, 52, 54, 55, 52, 52, 48, 55, 51, 55, 48, 57, 53, 53, 49, 54, 50, 49]
    = none ∧ bigFromStr 1 [] = none ∧ bigFromStr 1 [49, 97] = none := by decide +kernel

end Ark.C15c
