import Ark.Proofs.IsoIdentity
import Ark.Proofs.CfgMeaning
import Ark.Props.C13
import Ark.Gen.Bls12_381
import Ark.Gen.Bls12_377
/-
  Property C13 (b) — the Wahby–Boneh isogenies that SHIP with the curve crates satisfy the polynomial
  identity `IsoIdentity` that `Ark.C13.iso_on_curve_of_identity` / `wb_map_ok` take as a hypothesis.

  How it is decided.  The C16 translator dumps every `WBConfig::ISOGENY_MAP` of the compiled tree into
  `Ark/Gen/*.lean` and generates, for every `wb` configuration `cfg`,

      theorem <cfg>_wb_iso_identity : checkWbIsoIdentity <cfg> = true := by decide +kernel

  where `checkWbIsoIdentity` (Ark/Model/Cfg.lean) multiplies out both sides of
      (X³ + a'X + b')·yNum²·xDen³ = yDen²·(xNum³ + a·xNum·xDen² + b·xDen³)
  as coefficient lists over the curve's base-field tower and compares them.  The theorems below turn
  that Bool fact into the mathematical statement (helper lemmas: Ark/Proofs/IsoIdentity.lean):

    * `wb_iso_identity_meaning`       any configuration over a prime field `F_p`   (in `ZMod p`)
    * `wb_iso_identity_meaning_quad`  any configuration over `F_p[u]/(u² - n)`     (in `AdjoinRoot (X² - n)`)
    * instances: BLS12-381 G1 (11-isogeny), BLS12-381 G2 (3-isogeny), BLS12-377 G1 (2-isogeny),
      BLS12-377 G2, and the `IsoOnCurve` / "the WB map lands on the curve" corollaries.

  Primality of the 381-bit (377-bit) moduli is NOT proved in Lean; it is a `[Fact (Nat.Prime p)]`
  hypothesis, as everywhere in this project.  For the quadratic towers irreducibility of `X² - n` is
  not an extra hypothesis: it is derived from the generated theorem `<crate>_Fq2_nonresidue`
  (`quad_irreducible_of_check`).
-/
namespace Ark.C13b
open Ark Ark.H2C Ark.H2C.P Ark.Cfg Ark.IsoId Ark.Gen

/-! ### 1. meaning of the checker -/

/-- **prime fields**: `checkWbIsoIdentity c = true` implies the polynomial identity of the isogeny at
    every `x : ZMod p`; the isogeny's coefficient lists and the curve coefficients are the
    configuration's `Nat` residues cast to `ZMod p` (`phiP p [n] = (n : ZMod p)`) -/
theorem wb_iso_identity_meaning (c : WbCfg) (p : Nat) [Fact p.Prime] (ht : c.curve.tower = .prime p)
    (h : checkWbIsoIdentity c = true) :
    IsoIdentity (isoOf (phiP p) c) (phiP p c.iso.a) (phiP p c.iso.b) (phiP p c.curve.a)
      (phiP p c.curve.b) :=
  isoIdentity_prime c p ht h

/-- the same with the configuration presented through explicit lists of residues -/
theorem wb_iso_identity_meaning_nat (c : WbCfg) (p : Nat) [Fact p.Prime]
    (ht : c.curve.tower = .prime p) (a' b' a b : Nat) (xn xd yn yd : List Nat)
    (ha' : c.iso.a = [a']) (hb' : c.iso.b = [b']) (ha : c.curve.a = [a]) (hb : c.curve.b = [b])
    (hxn : c.xNum = xn.map (fun n => [n])) (hxd : c.xDen = xd.map (fun n => [n]))
    (hyn : c.yNum = yn.map (fun n => [n])) (hyd : c.yDen = yd.map (fun n => [n]))
    (h : checkWbIsoIdentity c = true) :
    IsoIdentity (F := ZMod p)
      ⟨xn.map (fun n : Nat => (n : ZMod p)), xd.map (fun n : Nat => (n : ZMod p)),
       yn.map (fun n : Nat => (n : ZMod p)), yd.map (fun n : Nat => (n : ZMod p))⟩
      (a' : ZMod p) (b' : ZMod p) (a : ZMod p) (b : ZMod p) :=
  isoIdentity_prime_nat c p ht a' b' a b xn xd yn yd ha' hb' ha hb hxn hxd hyn hyd h

/-- **quadratic extensions** `F_p[u]/(u² - n)` (the G2 curves): the identity holds at every point of
    the field `AdjoinRoot (X² - n)`, a coefficient `[c0, c1]` being read as `c0 + c1·u` (`phiQ`) -/
theorem wb_iso_identity_meaning_quad (c : WbCfg) (p n : Nat) [Fact p.Prime]
    [Fact (Irreducible (quadPoly p n))] [DecidableEq (AdjoinRoot (quadPoly p n))] (nr : El)
    (ht : c.curve.tower = .ext 2 (.prime p) nr) (hn : nr.headD 0 = n)
    (h : checkWbIsoIdentity c = true) :
    IsoIdentity (isoOf (phiQ p n) c) (phiQ p n c.iso.a) (phiQ p n c.iso.b) (phiQ p n c.curve.a)
      (phiQ p n c.curve.b) :=
  isoIdentity_quad p n c nr ht hn h

/-- irreducibility of `X² - n` from the C16 fact `checkNonresidue` of the `Fp2` configuration -/
theorem quad_irreducible_of_check (e : ExtCfg) (p n : Nat) [Fact p.Prime]
    (hbase : e.baseTower = .prime p) (hk : e.kind = .fp2) (hnr : e.nonresidue = [n]) (hlt : n < p)
    (h : checkNonresidue e = true) : Irreducible (quadPoly p n) := by
  have h2 := (Ark.CfgMeaning.nonresidue_prime e p n hbase hnr hlt h).2
  have hk2 : e.k = 2 := by unfold ExtCfg.k; rw [hk]
  rw [hk2] at h2
  exact quadPoly_irreducible p n h2

/-! ### 2. non-vacuity and a negative test: the harness's 2-isogeny over `F_127`
    `E' : y² = x³ + 114x + 12 → E : y² = x³ + 37x + 82` (`Ark.C13.toyIso2`) as a `WbCfg` -/

def toySw (a b : Nat) : SwCfg :=
  { tower := .prime 127, r := 7, cofactor := 1, cofactorLimbs := [1], cofactorInv := 1,
    a := [a], b := [b], gx := [0], gy := [0], gInfinity := false }

def toyWb : WbCfg :=
  { curve := toySw 37 82, iso := toySw 114 12, isoZeta := [3],
    xNum := [[117], [126], [1]], xDen := [[126], [1]], yNum := [[11], [125], [1]],
    yDen := [[1], [125], [1]] }

example : checkWbIsoIdentity toyWb = true := by decide +kernel

/-- NEGATIVE tests: one perturbed coefficient (in each of the four lists, and in a curve coefficient)
    and the checker says `false` -/
example : checkWbIsoIdentity { toyWb with xNum := [[117], [125], [1]] } = false := by decide +kernel
example : checkWbIsoIdentity { toyWb with xDen := [[126], [2]] } = false := by decide +kernel
example : checkWbIsoIdentity { toyWb with yNum := [[12], [125], [1]] } = false := by decide +kernel
example : checkWbIsoIdentity { toyWb with yDen := [[1], [125], [1], [1]] } = false := by decide +kernel
example : checkWbIsoIdentity { toyWb with iso := toySw 114 13 } = false := by decide +kernel
example : checkWbIsoIdentity { toyWb with curve := toySw 38 82 } = false := by decide +kernel
-- ill-formed data (unreduced coordinate / wrong arity) is rejected as well
example : checkWbIsoIdentity { toyWb with xNum := [[117], [126 + 127], [1]] } = false := by decide +kernel
example : checkWbIsoIdentity { toyWb with xDen := [[126], [1, 0]] } = false := by decide +kernel
-- trailing zero coefficients are harmless (`DensePolynomial::from_coefficients_slice` drops them)
example : checkWbIsoIdentity { toyWb with yDen := [[1], [125], [1], [0], [0]] } = true := by decide +kernel

/-- the meaning lemma applied to the toy configuration gives back `Ark.C13.toyIso2_identity`
    (there proved by brute force over the 127 points; here from the coefficient comparison) -/
example : IsoIdentity Ark.C13.toyIso2 114 12 37 82 := by
  have h := wb_iso_identity_meaning_nat toyWb 127 rfl 114 12 37 82 [117, 126, 1] [126, 1] [11, 125, 1]
    [1, 125, 1] rfl rfl rfl rfl rfl rfl rfl rfl (by decide +kernel)
  have e : (⟨[117, 126, 1].map (fun n : Nat => (n : ZMod 127)), [126, 1].map (fun n : Nat => (n : ZMod 127)),
      [11, 125, 1].map (fun n : Nat => (n : ZMod 127)), [1, 125, 1].map (fun n : Nat => (n : ZMod 127))⟩ :
      Iso (ZMod 127)) = Ark.C13.toyIso2 := by
    unfold Ark.C13.toyIso2
    congr 1
  rw [e] at h
  exact h

/-- a toy configuration over `F_7[u]/(u² + 1)` (`-1 = 6` is a non-square mod 7): the identity map
    `(x, y) ↦ (x, y)` of `y² = x³ + (1 + 2u)x + (3 + u)` -/
def toySwQ (a b : El) : SwCfg :=
  { tower := .ext 2 (.prime 7) [6], r := 7, cofactor := 1, cofactorLimbs := [1], cofactorInv := 1,
    a := a, b := b, gx := [0, 0], gy := [0, 0], gInfinity := false }

def toyWbQ : WbCfg :=
  { curve := toySwQ [1, 2] [3, 1], iso := toySwQ [1, 2] [3, 1], isoZeta := [0, 1],
    xNum := [[0, 0], [1, 0]], xDen := [[1, 0]], yNum := [[1, 0]], yDen := [[1, 0]] }

example : checkWbIsoIdentity toyWbQ = true := by decide +kernel
example : checkWbIsoIdentity { toyWbQ with xNum := [[0, 1], [1, 0]] } = false := by decide +kernel
example : checkWbIsoIdentity { toyWbQ with iso := toySwQ [1, 2] [3, 2] } = false := by decide +kernel

theorem toy_six_nonsquare : ¬ ∃ y : ZMod 7, y ^ 2 = ((6 : Nat) : ZMod 7) := by decide

/-- the hypotheses of `wb_iso_identity_meaning_quad` are satisfiable -/
example : ∃ (_ : Fact (Nat.Prime 7)) (_ : Fact (Irreducible (quadPoly 7 6)))
    (_ : DecidableEq (AdjoinRoot (quadPoly 7 6))),
    IsoIdentity (isoOf (phiQ 7 6) toyWbQ) (phiQ 7 6 toyWbQ.iso.a) (phiQ 7 6 toyWbQ.iso.b)
      (phiQ 7 6 toyWbQ.curve.a) (phiQ 7 6 toyWbQ.curve.b) := by
  have h7 : Fact (Nat.Prime 7) := ⟨by decide⟩
  have hi : Fact (Irreducible (quadPoly 7 6)) := ⟨quadPoly_irreducible 7 6 toy_six_nonsquare⟩
  exact ⟨h7, hi, Classical.decEq _,
    @wb_iso_identity_meaning_quad toyWbQ 7 6 h7 hi (Classical.decEq _) [6] rfl rfl (by decide +kernel)⟩

/-! ### 3. the shipped isogenies -/

/-- BLS12-381 G1: the 11-isogeny `E' → E : y² = x³ + 4` of `ark-bls12-381` read over `ZMod p` -/
def bls12_381_g1_iso (p : Nat) : Iso (ZMod p) := isoOf (phiP p) bls12_381_G1_wb

/-- **BLS12-381 G1**: the shipped 11-isogeny satisfies the polynomial identity between
    `E' : y² = x³ + A'x + B'` — `A'`, `B'` *the constants printed in RFC 9380 §8.8.1* (`Rfc.g1A`, `Rfc.g1B`),
    which the dumped `IsogenousCurve::COEFF_A/B` equal — and `E : y² = x³ + 4`, over `F_p` with `p` the
    RFC's modulus `Rfc.blsP` (which the dumped modulus equals).
    Primality of the 381-bit modulus is a hypothesis (`Fact`), not proved here. -/
theorem bls12_381_g1_iso_identity [Fact (Nat.Prime Rfc.blsP)] :
    IsoIdentity (bls12_381_g1_iso Rfc.blsP) (Rfc.g1A : ZMod Rfc.blsP) (Rfc.g1B : ZMod Rfc.blsP) 0 4 := by
  have ht : bls12_381_G1_wb.curve.tower = .prime Rfc.blsP := rfl
  have h := wb_iso_identity_meaning bls12_381_G1_wb Rfc.blsP ht bls12_381_G1_wb_iso_identity
  have ea : bls12_381_G1_wb.iso.a = [Rfc.g1A] := by decide +kernel
  have eb : bls12_381_G1_wb.iso.b = [Rfc.g1B] := by decide +kernel
  have e0 : bls12_381_G1_wb.curve.a = [0] := rfl
  have e4 : bls12_381_G1_wb.curve.b = [4] := rfl
  rw [ea, eb, e0, e4] at h
  simp only [phiP_singleton, Nat.cast_zero, Nat.cast_ofNat] at h
  exact h

/-- hence every point of `E'` away from the poles is mapped onto `E : y² = x³ + 4` -/
theorem bls12_381_g1_iso_on_curve [Fact (Nat.Prime Rfc.blsP)] :
    IsoOnCurve (bls12_381_g1_iso Rfc.blsP) (Rfc.g1A : ZMod Rfc.blsP) (Rfc.g1B : ZMod Rfc.blsP) 0 4 :=
  Ark.C13.iso_on_curve_of_identity bls12_381_g1_iso_identity

/-- and the model's WB map (`WBMap::map_to_curve`) returns, for EVERY `u`, a point of BLS12-381 G1's
    curve `y² = x³ + 4` (or the identity), never panicking — for any sound field dictionary `X` and
    any `ζ` passing the SWU parameter check (the shipped `ζ = 11`, `Rfc.g1Z`) -/
theorem bls12_381_g1_wb_map_on_curve [Fact (Nat.Prime Rfc.blsP)] {X : FieldX (ZMod Rfc.blsP)}
    (hX : FieldXSound X) {ζ : ZMod Rfc.blsP}
    (hp : Rfc.sswuParamsOk X (Rfc.g1A : ZMod Rfc.blsP) (Rfc.g1B : ZMod Rfc.blsP) ζ = true)
    (u : ZMod Rfc.blsP) :
    ∃ q P, swuMap X (Rfc.g1A : ZMod Rfc.blsP) (Rfc.g1B : ZMod Rfc.blsP) ζ u = .ok q ∧
      wbMap X (Rfc.g1A : ZMod Rfc.blsP) (Rfc.g1B : ZMod Rfc.blsP) ζ (bls12_381_g1_iso Rfc.blsP) u = .ok P ∧
      P = Rfc.isoMap (bls12_381_g1_iso Rfc.blsP) q ∧ swOnCurve 0 4 P = true :=
  Ark.C13.wb_map_ok hX (nonsqMul_of_finite _) hp _ bls12_381_g1_iso_on_curve u

/-- the instantiated isogeny is the 11-isogeny: degrees 11 / 10 / 15 / 15 -/
example : (bls12_381_G1_wb.xNum.length, bls12_381_G1_wb.xDen.length, bls12_381_G1_wb.yNum.length,
    bls12_381_G1_wb.yDen.length) = (12, 11, 16, 16) := by decide +kernel

/-- BLS12-377 G1 (2-isogeny onto `y² = x³ + 1`), modulus taken from the dump -/
def bls12_377_p : Nat := bls12_377_Fq.modulus

theorem bls12_377_g1_iso_identity [Fact (Nat.Prime bls12_377_p)] :
    IsoIdentity (isoOf (phiP bls12_377_p) bls12_377_G1_wb) (phiP bls12_377_p bls12_377_G1_wb.iso.a)
      (phiP bls12_377_p bls12_377_G1_wb.iso.b) 0 1 := by
  have ht : bls12_377_G1_wb.curve.tower = .prime bls12_377_p := rfl
  have h := wb_iso_identity_meaning bls12_377_G1_wb bls12_377_p ht bls12_377_G1_wb_iso_identity
  have e0 : bls12_377_G1_wb.curve.a = [0] := rfl
  have e1 : bls12_377_G1_wb.curve.b = [1] := rfl
  rw [e0, e1] at h
  simp only [phiP_singleton, Nat.cast_zero, Nat.cast_one] at h
  exact h

theorem bls12_377_g1_iso_on_curve [Fact (Nat.Prime bls12_377_p)] :
    IsoOnCurve (isoOf (phiP bls12_377_p) bls12_377_G1_wb) (phiP bls12_377_p bls12_377_G1_wb.iso.a)
      (phiP bls12_377_p bls12_377_G1_wb.iso.b) 0 1 :=
  Ark.C13.iso_on_curve_of_identity bls12_377_g1_iso_identity

/-! #### G2 (quadratic extension `F_p[u]/(u² - n)`) -/

/-- BLS12-381: `Fq2 = Fq[u]/(u² + 1)`, the non-residue `-1` stored as `p - 1` -/
def bls12_381_nr : Nat := Rfc.blsP - 1

/-- `X² + 1` is irreducible over `F_p` — from the generated `bls12_381_Fq2_nonresidue` -/
theorem bls12_381_fq2_irreducible [Fact (Nat.Prime Rfc.blsP)] :
    Irreducible (quadPoly Rfc.blsP bls12_381_nr) :=
  quad_irreducible_of_check bls12_381_Fq2 Rfc.blsP bls12_381_nr rfl rfl
    (by decide +kernel) (by decide +kernel) bls12_381_Fq2_nonresidue

/-- **BLS12-381 G2**: the shipped 3-isogeny satisfies the polynomial identity over the field
    `Fq2 = AdjoinRoot (X² + 1)`; target curve `y² = x³ + 4(1 + u)` -/
theorem bls12_381_g2_iso_identity [Fact (Nat.Prime Rfc.blsP)]
    [Fact (Irreducible (quadPoly Rfc.blsP bls12_381_nr))]
    [DecidableEq (AdjoinRoot (quadPoly Rfc.blsP bls12_381_nr))] :
    IsoIdentity (isoOf (phiQ Rfc.blsP bls12_381_nr) bls12_381_G2_wb)
      (phiQ Rfc.blsP bls12_381_nr bls12_381_G2_wb.iso.a) (phiQ Rfc.blsP bls12_381_nr bls12_381_G2_wb.iso.b)
      (phiQ Rfc.blsP bls12_381_nr bls12_381_G2_wb.curve.a) (phiQ Rfc.blsP bls12_381_nr bls12_381_G2_wb.curve.b) :=
  wb_iso_identity_meaning_quad bls12_381_G2_wb Rfc.blsP bls12_381_nr [bls12_381_nr] rfl rfl
    bls12_381_G2_wb_iso_identity

theorem bls12_381_g2_iso_on_curve [Fact (Nat.Prime Rfc.blsP)]
    [Fact (Irreducible (quadPoly Rfc.blsP bls12_381_nr))]
    [DecidableEq (AdjoinRoot (quadPoly Rfc.blsP bls12_381_nr))] :
    IsoOnCurve (isoOf (phiQ Rfc.blsP bls12_381_nr) bls12_381_G2_wb)
      (phiQ Rfc.blsP bls12_381_nr bls12_381_G2_wb.iso.a) (phiQ Rfc.blsP bls12_381_nr bls12_381_G2_wb.iso.b)
      (phiQ Rfc.blsP bls12_381_nr bls12_381_G2_wb.curve.a) (phiQ Rfc.blsP bls12_381_nr bls12_381_G2_wb.curve.b) :=
  Ark.C13.iso_on_curve_of_identity bls12_381_g2_iso_identity

/-- the `Fact (Irreducible …)` instance argument above is satisfiable (given primality) -/
example [Fact (Nat.Prime Rfc.blsP)] : Fact (Irreducible (quadPoly Rfc.blsP bls12_381_nr)) :=
  ⟨bls12_381_fq2_irreducible⟩

/-- the isogenous curve of G2 is the RFC's (§8.8.2): `A' = 240·u`, `B' = 1012·(1 + u)` -/
example : (bls12_381_G2_wb.iso.a, bls12_381_G2_wb.iso.b) =
    ([Rfc.g2A.1, Rfc.g2A.2], [Rfc.g2B.1, Rfc.g2B.2]) := by decide +kernel

/-- BLS12-377 G2 over `Fq2 = Fq[u]/(u² - n)`, `n` the dumped `Fq2Config::NONRESIDUE` -/
def bls12_377_nr : Nat := bls12_377_Fq2.nonresidue.headD 0

theorem bls12_377_fq2_irreducible [Fact (Nat.Prime bls12_377_p)] :
    Irreducible (quadPoly bls12_377_p bls12_377_nr) :=
  quad_irreducible_of_check bls12_377_Fq2 bls12_377_p bls12_377_nr rfl rfl
    (by decide +kernel) (by decide +kernel) bls12_377_Fq2_nonresidue

theorem bls12_377_g2_iso_identity [Fact (Nat.Prime bls12_377_p)]
    [Fact (Irreducible (quadPoly bls12_377_p bls12_377_nr))]
    [DecidableEq (AdjoinRoot (quadPoly bls12_377_p bls12_377_nr))] :
    IsoIdentity (isoOf (phiQ bls12_377_p bls12_377_nr) bls12_377_G2_wb)
      (phiQ bls12_377_p bls12_377_nr bls12_377_G2_wb.iso.a) (phiQ bls12_377_p bls12_377_nr bls12_377_G2_wb.iso.b)
      (phiQ bls12_377_p bls12_377_nr bls12_377_G2_wb.curve.a) (phiQ bls12_377_p bls12_377_nr bls12_377_G2_wb.curve.b) :=
  wb_iso_identity_meaning_quad bls12_377_G2_wb bls12_377_p bls12_377_nr [bls12_377_nr] rfl rfl
    bls12_377_G2_wb_iso_identity

end Ark.C13b
