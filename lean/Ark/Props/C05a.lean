import Ark.Proofs.MsmA
/-
  Property C05 (part a) — variable-base multi-scalar multiplication
  (`ec/src/scalar_mul/variable_base/mod.rs`, model `Ark.Model.Msm`): `make_digits`, the signed-digit
  bucket method `msm_bigint_wnaf`, the plain bucket method `msm_bigint`, the window-size rule, the
  running-sum reduction, the window combination, and the entry points `msm_bigint` / `msm_unchecked` /
  `msm`.  The group is any commutative additive group (`[AddCommGroup G]`, ℕ/ℤ-scalar action `•`).
  Only property theorems live here; helper lemmas are in Ark/Proofs/MsmA.lean.

  Sums over the common prefix of `bases` / `scalars` are written
  `∑ i ∈ Finset.range (min bases.length ks.length), f (ks.getD i _) • bases.getD i 0`.
  Every length bound `… < 2^64` is the `usize` range of a slice length (it guarantees that the
  window size is `≤ 46 ≤ 62`, the range in which the model of `make_digits` is exact).
-/
namespace Ark.C05
open Ark Ark.Msm
open Ark.DrvC05 (digitsValueW)

variable {G : Type} [AddCommGroup G]

/-! ### 1. running-sum reduction -/

/-- walking the buckets from the last to the first, accumulating suffix sums, computes
    `res0 + Σ_j (j+1) • bucket[j]` -/
theorem runningSum_spec (res0 : G) (bs : List G) :
    runningSum res0 bs = res0 + ∑ j ∈ Finset.range bs.length, (j + 1) • bs.getD j 0 := by
  rw [runningSum_wsum, wsum_eq_finset]

example : runningSum (10 : ℤ) [1, 2, 3] = 10 + (1 * 1 + 2 * 2 + 3 * 3) := by decide

/-! ### 2. repeated doubling -/

theorem dblN_spec (c : Nat) (x : G) : dblN c x = (2 ^ c : ℕ) • x := dblN_eq c x

example : dblN 5 (3 : ℤ) = 96 := by decide

/-! ### 3. window combination -/

theorem combine_spec (c : Nat) (w₀ : G) (ws : List G) :
    combine c (w₀ :: ws)
      = .ok (∑ i ∈ Finset.range (ws.length + 1), (2 ^ (c * i) : ℕ) • (w₀ :: ws).getD i 0) := by
  rw [combine_hsum, hsum_eq_finset, List.length_cons]

/-- `window_sums.first().unwrap()` on an empty vector -/
theorem combine_nil (c : Nat) : combine c ([] : List G) = .panic := rfl

example : combine 3 [(1 : ℤ), 2, 5] = .ok (1 + 8 * 2 + 64 * 5) := by decide

/-! ### 4. window-size rule -/

theorem windowSize_bounds (n : Nat) : 3 ≤ windowSize n ∧ (n < 2 ^ 64 → windowSize n ≤ 46) :=
  ⟨windowSize_ge n, windowSize_le n⟩

theorem lnWithoutFloats_bounds (n : Nat) :
    (32 ≤ n → 3 ≤ lnWithoutFloats n) ∧ (n < 2 ^ 64 → lnWithoutFloats n ≤ 44) :=
  ⟨lnWithoutFloats_ge n, lnWithoutFloats_le n⟩

example : windowSize 31 = 3 ∧ windowSize 32 = 5 ∧ windowSize (2 ^ 20) = 15 ∧
    windowSize (2 ^ 64 - 1) = 46 := by decide +kernel

/-! ### 5. the bit buffer of `make_digits` -/

/-- the `w` low bits of the buffer read at digit `i` are bits `[i·w, i·w + w)` of the scalar —
    also when the window straddles a limb boundary, and in the top limb -/
theorem bitBuf_spec (s : List Nat) (w i : Nat) (hs : WF s) (hw1 : 1 ≤ w) (hw : w ≤ 62)
    (hi : i * w < 64 * s.length) :
    ∃ b, bitBuf s w i = .ok b ∧ b % 2 ^ w = (value s / 2 ^ (i * w)) % 2 ^ w :=
  Ark.Msm.bitBuf_spec s w i hs hw1 hw hi

/-- non-vacuity: window 12 of width 5 covers bits 60..64, across the limb boundary -/
example : WF [15 * 2 ^ 60, 1] ∧ 12 * 5 < 64 * [15 * 2 ^ 60, 1].length ∧
    bitBuf [15 * 2 ^ 60, 1] 5 12 = .ok 31 := by
  unfold WF; decide +kernel

/-! ### 6. `make_digits` -/

/-- `make_digits(a, w, num_bits)` for `1 ≤ w ≤ 62` and `num_bits ≤ 64·N` (`0` = "use `a.num_bits()`"):
    no panic, `⌈num_bits/w⌉` digits, which denote `a mod 2^(w·count)` (`= a` inside the scalar domain
    `a < 2^num_bits`); all digits but the last are recentred into `[-2^(w-1), 2^(w-1))`, the last one
    is in `[0, 2^w]`. -/
theorem makeDigits_spec (s : List Nat) (w nb : Nat) (hs : WF s) (hw1 : 1 ≤ w) (hw : w ≤ 62)
    (hnb : (if nb = 0 then numBits s else nb) ≤ 64 * s.length) :
    ∃ ds, makeDigits s w nb = .ok ds ∧
      ds.length = divCeil (if nb = 0 then numBits s else nb) w ∧
      digitsValueW w ds
        = ((value s % 2 ^ (w * divCeil (if nb = 0 then numBits s else nb) w) : ℕ) : ℤ) ∧
      (value s < 2 ^ (if nb = 0 then numBits s else nb) → digitsValueW w ds = (value s : ℤ)) ∧
      (∀ i (h : i + 1 < ds.length), -(2 : ℤ) ^ (w - 1) ≤ ds[i] ∧ ds[i] < (2 : ℤ) ^ (w - 1)) ∧
      (∀ (h : 0 < ds.length), 0 ≤ ds[ds.length - 1] ∧ ds[ds.length - 1] ≤ (2 : ℤ) ^ w) := by
  obtain ⟨ds, h1, h2, h3, h4⟩ := Ark.Msm.makeDigits_spec s w nb hs hw1 hw hnb
  refine ⟨ds, h1, h2, h3, ?_, h4.index.1, h4.index.2⟩
  intro hv
  rw [h3, mod_window_eq _ _ _ hw1 hv]

/-- the same digit ranges in the form checked by the driver (`dropLast.all`, `getLast?.all`) -/
theorem makeDigits_ranges (s : List Nat) (w nb : Nat) (hs : WF s) (hw1 : 1 ≤ w) (hw : w ≤ 62)
    (hnb : (if nb = 0 then numBits s else nb) ≤ 64 * s.length) :
    ∃ ds, makeDigits s w nb = .ok ds ∧
      (∀ d ∈ ds.dropLast, -(2 : ℤ) ^ (w - 1) ≤ d ∧ d < (2 : ℤ) ^ (w - 1)) ∧
      (∀ d ∈ ds.getLast?, 0 ≤ d ∧ d ≤ (2 : ℤ) ^ w) := by
  obtain ⟨ds, h1, _, _, h4⟩ := Ark.Msm.makeDigits_spec s w nb hs hw1 hw hnb
  exact ⟨ds, h1, h4.1, h4.2⟩

/-- with `num_bits = 0` the bit length of the scalar is used: always in range, always exact -/
theorem makeDigits_auto (s : List Nat) (w : Nat) (hs : WF s) (hw1 : 1 ≤ w) (hw : w ≤ 62) :
    ∃ ds, makeDigits s w 0 = .ok ds ∧ ds.length = divCeil (numBits s) w ∧
      digitsValueW w ds = (value s : ℤ) := by
  obtain ⟨ds, h1, h2, h3, _⟩ := Ark.Msm.makeDigits_spec s w 0 hs hw1 hw (by
    rw [if_pos rfl]; exact numBits_le s hs)
  rw [if_pos rfl] at h2 h3
  refine ⟨ds, h1, h2, ?_⟩
  rw [h3, mod_window_eq _ _ _ hw1 (value_lt_two_pow_numBits s hs)]

/-- `num_bits.div_ceil(0)` -/
theorem makeDigits_w0 (s : List Nat) (nb : Nat) : makeDigits s 0 nb = .panic := rfl

/-- non-vacuity: two-limb scalars, window 5, 70 bits: recentred digits with a carry chain, both
    extreme digit values `-2^(w-1)` and (un-recentred last digit) `2^w` -/
example : WF [B - 1, 63] ∧ (if 70 = 0 then numBits [B - 1, 63] else 70) ≤ 64 * [B - 1, 63].length ∧
    value [B - 1, 63] < 2 ^ 70 := by
  unfold WF; decide +kernel
example : makeDigits [B - 1, 63] 5 70
    = .ok [-1, 0, 0, 0, 0, 0, 0, 0, 0, 0, 0, 0, 0, 32] := by decide +kernel
example : makeDigits [B - 1, 62] 5 70
    = .ok [-1, 0, 0, 0, 0, 0, 0, 0, 0, 0, 0, 0, -16, 32] := by decide +kernel

/-! ### 7. the signed-digit bucket loop -/

/-- the bucket-filling loop of window `i` (any bucket count `|B|`, the code uses `|B| = 2^c`): if every
    digit string has a digit `i` with `|dᵢ| ≤ |B|` then there is no out-of-bounds index, and
    `Σ_j (j+1) • B'[j] = Σ_j (j+1) • B[j] + Σ_{(ds,P)} ds[i] • P`. -/
theorem wnafFill_inv (i : Nat) (pairs : List (List Int × G)) (bs : List G)
    (h : ∀ p ∈ pairs, ∃ d, p.1[i]? = some d ∧ -(bs.length : ℤ) ≤ d ∧ d ≤ bs.length) :
    ∃ bs', wnafFill i bs pairs = .ok bs' ∧ bs'.length = bs.length ∧
      ∑ j ∈ Finset.range bs'.length, (j + 1) • bs'.getD j 0
        = ∑ j ∈ Finset.range bs.length, (j + 1) • bs.getD j 0
          + (pairs.map (fun p => p.1.getD i 0 • p.2)).sum := by
  obtain ⟨bs', h1, h2, h3⟩ := wnafFill_spec i pairs bs h
  exact ⟨bs', h1, h2, by rw [← wsum_eq_finset, ← wsum_eq_finset, h3]⟩

/-- one window of the signed-digit method: `2^c` zero buckets, fill, running sum -/
theorem wnafWindow_spec (c i : Nat) (pairs : List (List Int × G))
    (h : ∀ p ∈ pairs, ∃ d, p.1[i]? = some d ∧ -(2 : ℤ) ^ c ≤ d ∧ d ≤ (2 : ℤ) ^ c) :
    wnafWindow c i pairs = .ok (pairs.map (fun p => p.1.getD i 0 • p.2)).sum :=
  Ark.Msm.wnafWindow_spec c i pairs h

example : wnafWindow 3 1 [([0, 8], (5 : ℤ)), ([1, -8], 7), ([2, 0], 9), ([0, 3], 1)]
    = .ok (8 * 5 - 8 * 7 + 3 * 1) := by decide +kernel

/-! ### 8. `msm_bigint_wnaf` -/

/-- the signed-digit method returns `Σ (kᵢ mod 2^(c·⌈nb/c⌉)) • Pᵢ` over the common prefix -/
theorem msmBigintWnaf_spec (nb N : Nat) (bases : List G) (ks : List (List Nat))
    (hnb : 0 < nb) (hnbN : nb ≤ 64 * N) (hks : ∀ s ∈ ks, WF s ∧ s.length = N)
    (hsize : min bases.length ks.length < 2 ^ 64) :
    msmBigintWnaf nb bases ks = .ok
      (∑ i ∈ Finset.range (min bases.length ks.length),
        (value (ks.getD i []) % 2 ^ (windowSize (min bases.length ks.length)
          * divCeil nb (windowSize (min bases.length ks.length)))) • bases.getD i 0) := by
  rw [Ark.Msm.msmBigintWnaf_spec nb N bases ks hnb hnbN hks hsize]
  exact congrArg Outcome.ok (zipSum_eq_finset (fun s => value s % 2 ^ _) [] ks bases)

/-- `MODULUS_BIT_SIZE = 0`: `window_sums` is empty and `.first().unwrap()` panics -/
theorem msmBigintWnaf_nb0 (bases : List G) (ks : List (List Nat)) :
    msmBigintWnaf 0 bases ks = .panic := Ark.Msm.msmBigintWnaf_nb0 bases ks

example : msmBigintWnaf 7 [(3 : ℤ), 5, 11] [[100], [127], [0]] = .ok (100 * 3 + 127 * 5) := by
  decide +kernel

/-! ### 9. the plain bucket method -/

/-- the `for_each` of one window of the plain method (any `c ≤ 64`, `2^c − 1` buckets; unit scalars go
    to `res` in window 0): no panic and
    `res' + Σ_j (j+1)•B'[j] = res + Σ_j (j+1)•B[j] + Σ ((k >> wStart) mod 2^c) • P`. -/
theorem plainFill_inv (c wStart : Nat) (one : List Nat) (hc1 : 1 ≤ c) (hc : c ≤ 64)
    (pairs : List (List Nat × G)) (res : G) (bs : List G) (hbs : bs.length = 2 ^ c - 1)
    (h : ∀ p ∈ pairs, WF p.1 ∧ p.1 ≠ [] ∧ (p.1 = one → value p.1 = 1)) :
    ∃ res' bs', plainFill c wStart one res bs pairs = .ok (res', bs') ∧ bs'.length = bs.length ∧
      res' + ∑ j ∈ Finset.range bs'.length, (j + 1) • bs'.getD j 0
        = res + ∑ j ∈ Finset.range bs.length, (j + 1) • bs.getD j 0
          + (pairs.map (fun p => (value p.1 / 2 ^ wStart % 2 ^ c) • p.2)).sum := by
  obtain ⟨res', bs', h1, h2, h3⟩ := plainFill_spec c wStart one hc1 hc pairs res bs hbs h
  exact ⟨res', bs', h1, h2, by rw [← wsum_eq_finset, ← wsum_eq_finset, h3]⟩

theorem plainWindow_spec (c wStart : Nat) (one : List Nat) (hc1 : 1 ≤ c) (hc : c ≤ 64)
    (pairs : List (List Nat × G))
    (h : ∀ p ∈ pairs, WF p.1 ∧ p.1 ≠ [] ∧ (p.1 = one → value p.1 = 1)) :
    plainWindow c wStart one pairs
      = .ok (pairs.map (fun p => (value p.1 / 2 ^ wStart % 2 ^ c) • p.2)).sum :=
  Ark.Msm.plainWindow_spec c wStart one hc1 hc pairs h

/-- the plain method returns `Σ (kᵢ mod 2^(c·⌈nb/c⌉)) • Pᵢ` over the common prefix
    (`one` = the big integer of the field's `1`, of value `1`, or `0` in the degenerate field `r = 1`) -/
example : plainWindow 3 3 [1] [([100], (3 : ℤ)), ([1], 5), ([127], 2)]
    = .ok ((100 / 8 % 8) * 3 + (127 / 8 % 8) * 2) := by decide +kernel
example : plainWindow 3 0 [1] [([100], (3 : ℤ)), ([1], 5), ([127], 2)]
    = .ok ((100 % 8) * 3 + 5 + (127 % 8) * 2) := by decide +kernel

theorem msmBigintPlain_spec (nb : Nat) (one : List Nat) (bases : List G) (ks : List (List Nat))
    (hnb : 0 < nb) (hone : value one ≤ 1) (hks : ∀ s ∈ ks, WF s)
    (hsize : min bases.length ks.length < 2 ^ 64) :
    msmBigintPlain nb one bases ks = .ok
      (∑ i ∈ Finset.range (min bases.length ks.length),
        (value (ks.getD i []) % 2 ^ (windowSize (min bases.length ks.length)
          * divCeil nb (windowSize (min bases.length ks.length)))) • bases.getD i 0) := by
  rw [Ark.Msm.msmBigintPlain_spec nb one bases ks hnb hone hks hsize]
  exact congrArg Outcome.ok (zipSum_eq_finset (fun s => value s % 2 ^ _) [] ks bases)

theorem msmBigintPlain_nb0 (one : List Nat) (bases : List G) (ks : List (List Nat)) :
    msmBigintPlain 0 one bases ks = .panic := Ark.Msm.msmBigintPlain_nb0 one bases ks

/-- non-vacuity: a unit scalar, a zero scalar and two ordinary ones -/
example : msmBigintPlain 7 [1] [(3 : ℤ), 5, 11, 2] [[100], [1], [0], [127]]
    = .ok (100 * 3 + 1 * 5 + 127 * 2) := by decide +kernel

/-! ### 10. `msm_bigint`, `msm_unchecked` -/

/-- the modulus is below `2^MODULUS_BIT_SIZE` -/
theorem r_lt_two_pow_numBits (cfg : Cfg) (hr : cfg.r < 2 ^ (64 * cfg.limbs)) :
    cfg.r < 2 ^ cfg.numBits := cfg.r_lt_two_pow_numBits hr

theorem numBits_range (cfg : Cfg) (hr0 : 0 < cfg.r) (hr : cfg.r < 2 ^ (64 * cfg.limbs)) :
    0 < cfg.numBits ∧ cfg.numBits ≤ 64 * cfg.limbs :=
  ⟨cfg.numBits_pos hr0 hr, cfg.numBits_le hr0 hr⟩

/-- `msm_bigint` (both values of `NEGATION_IS_CHEAP`) on arbitrary `N`-limb big integers: the bits of
    each scalar below `c·⌈numBits/c⌉` are used -/
theorem msmBigint_spec (cfg : Cfg) (hr0 : 0 < cfg.r) (hr : cfg.r < 2 ^ (64 * cfg.limbs))
    (bases : List G) (ks : List (List Nat)) (hks : ∀ k ∈ ks, WF k ∧ k.length = cfg.limbs)
    (hsize : min bases.length ks.length < 2 ^ 64) :
    msmBigint cfg bases ks = .ok
      (∑ i ∈ Finset.range (min bases.length ks.length),
        (value (ks.getD i []) % 2 ^ (windowSize (min bases.length ks.length)
          * divCeil cfg.numBits (windowSize (min bases.length ks.length)))) • bases.getD i 0) := by
  rw [Ark.Msm.msmBigint_spec cfg hr0 hr bases ks hks hsize]
  exact congrArg Outcome.ok (zipSum_eq_finset (fun s => value s % 2 ^ _) [] ks bases)

/-- inside the scalar domain `k < 2^MODULUS_BIT_SIZE`, `msm_bigint` returns `Σ kᵢ • Pᵢ` -/
theorem msmBigint_exact (cfg : Cfg) (hr0 : 0 < cfg.r) (hr : cfg.r < 2 ^ (64 * cfg.limbs))
    (bases : List G) (ks : List (List Nat))
    (hks : ∀ k ∈ ks, WF k ∧ k.length = cfg.limbs ∧ value k < 2 ^ cfg.numBits)
    (hsize : min bases.length ks.length < 2 ^ 64) :
    msmBigint cfg bases ks = .ok
      (∑ i ∈ Finset.range (min bases.length ks.length), value (ks.getD i []) • bases.getD i 0) := by
  rw [Ark.Msm.msmBigint_exact cfg hr0 hr bases ks hks hsize]
  exact congrArg Outcome.ok (zipSum_eq_finset (fun s => value s) [] ks bases)

/-- non-vacuity: `r = 101` (`numBits = 7`, `c = 3`, three windows = 9 bits): an out-of-domain big
    integer `2^9 + 5` is read as `5`, an in-domain one exactly -/
example : (∀ k ∈ [[517], [100]], WF k ∧ k.length = (⟨101, 1, true⟩ : Cfg).limbs) ∧
    (⟨101, 1, true⟩ : Cfg).numBits = 7 := by
  unfold WF; decide +kernel
example : msmBigint ⟨101, 1, true⟩ [(1 : ℤ), 10] [[517], [100]] = .ok (5 + 1000) := by decide +kernel
example : msmBigint ⟨101, 1, false⟩ [(1 : ℤ), 10] [[517], [100]] = .ok (5 + 1000) := by decide +kernel

/-- the headline: `msm_unchecked` returns `Σ_{i < min(len)} kᵢ • Pᵢ`, for every pair of lengths and
    both bucket methods -/
theorem msmUnchecked_spec (cfg : Cfg) (hr0 : 0 < cfg.r) (hr : cfg.r < 2 ^ (64 * cfg.limbs))
    (bases : List G) (ks : List Nat) (hks : ∀ k ∈ ks, k < cfg.r)
    (hsize : min bases.length ks.length < 2 ^ 64) :
    msmUnchecked cfg bases ks = .ok
      (∑ i ∈ Finset.range (min bases.length ks.length), ks.getD i 0 • bases.getD i 0) := by
  rw [Ark.Msm.msmUnchecked_spec cfg hr0 hr bases ks hks hsize]
  exact congrArg Outcome.ok (zipSum_eq_finset (fun k => k) 0 ks bases)

/-- non-vacuity: `r = 101`, one limb; lengths 0, 1, 3 (`c = 3`) and 33 (`c = 5`), both methods,
    unequal lengths -/
example : (0 < (⟨101, 1, true⟩ : Cfg).r) ∧ (⟨101, 1, true⟩ : Cfg).r < 2 ^ (64 * (⟨101, 1, true⟩ : Cfg).limbs) ∧
    (∀ k ∈ [100, 1, 0, 57], k < (⟨101, 1, true⟩ : Cfg).r) := by decide
example : msmUnchecked ⟨101, 1, true⟩ ([] : List ℤ) [] = .ok 0 := by decide +kernel
example : msmUnchecked ⟨101, 1, false⟩ ([] : List ℤ) [5] = .ok 0 := by decide +kernel
example : msmUnchecked ⟨101, 1, true⟩ [(7 : ℤ)] [100] = .ok 700 := by decide +kernel
example : msmUnchecked ⟨101, 1, true⟩ [(3 : ℤ), 5, 11, 2, 9] [100, 1, 0, 57]
    = .ok (100 * 3 + 1 * 5 + 0 * 11 + 57 * 2) := by decide +kernel
example : msmUnchecked ⟨101, 1, false⟩ [(3 : ℤ), 5, 11, 2, 9] [100, 1, 0, 57]
    = .ok (100 * 3 + 1 * 5 + 0 * 11 + 57 * 2) := by decide +kernel
example : msmUnchecked ⟨101, 1, true⟩ (List.replicate 33 (1 : ℤ)) (List.replicate 33 100)
    = .ok 3300 := by decide +kernel
example : msmUnchecked ⟨101, 1, false⟩ (List.replicate 33 (1 : ℤ)) (List.replicate 33 100)
    = .ok 3300 := by decide +kernel

/-! ### 11. `msm` -/

theorem msm_spec (cfg : Cfg) (hr0 : 0 < cfg.r) (hr : cfg.r < 2 ^ (64 * cfg.limbs))
    (bases : List G) (ks : List Nat) (hks : ∀ k ∈ ks, k < cfg.r) (hlen : bases.length = ks.length)
    (hsize : ks.length < 2 ^ 64) :
    msm cfg bases ks = .ok (.ok (∑ i ∈ Finset.range ks.length, ks.getD i 0 • bases.getD i 0)) := by
  rw [msm_spec_eq cfg hr0 hr bases ks hks hlen hsize, zipSum_eq_finset (fun k => k) 0 ks bases,
    hlen, Nat.min_self]

/-- a length mismatch is reported as `Err(min(len))` — for every configuration and all inputs -/
theorem msm_len_mismatch (cfg : Cfg) (bases : List G) (ks : List Nat)
    (hlen : bases.length ≠ ks.length) :
    msm cfg bases ks = .ok (.error (min bases.length ks.length)) :=
  msm_spec_ne cfg bases ks hlen

example : msm ⟨101, 1, true⟩ [(3 : ℤ), 5] [100, 57] = .ok (.ok (100 * 3 + 57 * 5)) := by
  decide +kernel
example : msm ⟨101, 1, true⟩ [(3 : ℤ), 5, 7] [100, 57] = .ok (.error 2) := by decide +kernel

/-! ### 15. no-panic corollaries -/

theorem makeDigits_no_panic (s : List Nat) (w nb : Nat) (hs : WF s) (hw1 : 1 ≤ w) (hw : w ≤ 62)
    (hnb : (if nb = 0 then numBits s else nb) ≤ 64 * s.length) : makeDigits s w nb ≠ .panic := by
  obtain ⟨ds, h, _⟩ := Ark.Msm.makeDigits_spec s w nb hs hw1 hw hnb
  rw [h]; exact fun h => by cases h

theorem msmBigintWnaf_no_panic (nb N : Nat) (bases : List G) (ks : List (List Nat))
    (hnb : 0 < nb) (hnbN : nb ≤ 64 * N) (hks : ∀ s ∈ ks, WF s ∧ s.length = N)
    (hsize : min bases.length ks.length < 2 ^ 64) : msmBigintWnaf nb bases ks ≠ .panic := by
  rw [Ark.Msm.msmBigintWnaf_spec nb N bases ks hnb hnbN hks hsize]
  exact fun h => by cases h

theorem msmBigintPlain_no_panic (nb : Nat) (one : List Nat) (bases : List G) (ks : List (List Nat))
    (hnb : 0 < nb) (hone : value one ≤ 1) (hks : ∀ s ∈ ks, WF s)
    (hsize : min bases.length ks.length < 2 ^ 64) : msmBigintPlain nb one bases ks ≠ .panic := by
  rw [Ark.Msm.msmBigintPlain_spec nb one bases ks hnb hone hks hsize]
  exact fun h => by cases h

theorem msmBigint_no_panic (cfg : Cfg) (hr0 : 0 < cfg.r) (hr : cfg.r < 2 ^ (64 * cfg.limbs))
    (bases : List G) (ks : List (List Nat)) (hks : ∀ k ∈ ks, WF k ∧ k.length = cfg.limbs)
    (hsize : min bases.length ks.length < 2 ^ 64) : msmBigint cfg bases ks ≠ .panic := by
  rw [Ark.Msm.msmBigint_spec cfg hr0 hr bases ks hks hsize]
  exact fun h => by cases h

theorem msmUnchecked_no_panic (cfg : Cfg) (hr0 : 0 < cfg.r) (hr : cfg.r < 2 ^ (64 * cfg.limbs))
    (bases : List G) (ks : List Nat) (hks : ∀ k ∈ ks, k < cfg.r)
    (hsize : min bases.length ks.length < 2 ^ 64) : msmUnchecked cfg bases ks ≠ .panic := by
  rw [Ark.Msm.msmUnchecked_spec cfg hr0 hr bases ks hks hsize]
  exact fun h => by cases h

theorem msm_no_panic (cfg : Cfg) (hr0 : 0 < cfg.r) (hr : cfg.r < 2 ^ (64 * cfg.limbs))
    (bases : List G) (ks : List Nat) (hks : ∀ k ∈ ks, k < cfg.r)
    (hsize : min bases.length ks.length < 2 ^ 64) : msm cfg bases ks ≠ .panic := by
  by_cases hlen : bases.length = ks.length
  · rw [msm_spec_eq cfg hr0 hr bases ks hks hlen (by rw [hlen] at hsize; simpa using hsize)]
    exact fun h => by cases h
  · rw [msm_spec_ne cfg bases ks hlen]
    exact fun h => by cases h

end Ark.C05
