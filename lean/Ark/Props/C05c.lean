import Ark.Proofs.TeGroupExec
/-
  Property C05 (part c) — the generic MSM theorems (C05a / C05b / C05, stated over `[AddCommGroup G]`)
  hold for the model `Ark.Msm` run at the EXECUTABLE specification groups of the driver
  (`Ark/Model/DrvC05.lean`), with the driver's reference sum `specSum` (a `foldl` of the executable `+`
  and of the reference scalar multiplication `TePt.smul` / `k·e mod r`) as the value:

    §1  `Ark.TePt p a d` (affine twisted-Edwards pairs over the executable `Fp p`) computes the affine
        Edwards law `TE.affAdd / affNeg / (0,1) / onCurve` over `ZMod p` — for ALL pairs, also when a
        denominator vanishes (`Fp` has `0⁻¹ = 0`, as `ZMod p`)
    §2  complete curve (`a = α² ≠ 0`, `d` a non-square mod `p`): the reduced curve points `TePoint p a d`
        are an abelian group under the executable operations, isomorphic to `TE.Point (a : ZMod p) d`
        (C03c); `TePt.smul` / `TePt.smulInt` are its `ℕ` / `ℤ` actions
    §3  the C05 theorems for `G := TePt p a d`, bases on the curve (carrier-relative: `TePt p a d` as a
        whole is NOT a group; the transfer goes through the inclusion `TePoint p a d → TePt p a d`,
        along which every function of the model is natural — `Ark.MsmHom`)
    §4  the same for `G := Fp r` with `+` (discrete logarithms of `PairingOutput`), where the reference
        sum is `Σ kᵢ·eᵢ mod r`
    §5  the same for the short-Weierstrass spec group `G := AffPt p E` (non-singular curve), whose reduced
        curve points are Mathlib's `WeierstrassCurve.Affine.Point` (bridge of C03a)

  Helpers: Ark/Proofs/TeGroupExec.lean.
-/
namespace Ark.C05
open Ark Ark.Msm Ark.Curve Ark.TeExec Ark.MsmHom
open Ark.DrvC05 (specSum teIo zrIo)
open Ark.Bytes (toZ)

/-! ### the toy curve of the examples: `x² + y² = 1 + 7 x² y²` over `F_13` (complete, 20 points) -/

local instance fact13e : Fact (Nat.Prime 13) := ⟨by decide⟩
local instance complete13 : CompleteTE 13 1 7 :=
  ⟨⟨1, by decide, by decide⟩, by rintro ⟨r, hr⟩; revert r; decide⟩

/-- `(2,4)` (order 10), `(5,6)` (a generator), `(9,11)` -/
def tP1 : TePt 13 1 7 := ⟨⟨2⟩, ⟨4⟩⟩
def tP2 : TePt 13 1 7 := ⟨⟨5⟩, ⟨6⟩⟩
def tP3 : TePt 13 1 7 := ⟨⟨9⟩, ⟨11⟩⟩
/-- `2·(2,4) = (6,8)`, of order 5 -/
def tQ : TePt 13 1 7 := ⟨⟨6⟩, ⟨8⟩⟩

theorem toy_bases_ok : ∀ P ∈ [tP1, tP2, tP3], Reduced P ∧ P.onCurve = true := by decide
theorem toyQ_bases_ok : ∀ P ∈ [tQ, tQ + tQ], Reduced P ∧ P.onCurve = true := by decide +kernel

/-! ## 1. `TePt` computes the affine Edwards law over `ZMod p` -/

section law
variable {p a d : ℕ}

/-- the executable field inverts as `ZMod p` does, at every element (`0⁻¹ = 0`), so quotients with a
    vanishing denominator agree too -/
theorem fp_inv_div (hp : p.Prime) (x y : Fp p) :
    toZ x⁻¹ = (toZ x)⁻¹ ∧ toZ (x / y) = toZ x * (toZ y)⁻¹ ∧ (0 : Fp p)⁻¹ = 0 :=
  ⟨toZ_inv' hp x, toZ_div hp x y, by
    apply Bytes.Fp.ext'
    show Spec.modInv 0 p % p = 0
    rw [modInv_of_mod_zero 0 p hp.pos (Nat.zero_mod p), Nat.zero_mod]⟩

example : (⟨0⟩ : Fp 13)⁻¹ = ⟨0⟩ ∧ (⟨5⟩ : Fp 13) / ⟨0⟩ = ⟨0⟩ ∧ (⟨5⟩ : Fp 13) / ⟨2⟩ = ⟨9⟩ := by
  decide +kernel

/-- `+`, `-`, `0`, binary `-`, `onCurve` of `TePt p a d`, read modulo `p`, are `TE.affAdd`, `TE.affNeg`,
    `(0, 1)`, `affAdd · (affNeg ·)`, `TE.onCurve` over `ZMod p` with coefficients `(a : ZMod p)`,
    `(d : ZMod p)` — no hypothesis on the points (any representatives, on the curve or not, defined
    addition or not) and none on the curve -/
theorem tePt_is_affine_law (hp : p.Prime) (P Q : TePt p a d) :
    toZP (P + Q) = TE.affAdd (a : ZMod p) (d : ZMod p) (toZP P) (toZP Q) ∧
    toZP (-P) = TE.affNeg (toZP P) ∧
    toZP (0 : TePt p a d) = ((0 : ZMod p), (1 : ZMod p)) ∧
    toZP (P - Q) = TE.affAdd (a : ZMod p) (d : ZMod p) (toZP P) (TE.affNeg (toZP Q)) ∧
    P.onCurve = TE.onCurve (a : ZMod p) (d : ZMod p) (toZP P) :=
  ⟨toZP_add hp P Q, toZP_neg hp.pos P, toZP_zero, toZP_sub hp P Q, onCurve_toZP hp P⟩

/-- the same from `ZMod p` to the executable points: the canonical lift `ofZP` turns `TE.affAdd`,
    `TE.affNeg`, `(0,1)`, `TE.onCurve` into the executable operations, and is inverse to `toZP` on
    reduced points -/
theorem tePt_lift (hp : p.Prime) (P Q : ZMod p × ZMod p) :
    ofZP p a d (TE.affAdd (a : ZMod p) (d : ZMod p) P Q) = ofZP p a d P + ofZP p a d Q ∧
    ofZP p a d (TE.affNeg P) = -ofZP p a d P ∧
    ofZP p a d ((0 : ZMod p), (1 : ZMod p)) = 0 ∧
    (ofZP p a d P).onCurve = TE.onCurve (a : ZMod p) (d : ZMod p) P ∧
    toZP (ofZP p a d P) = P ∧ Reduced (ofZP p a d P) :=
  haveI : NeZero p := ⟨hp.ne_zero⟩
  ⟨ofZP_add hp P Q, ofZP_neg hp P, ofZP_zero hp, onCurve_ofZP hp P, toZP_ofZP P, reduced_ofZP P⟩

theorem tePt_reduced_roundtrip (P : TePt p a d) (hP : Reduced P) : ofZP p a d (toZP P) = P :=
  ofZP_toZP P hP

/-- every result of the executable operations is reduced -/
theorem tePt_reduced_ops (hp : 0 < p) (P Q : TePt p a d) :
    Reduced (P + Q) ∧ Reduced (P - Q) ∧ Reduced (0 : TePt p a d) ∧ (Reduced P → Reduced (-P)) :=
  ⟨reduced_add hp P Q, reduced_add hp P _, reduced_zero hp, reduced_neg hp P⟩

-- `(2,4) + (5,6) = (8,6)` on both sides; an undefined addition on the INCOMPLETE curve `a = 2`
-- (`(3,4) + (4,6)`: the first denominator vanishes) is the same pair on both sides
example : tP1 + tP2 = ⟨⟨8⟩, ⟨6⟩⟩ ∧ TE.affAdd (1 : ZMod 13) 7 (2, 4) (5, 6) = (8, 6) ∧
    toZP (tP1 + tP2) = (8, 6) := by decide +kernel
example : TE.affAddDefined (7 : ZMod 13) (3, 4) (4, 6) = false ∧
    toZP ((⟨⟨3⟩, ⟨4⟩⟩ : TePt 13 2 7) + ⟨⟨4⟩, ⟨6⟩⟩) = TE.affAdd (2 : ZMod 13) 7 (3, 4) (4, 6) := by
  decide +kernel

end law

/-! ## 2. the group of reduced curve points under the executable operations -/

section group
variable {p a d : ℕ}

/-- `CompleteTE p a d` is: `a` is a non-zero square and `d` a non-square modulo `p` -/
theorem completeTE_iff : CompleteTE p a d ↔
    (∃ α : ZMod p, α ≠ 0 ∧ (a : ZMod p) = α * α) ∧ ¬ IsSquare (d : ZMod p) :=
  ⟨fun h => ⟨h.sq, h.nonsq⟩, fun h => ⟨h.1, h.2⟩⟩

variable [Fact p.Prime] [CompleteTE p a d]

/-- on a complete curve the reduced curve points `TePoint p a d = {P : TePt p a d // Reduced P ∧ onCurve P}`
    are an ABELIAN GROUP whose operations are the executable ones (`TePt.teAdd`, `TePt.teNeg`, `(0,1)`,
    `teAdd · (teNeg ·)`), whose `ℕ`-action is the driver's reference scalar multiplication `TePt.smul`
    and whose `ℤ`-action is `TePt.smulInt`; residue classes `e P = toZP P` are an isomorphism onto the
    group `TE.Point (a : ZMod p) d` of C03c (`+ = TE.affAdd`) -/
theorem tePoint_addCommGroup :
    ∃ (_ : AddCommGroup (TePoint p a d)) (_ : AddCommGroup (TE.Point (a : ZMod p) (d : ZMod p)))
      (e : TePoint p a d ≃+ TE.Point (a : ZMod p) (d : ZMod p)),
      (∀ P Q : TePoint p a d, (P + Q).1 = P.1 + Q.1) ∧
      (0 : TePoint p a d).1 = 0 ∧
      (∀ P : TePoint p a d, (-P).1 = -P.1) ∧
      (∀ P Q : TePoint p a d, (P - Q).1 = P.1 - Q.1) ∧
      (∀ (k : ℕ) (P : TePoint p a d), (k • P).1 = TePt.smul k P.1) ∧
      (∀ (k : ℤ) (P : TePoint p a d), (k • P).1 = TePt.smulInt k P.1) ∧
      (∀ P : TePoint p a d, (e P).1 = toZP P.1) ∧
      (∀ P : TE.Point (a : ZMod p) (d : ZMod p), (e.symm P).1 = ofZP p a d P.1) ∧
      (∀ P Q : TE.Point (a : ZMod p) (d : ZMod p), (P + Q).1 = TE.affAdd (a : ZMod p) d P.1 Q.1) :=
  ⟨tePointGroup, pointGroup, tePointEquiv, fun _ _ => rfl, rfl, fun _ => rfl, fun _ _ => rfl,
    tePoint_nsmul_val, tePoint_zsmul_val, fun _ => rfl, fun _ => rfl, fun _ _ => rfl⟩

/-- `TePt.smul k P` / `TePt.smulInt k P` correspond to `k • ·` in the group over `ZMod p` -/
theorem tePt_smul_correct (P : TePt p a d) (hP : Reduced P ∧ P.onCurve = true) (k : ℕ) (z : ℤ) :
    toZP (TePt.smul k P) = (k • toPoint ⟨P, hP⟩).1 ∧
    toZP (TePt.smulInt z P) = (z • toPoint ⟨P, hP⟩).1 ∧
    (Reduced (TePt.smul k P) ∧ (TePt.smul k P).onCurve = true) ∧
    (Reduced (TePt.smulInt z P) ∧ (TePt.smulInt z P).onCurve = true) := by
  refine ⟨?_, ?_, ?_, ?_⟩
  · rw [← toPoint_nsmul k ⟨P, hP⟩]
    exact congrArg toZP (tePoint_nsmul_val k ⟨P, hP⟩).symm
  · rw [← toPoint_zsmul z ⟨P, hP⟩]
    exact congrArg toZP (tePoint_zsmul_val z ⟨P, hP⟩).symm
  · rw [← tePoint_nsmul_val k ⟨P, hP⟩]; exact (k • (⟨P, hP⟩ : TePoint p a d)).2
  · rw [← tePoint_zsmul_val z ⟨P, hP⟩]; exact (z • (⟨P, hP⟩ : TePoint p a d)).2

/-- the group laws, written with the executable operations on `TePt` -/
theorem tePt_group_laws (P Q R : TePt p a d) (hP : Reduced P ∧ P.onCurve = true)
    (hQ : Reduced Q ∧ Q.onCurve = true) (hR : Reduced R ∧ R.onCurve = true) (m n : ℕ) :
    (P + Q) + R = P + (Q + R) ∧ P + Q = Q + P ∧ P + 0 = P ∧ P + -P = 0 ∧ P - Q = P + -Q ∧
    (Reduced (P + Q) ∧ (P + Q).onCurve = true) ∧
    TePt.smul (m + n) P = TePt.smul m P + TePt.smul n P ∧
    TePt.smul (m * n) P = TePt.smul m (TePt.smul n P) := by
  let P' : TePoint p a d := ⟨P, hP⟩
  let Q' : TePoint p a d := ⟨Q, hQ⟩
  let R' : TePoint p a d := ⟨R, hR⟩
  refine ⟨congrArg Subtype.val (add_assoc P' Q' R'), congrArg Subtype.val (add_comm P' Q'),
    congrArg Subtype.val (add_zero P'), congrArg Subtype.val (add_neg_cancel P'), rfl, (P' + Q').2,
    ?_, ?_⟩
  · rw [← tePoint_nsmul_val (m + n) P', ← tePoint_nsmul_val m P', ← tePoint_nsmul_val n P']
    exact congrArg Subtype.val (add_nsmul P' m n)
  · rw [← tePoint_nsmul_val (m * n) P', ← tePoint_nsmul_val n P', ← tePoint_nsmul_val m (n • P')]
    exact congrArg Subtype.val (mul_nsmul' P' m n)

end group

-- the toy curve: hypotheses and values
example : CompleteTE 13 1 7 := complete13
example : TePt.smul 5 tP1 = ⟨⟨0⟩, ⟨12⟩⟩ ∧ TePt.smul 10 tP1 = 0 ∧ TePt.smul 20 tP2 = 0 ∧
    TePt.smul 10 tP2 = ⟨⟨0⟩, ⟨12⟩⟩ ∧ TePt.smulInt (-3) tP1 = ⟨⟨7⟩, ⟨5⟩⟩ ∧ TePt.smul 7 tP1 = ⟨⟨7⟩, ⟨5⟩⟩ := by
  decide +kernel
example : (tP1 + tP2) + tP3 = ⟨⟨7⟩, ⟨5⟩⟩ ∧ tP1 + (tP2 + tP3) = ⟨⟨7⟩, ⟨5⟩⟩ := by decide +kernel
-- off the curve the executable law is not associative: the carrier hypothesis of §3 is needed
example : (⟨⟨1⟩, ⟨2⟩⟩ : TePt 13 1 7).onCurve = false ∧
    ((⟨⟨1⟩, ⟨2⟩⟩ : TePt 13 1 7) + tP1) + tP2 ≠ ⟨⟨1⟩, ⟨2⟩⟩ + (tP1 + tP2) := by decide +kernel

/-! ## 3. the C05 theorems at `G := TePt p a d`

  Hypotheses on the curve: `p` prime, the curve complete; on the bases: reduced coordinates (what the
  driver's parser `pTe` produces) and the curve equation.  Everything else is the hypothesis list of the
  generic theorem.  The value is `specSum (teIo p a d) bases ks`, the `foldl` of the executable `+` over
  `TePt.smul kᵢ Pᵢ` that the driver's verdict computes. -/

section te
variable {p a d : ℕ} [Fact p.Prime] [CompleteTE p a d]

omit [Fact p.Prime] [CompleteTE p a d] in
theorem te_carrier {bases : List (TePt p a d)} (hb : ∀ P ∈ bases, Reduced P ∧ P.onCurve = true) :
    ∀ P ∈ bases, ∃ x : TePoint p a d, x.1 = P := fun P hP => ⟨⟨P, hb P hP⟩, rfl⟩

/-- the signed-digit bucket method on curve points: `Σ (kᵢ mod 2^(c·⌈nb/c⌉)) · Pᵢ` -/
theorem te_msmBigintWnaf (nb N : Nat) (bases : List (TePt p a d)) (ks : List (List Nat))
    (hb : ∀ P ∈ bases, Reduced P ∧ P.onCurve = true)
    (hnb : 0 < nb) (hnbN : nb ≤ 64 * N) (hks : ∀ s ∈ ks, WF s ∧ s.length = N)
    (hsize : min bases.length ks.length < 2 ^ 64) :
    msmBigintWnaf nb bases ks = .ok (specSum (teIo p a d) bases (ks.map fun k =>
      value k % 2 ^ (windowSize (min bases.length ks.length)
        * divCeil nb (windowSize (min bases.length ks.length))))) :=
  msmBigintWnaf_hom val_opHom (teIo p a d) val_smul nb N bases ks (te_carrier hb) hnb hnbN hks hsize

/-- the plain bucket method on curve points -/
theorem te_msmBigintPlain (nb : Nat) (one : List Nat) (bases : List (TePt p a d))
    (ks : List (List Nat)) (hb : ∀ P ∈ bases, Reduced P ∧ P.onCurve = true)
    (hnb : 0 < nb) (hone : value one ≤ 1) (hks : ∀ s ∈ ks, WF s)
    (hsize : min bases.length ks.length < 2 ^ 64) :
    msmBigintPlain nb one bases ks = .ok (specSum (teIo p a d) bases (ks.map fun k =>
      value k % 2 ^ (windowSize (min bases.length ks.length)
        * divCeil nb (windowSize (min bases.length ks.length))))) :=
  msmBigintPlain_hom val_opHom (teIo p a d) val_smul nb one bases ks (te_carrier hb) hnb hone hks hsize

/-- `msm_bigint` (both bucket methods) on arbitrary `N`-limb big integers: the bits below
    `c·⌈numBits/c⌉` are used (the driver's `judgeBig` note) -/
theorem te_msmBigint (cfg : Cfg) (hr0 : 0 < cfg.r) (hr : cfg.r < 2 ^ (64 * cfg.limbs))
    (bases : List (TePt p a d)) (ks : List (List Nat))
    (hb : ∀ P ∈ bases, Reduced P ∧ P.onCurve = true)
    (hks : ∀ k ∈ ks, WF k ∧ k.length = cfg.limbs)
    (hsize : min bases.length ks.length < 2 ^ 64) :
    msmBigint cfg bases ks = .ok (specSum (teIo p a d) bases (ks.map fun k =>
      value k % 2 ^ (windowSize (min bases.length ks.length)
        * divCeil cfg.numBits (windowSize (min bases.length ks.length))))) :=
  msmBigint_hom val_opHom (teIo p a d) val_smul cfg hr0 hr bases ks (te_carrier hb) hks hsize

/-- inside the scalar domain `k < 2^MODULUS_BIT_SIZE`: `Σ kᵢ · Pᵢ` -/
theorem te_msmBigint_exact (cfg : Cfg) (hr0 : 0 < cfg.r) (hr : cfg.r < 2 ^ (64 * cfg.limbs))
    (bases : List (TePt p a d)) (ks : List (List Nat))
    (hb : ∀ P ∈ bases, Reduced P ∧ P.onCurve = true)
    (hks : ∀ k ∈ ks, WF k ∧ k.length = cfg.limbs ∧ value k < 2 ^ cfg.numBits)
    (hsize : min bases.length ks.length < 2 ^ 64) :
    msmBigint cfg bases ks = .ok (specSum (teIo p a d) bases (ks.map value)) :=
  msmBigint_exact_hom val_opHom (teIo p a d) val_smul cfg hr0 hr bases ks (te_carrier hb) hks hsize

/-- the headline: `msm_unchecked` on curve points returns the reference sum `Σ_{i<min} kᵢ · Pᵢ` -/
theorem te_msmUnchecked (cfg : Cfg) (hr0 : 0 < cfg.r) (hr : cfg.r < 2 ^ (64 * cfg.limbs))
    (bases : List (TePt p a d)) (ks : List Nat) (hb : ∀ P ∈ bases, Reduced P ∧ P.onCurve = true)
    (hks : ∀ k ∈ ks, k < cfg.r) (hsize : min bases.length ks.length < 2 ^ 64) :
    msmUnchecked cfg bases ks = .ok (specSum (teIo p a d) bases ks) :=
  msmUnchecked_hom val_opHom (teIo p a d) val_smul cfg hr0 hr bases ks (te_carrier hb) hks hsize

/-- the checked `msm`: the reference sum, or `Err(min len)` on a length mismatch -/
theorem te_msm (cfg : Cfg) (hr0 : 0 < cfg.r) (hr : cfg.r < 2 ^ (64 * cfg.limbs))
    (bases : List (TePt p a d)) (ks : List Nat) (hb : ∀ P ∈ bases, Reduced P ∧ P.onCurve = true)
    (hks : ∀ k ∈ ks, k < cfg.r) (hsize : min bases.length ks.length < 2 ^ 64) :
    msm cfg bases ks = if bases.length = ks.length then .ok (.ok (specSum (teIo p a d) bases ks))
      else .ok (.error (min bases.length ks.length)) :=
  msm_hom val_opHom (teIo p a d) val_smul cfg hr0 hr bases ks (te_carrier hb) hks hsize

/-- `msm_chunks` with any chunk size: the `assert!`, the skipped leading bases, the reference sum -/
theorem te_msmChunksWith (cfg : Cfg) (hr0 : 0 < cfg.r) (hr : cfg.r < 2 ^ (64 * cfg.limbs))
    (hN : 0 < cfg.limbs) (step : Nat) (hstep : 0 < step) (bases : List (TePt p a d)) (ks : List Nat)
    (hb : ∀ P ∈ bases, Reduced P ∧ P.onCurve = true) (hks : ∀ k ∈ ks, k < cfg.r)
    (hB : step < 2 ^ 64 ∨ ks.length < 2 ^ 64) :
    msmChunksWith step cfg bases ks =
      if ks.length ≤ bases.length then
        .ok (specSum (teIo p a d) (bases.drop (bases.length - ks.length)) ks)
      else .panic :=
  msmChunksWith_hom val_opHom (teIo p a d) val_smul cfg hr0 hr hN step hstep bases ks (te_carrier hb)
    hks hB

/-- `VariableBaseMSM::msm_chunks` (`step = 1 << 20`) -/
theorem te_msmChunks (cfg : Cfg) (hr0 : 0 < cfg.r) (hr : cfg.r < 2 ^ (64 * cfg.limbs))
    (hN : 0 < cfg.limbs) (bases : List (TePt p a d)) (ks : List Nat)
    (hb : ∀ P ∈ bases, Reduced P ∧ P.onCurve = true) (hks : ∀ k ∈ ks, k < cfg.r) :
    msmChunks cfg bases ks =
      if ks.length ≤ bases.length then
        .ok (specSum (teIo p a d) (bases.drop (bases.length - ks.length)) ks)
      else .panic :=
  te_msmChunksWith cfg hr0 hr hN _ (by decide) bases ks hb hks (Or.inl (by decide))

/-- `ChunkedPippenger`: every add history, every buffer size -/
theorem te_chunked_run (cfg : Cfg) (hr0 : 0 < cfg.r) (hr : cfg.r < 2 ^ (64 * cfg.limbs))
    (bufSize : Nat) (adds : List (TePt p a d × List Nat))
    (hb : ∀ a ∈ adds, Reduced a.1 ∧ a.1.onCurve = true)
    (hP : ∀ a ∈ adds, a.2.length = cfg.limbs ∧ WF a.2 ∧ value a.2 < 2 ^ cfg.numBits)
    (hB : adds.length < 2 ^ 64 ∨ (0 < bufSize ∧ bufSize < 2 ^ 64)) :
    Chunked.run cfg bufSize adds
      = .ok (specSum (teIo p a d) (adds.map (·.1)) (adds.map (fun a => value a.2))) :=
  chunked_run_hom val_opHom (teIo p a d) val_smul cfg hr0 hr bufSize adds
    (fun a ha => ⟨⟨a.1, hb a ha⟩, rfl⟩) hP hB

/-- `HashMapPippenger`: every add history with bases killed by `r` — tested with the reference scalar
    multiplication, exactly the driver's side condition `io.smul cfg.r a.1 = 0` — every buffer size;
    no condition on the scalars -/
theorem te_hashMap_run (cfg : Cfg) (hr0 : 0 < cfg.r) (hr : cfg.r < 2 ^ (64 * cfg.limbs))
    (hN : 0 < cfg.limbs) (bufSize : Nat) (adds : List (TePt p a d × Nat))
    (hb : ∀ a ∈ adds, Reduced a.1 ∧ a.1.onCurve = true)
    (hord : ∀ a ∈ adds, TePt.smul cfg.r a.1 = 0)
    (hB : adds.length < 2 ^ 64 ∨ (0 < bufSize ∧ bufSize < 2 ^ 64)) :
    HashMapAcc.run cfg bufSize adds = .ok (specSum (teIo p a d) (adds.map (·.1)) (adds.map (·.2))) :=
  hashMap_run_hom val_opHom Subtype.val_injective (teIo p a d) val_smul cfg hr0 hr hN bufSize adds
    (fun a ha => ⟨⟨a.1, hb a ha⟩, rfl⟩) hord hB

/-- the reference sum of curve points is a curve point, and modulo `p` it is the sum in the group of
    C03c:  `toZP (specSum …) = (Σ kᵢ • Pᵢ).1` in `TE.Point (a : ZMod p) d` -/
theorem te_specSum_is_group_sum (bases : List (TePoint p a d)) (ks : List Nat) :
    (Reduced (specSum (teIo p a d) (bases.map Subtype.val) ks) ∧
      (specSum (teIo p a d) (bases.map Subtype.val) ks).onCurve = true) ∧
    toZP (specSum (teIo p a d) (bases.map Subtype.val) ks)
      = (((bases.map toPoint).zip ks).map
          (fun b : TE.Point (a : ZMod p) (d : ZMod p) × ℕ => b.2 • b.1)).sum.1 := by
  rw [specSum_map val_opHom (teIo p a d) val_smul]
  refine ⟨(msmSumNat bases ks).2, ?_⟩
  show (toPoint (msmSumNat bases ks)).1 = _
  refine congrArg Subtype.val ?_
  unfold msmSumNat natPairSum
  rw [List.zip_map_left, List.map_map]
  refine (map_list_sum (tePointEquiv (p := p) (a := a) (d := d)) _).trans ?_
  rw [List.map_map]
  refine congrArg List.sum (List.map_congr_left (fun b _ => ?_))
  exact toPoint_nsmul b.2 b.1

end te

/-! ### non-vacuity: a 3-term MSM on the toy curve, evaluated on both sides -/

/-- toy scalar field `r = 101` (one limb, `MODULUS_BIT_SIZE = 7`), signed-digit / plain buckets -/
def toyC : Cfg := ⟨101, 1, true⟩
def toyCp : Cfg := ⟨101, 1, false⟩
/-- `r = 5`, the order of `tQ` -/
def toy5 : Cfg := ⟨5, 1, true⟩

example : 0 < toyC.r ∧ toyC.r < 2 ^ (64 * toyC.limbs) ∧ 0 < toyC.limbs ∧ toyC.numBits = 7 ∧
    (∀ k ∈ [100, 58, 3], k < toyC.r) := by decide +kernel

-- the theorem applies (all hypotheses discharged) …
example : msmUnchecked toyC [tP1, tP2, tP3] [100, 58, 3]
    = .ok (specSum (teIo 13 1 7) [tP1, tP2, tP3] [100, 58, 3]) :=
  te_msmUnchecked toyC (by decide) (by decide +kernel) _ _ toy_bases_ok (by decide) (by decide)
-- … and both sides evaluate to `(8, 6)`
example : msmUnchecked toyC [tP1, tP2, tP3] [100, 58, 3] = .ok ⟨⟨8⟩, ⟨6⟩⟩ ∧
    msmUnchecked toyCp [tP1, tP2, tP3] [100, 58, 3] = .ok ⟨⟨8⟩, ⟨6⟩⟩ ∧
    specSum (teIo 13 1 7) [tP1, tP2, tP3] [100, 58, 3] = ⟨⟨8⟩, ⟨6⟩⟩ := by decide +kernel
example : msm toyCp [tP1, tP2, tP3] [100, 58, 3] = .ok (.ok ⟨⟨8⟩, ⟨6⟩⟩) ∧
    msm toyCp [tP1, tP2, tP3] [100, 58] = .ok (.error 2) := by decide +kernel
-- out-of-domain big integer `517 = 2^9 + 5` is read as `5` (`c = 3`, three windows)
example : msmBigint toyCp [tP1, tP2, tP3] [[517], [58], [3]] = .ok ⟨⟨5⟩, ⟨7⟩⟩ ∧
    msmBigint toyC [tP1, tP2, tP3] [[517], [58], [3]] = .ok ⟨⟨5⟩, ⟨7⟩⟩ ∧
    specSum (teIo 13 1 7) [tP1, tP2, tP3] ([[517], [58], [3]].map fun k => value k % 2 ^ (3 * 3))
      = ⟨⟨5⟩, ⟨7⟩⟩ := by decide +kernel
-- `msm_chunks` skips the leading surplus base; `ChunkedPippenger` with one flush and a tail
example : msmChunks toyCp [tP2, tP1, tP2, tP3] [100, 58, 3] = .ok ⟨⟨8⟩, ⟨6⟩⟩ ∧
    Chunked.run toyCp 2 [(tP1, [100]), (tP2, [58]), (tP3, [3])] = .ok ⟨⟨8⟩, ⟨6⟩⟩ := by decide +kernel
-- `HashMapPippenger` in the subgroup of order 5: a merge (`3 + 4 + 1 ≡ 3 mod 5` on `tQ`) and a flush
example : (∀ a ∈ [(tQ, 3), (tQ + tQ, 4), (tQ, 4), (tQ, 1)], TePt.smul toy5.r a.1 = 0) := by
  decide +kernel
example : HashMapAcc.run toy5 2 [(tQ, 3), (tQ + tQ, 4), (tQ, 4), (tQ, 1)] = .ok ⟨⟨6⟩, ⟨8⟩⟩ ∧
    specSum (teIo 13 1 7) [tQ, tQ + tQ, tQ, tQ] [3, 4, 4, 1] = ⟨⟨6⟩, ⟨8⟩⟩ := by decide +kernel
example : HashMapAcc.run toy5 2 [(tQ, 3), (tQ + tQ, 4), (tQ, 4), (tQ, 1)]
    = .ok (specSum (teIo 13 1 7) [tQ, tQ + tQ, tQ, tQ] [3, 4, 4, 1]) :=
  te_hashMap_run toy5 (by decide) (by decide +kernel) (by decide) 2 _
    (by decide +kernel) (by decide +kernel) (Or.inl (by decide))

/-! ## 4. the C05 theorems at `G := Fp r` with `+` (discrete logarithms of `PairingOutput`) -/

section zr
variable {r : ℕ} [NeZero r]

/-- the reduced residues `ZrPoint r = {e : Fp r // e.val < r}` under the executable `+ - 0` of `Fp r`
    are an abelian group, isomorphic to `ZMod r` by `e ↦ (e.val : ZMod r)`; its `ℕ`-action is the driver's
    reference multiplication `k·e = k * e mod r` -/
theorem zrPoint_addCommGroup :
    ∃ (_ : AddCommGroup (ZrPoint r)) (e : ZrPoint r ≃+ ZMod r),
      (∀ x y : ZrPoint r, (x + y).1 = x.1 + y.1) ∧ (0 : ZrPoint r).1 = 0 ∧
      (∀ x : ZrPoint r, (-x).1 = -x.1) ∧ (∀ x y : ZrPoint r, (x - y).1 = x.1 - y.1) ∧
      (∀ (k : ℕ) (x : ZrPoint r), (k • x).1 = (zrIo r).smul k x.1) ∧
      (∀ (k : ℕ) (x : ZrPoint r), (k • x).1.val = k * x.1.val % r) ∧
      (∀ x : ZrPoint r, e x = (x.1.val : ZMod r)) ∧ (∀ z : ZMod r, (e.symm z).1.val = z.val) :=
  ⟨zrPointGroup, zrPointEquiv, fun _ _ => rfl, rfl, fun _ => rfl, fun _ _ => rfl, fun _ _ => rfl,
    fun _ _ => rfl, fun _ => rfl, fun _ => rfl⟩

/-- the driver's reference sum over `Fp r` is `Σ kᵢ·eᵢ mod r` (any representatives) -/
theorem zr_specSum (es : List (Fp r)) (ks : List ℕ) :
    (specSum (zrIo r) es ks).val = ((es.zip ks).map (fun a => a.2 * a.1.val)).sum % r :=
  zr_specSum_val es ks

omit [NeZero r] in
theorem zr_carrier {es : List (Fp r)} (hb : ∀ e ∈ es, e.val < r) :
    ∀ e ∈ es, ∃ x : ZrPoint r, x.1 = e := fun e he => ⟨⟨e, hb e he⟩, rfl⟩

theorem zr_msmBigintWnaf (nb N : Nat) (es : List (Fp r)) (ks : List (List Nat))
    (hb : ∀ e ∈ es, e.val < r)
    (hnb : 0 < nb) (hnbN : nb ≤ 64 * N) (hks : ∀ s ∈ ks, WF s ∧ s.length = N)
    (hsize : min es.length ks.length < 2 ^ 64) :
    msmBigintWnaf nb es ks = .ok (specSum (zrIo r) es (ks.map fun k =>
      value k % 2 ^ (windowSize (min es.length ks.length)
        * divCeil nb (windowSize (min es.length ks.length))))) :=
  msmBigintWnaf_hom zr_val_opHom (zrIo r) zr_val_smul nb N es ks (zr_carrier hb) hnb hnbN hks hsize

theorem zr_msmBigintPlain (nb : Nat) (one : List Nat) (es : List (Fp r)) (ks : List (List Nat))
    (hb : ∀ e ∈ es, e.val < r)
    (hnb : 0 < nb) (hone : value one ≤ 1) (hks : ∀ s ∈ ks, WF s)
    (hsize : min es.length ks.length < 2 ^ 64) :
    msmBigintPlain nb one es ks = .ok (specSum (zrIo r) es (ks.map fun k =>
      value k % 2 ^ (windowSize (min es.length ks.length)
        * divCeil nb (windowSize (min es.length ks.length))))) :=
  msmBigintPlain_hom zr_val_opHom (zrIo r) zr_val_smul nb one es ks (zr_carrier hb) hnb hone hks hsize

theorem zr_msmBigint (cfg : Cfg) (hr0 : 0 < cfg.r) (hr : cfg.r < 2 ^ (64 * cfg.limbs))
    (es : List (Fp r)) (ks : List (List Nat)) (hb : ∀ e ∈ es, e.val < r)
    (hks : ∀ k ∈ ks, WF k ∧ k.length = cfg.limbs)
    (hsize : min es.length ks.length < 2 ^ 64) :
    msmBigint cfg es ks = .ok (specSum (zrIo r) es (ks.map fun k =>
      value k % 2 ^ (windowSize (min es.length ks.length)
        * divCeil cfg.numBits (windowSize (min es.length ks.length))))) :=
  msmBigint_hom zr_val_opHom (zrIo r) zr_val_smul cfg hr0 hr es ks (zr_carrier hb) hks hsize

theorem zr_msmBigint_exact (cfg : Cfg) (hr0 : 0 < cfg.r) (hr : cfg.r < 2 ^ (64 * cfg.limbs))
    (es : List (Fp r)) (ks : List (List Nat)) (hb : ∀ e ∈ es, e.val < r)
    (hks : ∀ k ∈ ks, WF k ∧ k.length = cfg.limbs ∧ value k < 2 ^ cfg.numBits)
    (hsize : min es.length ks.length < 2 ^ 64) :
    msmBigint cfg es ks = .ok (specSum (zrIo r) es (ks.map value)) :=
  msmBigint_exact_hom zr_val_opHom (zrIo r) zr_val_smul cfg hr0 hr es ks (zr_carrier hb) hks hsize

/-- `msm_unchecked` over the discrete logarithms returns the reference sum … -/
theorem zr_msmUnchecked (cfg : Cfg) (hr0 : 0 < cfg.r) (hr : cfg.r < 2 ^ (64 * cfg.limbs))
    (es : List (Fp r)) (ks : List Nat) (hb : ∀ e ∈ es, e.val < r)
    (hks : ∀ k ∈ ks, k < cfg.r) (hsize : min es.length ks.length < 2 ^ 64) :
    msmUnchecked cfg es ks = .ok (specSum (zrIo r) es ks) :=
  msmUnchecked_hom zr_val_opHom (zrIo r) zr_val_smul cfg hr0 hr es ks (zr_carrier hb) hks hsize

/-- … that is, `Σ_{i<min} kᵢ·eᵢ mod r` -/
theorem zr_msmUnchecked_val (cfg : Cfg) (hr0 : 0 < cfg.r) (hr : cfg.r < 2 ^ (64 * cfg.limbs))
    (es : List (Fp r)) (ks : List Nat) (hb : ∀ e ∈ es, e.val < r)
    (hks : ∀ k ∈ ks, k < cfg.r) (hsize : min es.length ks.length < 2 ^ 64) :
    msmUnchecked cfg es ks = .ok ⟨((es.zip ks).map (fun a => a.2 * a.1.val)).sum % r⟩ := by
  rw [zr_msmUnchecked cfg hr0 hr es ks hb hks hsize]
  exact congrArg Outcome.ok (Bytes.Fp.ext' (zr_specSum_val es ks))

theorem zr_msm (cfg : Cfg) (hr0 : 0 < cfg.r) (hr : cfg.r < 2 ^ (64 * cfg.limbs))
    (es : List (Fp r)) (ks : List Nat) (hb : ∀ e ∈ es, e.val < r)
    (hks : ∀ k ∈ ks, k < cfg.r) (hsize : min es.length ks.length < 2 ^ 64) :
    msm cfg es ks = if es.length = ks.length then .ok (.ok (specSum (zrIo r) es ks))
      else .ok (.error (min es.length ks.length)) :=
  msm_hom zr_val_opHom (zrIo r) zr_val_smul cfg hr0 hr es ks (zr_carrier hb) hks hsize

theorem zr_msmChunksWith (cfg : Cfg) (hr0 : 0 < cfg.r) (hr : cfg.r < 2 ^ (64 * cfg.limbs))
    (hN : 0 < cfg.limbs) (step : Nat) (hstep : 0 < step) (es : List (Fp r)) (ks : List Nat)
    (hb : ∀ e ∈ es, e.val < r) (hks : ∀ k ∈ ks, k < cfg.r)
    (hB : step < 2 ^ 64 ∨ ks.length < 2 ^ 64) :
    msmChunksWith step cfg es ks =
      if ks.length ≤ es.length then .ok (specSum (zrIo r) (es.drop (es.length - ks.length)) ks)
      else .panic :=
  msmChunksWith_hom zr_val_opHom (zrIo r) zr_val_smul cfg hr0 hr hN step hstep es ks (zr_carrier hb)
    hks hB

theorem zr_msmChunks (cfg : Cfg) (hr0 : 0 < cfg.r) (hr : cfg.r < 2 ^ (64 * cfg.limbs))
    (hN : 0 < cfg.limbs) (es : List (Fp r)) (ks : List Nat)
    (hb : ∀ e ∈ es, e.val < r) (hks : ∀ k ∈ ks, k < cfg.r) :
    msmChunks cfg es ks =
      if ks.length ≤ es.length then .ok (specSum (zrIo r) (es.drop (es.length - ks.length)) ks)
      else .panic :=
  zr_msmChunksWith cfg hr0 hr hN _ (by decide) es ks hb hks (Or.inl (by decide))

theorem zr_chunked_run (cfg : Cfg) (hr0 : 0 < cfg.r) (hr : cfg.r < 2 ^ (64 * cfg.limbs))
    (bufSize : Nat) (adds : List (Fp r × List Nat)) (hb : ∀ a ∈ adds, a.1.val < r)
    (hP : ∀ a ∈ adds, a.2.length = cfg.limbs ∧ WF a.2 ∧ value a.2 < 2 ^ cfg.numBits)
    (hB : adds.length < 2 ^ 64 ∨ (0 < bufSize ∧ bufSize < 2 ^ 64)) :
    Chunked.run cfg bufSize adds
      = .ok (specSum (zrIo r) (adds.map (·.1)) (adds.map (fun a => value a.2))) :=
  chunked_run_hom zr_val_opHom (zrIo r) zr_val_smul cfg hr0 hr bufSize adds
    (fun a ha => ⟨⟨a.1, hb a ha⟩, rfl⟩) hP hB

/-- `HashMapPippenger` over the discrete logarithms; the torsion condition `cfg.r · e ≡ 0 (mod r)` holds
    for every `e` when the scalar field is the group order (`cfg.r = r`, the driver's case) -/
theorem zr_hashMap_run (cfg : Cfg) (hr0 : 0 < cfg.r) (hr : cfg.r < 2 ^ (64 * cfg.limbs))
    (hN : 0 < cfg.limbs) (bufSize : Nat) (adds : List (Fp r × Nat)) (hb : ∀ a ∈ adds, a.1.val < r)
    (hord : ∀ a ∈ adds, cfg.r * a.1.val % r = 0)
    (hB : adds.length < 2 ^ 64 ∨ (0 < bufSize ∧ bufSize < 2 ^ 64)) :
    HashMapAcc.run cfg bufSize adds = .ok (specSum (zrIo r) (adds.map (·.1)) (adds.map (·.2))) :=
  hashMap_run_hom zr_val_opHom Subtype.val_injective (zrIo r) zr_val_smul cfg hr0 hr hN bufSize adds
    (fun a ha => ⟨⟨a.1, hb a ha⟩, rfl⟩)
    (fun a ha => Bytes.Fp.ext' (hord a ha)) hB

/-- the driver's configuration: scalar field = group order -/
theorem zr_hashMap_run_order (cfg : Cfg) (hr0 : 0 < cfg.r) (hr : cfg.r < 2 ^ (64 * cfg.limbs))
    (hN : 0 < cfg.limbs) (hcfg : cfg.r = r) (bufSize : Nat) (adds : List (Fp r × Nat))
    (hb : ∀ a ∈ adds, a.1.val < r)
    (hB : adds.length < 2 ^ 64 ∨ (0 < bufSize ∧ bufSize < 2 ^ 64)) :
    HashMapAcc.run cfg bufSize adds = .ok (specSum (zrIo r) (adds.map (·.1)) (adds.map (·.2))) :=
  zr_hashMap_run cfg hr0 hr hN bufSize adds hb
    (fun a _ => by rw [hcfg]; exact Nat.mul_mod_right r _) hB

end zr

/-! ### non-vacuity: discrete logarithms modulo `11` -/

local instance : NeZero 11 := ⟨by decide⟩
/-- scalar field = group order `11` -/
def toy11 : Cfg := ⟨11, 1, true⟩

example : msmUnchecked toyC ([⟨3⟩, ⟨5⟩, ⟨10⟩] : List (Fp 11)) [100, 57, 3]
    = .ok ⟨(([⟨3⟩, ⟨5⟩, ⟨10⟩] : List (Fp 11)).zip [100, 57, 3] |>.map (fun a => a.2 * a.1.val)).sum % 11⟩ :=
  zr_msmUnchecked_val toyC (by decide) (by decide +kernel) _ _ (by decide) (by decide) (by decide)
example : msmUnchecked toyC ([⟨3⟩, ⟨5⟩, ⟨10⟩] : List (Fp 11)) [100, 57, 3] = .ok ⟨10⟩ ∧
    msmUnchecked toyCp ([⟨3⟩, ⟨5⟩, ⟨10⟩] : List (Fp 11)) [100, 57, 3] = .ok ⟨10⟩ ∧
    specSum (zrIo 11) [⟨3⟩, ⟨5⟩, ⟨10⟩] [100, 57, 3] = ⟨10⟩ ∧
    (100 * 3 + 57 * 5 + 3 * 10) % 11 = 10 := by decide +kernel
example : HashMapAcc.run toy11 2 ([(⟨3⟩, 7), (⟨5⟩, 9), (⟨3⟩, 8)] : List (Fp 11 × Nat)) = .ok ⟨2⟩ ∧
    specSum (zrIo 11) [⟨3⟩, ⟨5⟩, ⟨3⟩] [7, 9, 8] = ⟨2⟩ := by decide +kernel
example : HashMapAcc.run toy11 2 ([(⟨3⟩, 7), (⟨5⟩, 9), (⟨3⟩, 8)] : List (Fp 11 × Nat))
    = .ok (specSum (zrIo 11) [⟨3⟩, ⟨5⟩, ⟨3⟩] [7, 9, 8]) :=
  zr_hashMap_run_order (r := 11) toy11 (by decide) (by decide +kernel) (by decide) rfl 2 _ (by decide)
    (Or.inl (by decide))
-- remark: the hypothesis `e.val < r` (reduced representatives, what the driver's parser produces) defines
-- the carrier on which `Fp r` is a group (`⟨14⟩ ≠ ⟨3⟩` as elements of `Fp 11`); it is not claimed to be
-- necessary for the conclusion: every operation of `Fp` reduces its result, e.g.
example : msmUnchecked toyCp ([⟨14⟩] : List (Fp 11)) [1] = .ok ⟨3⟩ ∧
    specSum (zrIo 11) [⟨14⟩] [1] = ⟨3⟩ := by decide +kernel

/-! ## 5. the C05 theorems at the short-Weierstrass spec group `G := AffPt p E`

  `AffPt p E` (`Ark/Model/AffGroup.lean`) is the group the driver runs the plain `C05 <op>` streams on
  (`swIo`).  On a non-singular curve over `F_p` (`NonsingSW p E`: `−16(4a³ + 27b²) ≠ 0 mod p`, which
  forces `p ≠ 2`) its reduced curve points are an abelian group under the executable chord-and-tangent
  law, isomorphic to Mathlib's `WeierstrassCurve.Affine.Point` (bridge of C03a, `SW.ofPoint`). -/

section sw
open Ark.SwExec
variable {p : ℕ} {E : SWParams p}

/-- `NonsingSW p E` is: the discriminant of `y² = x³ + a x + b` is non-zero modulo `p` -/
theorem nonsingSW_iff : NonsingSW p E ↔ -16 * (4 * (toZ E.a) ^ 3 + 27 * (toZ E.b) ^ 2) ≠ 0 :=
  ⟨fun h => h.disc, fun h => ⟨h⟩⟩

/-- on reduced curve points (odd prime `p`) the executable law is `SW.affAdd` over `ZMod p`; negation,
    identity and the curve equation correspond for all points -/
theorem affPt_is_affine_law (hp : p.Prime) (h2 : (2 : ZMod p) ≠ 0) (P Q : AffPt p E)
    (hP : SwExec.Reduced P ∧ P.onCurve = true) (hQ : SwExec.Reduced Q ∧ Q.onCurve = true) :
    toZO (P + Q) = SW.affAdd (toZ E.a) (toZO P) (toZO Q) ∧
    toZO (-P) = SW.affNeg (toZO P) ∧
    toZO (0 : AffPt p E) = none ∧
    P.onCurve = SW.onCurve (toZ E.a) (toZ E.b) (toZO P) :=
  ⟨toZO_add hp h2 P Q hP.1 hQ.1 hP.2 hQ.2, toZO_neg hp.pos P, rfl, onCurve_toZO hp P⟩

variable [Fact p.Prime] [NonsingSW p E]

/-- the reduced curve points `SwPoint p E` are an ABELIAN GROUP under the executable operations, with
    `AffPt.smul` / `AffPt.smulInt` as `ℕ` / `ℤ` actions, isomorphic to Mathlib's group of nonsingular
    points of `y² = x³ + a x + b` over `ZMod p` -/
theorem swPoint_addCommGroup :
    ∃ (_ : AddCommGroup (SwPoint p E))
      (e : (SW.wcurve (toZ E.a) (toZ E.b)).Point ≃+ SwPoint p E),
      (∀ P Q : SwPoint p E, (P + Q).1 = P.1 + Q.1) ∧
      (0 : SwPoint p E).1 = 0 ∧
      (∀ P : SwPoint p E, (-P).1 = -P.1) ∧
      (∀ P Q : SwPoint p E, (P - Q).1 = P.1 - Q.1) ∧
      (∀ (k : ℕ) (P : SwPoint p E), (k • P).1 = AffPt.smul k P.1) ∧
      (∀ (k : ℤ) (P : SwPoint p E), (k • P).1 = AffPt.smulInt k P.1) ∧
      (∀ P : (SW.wcurve (toZ E.a) (toZ E.b)).Point, toZO (e P).1 = SW.ofPoint P) :=
  ⟨swPointGroup, swPointEquiv, fun _ _ => rfl, rfl, fun _ => rfl, fun _ _ => rfl, swPoint_nsmul_val,
    swPoint_zsmul_val, swPointEquiv_apply⟩

omit [Fact p.Prime] [NonsingSW p E] in
theorem sw_carrier {bases : List (AffPt p E)}
    (hb : ∀ P ∈ bases, SwExec.Reduced P ∧ P.onCurve = true) :
    ∀ P ∈ bases, ∃ x : SwPoint p E, x.1 = P := fun P hP => ⟨⟨P, hb P hP⟩, rfl⟩

theorem sw_msmBigintWnaf (nb N : Nat) (bases : List (AffPt p E)) (ks : List (List Nat))
    (hb : ∀ P ∈ bases, SwExec.Reduced P ∧ P.onCurve = true)
    (hnb : 0 < nb) (hnbN : nb ≤ 64 * N) (hks : ∀ s ∈ ks, WF s ∧ s.length = N)
    (hsize : min bases.length ks.length < 2 ^ 64) :
    msmBigintWnaf nb bases ks = .ok (specSum (DrvC05.swIo p E) bases (ks.map fun k =>
      value k % 2 ^ (windowSize (min bases.length ks.length)
        * divCeil nb (windowSize (min bases.length ks.length))))) :=
  msmBigintWnaf_hom sw_val_opHom (DrvC05.swIo p E) sw_val_smul nb N bases ks (sw_carrier hb) hnb hnbN
    hks hsize

theorem sw_msmBigintPlain (nb : Nat) (one : List Nat) (bases : List (AffPt p E))
    (ks : List (List Nat)) (hb : ∀ P ∈ bases, SwExec.Reduced P ∧ P.onCurve = true)
    (hnb : 0 < nb) (hone : value one ≤ 1) (hks : ∀ s ∈ ks, WF s)
    (hsize : min bases.length ks.length < 2 ^ 64) :
    msmBigintPlain nb one bases ks = .ok (specSum (DrvC05.swIo p E) bases (ks.map fun k =>
      value k % 2 ^ (windowSize (min bases.length ks.length)
        * divCeil nb (windowSize (min bases.length ks.length))))) :=
  msmBigintPlain_hom sw_val_opHom (DrvC05.swIo p E) sw_val_smul nb one bases ks (sw_carrier hb) hnb
    hone hks hsize

theorem sw_msmBigint (cfg : Cfg) (hr0 : 0 < cfg.r) (hr : cfg.r < 2 ^ (64 * cfg.limbs))
    (bases : List (AffPt p E)) (ks : List (List Nat))
    (hb : ∀ P ∈ bases, SwExec.Reduced P ∧ P.onCurve = true)
    (hks : ∀ k ∈ ks, WF k ∧ k.length = cfg.limbs)
    (hsize : min bases.length ks.length < 2 ^ 64) :
    msmBigint cfg bases ks = .ok (specSum (DrvC05.swIo p E) bases (ks.map fun k =>
      value k % 2 ^ (windowSize (min bases.length ks.length)
        * divCeil cfg.numBits (windowSize (min bases.length ks.length))))) :=
  msmBigint_hom sw_val_opHom (DrvC05.swIo p E) sw_val_smul cfg hr0 hr bases ks (sw_carrier hb) hks hsize

theorem sw_msmBigint_exact (cfg : Cfg) (hr0 : 0 < cfg.r) (hr : cfg.r < 2 ^ (64 * cfg.limbs))
    (bases : List (AffPt p E)) (ks : List (List Nat))
    (hb : ∀ P ∈ bases, SwExec.Reduced P ∧ P.onCurve = true)
    (hks : ∀ k ∈ ks, WF k ∧ k.length = cfg.limbs ∧ value k < 2 ^ cfg.numBits)
    (hsize : min bases.length ks.length < 2 ^ 64) :
    msmBigint cfg bases ks = .ok (specSum (DrvC05.swIo p E) bases (ks.map value)) :=
  msmBigint_exact_hom sw_val_opHom (DrvC05.swIo p E) sw_val_smul cfg hr0 hr bases ks (sw_carrier hb)
    hks hsize

/-- `msm_unchecked` on short-Weierstrass curve points returns the driver's reference sum -/
theorem sw_msmUnchecked (cfg : Cfg) (hr0 : 0 < cfg.r) (hr : cfg.r < 2 ^ (64 * cfg.limbs))
    (bases : List (AffPt p E)) (ks : List Nat)
    (hb : ∀ P ∈ bases, SwExec.Reduced P ∧ P.onCurve = true)
    (hks : ∀ k ∈ ks, k < cfg.r) (hsize : min bases.length ks.length < 2 ^ 64) :
    msmUnchecked cfg bases ks = .ok (specSum (DrvC05.swIo p E) bases ks) :=
  msmUnchecked_hom sw_val_opHom (DrvC05.swIo p E) sw_val_smul cfg hr0 hr bases ks (sw_carrier hb) hks
    hsize

theorem sw_msm (cfg : Cfg) (hr0 : 0 < cfg.r) (hr : cfg.r < 2 ^ (64 * cfg.limbs))
    (bases : List (AffPt p E)) (ks : List Nat)
    (hb : ∀ P ∈ bases, SwExec.Reduced P ∧ P.onCurve = true)
    (hks : ∀ k ∈ ks, k < cfg.r) (hsize : min bases.length ks.length < 2 ^ 64) :
    msm cfg bases ks = if bases.length = ks.length then .ok (.ok (specSum (DrvC05.swIo p E) bases ks))
      else .ok (.error (min bases.length ks.length)) :=
  msm_hom sw_val_opHom (DrvC05.swIo p E) sw_val_smul cfg hr0 hr bases ks (sw_carrier hb) hks hsize

theorem sw_msmChunksWith (cfg : Cfg) (hr0 : 0 < cfg.r) (hr : cfg.r < 2 ^ (64 * cfg.limbs))
    (hN : 0 < cfg.limbs) (step : Nat) (hstep : 0 < step) (bases : List (AffPt p E)) (ks : List Nat)
    (hb : ∀ P ∈ bases, SwExec.Reduced P ∧ P.onCurve = true) (hks : ∀ k ∈ ks, k < cfg.r)
    (hB : step < 2 ^ 64 ∨ ks.length < 2 ^ 64) :
    msmChunksWith step cfg bases ks =
      if ks.length ≤ bases.length then
        .ok (specSum (DrvC05.swIo p E) (bases.drop (bases.length - ks.length)) ks)
      else .panic :=
  msmChunksWith_hom sw_val_opHom (DrvC05.swIo p E) sw_val_smul cfg hr0 hr hN step hstep bases ks
    (sw_carrier hb) hks hB

theorem sw_msmChunks (cfg : Cfg) (hr0 : 0 < cfg.r) (hr : cfg.r < 2 ^ (64 * cfg.limbs))
    (hN : 0 < cfg.limbs) (bases : List (AffPt p E)) (ks : List Nat)
    (hb : ∀ P ∈ bases, SwExec.Reduced P ∧ P.onCurve = true) (hks : ∀ k ∈ ks, k < cfg.r) :
    msmChunks cfg bases ks =
      if ks.length ≤ bases.length then
        .ok (specSum (DrvC05.swIo p E) (bases.drop (bases.length - ks.length)) ks)
      else .panic :=
  sw_msmChunksWith cfg hr0 hr hN _ (by decide) bases ks hb hks (Or.inl (by decide))

theorem sw_chunked_run (cfg : Cfg) (hr0 : 0 < cfg.r) (hr : cfg.r < 2 ^ (64 * cfg.limbs))
    (bufSize : Nat) (adds : List (AffPt p E × List Nat))
    (hb : ∀ a ∈ adds, SwExec.Reduced a.1 ∧ a.1.onCurve = true)
    (hP : ∀ a ∈ adds, a.2.length = cfg.limbs ∧ WF a.2 ∧ value a.2 < 2 ^ cfg.numBits)
    (hB : adds.length < 2 ^ 64 ∨ (0 < bufSize ∧ bufSize < 2 ^ 64)) :
    Chunked.run cfg bufSize adds
      = .ok (specSum (DrvC05.swIo p E) (adds.map (·.1)) (adds.map (fun a => value a.2))) :=
  chunked_run_hom sw_val_opHom (DrvC05.swIo p E) sw_val_smul cfg hr0 hr bufSize adds
    (fun a ha => ⟨⟨a.1, hb a ha⟩, rfl⟩) hP hB

theorem sw_hashMap_run (cfg : Cfg) (hr0 : 0 < cfg.r) (hr : cfg.r < 2 ^ (64 * cfg.limbs))
    (hN : 0 < cfg.limbs) (bufSize : Nat) (adds : List (AffPt p E × Nat))
    (hb : ∀ a ∈ adds, SwExec.Reduced a.1 ∧ a.1.onCurve = true)
    (hord : ∀ a ∈ adds, AffPt.smul cfg.r a.1 = 0)
    (hB : adds.length < 2 ^ 64 ∨ (0 < bufSize ∧ bufSize < 2 ^ 64)) :
    HashMapAcc.run cfg bufSize adds
      = .ok (specSum (DrvC05.swIo p E) (adds.map (·.1)) (adds.map (·.2))) :=
  hashMap_run_hom sw_val_opHom Subtype.val_injective (DrvC05.swIo p E) sw_val_smul cfg hr0 hr hN
    bufSize adds (fun a ha => ⟨⟨a.1, hb a ha⟩, rfl⟩) hord hB

end sw

/-! ### non-vacuity: `y² = x³ + 7` over `F_13` (7 points, generated by `(7, 8)`) -/

abbrev E13 : SWParams 13 := ⟨⟨0⟩, ⟨7⟩⟩
local instance nonsing13 : SwExec.NonsingSW 13 E13 := ⟨by decide +kernel⟩
def sP1 : AffPt 13 E13 := ⟨some (⟨7⟩, ⟨8⟩)⟩
def sP2 : AffPt 13 E13 := ⟨some (⟨8⟩, ⟨8⟩)⟩
def sP3 : AffPt 13 E13 := ⟨some (⟨11⟩, ⟨5⟩)⟩
/-- scalar field = group order `7` -/
def toy7 : Cfg := ⟨7, 1, true⟩

theorem toy_sw_bases_ok : ∀ P ∈ [sP1, sP2, sP3], SwExec.Reduced P ∧ P.onCurve = true := by decide

example : AffPt.smul 2 sP1 = sP2 ∧ AffPt.smul 3 sP1 = sP3 ∧ AffPt.smul 7 sP1 = 0 ∧
    AffPt.smulInt (-3) sP1 = ⟨some (⟨11⟩, ⟨8⟩)⟩ := by decide +kernel
example : msmUnchecked toyC [sP1, sP2, sP3] [100, 58, 4]
    = .ok (specSum (DrvC05.swIo 13 E13) [sP1, sP2, sP3] [100, 58, 4]) :=
  sw_msmUnchecked toyC (by decide) (by decide +kernel) _ _ toy_sw_bases_ok (by decide) (by decide)
example : msmUnchecked toyC [sP1, sP2, sP3] [100, 58, 4] = .ok ⟨some (⟨11⟩, ⟨8⟩)⟩ ∧
    msmUnchecked toyCp [sP1, sP2, sP3] [100, 58, 4] = .ok ⟨some (⟨11⟩, ⟨8⟩)⟩ ∧
    specSum (DrvC05.swIo 13 E13) [sP1, sP2, sP3] [100, 58, 4] = ⟨some (⟨11⟩, ⟨8⟩)⟩ := by
  decide +kernel
example : HashMapAcc.run toy7 2 [(sP1, 3), (sP2, 4), (sP1, 6), (sP1, 1)]
    = .ok (specSum (DrvC05.swIo 13 E13) [sP1, sP2, sP1, sP1] [3, 4, 6, 1]) :=
  sw_hashMap_run toy7 (by decide) (by decide +kernel) (by decide) 2 _ (by decide)
    (by decide +kernel) (Or.inl (by decide))
example : HashMapAcc.run toy7 2 [(sP1, 3), (sP2, 4), (sP1, 6), (sP1, 1)] = .ok ⟨some (⟨11⟩, ⟨8⟩)⟩ := by
  decide +kernel

end Ark.C05
