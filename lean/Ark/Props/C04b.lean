import Ark.Proofs.ScalarMulB
import Mathlib.Data.ZMod.Basic
/-
  Property C04 (part b) — GLV scalar decomposition, the GLV joint ladder, the GLV `mul_projective`
  override and fixed-base batch multiplication of `Ark.Model.ScalarMul`
  (ec/src/scalar_mul/{glv,mod}.rs, the `mul_projective` overrides of the curve crates).

  The group is an arbitrary `AddCommGroup G`; `n • P` is Mathlib's scalar multiplication by `ℕ` / `ℤ`.
  Only property theorems and non-vacuity examples live here; helpers are in
  Ark/Proofs/ScalarMulB.lean.
-/
namespace Ark.C04
open Ark Ark.ScalarMul Ark.ScalarMulB

/-- toy GLV configuration used by the examples: `r = 13`, `λ = 3` (`λ² + λ + 1 = 13`),
    rows `(2, -5)`, `(1, 4)` (both in the lattice, determinant `13`), one limb -/
def cfg13 : GlvCfg :=
  { nLimbs := 1, r := 13, lambda := 3, n11 := 2, n12 := -5, n21 := 1, n22 := 4 }

/-! ## 4. GLV decomposition -/

/-- the decomposition identity uses no property of the rounding: for ARBITRARY integers `β1 β2` in
    place of the two rounded quotients, `k1 + λ·k2 ≡ k (mod r)` as soon as both rows of the coefficient
    matrix lie in the lattice `{(x, y) | x + λ·y ≡ 0 (mod r)}` -/
theorem glv_decomp_any_rounding (r lam n11 n12 n21 n22 k β1 β2 : Int)
    (h1 : (n11 + lam * n12) % r = 0) (h2 : (n21 + lam * n22) % r = 0) :
    ((k - (β1 * n11 + β2 * n21)) + lam * (-(β1 * n12 + β2 * n22)) - k) % r = 0 :=
  decomp_any_rounding r lam n11 n12 n21 n22 k β1 β2 h1 h2

example : ((2 : Int) + 3 * (-5)) % 13 = 0 ∧ ((1 : Int) + 3 * 4) % 13 = 0 ∧
    (((7 : Int) - (100 * 2 + (-55) * 1)) + 3 * (-(100 * (-5) + (-55) * 4)) - 7) % 13 = 0 := by decide

/-- `decompInt` (the signed halves computed by `scalar_decomposition`, rounding as coded) -/
theorem glv_decomp_congr (c : GlvCfg) (k : Nat)
    (h1 : (c.n11 + (c.lambda : Int) * c.n12) % (c.r : Int) = 0)
    (h2 : (c.n21 + (c.lambda : Int) * c.n22) % (c.r : Int) = 0) :
    ((decompInt c k).1 + (c.lambda : Int) * (decompInt c k).2 - (k : Int)) % (c.r : Int) = 0 :=
  decompInt_congr c k h1 h2

example : (cfg13.n11 + (cfg13.lambda : Int) * cfg13.n12) % (cfg13.r : Int) = 0 ∧
    (cfg13.n21 + (cfg13.lambda : Int) * cfg13.n22) % (cfg13.r : Int) = 0 ∧
    decompInt cfg13 7 = (0, -2) ∧ decompInt cfg13 5 = (-1, 2) ∧ decompInt cfg13 8 = (1, -2) := by
  decide

/-- the values returned by `scalar_decomposition` — sign flag and magnitude reduced into the scalar
    field, read back as the signed integer `±m` — satisfy the same congruence (for every `k`: reduction
    modulo `r` does not disturb it) -/
theorem glv_scalar_decomposition_congr (c : GlvCfg) (k : Nat)
    (h1 : (c.n11 + (c.lambda : Int) * c.n12) % (c.r : Int) = 0)
    (h2 : (c.n21 + (c.lambda : Int) * c.n22) % (c.r : Int) = 0) :
    (sgnVal (scalarDecomposition c k).1.1 (scalarDecomposition c k).1.2
      + (c.lambda : Int) * sgnVal (scalarDecomposition c k).2.1 (scalarDecomposition c k).2.2
      - (k : Int)) % (c.r : Int) = 0 :=
  scalarDecomposition_congr c k h1 h2

/-- and when `|k1|, |k2| < r` they ARE the signed halves (nothing is lost by the conversion to `Fr`;
    zero gets the flag `false`, i.e. `-0`) -/
theorem glv_scalar_decomposition_exact (c : GlvCfg) (k : Nat)
    (hk1 : (decompInt c k).1.natAbs < c.r) (hk2 : (decompInt c k).2.natAbs < c.r) :
    sgnVal (scalarDecomposition c k).1.1 (scalarDecomposition c k).1.2 = (decompInt c k).1 ∧
    sgnVal (scalarDecomposition c k).2.1 (scalarDecomposition c k).2.2 = (decompInt c k).2 := by
  rw [scalarDecomposition_eq]
  exact ⟨sgnVal_exact _ _ hk1, sgnVal_exact _ _ hk2⟩

example : scalarDecomposition cfg13 7 = ((false, 0), (false, 2)) ∧
    scalarDecomposition cfg13 5 = ((false, 1), (true, 2)) ∧
    (decompInt cfg13 5).1.natAbs < cfg13.r ∧ (decompInt cfg13 5).2.natAbs < cfg13.r := by decide

/-! ## 5. the GLV joint ladder -/

section ladder
variable {G : Type} [AddCommGroup G]

/-- the joint ladder with the `skip_zeros` flag as coded computes `a•b1 + b•b2` when both `N`-limb
    inputs are below `2^(64N-1)`: then the very first pair is `(false,false)`, it is the one that is
    skipped (while the accumulator is still `0`), the flag is cleared, and everything after it is a
    plain joint double-and-add.  (`N = 0`: `64·0 - 1 = 0`, both inputs are `0`, no pairs.) -/
theorem glv_ladder (b1 b2 : G) (N a b : Nat)
    (ha : a < 2 ^ (64 * N - 1)) (hb : b < 2 ^ (64 * N - 1)) :
    glvLoop b1 b2 (b1 + b2) ((bitsBE (toLimbs N a)).zip (bitsBE (toLimbs N b))) true 0 =
      a • b1 + b • b2 :=
  glvLoop_toLimbs b1 b2 N a b ha hb

example : (5 : Nat) < 2 ^ (64 * 1 - 1) ∧ (9 : Nat) < 2 ^ (64 * 1 - 1) ∧
    glvLoop (1 : ℤ) 100 (1 + 100) ((bitsBE (toLimbs 1 5)).zip (bitsBE (toLimbs 1 9))) true 0
      = 905 := by decide +kernel

/-- the exact shape of the skip logic: (i) a leading `(false,false)` pair is dropped and clears the flag;
    (ii) with the flag cleared the loop is the joint double-and-add
    (`bvBE acc bits` = the big-endian value of `bits` on top of `acc`);
    (iii) with no `(false,false)` pair at all the flag never fires.
    In every other stream — a non-zero first pair followed later by a `(false,false)` pair — one
    doubling is lost (see `glv_ladder_needs_bound`). -/
theorem glv_ladder_skip_logic (b1 b2 : G) (pairs : List (Bool × Bool)) :
    (∀ res, glvLoop b1 b2 (b1 + b2) ((false, false) :: pairs) true res
        = glvLoop b1 b2 (b1 + b2) pairs false res) ∧
    (∀ res m n, res = m • b1 + n • b2 →
      glvLoop b1 b2 (b1 + b2) pairs false res =
        bvBE m (pairs.map Prod.fst) • b1 + bvBE n (pairs.map Prod.snd) • b2) ∧
    ((∀ pr ∈ pairs, pr ≠ (false, false)) → ∀ res,
      glvLoop b1 b2 (b1 + b2) pairs true res = glvLoop b1 b2 (b1 + b2) pairs false res) :=
  ⟨fun res => glvLoop_true_head b1 b2 _ pairs res,
   fun res m n h => glvLoop_false b1 b2 pairs res m n h,
   fun h res => glvLoop_noZeroPair b1 b2 _ pairs res h⟩

example : glvLoop (1 : ℤ) 100 (1 + 100) [(true, false), (true, true), (false, true)] true 0 = 306 := by
  decide

/-- the EXACT behaviour of the flag, for every stream and every accumulator: the loop started with
    `skip_zeros = true` is the plain joint double-and-add on the stream with its first `(false,false)`
    pair erased.  So the ladder is right precisely when erasing that pair does not change the value:
    the pair is the first one (accumulator still `0`, `glv_ladder`) or there is none; if a non-zero pair
    precedes it, one doubling of a non-zero accumulator is lost. -/
theorem glv_ladder_flag_exact (b1 b2 b12 : G) (pairs : List (Bool × Bool)) (res : G) :
    glvLoop b1 b2 b12 pairs true res = glvLoop b1 b2 b12 (pairs.erase (false, false)) false res :=
  glvLoop_true_eq_erase b1 b2 b12 pairs res

example : glvLoop (1 : ℤ) 100 (1 + 100) [(true, false), (false, false), (false, true)] true 0 = 102 ∧
    glvLoop (1 : ℤ) 100 (1 + 100) [(true, false), (false, true)] false 0 = 102 ∧
    (4 : Nat) • (1 : ℤ) + (1 : Nat) • (100 : ℤ) = 104 := by decide

/-- the bound is needed: with `N = 1`, `a = 2^63` (top bit set), `b = 0` the stream is
    `(true,false), (false,false), …`; the second pair is skipped WITHOUT doubling and the ladder returns
    `2^62 • b1` instead of `2^63 • b1` -/
theorem glv_ladder_needs_bound :
    glvLoop (1 : ℤ) 7 (1 + 7) ((bitsBE (toLimbs 1 (2 ^ 63))).zip (bitsBE (toLimbs 1 0))) true 0
      = 2 ^ 62 ∧
    (2 ^ 62 : ℤ) ≠ (2 ^ 63 : Nat) • (1 : ℤ) + (0 : Nat) • (7 : ℤ) := by
  constructor
  · decide +kernel
  · decide

/-- `glv_mul_projective = glv_mul_affine = k • p` when the endomorphism acts on `p` as `λ`, `r • p = 0`,
    the rows of the coefficient matrix lie in the lattice, and both halves satisfy
    `|kᵢ| < min r 2^(64N-1)` (`< r`: the conversion to `Fr` keeps them; `< 2^(64N-1)`: the skip logic
    of the ladder is harmless) -/
theorem glv_mul_correct (c : GlvCfg) (endo : G → G) (p : G) (k : Nat)
    (hendo : endo p = c.lambda • p) (hr : c.r • p = 0)
    (h1 : (c.n11 + (c.lambda : Int) * c.n12) % (c.r : Int) = 0)
    (h2 : (c.n21 + (c.lambda : Int) * c.n22) % (c.r : Int) = 0)
    (hk1 : (decompInt c k).1.natAbs < min c.r (2 ^ (64 * c.nLimbs - 1)))
    (hk2 : (decompInt c k).2.natAbs < min c.r (2 ^ (64 * c.nLimbs - 1))) :
    glvMulProjective c endo p k = k • p ∧ glvMulAffine c endo p k = k • p :=
  ⟨glvMul_correct c endo p k hendo hr h1 h2 hk1 hk2, glvMul_correct c endo p k hendo hr h1 h2 hk1 hk2⟩

/-- non-vacuity in `ZMod 13` (`p = 1`, `φ = 3·`): all hypotheses hold for every `k < 13`, and the model
    indeed returns `k • p` -/
example : (fun q : ZMod 13 => 3 * q) 1 = cfg13.lambda • (1 : ZMod 13) ∧ cfg13.r • (1 : ZMod 13) = 0 ∧
    (∀ k : Fin 13, (decompInt cfg13 k.val).1.natAbs < min cfg13.r (2 ^ (64 * cfg13.nLimbs - 1)) ∧
      (decompInt cfg13 k.val).2.natAbs < min cfg13.r (2 ^ (64 * cfg13.nLimbs - 1))) ∧
    (∀ k : Fin 13, glvMulProjective cfg13 (fun q => 3 * q) (1 : ZMod 13) k.val = k.val • (1 : ZMod 13))
    := by decide +kernel

/-- a (degenerate) one-limb configuration with `r = 2^64 - 59` whose first half is `k` itself -/
def cfgTopBit : GlvCfg :=
  { nLimbs := 1, r := 2 ^ 64 - 59, lambda := 1, n11 := 2 ^ 64 - 59, n12 := 0, n21 := 0, n22 := 0 }

/-- the `2^(64N-1)` part of the bound cannot be dropped from `glv_mul_correct`: every other hypothesis
    holds (`φ = id = 1•`, `r • p = 0` in `ZMod r`, rows in the lattice, `|k1| = 2^63 < r`, `k2 = 0`),
    but `k1` has its top bit set and `glv_mul_projective` returns `2^62 • p ≠ 2^63 • p` -/
theorem glv_mul_needs_top_bit_bound :
    (fun q : ZMod (2 ^ 64 - 59) => q) 1 = cfgTopBit.lambda • (1 : ZMod (2 ^ 64 - 59)) ∧
    cfgTopBit.r • (1 : ZMod (2 ^ 64 - 59)) = 0 ∧
    (cfgTopBit.n11 + (cfgTopBit.lambda : Int) * cfgTopBit.n12) % (cfgTopBit.r : Int) = 0 ∧
    (cfgTopBit.n21 + (cfgTopBit.lambda : Int) * cfgTopBit.n22) % (cfgTopBit.r : Int) = 0 ∧
    decompInt cfgTopBit (2 ^ 63) = (2 ^ 63, 0) ∧ 2 ^ 63 < cfgTopBit.r ∧
    glvMulProjective cfgTopBit (fun q => q) (1 : ZMod (2 ^ 64 - 59)) (2 ^ 63) = 2 ^ 62 ∧
    (2 ^ 63 : Nat) • (1 : ZMod (2 ^ 64 - 59)) = 2 ^ 63 ∧
    (2 ^ 62 : ZMod (2 ^ 64 - 59)) ≠ 2 ^ 63 := by
  refine ⟨by decide +kernel, ?_, by decide +kernel, by decide +kernel, by decide +kernel,
    by decide +kernel, by decide +kernel, ?_, by decide +kernel⟩
  · rw [nsmul_one]; exact ZMod.natCast_self _
  · simp only [nsmul_one, Nat.cast_pow, Nat.cast_ofNat]

end ladder

/-! ## 6. the GLV `mul_projective` override -/

/-- zero padding does not change the value -/
theorem value_append_zeros (s : List Nat) (n : Nat) : value (s ++ List.replicate n 0) = value s :=
  Ark.ScalarMulB.value_append_zeros s n

/-- both branches of the override hand `value s mod r` to `glv_mul_projective` -/
theorem glv_override_scalar (c : GlvCfg) (s : List Nat) : glvOverrideScalar c s = value s % c.r :=
  glvOverrideScalar_eq c s

example : glvOverrideScalar cfg13 [] = 0 ∧ glvOverrideScalar cfg13 [20] = 7 ∧
    glvOverrideScalar cfg13 [20, 0, 0] = 7 ∧ glvOverrideScalar cfg13 [0, 1] = 3 := by decide +kernel

section override
variable {G : Type} [AddCommGroup G]

/-- for EVERY limb list (any length, leading zero limbs, `value s ≥ r`) the override returns `.ok`
    of `glv_mul_projective` at the reduced scalar; it never panics -/
theorem sw_mul_projective_glv (c : GlvCfg) (endo : G → G) (P : G) (s : List Nat) :
    swMulProjective (.glv c) endo P s = .ok (glvMulProjective c endo P (value s % c.r)) ∧
    swMulProjective (.glv c) endo P s ≠ .panic := by
  have h : swMulProjective (.glv c) endo P s = .ok (glvMulProjective c endo P (value s % c.r)) := by
    simp only [swMulProjective, glvOverrideScalar_eq]
  exact ⟨h, by rw [h]; intro h'; cases h'⟩

/-- hence, under the hypotheses of `glv_mul_correct` for the reduced scalar, `mul_projective` (and
    `mul_bigint`, `Projective * Fr`) return the multiple by the INTEGER `value s` -/
theorem sw_mul_projective_glv_correct (c : GlvCfg) (endo : G → G) (P : G) (s : List Nat)
    (hendo : endo P = c.lambda • P) (hr : c.r • P = 0)
    (h1 : (c.n11 + (c.lambda : Int) * c.n12) % (c.r : Int) = 0)
    (h2 : (c.n21 + (c.lambda : Int) * c.n22) % (c.r : Int) = 0)
    (hk1 : (decompInt c (value s % c.r)).1.natAbs < min c.r (2 ^ (64 * c.nLimbs - 1)))
    (hk2 : (decompInt c (value s % c.r)).2.natAbs < min c.r (2 ^ (64 * c.nLimbs - 1))) :
    swMulProjective (.glv c) endo P s = .ok (value s • P) ∧
    swProjMulBigint (.glv c) endo P s = .ok (value s • P) := by
  have h : swMulProjective (.glv c) endo P s = .ok (value s • P) := by
    rw [(sw_mul_projective_glv c endo P s).1, (glv_mul_correct c endo P _ hendo hr h1 h2 hk1 hk2).1,
      mod_smul_of_order c.r P hr]
  exact ⟨h, h⟩

/-- `Projective * Fr` through the override, for every limb count `n` of the caller -/
theorem sw_proj_mul_scalar_glv_correct (c : GlvCfg) (endo : G → G) (P : G) (n k : Nat)
    (hk : k < 2 ^ (64 * n))
    (hendo : endo P = c.lambda • P) (hr : c.r • P = 0)
    (h1 : (c.n11 + (c.lambda : Int) * c.n12) % (c.r : Int) = 0)
    (h2 : (c.n21 + (c.lambda : Int) * c.n22) % (c.r : Int) = 0)
    (hk1 : (decompInt c (k % c.r)).1.natAbs < min c.r (2 ^ (64 * c.nLimbs - 1)))
    (hk2 : (decompInt c (k % c.r)).2.natAbs < min c.r (2 ^ (64 * c.nLimbs - 1))) :
    swProjMulScalar (.glv c) endo n P k = .ok (k • P) := by
  have hv := toLimbs_value_of_lt n k hk
  have := (sw_mul_projective_glv_correct c endo P (toLimbs n k) hendo hr h1 h2
    (by rw [hv]; exact hk1) (by rw [hv]; exact hk2)).2
  rw [hv] at this
  exact this

/-- the hypotheses of `sw_mul_projective_glv_correct` hold in `ZMod 13` for the three-limb `s = [20,0,0]` -/
example : (fun q : ZMod 13 => 3 * q) 1 = cfg13.lambda • (1 : ZMod 13) ∧ cfg13.r • (1 : ZMod 13) = 0 ∧
    (cfg13.n11 + (cfg13.lambda : Int) * cfg13.n12) % (cfg13.r : Int) = 0 ∧
    (cfg13.n21 + (cfg13.lambda : Int) * cfg13.n22) % (cfg13.r : Int) = 0 ∧
    (decompInt cfg13 (value [20, 0, 0] % cfg13.r)).1.natAbs < min cfg13.r (2 ^ (64 * cfg13.nLimbs - 1)) ∧
    (decompInt cfg13 (value [20, 0, 0] % cfg13.r)).2.natAbs < min cfg13.r (2 ^ (64 * cfg13.nLimbs - 1)) ∧
    swProjMulScalar (.glv cfg13) (fun q => 3 * q) 3 (1 : ZMod 13) 20 = .ok ((20 : Nat) • (1 : ZMod 13)) := by
  decide +kernel

/-- non-vacuity in `ZMod 13`: three limbs although `N = 1`, leading zero limbs, `value s ≥ r`
    (`k • 1 = (k : ZMod 13)`; the cast is used for the `2^64 + 5` case to keep `decide` fast) -/
example : swMulProjective (.glv cfg13) (fun q => 3 * q) (1 : ZMod 13) [20, 0, 0]
      = .ok ((20 : Nat) • (1 : ZMod 13)) ∧
    swMulProjective (.glv cfg13) (fun q => 3 * q) (1 : ZMod 13) [5, 1]
      = .ok ((value [5, 1] : Nat) : ZMod 13) ∧
    swMulProjective (.glv cfg13) (fun q => 3 * q) (1 : ZMod 13) [] = .ok 0 := by decide +kernel

end override

/-! ## 8. the fixed-base table -/

/-- `window ≥ 3` for every `num_scalars` (so `div_ceil(window)` never divides by zero) -/
theorem window_ge_three (ns : Nat) : 3 ≤ computeWindowSize ns := computeWindowSize_ge ns

example : computeWindowSize 0 = 3 ∧ computeWindowSize 31 = 3 ∧ computeWindowSize 32 = 3 ∧
    computeWindowSize 1000 = 6 := by decide +kernel

/-- `ceilDiv ss w` is `⌈ss/w⌉` -/
theorem ceil_div_spec (ss w : Nat) (hw : 0 < w) :
    ss ≤ w * ceilDiv ss w ∧ (∀ o, o < ceilDiv ss w → o * w < ss) :=
  ⟨le_ceilDiv_mul hw, fun _ ho => ceilDiv_mul_lt hw ho⟩

section table
variable {G : Type} [AddCommGroup G]

/-- the table built by `with_num_scalars_and_scalar_size` IS the specification table
    (the one the driver `DrvC04` compares against): `⌈ss/w⌉` rows of `2^w` entries, row `o` entry `i`
    equal to `(i·2^(w·o)) • g` for `i < 2^min(w, ss − w·o)` and to the identity above -/
theorem batch_table_exact (g : G) (ns ss : Nat) :
    (withNumScalarsAndScalarSize g ns ss).window = computeWindowSize ns ∧
    (withNumScalarsAndScalarSize g ns ss).maxScalarSize = ss ∧
    (withNumScalarsAndScalarSize g ns ss).table =
      (List.range (ceilDiv ss (computeWindowSize ns))).map (fun o =>
        (List.range (2 ^ computeWindowSize ns)).map (fun i =>
          if i < 2 ^ (min (computeWindowSize ns) (ss - computeWindowSize ns * o))
          then (i * 2 ^ (computeWindowSize ns * o)) • g else 0)) :=
  ⟨rfl, rfl, table_eq_spec g ns ss⟩

/-- entry-wise form -/
theorem batch_table_entries (g : G) (ns ss : Nat) :
    let t := withNumScalarsAndScalarSize g ns ss
    let w := t.window
    t.table.length = ceilDiv ss w ∧
    ∀ o, o < ceilDiv ss w → ∃ row, t.table[o]? = some row ∧ row.length = 2 ^ w ∧
      ∀ i, i < 2 ^ w →
        row[i]? = some (if i < 2 ^ (min w (ss - w * o)) then (i * 2 ^ (w * o)) • g else 0) := by
  intro t w
  have ht : t.table = specTable g w ss := table_eq_spec g ns ss
  refine ⟨by rw [ht, specTable_length], fun o ho => ⟨_, by rw [ht]; exact specTable_row g w ss o ho, ?_, ?_⟩⟩
  · simp
  · intro i hi
    simp [hi]

/-- `BatchMulPreprocessing::new` is the same constructor at `scalar_size = MODULUS_BIT_SIZE` -/
theorem batch_new_eq (rbits : Nat) (g : G) (ns : Nat) :
    batchNew rbits g ns = withNumScalarsAndScalarSize g ns rbits := rfl

example : (withNumScalarsAndScalarSize (1 : ℤ) 5 4).table =
    [[0, 1, 2, 3, 4, 5, 6, 7], [0, 8, 0, 0, 0, 0, 0, 0]] ∧
    (withNumScalarsAndScalarSize (1 : ℤ) 5 0).table = [] := by decide +kernel

end table

/-! ## 9. fixed-base multiplication -/

section windowed
variable {G : Type} [AddCommGroup G]

/-- `windowed_mul` on a table built by the constructor, for every `num_scalars`, every `scalar_size`
    (including `0`): a scalar `k < 2^ss`, `k < 2^rbits ≤ 2^(64N)` is multiplied exactly -/
theorem windowed_mul_exact (g : G) (ns ss rbits N k : Nat)
    (hss : k < 2 ^ ss) (hk : k < 2 ^ rbits) (hr : 2 ^ rbits ≤ 2 ^ (64 * N)) :
    windowedMul (withNumScalarsAndScalarSize g ns ss) rbits (toLimbs N k) = .ok (k • g) := by
  have hr' : rbits ≤ 64 * N := (Nat.pow_le_pow_iff_right (by omega)).mp hr
  have hw : 0 < computeWindowSize ns := by have := computeWindowSize_ge ns; omega
  have ht := toLimbs_trunc N k rbits hk hr'
  have := windowedMul_spec (withNumScalarsAndScalarSize g ns ss) g hw (table_eq_spec g ns ss) rbits
    (toLimbs N k) (toLimbs_wf N k) (by rw [toLimbs_length]; exact hr')
    (by rw [ht]; exact hss)
  rw [ht] at this
  exact this

/-- the same for an arbitrary well-formed limb list `s` with `rbits ≤ 64·|s|`: what is multiplied is
    `value s` truncated to `rbits` bits (bits at positions `≥ MODULUS_BIT_SIZE` are never read) -/
theorem windowed_mul_limbs (g : G) (ns ss rbits : Nat) (s : List Nat) (hs : WF s)
    (hr : rbits ≤ 64 * s.length) (hss : value s % 2 ^ rbits < 2 ^ ss) :
    windowedMul (withNumScalarsAndScalarSize g ns ss) rbits s = .ok ((value s % 2 ^ rbits) • g) :=
  windowedMul_spec (withNumScalarsAndScalarSize g ns ss) g
    (by have := computeWindowSize_ge ns; show 0 < computeWindowSize ns; omega)
    (table_eq_spec g ns ss) rbits s hs hr hss

/-- `windowed_mul` never panics on a table built by the constructors, whatever the scalar
    (also `≥ 2^ss`), as long as it has the `⌈rbits/64⌉` limbs a `BigInt<N>` of the scalar field has -/
theorem windowed_mul_no_panic (g : G) (ns ss rbits : Nat) (s : List Nat) (hs : WF s)
    (hr : rbits ≤ 64 * s.length) :
    (∃ x, windowedMul (withNumScalarsAndScalarSize g ns ss) rbits s = .ok x) ∧
    (∃ x, windowedMul (batchNew rbits g ns) rbits s = .ok x) :=
  have hw : 0 < computeWindowSize ns := by have := computeWindowSize_ge ns; omega
  ⟨windowedMul_ok (withNumScalarsAndScalarSize g ns ss) g hw (table_eq_spec g ns ss) rbits s hs hr,
   windowedMul_ok (withNumScalarsAndScalarSize g ns rbits) g hw (table_eq_spec g ns rbits) rbits s hs hr⟩

example : WF [B - 1, 3] ∧ 70 ≤ 64 * [B - 1, 3].length ∧ value [B - 1, 3] % 2 ^ 70 < 2 ^ 66 ∧
    windowedMul (withNumScalarsAndScalarSize (1 : ℤ) 40 66) 70 [B - 1, 3]
      = .ok ((value [B - 1, 3] % 2 ^ 70 : Nat) : ℤ) ∧
    windowedMul (withNumScalarsAndScalarSize (1 : ℤ) 40 3) 70 [B - 1, 3] = .ok 0 := by
  refine ⟨by unfold WF; decide +kernel, by decide, by decide +kernel, by decide +kernel,
    by decide +kernel⟩

/-- the limb-count hypothesis of `windowed_mul_no_panic` is needed (and always true in Rust, where the
    scalar is a `BigInt<N>` with `MODULUS_BIT_SIZE ≤ 64N`): a one-limb scalar with `rbits = ss = 65`
    makes the model index bit 64 of a 64-bit vector -/
example : windowedMul (withNumScalarsAndScalarSize (1 : ℤ) 0 65) 65 [0] = .panic := by decide +kernel

/-- `batch_mul` maps `windowed_mul` over the scalars -/
theorem batch_mul_exact (g : G) (ns ss rbits N : Nat) (ks : List Nat)
    (hks : ∀ k ∈ ks, k < 2 ^ ss ∧ k < 2 ^ rbits) (hr : 2 ^ rbits ≤ 2 ^ (64 * N)) :
    batchMul (withNumScalarsAndScalarSize g ns ss) rbits (ks.map (toLimbs N))
      = .ok (ks.map (fun k => k • g)) := by
  unfold batchMul
  rw [mapOutcome_ok _ (fun s => (value s % 2 ^ rbits) • g), List.map_map]
  · congr 1
    apply List.map_congr_left
    intro k hk
    have hr' : rbits ≤ 64 * N := (Nat.pow_le_pow_iff_right (by omega)).mp hr
    simp only [Function.comp, toLimbs_trunc N k rbits (hks k hk).2 hr']
  · intro s hs
    obtain ⟨k, hk, rfl⟩ := List.mem_map.mp hs
    have hr' : rbits ≤ 64 * N := (Nat.pow_le_pow_iff_right (by omega)).mp hr
    have := windowed_mul_exact g ns ss rbits N k (hks k hk).1 (hks k hk).2 hr
    rw [this, toLimbs_trunc N k rbits (hks k hk).2 hr']

/-- `batch_mul` never panics on well-formed scalars with enough limbs; one output per input -/
theorem batch_mul_no_panic (g : G) (ns ss rbits : Nat) (v : List (List Nat))
    (hv : ∀ s ∈ v, WF s ∧ rbits ≤ 64 * s.length) :
    ∃ out, batchMul (withNumScalarsAndScalarSize g ns ss) rbits v = .ok out ∧ out.length = v.length :=
  mapOutcome_no_panic _ v (fun s hs => (windowed_mul_no_panic g ns ss rbits s (hv s hs).1 (hv s hs).2).1)

/-- `ScalarMul::batch_mul`: table for `MODULUS_BIT_SIZE`-bit scalars, window from the batch length -/
theorem scalar_mul_batch_mul_exact (g : G) (rbits N : Nat) (ks : List Nat)
    (hks : ∀ k ∈ ks, k < 2 ^ rbits) (hr : 2 ^ rbits ≤ 2 ^ (64 * N)) :
    scalarMulBatchMul rbits g (ks.map (toLimbs N)) = .ok (ks.map (fun k => k • g)) := by
  unfold scalarMulBatchMul batchNew
  exact batch_mul_exact g _ rbits rbits N ks (fun k hk => ⟨hks k hk, hks k hk⟩) hr

/-- non-vacuity over `ℤ` (`g = 1`): all scalars below `2^5`, `rbits = 5 ≤ 64` -/
example : (∀ k ∈ [0, 1, 17, 31], k < 2 ^ 5) ∧ 2 ^ 5 ≤ 2 ^ (64 * 1) ∧
    scalarMulBatchMul 5 (1 : ℤ) ([0, 1, 17, 31].map (toLimbs 1)) = .ok [0, 1, 17, 31] ∧
    windowedMul (withNumScalarsAndScalarSize (1 : ℤ) 100 0) 5 (toLimbs 1 0) = .ok 0 ∧
    windowedMul (withNumScalarsAndScalarSize (1 : ℤ) 100 7) 64 (toLimbs 2 100) = .ok 100 := by
  decide +kernel

/-- the hypothesis `k < 2^ss` is needed: with `ss = 1` (one row `[0, g, 0, …]`) the scalar `k = 2`
    reads the padding entry and the result is `0 ≠ 2 • g` — no panic, a wrong point -/
theorem windowed_mul_needs_scalar_size :
    windowedMul (withNumScalarsAndScalarSize (1 : ℤ) 0 1) 64 (toLimbs 1 2) = .ok 0 ∧
    (0 : ℤ) ≠ (2 : Nat) • (1 : ℤ) ∧ ¬ (2 < 2 ^ 1) := by
  decide +kernel

end windowed

end Ark.C04
